import Wee.Gen.SearchFns
import Wee.Proofs.EvalFnsBridge
import Wee.Proofs.TTFnsBridge
import Wee.Proofs.SearchCtl
/-!
# Bridge, stage 4a: the search recursion translated from `searcher.rs` (`Wee/Gen/SearchFns.lean`) REFINES the
hand-written model (`quiesce`, `searchNode` of `Wee/Model/Search.lean`)

Form of the theorems ("when it returns", as for the evaluator in stage 3b): whenever the generated function does not
panic (debug profile: checked arithmetic, `unwrap`s of the callees) and does not run out of the translation's fuel, the
model returns the same value / the same interrupt, in the corresponding final state of the cells.
-/
namespace Wee
namespace GenFns
open Wee.Search Wee.SearchCtl

/-! ## the `QM` monad (`Result<T, SearchInterrupt>` without cells) -/

/-- generated outcome `g` refines model outcome `m` (values related by `R`) -/
def QRef {α β : Type} (R : α → β → Prop) (g : QM α) (m : Except Stop β) : Prop :=
  match g with
  | .ok v => ∃ w, m = .ok w ∧ R v w
  | .error .interrupt => m = .error .interrupt
  | .error _ => True

/-- `Evaluation` (i32) denotes the model's `Eval` (Int) -/
def EvR (v : Evaluation) (w : Eval) : Prop := v.toInt = w

theorem qref_liftP_bind {α γ β : Type} {R : γ → β → Prop} {p : Panics α} {f : α → QM γ} {m : Except Stop β}
    (h : ∀ v, p = some v → QRef R (f v) m) : QRef R (QM.liftP p >>= f) m := by
  cases p with
  | none => exact True.intro
  | some v => exact h v rfl

theorem qref_pure {α β : Type} {R : α → β → Prop} {v : α} {w : β} (h : R v w) : QRef R (pure v : QM α) (.ok w) :=
  ⟨w, rfl, h⟩

theorem qref_bind {α γ β δ : Type} {R : γ → β → Prop} {S : α → δ → Prop} {x : QM α} {f : α → QM γ}
    {mx : Except Stop δ} {mf : δ → Except Stop β}
    (hx : QRef S x mx) (hf : ∀ v w, S v w → QRef R (f v) (mf w)) :
    QRef R (x >>= f) (match mx with | .ok w => mf w | .error e => .error e) := by
  cases x with
  | error e =>
    cases e with
    | interrupt => have : mx = .error .interrupt := hx; subst this; exact rfl
    | panic => exact True.intro
    | out_of_fuel => exact True.intro
  | ok v =>
    obtain ⟨w, hw, hs⟩ := hx
    subst hw
    exact hf v w hs

/-! ## Int32 order and negation -/

theorem i32_le_iff (a b : Int32) : a ≤ b ↔ a.toInt ≤ b.toInt := Int32.le_iff_toInt_le
theorem i32_lt_iff (a b : Int32) : a < b ↔ a.toInt < b.toInt := Int32.lt_iff_toInt_lt


/-! ## callees of `quiescence_search` -/

/-- `compute_legal_moves_into` on a fresh buffer: the `legal_moves` field is the model's `legalMoves?` -/
theorem legal_moves_into (s : Wee.State) (ok : StateOK s) (b buf : MoveGenerationBuffer)
    (h : MoveGenerator.compute_legal_moves_into (stateOf s) b = some buf) :
    ∃ ms, legalMoves? s = some ms ∧ buf.f_legal_moves = (ms.map resOf).toArray := by
  rw [MoveGenerator.compute_legal_moves_into_eq s b ok (pseudoLegalMoves_wf s)] at h
  unfold legalMoves?
  cases hp : pseudoLegalMoves s with
  | none => rw [hp] at h; cases h
  | some ps =>
    rw [hp] at h
    simp only [Option.bind_some] at h
    cases hm : ps.mapM (tryAsLegal s) with
    | none => rw [hm] at h; cases h
    | some rs =>
      rw [hm] at h
      cases h
      refine ⟨rs.filterMap id, ?_, rfl⟩
      simp [hm]

theorem evaluate_turn (s : Wee.State) (ok : StateOK s) (depth : UInt64) (hd : depth.toNat < 2 ^ 31) (r : Int32)
    (h : Evaluator.evaluate ⟨eval.EVALUATORS⟩ (stateOf s) (State.turn_to_move (stateOf s)) depth = some r) :
    Wee.evaluate s s.turn depth.toNat = some r.toInt :=
  Evaluator.evaluate_eq s ok s.turn depth hd r h

theorem is_capture_some {m : UInt32} {b : Bool} (h : Move.is_capture m = some b) : b = Wee.Move.isCapture m := by
  rw [Move.is_capture_eq] at h
  split at h
  · cases h; rfl
  · cases h

/-- `legal_moves.iter().all(|m| !m.0.is_capture())` -/
theorem iter_all_quiet (ms : List (Wee.Move × Wee.State)) (b : Bool)
    (h : SPrim.iter_all (fun (m : Move × State) => do let t ← Move.is_capture m.1; pure (!t)) (ms.map resOf) = some b) :
    b = ms.all fun r => !Wee.Move.isCapture r.1 := by
  induction ms with
  | nil => simp [SPrim.iter_all] at h; simp [h]
  | cons r rest ih =>
    simp only [List.map_cons, SPrim.iter_all] at h
    cases hc : Move.is_capture (resOf r).1 with
    | none => simp [hc] at h
    | some t =>
      have ht := is_capture_some hc
      simp only [hc, Option.bind_eq_bind, Option.bind_some, Option.pure_def] at h
      have e : (resOf r).1 = r.1 := rfl
      rw [e] at ht
      cases t with
      | true =>
        simp only [Bool.not_true] at h
        cases h
        simp [← ht]
      | false =>
        simp only [Bool.not_false] at h
        rw [ih h]
        simp [← ht]

/-! ## `sort_by_cached_key` in the `Panics` monad -/

theorem keyed_mapM {α β : Type} (f : β → α) (kf : α → Panics Int32) (km : β → Int)
    (hk : ∀ r k, kf (f r) = some k → k.toInt = km r) :
    ∀ (xs : List β) (keyed : List (Int32 × α)),
      (xs.map f).mapM (fun x => do let k ← kf x; pure (k, x)) = some keyed →
      ∃ L : List (Int32 × β), L.map (·.2) = xs ∧ keyed = L.map (fun p => (p.1, f p.2)) ∧ ∀ p ∈ L, p.1.toInt = km p.2 := by
  intro xs
  induction xs with
  | nil => intro keyed h; simp at h; exact ⟨[], rfl, by simp [h], by simp⟩
  | cons x xs ih =>
    intro keyed h
    rw [List.map_cons, List.mapM_cons] at h
    cases hx : kf (f x) with
    | none => simp only [hx, Option.bind_eq_bind, Option.bind_none] at h; cases h
    | some k =>
      cases hr : (xs.map f).mapM (fun x => do let k ← kf x; pure (k, x)) with
      | none => rw [hr] at h; simp only [hx, Option.bind_eq_bind, Option.bind_some, Option.bind_none, Option.pure_def] at h; cases h
      | some rest =>
        rw [hr] at h
        simp only [hx, Option.bind_eq_bind, Option.bind_some, Option.pure_def, Option.some.injEq] at h
        obtain ⟨L, h1, h2, h3⟩ := ih rest hr
        refine ⟨(k, x) :: L, by simp [h1], by simp [← h, h2], ?_⟩
        intro p hp
        rcases List.mem_cons.1 hp with rfl | hp
        · exact hk x k hx
        · exact h3 p hp

/-- the generated sort (keys `i32`, computed by a closure that may panic) is the model's stable sort by the `Int` keys -/
theorem sort_cached_refines {α β : Type} (f : β → α) (xs : List β) (kf : α → Panics Int32) (km : β → Int)
    (hk : ∀ r k, kf (f r) = some k → k.toInt = km r) (ys : Array α)
    (h : SPrim.sort_by_cached_key (m := Option) (xs.map f).toArray kf = some ys) :
    ys = ((if xs.length < 2 then xs
           else ((xs.map fun r => (km r, r)).mergeSort fun a b => a.1 ≤ b.1).map (·.2)).map f).toArray := by
  unfold SPrim.sort_by_cached_key at h
  simp only [List.size_toArray, List.length_map] at h
  by_cases hl : xs.length < 2
  · simp only [hl, if_true] at h ⊢
    cases h; rfl
  · simp only [hl, if_false, List.toList_toArray] at h ⊢
    cases hm : (xs.map f).mapM (fun x => do let k ← kf x; pure (k, x)) with
    | none => rw [hm] at h; simp only [Option.bind_eq_bind, Option.bind_none] at h; cases h
    | some keyed =>
      rw [hm] at h
      simp only [Option.bind_eq_bind, Option.bind_some, Option.pure_def, Option.some.injEq] at h
      obtain ⟨L, h1, h2, h3⟩ := keyed_mapM f kf km hk xs keyed hm
      subst h
      have e1 : keyed.mergeSort (fun a b => decide (a.1 ≤ b.1))
          = (L.mergeSort (fun a b => decide (a.1 ≤ b.1))).map (fun p => (p.1, f p.2)) := by
        rw [h2]; symm; exact List.map_mergeSort (fun a _ b _ => rfl)
      have e2 : (xs.map fun r => (km r, r)).mergeSort (fun a b => decide (a.1 ≤ b.1))
          = (L.mergeSort (fun a b => decide (a.1 ≤ b.1))).map (fun p => (p.1.toInt, p.2)) := by
        have : xs.map (fun r => (km r, r)) = L.map (fun p => (p.1.toInt, p.2)) := by
          rw [← h1, List.map_map]
          apply List.map_congr_left
          intro p hp
          simp [h3 p hp]
        rw [this]; symm
        exact List.map_mergeSort (fun a _ b _ => by simp [Int32.le_iff_toInt_le])
      rw [e1, e2]
      simp [List.map_map, Function.comp_def]

/-! ## the capture loop of `quiescence_search` -/

/-- one iteration of the model's capture loop (`quiesce.loop`) as a step function -/
def qstepM (fuel depth : Nat) (beta alpha : Eval) (r : Wee.Move × Wee.State) : Except Stop (Early Eval Eval) :=
  if (!Wee.Move.isCapture r.1) = true then .ok (.cont alpha) else
  match quiesce evaluate fuel r.2 (depth + 1) (-beta) (-alpha) with
  | .error e => .error e
  | .ok v => if -v ≥ beta then .ok (.ret beta) else .ok (.cont (if -v > alpha then -v else alpha))

def EarlyR : Early Evaluation Evaluation → Early Eval Eval → Prop
  | .ret a, .ret b => a.toInt = b
  | .cont a, .cont b => a.toInt = b
  | _, _ => False

/-- the value a finished loop stands for: `Early.ret r => r`, `Early.cont alpha => alpha` -/
def EarlyV (e : Early Evaluation Evaluation) (w : Eval) : Prop :=
  (match e with | .ret a => a.toInt | .cont a => a.toInt) = w

theorem for_early_qloop (fuel depth : Nat) (beta : Eval)
    (body : Evaluation → (Move × State) → QM (Early Evaluation Evaluation)) :
    ∀ (l : List (Wee.Move × Wee.State)) (alpha : Int32),
      (∀ r ∈ l, ∀ a : Int32, QRef EarlyR (body a (resOf r)) (qstepM fuel depth beta a.toInt r)) →
      QRef EarlyV (SPrim.for_early (m := QM) body (l.map resOf) alpha)
        (quiesce.loop evaluate fuel depth beta l alpha.toInt) := by
  intro l
  induction l with
  | nil =>
    intro alpha _
    rw [quiesce.loop.eq_1]
    exact ⟨_, rfl, rfl⟩
  | cons r rest ih =>
    intro alpha hb
    have h1 := hb r List.mem_cons_self alpha
    have hrest : ∀ r ∈ rest, ∀ a : Int32, QRef EarlyR (body a (resOf r)) (qstepM fuel depth beta a.toInt r) :=
      fun x hx => hb x (List.mem_cons_of_mem _ hx)
    rw [quiesce.loop.eq_2]
    simp only [List.map_cons, SPrim.for_early]
    unfold qstepM at h1
    cases hg : body alpha (resOf r) with
    | error e =>
      rw [hg] at h1
      cases e with
      | interrupt =>
        have h1' : (if (!Wee.Move.isCapture r.1) = true then (Except.ok (Early.cont alpha.toInt) : Except Stop (Early Eval Eval)) else
          match quiesce evaluate fuel r.2 (depth + 1) (-beta) (-alpha.toInt) with
          | .error e => .error e
          | .ok v => if -v ≥ beta then .ok (.ret beta) else .ok (.cont (if -v > alpha.toInt then -v else alpha.toInt)))
            = .error .interrupt := h1
        by_cases hc : (!Wee.Move.isCapture r.1) = true
        · rw [if_pos hc] at h1'; cases h1'
        · rw [if_neg hc] at h1' ⊢
          cases hq : quiesce evaluate fuel r.2 (depth + 1) (-beta) (-alpha.toInt) with
          | error e' => rw [hq] at h1'; simp only [] at h1'; cases h1'; exact rfl
          | ok v =>
            rw [hq] at h1'
            simp only [] at h1'
            split at h1' <;> cases h1'
      | panic => exact True.intro
      | out_of_fuel => exact True.intro
    | ok e =>
      rw [hg] at h1
      obtain ⟨w, hw, hr⟩ := h1
      by_cases hc : (!Wee.Move.isCapture r.1) = true
      · rw [if_pos hc] at hw ⊢
        cases hw
        cases e with
        | ret a => exact hr.elim
        | cont a =>
          have : a.toInt = alpha.toInt := hr
          rw [← this]
          exact ih a hrest
      · rw [if_neg hc] at hw ⊢
        cases hq : quiesce evaluate fuel r.2 (depth + 1) (-beta) (-alpha.toInt) with
        | error e' => rw [hq] at hw; cases hw
        | ok v =>
          rw [hq] at hw
          simp only [] at hw ⊢
          by_cases c1 : -v ≥ beta
          · rw [if_pos c1] at hw ⊢
            cases hw
            cases e with
            | ret a => exact ⟨_, rfl, hr⟩
            | cont a => exact hr.elim
          · rw [if_neg c1] at hw ⊢
            cases hw
            cases e with
            | ret a => exact hr.elim
            | cont a =>
              have : a.toInt = (if -v > alpha.toInt then -v else alpha.toInt) := hr
              rw [← this]
              exact ih a hrest

/-! ## `StateOK` (what the Rust `State` type can hold) is kept by the legal moves -/

theorem clockSucc_lt (n : Nat) (h : n < 2 ^ 64) : clockSucc n < 2 ^ 64 := by
  unfold clockSucc; split <;> omega

theorem stateOK_perform (s next : Wee.State) (mv : Wee.Move) (ok : StateOK s)
    (h : performMove s mv = some (.ok next)) : StateOK next := by
  unfold performMove at h
  split at h
  · cases h
  · split at h
    · cases h
    · simp only [] at h
      split at h
      · cases h
      · simp only [Option.some.injEq, Except.ok.injEq] at h
        subst h
        refine ⟨?_, ?_, ?_⟩
        · intro t ht
          simp only [] at ht
          split at ht
          · exact offset_lt64 _ _ _ _ ht
          · cases ht
        · simp only []
          split
          · omega
          · exact clockSucc_lt _ ok.half
        · simp only []
          split
          · exact clockSucc_lt _ ok.full
          · exact ok.full

theorem stateOK_legal (s : Wee.State) (ok : StateOK s) (ms : List (Wee.Move × Wee.State)) (h : legalMoves? s = some ms) :
    ∀ r ∈ ms, StateOK r.2 := by
  unfold legalMoves? at h
  cases hp : pseudoLegalMoves s with
  | none => simp [hp] at h
  | some ps =>
    cases hm : ps.mapM (tryAsLegal s) with
    | none => simp [hp, hm] at h
    | some rs =>
      simp [hp, hm] at h
      subst h
      intro r hr
      obtain ⟨o, ho, hid⟩ := List.mem_filterMap.1 hr
      simp only [id] at hid
      subst hid
      obtain ⟨mv, _, hmv⟩ := mapM_some_mem _ _ _ hm _ ho
      unfold tryAsLegal at hmv
      split at hmv
      · rename_i next hpm
        simp only [] at hmv
        split at hmv
        · cases hmv; exact stateOK_perform s next mv ok hpm
        · cases hmv
      · cases hmv

/-! ## `quiescence_search` -/

theorem qref_early_finish {x : QM (Early Evaluation Evaluation)} {m : Except Stop Eval} (h : QRef EarlyV x m) :
    QRef EvR (x >>= fun t => match t with | Early.ret r => pure r | Early.cont r => pure r) m := by
  cases x with
  | error e => cases e <;> exact h
  | ok t =>
    obtain ⟨w, hw, hv⟩ := h
    cases t with
    | ret a => exact ⟨w, hw, hv⟩
    | cont a => exact ⟨w, hw, hv⟩

theorem ite_pure_bind {α β : Type} (c : Prop) [Decidable c] (a b : α) (f : α → QM β) :
    ((if c then pure a else pure b : QM α) >>= f) = f (if c then a else b) := by
  split <;> rfl

theorem u64_add_one_some {d r : UInt64} (h : UInt64.checked_add d 1 = some r) : r.toNat = d.toNat + 1 := by
  unfold UInt64.checked_add at h
  split at h
  · rename_i hl
    cases h
    have : (1 : UInt64).toNat = 1 := rfl
    rw [UInt64.toNat_add, this, Nat.mod_eq_of_lt (by simpa [this] using hl)]
  · cases h

/-- the ordering key of the capture sort: the generated closure computes the model's key -/
theorem qkey_spec (r : Wee.Move × Wee.State) (k : Int32)
    (h : (do
        let tmp7 ← Move.piece (resOf r).1
        let tmp8 ← ArrayMap.index evaluate_piece_worths.PIECE_PAWN_WORTHS (Index.from_Piece tmp7)
        let tmp9 ← Move.capture (resOf r).1
        let tmp11 ← SPrim.option_map (fun p => ArrayMap.index evaluate_piece_worths.PIECE_PAWN_WORTHS (Index.from_Piece p)) tmp9
        pure (f32.to_i32 (-F32.mul (F32.sub (tmp11.getD (f32.ofBits 0)) tmp8) (f32.ofBits 1092616192))) : Panics Int32) = some k) :
    k.toInt = F32.toI32 (-F32.mul (F32.sub (match Wee.Move.capture r.1 with | some p => pieceWorth p | none => 0)
        (pieceWorth (Wee.Move.piece r.1))) Gen.quiesceSortFactor) := by
  have e : (resOf r).1 = r.1 := rfl
  rw [e, Move.piece_eq] at h
  cases hp : Wee.Move.piece? r.1 with
  | none => rw [hp] at h; cases h
  | some p =>
    rw [hp] at h
    simp only [Option.bind_eq_bind, Option.bind_some, PIECE_PAWN_WORTHS_index] at h
    cases hc : Move.capture r.1 with
    | none => rw [hc] at h; cases h
    | some c =>
      rw [hc] at h
      have hcm := Move.capture_some _ _ hc
      have hpm : Wee.Move.piece r.1 = p := by unfold Wee.Move.piece; rw [hp]; rfl
      have l0 : f32.ofBits 0 = 0 := by decide +kernel
      have l10 : f32.ofBits 1092616192 = Gen.quiesceSortFactor := by decide +kernel
      rw [hcm, hpm]
      cases c with
      | none =>
        simp only [Option.bind_some, SPrim.option_map, Option.pure_def, Option.some.injEq, Option.getD_none] at h
        subst h
        rw [f32.to_i32_toInt, l0, l10]
      | some cp =>
        simp only [Option.bind_some, SPrim.option_map, PIECE_PAWN_WORTHS_index, Option.pure_def, Option.some.injEq, Option.getD_some] at h
        subst h
        rw [f32.to_i32_toInt, l10]


/-- **`Searcher::quiescence_search` refines `quiesce`** (same fuel): whenever the translated function returns a value
(no debug-profile panic, fuel not exhausted), the model returns the same value. -/
theorem Searcher.quiescence_search_refines (fuel : Nat) : ∀ (s : Wee.State) (ok : StateOK s) (depth : UInt64)
    (hd : depth.toNat + fuel < 2 ^ 31) (alpha beta : Int32),
    QRef EvR (Searcher.quiescence_search fuel (stateOf s) ⟨eval.EVALUATORS⟩ depth alpha beta)
      (quiesce evaluate fuel s depth.toNat alpha.toInt beta.toInt) := by
  induction fuel with
  | zero => intro s ok depth hd alpha beta; exact True.intro
  | succ fuel ih =>
    intro s ok depth hd alpha beta
    rw [Searcher.quiescence_search, quiesce.eq_2]
    refine qref_liftP_bind (fun buf hbuf => ?_)
    obtain ⟨ms, hms, hlm⟩ := legal_moves_into s ok _ buf hbuf
    rw [hms]
    simp only [hlm]
    have hemp : (List.map resOf ms).toArray.isEmpty = ms.isEmpty := by cases ms <;> rfl
    rw [hemp]
    by_cases he : ms.isEmpty = true
    · rw [if_pos he, if_pos he]
      cases hv : Evaluator.evaluate ⟨eval.EVALUATORS⟩ (stateOf s) (State.turn_to_move (stateOf s)) depth with
      | none => exact True.intro
      | some r =>
        rw [evaluate_turn s ok depth (by omega) r hv]
        exact ⟨_, rfl, rfl⟩
    · rw [if_neg he, if_neg he]
      refine qref_liftP_bind (fun q hq => ?_)
      have hq' := iter_all_quiet ms q hq
      generalize hp : Evaluator.evaluate ⟨eval.EVALUATORS⟩ (stateOf s) (State.turn_to_move (stateOf s)) depth = p
      cases p with
      | none => exact True.intro
      | some normal =>
      have hn := evaluate_turn s ok depth (by omega) normal hp
      rw [hn, ← hq']
      show QRef EvR (if q = true then _ else _) (if q = true then _ else _)
      by_cases hquiet : q = true
      · rw [if_pos hquiet, if_pos hquiet]; exact ⟨_, rfl, rfl⟩
      · rw [if_neg hquiet, if_neg hquiet]
        have hge : decide (normal ≥ beta) = true ↔ normal.toInt ≥ beta.toInt := by
          rw [decide_eq_true_iff]; exact Int32.le_iff_toInt_le
        by_cases hcut : normal.toInt ≥ beta.toInt
        · rw [if_pos (hge.2 hcut), if_pos hcut]; exact ⟨_, rfl, rfl⟩
        · rw [if_neg (fun h => hcut (hge.1 h)), if_neg hcut]
          rw [ite_pure_bind]
          refine qref_liftP_bind (fun sorted hsorted => ?_)
          have hs := sort_cached_refines resOf ms _ _ (fun r k hk => qkey_spec r k hk) sorted hsorted
          rw [hs]
          have halpha : (if decide (alpha < normal) = true then normal else alpha).toInt
              = (if alpha.toInt < normal.toInt then normal.toInt else alpha.toInt) := by
            by_cases c : alpha.toInt < normal.toInt
            · rw [if_pos c, if_pos (by rw [decide_eq_true_iff]; exact Int32.lt_iff_toInt_lt.2 c)]
            · rw [if_neg c, if_neg (by rw [decide_eq_true_iff]; exact fun h => c (Int32.lt_iff_toInt_lt.1 h))]
          rw [← halpha]
          refine qref_early_finish (for_early_qloop fuel depth.toNat beta.toInt _ _ _ ?_)
          intro r hr a
          have hrm : r ∈ ms := by
            split at hr
            · exact hr
            · obtain ⟨x, hx, rfl⟩ := List.mem_map.1 hr
              obtain ⟨y, hy, hxy⟩ := List.mem_map.1 (List.mem_mergeSort.1 hx)
              rw [← hxy]; exact hy
          have okr := stateOK_legal s ok ms hms r hrm
          unfold qstepM
          refine qref_liftP_bind (fun t ht => ?_)
          have ht' := is_capture_some ht
          have e : (resOf r).1 = r.1 := rfl
          rw [e] at ht'
          rw [← ht']
          by_cases hc : (!t) = true
          · rw [if_pos hc, if_pos hc]; exact ⟨_, rfl, rfl⟩
          · rw [if_neg hc, if_neg hc]
            refine qref_liftP_bind (fun d1 hd1 => ?_)
            have hd1' := u64_add_one_some hd1
            refine qref_liftP_bind (fun nb hnb => ?_)
            refine qref_liftP_bind (fun na hna => ?_)
            have := ih r.2 okr d1 (by omega) nb na
            rw [hd1', Evaluation.neg_some hnb, Evaluation.neg_some hna] at this
            have e2 : (resOf r).2 = stateOf r.2 := rfl
            rw [e2]
            generalize Searcher.quiescence_search fuel (stateOf r.2) ⟨eval.EVALUATORS⟩ d1 nb na = g at this
            cases g with
            | error e =>
              cases e with
              | interrupt =>
                have hm : quiesce evaluate fuel r.2 (depth.toNat + 1) (-beta.toInt) (-a.toInt) = .error .interrupt := this
                rw [hm]; exact rfl
              | panic => exact True.intro
              | out_of_fuel => exact True.intro
            | ok v =>
            obtain ⟨w, hw, hvw⟩ := this
            rw [hw]
            refine qref_liftP_bind (fun nv hnv => ?_)
            have hnv' := Evaluation.neg_some hnv
            have hvw' : v.toInt = w := hvw
            rw [hvw'] at hnv'
            show QRef EarlyR _ (if -w ≥ beta.toInt then _ else _)
            rw [← hnv']
            have hge2 : decide (nv ≥ beta) = true ↔ nv.toInt ≥ beta.toInt := by
              rw [decide_eq_true_iff]; exact Int32.le_iff_toInt_le
            by_cases c1 : nv.toInt ≥ beta.toInt
            · rw [if_pos (hge2.2 c1), if_pos c1]; exact ⟨_, rfl, rfl⟩
            · rw [if_neg (fun h => c1 (hge2.1 h)), if_neg c1]
              have hgt : decide (nv > a) = true ↔ nv.toInt > a.toInt := by
                rw [decide_eq_true_iff]; exact Int32.lt_iff_toInt_lt
              by_cases c2 : nv.toInt > a.toInt
              · rw [if_pos (hgt.2 c2), if_pos c2]; exact ⟨_, rfl, rfl⟩
              · rw [if_neg (fun h => c2 (hgt.1 h)), if_neg c2]; exact ⟨_, rfl, rfl⟩

/-- the same, spelled out: a returned value is the model's value (the model's fuel is the translation's fuel) -/
theorem Searcher.quiescence_search_eq (fuel : Nat) (s : Wee.State) (ok : StateOK s) (depth : UInt64)
    (hd : depth.toNat + fuel < 2 ^ 31) (alpha beta v : Int32)
    (h : Searcher.quiescence_search fuel (stateOf s) ⟨eval.EVALUATORS⟩ depth alpha beta = .ok v) :
    quiesce evaluate fuel s depth.toNat alpha.toInt beta.toInt = .ok v.toInt := by
  have := Searcher.quiescence_search_refines fuel s ok depth hd alpha beta
  rw [h] at this
  obtain ⟨w, hw, hv⟩ := this
  rw [hw, ← (hv : v.toInt = w)]

/-- `quiescence_search` never answers `Err(SearchInterrupt)` -/
theorem Searcher.quiescence_search_no_interrupt (fuel : Nat) (s : Wee.State) (ok : StateOK s) (depth : UInt64)
    (hd : depth.toNat + fuel < 2 ^ 31) (alpha beta : Int32)
    (hm : quiesce evaluate fuel s depth.toNat alpha.toInt beta.toInt ≠ .error .interrupt) :
    Searcher.quiescence_search fuel (stateOf s) ⟨eval.EVALUATORS⟩ depth alpha beta ≠ .error .interrupt := by
  intro h
  have := Searcher.quiescence_search_refines fuel s ok depth hd alpha beta
  rw [h] at this
  exact hm this

/-! ## the table operations, "when they return" (no hypothesis on the `used_slots` counter) -/

theorem TranspositionTable.insert_some (t t' : TranspositionTable) (h : UInt64) (e : TranspositionEntry) (w : TableWF t)
    (hs : TranspositionTable.insert t h e = some t') :
    tableOf t' = (tableOf t).insert h.toNat (entryOf e) ∧ TableWF t' := by
  by_cases hused : t.f_used_slots.toNat + 1 < 2 ^ 64
  · obtain ⟨t2, h2, h3, h4⟩ := TranspositionTable.insert_eq t h e w hused
    rw [hs] at h2; cases h2; exact ⟨h3, h4⟩
  · -- the counter is at its maximum: run the same insert on a copy with the counter reset
    obtain ⟨ix, hix, hixn⟩ := checked_rem_len h t.f_buckets w.pos w.size_lt
    have hlt : ix.toNat < t.f_buckets.size := by rw [hixn]; exact Nat.mod_lt _ w.pos
    have hbw : BucketWF t.f_buckets[ix.toNat] := w.buckets _ (by simp)
    obtain ⟨r, b', hb, hb'⟩ := TranspositionBucket.insert_or_replace_eq t.f_buckets[ix.toNat] h e
      (by rw [hbw]; decide) (by rw [hbw]; decide)
    by_cases hins : r.inserted = true
    · exfalso
      simp [TranspositionTable.insert, hix, index_some _ _ hlt, hb, ArrayMap.set, hlt, hins, UInt64.checked_add, hused, bind, pure] at hs
    · let t0 : TranspositionTable := { t with f_used_slots := 0 }
      have w0 : TableWF t0 := ⟨w.pos, w.lt, w.buckets⟩
      obtain ⟨t2, h2, h3, h4⟩ := TranspositionTable.insert_eq t0 h e w0 (by show (0 : UInt64).toNat + 1 < 2 ^ 64; decide)
      have e1 : t' = { f_buckets := t.f_buckets.setIfInBounds ix.toNat b', f_used_slots := t.f_used_slots } := by
        simp [TranspositionTable.insert, hix, index_some _ _ hlt, hb, ArrayMap.set, hlt, hins, bind, pure] at hs
        exact hs.symm
      have e2 : t2 = { f_buckets := t.f_buckets.setIfInBounds ix.toNat b', f_used_slots := 0 } := by
        simp [TranspositionTable.insert, t0, hix, index_some _ _ hlt, hb, ArrayMap.set, hlt, hins, bind, pure] at h2
        exact h2.symm
      have hget : (List.map bucketOf t.f_buckets.toList).getD ix.toNat [] = bucketOf t.f_buckets[ix.toNat] :=
        getD_map_toList bucketOf t.f_buckets _ _ t.f_buckets[ix.toNat] (by simp [hlt])
      have h1 : (TT.insertB (bucketOf t.f_buckets[ix.toNat]) h.toNat (entryOf e)).1 = bucketOf b' := (congrArg Prod.fst hb').symm
      have h2' : (TT.insertB (bucketOf t.f_buckets[ix.toNat]) h.toNat (entryOf e)).2 = r.inserted := (congrArg Prod.snd hb').symm
      refine ⟨?_, ?_⟩
      · subst e1
        simp only [TT.Table.insert, tableOf, List.length_map, Array.length_toList, ← hixn, hget, h1, h2']
        simp [hins]
      · subst e1; subst e2
        exact ⟨h4.pos, h4.lt, h4.buckets⟩

theorem TranspositionTableAccess.insert_some (a a' : TranspositionTableAccess) (h : UInt64) (e : TranspositionEntry) (w : AccessWF a)
    (hs : TranspositionTableAccess.insert a h e = some a') :
    accessOf a' = (accessOf a).insert h.toNat (entryOf e) ∧ AccessWF a' := by
  obtain ⟨ix, hix, hixn⟩ := checked_rem_len h a.f_tables w.pos w.lt
  have hlt : ix.toNat < a.f_tables.size := by rw [hixn]; exact Nat.mod_lt _ w.pos
  cases ht : TranspositionTable.insert a.f_tables[ix.toNat] h e with
  | none => simp [TranspositionTableAccess.insert, hix, index_some _ _ hlt, ht, bind, pure] at hs
  | some t' =>
    obtain ⟨ht', htw⟩ := TranspositionTable.insert_some a.f_tables[ix.toNat] t' h e (w.tables _ (by simp)) ht
    have e1 : a' = ⟨a.f_tables.setIfInBounds ix.toNat t'⟩ := by
      simp [TranspositionTableAccess.insert, hix, index_some _ _ hlt, ht, ArrayMap.set, hlt, bind, pure] at hs
      exact hs.symm
    subst e1
    refine ⟨?_, ?_⟩
    · simp only [TT.Access.insert, accessOf, List.length_map, Array.length_toList, ← hixn, Array.toList_setIfInBounds, List.map_set]
      rw [getD_map_toList' tableOf a.f_tables _ _ hlt, ht']
    · refine ⟨by simpa using w.pos, by simpa using w.lt, ?_⟩
      intro t hm
      simp only [Array.toList_setIfInBounds] at hm
      rcases List.mem_or_eq_of_mem_set hm with hm | rfl
      · exact w.tables t hm
      · exact htw

theorem TranspositionTableAccess.find_some (a : TranspositionTableAccess) (h : UInt64) (w : AccessWF a) (r : Option TranspositionEntry)
    (hs : TranspositionTableAccess.find a h = some r) : r.map entryOf = (accessOf a).find h.toNat := by
  obtain ⟨r', h1, h2⟩ := TranspositionTableAccess.find_eq a h w
  rw [hs] at h1; cases h1; exact h2

/-! ## the `SM` monad (functions with cells) -/

theorem sm_bind {α β : Type} (x : SM α) (f : α → SM β) (c : SearchCells) :
    (x >>= f) c = match x c with | (.ok a, c') => f a c' | (.error e, c') => (.error e, c') := rfl
theorem sm_pure_bind {α β : Type} (a : α) (f : α → SM β) (c : SearchCells) : ((pure a : SM α) >>= f) c = f a c := rfl
theorem sm_pure {α : Type} (a : α) (c : SearchCells) : (pure a : SM α) c = (.ok a, c) := rfl
theorem sm_liftP_bind {α β : Type} (p : Panics α) (f : α → SM β) (c : SearchCells) :
    (SM.liftP p >>= f) c = match p with | none => (.error .panic, c) | some a => f a c := by cases p <;> rfl
theorem sm_liftP {α : Type} (p : Panics α) (c : SearchCells) :
    (SM.liftP p) c = match p with | none => (.error .panic, c) | some a => (.ok a, c) := by cases p <;> rfl
theorem sm_liftQ_bind {α β : Type} (q : QM α) (f : α → SM β) (c : SearchCells) :
    (SM.liftQ q >>= f) c = match q with | .error e => (.error e, c) | .ok a => f a c := by cases q <;> rfl
theorem sm_read_nodes_bind {β : Type} (f : UInt64 → SM β) (c : SearchCells) :
    (SM.read_nodes_searched >>= f) c = f c.nodes_searched c := rfl
theorem sm_write_nodes_bind {β : Type} (v : UInt64) (f : Unit → SM β) (c : SearchCells) :
    (SM.write_nodes_searched v >>= f) c = f () { c with nodes_searched := v } := rfl
theorem sm_read_tt_bind {β : Type} (f : TranspositionTableAccess → SM β) (c : SearchCells) :
    (SM.read_transpositions >>= f) c = f c.transpositions c := rfl
theorem sm_write_tt_bind {β : Type} (v : TranspositionTableAccess) (f : Unit → SM β) (c : SearchCells) :
    (SM.write_transpositions v >>= f) c = f () { c with transpositions := v } := rfl
theorem sm_is_cancelled_bind {β : Type} (t : CancellationToken) (f : Bool → SM β) (c : SearchCells) :
    (SPrim.is_cancelled t >>= f) c
      = f (match t.cancel_at with | some k => decide (c.polls ≥ k) | none => false) { c with polls := c.polls + 1 } := rfl
theorem sm_interrupt {α : Type} (c : SearchCells) : (SM.interrupt : SM α) c = (.error .interrupt, c) := rfl
theorem sm_out_of_fuel {α : Type} (c : SearchCells) : (SM.out_of_fuel : SM α) c = (.error .out_of_fuel, c) := rfl

/-- the cells represent the model's worker state -/
structure CellsRep (c : SearchCells) (st : St) : Prop where
  nodes : c.nodes_searched.toNat = st.nodes
  rng : c.rng = st.rng
  tt : accessOf c.transpositions = st.tt
  polls : c.polls = st.polls
  wf : AccessWF c.transpositions

/-- generated run `g` refines model run `m` -/
def SRef {α β : Type} (R : α → β → Prop) (g : Except SearchStop α × SearchCells) (m : Except Stop β × St) : Prop :=
  match g.1 with
  | .ok v => ∃ w, m.1 = .ok w ∧ R v w ∧ CellsRep g.2 m.2
  | .error .interrupt => m.1 = .error .interrupt ∧ CellsRep g.2 m.2
  | .error _ => True

theorem sref_panic {α β : Type} {R : α → β → Prop} {c : SearchCells} {m : Except Stop β × St} :
    SRef R (.error .panic, c) m := True.intro
theorem sref_fuel {α β : Type} {R : α → β → Prop} {c : SearchCells} {m : Except Stop β × St} :
    SRef R (.error .out_of_fuel, c) m := True.intro
theorem sref_ok {α β : Type} {R : α → β → Prop} {c : SearchCells} {st : St} {v : α} {w : β} (h : R v w) (hc : CellsRep c st) :
    SRef R (.ok v, c) (.ok w, st) := ⟨w, rfl, h, hc⟩
theorem sref_interrupt {α β : Type} {R : α → β → Prop} {c : SearchCells} {st : St} (hc : CellsRep c st) :
    SRef R (.error .interrupt, c) ((.error .interrupt : Except Stop β), st) := ⟨rfl, hc⟩

/-! ## `analyze_recursive`: arguments, the node entry, the table probe -/

def ResR (p : Evaluation × Array Move) (w : Eval) : Prop := p.1.toInt = w

def argsOf (s : Wee.State) (maxD curD curExt : UInt64) (alpha beta : Int32) (prio : Option Wee.Move) : NodeArgs :=
  { s := s, maxDepth := maxD.toNat, curDepth := curD.toNat, curExt := curExt.toNat, alpha := alpha.toInt, beta := beta.toInt,
    prioritized := prio }

theorem poll_eq (n1 : UInt64) (n : Nat) (h : n1.toNat = n) : (n1 % 10000 == 0) = (n % Gen.pollInterval == 0) := by
  rw [u64_beq_iff, UInt64.toNat_mod, h]
  show decide (n % 10000 = 0) = (n % 10000 == 0)
  by_cases hz : n % 10000 = 0 <;> simp [hz]

theorem u64_sub_some {a b r : UInt64} (h : UInt64.checked_sub a b = some r) : b.toNat ≤ a.toNat ∧ r.toNat = a.toNat - b.toNat := by
  unfold UInt64.checked_sub at h
  split at h
  · rename_i hl; cases h; exact ⟨hl, UInt64.toNat_sub_of_le _ _ (UInt64.le_iff_toNat_le.2 hl)⟩
  · cases h

theorem u64_add_some {a b r : UInt64} (h : UInt64.checked_add a b = some r) : r.toNat = a.toNat + b.toNat := by
  unfold UInt64.checked_add at h
  split at h
  · rename_i hl; cases h; rw [UInt64.toNat_add, Nat.mod_eq_of_lt hl]
  · cases h

theorem ord_min_toInt (a b : Int32) : (Evaluation.ord_min a b).toInt = min a.toInt b.toInt := by
  unfold Evaluation.ord_min
  by_cases h : a ≤ b
  · rw [if_pos h]; have := Int32.le_iff_toInt_le.1 h; omega
  · rw [if_neg h]; have : ¬ a.toInt ≤ b.toInt := fun h' => h (Int32.le_iff_toInt_le.2 h'); omega

theorem ord_max_toInt (a b : Int32) : (Evaluation.ord_max a b).toInt = max a.toInt b.toInt := by
  unfold Evaluation.ord_max
  by_cases h : a ≤ b
  · rw [if_pos h]; have := Int32.le_iff_toInt_le.1 h; omega
  · rw [if_neg h]; have : ¬ a.toInt ≤ b.toInt := fun h' => h (Int32.le_iff_toInt_le.2 h'); omega

/-- what the generated table probe (an `Early` value) says, against the model's `probe` -/
def ProbeRel (g : Except SearchStop (Early (Evaluation × Array Move) (Evaluation × Evaluation)) × SearchCells)
    (c1 : SearchCells) (buf : Array Move) (pr : Probe) : Prop :=
  match g with
  | (.ok (Early.ret r), c') => c' = c1 ∧ r.2 = buf ∧ pr = .cut r.1.toInt
  | (.ok (Early.cont ls), c') => c' = c1 ∧ pr = .window ls.2.toInt ls.1.toInt
  | (.error .interrupt, _) => False
  | (.error _, _) => True

abbrev probeCont (pr : Probe) (st1 : St) (k : Eval → Eval → M Eval) : Except Stop Eval × St :=
  match pr with
  | .underflow => (.error (.panic "usize subtraction underflow"), st1)
  | .cut v => (.ok v, st1)
  | .window α β => (k α β).run.run st1

theorem sref_probe_bind {PB : SM (Early (Evaluation × Array Move) (Evaluation × Evaluation))}
    {K : Evaluation × Evaluation → SM (Evaluation × Array Move)} {k : Eval → Eval → M Eval}
    {c1 : SearchCells} {st1 : St} {pr : Probe} {buf : Array Move}
    (hP : ProbeRel (PB c1) c1 buf pr)
    (hK : ∀ α β : Int32, SRef ResR (K (β, α) c1) ((k α.toInt β.toInt).run.run st1))
    (hcr : CellsRep c1 st1) :
    SRef ResR ((PB >>= fun t => match t with | Early.ret r => pure r | Early.cont ls => K ls) c1)
      (probeCont pr st1 k) := by
  rw [sm_bind]
  generalize PB c1 = g at hP
  obtain ⟨r, c'⟩ := g
  cases r with
  | error e => cases e with
    | interrupt => exact hP.elim
    | panic => exact True.intro
    | out_of_fuel => exact True.intro
  | ok t =>
    cases t with
    | ret r =>
      obtain ⟨h1, h2, h3⟩ := hP
      subst h1; subst h3
      exact sref_ok rfl hcr
    | cont ls =>
      obtain ⟨h1, h3⟩ := hP
      subst h1; subst h3
      obtain ⟨b, a⟩ := ls
      exact hK a b

abbrev tickCont (x : Except Stop Unit × St) (kk : St → Except Stop Eval × St) : Except Stop Eval × St :=
  match x with
  | (.error e, st1) => (.error e, st1)
  | (.ok _, st1) => kk st1

/-- the node entry: count the node, poll the flag every 10000 nodes -/
theorem sref_tick_bind {cancel : Option Nat} {l : List UInt64} {keys : Keys} {n1 : UInt64}
    {K : SM (Evaluation × Array Move)} {kk : St → Except Stop Eval × St} {c : SearchCells} {st : St}
    (hc : CellsRep c st) (hn1 : n1.toNat = st.nodes + 1)
    (hK : ∀ c1 st1, CellsRep c1 st1 → SRef ResR (K c1) (kk st1)) :
    SRef ResR (((if (n1 % 10000 == 0) = true then SPrim.is_cancelled ⟨cancel⟩ else pure false) >>=
        fun t => if t = true then SM.interrupt else K) { c with nodes_searched := n1 })
      (tickCont (tick { keys := keys, history := l, cancelAt := cancel } st) kk) := by
  have hpoll := poll_eq n1 _ hn1
  unfold tick tickCont
  rw [← hpoll]
  have hc1 : CellsRep { c with nodes_searched := n1 } { st with nodes := st.nodes + 1 } :=
    ⟨hn1, hc.rng, hc.tt, hc.polls, hc.wf⟩
  have hc2 : CellsRep { c with nodes_searched := n1, polls := c.polls + 1 } { st with nodes := st.nodes + 1, polls := st.polls + 1 } :=
    ⟨hn1, hc.rng, hc.tt, by simp [hc.polls], hc.wf⟩
  by_cases hp : (n1 % 10000 == 0) = true
  · cases cancel with
    | none =>
      simp only [hp, if_true, sm_is_cancelled_bind, Bool.false_eq_true, if_false]
      exact hK _ _ hc2
    | some k =>
      by_cases hk : c.polls ≥ k
      · have hk' : st.polls ≥ k := hc.polls ▸ hk
        simp only [hp, if_true, sm_is_cancelled_bind, hk, hk', decide_true]
        exact sref_interrupt hc2
      · have hk' : ¬ st.polls ≥ k := hc.polls ▸ hk
        simp only [hp, if_true, sm_is_cancelled_bind, hk, hk', decide_false, Bool.false_eq_true, if_false]
        exact hK _ _ hc2
  · simp only [hp, if_false, sm_pure_bind, Bool.false_eq_true]
    exact hK _ _ hc1

/-! ## `analyze_recursive` at the horizon -/

/-- **`Searcher::analyze_recursive` at the horizon refines `searchNode … 0`** (remaining depth 0: `current_depth = max_depth`):
node counting and the poll every 10000 nodes (interrupt included, with the cells the interrupt leaves behind), the repetition
test, the table probe with its three entry kinds and both cut-offs, then `quiescence_search` with the fuel
`SPrim.quiescence_fuel` = the model's `quiesceFuel`.  Whenever the translated function returns a value or the interrupt, the
model returns the same, in the corresponding worker state.  (The expansion of inner nodes — ordering, move loop, stores,
mate / stalemate tail — is translated in `SearchFns.lean` but not bridged.) -/
theorem Searcher.analyze_recursive_leaf_refines (k : KeyTable) (ht : k.turn.size = 2) (he : k.epFile.size = 8)
    (hist : StateHistory) (l : List UInt64) (hh : HistRep hist l) (cancel : Option Nat) (fuel : Nat)
    (s : Wee.State) (ok : StateOK s) (maxD curD curExt : UInt64)
    (hrem : curD.toNat = maxD.toNat) (hb : maxD.toNat + 70 < 2 ^ 31)
    (alpha beta : Int32) (prio : Option Wee.Move) (buf : Array Move)
    (c : SearchCells) (st : St) (hc : CellsRep c st) :
    SRef ResR
      (Searcher.analyze_recursive (fuel + 1) (stateOf s) ⟨eval.EVALUATORS⟩ ⟨cancel⟩ (zobristOf k) hist maxD curD curExt alpha beta prio buf c)
      ((searchNode { keys := k.keys, history := l, cancelAt := cancel } 0 (argsOf s maxD curD curExt alpha beta prio)).run.run st) := by
  rw [Searcher.analyze_recursive, searchNode_eq, nodeM_run]
  simp only [sm_read_nodes_bind, sm_liftP_bind]
  generalize hadd : UInt64.checked_add c.nodes_searched 1 = p
  cases p with
  | none => exact sref_panic
  | some n1 =>
  have hn1 : n1.toNat = st.nodes + 1 := by rw [u64_add_some hadd, hc.nodes]; rfl
  simp only [sm_write_nodes_bind, sm_read_nodes_bind]
  refine sref_tick_bind hc hn1 (fun c1 st1 hc1 => ?_)
  simp only [sm_liftP_bind, ZobristHasher.hash_keyTable k ht he s ok.ep]
  have hrep : (decide (curD > 0) && (StateHistory.lookup hist (Wee.hash k.keys s)).isSome)
      = (decide (curD.toNat > 0) && l.contains (Wee.hash k.keys s)) := by
    rw [StateHistory.lookup_isSome hh]
    congr 1
  rw [hrep]
  show SRef ResR _ (if (decide (curD.toNat > 0) && l.contains (Wee.hash k.keys s)) = true then _ else _)
  by_cases hr : (decide (curD.toNat > 0) && l.contains (Wee.hash k.keys s)) = true
  · simp only [hr, if_true]
    exact sref_ok (R := ResR) (show ResR (Evaluation.EVEN, buf) 0 from rfl) hc1
  · simp only [hr, if_false, Bool.false_eq_true]
    show SRef ResR _ (probeCont (SearchCtl.probe (argsOf s maxD curD curExt alpha beta prio) (st1.tt.find (Wee.hash k.keys s).toNat)) st1
      (contM { keys := k.keys, history := l, cancelAt := cancel } 0 (argsOf s maxD curD curExt alpha beta prio)))
    refine sref_probe_bind (buf := buf) ?hP (fun α β => ?hK) hc1
    case hP =>
      simp only [sm_read_tt_bind, sm_liftP_bind]
      generalize hfind : TranspositionTableAccess.find c1.transpositions (Wee.hash k.keys s) = fr
      cases fr with
      | none => exact True.intro
      | some r =>
      have hfm := TranspositionTableAccess.find_some _ _ hc1.wf r hfind
      rw [hc1.tt] at hfm
      rw [← hfm]
      cases r with
      | none => exact ⟨rfl, rfl⟩
      | some e =>
      simp only [sm_liftP_bind]
      generalize h1 : UInt64.checked_sub maxD curD = p1
      cases p1 with
      | none => exact True.intro
      | some rd =>
      obtain ⟨hle1, hrd⟩ := u64_sub_some h1
      generalize h2 : UInt64.checked_sub e.f_max_depth e.f_depth = p2
      cases p2 with
      | none => exact True.intro
      | some rdt =>
      obtain ⟨hle2, hrdt⟩ := u64_sub_some h2
      have hge : decide (rdt ≥ rd) = decide (e.f_max_depth.toNat - e.f_depth.toNat ≥ maxD.toNat - curD.toNat) := by
        rw [← hrd, ← hrdt]; exact decide_eq_decide.2 UInt64.le_iff_toNat_le
      have hnu : ¬ (maxD.toNat < curD.toNat ∨ e.f_max_depth.toNat < e.f_depth.toNat) := by omega
      have hmin := ord_min_toInt beta e.f_evaluation
      have hmax := ord_max_toInt alpha e.f_evaluation
      have hd1 : decide (alpha ≥ Evaluation.ord_min beta e.f_evaluation) = decide (alpha.toInt ≥ min beta.toInt e.f_evaluation.toInt) := by
        rw [← hmin]; exact decide_eq_decide.2 Int32.le_iff_toInt_le
      have hd2 : decide (Evaluation.ord_max alpha e.f_evaluation ≥ beta) = decide (max alpha.toInt e.f_evaluation.toInt ≥ beta.toInt) := by
        rw [← hmax]; exact decide_eq_decide.2 Int32.le_iff_toInt_le
      simp only [Option.map_some, SearchCtl.probe, argsOf, GenFns.entryOf, hnu, if_false, hge]
      by_cases c2 : e.f_max_depth.toNat - e.f_depth.toNat ≥ maxD.toNat - curD.toNat
      · simp only [c2, decide_true, if_true]
        cases hk : e.f_kind with
        | Exact => exact ⟨rfl, rfl, rfl⟩
        | UpperBound =>
          simp only [sm_pure_bind, hd1, kindOf]
          by_cases c5 : alpha.toInt ≥ min beta.toInt e.f_evaluation.toInt
          · simp only [c5, decide_true, if_true]; exact ⟨rfl, rfl, rfl⟩
          · simp only [c5, decide_false, if_false, Bool.false_eq_true]
            refine ⟨rfl, ?_⟩
            simp [hmin, kindExact, kindUpper]
        | LowerBound =>
          simp only [sm_pure_bind, hd2, kindOf]
          by_cases c6 : max alpha.toInt e.f_evaluation.toInt ≥ beta.toInt
          · simp only [c6, decide_true, if_true]; exact ⟨rfl, rfl, rfl⟩
          · simp only [c6, decide_false, if_false, Bool.false_eq_true]
            refine ⟨rfl, ?_⟩
            simp [hmax, kindExact, kindUpper]
      · simp only [c2, decide_false, if_false, Bool.false_eq_true]
        exact ⟨rfl, rfl⟩
    case hK =>
      have hcd : decide (curD ≥ maxD) = true := by
        rw [decide_eq_true_iff]; exact UInt64.le_iff_toNat_le.2 (by omega)
      simp only [hcd, if_true, sm_liftQ_bind]
      show SRef ResR _ ((leafM (argsOf s maxD curD curExt alpha beta prio) α.toInt β.toInt).run.run st1)
      rw [leafM_run]
      have hqf : SPrim.quiescence_fuel (stateOf s) = quiesceFuel s := by
        unfold SPrim.quiescence_fuel quiesceFuel
        rw [Board.occupancy_stateOf, count_ones_prim_eq]
        have := popcount_le s.pieces.occ
        congr 1
        simp [Nat.toUInt32, UInt32.toNat_ofNat', Nat.mod_eq_of_lt (show popcount s.pieces.occ < 2 ^ 32 by omega)]
      rw [hqf]
      have hq := Searcher.quiescence_search_refines (quiesceFuel s) s ok curD (by
        have := popcount_le s.pieces.occ; unfold quiesceFuel; omega) α β
      show SRef ResR _ (match quiesce evaluate (quiesceFuel s) s curD.toNat α.toInt β.toInt with
        | .ok v => .ok v | .error e => .error e, st1)
      generalize Searcher.quiescence_search (quiesceFuel s) (stateOf s) ⟨eval.EVALUATORS⟩ curD α β = g at hq
      cases g with
      | error e =>
        cases e with
        | interrupt =>
          have : quiesce evaluate (quiesceFuel s) s curD.toNat α.toInt β.toInt = .error .interrupt := hq
          rw [this]; exact sref_interrupt hc1
        | panic => exact True.intro
        | out_of_fuel => exact True.intro
      | ok v =>
        obtain ⟨w, hw, hv⟩ := hq
        rw [hw]
        exact sref_ok (R := ResR) hv hc1

/-- `calculate_extension_depth` is the model's `extensionOf` -/
theorem Searcher.calculate_extension_depth_eq (s : Wee.State) (m : Move) :
    Searcher.calculate_extension_depth (stateOf s) m = some (extensionOf s).toUInt64 := by
  unfold Searcher.calculate_extension_depth extensionOf
  rw [State.is_check_eq]
  cases s.isCheck <;> rfl

end GenFns
end Wee
