import Wee.Proofs.BitLemmas
import Wee.Proofs.AttackLemmas
import Wee.Model.San
/-!
# Lemmas for C02 (make-move): `PieceMap.assign` bit by bit, mailbox cells of the successor
-/
namespace Wee.C02
open Wee.C10 (DisjointBoard allCP mem_allCP pieceAt_def pieceAt_some pieceAt_iff pieceAt_none
  absKind_some absKind_inj absColor_inj absColor_opp absCell_iff abs_at absCell_ge find?_unique)

/-! ## part 1: `PieceMap.set` / `assign` read through `get` -/

theorem get_set (m : PieceMap) (c c' : Color) (p p' : Piece) (v : UInt64) :
    (m.set c p v).get c' p' = if c' = c ∧ p' = p ∧ p ≠ Piece.none then v else m.get c' p' := by
  cases c <;> cases p <;> cases c' <;> cases p' <;> rfl

theorem get_none (m : PieceMap) (c : Color) : m.get c Piece.none = 0 := by cases c <;> rfl

/-- bit `n` of bitboard `(c', p')` after `map[(c, p)].set(sq, v)` -/
theorem test_get_assign (m : PieceMap) (c c' : Color) (p p' : Piece) (sq n : Nat) (v : Bool) (hsq : sq < 64) :
    test ((m.assign c p sq v).get c' p') n =
      if c' = c ∧ p' = p ∧ p ≠ Piece.none ∧ sq = n then v else test (m.get c' p') n := by
  unfold PieceMap.assign
  rw [get_set]
  by_cases h : c' = c ∧ p' = p ∧ p ≠ Piece.none
  · rw [if_pos h, test_assignBit _ _ _ _ hsq]
    obtain ⟨rfl, rfl, hp⟩ := h
    by_cases e : sq = n
    · simp [e, hp]
    · simp [e]
  · rw [if_neg h]
    have : ¬ (c' = c ∧ p' = p ∧ p ≠ Piece.none ∧ sq = n) := fun ⟨a, b, c, _⟩ => h ⟨a, b, c⟩
    rw [if_neg this]


/-! ## part 2: `by_performing_move` cut into its steps -/

/-- en-passant victim / captured piece removed -/
def capStep (s : State) (mv : Move) (map : PieceMap) : Except MoveErr PieceMap :=
  if Move.isEnPassant mv then
    match s.ep with
    | Option.none => .error .illegalEnPassant
    | some t =>
      match offset t 0 s.turn.backward with
      | Option.none => .error .illegalEnPassant
      | some csq => .ok (map.assign s.turn.opp .pawn csq false)
  else match Move.capture mv with
    | some cap => .ok (map.assign s.turn.opp cap (Move.dest mv) false)
    | Option.none => .ok map

/-- pawn replaced by the promotion piece -/
def promoStep (us : Color) (p : Piece) (d : Nat) (pr : Option Piece) (map : PieceMap) : PieceMap :=
  match pr with
  | some pr => (map.assign us p d false).assign us pr d true
  | Option.none => map

/-- rook relocated -/
def castleStep (us : Color) (o : Nat) (cs : Option Side) (map : PieceMap) : PieceMap :=
  match cs with
  | some .king => (map.assign us .rook (mkSq (rankOf o) 7) false).assign us .rook (mkSq (rankOf o) 5) true
  | some .queen => (map.assign us .rook (mkSq (rankOf o) 0) false).assign us .rook (mkSq (rankOf o) 3) true
  | Option.none => map

/-- rights, side, ep target, clocks from the final placement -/
def finish (s : State) (mv : Move) (p : Piece) (map : PieceMap) : State :=
  let us := s.turn
  let cw := if p == .king ∧ us == .white then CastleRights.noRights else s.castleW
  let cb := if p == .king ∧ us == .black then CastleRights.noRights else s.castleB
  { pieces := map
    turn := us.opp
    castleW := ⟨cw.kingside && test (map.get .white .rook) 7, cw.queenside && test (map.get .white .rook) 0⟩
    castleB := ⟨cb.kingside && test (map.get .black .rook) 63, cb.queenside && test (map.get .black .rook) 56⟩
    ep := if Move.isDoublePawn mv then offset (Move.dest mv) 0 us.backward else Option.none
    halfmove := if Move.isCapture mv || p == .pawn then 0 else clockSucc s.halfmove
    fullmove := if us == .black then clockSucc s.fullmove else s.fullmove }

/-- the codes in the capture / promotion fields are piece discriminants (`unwrap` does not panic) -/
def CodesOk (mv : Move) : Prop :=
  (Move.captureCode mv = 0 ∨ (Piece.ofCode? (Move.captureCode mv)).isSome) ∧
  (Move.promotionCode mv = 0 ∨ (Piece.ofCode? (Move.promotionCode mv)).isSome)

instance (mv : Move) : Decidable (CodesOk mv) := by unfold CodesOk; infer_instance

def baseMap (s : State) (mv : Move) (p : Piece) : PieceMap :=
  (s.pieces.assign s.turn p (Move.origin mv) false).assign s.turn p (Move.dest mv) true

def finalMap (s : State) (mv : Move) (p : Piece) (map : PieceMap) : PieceMap :=
  castleStep s.turn (Move.origin mv) (Move.castleSide mv) (promoStep s.turn p (Move.dest mv) (Move.promotion mv) map)

theorem castleStep_eq (us : Color) (o : Nat) (mv : Move) (map : PieceMap) :
    castleStep us o (Move.castleSide mv) map =
      if Move.isCastle mv .king then
        (map.assign us .rook (mkSq (rankOf o) 7) false).assign us .rook (mkSq (rankOf o) 5) true
      else if Move.isCastle mv .queen then
        (map.assign us .rook (mkSq (rankOf o) 0) false).assign us .rook (mkSq (rankOf o) 3) true
      else map := by
  unfold Move.isCastle castleStep
  cases Move.castleSide mv with
  | none => rfl
  | some sd => cases sd <;> rfl

theorem performMove_eq (s : State) (mv : Move) (p : Piece) (hp : Move.piece? mv = some p) (hc : CodesOk mv) :
    performMove s mv =
      match capStep s mv (baseMap s mv p) with
      | .error e => some (.error e)
      | .ok map => some (.ok (finish s mv p (finalMap s mv p map))) := by
  have hbad : ¬ ((Move.captureCode mv ≠ 0 ∧ (Piece.ofCode? (Move.captureCode mv)).isNone) ∨
     (Move.promotionCode mv ≠ 0 ∧ (Piece.ofCode? (Move.promotionCode mv)).isNone)) := by
    obtain ⟨h1, h2⟩ := hc
    rintro (⟨a, b⟩ | ⟨a, b⟩)
    · rcases h1 with h1 | h1
      · exact a h1
      · cases h : Piece.ofCode? (Move.captureCode mv) <;> simp [h] at h1 b
    · rcases h2 with h2 | h2
      · exact a h2
      · cases h : Piece.ofCode? (Move.promotionCode mv) <;> simp [h] at h2 b
  unfold performMove
  simp only [hp, if_neg hbad]
  unfold capStep baseMap
  cases hep : Move.isEnPassant mv
  · simp only [Bool.false_eq_true, if_false]
    cases hcap : Move.capture mv
    · simp only [finish, finalMap, promoStep, castleStep_eq]; rfl
    · simp only [finish, finalMap, promoStep, castleStep_eq]; rfl
  · simp only [if_true]
    cases hs : s.ep with
    | none => rfl
    | some t =>
      simp only []
      cases ho : offset t 0 s.turn.backward with
      | none => rfl
      | some csq => simp only [finish, finalMap, promoStep, castleStep_eq]; rfl


/-! ## part 3: mailbox view of a placement -/

/-- square `n` of `m` holds exactly `x` (no second piece on it) -/
def CellIs (m : PieceMap) (n : Nat) (x : Option (Color × Piece)) : Prop :=
  ∀ c p, test (m.get c p) n = true ↔ x = some (c, p)

/-- `f` is the mailbox of `m` -/
def Repr (m : PieceMap) (f : Nat → Option (Color × Piece)) : Prop := ∀ n, n < 64 → CellIs m n (f n)

/-- function update -/
def upd {α : Type} (f : Nat → α) (sq : Nat) (x : α) : Nat → α := fun n => if n = sq then x else f n

@[simp] theorem upd_same {α : Type} (f : Nat → α) (sq : Nat) (x : α) : upd f sq x sq = x := by simp [upd]
theorem upd_ne {α : Type} (f : Nat → α) (sq n : Nat) (x : α) (h : n ≠ sq) : upd f sq x n = f n := by simp [upd, h]
theorem upd_upd {α : Type} (f : Nat → α) (sq : Nat) (x y : α) : upd (upd f sq x) sq y = upd f sq y := by
  funext n; by_cases h : n = sq <;> simp [upd, h]
theorem upd_eq_self {α : Type} (f : Nat → α) (sq : Nat) (x : α) (h : f sq = x) : upd f sq x = f := by
  funext n; by_cases e : n = sq <;> simp [upd, e, h]

theorem cellIs_piece_ne_none {m : PieceMap} {n : Nat} {c : Color} {p : Piece} (h : CellIs m n (some (c, p))) :
    p ≠ Piece.none := by
  rintro rfl
  have := (h c Piece.none).2 rfl
  rw [get_none, test_zero] at this; cases this

theorem repr_pieceAt {m : PieceMap} (hd : DisjointBoard m) : Repr m m.pieceAt := by
  intro n _ c p
  rw [← pieceAt_iff hd n c p]

theorem pieceAt_of_cellIs {m : PieceMap} {n : Nat} {x : Option (Color × Piece)} (h : CellIs m n x) :
    m.pieceAt n = x := by
  cases x with
  | none =>
    rw [pieceAt_none]
    intro c p
    cases ht : test (m.get c p) n with
    | false => rfl
    | true => exact absurd ((h c p).1 ht) (by simp)
  | some cp =>
    obtain ⟨c, p⟩ := cp
    have hp := cellIs_piece_ne_none h
    rw [pieceAt_def]
    apply find?_unique _ _ _ ((mem_allCP c p).2 hp) ((h c p).2 rfl)
    rintro ⟨c', p'⟩ _ h'
    exact (Option.some.inj ((h c' p').1 h')).symm

theorem disjoint_of_repr {m : PieceMap} {f : Nat → Option (Color × Piece)} (h : Repr m f) : DisjointBoard m := by
  intro x _ y _ hxy
  apply eq_zero_of_test
  intro n hn
  rw [test_and]
  cases h1 : test (m.get x.1 x.2) n with
  | false => rfl
  | true =>
    cases h2 : test (m.get y.1 y.2) n with
    | false => rfl
    | true =>
      have e1 := (h n hn x.1 x.2).1 h1
      have e2 := (h n hn y.1 y.2).1 h2
      rw [e1] at e2
      exact absurd (Option.some.inj e2) hxy

theorem repr_unique {m : PieceMap} {f : Nat → Option (Color × Piece)} (h : Repr m f) (n : Nat) (hn : n < 64) :
    f n = m.pieceAt n := (pieceAt_of_cellIs (h n hn)).symm

/-- remove a piece that stands on `sq` -/
theorem repr_clear {m : PieceMap} {f : Nat → Option (Color × Piece)} (h : Repr m f) (c : Color) (p : Piece)
    (sq : Nat) (hsq : sq < 64) (hf : f sq = some (c, p)) : Repr (m.assign c p sq false) (upd f sq Option.none) := by
  intro n hn c' p'
  rw [test_get_assign _ _ _ _ _ _ _ _ hsq]
  by_cases e : n = sq
  · subst e
    rw [upd_same]
    by_cases hc : c' = c ∧ p' = p ∧ p ≠ Piece.none ∧ n = n
    · rw [if_pos hc]; simp
    · rw [if_neg hc]
      have h1 := h n hn c' p'
      rw [hf] at h1
      have hp : p ≠ Piece.none := by
        have := h n hn; rw [hf] at this; exact cellIs_piece_ne_none this
      constructor
      · intro ht
        have := Option.some.inj (h1.1 ht)
        exact absurd ⟨congrArg Prod.fst this.symm, congrArg Prod.snd this.symm, hp, rfl⟩ hc
      · intro e; cases e
  · rw [upd_ne _ _ _ _ e]
    have : ¬ (c' = c ∧ p' = p ∧ p ≠ Piece.none ∧ sq = n) := fun ⟨_, _, _, e'⟩ => e e'.symm
    rw [if_neg this]
    exact h n hn c' p'

/-- put a piece on the empty square `sq` -/
theorem repr_set {m : PieceMap} {f : Nat → Option (Color × Piece)} (h : Repr m f) (c : Color) (p : Piece)
    (sq : Nat) (hsq : sq < 64) (hf : f sq = Option.none) (hp : p ≠ Piece.none) :
    Repr (m.assign c p sq true) (upd f sq (some (c, p))) := by
  intro n hn c' p'
  rw [test_get_assign _ _ _ _ _ _ _ _ hsq]
  by_cases e : n = sq
  · subst e
    rw [upd_same]
    by_cases hc : c' = c ∧ p' = p ∧ p ≠ Piece.none ∧ n = n
    · rw [if_pos hc]; obtain ⟨rfl, rfl, _, _⟩ := hc; simp
    · rw [if_neg hc]
      have h1 := h n hn c' p'
      rw [hf] at h1
      constructor
      · intro ht; exact absurd (h1.1 ht) (by simp)
      · intro e
        have := Option.some.inj e
        exact absurd ⟨congrArg Prod.fst this.symm, congrArg Prod.snd this.symm, hp, rfl⟩ hc
  · rw [upd_ne _ _ _ _ e]
    have : ¬ (c' = c ∧ p' = p ∧ p ≠ Piece.none ∧ sq = n) := fun ⟨_, _, _, e'⟩ => e e'.symm
    rw [if_neg this]
    exact h n hn c' p'

/-- two writes into different bitboards commute -/
theorem assign_comm (m : PieceMap) (c c' : Color) (p p' : Piece) (a b : Nat) (v w : Bool) (h : ¬ (c = c' ∧ p = p')) :
    (m.assign c p a v).assign c' p' b w = (m.assign c' p' b w).assign c p a v := by
  cases c <;> cases c' <;> cases p <;> cases p' <;> first | rfl | exact absurd ⟨rfl, rfl⟩ h


/-! ## part 4: vocabulary of C02 — `MoveFits`, `RightsSound` -/

/-- **`MoveFits s mv sm`** : the packed move `mv` is well formed and describes the rule-level move
`sm` in position `s`.  Every clause is a checkable fact about `mv`, `sm` and the mailbox `abs s`;
nothing refers to the move generator.

* `spec`, `codes` : the getters of `mv` read `sm`, and the capture / promotion fields hold piece codes;
* `disjoint` : no square of `s` holds two pieces;
* `color`, `mover` : `sm` is a move of the side to move, whose piece of kind `sm.kind` stands on `sm.src`;
* `quiet` / `capture` / `enPassant` : the destination is empty when nothing is captured; holds an enemy
  piece of the captured kind (never a king) in an ordinary capture; in an en-passant capture the mover
  is a pawn advancing one rank onto the empty en-passant target of `s`, and the enemy pawn stands
  beside the origin, behind the destination;
* `promo` : a promotion is a pawn reaching its last rank and becoming N, B, R or Q;
* `castle` : the king is on its home square, moves two files, the rook is on its corner and the
  square the rook lands on is empty;
* `dbl` : the double-step flag is set exactly for a pawn advancing two ranks on its file. -/
structure MoveFits (s : State) (mv : Move) (sm : Spec.SMove) : Prop where
  spec : toSpecMove mv = some sm
  codes : CodesOk mv
  disjoint : DisjointBoard s.pieces
  color : sm.color = absColor s.turn
  src_lt : sm.src < 64
  dst_lt : sm.dst < 64
  mover : (abs s).at sm.src = some (sm.color, sm.kind)
  quiet : sm.capture = Option.none → sm.ep = false ∧ (abs s).at sm.dst = Option.none
  capture : ∀ k, sm.capture = some k → sm.ep = false →
    (abs s).at sm.dst = some (sm.color.opp, k) ∧ k ≠ Spec.Kind.king
  enPassant : sm.ep = true →
    sm.capture = some Spec.Kind.pawn ∧ sm.kind = Spec.Kind.pawn ∧ sm.promo = Option.none ∧ sm.castle = Option.none ∧
    (abs s).at sm.dst = Option.none ∧ s.ep = some sm.dst ∧
    ((sm.dst / 8 : Nat) : Int) = ((sm.src / 8 : Nat) : Int) + sm.color.fwd ∧
    (abs s).at (sm.src / 8 * 8 + sm.dst % 8) = some (sm.color.opp, Spec.Kind.pawn)
  promo : ∀ k, sm.promo = some k →
    sm.kind = Spec.Kind.pawn ∧ sm.dst / 8 = Spec.lastRank sm.color ∧ k ∈ Spec.promoKinds
  castle : ∀ b, sm.castle = some b →
    sm.kind = Spec.Kind.king ∧ sm.src = Spec.kingHome sm.color ∧ sm.capture = Option.none ∧
    (match b with
     | true => sm.dst = sm.src + 2 ∧ (abs s).at (sm.src + 3) = some (sm.color, Spec.Kind.rook) ∧
               (abs s).at (sm.src + 1) = Option.none
     | false => sm.dst = sm.src - 2 ∧ (abs s).at (sm.src - 4) = some (sm.color, Spec.Kind.rook) ∧
               (abs s).at (sm.src - 1) = Option.none)
  dbl : sm.dbl = true ↔ (sm.kind = Spec.Kind.pawn ∧ (sm.dst : Int) = (sm.src : Int) + 16 * sm.color.fwd)

/-- a held castling right implies king and rook on their home squares (the clause of `LegalPos`) -/
structure RightsSound (s : State) : Prop where
  wk : s.castleW.kingside = true → test (s.pieces.get .white .king) 4 = true ∧ test (s.pieces.get .white .rook) 7 = true
  wq : s.castleW.queenside = true → test (s.pieces.get .white .king) 4 = true ∧ test (s.pieces.get .white .rook) 0 = true
  bk : s.castleB.kingside = true → test (s.pieces.get .black .king) 60 = true ∧ test (s.pieces.get .black .rook) 63 = true
  bq : s.castleB.queenside = true → test (s.pieces.get .black .king) 60 = true ∧ test (s.pieces.get .black .rook) 56 = true

/-! ## part 5: from the mailbox facts of `MoveFits` to bitboard facts -/

theorem toSpecMove_some {mv : Move} {sm : Spec.SMove} (h : toSpecMove mv = some sm) :
    ∃ p, Move.piece? mv = some p ∧ absKind p = some sm.kind ∧ sm.color = absColor (Move.color mv) ∧
      sm.src = Move.origin mv ∧ sm.dst = Move.dest mv ∧
      sm.capture = (Move.capture mv).bind absKind ∧ sm.promo = (Move.promotion mv).bind absKind ∧
      sm.ep = Move.isEnPassant mv ∧ sm.castle = (Move.castleSide mv).map (fun s => s == Side.king) ∧
      sm.dbl = Move.isDoublePawn mv := by
  unfold toSpecMove at h
  cases hk : absKind (Move.piece mv) with
  | none => simp [hk] at h
  | some k =>
    simp only [hk, Option.bind_eq_bind, Option.bind_some, Option.pure_def, Option.some.injEq] at h
    subst h
    cases hp : Move.piece? mv with
    | none => unfold Move.piece at hk; rw [hp] at hk; cases hk
    | some p =>
      refine ⟨p, rfl, ?_, rfl, rfl, rfl, rfl, rfl, rfl, rfl, rfl⟩
      unfold Move.piece at hk; rw [hp] at hk; exact hk

theorem absCell_eq_none_iff (m : PieceMap) (n : Nat) : absCell m n = Option.none ↔ m.pieceAt n = Option.none := by
  unfold absCell
  cases h : m.pieceAt n with
  | none => simp
  | some cp =>
    obtain ⟨c, p⟩ := cp
    obtain ⟨k, hk⟩ := absKind_some p (pieceAt_some m n c p h).1
    simp [hk]

theorem absCell_eq_some_iff {m : PieceMap} (hd : DisjointBoard m) (n : Nat) (c : Color) (p : Piece) (k : Spec.Kind)
    (hk : absKind p = some k) : absCell m n = some (absColor c, k) ↔ m.pieceAt n = some (c, p) := by
  rw [absCell_iff hd, pieceAt_iff hd]
  constructor
  · rintro ⟨p', hk', ht⟩
    rw [absKind_inj p p' k hk hk']; exact ht
  · intro ht; exact ⟨p, hk, ht⟩

/-- the destination-independent description of a capture field -/
theorem capture_ne_none {mv : Move} {q : Piece} (h : Move.capture mv = some q) : q ≠ Piece.none := by
  unfold Move.capture at h
  by_cases h0 : Move.captureCode mv = 0
  · rw [if_pos h0] at h; cases h
  · rw [if_neg h0] at h
    rintro rfl
    generalize Move.captureCode mv = n at h h0
    unfold Piece.ofCode? at h
    split at h <;> first | exact h0 rfl | cases h

theorem promotion_ne_none {mv : Move} {q : Piece} (h : Move.promotion mv = some q) : q ≠ Piece.none := by
  unfold Move.promotion at h
  by_cases h0 : Move.promotionCode mv = 0
  · rw [if_pos h0] at h; cases h
  · rw [if_neg h0] at h
    rintro rfl
    generalize Move.promotionCode mv = n at h h0
    unfold Piece.ofCode? at h
    split at h <;> first | exact h0 rfl | cases h

theorem isCapture_eq {mv : Move} (hc : CodesOk mv) : Move.isCapture mv = (Move.capture mv).isSome := by
  unfold Move.isCapture Move.capture
  by_cases h0 : Move.captureCode mv = 0
  · simp [h0]
  · rcases hc.1 with h | h
    · exact absurd h h0
    · simp [h0, h]

end Wee.C02
