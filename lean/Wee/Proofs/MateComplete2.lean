import Wee.Proofs.MateComplete
import Wee.Proofs.SearchCtl
/-!
# C06 completeness, part 2: the root call, one iteration, the deepening loop

* without a cancellation instant a worker is never interrupted (`runWorker_not_interrupted`);
* the root call leaves an entry under the root's key whenever it returns a winning value, the entries under that
  key are only written by root calls (remaining depth = the iteration's search depth), and the move of a winning
  root entry leads to a position whose key is not recorded (`searchNode_rootE`);
* the iteration (`iterStep` with one worker) and the deepening loop: the first iteration whose search depth reaches
  the visible mate distance reports a winning evaluation and ends the loop.
-/
namespace Wee.C06
open Wee Wee.Search Wee.Outcome

/-! ## 1. no interrupt without a cancellation instant -/

theorem noint_walk (ctx : Ctx) (hc : ctx.cancelAt = Option.none) :
    SearchCtl.Walk ctx (fun _ => True) (fun _ => True) (fun _ _ => True) (fun e => e ≠ .interrupt) where
  tick := by
    intro st _
    rw [SearchCtl.tick_eq]
    have : SearchCtl.cancelledAt ctx st = false := by unfold SearchCtl.cancelledAt; rw [hc]
    rw [this]
    split <;> trivial
  rng := fun _ _ h => h
  underflow := fun _ _ _ _ _ _ _ _ h => nomatch h
  leaf := fun a alpha beta e _ hq h => by
    obtain ⟨w, hw⟩ := SearchCtl.quiesce_error_panic _ _ _ _ _ _ _ hq
    rw [hw] at h; exact nomatch h
  pseudo := fun _ _ _ _ h => nomatch h
  legal := fun _ _ _ _ _ _ _ _ h => nomatch h
  eval := fun _ _ _ _ h => nomatch h
  window := fun _ _ _ _ _ => trivial
  child := fun _ _ _ _ _ _ _ _ _ _ _ => trivial
  insert := fun _ _ _ _ _ _ _ _ _ _ _ _ _ _ _ => trivial

theorem searchNode_not_interrupted (ctx : Ctx) (hc : ctx.cancelAt = Option.none) (rem : Nat) (a : NodeArgs) (st : St) :
    (exec (searchNode ctx rem a) st).1 ≠ .error .interrupt := by
  have h := SearchCtl.searchNode_walk (noint_walk ctx hc) rem a st trivial trivial
  unfold exec
  intro he
  rcases hx : (searchNode ctx rem a).run.run st with ⟨r, st'⟩
  rw [hx] at h he
  simp only at he
  subst he
  exact h.1 rfl

/-! ## 2. a node cut by the history returns 0 -/

theorem nodeBody_hist_zero (ctx : Ctx) (rec : Option (NodeArgs → M Eval)) (a : NodeArgs) (hd : 0 < a.curDepth)
    (hh : ctx.history.contains (hash ctx.keys a.s) = true) :
    Triple (fun _ => True) (nodeBody ctx rec a) (fun r _ => r = 0) := by
  unfold nodeBody
  refine Triple.bind (R := fun _ _ => True) (Triple.modify fun _ _ => trivial) fun _ => ?_
  refine Triple.bind (R := fun _ _ => True) (Triple.get fun _ _ => trivial) fun st => ?_
  simp only
  have hc : (decide (a.curDepth > 0) && ctx.history.contains (hash ctx.keys a.s)) = true := by
    rw [hh, Bool.and_true]; exact decide_eq_true hd
  have hrest : Triple (fun _ => True)
      (if (decide (a.curDepth > 0) && ctx.history.contains (hash ctx.keys a.s)) = true then pure 0
        else probe ctx a (hash ctx.keys a.s) rec) (fun r _ => r = 0) := by
    rw [if_pos hc]; exact Triple.pure fun _ _ => rfl
  split
  · refine Triple.bind (R := fun _ _ => True) (Triple.set fun _ _ => trivial) fun _ => ?_
    split
    · split
      · exact triple_throw_bind
      · first | exact hrest | exact Triple.pure fun _ _ => rfl
    · first | (rw [if_neg (by decide)]; exact hrest) | exact hrest | exact Triple.pure fun _ _ => rfl
  · first | exact hrest | exact Triple.pure fun _ _ => rfl

theorem searchNode_hist_zero (ctx : Ctx) (rem : Nat) (a : NodeArgs) (hd : 0 < a.curDepth)
    (hh : ctx.history.contains (hash ctx.keys a.s) = true) :
    Triple (fun _ => True) (searchNode ctx rem a) (fun r _ => r = 0) := by
  cases rem with
  | zero => rw [searchNode_zero]; exact nodeBody_hist_zero ctx _ a hd hh
  | succ rem => rw [searchNode_succ]; exact nodeBody_hist_zero ctx _ a hd hh

theorem Triple.and {α : Type} {P P' : St → Prop} {x : M α} {Q Q' : α → St → Prop} (h : Triple P x Q)
    (h' : Triple P' x Q') : Triple (fun st => P st ∧ P' st) x (fun r st' => Q r st' ∧ Q' r st') :=
  fun st hp r st' he => ⟨h st hp.1 r st' he, h' st hp.2 r st' he⟩

/-! ## 3. the entries under the root's key -/

/-- the move of a winning entry of the position `s` leads to a position whose key is not recorded -/
def Avoids (K : Keys) (H : List UInt64) (s : State) (x : TT.Entry) : Prop :=
  10000 ≤ x.eval → ∃ r ∈ legalMoves s, r.1.toNat = x.mv ∧ inHist K H r.2 = false

/-- invariant of `alpha` / `best_move` in the root's move loop: the best move's value is `0` if it leads to a
recorded position -/
def RLoopInv (K : Keys) (H : List UInt64) (s : State) (α₀ alpha : Eval) (best : Option Move) : Prop :=
  (best = Option.none → alpha = α₀) ∧
  (∀ m, best = some m → ∃ r ∈ legalMoves s, r.1 = m ∧ (inHist K H r.2 = true → alpha = 0))

/-- after the root call: the entries under the root's key have remaining depth at most `bd` and avoid the history;
a winning value leaves an entry there -/
def RootPost (K : Keys) (H : List UInt64) (L nT nB : Nat) (s : State) (k0 bd : Nat) (r : Eval) (st' : St) : Prop :=
  TT.AInv L nT nB st'.tt ∧ (∀ x, st'.tt.find k0 = some x → x.maxDepth - x.depth ≤ bd ∧ Avoids K H s x) ∧
  (10000 ≤ r → ∃ x, st'.tt.find k0 = some x)

section rootE
variable {K : Keys} {H : List UInt64} {L nT nB k0 : Nat} (g : Geo L nT nB)
include g

theorem childLoop_rootE {x0 : Option TT.Entry} (ctx : Ctx) (child : NodeArgs → M Eval) (a : NodeArgs)
    (hk : (hash K a.s).toNat = k0) (α₀ : Eval)
    (hchild : ∀ args : NodeArgs, 0 < args.curDepth → Holds (Frame L nT nB k0 x0) (child args) (fun _ => True))
    (hzero : ∀ args : NodeArgs, 0 < args.curDepth → inHist K H args.s = true →
      Triple (fun _ => True) (child args) (fun r _ => r = 0)) :
    ∀ (l : List Move) (alpha : Eval) (best : Option Move) (kind : Nat),
      (∀ mv ∈ l, ∀ r, tryAsLegal a.s mv = some (some r) → r ∈ legalMoves a.s) →
      RLoopInv K H a.s α₀ alpha best →
      Triple (Frame L nT nB k0 x0) (childLoop ctx child a (hash K a.s) l alpha best kind) (fun res st' =>
        match res with
        | .error _ => TT.AInv L nT nB st'.tt ∧ ∃ x, st'.tt.find k0 = some x ∧ x.maxDepth = a.maxDepth ∧
            x.depth = a.curDepth ∧ Avoids K H a.s x
        | .ok (alpha', best', _) => Frame L nT nB k0 x0 st' ∧ RLoopInv K H a.s α₀ alpha' best') := by
  intro l
  induction l with
  | nil =>
    intro alpha best kind _ hb
    rw [childLoop.eq_1]
    exact Triple.pure fun st hp => ⟨hp, hb⟩
  | cons mv rest ih =>
    intro alpha best kind hleg hb
    have hleg' : ∀ mv ∈ rest, ∀ r, tryAsLegal a.s mv = some (some r) → r ∈ legalMoves a.s :=
      fun mv' h' => hleg mv' (List.mem_cons_of_mem _ h')
    rw [childLoop.eq_2]
    cases ht : tryAsLegal a.s mv with
    | none => exact Triple.throw
    | some o =>
      cases o with
      | none => exact ih alpha best kind hleg' hb
      | some mn =>
        obtain ⟨mm, next⟩ := mn
        simp only
        have hr : (mm, next) ∈ legalMoves a.s := hleg mv List.mem_cons_self _ ht
        have hpos : ∀ ext : Nat, 0 < a.curDepth + 1 + ext := fun _ => by omega
        generalize hext : (if a.curExt < Gen.extensionCap then extensionOf a.s else 0) = ext
        have hc : Triple (Frame L nT nB k0 x0)
            (child { s := next, maxDepth := a.maxDepth + ext, curDepth := a.curDepth + 1 + ext,
                     curExt := a.curExt + ext, alpha := -a.beta, beta := -alpha, prioritized := Option.none })
            (fun v st' => Frame L nT nB k0 x0 st' ∧ (inHist K H next = true → v = 0)) := by
          by_cases hin : inHist K H next = true
          · exact ((Triple.of_holds (hchild _ (hpos ext))).and (hzero _ (hpos ext) hin)).conseq
              (fun st hp => ⟨hp, trivial⟩) fun v st' h => ⟨h.1.1, fun _ => h.2⟩
          · exact (Triple.of_holds (hchild _ (hpos ext))).conseq (fun _ h => h)
              fun v st' h => ⟨h.1, fun h' => absurd h' hin⟩
        refine Triple.bind hc fun v => ?_
        refine Triple.pre_pure (φ := inHist K H next = true → v = 0) (fun _ hp => hp.2) fun hv => ?_
        split
        · rename_i hcut
          refine Triple.bind (R := fun _ st' => TT.AInv L nT nB st'.tt ∧ ∃ x, st'.tt.find k0 = some x ∧
              x.maxDepth = a.maxDepth ∧ x.depth = a.curDepth ∧ Avoids K H a.s x)
            (Triple.modify fun st hp => ⟨hp.1.1.insert g.hL g.hT g.hB _ _,
              { kind := kindLower, mv := mm.toNat, depth := a.curDepth, maxDepth := a.maxDepth, eval := a.beta },
              ?_, rfl, rfl, ?_⟩)
            fun _ => Triple.pure fun st hp => hp
          · rw [hk]
            exact hp.1.1.find_insert_self g.hL g.hT g.hB _ _
          · intro hwin
            refine ⟨(mm, next), hr, rfl, ?_⟩
            cases hin : inHist K H next with
            | false => rfl
            | true =>
              exfalso
              have hv0 := hv hin
              replace hwin : (10000 : Int) ≤ a.beta := hwin
              replace hcut : -v ≥ a.beta := hcut
              eomega
        · split
          · refine (ih (-v) (some mm) kindExact hleg' ⟨fun h => (nomatch h), fun m hm => ?_⟩).conseq
              (fun st hp => hp.1) fun _ _ h => h
            cases hm
            refine ⟨(mm, next), hr, rfl, fun hin => ?_⟩
            have := hv hin
            eomega
          · exact (ih _ _ _ hleg' hb).conseq (fun st hp => hp.1) fun _ _ h => h

omit g in
theorem frame_entries {x0 : Option TT.Entry} {s : State} {bd : Nat} {st : St} (h : Frame L nT nB k0 x0 st)
    (hx0 : ∀ e, x0 = some e → e.maxDepth - e.depth ≤ bd ∧ Avoids K H s e) :
    ∀ x, st.tt.find k0 = some x → x.maxDepth - x.depth ≤ bd ∧ Avoids K H s x := by
  intro x hx
  rcases h.2 with h1 | h1
  · rw [h1] at hx; cases hx
  · rw [h1] at hx; exact hx0 x hx

theorem tail_rootE {x0 : Option TT.Entry} (ctx : Ctx) (a : NodeArgs) (alpha beta : Eval)
    (hk : (hash K a.s).toNat = k0) (hα : alpha < 10000) (bound : Nat)
    (hx0 : ∀ e, x0 = some e → e.maxDepth - e.depth ≤ bound + 1 ∧ Avoids K H a.s e)
    (hsd : a.maxDepth - a.curDepth = bound + 1)
    {ms : List (Move × State)} (hms : legalMoves? a.s = some ms) (hprio : PrioOK a)
    (child : NodeArgs → M Eval)
    (hchild : ∀ args : NodeArgs, 0 < args.curDepth → Holds (Frame L nT nB k0 x0) (child args) (fun _ => True))
    (hzero : ∀ args : NodeArgs, 0 < args.curDepth → inHist K H args.s = true →
      Triple (fun _ => True) (child args) (fun r _ => r = 0)) :
    Triple (Frame L nT nB k0 x0) (tail ctx a (hash K a.s) alpha beta (some child))
      (RootPost K H L nT nB a.s k0 (bound + 1)) := by
  obtain ⟨ps, hps⟩ := pseudo_of_legal hms
  have hlm := legalMoves_of_some hms
  unfold tail
  rw [hps]
  simp only
  refine Triple.bind (Triple.of_holds (sort_holds _ _ fun x => Holds.bind
    (jitter_holds fun st r (hi : Frame L nT nB k0 x0 st) => hi) fun _ _ => pureT)) fun sorted => ?_
  refine Triple.pre_pure (φ := ∀ x, x ∈ sorted ↔ x ∈ ps) (fun _ hp => hp.2) fun hsorted => ?_
  refine Triple.bind (R := fun _ st' => Frame L nT nB k0 x0 st') (Triple.get fun st hp => hp.1) fun st0 => ?_
  have hleg : ∀ mv ∈ (match a.prioritized with | some m => sorted ++ [m] | Option.none => sorted).reverse,
      ∀ r, tryAsLegal a.s mv = some (some r) → r ∈ legalMoves a.s := by
    intro mv hmv r ht
    rcases (mem_buffer _ _ _).1 hmv with h | h
    · rw [hlm]; exact (legal_iff hms hps r).2 ⟨mv, (hsorted mv).1 h, ht⟩
    · obtain ⟨r0, hr0, h0⟩ := hprio mv h
      have := try_of_legal hms hr0
      rw [h0, ht] at this
      cases this; exact hr0
  refine Triple.bind (childLoop_rootE g ctx child { a with alpha := alpha, beta := beta } hk alpha hchild hzero _ alpha
    Option.none kindUpper hleg ⟨fun _ => rfl, fun m h => (nomatch h)⟩) fun res => ?_
  rcases res with b | ⟨alpha', best, kind⟩
  · refine Triple.pure fun st hp => ?_
    obtain ⟨h1, x, h2, h3, h4, h5⟩ := hp
    refine ⟨h1, fun x' hx' => ?_, fun _ => ⟨x, h2⟩⟩
    rw [h2] at hx'
    cases hx'
    refine ⟨?_, h5⟩
    have e1 : x.maxDepth = a.maxDepth := h3
    have e2 : x.depth = a.curDepth := h4
    omega
  · simp only
    refine Triple.bind (R := fun _ st' => Frame L nT nB k0 x0 st' ∧ RLoopInv K H a.s alpha alpha' best)
      (Triple.get fun st hp => hp) fun st1 => ?_
    by_cases hn : (st1.nodes == st0.nodes) = true
    · rw [if_pos hn]
      cases he : evaluate a.s a.s.turn a.curDepth with
      | none => exact triple_throw_bind
      | some e =>
        simp only
        refine Triple.pure fun st hp => ⟨hp.1.1, frame_entries hp.1 hx0, fun h => ?_⟩
        have := static_lt he
        exfalso; eomega
    · rw [if_neg hn]
      cases best with
      | none =>
        refine Triple.pure fun st hp => ⟨hp.1.1, frame_entries hp.1 hx0, fun h => ?_⟩
        rw [hp.2.1 rfl] at h
        exfalso; eomega
      | some mm =>
        simp only
        refine Triple.bind (R := fun _ st' => RootPost K H L nT nB a.s k0 (bound + 1) alpha' st')
          (Triple.modify fun st hp => ?_) fun _ => Triple.pure fun st hp => hp
        have hfind : (st.tt.insert (hash K a.s).toNat
            { kind := kind, mv := mm.toNat, depth := a.curDepth, maxDepth := a.maxDepth, eval := alpha' }).find k0 =
            some { kind := kind, mv := mm.toNat, depth := a.curDepth, maxDepth := a.maxDepth, eval := alpha' } := by
          rw [hk]
          exact hp.1.1.find_insert_self g.hL g.hT g.hB _ _
        refine ⟨hp.1.1.insert g.hL g.hT g.hB _ _, fun x hx => ?_, fun _ => ⟨_, hfind⟩⟩
        rw [hfind] at hx
        cases hx
        refine ⟨by show a.maxDepth - a.curDepth ≤ bound + 1; omega, fun hwin => ?_⟩
        obtain ⟨r, hr, h1, h2⟩ := hp.2.2 mm rfl
        refine ⟨r, hr, by rw [h1], ?_⟩
        cases hin : inHist K H r.2 with
        | false => rfl
        | true =>
          exfalso
          have := h2 hin
          replace hwin : (10000 : Int) ≤ alpha' := hwin
          eomega

theorem probe_rootE (ctx : Ctx) (a : NodeArgs) (hk : (hash K a.s).toNat = k0)
    (hα : a.alpha < 10000) (bound : Nat) (hsd : a.maxDepth - a.curDepth = bound + 1)
    {ms : List (Move × State)} (hms : legalMoves? a.s = some ms) (hprio : PrioOK a)
    (child : NodeArgs → M Eval)
    (hchild : ∀ (x0 : Option TT.Entry) (args : NodeArgs), 0 < args.curDepth →
      Holds (Frame L nT nB k0 x0) (child args) (fun _ => True))
    (hzero : ∀ args : NodeArgs, 0 < args.curDepth → inHist K H args.s = true →
      Triple (fun _ => True) (child args) (fun r _ => r = 0)) :
    Triple (fun st => TT.AInv L nT nB st.tt ∧
        ∀ x, st.tt.find k0 = some x → x.maxDepth - x.depth ≤ bound ∧ Avoids K H a.s x)
      (probe ctx a (hash K a.s) (some child)) (RootPost K H L nT nB a.s k0 (bound + 1)) := by
  unfold probe
  refine Triple.bind (R := fun s st' => st' = s ∧ (TT.AInv L nT nB s.tt ∧
      ∀ x, s.tt.find k0 = some x → x.maxDepth - x.depth ≤ bound ∧ Avoids K H a.s x))
    (Triple.get fun st hp => ⟨rfl, hp⟩) fun st => ?_
  refine Triple.pre_pure (φ := TT.AInv L nT nB st.tt ∧
      ∀ x, st.tt.find k0 = some x → x.maxDepth - x.depth ≤ bound ∧ Avoids K H a.s x) (fun _ hp => hp.2) fun hst => ?_
  have htail : Triple (fun st' => st' = st ∧ (TT.AInv L nT nB st.tt ∧
      ∀ x, st.tt.find k0 = some x → x.maxDepth - x.depth ≤ bound ∧ Avoids K H a.s x))
      (tail ctx a (hash K a.s) a.alpha a.beta (some child)) (RootPost K H L nT nB a.s k0 (bound + 1)) :=
    (tail_rootE g ctx a a.alpha a.beta hk hα bound (x0 := st.tt.find k0)
      (fun e he => ⟨Nat.le_succ_of_le (hst.2 e he).1, (hst.2 e he).2⟩) hsd hms hprio child (hchild _) hzero).conseq
      (fun st' hp => by rw [hp.1]; exact ⟨hp.2.1, Or.inr rfl⟩) fun _ _ h => h
  cases hf : st.tt.find (hash K a.s).toNat with
  | none => exact htail
  | some e =>
    simp only
    have hf' : st.tt.find k0 = some e := by rw [← hk]; exact hf
    have hR := (hst.2 e hf').1
    split
    · exact triple_throw_bind
    · rw [if_neg (by omega)]
      exact htail

theorem nodeBody_rootE (ctx : Ctx) (hK : ctx.keys = K) (a : NodeArgs) (hk : (hash K a.s).toNat = k0)
    (hα : a.alpha < 10000) (bound : Nat) (hsd : a.maxDepth - a.curDepth = bound + 1)
    (hcur : a.curDepth = 0)
    {ms : List (Move × State)} (hms : legalMoves? a.s = some ms) (hprio : PrioOK a)
    (child : NodeArgs → M Eval)
    (hchild : ∀ (x0 : Option TT.Entry) (args : NodeArgs), 0 < args.curDepth →
      Holds (Frame L nT nB k0 x0) (child args) (fun _ => True))
    (hzero : ∀ args : NodeArgs, 0 < args.curDepth → inHist K H args.s = true →
      Triple (fun _ => True) (child args) (fun r _ => r = 0)) :
    Triple (fun st => TT.AInv L nT nB st.tt ∧
        ∀ x, st.tt.find k0 = some x → x.maxDepth - x.depth ≤ bound ∧ Avoids K H a.s x)
      (nodeBody ctx (some child) a) (RootPost K H L nT nB a.s k0 (bound + 1)) := by
  subst hK
  unfold nodeBody
  refine Triple.bind (R := fun _ st => TT.AInv L nT nB st.tt ∧
      ∀ x, st.tt.find k0 = some x → x.maxDepth - x.depth ≤ bound ∧ Avoids ctx.keys H a.s x)
    (Triple.modify fun st hp => hp) fun _ => ?_
  refine Triple.bind (R := fun s st' => (TT.AInv L nT nB st'.tt ∧
      ∀ x, st'.tt.find k0 = some x → x.maxDepth - x.depth ≤ bound ∧ Avoids ctx.keys H a.s x) ∧
      (TT.AInv L nT nB s.tt ∧
      ∀ x, s.tt.find k0 = some x → x.maxDepth - x.depth ≤ bound ∧ Avoids ctx.keys H a.s x))
    (Triple.get fun st hp => ⟨hp, hp⟩) fun st => ?_
  simp only
  have hrest : Triple (fun st => TT.AInv L nT nB st.tt ∧
      ∀ x, st.tt.find k0 = some x → x.maxDepth - x.depth ≤ bound ∧ Avoids ctx.keys H a.s x)
      (if (decide (a.curDepth > 0) && ctx.history.contains (hash ctx.keys a.s)) = true then pure 0
        else probe ctx a (hash ctx.keys a.s) (some child)) (RootPost ctx.keys H L nT nB a.s k0 (bound + 1)) := by
    rw [if_neg (by rw [hcur]; simp)]
    exact probe_rootE g ctx a hk hα bound hsd hms hprio child hchild hzero
  split
  · refine Triple.bind (R := fun _ st => TT.AInv L nT nB st.tt ∧
        ∀ x, st.tt.find k0 = some x → x.maxDepth - x.depth ≤ bound ∧ Avoids ctx.keys H a.s x)
      (Triple.set fun st' hp => hp.2) fun _ => ?_
    split
    · split
      · exact triple_throw_bind
      · exact hrest
    · rw [if_neg (by decide)]; exact hrest
  · exact hrest.conseq (fun st hp => hp.1) fun _ _ h => h

/-- **the root call and the entries under the root's key.**  The key of the node's position is recorded in the
history (as `analyze_iterative` arranges for the root), so nothing below writes under it.  If before the call the
entries under that key have remaining depth at most `bound` and avoid the history, and the call searches with
remaining depth `bound + 1`, then afterwards they have remaining depth at most `bound + 1` and avoid the history,
and a returned value `≥ POS_INF` leaves an entry there. -/
theorem searchNode_rootE (ctx : Ctx) (hK : ctx.keys = K) (hH : ctx.history = H) (rem : Nat) (a : NodeArgs)
    (hk : (hash K a.s).toNat = k0)
    (hk0 : ∀ s, (hash K s).toNat = k0 → H.contains (hash K s) = true)
    (hα : a.alpha < 10000) (bound : Nat) (hsd : a.maxDepth - a.curDepth = bound + 1)
    (hcur : a.curDepth = 0) {ms : List (Move × State)} (hms : legalMoves? a.s = some ms) (hprio : PrioOK a) :
    Triple (fun st => TT.AInv L nT nB st.tt ∧
        ∀ x, st.tt.find k0 = some x → x.maxDepth - x.depth ≤ bound ∧ Avoids K H a.s x)
      (searchNode ctx (rem + 1) a) (RootPost K H L nT nB a.s k0 (bound + 1)) := by
  rw [searchNode_succ]
  subst hK
  subst hH
  exact nodeBody_rootE g ctx rfl a hk hα bound hsd hcur hms hprio _
    (fun x0 args hd => searchNode_frame g ctx hk0 rem args hd)
    (fun args hd hin => searchNode_hist_zero ctx rem args hd hin)

end rootE

/-! ## 4. one worker, one iteration -/

theorem runWorkers_single (ctx : Ctx) (root : State) (depth : Nat) (bestMv : Option Move) (seed : UInt64)
    (tt : TT.Access) (polls : Nat) :
    runWorkers ctx root depth bestMv [(0, seed)] { tt := tt, polls := polls, evals := [], sumNodes := 0 } =
      match runWorker ctx root (depth + 1) bestMv tt (Rng.seedFromU64 seed) polls with
      | (.ok e, stw) => { tt := stw.tt, polls := stw.polls, evals := [e], sumNodes := 0 + stw.nodes }
      | (.error .interrupt, stw) => { tt := stw.tt, polls := stw.polls, evals := [], sumNodes := 0, interrupted := true }
      | (.error (.panic why), _) => { tt := tt, polls := polls, evals := [], sumNodes := 0, panic := some why } := by
  rw [runWorkers.eq_2]
  simp only [Bool.or_self, Option.isSome_none, Bool.false_eq_true, if_false, beq_self_eq_true, if_true]
  show (match runWorker ctx root (depth + 1) bestMv tt (Rng.seedFromU64 seed) polls with
    | (.ok e, st) => runWorkers ctx root depth bestMv []
        { tt := st.tt, polls := st.polls, evals := [] ++ [e], sumNodes := 0 + st.nodes }
    | (.error .interrupt, st) => { tt := st.tt, polls := st.polls, evals := [], sumNodes := 0, interrupted := true }
    | (.error (.panic why), _) => { tt := tt, polls := polls, evals := [], sumNodes := 0, panic := some why }) = _
  split <;> rfl

/-- the fields of the loop state after an iteration with one worker, by the outcome of that worker -/
theorem iterStep_one (ctx : Ctx) (root : State) (rootHash : UInt64) (depth : Nat) (st : IterSt) :
    ∃ seed : UInt64,
      (∀ e stw, runWorker ctx root (depth + 1) st.bestMv st.tt (Rng.seedFromU64 seed) st.polls = (.ok e, stw) →
        (iterStep ctx root rootHash 1 depth st).tt = stw.tt ∧
        (iterStep ctx root rootHash 1 depth st).panic = st.panic ∧
        ((walkLine ctx.keys stw.tt (depth + 1) root).isEmpty = true →
          (iterStep ctx root rootHash 1 depth st).finished = st.finished ∧
          (iterStep ctx root rootHash 1 depth st).bestMv = Option.none ∧
          ∃ nodes, (iterStep ctx root rootHash 1 depth st).events = st.events ++ [.progress (depth + 1) nodes]) ∧
        ((walkLine ctx.keys stw.tt (depth + 1) root).isEmpty = false →
          (iterStep ctx root rootHash 1 depth st).finished = decide (e ≥ Ev.posInf) ∧
          (iterStep ctx root rootHash 1 depth st).bestMv = (walkLine ctx.keys stw.tt (depth + 1) root).head? ∧
          ∃ nodes, (iterStep ctx root rootHash 1 depth st).events =
            st.events ++ [.progress (depth + 1) nodes, .best e (walkLine ctx.keys stw.tt (depth + 1) root)])) ∧
      (∀ why stw, runWorker ctx root (depth + 1) st.bestMv st.tt (Rng.seedFromU64 seed) st.polls =
          (.error (.panic why), stw) → (iterStep ctx root rootHash 1 depth st).panic = some why) := by
  obtain ⟨v, hv⟩ := drawSeeds_one st.rng
  refine ⟨v, ?_, ?_⟩
  · intro e stw hrun
    unfold iterStep
    rcases hds : drawSeeds 1 st.rng with ⟨seeds, rng⟩
    rw [hds] at hv
    simp only at hv
    subst hv
    have hz : (List.range 1).zip [v] = [(0, v)] := rfl
    simp only [hz, runWorkers_single, hrun]
    by_cases hl : (walkLine ctx.keys stw.tt (depth + 1) root).isEmpty = true
    · simp only [hl, if_true, Bool.not_false]
      exact ⟨trivial, trivial, fun _ => ⟨trivial, trivial, _, rfl⟩, fun h => nomatch h⟩
    · have hl' : (walkLine ctx.keys stw.tt (depth + 1) root).isEmpty = false := by
        cases hx : (walkLine ctx.keys stw.tt (depth + 1) root).isEmpty <;> simp_all
      simp only [hl', Bool.not_false, if_true, Bool.false_eq_true, if_false]
      exact ⟨trivial, trivial, fun h => h.elim,
        fun _ => ⟨rfl, trivial, _, by rw [List.append_assoc]; rfl⟩⟩
  · intro why stw hrun
    unfold iterStep
    rcases hds : drawSeeds 1 st.rng with ⟨seeds, rng⟩
    rw [hds] at hv
    simp only at hv
    subst hv
    have hz : (List.range 1).zip [v] = [(0, v)] := rfl
    simp only [hz, runWorkers_single, hrun]

theorem perform_of_legal {s : State} {ms : List (Move × State)} (hl : legalMoves? s = some ms)
    {r : Move × State} (hr : r ∈ legalMoves s) : performMove s r.1 = some (.ok r.2) := by
  have ht := try_of_legal hl hr
  unfold tryAsLegal at ht
  split at ht
  · rename_i next hp
    simp only at ht
    split at ht
    · have h2 := congrArg Prod.snd (Option.some.inj (Option.some.inj ht))
      simp only at h2
      rw [hp, h2]
    · cases ht
  · cases ht

theorem legal_unique {s : State} {ms : List (Move × State)} (hl : legalMoves? s = some ms)
    {r r' : Move × State} (hr : r ∈ legalMoves s) (hr' : r' ∈ legalMoves s) (h : r.1 = r'.1) : r = r' := by
  have h1 := try_of_legal hl hr
  have h2 := try_of_legal hl hr'
  rw [h, h2] at h1
  cases h1; rfl

/-- an entry under the root's key whose move is legal gives a non-empty line starting with that move -/
theorem walkLine_nonempty {keys : Keys} {tt : TT.Access} {n : Nat} {root : State} {ms : List (Move × State)}
    (hl : legalMoves? root = some ms) {x : TT.Entry} (hf : tt.find (hash keys root).toNat = some x)
    (hm : ∃ r ∈ legalMoves root, r.1 = x.mv.toUInt32) :
    (walkLine keys tt (n + 1) root).isEmpty = false ∧
      (walkLine keys tt (n + 1) root).head? = some x.mv.toUInt32 := by
  obtain ⟨r, hr, h1⟩ := hm
  have hp := perform_of_legal hl hr
  rw [h1] at hp
  rw [walkLine.eq_2, hf]
  simp only [hp]
  exact ⟨rfl, rfl⟩

theorem runWorker_no_interrupt (ctx : Ctx) (root : State) (hc : ctx.cancelAt = Option.none) (sd : Nat) (best : Option Move) (tt : TT.Access)
    (rng : Rng.ChaCha8) (polls : Nat) (stw : St) :
    runWorker ctx root sd best tt rng polls ≠ (.error .interrupt, stw) := by
  intro h
  have := searchNode_not_interrupted ctx hc sd (rootArgs root sd best) { tt := tt, rng := rng, nodes := 0, polls := polls }
  rw [← runWorker_eq, h] at this
  exact this rfl

/-- invariant of the deepening loop for completeness: the soundness invariant `IterOK`, `CompleteTT`, and the
entries under the root's key come from root calls of earlier iterations and avoid the history -/
def CIter (K : Keys) (H : List UInt64) (D : State → Prop) (B L nT nB : Nat) (root : State) (depth : Nat)
    (st : IterSt) : Prop :=
  IterOK K D L nT nB root st ∧ CompleteTT K H D B st.tt ∧
  ∀ x, st.tt.find (hash K root).toNat = some x → x.maxDepth - x.depth ≤ depth ∧ Avoids K H root x

section iterC
variable {K : Keys} {H : List UInt64} {D : State → Prop} {B L nT nB : Nat} (g : Geo L nT nB) (dom : Domain K D)
  (coll : CollH K H D B) (ctx : Ctx) (hK : ctx.keys = K) (hH : ctx.history = H)
  (root : State) (hD : D root) (hhist : H.contains (hash K root) = true)
include g dom coll hK hH hD hhist

/-- one worker that returns: soundness and completeness invariants of the table, a sound and complete value, the
pairing of a winning value with the root entry, and the entries under the root's key -/
theorem runWorker_complete (depth : Nat) (hdB : depth + 1 ≤ B) (best : Option Move) (hbest : BestOK root best)
    (tt : TT.Access) (htt : TTInv K D L nT nB tt) (hct : CompleteTT K H D B tt)
    (hre : ∀ x, tt.find (hash K root).toNat = some x → x.maxDepth - x.depth ≤ depth ∧ Avoids K H root x)
    (rng : Rng.ChaCha8) (polls : Nat) (e : Eval) (stw : St)
    (hrun : runWorker ctx root (depth + 1) best tt rng polls = (.ok e, stw)) :
    TTInv K D L nT nB stw.tt ∧ CompleteTT K H D B stw.tt ∧ SoundVal root (-11000) 11000 e ∧
    (fmH K H (depth + 1) root = true → 10000 ≤ e) ∧
    (10000 ≤ e → ∀ x, stw.tt.find (hash K root).toNat = some x → 10000 ≤ x.eval) ∧
    RootPost K H L nT nB root (hash K root).toNat (depth + 1) e stw := by
  have hspec := runWorker_spec g dom ctx hK root hD depth best hbest tt htt rng polls
  rw [hrun] at hspec
  obtain ⟨s1, s2⟩ := hspec
  obtain ⟨s2, s3⟩ := s2 e rfl
  have hexec : exec (searchNode ctx (depth + 1) (rootArgs root (depth + 1) best))
      { tt := tt, rng := rng, nodes := 0, polls := polls } = (.ok e, stw) := by
    rw [← runWorker_eq]; exact hrun
  have hab : (rootArgs root (depth + 1) best).alpha < (rootArgs root (depth + 1) best).beta :=
    show - Ev.mateInPly 0 < Ev.mateInPly 0 by decide
  have hc := searchNode_complete g dom coll ctx hK hH (depth + 1) (rootArgs root (depth + 1) best) hD hab
    (show depth + 1 = 0 + (depth + 1) by omega) hdB hbest 0
    { tt := tt, rng := rng, nodes := 0, polls := polls } ⟨⟨htt.1, hct⟩, Nat.le_refl _⟩ e stw hexec
  obtain ⟨c1, _, c3, _⟩ := hc
  obtain ⟨ms, hms⟩ := dom.gen hD
  have hr := searchNode_rootE (K := K) (H := H) (k0 := (hash K root).toNat) g ctx hK hH depth
    (rootArgs root (depth + 1) best) rfl
    (fun s hs => by rw [UInt64.toNat_inj.1 hs]; exact hhist)
    (show - Ev.mateInPly 0 < 10000 by decide) depth (show depth + 1 - 0 = depth + 1 by omega) rfl hms hbest
    { tt := tt, rng := rng, nodes := 0, polls := polls } ⟨htt.1, hre⟩ e stw hexec
  refine ⟨s1, c1.2, s2, fun hw => ?_, fun hwin => ?_, hr⟩
  · have hv := (c3 (Or.inl rfl)).1 hw
    have h0 := root_window.2
    have hv' : Ev.mateInPly 0 ≤ e ∨ 10000 ≤ e := hv
    rw [h0] at hv'
    eomega
  · exact s3 (by rw [hH]; exact hhist) hwin

/-- **one iteration with one worker, never cancelled, not panicking.**  Either the worker's value is winning: then
the iteration reports it together with a line whose first move leads to a `Lost`, unrecorded position, and ends the
loop; or it is not: then the root is not a visible forced mate within the iteration's search depth, the loop goes on
and the loop invariant holds for the next depth. -/
theorem iterStep_complete (hc : ctx.cancelAt = Option.none) (depth : Nat) (hdB : depth + 1 ≤ B) (st : IterSt)
    (hci : CIter K H D B L nT nB root depth st) (hfin : st.finished = false)
    (hnp : (iterStep ctx root (hash K root) 1 depth st).panic = Option.none) :
    ∃ e : Eval, (fmH K H (depth + 1) root = true → 10000 ≤ e) ∧
      ((10000 ≤ e ∧ (iterStep ctx root (hash K root) 1 depth st).finished = true ∧
          ∃ nodes line r, (iterStep ctx root (hash K root) 1 depth st).events =
              st.events ++ [.progress (depth + 1) nodes, .best e line] ∧
            r ∈ legalMoves root ∧ line.head? = some r.1 ∧ Lost r.2 ∧ inHist K H r.2 = false) ∨
       (e < 10000 ∧ (iterStep ctx root (hash K root) 1 depth st).finished = false ∧
          CIter K H D B L nT nB root (depth + 1) (iterStep ctx root (hash K root) 1 depth st))) := by
  obtain ⟨hio, hct, hre⟩ := hci
  have hsound := (iterStep_sound g dom ctx hK root hD (hash K root) (by rw [hK])
    (by rw [hH]; exact hhist) 1 depth st hio).1
  obtain ⟨seed, hok, hpanic⟩ := iterStep_one ctx root (hash K root) depth st
  rcases hrun : runWorker ctx root (depth + 1) st.bestMv st.tt (Rng.seedFromU64 seed) st.polls with ⟨res, stw⟩
  cases res with
  | error err =>
    cases err with
    | interrupt => exact absurd hrun (runWorker_no_interrupt ctx root hc _ _ _ _ _ _)
    | panic why =>
      have := hpanic why stw hrun
      rw [this] at hnp; cases hnp
  | ok e =>
    obtain ⟨w1, w2, w3, w4, w5, w6⟩ := runWorker_complete g dom coll ctx hK hH root hD hhist depth hdB st.bestMv
      hio.2.1 st.tt hio.1 hct hre (Rng.seedFromU64 seed) st.polls e stw hrun
    obtain ⟨o1, o2, o3, o4⟩ := hok e stw hrun
    obtain ⟨ms, hms⟩ := dom.gen hD
    refine ⟨e, w4, ?_⟩
    by_cases hwin : 10000 ≤ e
    · left
      obtain ⟨x, hx⟩ := w6.2.2 hwin
      obtain ⟨hmv, hmvw⟩ := root_entry_move w1.2 hD hx
      have hxwin := w5 hwin x hx
      obtain ⟨r, hr, hr1, hr2⟩ := hmvw hxwin
      obtain ⟨r', hr', hr1', hr2'⟩ := (w6.2.1 x hx).2 hxwin
      have hrr : r' = r := legal_unique hms hr' hr (by rw [hr1, ← toUInt32_of_toNat hr1'])
      subst hrr
      have hx' : stw.tt.find (hash ctx.keys root).toNat = some x := by rw [hK]; exact hx
      obtain ⟨l1, l2⟩ := walkLine_nonempty (n := depth) hms hx' hmv
      obtain ⟨p1, p2, nodes, p3⟩ := o4 l1
      refine ⟨hwin, ?_, nodes, _, r', p3, hr', by rw [l2, hr1], hr2, hr2'⟩
      rw [p1, decide_eq_true_eq, posInf_eq]
      exact hwin
    · right
      have hlt : e < 10000 := by eomega
      have hfin' : (iterStep ctx root (hash K root) 1 depth st).finished = false := by
        cases hl : (walkLine ctx.keys stw.tt (depth + 1) root).isEmpty with
        | true => rw [(o3 hl).1]; exact hfin
        | false =>
          rw [(o4 hl).1, decide_eq_false_iff_not, posInf_eq]
          eomega
      refine ⟨hlt, hfin', hsound, ?_, ?_⟩
      · rw [o1]; exact w2
      · rw [o1]; exact w6.2.1

end iterC

/-! ## 5. the deepening loop -/

theorem iterStep_panic_of (ctx : Ctx) (root : State) (rootHash : UInt64) (workers depth : Nat) (st : IterSt)
    (h : st.panic ≠ Option.none) : (iterStep ctx root rootHash workers depth st).panic ≠ Option.none := by
  unfold iterStep
  rcases drawSeeds workers st.rng with ⟨seeds, rng⟩
  simp only
  split
  · exact fun h' => nomatch h'
  · split
    · split <;> exact h
    · exact h

theorem iterLoop_panic_of (ctx : Ctx) (root : State) (rootHash : UInt64) (workersOf : Nat → Nat) :
    ∀ (n depth : Nat) (st : IterSt), st.panic ≠ Option.none →
      (iterLoop ctx root rootHash workersOf n depth st).panic ≠ Option.none := by
  intro n
  induction n with
  | zero => intro depth st h; exact h
  | succ n ih =>
    intro depth st h
    rw [iterLoop_succ]
    split
    · exact h
    · split
      · rw [boundaryPoll_panic]; exact h
      · exact ih _ _ (iterStep_panic_of ctx root rootHash _ depth _ (by rw [boundaryPoll_panic]; exact h))

section loopC
variable {K : Keys} {H : List UInt64} {D : State → Prop} {B L nT nB : Nat} (g : Geo L nT nB) (dom : Domain K D)
  (coll : CollH K H D B) (ctx : Ctx) (hK : ctx.keys = K) (hH : ctx.history = H)
  (root : State) (hD : D root) (hhist : H.contains (hash K root) = true)
include g dom coll hK hH hD hhist

/-- **the deepening loop finds the mate.**  One worker per iteration, no cancellation, no panic.  If the root is a
visible forced mate within `n₀ ≤ B` plies, the loop is at iteration `depth < n₀` with the loop invariant, and it may
still run up to iteration `n₀ - 1` (search depth `n₀`), then it ends with a winning `BestMove` report as its last
event, whose first move leads to a `Lost` position with an unrecorded key. -/
theorem iterLoop_complete (hc : ctx.cancelAt = Option.none) (n₀ : Nat) (hn₀B : n₀ ≤ B) (hw : fmH K H n₀ root = true) :
    ∀ (n depth : Nat) (st : IterSt), CIter K H D B L nT nB root depth st → st.finished = false →
      n₀ ≤ depth + n → depth < n₀ →
      (iterLoop ctx root (hash K root) (fun _ => 1) n depth st).panic = Option.none →
      ∃ pre ev line r, (iterLoop ctx root (hash K root) (fun _ => 1) n depth st).events = pre ++ [.best ev line] ∧
        10000 ≤ ev ∧ r ∈ legalMoves root ∧ line.head? = some r.1 ∧ Lost r.2 ∧ inHist K H r.2 = false := by
  intro n
  induction n with
  | zero => intro depth st _ _ h1 h2; omega
  | succ n ih =>
    intro depth st0 hci0 hfin0 h1 h2 hnp
    -- never cancelled: the boundary read of the flag does not end the loop and keeps the invariant
    obtain ⟨st, hst, hci, hfin⟩ : ∃ st, st = boundaryPoll ctx depth st0 ∧ CIter K H D B L nT nB root depth st ∧
        st.finished = false := by
      refine ⟨_, rfl, ?_, ?_⟩
      · unfold CIter; rw [boundaryPoll_tt]; exact ⟨hci0.1.boundaryPoll ctx depth, hci0.2⟩
      · rw [boundaryPoll_finished_of_none ctx hc]; split
        · rfl
        · exact hfin0
    rw [iterLoop_succ, if_neg (by rw [hfin0]; decide), ← hst, if_neg (by rw [hfin]; decide)] at hnp ⊢
    have hnp' : (iterStep ctx root (hash K root) 1 depth st).panic = Option.none := by
      cases hp : (iterStep ctx root (hash K root) 1 depth st).panic with
      | none => rfl
      | some why =>
        exfalso
        exact iterLoop_panic_of ctx root (hash K root) (fun _ => 1) n (depth + 1) _ (by rw [hp]; exact fun h => nomatch h) hnp
    obtain ⟨e, he, hcase⟩ := iterStep_complete g dom coll ctx hK hH root hD hhist hc depth (by omega) st hci hfin hnp'
    rcases hcase with ⟨hwin, hf, nodes, line, r, hev, hr, hl, hlost, hav⟩ | ⟨hlt, hf, hci'⟩
    · rw [SearchCtl.iterLoop_finished _ _ _ _ _ _ _ hf]
      exact ⟨st.events ++ [.progress (depth + 1) nodes], e, line, r, by rw [hev, List.append_assoc]; rfl, hwin, hr, hl,
        hlost, hav⟩
    · have hlt' : depth + 1 < n₀ := by
        rcases Nat.lt_or_ge (depth + 1) n₀ with h | h
        · exact h
        · exfalso
          have := he (fmH_le K H h hw)
          eomega
      exact ih (depth + 1) _ hci' hf (by omega) hlt' hnp

end loopC

/-- the `BestMove` reports of an event list, in emission order -/
def bestReportsC (evs : List Event) : List (Eval × List Move) :=
  evs.filterMap fun e => match e with | .best ev line => some (ev, line) | _ => Option.none

theorem bestReportsC_last (pre : List Event) (ev : Eval) (line : List Move) (tl : List Event)
    (htl : tl = [] ∨ tl = [.warning]) :
    (bestReportsC (pre ++ [.best ev line] ++ tl)).getLast? = some (ev, line) := by
  unfold bestReportsC
  rcases htl with h | h <;> subst h <;> simp [List.filterMap_append]

/-- **`analyze_iterative` finds a visible forced mate** (general history).  Fresh table, one worker per iteration, no
cancellation, depth limit `d`.  `H` is the history the search runs with (the root's key followed by the incoming
history), `D` a domain containing the root.  If the root is a visible forced mate within `n₀ ≤ d` plies (`fmH`),
keys do not collide harmfully (`Domain`'s `coll` for soundness, `CollH … n₀` for completeness) and the search does not
panic, then the last `BestMove` report is winning, and its first move leads to a position that is `Lost` for the
opponent and whose key is not recorded. -/
theorem iterate_complete {D : State → Prop} {nT nB : Nat} (hT : 0 < nT) (hB : 0 < nB) (keys : KeyTable)
    (history : List UInt64) (root : State) (dom : Domain keys.keys D) (hD : D root) (n₀ d : Nat)
    (coll : CollH keys.keys (hash keys.keys root :: history) D n₀)
    (hw : fmH keys.keys (hash keys.keys root :: history) n₀ root = true) (hd : n₀ ≤ d)
    (rng0 : Rng.ChaCha8) (fuelDepth : Nat)
    (hnp : (iterate root rng0 (some d) { keys := keys, tt := TT.Access.new nT nB, history := history }
      (fun _ => 1) Option.none fuelDepth).panic = Option.none) :
    ∃ ev line r, (bestReportsC (iterate root rng0 (some d) { keys := keys, tt := TT.Access.new nT nB, history := history }
        (fun _ => 1) Option.none fuelDepth).events).getLast? = some (ev, line) ∧
      Ev.posInf ≤ ev ∧ r ∈ legalMoves root ∧ line.head? = some r.1 ∧ Lost r.2 ∧
      inHist keys.keys (hash keys.keys root :: history) r.2 = false := by
  have g : Geo Gen.bucketSize nT nB := ⟨by decide, hT, hB⟩
  have hmoves : (legalMoves root).isEmpty = false := by
    cases hl : legalMoves root with
    | nil => exact absurd hl (fmH_moves _ _ hw)
    | cons _ _ => rfl
  have hn₀ : 0 < n₀ := by
    cases n₀ with
    | zero => rw [fmH.eq_1] at hw; cases hw
    | succ _ => omega
  unfold iterate at hnp ⊢
  simp only [hmoves, Bool.false_eq_true, if_false] at hnp ⊢
  have hinit : CIter keys.keys (hash keys.keys root :: history) D n₀ Gen.bucketSize nT nB root 0
      { tt := TT.Access.new nT nB, rng := rng0, events := [], nodes := 0, bestEval := Ev.negInf,
        bestMv := Option.none, polls := 0 } := by
    refine ⟨⟨⟨TT.AInv.new nT nB, fun s e _ hf => by rw [TT.Access.new_find hT hB] at hf; exact nomatch hf⟩,
      fun _ hm => (nomatch hm),
      fun h => absurd (show Ev.posInf ≤ Ev.negInf from h) (by decide)⟩, fun s e _ hf => ?_, fun x hx => ?_⟩
    · rw [TT.Access.new_find hT hB] at hf; cases hf
    · rw [TT.Access.new_find hT hB] at hx; cases hx
  obtain ⟨pre, ev, line, r, hev, h1, h2, h3, h4, h5⟩ := iterLoop_complete g dom coll
    { keys := keys.keys, history := hash keys.keys root :: history, cancelAt := Option.none } rfl rfl root hD
    (by simp) rfl n₀ (Nat.le_refl _) hw d 0 _ hinit rfl (by omega) hn₀ hnp
  refine ⟨ev, line, r, ?_, by rw [posInf_eq]; exact h1, h2, h3, h4, h5⟩
  rw [hev]
  split
  · exact bestReportsC_last pre ev line _ (Or.inr rfl)
  · have := bestReportsC_last pre ev line [] (Or.inl rfl)
    rw [List.append_nil] at this
    exact this

/-! ## 6. empty incoming history: a forced mate of minimal distance is visible -/

/-- no harmful key collision for the mate distances: positions of `D` with the same key are won / lost within the
same numbers of plies (the precise content of "up to 64-bit chance" that completeness needs) -/
def CollisionFreeN (K : Keys) (D : State → Prop) : Prop :=
  ∀ s s', D s → D s' → hash K s = hash K s' → ∀ n, forcedMate n s = forcedMate n s' ∧ lostIn n s = lostIn n s'

theorem inHist_single {K : Keys} {root s : State} (h : inHist K [hash K root] s = true) : hash K s = hash K root := by
  unfold inHist at h
  rw [List.contains_cons] at h
  simpa using h

theorem exists_least (p : Nat → Bool) : ∀ n, p n = true → ∃ m, m ≤ n ∧ p m = true ∧ ∀ k, k < m → p k = false := by
  intro n
  induction n using Nat.strongRecOn with
  | _ n ih =>
    intro h
    by_cases hex : ∃ k, k < n ∧ p k = true
    · obtain ⟨k, hk, hpk⟩ := hex
      obtain ⟨m, hm, h1, h2⟩ := ih k hk hpk
      exact ⟨m, by omega, h1, h2⟩
    · refine ⟨n, Nat.le_refl _, h, fun k hk => ?_⟩
      cases hpk : p k with
      | false => rfl
      | true => exact absurd ⟨k, hk, hpk⟩ hex

section single
variable {K : Keys} {D : State → Prop} (hclosed : ∀ s, D s → ∀ r ∈ legalMoves s, D r.2) (hcf : CollisionFreeN K D)
  {root : State} (hD : D root) {n₀ : Nat} (hw : forcedMate n₀ root = true)
  (hmin : ∀ k, k < n₀ → forcedMate k root = false)
include hclosed hcf hD hw hmin

/-- with only the root's key recorded, the solver and the history-aware solver agree up to the root's mate distance:
along a shortest mate no position repeats the root (it would be won in fewer plies, or lost) -/
theorem solver_hist_equiv : ∀ k, k ≤ n₀ → ∀ s, D s →
    (forcedMate k s = true → fmH K [hash K root] k s = true) ∧
    (lostIn k s = true → liH K [hash K root] k s = true) := by
  intro k
  induction k with
  | zero =>
    intro _ s _
    refine ⟨fun h => ?_, fun h => ?_⟩
    · rw [forcedMate.eq_1] at h; cases h
    · rw [lostIn.eq_1] at h; rw [liH.eq_1]; exact h
  | succ k ih =>
    intro hk s hs
    have ih' := ih (by omega)
    refine ⟨fun h => ?_, fun h => ?_⟩
    · rw [forcedMate.eq_2, List.any_eq_true] at h
      obtain ⟨r, hr, hl⟩ := h
      refine (fmH_succ_iff K _ k s).2 ⟨r, hr, ?_, (ih' r.2 (hclosed s hs r hr)).2 hl⟩
      cases hin : inHist K [hash K root] r.2 with
      | false => rfl
      | true =>
        exfalso
        have hkey := inHist_single hin
        have := (hcf r.2 root (hclosed s hs r hr) hD hkey k).2
        rw [hl] at this
        exact win_lost_excl n₀ k root hw this.symm
    · by_cases he : legalMoves s = []
      · rw [lostIn.eq_2] at h
        simp only [he, List.isEmpty_nil, if_true] at h
        rw [liH.eq_2]
        simp only [he, List.isEmpty_nil, if_true]
        exact h
      · refine liH_succ_of_children K _ he fun r hr => ⟨?_, (ih' r.2 (hclosed s hs r hr)).1 (lostIn_succ_child h hr)⟩
        cases hin : inHist K [hash K root] r.2 with
        | false => rfl
        | true =>
          exfalso
          have hkey := inHist_single hin
          have := (hcf r.2 root (hclosed s hs r hr) hD hkey k).1
          rw [lostIn_succ_child h hr, hmin k (by omega)] at this
          cases this

theorem collH_single : CollH K [hash K root] D n₀ := by
  intro s s' hs hs' hk n hn
  have e := solver_hist_equiv hclosed hcf hD hw hmin n hn
  obtain ⟨c1, c2⟩ := hcf s s' hs hs' hk n
  constructor
  · apply Bool.eq_iff_iff.2
    constructor
    · intro h
      exact (e s' hs').1 (by rw [← c1]; exact (solverH_sub K _ n s).1 h)
    · intro h
      exact (e s hs).1 (by rw [c1]; exact (solverH_sub K _ n s').1 h)
  · apply Bool.eq_iff_iff.2
    constructor
    · intro h
      exact (e s' hs').2 (by rw [← c2]; exact (solverH_sub K _ n s).2 h)
    · intro h
      exact (e s hs).2 (by rw [c2]; exact (solverH_sub K _ n s').2 h)

end single

end Wee.C06
