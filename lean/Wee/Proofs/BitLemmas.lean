import Wee.Model.Bits
/-!
# Bit-level lemmas for `UInt64` bitboards (`test`, `bit`, `setBit`, `clearBit`, shifts, `bitsOf`,
`firstOne`, `lastOne`)

Everything is phrased with `test b n = b.toNat.testBit n`, so the core `Nat.testBit_*` lemmas apply.
-/
namespace Wee

theorem toNat_toUInt64 (k : Nat) (hk : k < 2 ^ 64) : (k.toUInt64).toNat = k := by
  simp [Nat.toUInt64, UInt64.toNat_ofNat', Nat.mod_eq_of_lt hk]

theorem test_or (a b : UInt64) (n : Nat) : test (a ||| b) n = (test a n || test b n) := by
  simp [test, UInt64.toNat_or, Nat.testBit_or]

theorem test_and (a b : UInt64) (n : Nat) : test (a &&& b) n = (test a n && test b n) := by
  simp [test, UInt64.toNat_and, Nat.testBit_and]

theorem test_xor (a b : UInt64) (n : Nat) : test (a ^^^ b) n = (test a n != test b n) := by
  simp [test, UInt64.toNat_xor, Nat.testBit_xor]

@[simp] theorem test_zero (n : Nat) : test 0 n = false := by simp [test]

/-- a set bit of a 64-bit word has index `< 64` -/
theorem test_lt (b : UInt64) (n : Nat) (h : test b n = true) : n < 64 := by
  unfold test at h
  apply Classical.byContradiction
  intro hn
  have : b.toNat < 2 ^ n := Nat.lt_of_lt_of_le b.toNat_lt (Nat.pow_le_pow_right (by omega) (by omega))
  rw [Nat.testBit_lt_two_pow this] at h
  cases h

theorem test_ge (b : UInt64) (n : Nat) (h : 64 ≤ n) : test b n = false := by
  cases hb : test b n with
  | false => rfl
  | true => have := test_lt b n hb; omega

theorem test_bit (m n : Nat) (hm : m < 64) : test (bit m) n = decide (m = n) := by
  unfold test bit
  rw [UInt64.toNat_shiftLeft]
  have h1 : (m.toUInt64).toNat = m := toNat_toUInt64 m (by omega)
  simp only [h1, Nat.mod_eq_of_lt hm]
  have h2 : (1 : UInt64).toNat <<< m % 2^64 = 2^m := by
    simp [Nat.shiftLeft_eq]
    have := Nat.pow_lt_pow_right (by decide : 1 < 2) hm; simpa using this
  rw [h2, Nat.testBit_two_pow]

theorem test_not (b : UInt64) (n : Nat) (hn : n < 64) : test (~~~b) n = !test b n := by
  unfold test
  rw [UInt64.toNat_not]
  have hb := b.toNat_lt
  have : UInt64.size - 1 - b.toNat = 2^64 - 1 - b.toNat := by simp [UInt64.size]
  rw [this]
  have h2 : 2^64 - 1 - b.toNat = 2^64 - (b.toNat + 1) := by omega
  rw [h2, Nat.testBit_two_pow_sub_succ hb]
  simp [hn]

/-- extensionality: two bitboards with the same 64 bits are equal -/
theorem ext (a b : UInt64) (h : ∀ n, n < 64 → test a n = test b n) : a = b := by
  apply UInt64.toNat_inj.1
  apply Nat.eq_of_testBit_eq
  intro i
  by_cases hi : i < 64
  · exact h i hi
  · have ha := test_ge a i (by omega); have hb := test_ge b i (by omega)
    unfold test at ha hb
    rw [ha, hb]

theorem eq_zero_of_test (a : UInt64) (h : ∀ n, n < 64 → test a n = false) : a = 0 :=
  ext a 0 (fun n hn => by rw [h n hn, test_zero])

theorem test_setBit (b : UInt64) (m n : Nat) (hm : m < 64) :
    test (setBit b m) n = (test b n || decide (m = n)) := by
  rw [setBit, test_or, test_bit m n hm]

theorem test_clearBit (b : UInt64) (m n : Nat) (hm : m < 64) :
    test (clearBit b m) n = (test b n && !decide (m = n)) := by
  by_cases hn : n < 64
  · rw [clearBit, test_and, test_not _ _ hn, test_bit m n hm]
  · have h1 := test_ge (clearBit b m) n (by omega)
    have h2 := test_ge b n (by omega)
    rw [h1, h2]; rfl

theorem test_assignBit (b : UInt64) (m n : Nat) (v : Bool) (hm : m < 64) :
    test (assignBit b m v) n = if m = n then v else test b n := by
  unfold assignBit
  cases v
  · simp only [Bool.false_eq_true, if_false]; rw [test_clearBit b m n hm]
    by_cases h : m = n <;> simp [h]
  · simp only [if_true]; rw [test_setBit b m n hm]
    by_cases h : m = n <;> simp [h]

theorem test_shl (b : UInt64) (k n : Nat) (hk : k < 64) :
    test (b <<< k.toUInt64) n = (decide (k ≤ n ∧ n < 64) && test b (n - k)) := by
  unfold test
  rw [UInt64.toNat_shiftLeft]
  have h1 : (k.toUInt64).toNat = k := toNat_toUInt64 k (by omega)
  rw [h1, Nat.mod_eq_of_lt hk, Nat.testBit_mod_two_pow, Nat.testBit_shiftLeft]
  by_cases h : n < 64 <;> by_cases h' : k ≤ n <;> simp [h, h']

theorem test_shr (b : UInt64) (k n : Nat) (hk : k < 64) :
    test (b >>> k.toUInt64) n = test b (n + k) := by
  unfold test
  rw [UInt64.toNat_shiftRight]
  have h1 : (k.toUInt64).toNat = k := toNat_toUInt64 k (by omega)
  rw [h1, Nat.mod_eq_of_lt hk, Nat.testBit_shiftRight, Nat.add_comm]

/-! ## `bitsOf` (`iter_ones`), `popcount`, `firstOne`, `lastOne` -/

theorem mem_bitsOf (b : UInt64) (n : Nat) : n ∈ bitsOf b ↔ n < 64 ∧ test b n = true := by
  simp [bitsOf, List.mem_filter, List.mem_range]

theorem mem_bitsOf' (b : UInt64) (n : Nat) : n ∈ bitsOf b ↔ test b n = true :=
  ⟨fun h => ((mem_bitsOf b n).1 h).2, fun h => (mem_bitsOf b n).2 ⟨test_lt b n h, h⟩⟩

/-- `iter_ones` yields the set bits in strictly ascending order -/
theorem bitsOf_sorted (b : UInt64) : (bitsOf b).Pairwise (· < ·) :=
  List.Pairwise.filter _ List.pairwise_lt_range

theorem bitsOf_nodup (b : UInt64) : (bitsOf b).Nodup :=
  (bitsOf_sorted b).imp (fun h => Nat.ne_of_lt h)

theorem bitsOf_zero : bitsOf 0 = [] := by
  simp [bitsOf]

theorem bitsOf_eq_nil (b : UInt64) : bitsOf b = [] ↔ b = 0 := by
  constructor
  · intro h
    apply eq_zero_of_test
    intro n hn
    cases ht : test b n with
    | false => rfl
    | true => have := (mem_bitsOf b n).2 ⟨hn, ht⟩; rw [h] at this; cases this
  · intro h; subst h; exact bitsOf_zero

theorem head?_sorted {l : List Nat} (hs : l.Pairwise (· < ·)) (n : Nat) :
    l.head? = some n ↔ n ∈ l ∧ ∀ m ∈ l, n ≤ m := by
  cases l with
  | nil => simp
  | cons a t =>
    rw [List.pairwise_cons] at hs
    simp only [List.head?_cons, Option.some.injEq, List.mem_cons]
    constructor
    · intro h; subst h
      exact ⟨Or.inl rfl, fun m hm => by
        rcases hm with rfl | hm
        · exact Nat.le_refl _
        · exact Nat.le_of_lt (hs.1 m hm)⟩
    · intro ⟨hn, hmin⟩
      rcases hn with rfl | hn
      · rfl
      · have h1 := hs.1 n hn
        have h2 := hmin a (Or.inl rfl)
        omega

theorem getLast?_sorted {l : List Nat} (hs : l.Pairwise (· < ·)) (n : Nat) :
    l.getLast? = some n ↔ n ∈ l ∧ ∀ m ∈ l, m ≤ n := by
  induction l with
  | nil => simp
  | cons a t ih =>
    rw [List.pairwise_cons] at hs
    cases t with
    | nil =>
      simp only [List.getLast?_singleton, Option.some.injEq, List.mem_singleton]
      constructor
      · intro h; subst h; exact ⟨rfl, fun m hm => by rw [hm]; exact Nat.le_refl _⟩
      · intro ⟨h, _⟩; exact h.symm
    | cons c t' =>
      rw [List.getLast?_cons_cons, ih hs.2]
      constructor
      · intro ⟨hn, hmax⟩
        refine ⟨List.mem_cons_of_mem _ hn, fun m hm => ?_⟩
        rcases List.mem_cons.1 hm with rfl | hm
        · exact Nat.le_of_lt (hs.1 n hn)
        · exact hmax m hm
      · intro ⟨hn, hmax⟩
        have hc := hmax c (List.mem_cons_of_mem _ (List.mem_cons_self))
        have hac := hs.1 c List.mem_cons_self
        rcases List.mem_cons.1 hn with rfl | hn
        · omega
        · exact ⟨hn, fun m hm => hmax m (List.mem_cons_of_mem _ hm)⟩

/-- `first_one` (`trailing_zeros`) is the least set bit -/
theorem firstOne_eq_some (b : UInt64) (n : Nat) :
    firstOne b = some n ↔ test b n = true ∧ ∀ m, test b m = true → n ≤ m := by
  unfold firstOne
  rw [head?_sorted (bitsOf_sorted b)]
  simp only [mem_bitsOf']

/-- `last_one` (`63 - leading_zeros`) is the greatest set bit -/
theorem lastOne_eq_some (b : UInt64) (n : Nat) :
    lastOne b = some n ↔ test b n = true ∧ ∀ m, test b m = true → m ≤ n := by
  unfold lastOne
  rw [getLast?_sorted (bitsOf_sorted b)]
  simp only [mem_bitsOf']

theorem firstOne_eq_none (b : UInt64) : firstOne b = none ↔ b = 0 := by
  unfold firstOne
  rw [List.head?_eq_none_iff, bitsOf_eq_nil]

theorem lastOne_eq_none (b : UInt64) : lastOne b = none ↔ b = 0 := by
  unfold lastOne
  rw [List.getLast?_eq_none_iff, bitsOf_eq_nil]

theorem firstOne_lt (b : UInt64) (n : Nat) (h : firstOne b = some n) : n < 64 :=
  test_lt b n ((firstOne_eq_some b n).1 h).1

theorem lastOne_lt (b : UInt64) (n : Nat) (h : lastOne b = some n) : n < 64 :=
  test_lt b n ((lastOne_eq_some b n).1 h).1

/-! ## one-step shifts of `BitBoard::shift` -/

theorem test_fileH (i : Nat) (hi : i < 64) : test fileH i = decide (i % 8 = 7) := by
  have : ∀ j : Fin 64, test fileH j.val = decide (j.val % 8 = 7) := by decide
  exact this ⟨i, hi⟩

theorem test_fileA (i : Nat) (hi : i < 64) : test fileA i = decide (i % 8 = 0) := by
  have : ∀ j : Fin 64, test fileA j.val = decide (j.val % 8 = 0) := by decide
  exact this ⟨i, hi⟩

/-- east: bit `t` of the result is bit `t-1` of the input, and nothing arrives on file A -/
theorem test_shiftE (b : UInt64) (t : Nat) (ht : t < 64) :
    test (shiftE b) t = (decide (t % 8 ≠ 0) && test b (t - 1)) := by
  unfold shiftE
  rw [test_shl _ 1 t (by omega), test_and]
  by_cases h0 : t = 0
  · subst h0; simp
  · have h1 : 1 ≤ t := by omega
    rw [test_not _ _ (by omega), test_fileH _ (by omega)]
    have : (t - 1) % 8 = 7 ↔ t % 8 = 0 := by omega
    by_cases h8 : t % 8 = 0 <;> simp [h8, h1, ht, this] <;> omega

/-- west: bit `t` of the result is bit `t+1` of the input, and nothing arrives on file H -/
theorem test_shiftW (b : UInt64) (t : Nat) (ht : t < 64) :
    test (shiftW b) t = (decide (t % 8 ≠ 7) && test b (t + 1)) := by
  unfold shiftW
  rw [test_shr _ 1 t (by omega), test_and]
  by_cases h63 : t = 63
  · subst h63; simp [test_ge]
  · rw [test_not _ _ (by omega), test_fileA _ (by omega)]
    have : (t + 1) % 8 = 0 ↔ t % 8 = 7 := by omega
    by_cases h8 : t % 8 = 7 <;> simp [h8, this]

/-- north: bit `t` of the result is bit `t-8` of the input (rank 1 receives nothing) -/
theorem test_shiftN (b : UInt64) (t : Nat) (ht : t < 64) :
    test (shiftN b) t = (decide (8 ≤ t) && test b (t - 8)) := by
  unfold shiftN
  rw [test_shl _ 8 t (by omega)]
  by_cases h : 8 ≤ t <;> simp [h, ht]

/-- south: bit `t` of the result is bit `t+8` of the input (rank 8 receives nothing) -/
theorem test_shiftS (b : UInt64) (t : Nat) (_ht : t < 64) :
    test (shiftS b) t = test b (t + 8) := by
  unfold shiftS
  rw [test_shr _ 8 t (by omega)]

end Wee
