import Wee.Proofs.SearchLemmas
import Wee.Proofs.EvalLemmas
/-!
# The first iteration reports a line (part D of property C03), from an explicit bound on `evaluate`

`first_root_entry_kept`: one worker, fresh table, no cancellation: if the worker of the first iteration does
not panic and static evaluations are strictly inside the mate window (`EvalBelowMate`), the root's entry is
in the table when the line is read back (`FirstRootEntryKept`).  The first iteration is a two-level search
(the root with remaining depth 1, its children go straight to quiescence), which is executed symbolically.
-/
namespace Wee.Search
open Wee
open Wee.C10 (DisjointBoard)

/-- `mate_in_ply(0)`, the half-width of the root window -/
def M0 : Int := Ev.mateInPly 0

theorem M0_pos : 0 < M0 := by decide

/-- static evaluations, at a depth `1 ≤ depth < 2^31`, of positions of the region are strictly inside the root
window `(-mate_in_ply(0), mate_in_ply(0))`.  (At depth 0 a mate scores exactly `±mate_in_ply(0)`; from
`2^31` on `ply as i32` wraps and the mate bonus grows again.) -/
def EvalBelowMate (R : State → Prop) : Prop :=
  ∀ s, R s → ∀ (p : Color) (depth : Nat) (v : Int), 1 ≤ depth → depth < 2^31 → evaluate s p depth = some v →
    -M0 < v ∧ v < M0

/-! ## quiescence: values stay strictly inside the window; errors are panics -/

section quiesce
variable {R : State → Prop} (hR : Region R) (hE : EvalBelowMate R)
include hR hE

omit hR hE in
theorem quiesce_loop_bound (fuel depth : Nat)
    (ih : ∀ (s : State) (α β : Int), R s → -M0 ≤ α → α < M0 → -M0 < β → β ≤ M0 →
      ∀ v : Int, quiesce evaluate fuel s (depth + 1) α β = .ok v → -M0 < v ∧ v < M0) :
    ∀ (l : List (Move × State)) (α β : Int), (∀ r ∈ l, R r.2) → -M0 < α → α < M0 → -M0 < β → β ≤ M0 →
      ∀ v : Int, quiesce.loop evaluate fuel depth β l α = .ok v → -M0 < v ∧ v < M0 := by
  intro l
  induction l with
  | nil =>
    intro α β _ h1 h2 _ _ v hv
    rw [quiesce.loop] at hv
    cases hv
    exact ⟨h1, h2⟩
  | cons r rest ihl =>
    intro α β hl h1 h2 h3 h4 v hv
    have hrest : ∀ r' ∈ rest, R r'.2 := fun r' h' => hl r' (List.mem_cons_of_mem _ h')
    rw [quiesce.loop] at hv
    split at hv
    · exact ihl α β hrest h1 h2 h3 h4 v hv
    · split at hv
      · cases hv
      · rename_i v' hq
        have hb := ih r.2 (-β) (-α) (hl r List.mem_cons_self) (by omega) (by omega) (by omega) (by omega) v' hq
        dsimp only at hv
        split at hv
        · rename_i hge
          have hge' : (β : Int) ≤ -v' := hge
          cases hv
          exact ⟨h3, by omega⟩
        · refine ihl _ β hrest ?_ ?_ h3 h4 v hv
          · split <;> omega
          · split <;> omega

theorem quiesce_bound : ∀ (fuel : Nat) (s : State) (depth : Nat) (α β : Int), R s → 1 ≤ depth →
    depth + fuel < 2^31 → -M0 ≤ α → α < M0 → -M0 < β → β ≤ M0 →
    ∀ v : Int, quiesce evaluate fuel s depth α β = .ok v → -M0 < v ∧ v < M0 := by
  intro fuel
  induction fuel with
  | zero => intro s depth α β _ _ _ _ _ _ _ v hv; rw [quiesce] at hv; cases hv
  | succ fuel ih =>
    intro s depth α β hs hdepth hsum h1 h2 h3 h4 v hv
    rw [quiesce] at hv
    split at hv
    · cases hv
    · rename_i ms hms
      have hLe : legalMoves s = ms := by unfold legalMoves; rw [hms]; rfl
      dsimp only at hv
      cases hev : evaluate s s.turn depth with
      | none =>
        rw [hev] at hv
        dsimp only at hv
        split at hv
        · cases hv
        · cases hv
      | some normal =>
        obtain ⟨hn1, hn2⟩ := hE s hs s.turn depth normal hdepth (by omega) hev
        rw [hev] at hv
        dsimp only at hv
        split at hv
        · cases hv; exact ⟨hn1, hn2⟩
        · split at hv
          · cases hv; exact ⟨hn1, hn2⟩
          · split at hv
            · rename_i hge
              have hge' : (β : Int) ≤ normal := hge
              cases hv; exact ⟨h3, by omega⟩
            · refine quiesce_loop_bound fuel depth
                (fun s' α' β' hs' a b c d v' hv' => ih s' (depth + 1) α' β' hs' (by omega) (by omega) a b c d v' hv')
                _ _ β ?_ ?_ ?_ h3 h4 v hv
              · intro r hr
                have hr' : r ∈ ms := by
                  split at hr
                  · exact hr
                  · obtain ⟨p, hp, rfl⟩ := List.mem_map.1 hr
                    have hp' := (List.mem_mergeSort).1 hp
                    obtain ⟨r0, hr0, rfl⟩ := List.mem_map.1 hp'
                    exact hr0
                rw [← hLe] at hr'
                exact hR.closed s hs r hr'
              · by_cases hlt : (α : Int) < normal
                · rw [if_pos hlt]; exact hn1
                · rw [if_neg hlt]; omega
              · by_cases hlt : (α : Int) < normal
                · rw [if_pos hlt]; exact hn2
                · rw [if_neg hlt]; exact h2

end quiesce

theorem quiesce_loop_error (f : State → Color → Nat → Option Eval) (fuel depth : Nat)
    (ih : ∀ (s : State) (d : Nat) (α β : Int) (e : Stop), quiesce f fuel s d α β = .error e → ∃ why, e = .panic why) :
    ∀ (l : List (Move × State)) (α β : Int) (e : Stop),
      quiesce.loop f fuel depth β l α = .error e → ∃ why, e = .panic why := by
  intro l
  induction l with
  | nil => intro α β e h; rw [quiesce.loop] at h; cases h
  | cons r rest ihl =>
    intro α β e h
    rw [quiesce.loop] at h
    split at h
    · exact ihl α β e h
    · split at h
      · rename_i e' hq
        cases h
        exact ih _ _ _ _ _ hq
      · dsimp only at h
        split at h
        · cases h
        · exact ihl _ β e h

/-- `quiescence_search` cannot be interrupted: its only failures are panics -/
theorem quiesce_error (f : State → Color → Nat → Option Eval) : ∀ (fuel : Nat) (s : State) (d : Nat) (α β : Int)
    (e : Stop), quiesce f fuel s d α β = .error e → ∃ why, e = .panic why := by
  intro fuel
  induction fuel with
  | zero => intro s d α β e h; rw [quiesce] at h; cases h; exact ⟨_, rfl⟩
  | succ fuel ih =>
    intro s d α β e h
    rw [quiesce] at h
    split at h
    · cases h; exact ⟨_, rfl⟩
    · dsimp only at h
      cases hev : f s s.turn d with
      | none =>
        rw [hev] at h
        dsimp only at h
        split at h
        · cases h; exact ⟨_, rfl⟩
        · cases h; exact ⟨_, rfl⟩
      | some normal =>
        rw [hev] at h
        dsimp only at h
        split at h
        · cases h
        · split at h
          · cases h
          · split at h
            · cases h
            · exact quiesce_loop_error f fuel d ih _ _ β e h

/-! ## exact runs -/

theorem runM_ite {α} (c : Prop) [Decidable c] (x y : M α) (st : St) :
    runM (if c then x else y) st = if c then runM x st else runM y st := by
  split <;> rfl

/-- `x` ends normally and changes nothing but the rng -/
def RngOnly {α} (Q : α → Prop) (x : M α) : Prop :=
  ∀ st, ∃ v r, runM x st = (.ok v, { st with rng := r }) ∧ Q v

theorem rngOnly_pure {α} {Q : α → Prop} (a : α) (h : Q a) : RngOnly Q (pure a) :=
  fun st => ⟨a, st.rng, rfl, h⟩

theorem rngOnly_bind {α β} {Q : α → Prop} {Q' : β → Prop} {x : M α} {f : α → M β}
    (hx : RngOnly Q x) (hf : ∀ a, Q a → RngOnly Q' (f a)) : RngOnly Q' (x >>= f) := by
  intro st
  obtain ⟨v, r, h1, hq⟩ := hx st
  obtain ⟨w, r', h2, hq'⟩ := hf v hq { st with rng := r }
  refine ⟨w, r', ?_, hq'⟩
  rw [runM_bind, h1]
  exact h2

theorem rngOnly_jitter : RngOnly (fun _ => True) jitter := by
  intro st
  unfold jitter
  rw [runM_bind, runM_get]
  dsimp only
  exact ⟨_, _, rfl, trivial⟩

theorem rngOnly_mapM {β γ : Type} {Q : β → Prop} (g : γ → M β) :
    ∀ (xs : List γ), (∀ x ∈ xs, RngOnly Q (g x)) → RngOnly (fun ys => ∀ y ∈ ys, Q y) (xs.mapM g) := by
  intro xs
  induction xs with
  | nil => intro _; rw [List.mapM_nil]; exact rngOnly_pure _ (fun y hy => by cases hy)
  | cons x xs ih =>
    intro h
    rw [List.mapM_cons]
    refine rngOnly_bind (h x List.mem_cons_self) (fun b hb => ?_)
    refine rngOnly_bind (ih (fun x' hx' => h x' (List.mem_cons_of_mem _ hx'))) (fun bs hbs => ?_)
    refine rngOnly_pure _ (fun y hy => ?_)
    rcases List.mem_cons.1 hy with rfl | hy
    · exact hb
    · exact hbs y hy

theorem rngOnly_mapM_keyed {γ : Type} (key : γ → M Eval) (hkey : ∀ x, RngOnly (fun _ => True) (key x)) :
    ∀ (xs : List γ), RngOnly (fun ys : List (Eval × γ) => ys.map (·.2) = xs)
      (xs.mapM fun x => do let k ← key x; pure (k, x)) := by
  intro xs
  induction xs with
  | nil => rw [List.mapM_nil]; exact rngOnly_pure _ rfl
  | cons x xs ih =>
    rw [List.mapM_cons]
    refine rngOnly_bind (Q := fun p : Eval × γ => p.2 = x) ?_ (fun b hb => ?_)
    · exact rngOnly_bind (hkey x) (fun k _ => rngOnly_pure _ rfl)
    · refine rngOnly_bind ih (fun bs hbs => ?_)
      refine rngOnly_pure _ ?_
      simp only [List.map_cons, hb, hbs]

/-- the move ordering of `analyze_recursive`: ends normally, touches only the rng, returns the same moves -/
theorem rngOnly_sort (s : State) (xs : List Move) :
    RngOnly (fun ys => ∀ y, y ∈ ys ↔ y ∈ xs)
      (sortByCachedKey xs fun mv => do let j ← jitter; pure (estimate s mv + j)) := by
  unfold sortByCachedKey
  split
  · exact rngOnly_pure _ (fun y => Iff.rfl)
  · refine rngOnly_bind (Q := fun keyed : List (Eval × Move) => keyed.map (·.2) = xs) ?_ (fun keyed hk => ?_)
    · exact rngOnly_mapM_keyed _ (fun x => rngOnly_bind rngOnly_jitter (fun _ _ => rngOnly_pure _ trivial)) xs
    · refine rngOnly_pure _ (fun y => ?_)
      rw [← hk]
      simp only [List.mem_map]
      constructor
      · rintro ⟨p, hp, rfl⟩; exact ⟨p, (List.mem_mergeSort).1 hp, rfl⟩
      · rintro ⟨p, hp, rfl⟩; exact ⟨p, (List.mem_mergeSort).2 hp, rfl⟩

theorem runM_except {st : St} (q : Except Stop Eval) :
    runM (match q with | .ok v => (pure v : M Eval) | .error e => throw e) st = (q, st) := by
  cases q <;> rfl

/-- a node with remaining depth 0 whose position has no table entry, without cancellation: one more node,
possibly one more poll, nothing else changes; the result is `0` (repetition) or what quiescence returns -/
theorem child0_run (ctx : Ctx) (hc : ctx.cancelAt = Option.none) (a : NodeArgs) (st : St)
    (hfind : st.tt.find (hash ctx.keys a.s).toNat = Option.none) :
    ∃ p, runM (searchNode ctx 0 a) st =
      ((if (decide (a.curDepth > 0) && ctx.history.contains (hash ctx.keys a.s)) = true then Except.ok 0
        else quiesce evaluate (quiesceFuel a.s) a.s a.curDepth a.alpha a.beta),
       { st with nodes := st.nodes + 1, polls := p }) := by
  rw [searchNode_zero]
  unfold nodeBody
  simp only [runM_bind, runM_modify, runM_get, runM_set, runM_pure, runM_throw, runM_ite, hc, hfind]
  split
  · refine ⟨st.polls + 1, ?_⟩
    simp only [Bool.false_eq_true, ↓reduceIte]
    split
    · rfl
    · generalize quiesce evaluate (quiesceFuel a.s) a.s a.curDepth a.alpha a.beta = q
      cases q <;> rfl
  · refine ⟨st.polls, ?_⟩
    split
    · rfl
    · generalize quiesce evaluate (quiesceFuel a.s) a.s a.curDepth a.alpha a.beta = q
      cases q <;> rfl

/-- strictly inside the root window -/
def Inside (v : Int) : Prop := -M0 < v ∧ v < M0

theorem win_child (bt al : Int) (hb : bt = M0) (h1 : -M0 ≤ al) (h2 : al < M0) :
    -M0 ≤ -bt ∧ -bt < M0 ∧ -M0 < -al ∧ -al ≤ M0 := by
  have := M0_pos; omega

theorem no_cutoff (v bt : Int) (hb : bt = M0) (hv : -M0 < v) : ¬ (-v ≥ bt) := by omega

/-- the state of the move loop of the root in the first iteration: nothing has raised alpha yet, or some move has
and alpha is strictly inside the window -/
def LoopSt (alpha : Int) (best : Option Move) : Prop :=
  (best = Option.none ∧ alpha = -M0) ∨ (best.isSome = true ∧ -M0 < alpha ∧ alpha < M0)

theorem childLoop_first {R : State → Prop} (hR : Region R) (hE : EvalBelowMate R) (ctx : Ctx)
    (hc : ctx.cancelAt = Option.none) (a : NodeArgs) (ha : R a.s) (hbeta : a.beta = M0)
    (hcur : a.curDepth + 70 < 2^31) (h : UInt64) :
    ∀ (buf : List Move) (alpha : Int) (best : Option Move) (kind : Nat) (st : St),
      (∀ k, st.tt.find k = Option.none) →
      (∀ mv ∈ buf, ∀ r, tryAsLegal a.s mv = some (some r) → r ∈ legalMoves a.s) →
      LoopSt alpha best →
      (runM (childLoop ctx (searchNode ctx 0) a h buf alpha best kind) st).2.tt = st.tt ∧
      st.nodes ≤ (runM (childLoop ctx (searchNode ctx 0) a h buf alpha best kind) st).2.nodes ∧
      ((∃ why, (runM (childLoop ctx (searchNode ctx 0) a h buf alpha best kind) st).1 = .error (.panic why)) ∨
       (∃ alpha' best' kind',
         (runM (childLoop ctx (searchNode ctx 0) a h buf alpha best kind) st).1 = .ok (.ok (alpha', best', kind')) ∧
         (best.isSome = true → best'.isSome = true) ∧
         ((∃ mv ∈ buf, ∃ r, tryAsLegal a.s mv = some (some r)) →
           best'.isSome = true ∧
           st.nodes < (runM (childLoop ctx (searchNode ctx 0) a h buf alpha best kind) st).2.nodes))) := by
  intro buf
  induction buf with
  | nil =>
    intro alpha best kind st _ _ _
    rw [childLoop, runM_pure]
    refine ⟨rfl, Nat.le_refl _, Or.inr ⟨alpha, best, kind, rfl, fun h => h, ?_⟩⟩
    rintro ⟨mv, hmv, _⟩; cases hmv
  | cons mv rest ih =>
    intro alpha best kind st hT hbuf hls
    have hrest : ∀ mv ∈ rest, ∀ r, tryAsLegal a.s mv = some (some r) → r ∈ legalMoves a.s :=
      fun mv' h' => hbuf mv' (List.mem_cons_of_mem _ h')
    rw [childLoop]
    split
    · rw [runM_throw]
      exact ⟨rfl, Nat.le_refl _, Or.inl ⟨_, rfl⟩⟩
    · rename_i hnone
      obtain ⟨h1, h2, h3⟩ := ih alpha best kind st hT hrest hls
      refine ⟨h1, h2, ?_⟩
      rcases h3 with h3 | ⟨al', b', k', e1, e2, e3⟩
      · exact Or.inl h3
      · refine Or.inr ⟨al', b', k', e1, e2, ?_⟩
        rintro ⟨mv', hmv', r, hr⟩
        rcases List.mem_cons.1 hmv' with rfl | hmv'
        · rw [hnone] at hr; cases hr
        · exact e3 ⟨mv', hmv', r, hr⟩
    · rename_i m next htry
      have hmem : (m, next) ∈ legalMoves a.s := hbuf mv List.mem_cons_self _ htry
      have hnext : R next := hR.closed _ ha _ hmem
      dsimp only
      generalize hext : (if a.curExt < Gen.extensionCap then extensionOf a.s else 0) = ext
      rw [runM_bind]
      obtain ⟨p, hrun⟩ := child0_run ctx hc
        { s := next, maxDepth := a.maxDepth + ext, curDepth := a.curDepth + 1 + ext, curExt := a.curExt + ext,
          alpha := -a.beta, beta := -alpha, prioritized := Option.none } st (hT _)
      rw [hrun]
      dsimp only
      -- the child's result
      have hal : -M0 ≤ alpha ∧ alpha < M0 := by
        have := M0_pos
        rcases hls with ⟨_, h⟩ | ⟨_, h1, h2⟩
        · omega
        · omega
      obtain ⟨w1, w2, w3, w4⟩ := win_child a.beta alpha hbeta hal.1 hal.2
      generalize hres : (if (decide (a.curDepth + 1 + ext > 0) && ctx.history.contains (hash ctx.keys next)) = true
        then Except.ok 0 else quiesce evaluate (quiesceFuel next) next (a.curDepth + 1 + ext) (-a.beta) (-alpha)) = res
      cases res with
      | error e =>
        dsimp only
        refine ⟨rfl, Nat.le_succ _, Or.inl ?_⟩
        split at hres
        · cases hres
        · obtain ⟨why, rfl⟩ := quiesce_error _ _ _ _ _ _ _ hres
          exact ⟨why, rfl⟩
      | ok v =>
        have hv : Inside v := by
          split at hres
          · cases hres; have := M0_pos; constructor <;> omega
          · refine quiesce_bound hR hE _ next _ _ _ hnext (by omega) ?_ w1 w2 w3 w4 v hres
            have h1 : ext ≤ 1 := by
              rw [← hext]; unfold extensionOf
              split
              · split <;> omega
              · omega
            have h2 := popcount_le next.pieces.occ
            unfold quiesceFuel
            omega
        obtain ⟨hv1, hv2⟩ := hv
        dsimp only
        rw [if_neg (no_cutoff v a.beta hbeta hv1)]
        by_cases hgt : @GT.gt Int _ (-v) alpha
        · rw [if_pos hgt]
          obtain ⟨h1, h2, h3⟩ := ih (-v) (some m) kindExact
            { st with nodes := st.nodes + 1, polls := p } hT hrest (Or.inr ⟨rfl, by omega, by omega⟩)
          refine ⟨h1, Nat.le_of_succ_le h2, ?_⟩
          rcases h3 with h3 | ⟨al', b', k', e1, e2, e3⟩
          · exact Or.inl h3
          · exact Or.inr ⟨al', b', k', e1, fun _ => e2 rfl, fun _ => ⟨e2 rfl, h2⟩⟩
        · rw [if_neg hgt]
          have hsome : best.isSome = true ∧ -M0 < alpha ∧ alpha < M0 := by
            rcases hls with ⟨_, h⟩ | h
            · omega
            · exact h
          obtain ⟨h1, h2, h3⟩ := ih alpha best kind
            { st with nodes := st.nodes + 1, polls := p } hT hrest (Or.inr hsome)
          refine ⟨h1, Nat.le_of_succ_le h2, ?_⟩
          rcases h3 with h3 | ⟨al', b', k', e1, e2, e3⟩
          · exact Or.inl h3
          · exact Or.inr ⟨al', b', k', e1, e2, fun _ => ⟨e2 hsome.1, h2⟩⟩

/-- every listed legal move is a pseudo-legal move that `try_as_legal_move` accepts with its listed successor -/
theorem legal_accepted {s : State} {r : Move × State} (hr : r ∈ legalMoves s) :
    ∃ ps, pseudoLegalMoves s = some ps ∧ r.1 ∈ ps ∧ tryAsLegal s r.1 = some (some r) := by
  unfold legalMoves at hr
  cases hL : legalMoves? s with
  | none => rw [hL] at hr; cases hr
  | some L =>
    rw [hL] at hr
    have hr' : r ∈ L := hr
    unfold legalMoves? at hL
    cases hps : pseudoLegalMoves s with
    | none => rw [hps] at hL; cases hL
    | some ps =>
      rw [hps] at hL
      simp only [Option.bind_eq_bind, Option.bind_some, Option.pure_def] at hL
      cases hrs : ps.mapM (tryAsLegal s) with
      | none => rw [hrs] at hL; simp at hL
      | some rs =>
        rw [hrs] at hL
        simp only [Option.bind_some, Option.some.injEq] at hL
        subst hL
        have hmem : some r ∈ rs := by
          rw [List.mem_filterMap] at hr'
          obtain ⟨x, hx, hxr⟩ := hr'
          simp only [id] at hxr; rw [← hxr]; exact hx
        obtain ⟨mv, hmv, htry⟩ := C02.mapM_some_mem _ _ _ hrs _ hmem
        have := tryAsLegal_fst s mv r htry
        rw [this]
        exact ⟨ps, rfl, hmv, htry⟩

/-- what `analyze_recursive` does at the root of the first iteration after the poll, the repetition test and
the (empty) table probe -/
def rootTail (ctx : Ctx) (root : State) : M Eval :=
  match pseudoLegalMoves root with
  | Option.none => throw (.panic "move generation: Square::offset(..).unwrap()")
  | some pseudo => do
    let sorted ← sortByCachedKey pseudo fun mv => do
      let j ← jitter
      pure (estimate root mv + j)
    let before := (← get).nodes
    match ← childLoop ctx (searchNode ctx 0)
        { s := root, maxDepth := 1, curDepth := 0, curExt := 0, alpha := -Ev.mateInPly 0, beta := Ev.mateInPly 0,
          prioritized := Option.none }
        (hash ctx.keys root) sorted.reverse (-Ev.mateInPly 0) Option.none kindUpper with
    | .error b => return b
    | .ok (alpha', best, kind) =>
      if (← get).nodes == before then
        match evaluate root root.turn 0 with
        | some e => return e
        | Option.none => throw (.panic "evaluate: no king")
      match best with
      | some m =>
        let e : TT.Entry := { kind := kind, mv := m.toNat, depth := 0, maxDepth := 1, eval := alpha' }
        modify fun st => { st with tt := st.tt.insert (hash ctx.keys root).toNat e }
      | Option.none => pure ()
      return alpha'

theorem rootTail_run {R : State → Prop} (hR : Region R) (hE : EvalBelowMate R) (ctx : Ctx)
    (hc : ctx.cancelAt = Option.none) (root : State) (hroot : R root) (hmoves : legalMoves root ≠ [])
    (st : St) (hwf : TTWf st.tt) (hT : ∀ k, st.tt.find k = Option.none) :
    (∃ why, (runM (rootTail ctx root) st).1 = .error (.panic why)) ∨
    (∃ v, (runM (rootTail ctx root) st).1 = .ok v ∧
      ((runM (rootTail ctx root) st).2.tt.find (hash ctx.keys root).toNat).isSome = true) := by
  unfold rootTail
  obtain ⟨hl, hd⟩ := hR.good _ hroot
  obtain ⟨L, hL⟩ := (C01_legal_results root hl hd).1
  cases hps : pseudoLegalMoves root with
  | none => exact Or.inl ⟨_, rfl⟩
  | some pseudo =>
    dsimp only
    rw [runM_bind]
    obtain ⟨sorted, r, hs, hmem⟩ := rngOnly_sort root pseudo st
    rw [hs]
    dsimp only
    rw [runM_bind, runM_get]
    dsimp only
    rw [runM_bind]
    have hbuf : ∀ mv ∈ sorted.reverse, ∀ r', tryAsLegal root mv = some (some r') → r' ∈ legalMoves root := by
      intro mv hmv r' hr'
      rw [List.mem_reverse] at hmv
      exact tryAsLegal_mem_of_pseudo hL hps ((hmem mv).1 hmv) hr'
    have hacc : ∃ mv ∈ sorted.reverse, ∃ r', tryAsLegal root mv = some (some r') := by
      cases hlm : legalMoves root with
      | nil => exact absurd hlm hmoves
      | cons r0 rest =>
        have hr0 : r0 ∈ legalMoves root := by rw [hlm]; exact List.mem_cons_self
        obtain ⟨ps, hps', hin, htry⟩ := legal_accepted hr0
        rw [hps] at hps'
        cases hps'
        exact ⟨r0.1, List.mem_reverse.2 ((hmem _).2 hin), r0, htry⟩
    have hloop := childLoop_first hR hE ctx hc
      { s := root, maxDepth := 1, curDepth := 0, curExt := 0, alpha := -Ev.mateInPly 0, beta := Ev.mateInPly 0,
        prioritized := Option.none } hroot rfl (by show 0 + 70 < 2^31; decide) (hash ctx.keys root) sorted.reverse (-M0) Option.none kindUpper
      { tt := st.tt, rng := r, nodes := st.nodes, polls := st.polls } hT hbuf (Or.inl ⟨rfl, rfl⟩)
    simp only [M0] at hloop
    generalize runM (childLoop ctx (searchNode ctx 0)
      { s := root, maxDepth := 1, curDepth := 0, curExt := 0, alpha := -Ev.mateInPly 0, beta := Ev.mateInPly 0,
        prioritized := Option.none } (hash ctx.keys root) sorted.reverse (-Ev.mateInPly 0) Option.none kindUpper)
      { tt := st.tt, rng := r, nodes := st.nodes, polls := st.polls } = out at hloop ⊢
    obtain ⟨res, st3⟩ := out
    obtain ⟨h1, h2, h3⟩ := hloop
    dsimp only at h1 h2 h3
    rcases h3 with ⟨why, h3⟩ | ⟨al', b', k', e1, _, e3⟩
    · subst h3
      exact Or.inl ⟨why, rfl⟩
    · subst e1
      obtain ⟨hb, hn⟩ := e3 hacc
      dsimp only
      rw [runM_bind, runM_get]
      dsimp only
      have hne : (st3.nodes == st.nodes) = false := by
        rw [beq_eq_false_iff_ne]; omega
      rw [hne]
      simp only [Bool.false_eq_true, ↓reduceIte]
      cases b' with
      | none => cases hb
      | some m =>
        dsimp only
        rw [runM_bind, runM_modify]
        dsimp only
        rw [runM_pure]
        refine Or.inr ⟨al', rfl, ?_⟩
        dsimp only
        obtain ⟨nT, nB, hnT, hnB, hinv⟩ := hwf
        rw [h1, hinv.find_insert_self (by decide) hnT hnB]
        rfl

theorem root_first_run {R : State → Prop} (hR : Region R) (hE : EvalBelowMate R) (ctx : Ctx)
    (hc : ctx.cancelAt = Option.none) (root : State) (hroot : R root) (hmoves : legalMoves root ≠ [])
    (st : St) (hwf : TTWf st.tt) (hT : ∀ k, st.tt.find k = Option.none) :
    (∃ why, (runM (searchNode ctx 1 (rootArgs root 1 Option.none)) st).1 = .error (.panic why)) ∨
    (∃ v, (runM (searchNode ctx 1 (rootArgs root 1 Option.none)) st).1 = .ok v ∧
      ((runM (searchNode ctx 1 (rootArgs root 1 Option.none)) st).2.tt.find (hash ctx.keys root).toNat).isSome = true) := by
  rw [searchNode_succ]
  unfold nodeBody
  simp only [runM_bind, runM_modify, runM_get, runM_set, runM_ite, hc, hT, rootArgs,
    gt_iff_lt, Nat.lt_irrefl, decide_false, Bool.false_and, Bool.false_eq_true, ↓reduceIte]
  by_cases hp : ((st.nodes + 1) % Gen.pollInterval == 0) = true
  · simp only [hp, ↓reduceIte]
    exact rootTail_run hR hE ctx hc root hroot hmoves
      { tt := st.tt, rng := st.rng, nodes := st.nodes + 1, polls := st.polls + 1 } hwf hT
  · simp only [hp, Bool.false_eq_true, ↓reduceIte]
    exact rootTail_run hR hE ctx hc root hroot hmoves
      { tt := st.tt, rng := st.rng, nodes := st.nodes + 1, polls := st.polls } hwf hT

theorem drawSeeds_one (r : Rng.ChaCha8) : (drawSeeds 1 r).1 = [(Rng.nextU64 r).1] := by
  unfold drawSeeds
  rcases Rng.nextU64 r with ⟨v, r'⟩
  rfl

/-- **`FirstRootEntryKept` from the evaluation bound.**  One worker in the first iteration, an empty well-formed
table, no cancellation, a root with a legal move, static evaluations strictly inside the mate window: if the
worker does not panic, it is not interrupted either and the root's entry is in the table afterwards. -/
theorem first_root_entry_kept {R : State → Prop} (hR : Region R) (hE : EvalBelowMate R) (root : State)
    (hroot : R root) (hmoves : legalMoves root ≠ []) (art : Artifact) (hwf : TTWf art.tt)
    (hT : ∀ k, art.tt.find k = Option.none) (rng0 : Rng.ChaCha8) (workersOf : Nat → Nat) (h1 : workersOf 0 = 1)
    (hnp : (firstWorkers root rng0 art workersOf Option.none).panic = Option.none) :
    FirstRootEntryKept root rng0 art workersOf Option.none := by
  unfold FirstRootEntryKept
  unfold firstWorkers at hnp ⊢
  rw [h1, drawSeeds_one] at hnp ⊢
  have hz : (List.range 1).zip [(Rng.nextU64 rng0).1] = [(0, (Rng.nextU64 rng0).1)] := rfl
  rw [hz] at hnp ⊢
  rw [runWorkers] at hnp ⊢
  simp only [Bool.or_self, Bool.false_eq_true, ↓reduceIte, Option.isSome_none] at hnp ⊢
  have hrun := root_first_run hR hE (iterCtx root art Option.none) rfl root hroot hmoves
    { tt := art.tt, rng := Rng.seedFromU64 (Rng.nextU64 rng0).1, nodes := 0, polls := 0 } hwf hT
  have hsd : (0 - 0 % 2) + 1 = 1 := rfl
  rw [hsd] at hnp ⊢
  have hb : (if (0 == 0) = true then (Option.none : Option Move) else Option.none) = Option.none := rfl
  rw [hb, runWorker_eq] at hnp ⊢
  rcases hr : runM (searchNode (iterCtx root art Option.none) 1 (rootArgs root 1 Option.none))
    { tt := art.tt, rng := Rng.seedFromU64 (Rng.nextU64 rng0).1, nodes := 0, polls := 0 } with ⟨res, st'⟩
  rw [hr] at hrun hnp
  rcases hrun with ⟨why, h⟩ | ⟨v, h, hf⟩
  · dsimp only at h
    subst h
    cases hnp
  · dsimp only at h hf
    subst h
    dsimp only
    rw [runWorkers]
    exact ⟨rfl, rfl, hf⟩

theorem iterLoop_finished (ctx : Ctx) (root : State) (rootHash : UInt64) (workersOf : Nat → Nat) (n depth : Nat)
    (st : IterSt) (h : st.finished = true) : iterLoop ctx root rootHash workersOf n depth st = st := by
  cases n with
  | zero => rfl
  | succ n => rw [iterLoop_succ, h]; rfl

/-- a panic of a worker of the first iteration is the panic `iterate` reports -/
theorem first_panic_reported (root : State) (rng0 : Rng.ChaCha8) (maxDepth : Option Nat) (art : Artifact)
    (workersOf : Nat → Nat) (cancelAt : Option Nat) (fuelDepth : Nat) (hmoves : legalMoves root ≠ [])
    (hlimit : 1 ≤ (match maxDepth with | some d => d | Option.none => fuelDepth))
    (hnp : (iterate root rng0 maxDepth art workersOf cancelAt fuelDepth).panic = Option.none) :
    (firstWorkers root rng0 art workersOf cancelAt).panic = Option.none := by
  cases hp : (firstWorkers root rng0 art workersOf cancelAt).panic with
  | none => rfl
  | some why =>
    exfalso
    rw [iterate_eq] at hnp
    dsimp only at hnp
    have hlim : iterLimit root maxDepth fuelDepth = (iterLimit root maxDepth fuelDepth - 1) + 1 := by
      unfold iterLimit
      have : (legalMoves root).isEmpty = false := by
        cases h : legalMoves root with
        | nil => exact absurd h hmoves
        | cons _ _ => rfl
      rw [this]
      simp only [Bool.false_eq_true, ↓reduceIte]
      cases maxDepth with
      | none => dsimp only at hlimit ⊢; omega
      | some d => dsimp only at hlimit ⊢; omega
    unfold iterFinal at hnp
    rw [hlim, iterLoop_succ, boundaryPoll_zero] at hnp
    have hf : (iterInit rng0 art).finished = false := rfl
    rw [hf] at hnp
    simp only [Bool.false_eq_true, ↓reduceIte] at hnp
    have hstep : (iterStep (iterCtx root art cancelAt) root (hash art.keys.keys root) (workersOf 0) 0
        (iterInit rng0 art)).panic = some why ∧
        (iterStep (iterCtx root art cancelAt) root (hash art.keys.keys root) (workersOf 0) 0
        (iterInit rng0 art)).finished = true := by
      unfold iterStep
      split
      rename_i seeds rng heq
      have hs : seeds = (drawSeeds (workersOf 0) rng0).1 := by
        have : drawSeeds (workersOf 0) rng0 = (seeds, rng) := heq
        rw [this]
      subst hs
      have hw : runWorkers (iterCtx root art cancelAt) root 0 (iterInit rng0 art).bestMv
          ((List.range (workersOf 0)).zip (drawSeeds (workersOf 0) rng0).1)
          { tt := (iterInit rng0 art).tt, polls := (iterInit rng0 art).polls, evals := [], sumNodes := 0 }
          = firstWorkers root rng0 art workersOf cancelAt := rfl
      rw [hw]
      dsimp only
      rw [hp]
      exact ⟨rfl, rfl⟩
    rw [iterLoop_finished _ _ _ _ _ _ _ hstep.2, hstep.1] at hnp
    cases hnp
end Wee.Search
