import Wee.Gen.TTFns
import Wee.Proofs.TTLemmas
import Wee.Proofs.CoreFnsBridge
import Wee.Model.Search
/-!
# Bridge, stage 3c: the search memory translated from `searcher.rs` (`Wee/Gen/TTFns.lean`) = the hand model (`Wee/Model/TT.lean`)

Representation: a Rust-side value is mapped to the model value it denotes (`entryOf`, `slotOf`, `bucketOf`, `tableOf`, `accessOf`:
`u64`/`usize` keys and counters become `Nat`, arrays become lists); every theorem says: the generated function does not panic on the
stated domain and its result denotes the result of the model function on the denoted arguments.
-/
set_option linter.unusedSimpArgs false
namespace Wee.GenFns
open Wee

/-! ## representation -/

/-- `EvaluationKind` → the model's kind code (`Search.kindExact/kindUpper/kindLower`) -/
def kindOf : EvaluationKind → Nat
  | .Exact => 0
  | .UpperBound => 1
  | .LowerBound => 2

def entryOf (e : TranspositionEntry) : TT.Entry :=
  { kind := kindOf e.f_kind, mv := e.f_performed_move.toNat, depth := e.f_depth.toNat, maxDepth := e.f_max_depth.toNat,
    eval := e.f_evaluation.toInt }

def slotOf : Option (UInt64 × TranspositionEntry) → TT.Slot
  | none => none
  | some (k, e) => some (k.toNat, entryOf e)

def bucketOf (b : TranspositionBucket) : List TT.Slot := b.f_entries.toList.map slotOf

def tableOf (t : TranspositionTable) : TT.Table :=
  { buckets := t.f_buckets.toList.map bucketOf, used := t.f_used_slots.toNat }

def accessOf (a : TranspositionTableAccess) : TT.Access := { tables := a.f_tables.toList.map tableOf }

theorem u64_beq_iff (a b : UInt64) : (a == b) = decide (a.toNat = b.toNat) := by
  by_cases h : a = b
  · subst h; simp
  · have : a.toNat ≠ b.toNat := fun h' => h (UInt64.toNat_inj.mp h')
    simp [h, this]

/-! ## `TranspositionInsertionResult`, `TranspositionBucket` -/

theorem TranspositionBucket.BUCKET_SIZE_eq : TranspositionBucket.BUCKET_SIZE.toNat = Gen.bucketSize := by decide

theorem TranspositionBucket.empty_eq : bucketOf TranspositionBucket.empty = List.replicate Gen.bucketSize none := by
  simp [bucketOf, TranspositionBucket.empty, TranspositionBucket.BUCKET_SIZE_eq, slotOf]

theorem findSome_slotOf (h : UInt64) (f : Option (UInt64 × TranspositionEntry) → Option TranspositionEntry)
    (hf : ∀ x, f x = match x with | none => none | some (k, e) => if k == h then some e else none)
    (l : List (Option (UInt64 × TranspositionEntry))) :
    (List.findSome? f l).map entryOf = TT.findB (l.map slotOf) h.toNat := by
  induction l with
  | nil => simp [TT.findB]
  | cons x rest ih =>
    rw [List.findSome?_cons, hf x]
    cases x with
    | none => simpa [slotOf, TT.findB] using ih
    | some p =>
      obtain ⟨k, e⟩ := p
      by_cases hk : k = h
      · subst hk; simp [slotOf, TT.findB]
      · have : k.toNat ≠ h.toNat := fun h' => hk (UInt64.toNat_inj.mp h')
        simpa [slotOf, TT.findB, hk, this] using ih

/-- `TranspositionBucket::find` = `TT.findB` -/
theorem TranspositionBucket.find_eq (b : TranspositionBucket) (h : UInt64) :
    (TranspositionBucket.find b h).map entryOf = TT.findB (bucketOf b) h.toNat := by
  unfold TranspositionBucket.find bucketOf
  apply findSome_slotOf
  intro x
  rcases x with _ | ⟨k, e⟩ <;> simp

/-- the list-level reading of the `iter_mut` loop of `insert_or_replace` -/
def scanL (h : UInt64) (e : TranspositionEntry) :
    List (Option (UInt64 × TranspositionEntry)) → Option (List (Option (UInt64 × TranspositionEntry)) × Bool)
  | [] => none
  | none :: rest => some (some (h, e) :: rest, true)
  | some (k, x) :: rest =>
    if k == h then some (some (h, e) :: rest, false)
    else match scanL h e rest with
      | some (r, i) => some (some (k, x) :: r, i)
      | none => none

theorem scanL_slotOf (h : UInt64) (e : TranspositionEntry) (l : List (Option (UInt64 × TranspositionEntry))) :
    (scanL h e l).map (fun p => (p.1.map slotOf, p.2)) = TT.scan (l.map slotOf) h.toNat (entryOf e) := by
  induction l with
  | nil => simp [scanL, TT.scan]
  | cons x rest ih =>
    cases x with
    | none => simp [scanL, TT.scan, slotOf]
    | some p =>
      obtain ⟨k, x⟩ := p
      by_cases hk : k = h
      · subst hk; simp [scanL, TT.scan, slotOf]
      · have hn : k.toNat ≠ h.toNat := fun h' => hk (UInt64.toNat_inj.mp h')
        simp only [scanL, List.map_cons, slotOf, TT.scan, hn, if_false, beq_iff_eq, hk]
        rw [← ih]
        cases scanL h e rest <;> simp [slotOf]

def insResOf : Bool → TranspositionInsertionResult
  | true => .Inserted
  | false => .Swapped

/-- the loop of `insert_or_replace` for ANY body `f` that reads slot `n`, writes `Some((hash, entry))` there and returns
`Inserted` when it is empty / `Swapped` when it holds the same key, and continues otherwise -/
theorem for_early_scanL (h : UInt64) (e : TranspositionEntry)
    (f : TranspositionBucket → Nat → Panics (Early (TranspositionInsertionResult × TranspositionBucket) TranspositionBucket))
    (hf : ∀ (l : List (Option (UInt64 × TranspositionEntry))) (n : Nat) (x : Option (UInt64 × TranspositionEntry)),
      l[n]? = some x →
      f ⟨l.toArray⟩ n = match x with
        | none => some (Early.ret (.Inserted, ⟨(l.set n (some (h, e))).toArray⟩))
        | some (k, _) => if k == h then some (Early.ret (.Swapped, ⟨(l.set n (some (h, e))).toArray⟩))
                         else some (Early.cont ⟨l.toArray⟩))
    (l pre : List (Option (UInt64 × TranspositionEntry))) :
    TTPrim.for_early f (List.range' pre.length l.length) ⟨(pre ++ l).toArray⟩ =
      match scanL h e l with
      | some (r, ins) => some (Early.ret (insResOf ins, ⟨(pre ++ r).toArray⟩))
      | none => some (Early.cont ⟨(pre ++ l).toArray⟩) := by
  induction l generalizing pre with
  | nil => simp [TTPrim.for_early, scanL]
  | cons x rest ih =>
    have hx : (pre ++ x :: rest)[pre.length]? = some x := by simp
    rw [List.length_cons, List.range'_succ, TTPrim.for_early, hf _ _ _ hx]
    have hset : (pre ++ x :: rest).set pre.length (some (h, e)) = pre ++ some (h, e) :: rest := by simp
    cases x with
    | none => simp [scanL, insResOf, hset]
    | some p =>
      obtain ⟨k, y⟩ := p
      by_cases hk : (k == h) = true
      · simp [scanL, insResOf, hset, hk]
      · simp only [hk, if_false, Bool.false_eq_true, scanL]
        have := ih (pre ++ [some (k, y)])
        simp only [List.length_append, List.length_cons, List.length_nil, List.append_assoc, List.cons_append, List.nil_append] at this
        rw [this]
        cases scanL h e rest with
        | none => rfl
        | some p => rfl

theorem len_toNat {α : Type} (a : Array α) (h : a.size < 2 ^ 64) : (TTPrim.len a).toNat = a.size := by
  simp [TTPrim.len, Nat.toUInt64, UInt64.toNat_ofNat', Nat.mod_eq_of_lt h]

theorem len_eq_zero_iff {α : Type} (a : Array α) (h : a.size < 2 ^ 64) : TTPrim.len a = 0 ↔ a.size = 0 := by
  rw [← UInt64.toNat_inj, len_toNat a h]; simp

/-- `a % b` with `b = v.len()` -/
theorem checked_rem_len {α : Type} (x : UInt64) (a : Array α) (h0 : 0 < a.size) (h : a.size < 2 ^ 64) :
    ∃ r, TTPrim.checked_rem x (TTPrim.len a) = some r ∧ r.toNat = x.toNat % a.size := by
  have hne : TTPrim.len a ≠ 0 := fun hz => by
    have := (len_eq_zero_iff a h).mp hz; omega
  refine ⟨x % TTPrim.len a, by simp [TTPrim.checked_rem, hne], ?_⟩
  rw [UInt64.toNat_mod, len_toNat a h]

theorem for_early_scanL0 (h : UInt64) (e : TranspositionEntry)
    (f : TranspositionBucket → Nat → Panics (Early (TranspositionInsertionResult × TranspositionBucket) TranspositionBucket))
    (l : List (Option (UInt64 × TranspositionEntry)))
    (hf : ∀ (l : List (Option (UInt64 × TranspositionEntry))) (n : Nat) (x : Option (UInt64 × TranspositionEntry)),
      l[n]? = some x →
      f ⟨l.toArray⟩ n = match x with
        | none => some (Early.ret (.Inserted, ⟨(l.set n (some (h, e))).toArray⟩))
        | some (k, _) => if k == h then some (Early.ret (.Swapped, ⟨(l.set n (some (h, e))).toArray⟩))
                         else some (Early.cont ⟨l.toArray⟩)) :
    TTPrim.for_early f (List.range l.length) ⟨l.toArray⟩ =
      match scanL h e l with
      | some (r, ins) => some (Early.ret (insResOf ins, ⟨r.toArray⟩))
      | none => some (Early.cont ⟨l.toArray⟩) := by
  have := for_early_scanL h e f hf l []
  simpa [List.range_eq_range'] using this

theorem inserted_resOf (b : Bool) : (insResOf b).inserted = b := by cases b <;> rfl

/-- `TranspositionBucket::insert_or_replace` = `TT.insertB` (any non-empty bucket; the Rust type fixes 8 slots) -/
theorem TranspositionBucket.insert_or_replace_eq (b : TranspositionBucket) (h : UInt64) (e : TranspositionEntry)
    (h0 : 0 < b.f_entries.size) (hsz : b.f_entries.size < 2 ^ 64) :
    ∃ r b', TranspositionBucket.insert_or_replace b h e = some (r, b') ∧
      (bucketOf b', r.inserted) = TT.insertB (bucketOf b) h.toNat (entryOf e) := by
  obtain ⟨⟨l⟩⟩ := b
  simp only [List.size_toArray] at h0 hsz
  unfold TranspositionBucket.insert_or_replace
  simp only [List.size_toArray]
  rw [for_early_scanL0 h e]
  · have hs := scanL_slotOf h e l
    unfold TT.insertB
    simp only [bucketOf]
    rw [← hs]
    cases hsc : scanL h e l with
    | some p =>
      obtain ⟨r, ins⟩ := p
      exact ⟨insResOf ins, ⟨r.toArray⟩, by simp [bind, pure], by simp [inserted_resOf]⟩
    | none =>
      obtain ⟨ix, hix, hixn⟩ := checked_rem_len (h ^^^ UInt32.toUInt64 (Move.as_raw e.f_performed_move)) l.toArray
        (by simpa using h0) (by simpa using hsz)
      have hlt : ix.toNat < l.length := by
        rw [hixn]; simp only [List.size_toArray]; exact Nat.mod_lt _ h0
      refine ⟨.Replaced, ⟨(l.set ix.toNat (some (h, e))).toArray⟩, ?_, ?_⟩
      · simp [bind, pure, hix, ArrayMap.set, hlt]
      · simp only [Option.map_none, List.length_map, Prod.mk.injEq]
        refine ⟨?_, rfl⟩
        rw [List.map_set, hixn]
        simp [slotOf, entryOf, Move.as_raw]
  · intro l n x hx
    simp only [TTPrim.iter_mut_get, List.getElem?_toArray, hx, Option.bind_some, bind, pure]
    rcases x with _ | ⟨k, y⟩
    · simp
    · by_cases hk : (k == h) = true <;> simp [hk]

/-! ## `TranspositionTable` -/

/-- what the Rust types guarantee about a bucket: `[_; BUCKET_SIZE]` -/
def BucketWF (b : TranspositionBucket) : Prop := b.f_entries.size = Gen.bucketSize

/-- a table that `hash % buckets.len()` does not panic on, whose size fits a `usize` -/
structure TableWF (t : TranspositionTable) : Prop where
  pos : 0 < t.f_buckets.size
  lt : t.f_buckets.size * Gen.bucketSize < 2 ^ 64
  buckets : ∀ b ∈ t.f_buckets.toList, BucketWF b

theorem TableWF.size_lt {t : TranspositionTable} (w : TableWF t) : t.f_buckets.size < 2 ^ 64 := by
  have := w.lt; simp only [Gen.bucketSize] at this; omega

theorem bucketOf_length (b : TranspositionBucket) : (bucketOf b).length = b.f_entries.size := by simp [bucketOf]

theorem TranspositionBucket.empty_wf : BucketWF TranspositionBucket.empty := by
  simp [BucketWF, TranspositionBucket.empty, TranspositionBucket.BUCKET_SIZE_eq]

/-- `TranspositionTable::with_bucket_count` = `TT.Table.withBucketCount` -/
theorem TranspositionTable.with_bucket_count_eq (n : UInt64) :
    tableOf (TranspositionTable.with_bucket_count n) = TT.Table.withBucketCount n.toNat := by
  simp [tableOf, TranspositionTable.with_bucket_count, TT.Table.withBucketCount, TranspositionBucket.empty_eq]

theorem TranspositionTable.with_bucket_count_wf (n : UInt64) (h0 : 0 < n.toNat) (h : n.toNat * Gen.bucketSize < 2 ^ 64) :
    TableWF (TranspositionTable.with_bucket_count n) := by
  refine ⟨by simpa [TranspositionTable.with_bucket_count] using h0, by simpa [TranspositionTable.with_bucket_count] using h, ?_⟩
  intro b hb
  simp only [TranspositionTable.with_bucket_count, Array.toList_replicate, List.mem_replicate] at hb
  rw [hb.2]; exact TranspositionBucket.empty_wf

/-- `TranspositionTable::with_memory`: `size_in_bytes / size_of::<TranspositionBucket>()` buckets, the size being 320 -/
theorem TranspositionTable.with_memory_eq (n : UInt64) :
    TranspositionTable.with_memory n = some (TranspositionTable.with_bucket_count (n / 320)) ∧
    (TranspositionTable.with_memory n).map tableOf = some (TT.Table.withBucketCount (n.toNat / 320)) := by
  have h1 : TranspositionTable.with_memory n = some (TranspositionTable.with_bucket_count (n / 320)) := by
    simp [TranspositionTable.with_memory, TTPrim.checked_div, bind, pure]
  refine ⟨h1, ?_⟩
  rw [h1, Option.map_some, TranspositionTable.with_bucket_count_eq, UInt64.toNat_div]
  rfl

theorem getD_map_toList {α β : Type} (f : α → β) (a : Array α) (i : Nat) (d : β) (x : α) (h : a[i]? = some x) :
    (a.toList.map f).getD i d = f x := by
  have : a.toList[i]? = some x := by simpa using h
  simp [List.getD, this]

theorem index_some {α : Type} (a : Array α) (i : UInt64) (h : i.toNat < a.size) :
    ArrayMap.index a i = some a[i.toNat] := by
  simp [ArrayMap.index, h]

/-- `TranspositionTable::find` = `TT.Table.find` -/
theorem TranspositionTable.find_eq (t : TranspositionTable) (h : UInt64) (w : TableWF t) :
    ∃ r, TranspositionTable.find t h = some r ∧ r.map entryOf = (tableOf t).find h.toNat := by
  obtain ⟨ix, hix, hixn⟩ := checked_rem_len h t.f_buckets w.pos w.size_lt
  have hlt : ix.toNat < t.f_buckets.size := by rw [hixn]; exact Nat.mod_lt _ w.pos
  refine ⟨TranspositionBucket.find t.f_buckets[ix.toNat] h, ?_, ?_⟩
  · simp [TranspositionTable.find, hix, index_some _ _ hlt, bind, pure]
  · rw [TranspositionBucket.find_eq]
    simp only [TT.Table.find, tableOf, List.length_map, Array.length_toList]
    rw [getD_map_toList bucketOf t.f_buckets _ _ t.f_buckets[ix.toNat] (by simp [hixn, hlt])]

theorem TranspositionTable.entries_eq (t : TranspositionTable) :
    (TranspositionTable.entries t).toNat = (tableOf t).entries := rfl

theorem TranspositionTable.max_entries_eq (t : TranspositionTable) (w : TableWF t) :
    ∃ r, TranspositionTable.max_entries t = some r ∧ r.toNat = (tableOf t).maxEntries := by
  have hl := len_toNat t.f_buckets w.size_lt
  have hlt := w.lt
  refine ⟨TTPrim.len t.f_buckets * TranspositionBucket.BUCKET_SIZE, ?_, ?_⟩
  · simp [TranspositionTable.max_entries, UInt64.checked_mul, hl, TranspositionBucket.BUCKET_SIZE_eq, hlt, bind, pure]
  · rw [UInt64.toNat_mul, hl, TranspositionBucket.BUCKET_SIZE_eq, Nat.mod_eq_of_lt hlt]
    simp [TT.Table.maxEntries, tableOf]

theorem scan_length {b : List TT.Slot} {k : Nat} {e : TT.Entry} {r : List TT.Slot} {i : Bool}
    (h : TT.scan b k e = some (r, i)) : r.length = b.length := by
  induction b generalizing r i with
  | nil => simp [TT.scan] at h
  | cons x rest ih =>
    cases x with
    | none => simp only [TT.scan, Option.some.injEq, Prod.mk.injEq] at h; rw [← h.1]; rfl
    | some p =>
      obtain ⟨k', e'⟩ := p
      simp only [TT.scan] at h
      split at h
      · simp only [Option.some.injEq, Prod.mk.injEq] at h; rw [← h.1]; rfl
      · cases hs : TT.scan rest k e with
        | none => simp [hs] at h
        | some q =>
          obtain ⟨r', i'⟩ := q
          simp only [hs, Option.some.injEq, Prod.mk.injEq] at h
          rw [← h.1, List.length_cons, ih hs, List.length_cons]

theorem insertB_length (b : List TT.Slot) (k : Nat) (e : TT.Entry) : (TT.insertB b k e).1.length = b.length := by
  unfold TT.insertB
  cases hs : TT.scan b k e with
  | none => simp
  | some q => obtain ⟨r, i⟩ := q; exact scan_length hs

/-- `TranspositionTable::insert` = `TT.Table.insert` -/
theorem TranspositionTable.insert_eq (t : TranspositionTable) (h : UInt64) (e : TranspositionEntry) (w : TableWF t)
    (hused : t.f_used_slots.toNat + 1 < 2 ^ 64) :
    ∃ t', TranspositionTable.insert t h e = some t' ∧ tableOf t' = (tableOf t).insert h.toNat (entryOf e) ∧ TableWF t' := by
  obtain ⟨ix, hix, hixn⟩ := checked_rem_len h t.f_buckets w.pos w.size_lt
  have hlt : ix.toNat < t.f_buckets.size := by rw [hixn]; exact Nat.mod_lt _ w.pos
  have hbw : BucketWF t.f_buckets[ix.toNat] := w.buckets _ (by simp)
  obtain ⟨r, b', hb, hb'⟩ := TranspositionBucket.insert_or_replace_eq t.f_buckets[ix.toNat] h e
    (by rw [hbw]; decide) (by rw [hbw]; decide)
  have hget : (List.map bucketOf t.f_buckets.toList).getD ix.toNat [] = bucketOf t.f_buckets[ix.toNat] :=
    getD_map_toList bucketOf t.f_buckets _ _ t.f_buckets[ix.toNat] (by simp [hlt])
  have h1 : (TT.insertB (bucketOf t.f_buckets[ix.toNat]) h.toNat (entryOf e)).1 = bucketOf b' := (congrArg Prod.fst hb').symm
  have h2 : (TT.insertB (bucketOf t.f_buckets[ix.toNat]) h.toNat (entryOf e)).2 = r.inserted := (congrArg Prod.snd hb').symm
  have hmodel : (tableOf t).insert h.toNat (entryOf e) =
      { buckets := (t.f_buckets.toList.map bucketOf).set ix.toNat (bucketOf b'),
        used := if r.inserted then t.f_used_slots.toNat + 1 else t.f_used_slots.toNat } := by
    simp only [TT.Table.insert, tableOf, List.length_map, Array.length_toList, ← hixn, hget, h1, h2]
  have hwf : ∀ u : UInt64, TableWF { f_buckets := t.f_buckets.setIfInBounds ix.toNat b', f_used_slots := u } := by
    intro u
    refine ⟨by simpa using w.pos, by simpa using w.lt, ?_⟩
    intro b hbm
    simp only [Array.toList_setIfInBounds] at hbm
    rcases List.mem_or_eq_of_mem_set hbm with hm | rfl
    · exact w.buckets b hm
    · have := congrArg List.length (congrArg Prod.fst hb')
      simp only [bucketOf_length] at this
      unfold BucketWF; rw [this]
      rw [insertB_length, bucketOf_length]; exact hbw
  by_cases hins : r.inserted = true
  · refine ⟨{ f_buckets := t.f_buckets.setIfInBounds ix.toNat b', f_used_slots := t.f_used_slots + 1 }, ?_, ?_, hwf _⟩
    · simp [TranspositionTable.insert, hix, index_some _ _ hlt, hb, ArrayMap.set, hlt, hins, UInt64.checked_add, hused, bind, pure]
    · rw [hmodel]
      simp [tableOf, hins, UInt64.toNat_add, Nat.mod_eq_of_lt hused]
  · refine ⟨{ f_buckets := t.f_buckets.setIfInBounds ix.toNat b', f_used_slots := t.f_used_slots }, ?_, ?_, hwf _⟩
    · simp [TranspositionTable.insert, hix, index_some _ _ hlt, hb, ArrayMap.set, hlt, hins, bind, pure]
    · rw [hmodel]
      simp [tableOf, hins]

/-! ## `TranspositionTableAccess`

`self.tables[i].write().unwrap().insert(..)` / `.read().unwrap().find(..)` are read as the ATOMIC application of the sub-table
operation (trusted reading of `RwLock`, see the header of `tools/rs2lean_tt.py`); the generated `insert` returns the new access
layer. -/

structure AccessWF (a : TranspositionTableAccess) : Prop where
  pos : 0 < a.f_tables.size
  lt : a.f_tables.size < 2 ^ 64
  tables : ∀ t ∈ a.f_tables.toList, TableWF t

/-- `TranspositionTableAccess::with_tables` (the `assert!` does not fire for a non-empty vector) -/
theorem TranspositionTableAccess.with_tables_eq (ts : Array TranspositionTable) (h0 : 0 < ts.size) (hlt : ts.size < 2 ^ 64) :
    TranspositionTableAccess.with_tables ts = some ⟨ts⟩ := by
  have : (0 : UInt64) < TTPrim.len ts := by
    rw [UInt64.lt_iff_toNat_lt, len_toNat ts hlt]; simpa using h0
  simp [TranspositionTableAccess.with_tables, TTPrim.assert, this, bind, pure]

/-- `with_tables` panics on an empty vector (`assert!(tables.len() > 0)`) -/
theorem TranspositionTableAccess.with_tables_empty : TranspositionTableAccess.with_tables #[] = none := by
  simp [TranspositionTableAccess.with_tables, TTPrim.assert, TTPrim.len, bind]

/-- the access layer built from `n` tables of `m` buckets denotes `TT.Access.new n m` -/
theorem accessOf_replicate (n : Nat) (m : UInt64) :
    accessOf ⟨Array.replicate n (TranspositionTable.with_bucket_count m)⟩ = TT.Access.new n m.toNat := by
  simp [accessOf, TT.Access.new, TranspositionTable.with_bucket_count_eq]

theorem getD_map_toList' {α β : Type} (f : α → β) (a : Array α) (i : Nat) (d : β) (h : i < a.size) :
    (a.toList.map f).getD i d = f a[i] :=
  getD_map_toList f a i d a[i] (by simp [h])

/-- `TranspositionTableAccess::find` = `TT.Access.find` -/
theorem TranspositionTableAccess.find_eq (a : TranspositionTableAccess) (h : UInt64) (w : AccessWF a) :
    ∃ r, TranspositionTableAccess.find a h = some r ∧ r.map entryOf = (accessOf a).find h.toNat := by
  obtain ⟨ix, hix, hixn⟩ := checked_rem_len h a.f_tables w.pos w.lt
  have hlt : ix.toNat < a.f_tables.size := by rw [hixn]; exact Nat.mod_lt _ w.pos
  obtain ⟨r, hr, hr'⟩ := TranspositionTable.find_eq a.f_tables[ix.toNat] h (w.tables _ (by simp))
  refine ⟨r, ?_, ?_⟩
  · simp [TranspositionTableAccess.find, hix, index_some _ _ hlt, hr, bind, pure]
  · rw [hr']
    simp only [TT.Access.find, accessOf, List.length_map, Array.length_toList, ← hixn]
    rw [getD_map_toList' tableOf a.f_tables _ _ hlt]

/-- `TranspositionTableAccess::insert` = `TT.Access.insert` -/
theorem TranspositionTableAccess.insert_eq (a : TranspositionTableAccess) (h : UInt64) (e : TranspositionEntry) (w : AccessWF a)
    (hused : ∀ t ∈ a.f_tables.toList, t.f_used_slots.toNat + 1 < 2 ^ 64) :
    ∃ a', TranspositionTableAccess.insert a h e = some a' ∧ accessOf a' = (accessOf a).insert h.toNat (entryOf e) ∧ AccessWF a' := by
  obtain ⟨ix, hix, hixn⟩ := checked_rem_len h a.f_tables w.pos w.lt
  have hlt : ix.toNat < a.f_tables.size := by rw [hixn]; exact Nat.mod_lt _ w.pos
  obtain ⟨t', ht, ht', htw⟩ := TranspositionTable.insert_eq a.f_tables[ix.toNat] h e (w.tables _ (by simp)) (hused _ (by simp))
  refine ⟨⟨a.f_tables.setIfInBounds ix.toNat t'⟩, ?_, ?_, ?_⟩
  · simp [TranspositionTableAccess.insert, hix, index_some _ _ hlt, ht, ArrayMap.set, hlt, bind, pure]
  · simp only [TT.Access.insert, accessOf, List.length_map, Array.length_toList, ← hixn, Array.toList_setIfInBounds, List.map_set]
    rw [getD_map_toList' tableOf a.f_tables _ _ hlt, ht']
  · refine ⟨by simpa using w.pos, by simpa using w.lt, ?_⟩
    intro t hm
    simp only [Array.toList_setIfInBounds] at hm
    rcases List.mem_or_eq_of_mem_set hm with hm | rfl
    · exact w.tables t hm
    · exact htw

theorem usize_sum_go (xs : List UInt64) (acc : UInt64) (h : acc.toNat + (xs.map UInt64.toNat).sum < 2 ^ 64) :
    ∃ r, xs.foldlM (fun acc x => UInt64.checked_add acc x) acc = some r ∧ r.toNat = acc.toNat + (xs.map UInt64.toNat).sum := by
  induction xs generalizing acc with
  | nil => exact ⟨acc, rfl, by simp⟩
  | cons x rest ih =>
    simp only [List.map_cons, List.sum_cons] at h
    have hx : acc.toNat + x.toNat < 2 ^ 64 := by omega
    have hadd : (acc + x).toNat = acc.toNat + x.toNat := by rw [UInt64.toNat_add, Nat.mod_eq_of_lt hx]
    obtain ⟨r, hr, hr'⟩ := ih (acc + x) (by rw [hadd]; omega)
    refine ⟨r, ?_, ?_⟩
    · have hc : UInt64.checked_add acc x = some (acc + x) := by simp [UInt64.checked_add, hx]
      rw [List.foldlM_cons, hc]
      exact hr
    · rw [hr', hadd]; simp; omega

/-- `iter.sum()` on `usize` does not overflow when the mathematical sum fits -/
theorem usize_sum_eq (xs : List UInt64) (h : (xs.map UInt64.toNat).sum < 2 ^ 64) :
    ∃ r, TTPrim.usize_sum xs = some r ∧ r.toNat = (xs.map UInt64.toNat).sum := by
  obtain ⟨r, hr, hr'⟩ := usize_sum_go xs 0 (by simpa using h)
  exact ⟨r, hr, by simpa using hr'⟩

/-- `TranspositionTableAccess::entries` = `TT.Access.entries` (as long as the sum fits a `usize`) -/
theorem TranspositionTableAccess.entries_eq (a : TranspositionTableAccess) (h : (accessOf a).entries < 2 ^ 64) :
    ∃ r, TranspositionTableAccess.entries a = some r ∧ r.toNat = (accessOf a).entries := by
  have hs : (accessOf a).entries = ((a.f_tables.toList.map fun t => TranspositionTable.entries t).map UInt64.toNat).sum := by
    simp [TT.Access.entries, accessOf, List.map_map, Function.comp_def, TranspositionTable.entries, TT.Table.entries, tableOf]
  obtain ⟨r, hr, hr'⟩ := usize_sum_eq (a.f_tables.toList.map fun t => TranspositionTable.entries t) (by rw [← hs]; exact h)
  exact ⟨r, by simp [TranspositionTableAccess.entries, hr, bind, pure], by rw [hr', hs]⟩

theorem mapM_max_entries (ts : List TranspositionTable) (w : ∀ t ∈ ts, TableWF t) :
    ∃ rs, ts.mapM (fun t => TranspositionTable.max_entries t) = some rs ∧
      rs.map UInt64.toNat = ts.map (fun t => (tableOf t).maxEntries) := by
  induction ts with
  | nil => exact ⟨[], rfl, rfl⟩
  | cons t rest ih =>
    obtain ⟨r, hr, hr'⟩ := TranspositionTable.max_entries_eq t (w t (by simp))
    obtain ⟨rs, hrs, hrs'⟩ := ih (fun t ht => w t (by simp [ht]))
    exact ⟨r :: rs, by simp [List.mapM_cons, hr, hrs, bind, pure], by simp [hr', hrs']⟩

/-- `TranspositionTableAccess::max_entries` = `TT.Access.maxEntries` (as long as the sum fits a `usize`) -/
theorem TranspositionTableAccess.max_entries_eq (a : TranspositionTableAccess) (w : AccessWF a)
    (h : (accessOf a).maxEntries < 2 ^ 64) :
    ∃ r, TranspositionTableAccess.max_entries a = some r ∧ r.toNat = (accessOf a).maxEntries := by
  obtain ⟨rs, hrs, hrs'⟩ := mapM_max_entries a.f_tables.toList w.tables
  have hs : (accessOf a).maxEntries = (rs.map UInt64.toNat).sum := by
    rw [hrs']; simp [TT.Access.maxEntries, accessOf, List.map_map, Function.comp_def]
  obtain ⟨r, hr, hr'⟩ := usize_sum_eq rs (by rw [← hs]; exact h)
  refine ⟨r, ?_, by rw [hr', hs]⟩
  have : (fun t => do let tmp1 ← TranspositionTable.max_entries t; pure tmp1) = fun t => TranspositionTable.max_entries t := by
    funext t; cases TranspositionTable.max_entries t <;> rfl
  simp [TranspositionTableAccess.max_entries, this, hrs, hr, bind, pure]

/-- `TranspositionTableAccess::saturation`: the binary32 quotient of the two counters (both converted with `as f32`) -/
theorem TranspositionTableAccess.saturation_eq (a : TranspositionTableAccess) (w : AccessWF a)
    (he : (accessOf a).entries < 2 ^ 64) (hm : (accessOf a).maxEntries < 2 ^ 64)
    (hne : Wee.F32.ofInt ((accessOf a).maxEntries : Int) ≠ 0) :
    TranspositionTableAccess.saturation a =
      some (Wee.F32.div (Wee.F32.ofInt ((accessOf a).entries : Int)) (Wee.F32.ofInt ((accessOf a).maxEntries : Int))) := by
  obtain ⟨r1, h1, h1'⟩ := TranspositionTableAccess.entries_eq a he
  obtain ⟨r2, h2, h2'⟩ := TranspositionTableAccess.max_entries_eq a w hm
  simp [TranspositionTableAccess.saturation, h1, h2, h1', h2', TTPrim.f32_checked_div, hne, bind, pure]

/-! ## `StateHistory` (repetition history of C17)

`HashMap<Hash, usize>` is the abstract finite map `TTPrim.HashMap` (trusted mapping, header of the tool).  The model keeps the list of
recorded keys (`Search.Ctx.history`, newest first) and consults it as a set (`history.contains hash`); the Rust map holds the
multiplicity of every key of that list. -/

/-- the map holds, for every key, its number of occurrences in the model's list (absent when 0) -/
def HistRep (h : StateHistory) (l : List UInt64) : Prop :=
  ∀ k, (StateHistory.lookup h k).map UInt64.toNat = if l.count k = 0 then none else some (l.count k)

theorem StateHistory.new_rep : HistRep StateHistory.new [] := by
  intro k; simp [StateHistory.lookup, StateHistory.new, TTPrim.HashMap.get, TTPrim.HashMap.new]

/-- `StateHistory::lookup(..).is_some()` = membership in the model's history list -/
theorem StateHistory.lookup_isSome {h : StateHistory} {l : List UInt64} (r : HistRep h l) (k : UInt64) :
    (StateHistory.lookup h k).isSome = l.contains k := by
  have := r k
  by_cases hc : l.count k = 0
  · rw [hc] at this
    have hn : StateHistory.lookup h k = none := by simpa using this
    have : k ∉ l := List.count_eq_zero.mp hc
    simp [hn, this]
  · have hm : k ∈ l := by
      apply Classical.byContradiction; intro hm; exact hc (List.count_eq_zero.mpr hm)
    simp only [hc, if_false] at this
    cases hl : StateHistory.lookup h k with
    | none => simp [hl] at this
    | some v => simp [hm]

/-- `StateHistory::increment` = consing the key onto the model's history list (no overflow below 2^64 recorded positions) -/
theorem StateHistory.increment_rep {h : StateHistory} {l : List UInt64} (r : HistRep h l) (k : UInt64)
    (hlen : l.length + 1 < 2 ^ 64) :
    ∃ h', StateHistory.increment h k = some h' ∧ HistRep h' (k :: l) := by
  have hcnt : l.count k ≤ l.length := List.count_le_length
  have hk := r k
  simp only [StateHistory.lookup] at hk
  have hcur : (Option.getD (TTPrim.HashMap.get h.f_states k) (0 : UInt64)).toNat = l.count k := by
    by_cases hc : l.count k = 0
    · rw [hc] at hk ⊢
      have : TTPrim.HashMap.get h.f_states k = none := by simpa using hk
      simp [this]
    · simp only [hc, if_false] at hk
      cases hl : TTPrim.HashMap.get h.f_states k with
      | none => simp [hl] at hk
      | some v => simpa [hl] using hk
  have hno : (Option.getD (TTPrim.HashMap.get h.f_states k) (0 : UInt64)).toNat + (1 : UInt64).toNat < 2 ^ 64 := by
    rw [hcur]; simp; omega
  refine ⟨_, by simp only [StateHistory.increment, UInt64.checked_add, hno, if_true, bind, pure, Option.bind_some]; rfl, ?_⟩
  intro k'
  by_cases hkk : k' = k
  · subst hkk
    simp only [StateHistory.lookup, TTPrim.HashMap.get, TTPrim.HashMap.insert, if_true, Option.map_some,
      List.count_cons_self, Nat.add_eq_zero_iff, Nat.succ_ne_zero, and_false, if_false, Option.some.injEq]
    simp only [TTPrim.HashMap.get] at hcur hno
    rw [UInt64.toNat_add, Nat.mod_eq_of_lt hno, hcur]; rfl
  · have := r k'
    have hne : (k == k') = false := by simp [Ne.symm hkk]
    simpa [StateHistory.lookup, TTPrim.HashMap.get, TTPrim.HashMap.insert, hkk, List.count_cons, hne] using this

/-! ## `TranspositionTableAccess::iter_moves` / `TranspositionTableMoveIterator::next` = `Search.walkLine`

The iterator is consumed by `.map(|r| r.0).collect()` in `analyze_iterative`; its collected items are
`iter_collect TranspositionTableMoveIterator.next fuel (iter_moves ..)` (the reading of `for x in it` of stage 2: call the TRANSLATED
`next` until it answers `None`).  `State::by_performing_move` and `ZobristHasher::hash` are the translated functions of stage 2; their
bridges (`State.by_performing_move_eq`, `ZobristHasher.hash_keyTable`) need states a Rust `State` can hold and well-formed move
words, which is what `WalkOK` states along the walk. -/

/-- the iterator value for model-side data -/
def itOf (k : KeyTable) (a : TranspositionTableAccess) (d i : UInt64) (s : Wee.State) : TranspositionTableMoveIterator :=
  { f_access := a, f_hasher := zobristOf k, f_max_depth := d, f_current_index := i, f_current_game_state := stateOf s }

theorem TranspositionTableAccess.iter_moves_eq (k : KeyTable) (a : TranspositionTableAccess) (d : UInt64) (s : Wee.State) :
    TranspositionTableAccess.iter_moves a (zobristOf k) (stateOf s) d = itOf k a d 0 s := rfl

/-- side conditions of the stage-2 bridges along the walk: every visited state is one a Rust `State` can hold, every stored move
that is followed is a well-formed move word (real piece, capture / promotion codes ≤ 6) on which the model's `performMove` does
not report the `unwrap` panic -/
def WalkOK (keys : Keys) (tt : TT.Access) : Nat → Wee.State → Prop
  | 0, _ => True
  | n+1, s => (∀ t, s.ep = some t → t < 64) ∧ s.halfmove < 2 ^ 64 ∧ s.fullmove < 2 ^ 64 ∧
      match tt.find (Wee.hash keys s).toNat with
      | none => True
      | some e => (∃ p, Wee.Move.piece? e.mv.toUInt32 = some p ∧ p ≠ Piece.none) ∧
          Wee.Move.captureCode e.mv.toUInt32 ≤ 6 ∧ Wee.Move.promotionCode e.mv.toUInt32 ≤ 6 ∧
          match performMove s e.mv.toUInt32 with
          | some (.ok nx) => WalkOK keys tt n nx
          | some (.error _) => True
          | none => False

theorem entryOf_mv (e : TranspositionEntry) : (entryOf e).mv.toUInt32 = e.f_performed_move := by
  simp [entryOf]

/-- the moves collected from the iterator are the model's `walkLine` (at most `max_depth + 1` of them) -/
theorem iter_collect_walkLine (k : KeyTable) (ht : k.turn.size = 2) (he : k.epFile.size = 8)
    (a : TranspositionTableAccess) (w : AccessWF a) (d : UInt64) (hd : d.toNat + 1 < 2 ^ 64) :
    ∀ (n : Nat) (i : UInt64) (s : Wee.State), i.toNat + n = d.toNat + 1 → WalkOK k.keys (accessOf a) n s →
      ∃ items, iter_collect TranspositionTableMoveIterator.next (n + 1) (itOf k a d i s) = some items ∧
        items.map Prod.fst = Search.walkLine k.keys (accessOf a) n s := by
  intro n
  induction n with
  | zero =>
    intro i s hi _
    have hgt : d < i := by rw [UInt64.lt_iff_toNat_lt]; omega
    refine ⟨[], ?_, by simp [Search.walkLine]⟩
    simp [iter_collect, TranspositionTableMoveIterator.next, itOf, hgt, pure]
  | succ n ih =>
    intro i s hi hok
    obtain ⟨hep, hh, hf, hrest⟩ := hok
    have hle : ¬ d < i := by rw [UInt64.lt_iff_toNat_lt]; omega
    have hhash := ZobristHasher.hash_keyTable k ht he s hep
    obtain ⟨r, hr, hr'⟩ := TranspositionTableAccess.find_eq a (Wee.hash k.keys s) w
    have hnext : TranspositionTableMoveIterator.next (itOf k a d i s) =
        match r with
        | none => some (none, itOf k a d i s)
        | some ent => (State.by_performing_move (stateOf s) ent.f_performed_move).bind fun o =>
            match o with
            | none => some (none, itOf k a d i s)
            | some nx => (UInt64.checked_add i 1).bind fun j =>
                some (some (ent.f_performed_move, nx), { itOf k a d i s with f_current_index := j, f_current_game_state := nx }) := by
      simp only [TranspositionTableMoveIterator.next, itOf, hle, decide_false, hhash, hr, bind, pure, Option.bind_some]
      cases r with
      | none => rfl
      | some ent =>
        simp only [Bool.false_eq_true, if_false]
        cases State.by_performing_move (stateOf s) ent.f_performed_move with
        | none => rfl
        | some o =>
          cases o with
          | none => rfl
          | some nx => cases UInt64.checked_add i 1 <;> rfl
    cases r with
    | none =>
      have hfn : (accessOf a).find (Wee.hash k.keys s).toNat = none := by simpa using hr'.symm
      refine ⟨[], ?_, by simp [Search.walkLine, hfn]⟩
      simp [iter_collect, hnext]
    | some ent =>
      have hfs : (accessOf a).find (Wee.hash k.keys s).toNat = some (entryOf ent) := by simpa using hr'.symm
      simp only [hfs, entryOf_mv] at hrest
      obtain ⟨⟨p, hv, hp⟩, hc, hpr, hperf⟩ := hrest
      have hbpm := State.by_performing_move_eq s ent.f_performed_move p hv hp hc hpr hep hh hf
      simp only [hbpm] at hnext
      cases hpm : performMove s ent.f_performed_move with
      | none => simp [hpm] at hperf
      | some res =>
        cases res with
        | error err =>
          refine ⟨[], ?_, by simp [Search.walkLine, hfs, entryOf_mv, hpm]⟩
          simp [iter_collect, hnext, hpm, resultOf]
        | ok nx =>
          simp only [hpm] at hperf
          have hadd : UInt64.checked_add i 1 = some (i + 1) := by
            have : i.toNat + (1 : UInt64).toNat < 2 ^ 64 := by simp; omega
            unfold UInt64.checked_add
            rw [if_pos this]
          have hi' : (i + 1).toNat + n = d.toNat + 1 := by
            rw [UInt64.toNat_add, Nat.mod_eq_of_lt (by simp; omega)]; simp; omega
          obtain ⟨items, hit, hmap⟩ := ih (i + 1) nx hi' hperf
          refine ⟨(ent.f_performed_move, stateOf nx) :: items, ?_, by simp [Search.walkLine, hfs, entryOf_mv, hpm, hmap]⟩
          have hself : ({ itOf k a d i s with f_current_index := i + 1, f_current_game_state := stateOf nx } :
              TranspositionTableMoveIterator) = itOf k a d (i + 1) nx := rfl
          rw [iter_collect, hnext]
          simp only [hpm, resultOf, Option.bind_some, hadd, hself, hit]

/-- `transpositions.iter_moves(&hasher, &state, depth).map(|r| r.0).collect()` = `walkLine keys tt (depth + 1) state` -/
theorem TranspositionTableAccess.iter_moves_walkLine (k : KeyTable) (ht : k.turn.size = 2) (he : k.epFile.size = 8)
    (a : TranspositionTableAccess) (w : AccessWF a) (d : UInt64) (hd : d.toNat + 1 < 2 ^ 64) (s : Wee.State)
    (hok : WalkOK k.keys (accessOf a) (d.toNat + 1) s) :
    ∃ items, iter_collect TranspositionTableMoveIterator.next (d.toNat + 2)
        (TranspositionTableAccess.iter_moves a (zobristOf k) (stateOf s) d) = some items ∧
      items.map Prod.fst = Search.walkLine k.keys (accessOf a) (d.toNat + 1) s := by
  rw [TranspositionTableAccess.iter_moves_eq]
  exact iter_collect_walkLine k ht he a w d hd (d.toNat + 1) 0 s (by simp) hok

end Wee.GenFns
