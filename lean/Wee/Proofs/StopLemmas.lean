import Wee.Proofs.SearchCtl
import Wee.Proofs.BoundaryPoll
import Wee.Props.C04
import Wee.Props.C17
/-!
# Lemmas for `Wee/Props/C04Stop.lean` (the Stop contract after the repair of F11)

1. the poll counter only grows (`searchNode`, `runWorker`, `runWorkers`, `iterStep`);
2. with `cancelAt = some k` the deepening loop does not depend on its fuel once the fuel reaches the boundary read
   number `k + 1` (`iterLoop_fuel`);
3. a ghost count of the nodes searched (`workersWork`, `iterWork`, `loopWork`: the sum of the workers' own counters,
   including the interrupted worker's, which `IterSt.nodes` does not include) and its bound once Stop is visible;
4. the witness of F11 (`namespace F11`): the K-vs-K root whose only legal move leads to a recorded position, executed
   symbolically for every iteration depth, generator state and cancellation instant (`w_worker`, `w_iterStep`).
-/
namespace Wee.SearchCtl
open Wee Wee.Search

/-! ## 1. the poll counter only grows -/

theorem polls_walk (ctx : Ctx) (p : Nat) :
    Walk ctx (fun st => p ≤ st.polls) (fun st => p ≤ st.polls) (fun _ _ => True) (fun _ => True) where
  tick := by
    intro st h
    rw [tick_eq]
    split
    · split
      · exact ⟨trivial, Nat.le_succ_of_le h⟩
      · exact Nat.le_succ_of_le h
    · exact h
  rng := fun _ _ h => h
  underflow := fun _ _ _ _ _ _ _ _ => trivial
  leaf := fun _ _ _ _ _ _ => trivial
  pseudo := fun _ _ _ _ => trivial
  legal := fun _ _ _ _ _ _ _ _ => trivial
  eval := fun _ _ _ _ => trivial
  window := fun _ _ _ _ _ => trivial
  child := fun _ _ _ _ _ _ _ _ _ _ _ => trivial
  insert := fun _ _ _ _ _ _ _ _ _ _ h _ _ _ _ => h

theorem searchNode_polls_mono (ctx : Ctx) (rem : Nat) (a : NodeArgs) (st : St) :
    st.polls ≤ ((searchNode ctx rem a).run.run st).2.polls :=
  (searchNode_walk (polls_walk ctx st.polls) rem a st trivial (Nat.le_refl _)).same

theorem runWorker_polls_mono (ctx : Ctx) (root : State) (sd : Nat) (best : Option Move) (tt : TT.Access)
    (rng : Rng.ChaCha8) (polls : Nat) : polls ≤ (runWorker ctx root sd best tt rng polls).2.polls := by
  rw [runWorker_eq]
  exact searchNode_polls_mono ctx sd (rootArgs root sd best) { tt, rng, nodes := 0, polls }

theorem runWorkers_polls_mono (ctx : Ctx) (root : State) (depth : Nat) (bestMv : Option Move) :
    ∀ (l : List (Nat × UInt64)) (acc : WorkersOut), acc.polls ≤ (runWorkers ctx root depth bestMv l acc).polls := by
  intro l
  induction l with
  | nil => intro acc; exact Nat.le_refl _
  | cons x rest ih =>
    obtain ⟨i, seed⟩ := x
    intro acc
    rw [runWorkers]
    by_cases hc : (acc.interrupted || acc.panic.isSome) = true
    · rw [if_pos hc]; exact Nat.le_refl _
    · rw [if_neg hc]
      have := runWorker_polls_mono ctx root ((depth - i % 2) + 1) (if i == 0 then bestMv else Option.none) acc.tt
        (Rng.seedFromU64 seed) acc.polls
      simp only []
      generalize runWorker ctx root ((depth - i % 2) + 1) (if i == 0 then bestMv else Option.none) acc.tt
        (Rng.seedFromU64 seed) acc.polls = out at this
      obtain ⟨r, st⟩ := out
      cases r with
      | ok e =>
        exact Nat.le_trans this (ih { acc with tt := st.tt, polls := st.polls, evals := acc.evals ++ [e],
                                               sumNodes := acc.sumNodes + st.nodes })
      | error e =>
        cases e with
        | interrupt => exact this
        | panic w => exact Nat.le_refl _

theorem iterStep_polls_mono (ctx : Ctx) (root : State) (rootHash : UInt64) (workers depth : Nat) (st : IterSt) :
    st.polls ≤ (iterStep ctx root rootHash workers depth st).polls := by
  have hw := runWorkers_polls_mono ctx root depth st.bestMv ((List.range workers).zip (drawSeeds workers st.rng).1)
    { tt := st.tt, polls := st.polls, evals := [], sumNodes := 0 }
  unfold iterStep
  simp only []
  generalize runWorkers ctx root depth st.bestMv ((List.range workers).zip (drawSeeds workers st.rng).1)
    { tt := st.tt, polls := st.polls, evals := [], sumNodes := 0 } = w at hw
  cases hp : w.panic with
  | some why => exact Nat.le_refl _
  | none =>
    simp only []
    split
    · split <;> exact hw
    · exact hw

/-! ## 2. the fuel of the unbounded loop -/

/-- a boundary read at `depth > 0` with `k` earlier polls ends the loop -/
theorem boundaryPoll_stops (ctx : Ctx) (k : Nat) (hk : ctx.cancelAt = some k) (depth : Nat) (hd : 0 < depth)
    (st : IterSt) (hp : k ≤ st.polls) :
    boundaryPoll ctx depth st = { st with polls := st.polls + 1, finished := true } := by
  rw [boundaryPoll_pos ctx hd]
  unfold flagSays
  rw [hk]
  simp [hp]

/-- **every iteration boundary is a poll**: if at the top of iteration `depth` at least `depth - 1` polls have happened
(true at the start, `depth = 0`, `polls = 0`), the loop is the same function of its state for every fuel that reaches
iteration `k + 1` — the boundary read there is poll number `≥ k`, so it ends the loop -/
theorem iterLoop_fuel (ctx : Ctx) (k : Nat) (hk : ctx.cancelAt = some k) (root : State) (rootHash : UInt64)
    (workersOf : Nat → Nat) :
    ∀ (n m depth : Nat) (st : IterSt), depth ≤ k + 1 → depth ≤ st.polls + 1 → k + 2 ≤ depth + n → k + 2 ≤ depth + m →
      iterLoop ctx root rootHash workersOf n depth st = iterLoop ctx root rootHash workersOf m depth st := by
  intro n
  induction n with
  | zero => intro m depth st h1 _ h3 _; omega
  | succ n ih =>
    intro m depth st h1 h2 h3 h4
    obtain ⟨m, rfl⟩ : ∃ m', m = m' + 1 := ⟨m - 1, by omega⟩
    rw [iterLoop_succ, iterLoop_succ]
    split
    · rfl
    · split
      · rfl
      · rename_i hf hb
        -- the boundary read did not end the loop: `depth = 0`, or fewer than `k` polls so far
        have hdk : depth ≤ k := by
          rcases Nat.eq_zero_or_pos depth with h0 | hpos
          · omega
          · rcases Nat.lt_or_ge st.polls k with hlt | hge
            · omega
            · rw [boundaryPoll_stops ctx k hk depth hpos st hge] at hb
              exact absurd rfl hb
        refine ih m (depth + 1) _ (by omega) ?_ (by omega) (by omega)
        have hmono := iterStep_polls_mono ctx root rootHash (workersOf depth) depth (boundaryPoll ctx depth st)
        have hbp := boundaryPoll_polls ctx depth st
        rcases Nat.eq_zero_or_pos depth with h0 | hpos
        · omega
        · rw [if_pos hpos] at hbp; omega

/-- the parts of the final loop state that `iterate` hands out (events, table, panic) are already reached with one
iteration less: the last boundary read only counts a poll and sets `finished` -/
theorem iterLoop_fuel_outcome (ctx : Ctx) (k : Nat) (hk : ctx.cancelAt = some k) (root : State) (rootHash : UInt64)
    (workersOf : Nat → Nat) :
    ∀ (n depth : Nat) (st : IterSt), depth ≤ k + 1 → depth ≤ st.polls + 1 → k + 1 ≤ depth + n →
      (iterLoop ctx root rootHash workersOf n depth st).events =
        (iterLoop ctx root rootHash workersOf (n + 1) depth st).events ∧
      (iterLoop ctx root rootHash workersOf n depth st).tt = (iterLoop ctx root rootHash workersOf (n + 1) depth st).tt ∧
      (iterLoop ctx root rootHash workersOf n depth st).panic =
        (iterLoop ctx root rootHash workersOf (n + 1) depth st).panic := by
  intro n
  induction n with
  | zero =>
    intro depth st h1 h2 h3
    have hd : depth = k + 1 := by omega
    rw [iterLoop_succ]
    show st.events = _ ∧ st.tt = _ ∧ st.panic = _
    split
    · exact ⟨rfl, rfl, rfl⟩
    · rw [boundaryPoll_stops ctx k hk depth (by omega) st (by omega)]
      exact ⟨rfl, rfl, rfl⟩
  | succ n ih =>
    intro depth st h1 h2 h3
    rw [iterLoop_succ, iterLoop_succ ctx root rootHash workersOf (n + 1)]
    split
    · exact ⟨rfl, rfl, rfl⟩
    · split
      · exact ⟨rfl, rfl, rfl⟩
      · rename_i hf hb
        have hdk : depth ≤ k := by
          rcases Nat.eq_zero_or_pos depth with h0 | hpos
          · omega
          · rcases Nat.lt_or_ge st.polls k with hlt | hge
            · omega
            · rw [boundaryPoll_stops ctx k hk depth hpos st hge] at hb
              exact absurd rfl hb
        refine ih (depth + 1) _ (by omega) ?_ (by omega)
        have hmono := iterStep_polls_mono ctx root rootHash (workersOf depth) depth (boundaryPoll ctx depth st)
        have hbp := boundaryPoll_polls ctx depth st
        rcases Nat.eq_zero_or_pos depth with h0 | hpos
        · omega
        · rw [if_pos hpos] at hbp; omega

/-! ## 3. a ghost count of the nodes searched

`IterSt.nodes` (the `nodes_searched` of `analyze_iterative`) only adds up the counters of iterations that completed.
To bound what is searched after Stop we count every worker's own counter, the interrupted worker's included. -/

/-- the nodes counted by the workers `l` of one iteration, run one after the other as `runWorkers` runs them -/
def workersWork (ctx : Ctx) (root : State) (depth : Nat) (bestMv : Option Move) :
    List (Nat × UInt64) → WorkersOut → Nat
  | [], _ => 0
  | (i, seed) :: rest, acc =>
    if acc.interrupted || acc.panic.isSome then 0 else
    let out := runWorker ctx root ((depth - i % 2) + 1) (if i == 0 then bestMv else Option.none) acc.tt
      (Rng.seedFromU64 seed) acc.polls
    out.2.nodes + match out.1 with
      | .ok e => workersWork ctx root depth bestMv rest
          { acc with tt := out.2.tt, polls := out.2.polls, evals := acc.evals ++ [e], sumNodes := acc.sumNodes + out.2.nodes }
      | .error _ => 0

/-- the nodes counted in iteration `depth` started from the loop state `st` -/
def iterWork (ctx : Ctx) (root : State) (workers depth : Nat) (st : IterSt) : Nat :=
  workersWork ctx root depth st.bestMv ((List.range workers).zip (drawSeeds workers st.rng).1)
    { tt := st.tt, polls := st.polls, evals := [], sumNodes := 0 }

/-- the nodes counted by all workers of all iterations `iterLoop` runs from `st` (same control flow as `iterLoop`) -/
def loopWork (ctx : Ctx) (root : State) (rootHash : UInt64) (workersOf : Nat → Nat) : Nat → Nat → IterSt → Nat
  | 0, _, _ => 0
  | n+1, depth, st =>
    if st.finished then 0
    else
      let st := boundaryPoll ctx depth st
      if st.finished then 0
      else iterWork ctx root (workersOf depth) depth st +
        loopWork ctx root rootHash workersOf n (depth + 1) (iterStep ctx root rootHash (workersOf depth) depth st)

theorem workersWork_stopped (ctx : Ctx) (root : State) (depth : Nat) (bestMv : Option Move)
    (l : List (Nat × UInt64)) (acc : WorkersOut) (h : (acc.interrupted || acc.panic.isSome) = true) :
    workersWork ctx root depth bestMv l acc = 0 := by
  cases l with
  | nil => rfl
  | cons x rest => obtain ⟨i, seed⟩ := x; rw [workersWork, if_pos h]

/-- the ghost count is the model's own count whenever the model counts at all (all workers returned normally) -/
theorem workersWork_eq_sumNodes (ctx : Ctx) (root : State) (depth : Nat) (bestMv : Option Move) :
    ∀ (l : List (Nat × UInt64)) (acc : WorkersOut),
      (runWorkers ctx root depth bestMv l acc).interrupted = false →
      (runWorkers ctx root depth bestMv l acc).panic = Option.none →
      (runWorkers ctx root depth bestMv l acc).sumNodes = acc.sumNodes + workersWork ctx root depth bestMv l acc := by
  intro l
  induction l with
  | nil => intro acc _ _; rfl
  | cons x rest ih =>
    obtain ⟨i, seed⟩ := x
    intro acc hi hp
    rw [runWorkers] at hi hp ⊢
    rw [workersWork]
    by_cases hc : (acc.interrupted || acc.panic.isSome) = true
    · rw [if_pos hc]; rw [if_pos hc]; rfl
    · rw [if_neg hc] at hi hp ⊢
      rw [if_neg hc]
      simp only [] at hi hp ⊢
      generalize runWorker ctx root ((depth - i % 2) + 1) (if i == 0 then bestMv else Option.none) acc.tt
        (Rng.seedFromU64 seed) acc.polls = out at hi hp ⊢
      obtain ⟨r, st⟩ := out
      cases r with
      | ok e =>
        have := ih _ hi hp
        simp only [] at this ⊢
        rw [this]; omega
      | error e =>
        cases e with
        | interrupt => cases hi
        | panic w => cases hp

/-- the work of a list of workers splits at any worker boundary -/
theorem workersWork_append (ctx : Ctx) (root : State) (depth : Nat) (bestMv : Option Move) :
    ∀ (l1 l2 : List (Nat × UInt64)) (acc : WorkersOut),
      workersWork ctx root depth bestMv (l1 ++ l2) acc =
        workersWork ctx root depth bestMv l1 acc +
          workersWork ctx root depth bestMv l2 (runWorkers ctx root depth bestMv l1 acc) := by
  intro l1
  induction l1 with
  | nil => intro l2 acc; simp [workersWork, runWorkers]
  | cons x rest ih =>
    obtain ⟨i, seed⟩ := x
    intro l2 acc
    rw [List.cons_append, workersWork, workersWork, runWorkers]
    by_cases hc : (acc.interrupted || acc.panic.isSome) = true
    · rw [if_pos hc, if_pos hc, if_pos hc, workersWork_stopped _ _ _ _ _ _ hc]
    · rw [if_neg hc, if_neg hc, if_neg hc]
      simp only []
      generalize runWorker ctx root ((depth - i % 2) + 1) (if i == 0 then bestMv else Option.none) acc.tt
        (Rng.seedFromU64 seed) acc.polls = out
      obtain ⟨r, st⟩ := out
      cases r with
      | ok e => simp only []; rw [ih]; omega
      | error e =>
        cases e with
        | interrupt => simp only []; rw [workersWork_stopped _ _ _ _ _ _ (by rfl)]
        | panic w => simp only []; rw [workersWork_stopped _ _ _ _ _ _ (by simp)]

/-- **once Stop is visible, every worker still to be run counts at most one poll interval** (`C04_stop_worker`), and
Stop stays visible -/
theorem workersWork_stop_bound (ctx : Ctx) (k : Nat) (hk : ctx.cancelAt = some k) (root : State) (depth : Nat)
    (bestMv : Option Move) :
    ∀ (l : List (Nat × UInt64)) (acc : WorkersOut), k ≤ acc.polls →
      workersWork ctx root depth bestMv l acc ≤ l.length * Gen.pollInterval := by
  intro l
  induction l with
  | nil => intro acc _; exact Nat.le_refl _
  | cons x rest ih =>
    obtain ⟨i, seed⟩ := x
    intro acc hp
    rw [workersWork]
    by_cases hc : (acc.interrupted || acc.panic.isSome) = true
    · rw [if_pos hc]; exact Nat.zero_le _
    · rw [if_neg hc]
      have hw := C04_stop_worker ctx k hk root ((depth - i % 2) + 1) (if i == 0 then bestMv else Option.none) acc.tt
        (Rng.seedFromU64 seed) acc.polls hp
      have hm := runWorker_polls_mono ctx root ((depth - i % 2) + 1) (if i == 0 then bestMv else Option.none) acc.tt
        (Rng.seedFromU64 seed) acc.polls
      simp only []
      generalize runWorker ctx root ((depth - i % 2) + 1) (if i == 0 then bestMv else Option.none) acc.tt
        (Rng.seedFromU64 seed) acc.polls = out at hw hm
      obtain ⟨r, st⟩ := out
      have hn : st.nodes ≤ Gen.pollInterval := by
        rcases hw with h | h
        · exact Nat.le_of_eq h.2
        · exact Nat.le_of_lt h.2
      rw [List.length_cons, Nat.succ_mul]
      cases r with
      | ok e =>
        have := ih { acc with tt := st.tt, polls := st.polls, evals := acc.evals ++ [e], sumNodes := acc.sumNodes + st.nodes }
          (Nat.le_trans hp hm)
        simp only [] at this ⊢
        omega
      | error e => simp only []; omega

/-- at an iteration boundary after the first iteration, with Stop visible, nothing more is searched -/
theorem loopWork_stop (ctx : Ctx) (k : Nat) (hk : ctx.cancelAt = some k) (root : State) (rootHash : UInt64)
    (workersOf : Nat → Nat) (n depth : Nat) (hd : 0 < depth) (st : IterSt) (hp : k ≤ st.polls) :
    loopWork ctx root rootHash workersOf n depth st = 0 := by
  cases n with
  | zero => rfl
  | succ n =>
    rw [loopWork]
    split
    · rfl
    · rw [boundaryPoll_stops ctx k hk depth hd st hp]; rfl

theorem loopWork_finished (ctx : Ctx) (root : State) (rootHash : UInt64) (workersOf : Nat → Nat) (n depth : Nat)
    (st : IterSt) (h : st.finished = true) : loopWork ctx root rootHash workersOf n depth st = 0 := by
  cases n with
  | zero => rfl
  | succ n => rw [loopWork, if_pos h]

theorem runWorkers_append (ctx : Ctx) (root : State) (depth : Nat) (bestMv : Option Move) :
    ∀ (l1 l2 : List (Nat × UInt64)) (acc : WorkersOut),
      runWorkers ctx root depth bestMv (l1 ++ l2) acc =
        runWorkers ctx root depth bestMv l2 (runWorkers ctx root depth bestMv l1 acc) := by
  intro l1
  induction l1 with
  | nil => intro l2 acc; rfl
  | cons x rest ih =>
    obtain ⟨i, seed⟩ := x
    intro l2 acc
    rw [List.cons_append, runWorkers, runWorkers]
    by_cases hc : (acc.interrupted || acc.panic.isSome) = true
    · rw [if_pos hc, if_pos hc, runWorkers_stopped _ _ _ _ _ _ hc]
    · rw [if_neg hc, if_neg hc]
      simp only []
      generalize runWorker ctx root ((depth - i % 2) + 1) (if i == 0 then bestMv else Option.none) acc.tt
        (Rng.seedFromU64 seed) acc.polls = out
      obtain ⟨r, st⟩ := out
      cases r with
      | ok e => exact ih _ _
      | error e =>
        cases e with
        | interrupt => simp only []; rw [runWorkers_stopped _ _ _ _ _ _ (by rfl)]
        | panic w => simp only []; rw [runWorkers_stopped _ _ _ _ _ _ (by simp)]

/-- an iteration ends the loop (panic) or hands on the poll count of its workers -/
theorem iterStep_finished_or_polls (ctx : Ctx) (root : State) (rootHash : UInt64) (workers depth : Nat) (st : IterSt) :
    (iterStep ctx root rootHash workers depth st).finished = true ∨
    (iterStep ctx root rootHash workers depth st).polls = (workersOut ctx root workers depth st).polls := by
  unfold iterStep workersOut
  simp only []
  generalize runWorkers ctx root depth st.bestMv ((List.range workers).zip (drawSeeds workers st.rng).1)
    { tt := st.tt, polls := st.polls, evals := [], sumNodes := 0 } = w
  cases hp : w.panic with
  | some why => exact Or.inl rfl
  | none =>
    simp only []
    split
    · split <;> exact Or.inr rfl
    · exact Or.inr rfl

/-- after an iteration that ran with Stop visible, nothing more is searched: the iteration was interrupted (or
panicked), or the next boundary read ends the loop -/
theorem loopWork_after_step (ctx : Ctx) (k : Nat) (hk : ctx.cancelAt = some k) (root : State) (rootHash : UInt64)
    (workersOf : Nat → Nat) (n depth workers : Nat) (st : IterSt)
    (hp : k ≤ (iterStep ctx root rootHash workers depth st).polls) :
    loopWork ctx root rootHash workersOf n (depth + 1) (iterStep ctx root rootHash workers depth st) = 0 :=
  loopWork_stop ctx k hk root rootHash workersOf n (depth + 1) (Nat.succ_pos _) _ hp

end Wee.SearchCtl

/-! ## 4. the witness of F11: `8/8/8/8/8/8/8/K1k5 w`, the successor `8/8/8/8/8/8/K7/2k5 b` recorded

White's only legal move is Ka2 (the generator's pseudo-legal list is already `[Ka2]`: b1 and b2 are next to the black
king).  With the successor's key in the history the child node returns the draw score at once (C17), so the first
iteration is 2 nodes and every later one 3 (the previous best move is tried first and then again from the sorted list).
Toy keys: the hash is the side to move (root ↦ 0, successor ↦ 1); a 1 × 1 table. -/

namespace Wee.SearchCtl.F11
open Wee Wee.Search Wee.SearchCtl

def wRoot : State :=
  { pieces := { wk := 0x1, bk := 0x4 }
    turn := .white, castleW := .noRights, castleB := .noRights, ep := Option.none, halfmove := 0, fullmove := 1 }
def wSucc : State :=
  { pieces := { wk := 0x100, bk := 0x4 }
    turn := .black, castleW := .noRights, castleB := .noRights, ep := Option.none, halfmove := 1, fullmove := 1 }
def wMove : Move := Move.byMoving .white .king 0 8
def wKeys : KeyTable := { turn := #[0, 1], piece := #[], castle := #[], epFile := #[] }

set_option maxRecDepth 1000000 in
theorem w_pseudo : pseudoLegalMoves wRoot = some [wMove] := by decide +kernel
set_option maxRecDepth 1000000 in
theorem w_try : tryAsLegal wRoot wMove = some (some (wMove, wSucc)) := by decide +kernel
set_option maxRecDepth 1000000 in
theorem w_legal : legalMoves wRoot = [(wMove, wSucc)] := by decide +kernel
theorem w_hash_root : Wee.hash wKeys.keys wRoot = 0 := by decide +kernel
theorem w_hash_succ : Wee.hash wKeys.keys wSucc = 1 := by decide +kernel
set_option maxRecDepth 1000000 in
theorem w_check : wRoot.isCheck = false := by decide +kernel
set_option maxRecDepth 1000000 in
theorem w_perform : performMove wRoot wMove.toNat.toUInt32 = some (.ok wSucc) := by
  have key : (match performMove wRoot wMove.toNat.toUInt32 with
      | some (.ok n) => decide (n = wSucc) | _ => false) = true := by decide +kernel
  cases h : performMove wRoot wMove.toNat.toUInt32 with
  | none => rw [h] at key; cases key
  | some r =>
    cases r with
    | error e => rw [h] at key; cases key
    | ok n => rw [h] at key; simp only [decide_eq_true_eq] at key; rw [key]

def wEntry (d : Nat) : TT.Entry := { kind := kindExact, mv := wMove.toNat, depth := 0, maxDepth := d, eval := 0 }
def wTT : Nat → TT.Access
  | 0 => TT.Access.new 1 1
  | d + 1 => (TT.Access.new 1 1).insert 0 (wEntry (d + 1))

theorem wTT_insert (d : Nat) : (wTT d).insert 0 (wEntry (d + 1)) = wTT (d + 1) := by
  cases d <;> rfl
theorem wTT_find_root (d : Nat) : (wTT (d + 1)).find 0 = some (wEntry (d + 1)) := rfl
theorem wTT_find_root0 : (wTT 0).find 0 = Option.none := rfl
theorem wTT_find_succ (d : Nat) : (wTT d).find 1 = Option.none := by
  cases d with
  | zero => rfl
  | succ d =>
    simp [wTT, TT.Access.new, TT.Access.insert, TT.Access.find, TT.Table.find, TT.Table.insert, TT.insertB, TT.scan,
      TT.findB, TT.Table.withBucketCount, Gen.bucketSize, List.replicate]

/-- the context `iterate` searches with when the successor's key is in the incoming history -/
def wCtx (cancelAt : Option Nat) : Ctx :=
  { keys := wKeys.keys, history := [Wee.hash wKeys.keys wRoot, Wee.hash wKeys.keys wSucc], cancelAt }

theorem tick_small (ctx : Ctx) (st : St) (h : (st.nodes + 1) % Gen.pollInterval ≠ 0) :
    tick ctx st = (.ok (), { st with nodes := st.nodes + 1 }) := by
  rw [tick_eq, if_neg h]

theorem sort_single (x : Move) (key : Move → M Eval) (st : St) :
    (sortByCachedKey [x] key).run.run st = (.ok [x], st) := by
  unfold sortByCachedKey
  rw [if_pos (by show 1 < 2; decide)]
  rfl

/-- a child of the root: the successor is recorded, the node returns the draw score at once -/
theorem w_child (c : Option Nat) (rem : Nat) (a : NodeArgs) (hd : a.curDepth = 0)
    (alpha : Eval) (st : St) (hn : (st.nodes + 1) % Gen.pollInterval ≠ 0) :
    (searchNode (wCtx c) rem (childArgs a wSucc alpha)).run.run st = (.ok 0, { st with nodes := st.nodes + 1 }) := by
  rw [C17_draw (wCtx c) rem _ st ?_ ?_, if_neg hn]
  · unfold childArgs; simp only [hd]; omega
  · show (wCtx c).history.contains (Wee.hash wKeys.keys wSucc) = true
    simp [wCtx]

theorem w_loop1 (c : Option Nat) (rem : Nat) (a : NodeArgs) (hs : a.s = wRoot) (hd : a.curDepth = 0)
    (hβ : a.beta = Ev.mateInPly 0) (h : UInt64) (st : St) (hn : (st.nodes + 1) % Gen.pollInterval ≠ 0) :
    (childLoop (wCtx c) (searchNode (wCtx c) rem) a h [wMove] (- Ev.mateInPly 0) Option.none kindUpper).run.run st =
      (.ok (.ok (0, some wMove, kindExact)), { st with nodes := st.nodes + 1 }) := by
  rw [childLoop_cons_run, hs, w_try]
  simp only []
  rw [w_child c rem a hd _ st hn]
  simp only []
  rw [hβ, if_neg (by decide), if_pos (by decide), childLoop_nil_run]
  rfl

theorem w_loop2 (c : Option Nat) (rem : Nat) (a : NodeArgs) (hs : a.s = wRoot) (hd : a.curDepth = 0)
    (hβ : a.beta = Ev.mateInPly 0) (h : UInt64) (st : St) (hn : (st.nodes + 1) % Gen.pollInterval ≠ 0)
    (hn2 : (st.nodes + 1 + 1) % Gen.pollInterval ≠ 0) :
    (childLoop (wCtx c) (searchNode (wCtx c) rem) a h [wMove, wMove] (- Ev.mateInPly 0) Option.none kindUpper).run.run st =
      (.ok (.ok (0, some wMove, kindExact)), { st with nodes := st.nodes + 1 + 1 }) := by
  rw [childLoop_cons_run, hs, w_try]
  simp only []
  rw [w_child c rem a hd _ st hn]
  simp only []
  rw [hβ, if_neg (by decide), if_pos (by decide), childLoop_cons_run, hs, w_try]
  simp only []
  rw [w_child c rem a hd _ _ hn2]
  simp only []
  rw [hβ, if_neg (by decide), if_neg (by decide), childLoop_nil_run]
  rfl

theorem w_worker (c : Option Nat) (d : Nat) (rng : Rng.ChaCha8) (polls : Nat) :
    runWorker (wCtx c) wRoot (d + 1) (if d = 0 then Option.none else some wMove) (wTT d) rng polls =
      (.ok 0, { tt := wTT (d + 1), rng := rng, nodes := if d = 0 then 2 else 3, polls := polls }) := by
  rw [runWorker_eq, searchNode_succ, nodeM_run, tick_small _ _ (by show (0 + 1) % Gen.pollInterval ≠ 0; decide)]
  simp only []
  have hh : Wee.hash (wCtx c).keys (rootArgs wRoot (d + 1) (if d = 0 then Option.none else some wMove)).s = 0 := w_hash_root
  rw [hh]
  have hc : (decide ((rootArgs wRoot (d + 1) (if d = 0 then Option.none else some wMove)).curDepth > 0) &&
      (wCtx c).history.contains 0) = false := by simp [rootArgs]
  rw [hc]
  simp only [Bool.false_eq_true, if_false]
  have hprobe : probe (rootArgs wRoot (d + 1) (if d = 0 then Option.none else some wMove))
      ((wTT d).find (0 : UInt64).toNat) = .window (- Ev.mateInPly 0) (Ev.mateInPly 0) := by
    cases d with
    | zero => rfl
    | succ d =>
      show probe _ ((wTT (d + 1)).find 0) = _
      rw [wTT_find_root]
      unfold probe rootArgs wEntry
      simp
  simp only [hprobe]
  rw [expandM_run]
  have hp : pseudoLegalMoves (rootArgs wRoot (d + 1) (if d = 0 then Option.none else some wMove)).s = some [wMove] := w_pseudo
  rw [hp]
  simp only []
  rw [sort_single]
  simp only []
  cases d with
  | zero =>
    have hb : (bufferOf (rootArgs wRoot (0 + 1) (if 0 = 0 then Option.none else some wMove)).prioritized [wMove]).reverse =
        [wMove] := rfl
    rw [hb, w_loop1 c 0 _ rfl rfl rfl _ _ (by show (0 + 1 + 1) % Gen.pollInterval ≠ 0; decide)]
    simp only []
    rw [if_neg (by decide)]
    rfl
  | succ d =>
    have hb : (bufferOf (rootArgs wRoot (d + 1 + 1) (if d + 1 = 0 then Option.none else some wMove)).prioritized [wMove]).reverse =
        [wMove, wMove] := rfl
    rw [hb, w_loop2 c (d + 1) _ rfl rfl rfl _ _ (by show (0 + 1 + 1) % Gen.pollInterval ≠ 0; decide)
      (by show (0 + 1 + 1 + 1) % Gen.pollInterval ≠ 0; decide)]
    simp only []
    rw [if_neg (by decide)]
    have he : entryOf (rootArgs wRoot (d + 1 + 1) (if d + 1 = 0 then Option.none else some wMove)) kindExact wMove 0 =
        wEntry (d + 1 + 1) := rfl
    rw [he]
    show (Except.ok 0, ({ tt := (wTT (d + 1)).insert 0 (wEntry (d + 1 + 1)), rng := rng, nodes := 3, polls := polls } : St)) = _
    rw [wTT_insert, if_neg (by omega)]

theorem w_walk (d n : Nat) : walkLine wKeys.keys (wTT (d + 1)) (n + 1) wRoot = [wMove] := by
  rw [walkLine, w_hash_root]
  show (match (wTT (d + 1)).find 0 with
    | Option.none => []
    | some e => match performMove wRoot e.mv.toUInt32 with
      | some (.ok next) => e.mv.toUInt32 :: walkLine wKeys.keys (wTT (d + 1)) n next
      | _ => []) = [wMove]
  rw [wTT_find_root]
  simp only []
  have hmv : (wEntry (d + 1)).mv = wMove.toNat := rfl
  rw [hmv, w_perform]
  simp only []
  have hm : wMove.toNat.toUInt32 = wMove := by decide
  rw [hm]
  cases n with
  | zero => rfl
  | succ n =>
    rw [walkLine, w_hash_succ]
    show wMove :: (match (wTT (d + 1)).find 1 with
      | Option.none => []
      | some e => _) = [wMove]
    rw [wTT_find_succ]

/-- number of `Progress` events: one per completed iteration -/
def progressCount (evs : List Event) : Nat := (evs.filter fun e => match e with | .progress _ _ => true | _ => false).length

/-- the loop state at the top of iteration `d` of the witness search, for either loop, as long as no read of the flag
has ended it: `d` iterations completed, no poll has happened, the table holds the root's entry of the previous iteration -/
structure WInv (d : Nat) (st : IterSt) : Prop where
  tt : st.tt = wTT d
  best : st.bestMv = if d = 0 then Option.none else some wMove
  panic : st.panic = Option.none
  polls : st.polls = 0
  fin : st.finished = false
  prog : progressCount st.events = d
  nodes : st.nodes = if d = 0 then 0 else 3 * d - 1

theorem drawSeeds_one (r : Rng.ChaCha8) : ∃ v, (drawSeeds 1 r).1 = [v] := by
  rw [drawSeeds.eq_2]
  rcases Rng.nextU64 r with ⟨v, r'⟩
  simp only
  rw [drawSeeds]
  exact ⟨v, rfl⟩

/-- **one iteration of the witness search** (one worker, any cancellation instant `c`, any generator state): it never
reaches a poll — 2 nodes in the first iteration, 3 in every later one —, completes, reports and is not the last -/
theorem w_iterStep (c : Option Nat) (rootHash : UInt64) (d : Nat) (st : IterSt) (h : WInv d st) :
    WInv (d + 1) (iterStep (wCtx c) wRoot rootHash 1 d st) := by
  obtain ⟨v, hv⟩ := drawSeeds_one st.rng
  unfold iterStep
  rcases hds : drawSeeds 1 st.rng with ⟨seeds, rng⟩
  rw [hds] at hv
  simp only at hv
  subst hv
  simp only
  have hz : (List.range 1).zip [v] = [(0, v)] := rfl
  rw [hz, runWorkers]
  simp only [Bool.or_self, Bool.false_eq_true, ↓reduceIte, Option.isSome_none, Nat.zero_mod, Nat.sub_zero, beq_self_eq_true]
  rw [h.tt, h.best, h.polls, w_worker]
  simp only [runWorkers]
  have hw : walkLine (wCtx c).keys (wTT (d + 1)) (d + 1) wRoot = [wMove] := w_walk d d
  simp only [hw, Bool.not_false, ↓reduceIte, List.isEmpty_cons, Bool.false_eq_true, List.nil_append, List.foldl_nil,
    List.head?_cons]
  refine ⟨rfl, by rw [if_neg (Nat.succ_ne_zero d)], h.panic, rfl, ?_, ?_, ?_⟩
  · show decide ((0 : Eval) ≥ Ev.posInf) = false
    decide
  · show progressCount (st.events ++ [_] ++ [_]) = d + 1
    have hp := h.prog
    unfold progressCount at *
    rw [List.filter_append, List.filter_append, List.length_append, List.length_append, hp]
    rfl
  · show st.nodes + (0 + if d = 0 then 2 else 3) = _
    rw [h.nodes]
    rcases Nat.eq_zero_or_pos d with h0 | hpos
    · subst h0; simp
    · rw [if_neg (by omega), if_neg (by omega), if_neg (by omega)]; omega

end Wee.SearchCtl.F11
