import Wee.Model.Cbor
/-!
# Round trip of the CBOR unsigned-integer form (helper for C20)
-/
namespace Wee.Cbor

theorem fitU32_eq (raw : UInt32) (n : Nat) (rest : List UInt8) (h : n = raw.toNat) :
    fitU32 n rest = some (raw, rest) := by
  subst h
  have := raw.toNat_lt
  simp [fitU32]; omega

/-- reading back what the encoder wrote returns the value and leaves the following bytes unread -/
theorem decodeU32Prefix_encodeU32 (raw : UInt32) (rest : List UInt8) :
    decodeU32Prefix (encodeU32 raw ++ rest) = some (raw, rest) := by
  have hlt := raw.toNat_lt
  have b0 : raw.toUInt8.toNat = raw.toNat % 256 := by simp
  have b1 : (raw >>> 8).toUInt8.toNat = raw.toNat / 256 % 256 := by simp [Nat.shiftRight_eq_div_pow]
  have b2 : (raw >>> 16).toUInt8.toNat = raw.toNat / 65536 % 256 := by simp [Nat.shiftRight_eq_div_pow]
  have b3 : (raw >>> 24).toUInt8.toNat = raw.toNat / 16777216 % 256 := by simp [Nat.shiftRight_eq_div_pow]
  unfold encodeU32
  split
  · rename_i h
    have h' : raw.toNat < 24 := by simpa [UInt32.lt_iff_toNat_lt] using h
    have h8 : raw.toUInt8 < 24 := by simp [UInt8.lt_iff_toNat_lt]; omega
    have he : raw.toUInt8.toUInt32 = raw := by
      apply UInt32.toNat_inj.1; simp; omega
    simp only [List.cons_append, List.nil_append, decodeU32Prefix, if_pos h8, he]
  · split
    · rename_i h1 h2
      have h' : raw.toNat < 256 := by simpa [UInt32.lt_iff_toNat_lt] using h2
      simp only [List.cons_append, List.nil_append, decodeU32Prefix]
      simp only [show ¬ ((0x18 : UInt8) < 24) by decide, if_false, if_true]
      exact fitU32_eq _ _ _ (by simp only [beNat, List.foldl]; omega)
    · split
      · rename_i h1 h2 h3
        have h' : raw.toNat < 65536 := by simpa [UInt32.lt_iff_toNat_lt] using h3
        simp only [List.cons_append, List.nil_append, decodeU32Prefix]
        simp only [show ¬ ((0x19 : UInt8) < 24) by decide, show ¬ ((0x19 : UInt8) = 0x18) by decide,
          if_false, if_true]
        exact fitU32_eq _ _ _ (by simp only [beNat, List.foldl]; omega)
      · simp only [List.cons_append, List.nil_append, decodeU32Prefix]
        simp only [show ¬ ((0x1a : UInt8) < 24) by decide, show ¬ ((0x1a : UInt8) = 0x18) by decide,
          show ¬ ((0x1a : UInt8) = 0x19) by decide, if_false, if_true]
        exact fitU32_eq _ _ _ (by simp only [beNat, List.foldl]; omega)

theorem decodeU32_encodeU32 (raw : UInt32) : decodeU32 (encodeU32 raw) = some raw := by
  have h := decodeU32Prefix_encodeU32 raw []
  rw [List.append_nil] at h
  unfold decodeU32
  rw [h]

/-- the encoder always produces 1, 2, 3 or 5 bytes, the shortest form -/
theorem encodeU32_length (raw : UInt32) :
    (encodeU32 raw).length =
      if raw.toNat < 24 then 1 else if raw.toNat < 256 then 2 else if raw.toNat < 65536 then 3 else 5 := by
  unfold encodeU32
  simp only [UInt32.lt_iff_toNat_lt]
  have e1 : (24 : UInt32).toNat = 24 := rfl
  have e2 : (256 : UInt32).toNat = 256 := rfl
  have e3 : (65536 : UInt32).toNat = 65536 := rfl
  rw [e1, e2, e3]
  split
  · rfl
  · split
    · rfl
    · split <;> rfl

end Wee.Cbor
