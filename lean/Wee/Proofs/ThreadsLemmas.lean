import Wee.Model.Threads
/-!
# Lemmas about the thread / channel protocol (`Wee/Model/Threads.lean`)

* `Wee.Fair`: a small generic theory of labelled transition systems given by a step *function*: infinite executions
  with stuttering, weak fairness of an action, and the ranking rule `leadsTo_of_rank` ("helpful action" rule: Manna–Pnueli
  response rule / Lamport's WF1 iterated along a well-founded rank) — proved here, not assumed.
* `Wee.Threads`: the inductive invariant `Inv` of the protocol (one lemma per action), its consequences, the ranking
  argument for `wait_cancel`, the timer lemmas and the `Stop`-idempotence bisimulation.

The property theorems are in `Wee/Props/Threads.lean`.
-/

namespace Wee.Fair
universe u v w
variable {σ : Type u} {α : Type v}

/-- an infinite execution of the labelled system `step`; `act i = none` is a stuttering step -/
structure Exec (step : σ → α → Option σ) where
  st : Nat → σ
  act : Nat → Option α
  ok : ∀ i, match act i with
    | some a => step (st i) a = some (st (i + 1))
    | none => st (i + 1) = st i

/-- weak fairness of action `a`: if `a` is enabled from some moment on forever, it is taken at or after that moment -/
def WeakFair {step : σ → α → Option σ} (e : Exec step) (a : α) : Prop :=
  ∀ i, (∀ j, i ≤ j → (step (e.st j) a).isSome = true) → ∃ j, i ≤ j ∧ e.act j = some a

/-- **ranking rule for "P leads to Q" under weak fairness.**  `I` holds along the execution.  In every `I`-state with
`P ∧ ¬Q` there is a fair action `helpful s` that is enabled; EVERY step from such a state reaches `Q`, or keeps `P` and
either lowers the rank (well-founded `r`) or — only if it is not the helpful action — keeps the rank and the helpful
action.  Then every execution that is weakly fair for the fair actions reaches `Q` from every `P`-state. -/
theorem leadsTo_of_rank {step : σ → α → Option σ} {ρ : Type w} (r : ρ → ρ → Prop) (wf : WellFounded r)
    (I P Q : σ → Prop) (rank : σ → ρ) (helpful : σ → α) (isFair : α → Prop)
    (hfair : ∀ s, I s → P s → ¬ Q s → isFair (helpful s))
    (hen : ∀ s, I s → P s → ¬ Q s → (step s (helpful s)).isSome = true)
    (hstep : ∀ s a s', I s → P s → ¬ Q s → step s a = some s' →
      Q s' ∨ (P s' ∧ (r (rank s') (rank s) ∨ (a ≠ helpful s ∧ rank s' = rank s ∧ helpful s' = helpful s))))
    (e : Exec step) (hI : ∀ i, I (e.st i)) (hwf : ∀ a, isFair a → WeakFair e a) :
    ∀ i, P (e.st i) → ∃ j, i ≤ j ∧ Q (e.st j) := by
  suffices H : ∀ (x : ρ) (i : Nat), rank (e.st i) = x → P (e.st i) → ∃ j, i ≤ j ∧ Q (e.st j) from
    fun i hp => H _ i rfl hp
  intro x
  induction x using wf.induction with
  | _ x ih =>
    intro i hx hp
    by_cases hq : Q (e.st i)
    · exact ⟨i, Nat.le_refl _, hq⟩
    -- some later state satisfies Q or has a smaller rank
    have key : ∃ j, i ≤ j ∧ (Q (e.st j) ∨ (P (e.st j) ∧ r (rank (e.st j)) x)) := by
      apply Classical.byContradiction
      intro hno
      have hno' : ∀ j, i ≤ j → ¬ Q (e.st j) ∧ ¬ (P (e.st j) ∧ r (rank (e.st j)) x) := by
        intro j hj
        constructor
        · intro h; exact hno ⟨j, hj, Or.inl h⟩
        · intro h; exact hno ⟨j, hj, Or.inr h⟩
      -- otherwise the state keeps its rank and its helpful action, which is never taken
      have stay : ∀ k, P (e.st (i + k)) ∧ rank (e.st (i + k)) = x ∧ helpful (e.st (i + k)) = helpful (e.st i) := by
        intro k
        induction k with
        | zero => exact ⟨hp, hx, rfl⟩
        | succ k ihk =>
          obtain ⟨hpk, hrk, hhk⟩ := ihk
          have hqk := (hno' (i + k) (Nat.le_add_right _ _)).1
          have hnext := hno' (i + (k + 1)) (Nat.le_add_right _ _)
          have hok := e.ok (i + k)
          cases hact : e.act (i + k) with
          | none =>
            rw [hact] at hok
            have e1 : e.st (i + (k + 1)) = e.st (i + k) := hok
            rw [e1]; exact ⟨hpk, hrk, hhk⟩
          | some a =>
            rw [hact] at hok
            have hok' : step (e.st (i + k)) a = some (e.st (i + (k + 1))) := hok
            rcases hstep _ a _ (hI _) hpk hqk hok' with h | ⟨hp', h | ⟨_, h2, h3⟩⟩
            · exact absurd h hnext.1
            · rw [hrk] at h; exact absurd ⟨hp', h⟩ hnext.2
            · exact ⟨hp', h2.trans hrk, h3.trans hhk⟩
      have hen' : ∀ j, i ≤ j → (step (e.st j) (helpful (e.st i))).isSome = true := by
        intro j hj
        obtain ⟨k, rfl⟩ := Nat.exists_eq_add_of_le hj
        obtain ⟨hpk, _, hhk⟩ := stay k
        rw [← hhk]
        exact hen _ (hI _) hpk (hno' _ hj).1
      obtain ⟨j, hj, hact⟩ := hwf _ (hfair _ (hI _) hp hq) i hen'
      obtain ⟨k, rfl⟩ := Nat.exists_eq_add_of_le hj
      obtain ⟨hpk, hrk, hhk⟩ := stay k
      have hqk := (hno' (i + k) hj).1
      have hnext := hno' (i + (k + 1)) (Nat.le_add_right _ _)
      have hok := e.ok (i + k)
      rw [hact] at hok
      have hok' : step (e.st (i + k)) (helpful (e.st i)) = some (e.st (i + (k + 1))) := hok
      rcases hstep _ _ _ (hI _) hpk hqk hok' with h | ⟨hp', h | ⟨h1, _, _⟩⟩
      · exact hnext.1 h
      · rw [hrk] at h; exact hnext.2 ⟨hp', h⟩
      · exact h1 hhk.symm
    obtain ⟨j, hj, h | ⟨hpj, hrj⟩⟩ := key
    · exact ⟨j, hj, h⟩
    · obtain ⟨j', hj', hq'⟩ := ih _ hrj j rfl hpj
      exact ⟨j', Nat.le_trans hj hj', hq'⟩

/-- an invariant of the steps that holds initially holds along every execution -/
theorem Exec.invariant {step : σ → α → Option σ} (e : Exec step) (I : σ → Prop) (h0 : I (e.st 0))
    (hstep : ∀ s a s', I s → step s a = some s' → I s') : ∀ i, I (e.st i) := by
  intro i
  induction i with
  | zero => exact h0
  | succ i ih =>
    have hok := e.ok i
    cases hact : e.act i with
    | none => rw [hact] at hok; have e1 : e.st (i + 1) = e.st i := hok; rw [e1]; exact ih
    | some a => rw [hact] at hok; exact hstep _ a _ ih hok

/-! ### a finite run followed by stuttering is an execution -/

/-- run a list of actions -/
def runList (step : σ → α → Option σ) : σ → List α → Option σ
  | s, [] => some s
  | s, a :: r =>
    match step s a with
    | some s' => runList step s' r
    | none => none

/-- the state after the first `i` actions of the list (the last state once the list is used up) -/
def stAt (step : σ → α → Option σ) : σ → List α → Nat → σ
  | s, [], _ => s
  | s, _ :: _, 0 => s
  | s, a :: r, i + 1 =>
    match step s a with
    | some s' => stAt step s' r i
    | none => s

theorem stAt_zero (step : σ → α → Option σ) (s : σ) (acts : List α) : stAt step s acts 0 = s := by
  cases acts <;> rfl

theorem stAt_ok (step : σ → α → Option σ) : ∀ (acts : List α) (s : σ), (runList step s acts).isSome = true →
    ∀ i, match acts[i]? with
      | some a => step (stAt step s acts i) a = some (stAt step s acts (i + 1))
      | none => stAt step s acts (i + 1) = stAt step s acts i := by
  intro acts
  induction acts with
  | nil => intro s _ i; simp [stAt]
  | cons a r ih =>
    intro s h i
    unfold runList at h
    cases hs : step s a with
    | none => rw [hs] at h; cases h
    | some s1 =>
      rw [hs] at h
      cases i with
      | zero =>
        simp only [List.getElem?_cons_zero]
        show step (stAt step s (a :: r) 0) a = some (stAt step s (a :: r) 1)
        simp only [stAt, hs, stAt_zero]
      | succ k =>
        have := ih s1 h k
        simp only [List.getElem?_cons_succ]
        simp only [stAt, hs]
        exact this

theorem stAt_final (step : σ → α → Option σ) : ∀ (acts : List α) (s fin : σ), runList step s acts = some fin →
    ∀ i, acts.length ≤ i → stAt step s acts i = fin := by
  intro acts
  induction acts with
  | nil => intro s fin h i _; simp only [runList, Option.some.injEq] at h; subst h; rfl
  | cons a r ih =>
    intro s fin h i hi
    unfold runList at h
    cases hs : step s a with
    | none => rw [hs] at h; cases h
    | some s1 =>
      rw [hs] at h
      cases i with
      | zero => simp at hi
      | succ k =>
        simp only [stAt, hs]
        exact ih s1 fin h k (by simpa using hi)

/-- the execution that performs `acts` from `s` and then stutters forever -/
def Exec.ofRun (step : σ → α → Option σ) (s : σ) (acts : List α) (h : (runList step s acts).isSome = true) :
    Exec step where
  st := stAt step s acts
  act := fun i => acts[i]?
  ok := stAt_ok step acts s h

/-- such an execution is weakly fair for every action that is not enabled in its final state -/
theorem Exec.ofRun_fair (step : σ → α → Option σ) (s fin : σ) (acts : List α) (h : runList step s acts = some fin)
    (a : α) (hdis : (step fin a).isSome = false) :
    WeakFair (Exec.ofRun step s acts (by rw [h]; rfl)) a := by
  intro i hen
  have h1 := hen (max i acts.length) (Nat.le_max_left _ _)
  have h2 : (Exec.ofRun step s acts (by rw [h]; rfl)).st (max i acts.length) = fin :=
    stAt_final step acts s fin h _ (Nat.le_max_right _ _)
  rw [h2, hdis] at h1
  cases h1

end Wee.Fair

namespace Wee.Threads
variable {μ π : Type}

/-! ## lists -/

theorem lastBest_append (a b : List (Ev μ π)) : ∀ bl, lastBest (a ++ b) bl = lastBest b (lastBest a bl) := by
  induction a with
  | nil => intro bl; rfl
  | cons e r ih => intro bl; simp only [List.cons_append, lastBest, ih]

@[simp] theorem lastBest_snoc (a : List (Ev μ π)) (e : Ev μ π) (bl : List μ) :
    lastBest (a ++ [e]) bl = bestAfter (lastBest a bl) e := by
  rw [lastBest_append]; rfl

/-- `best_line` at the end is the line of the last `BestMove` event, or its initial value -/
theorem lastBest_eq (evs : List (Ev μ π)) : ∀ bl, lastBest evs bl = (lastBestEvent evs).getD bl := by
  induction evs with
  | nil => intro bl; rfl
  | cons e r ih =>
    intro bl
    cases e with
    | best line p =>
      simp only [lastBest, bestAfter, lastBestEvent, ih]
      cases lastBestEvent r <;> rfl
    | other p => simp only [lastBest, bestAfter, lastBestEvent, ih]

theorem bestmoves_append (a b : List (Line μ π)) : bestmoves (a ++ b) = bestmoves a ++ bestmoves b := by
  induction a with
  | nil => rfl
  | cons x r ih => cases x <;> simp only [List.cons_append, bestmoves, ih]

theorem bestmoves_info (evs : List (Ev μ π)) : bestmoves (evs.map Line.info) = [] := by
  induction evs with
  | nil => rfl
  | cons e r ih => simp only [List.map_cons, bestmoves, ih]

theorem bestmoves_tailLines (bl : List μ) : bestmoves (tailLines bl : List (Line μ π)) = bl.head?.toList := by
  cases bl <;> rfl

theorem mem_bestmoves {ls : List (Line μ π)} {m : μ} : m ∈ bestmoves ls ↔ Line.bestmove m ∈ ls := by
  induction ls with
  | nil => simp [bestmoves]
  | cons x r ih => cases x <;> simp [bestmoves, ih]

/-- all `bestmove` lines of the writer function: none, or the head of the final `best_line` -/
theorem bestmoves_writerOut (evs : List (Ev μ π)) :
    bestmoves (writerOut evs) = (lastBest evs []).head?.toList := by
  unfold writerOut
  rw [bestmoves_append, bestmoves_info, bestmoves_tailLines, List.nil_append]

/-! ## the inductive invariant -/

/-- the invariant of every interleaving (both variants of `wait_cancel`, with or without writer / timer) -/
structure Inv (f8 : Bool) (s : St μ π) : Prop where
  /-- the control receiver lives exactly as long as C -/
  rx2_iff : s.rx2 = true ↔ s.c ≠ .done
  /-- S owns both of its senders until it unwinds … -/
  s_live : s.s = .run ∨ s.s = .sendStop → s.sink = true ∧ s.tx3 = true
  /-- … and has dropped both when it is joinable -/
  s_done : s.s = .done → s.sink = false ∧ s.tx3 = false
  /-- M's sender lives until `wait_cancel` returns -/
  tx2_iff : s.tx2 = true ↔ s.m ≠ .returned
  tt_iff : s.tt = true ↔ s.t ≠ .done
  /-- with a writer, the event receiver lives exactly as long as W -/
  rx1_w : s.w ≠ .absent → (s.rx1 = true ↔ s.w ≠ .done)
  /-- C ends only after having joined S, and with S's fate -/
  c_done : s.c = .done → s.s = .done ∧ s.cOk = s.sOk
  c_ok : s.c ≠ .done → s.cOk = true
  /-- M passes its first join only after C has ended; the artifact is there iff C did not panic -/
  m_past : s.m = .joinW ∨ s.m = .returned → s.c = .done ∧ s.artifact = s.cOk
  m_ret : s.m = .returned → s.w = .done ∨ s.w = .absent
  /-- W leaves its loop only when the channel is closed and drained -/
  w_past : s.w = .tail ∨ s.w = .done → s.sink = false ∧ s.q1 = []
  /-- the flag is set exactly by C's `cancel` -/
  flag_iff : s.flag = true ↔ (s.c = .joinS ∨ s.c = .done)
  /-- M's `Stop` is in the queue until C takes one -/
  stop_sent : s.m ≠ .idle → s.c = .recv → 0 < s.q2
  /-- `tx3.send(Stop).unwrap()` never failed -/
  sendFailed : s.sendFailed = false
  /-- `controller.recv()` never returned `Err` -/
  recvErr : s.recvErr = false
  /-- S panicked iff `analyze_iterative` did -/
  sOk_iff : s.sOk = !s.injected
  sOk_run : s.s = .run ∨ s.s = .sendStop → s.sOk = true
  /-- with a writer no event is lost: received ++ queued = emitted -/
  data : s.w ≠ .absent → s.consumed ++ s.q1 = s.emitted
  best : s.best = lastBest s.consumed []
  printed : s.printed = s.consumed.map Line.info ++ (if s.w = .done then tailLines s.best else [])
  absent : s.w = .absent → s.printed = [] ∧ s.consumed = []
  /-- with `join().ok()` the main thread never panics -/
  aborted : f8 = true → s.m ≠ .aborted
  /-- with `join().unwrap()` (before the repair of F8) `wait_cancel` gets past its first join only if C did not panic -/
  preF8 : f8 = false → s.m = .joinW ∨ s.m = .returned → s.cOk = true

theorem inv_init (f8 writer timer : Bool) : Inv f8 (init writer timer : St μ π) := by
  cases writer <;> cases timer <;> constructor <;> simp [init, lastBest]

local macro "step_inv" h:ident hs:ident s:ident : tactic => `(tactic| (
  obtain ⟨h1, h2, h3, h4, h5, h6, h7, h8, h9, h10, h11, h12, h13, h14, h15, h16, h17, h18, h19, h20, h21, h22, h23⟩ := $h
  obtain ⟨m, c, ss, w, t, sOk, cOk, art, q1, sink, rx1, q2, tx2, tx3, tt, rx2, flag, best, em, co, pr, sf, inj, re⟩ := $s
  simp only at h1 h2 h3 h4 h5 h6 h7 h8 h9 h10 h11 h12 h13 h14 h15 h16 h17 h18 h19 h20 h21 h22 h23
  unfold step at $hs:ident
  simp only at $hs:ident
  (repeat' split at $hs:ident) <;> (try cases $hs:ident) <;> constructor <;> simp_all <;> (first | omega | grind)))

section perAction
variable {f8 : Bool} {s s' : St μ π}
theorem inv_mCall (h : Inv f8 s) (hs : step f8 s .mCall = some s') : Inv f8 s' := by step_inv h hs s
theorem inv_mJoinC (h : Inv f8 s) (hs : step f8 s .mJoinC = some s') : Inv f8 s' := by step_inv h hs s
theorem inv_mJoinW (h : Inv f8 s) (hs : step f8 s .mJoinW = some s') : Inv f8 s' := by step_inv h hs s
theorem inv_callerDrop (h : Inv f8 s) (hs : step f8 s .callerDrop = some s') : Inv f8 s' := by step_inv h hs s
theorem inv_callerRecv (h : Inv f8 s) (hs : step f8 s .callerRecv = some s') : Inv f8 s' := by step_inv h hs s
theorem inv_cRecv (h : Inv f8 s) (hs : step f8 s .cRecv = some s') : Inv f8 s' := by step_inv h hs s
theorem inv_cCancel (h : Inv f8 s) (hs : step f8 s .cCancel = some s') : Inv f8 s' := by step_inv h hs s
theorem inv_cJoin (h : Inv f8 s) (hs : step f8 s .cJoin = some s') : Inv f8 s' := by step_inv h hs s
theorem inv_sEmit (e : Ev μ π) (h : Inv f8 s) (hs : step f8 s (.sEmit e) = some s') : Inv f8 s' := by
  step_inv h hs s
theorem inv_sEndSelf (h : Inv f8 s) (hs : step f8 s .sEndSelf = some s') : Inv f8 s' := by step_inv h hs s
theorem inv_sNotice (h : Inv f8 s) (hs : step f8 s .sNotice = some s') : Inv f8 s' := by step_inv h hs s
theorem inv_sPanic (h : Inv f8 s) (hs : step f8 s .sPanic = some s') : Inv f8 s' := by step_inv h hs s
theorem inv_sSendStop (h : Inv f8 s) (hs : step f8 s .sSendStop = some s') : Inv f8 s' := by step_inv h hs s
theorem inv_sDropSink (h : Inv f8 s) (hs : step f8 s .sDropSink = some s') : Inv f8 s' := by step_inv h hs s
theorem inv_sDropTx3 (h : Inv f8 s) (hs : step f8 s .sDropTx3 = some s') : Inv f8 s' := by step_inv h hs s
theorem inv_sFinish (h : Inv f8 s) (hs : step f8 s .sFinish = some s') : Inv f8 s' := by step_inv h hs s
theorem inv_wRecv (h : Inv f8 s) (hs : step f8 s .wRecv = some s') : Inv f8 s' := by step_inv h hs s
theorem inv_wClosed (h : Inv f8 s) (hs : step f8 s .wClosed = some s') : Inv f8 s' := by step_inv h hs s
theorem inv_wTail (h : Inv f8 s) (hs : step f8 s .wTail = some s') : Inv f8 s' := by step_inv h hs s
theorem inv_tFire (h : Inv f8 s) (hs : step f8 s .tFire = some s') : Inv f8 s' := by step_inv h hs s
theorem inv_tExit (h : Inv f8 s) (hs : step f8 s .tExit = some s') : Inv f8 s' := by step_inv h hs s
end perAction

/-- `Inv` is preserved by every step of every process -/
theorem inv_step {f8 : Bool} {s s' : St μ π} {a : Act μ π} (h : Inv f8 s) (hs : step f8 s a = some s') :
    Inv f8 s' := by
  cases a with
  | mCall => exact inv_mCall h hs
  | mJoinC => exact inv_mJoinC h hs
  | mJoinW => exact inv_mJoinW h hs
  | callerDrop => exact inv_callerDrop h hs
  | callerRecv => exact inv_callerRecv h hs
  | cRecv => exact inv_cRecv h hs
  | cCancel => exact inv_cCancel h hs
  | cJoin => exact inv_cJoin h hs
  | sEmit e => exact inv_sEmit e h hs
  | sEndSelf => exact inv_sEndSelf h hs
  | sNotice => exact inv_sNotice h hs
  | sPanic => exact inv_sPanic h hs
  | sSendStop => exact inv_sSendStop h hs
  | sDropSink => exact inv_sDropSink h hs
  | sDropTx3 => exact inv_sDropTx3 h hs
  | sFinish => exact inv_sFinish h hs
  | wRecv => exact inv_wRecv h hs
  | wClosed => exact inv_wClosed h hs
  | wTail => exact inv_wTail h hs
  | tFire => exact inv_tFire h hs
  | tExit => exact inv_tExit h hs

theorem inv_reachable {f8 writer timer : Bool} {s : St μ π} (h : Reachable f8 writer timer s) : Inv f8 s := by
  induction h with
  | init => exact inv_init _ _ _
  | step a _ hs ih => exact inv_step ih hs

/-- presence of the writer is fixed by the configuration -/
theorem writer_reachable {f8 writer timer : Bool} {s : St μ π} (h : Reachable f8 writer timer s) :
    (s.w = .absent ↔ writer = false) := by
  induction h with
  | init => cases writer <;> simp [init]
  | step a _ hs ih =>
    rename_i s1 s2
    rw [← ih]
    obtain ⟨m, c, ss, w, t, sOk, cOk, art, q1, sink, rx1, q2, tx2, tx3, tt, rx2, flag, best, em, co, pr, sf, inj, re⟩ := s1
    cases a <;> (unfold step at hs; simp only at hs; (repeat' split at hs) <;> (try cases hs)) <;> simp_all

theorem runActs_reachable {f8 writer timer : Bool} : ∀ (acts : List (Act μ π)) {s s' : St μ π},
    Reachable f8 writer timer s → runActs f8 s acts = some s' → Reachable f8 writer timer s' := by
  intro acts
  induction acts with
  | nil => intro s s' h hr; simp only [runActs, Option.some.injEq] at hr; subst hr; exact h
  | cons a r ih =>
    intro s s' h hr
    unfold runActs at hr
    cases hs : step f8 s a with
    | none => rw [hs] at hr; cases hr
    | some s1 => rw [hs] at hr; exact ih (Reachable.step a h hs) hr

theorem runActs_eq_runList (f8 : Bool) : ∀ (acts : List (Act μ π)) (s : St μ π),
    runActs f8 s acts = Wee.Fair.runList (step f8) s acts := by
  intro acts
  induction acts with
  | nil => intro s; rfl
  | cons a r ih =>
    intro s
    unfold runActs Wee.Fair.runList
    cases step f8 s a with
    | none => rfl
    | some s1 => exact ih s1

/-! ## consequences of the invariant used by the property theorems -/

/-- with a writer: everything printed so far is what the writer function prints for the events received so far, the
final `bestmove` included exactly when W has ended -/
theorem printed_eq {f8 : Bool} {s : St μ π} (h : Inv f8 s) :
    s.printed = s.consumed.map Line.info ++ (if s.w = .done then tailLines (lastBest s.consumed []) else []) := by
  rw [h.printed, h.best]

/-- once W has ended it has received every emitted event and printed exactly `writerOut emitted` -/
theorem printed_done {f8 : Bool} {s : St μ π} (h : Inv f8 s) (hw : s.w = .done) :
    s.consumed = s.emitted ∧ s.q1 = [] ∧ s.printed = writerOut s.emitted := by
  have h1 := h.w_past (Or.inr hw)
  have h2 := h.data (by rw [hw]; exact fun e => nomatch e)
  rw [h1.2, List.append_nil] at h2
  refine ⟨h2, h1.2, ?_⟩
  rw [printed_eq h, if_pos hw, h2]
  rfl

/-- every step only appends to the printed lines and to the emitted events -/
theorem step_mono {f8 : Bool} {s s' : St μ π} {a : Act μ π} (hs : step f8 s a = some s') :
    (∃ l, s'.printed = s.printed ++ l) ∧ (∃ l, s'.emitted = s.emitted ++ l) := by
  obtain ⟨m, c, ss, w, t, sOk, cOk, art, q1, sink, rx1, q2, tx2, tx3, tt, rx2, flag, best, em, co, pr, sf, inj, re⟩ := s
  cases a <;> (unfold step at hs; simp only at hs; (repeat' split at hs) <;> (try cases hs)) <;>
    first
    | exact ⟨⟨[], (List.append_nil _).symm⟩, ⟨[], (List.append_nil _).symm⟩⟩
    | exact ⟨⟨_, rfl⟩, ⟨[], (List.append_nil _).symm⟩⟩
    | exact ⟨⟨[], (List.append_nil _).symm⟩, ⟨_, rfl⟩⟩

/-- after `wait_cancel` has returned no step changes the printed lines, the emitted events, the join result or M's
program counter -/
theorem returned_stable {f8 : Bool} {s s' : St μ π} {a : Act μ π} (h : Inv f8 s) (hm : s.m = .returned)
    (hs : step f8 s a = some s') :
    s'.m = .returned ∧ s'.printed = s.printed ∧ s'.emitted = s.emitted ∧ s'.artifact = s.artifact ∧
    s'.consumed = s.consumed := by
  have hc := (h.m_past (Or.inr hm)).1
  have hsd := (h.c_done hc).1
  have hw := h.m_ret hm
  obtain ⟨m, c, ss, w, t, sOk, cOk, art, q1, sink, rx1, q2, tx2, tx3, tt, rx2, flag, best, em, co, pr, sf, inj, re⟩ := s
  simp only at hm hc hsd hw
  subst hm hc hsd
  cases a <;> (unfold step at hs; simp only at hs; (repeat' split at hs) <;> (try cases hs)) <;> simp_all

/-! ## liveness: the ranking argument -/

/-- weight of S: how far it is from being joinable -/
def sW (s : St μ π) : Nat :=
  match s.s with
  | .run => 5
  | .sendStop => 4
  | .unwind => 1 + (if s.sink = true then 1 else 0) + (if s.tx3 = true then 1 else 0)
  | .done => 0
def cW : CPc → Nat | .recv => 3 | .cancel => 2 | .joinS => 1 | .done => 0
def mW : MPc → Nat | .idle => 3 | .joinC => 2 | .joinW => 1 | .returned => 0 | .aborted => 0
def wW : WPc → Nat | .loop => 2 | .tail => 1 | .done => 0 | .absent => 0
/-- first component of the rank: the program counters -/
def rank1 (s : St μ π) : Nat := sW s + cW s.c + mW s.m + wW s.w
/-- second component: the events still queued — counted only once S can no longer emit -/
def rank2 (s : St μ π) : Nat := if s.s = .run then 0 else s.q1.length

/-- the action that is enabled and makes progress while M waits in `wait_cancel` -/
def helpful (s : St μ π) : Act μ π :=
  match s.s with
  | .run => if s.flag = true then .sNotice else if s.c = .cancel then .cCancel else .cRecv
  | .sendStop => .sSendStop
  | .unwind => if s.sink = true then .sDropSink else if s.tx3 = true then .sDropTx3 else .sFinish
  | .done =>
    match s.c with
    | .recv => .cRecv
    | .cancel => .cCancel
    | .joinS => .cJoin
    | .done =>
      if s.m = .joinC then .mJoinC else
      match s.w with
      | .loop => if s.q1 = [] then .wClosed else .wRecv
      | .tail => .wTail
      | _ => .mJoinW

/-- M is inside `wait_cancel`, blocked in one of its two joins -/
def Waiting (s : St μ π) : Prop := s.m = .joinC ∨ s.m = .joinW
/-- `wait_cancel` is over: it returned (or, before the repair of F8, took the process down) -/
def Over (s : St μ π) : Prop := s.m = .returned ∨ s.m = .aborted

/-- lexicographic order on pairs of naturals -/
def lexLt (a b : Nat × Nat) : Prop := a.1 < b.1 ∨ (a.1 = b.1 ∧ a.2 < b.2)

theorem lexLt_wf : WellFounded lexLt := by
  refine Subrelation.wf ?_ (Prod.lex Nat.lt_wfRel Nat.lt_wfRel).wf
  rintro ⟨a1, a2⟩ ⟨b1, b2⟩ (h | ⟨h1, h2⟩)
  · exact Prod.Lex.left _ _ h
  · simp only at h1 h2; subst h1; exact Prod.Lex.right _ h2

/-- **no deadlock**: while M waits, the helpful action is enabled, and it is one of the guaranteed (fair) actions -/
theorem enabled_helpful {f8 : Bool} {s : St μ π} (h : Inv f8 s) (hw : Waiting s) :
    (step f8 s (helpful s)).isSome = true ∧ (helpful s).fair = true := by
  obtain ⟨h1, h2, h3, h4, h5, h6, h7, h8, h9, h10, h11, h12, h13, h14, h15, h16, h17, h18, h19, h20, h21, h22, h23⟩ := h
  obtain ⟨m, c, ss, w, t, sOk, cOk, art, q1, sink, rx1, q2, tx2, tx3, tt, rx2, flag, best, em, co, pr, sf, inj, re⟩ := s
  simp only at h1 h2 h3 h4 h5 h6 h7 h8 h9 h10 h11 h12 h13 h14 h15 h16 h17 h18 h19 h20 h21 h22 h23
  simp only [Waiting] at hw
  cases ss with
  | run => cases c <;> cases flag <;> rcases hw with rfl | rfl <;> simp_all [helpful, step, Act.fair]
  | sendStop => rcases hw with rfl | rfl <;> simp_all [helpful, step, Act.fair]
  | unwind => cases sink <;> cases tx3 <;> rcases hw with rfl | rfl <;> simp_all [helpful, step, Act.fair]
  | done =>
    cases c <;> cases w <;> cases q1 <;> rcases hw with rfl | rfl <;> simp_all [helpful, step, Act.fair] <;>
      (repeat' split) <;> rfl

/-- the conclusion of the ranking rule for one step -/
def Progress (a : Act μ π) (s s' : St μ π) : Prop :=
  Over s' ∨ (Waiting s' ∧ (lexLt (rank1 s', rank2 s') (rank1 s, rank2 s) ∨
    (a ≠ helpful s ∧ (rank1 s', rank2 s') = (rank1 s, rank2 s) ∧ helpful s' = helpful s)))

local macro "live_tac" h:ident hs:ident s:ident : tactic => `(tactic| (
  obtain ⟨h1, h2, h3, h4, h5, h6, h7, h8, h9, h10, h11, h12, h13, h14, h15, h16, h17, h18, h19, h20, h21, h22, h23⟩ := $h
  obtain ⟨m, c, ss, w, t, sOk, cOk, art, q1, sink, rx1, q2, tx2, tx3, tt, rx2, flag, best, em, co, pr, sf, inj, re⟩ := $s
  simp only at h1 h2 h3 h4 h5 h6 h7 h8 h9 h10 h11 h12 h13 h14 h15 h16 h17 h18 h19 h20 h21 h22 h23
  unfold step at $hs:ident
  simp only at $hs:ident
  (repeat' split at $hs:ident) <;> (try cases $hs:ident) <;>
    simp_all [Progress, Waiting, Over, lexLt, rank1, rank2, sW, cW, mW, wW, helpful] <;> (first | omega | grind)))

section perActionLive
variable {f8 : Bool} {s s' : St μ π}
theorem live_mCall (h : Inv f8 s) (hw : Waiting s) (hs : step f8 s .mCall = some s') : Progress .mCall s s' := by
  live_tac h hs s
theorem live_mJoinC (h : Inv f8 s) (hw : Waiting s) (hs : step f8 s .mJoinC = some s') : Progress .mJoinC s s' := by
  live_tac h hs s
theorem live_mJoinW (h : Inv f8 s) (hw : Waiting s) (hs : step f8 s .mJoinW = some s') : Progress .mJoinW s s' := by
  live_tac h hs s
theorem live_callerDrop (h : Inv f8 s) (hw : Waiting s) (hs : step f8 s .callerDrop = some s') :
    Progress .callerDrop s s' := by live_tac h hs s
theorem live_callerRecv (h : Inv f8 s) (hw : Waiting s) (hs : step f8 s .callerRecv = some s') :
    Progress .callerRecv s s' := by live_tac h hs s
theorem live_cRecv (h : Inv f8 s) (hw : Waiting s) (hs : step f8 s .cRecv = some s') : Progress .cRecv s s' := by
  live_tac h hs s
theorem live_cCancel (h : Inv f8 s) (hw : Waiting s) (hs : step f8 s .cCancel = some s') : Progress .cCancel s s' := by
  live_tac h hs s
theorem live_cJoin (h : Inv f8 s) (hw : Waiting s) (hs : step f8 s .cJoin = some s') : Progress .cJoin s s' := by
  live_tac h hs s
theorem live_sEmit (e : Ev μ π) (h : Inv f8 s) (hw : Waiting s) (hs : step f8 s (.sEmit e) = some s') :
    Progress (.sEmit e) s s' := by live_tac h hs s
theorem live_sEndSelf (h : Inv f8 s) (hw : Waiting s) (hs : step f8 s .sEndSelf = some s') :
    Progress .sEndSelf s s' := by live_tac h hs s
theorem live_sNotice (h : Inv f8 s) (hw : Waiting s) (hs : step f8 s .sNotice = some s') : Progress .sNotice s s' := by
  live_tac h hs s
theorem live_sPanic (h : Inv f8 s) (hw : Waiting s) (hs : step f8 s .sPanic = some s') : Progress .sPanic s s' := by
  live_tac h hs s
theorem live_sSendStop (h : Inv f8 s) (hw : Waiting s) (hs : step f8 s .sSendStop = some s') :
    Progress .sSendStop s s' := by live_tac h hs s
theorem live_sDropSink (h : Inv f8 s) (hw : Waiting s) (hs : step f8 s .sDropSink = some s') :
    Progress .sDropSink s s' := by live_tac h hs s
theorem live_sDropTx3 (h : Inv f8 s) (hw : Waiting s) (hs : step f8 s .sDropTx3 = some s') :
    Progress .sDropTx3 s s' := by live_tac h hs s
theorem live_sFinish (h : Inv f8 s) (hw : Waiting s) (hs : step f8 s .sFinish = some s') : Progress .sFinish s s' := by
  live_tac h hs s
theorem live_wRecv (h : Inv f8 s) (hw : Waiting s) (hs : step f8 s .wRecv = some s') : Progress .wRecv s s' := by
  live_tac h hs s
theorem live_wClosed (h : Inv f8 s) (hw : Waiting s) (hs : step f8 s .wClosed = some s') : Progress .wClosed s s' := by
  live_tac h hs s
theorem live_wTail (h : Inv f8 s) (hw : Waiting s) (hs : step f8 s .wTail = some s') : Progress .wTail s s' := by
  live_tac h hs s
theorem live_tFire (h : Inv f8 s) (hw : Waiting s) (hs : step f8 s .tFire = some s') : Progress .tFire s s' := by
  live_tac h hs s
theorem live_tExit (h : Inv f8 s) (hw : Waiting s) (hs : step f8 s .tExit = some s') : Progress .tExit s s' := by
  live_tac h hs s
end perActionLive

/-- every step taken while M waits ends the wait, lowers the rank, or (not being the helpful action) keeps rank and
helpful action -/
theorem live_step {f8 : Bool} {s s' : St μ π} {a : Act μ π} (h : Inv f8 s) (hw : Waiting s)
    (hs : step f8 s a = some s') : Progress a s s' := by
  cases a with
  | mCall => exact live_mCall h hw hs
  | mJoinC => exact live_mJoinC h hw hs
  | mJoinW => exact live_mJoinW h hw hs
  | callerDrop => exact live_callerDrop h hw hs
  | callerRecv => exact live_callerRecv h hw hs
  | cRecv => exact live_cRecv h hw hs
  | cCancel => exact live_cCancel h hw hs
  | cJoin => exact live_cJoin h hw hs
  | sEmit e => exact live_sEmit e h hw hs
  | sEndSelf => exact live_sEndSelf h hw hs
  | sNotice => exact live_sNotice h hw hs
  | sPanic => exact live_sPanic h hw hs
  | sSendStop => exact live_sSendStop h hw hs
  | sDropSink => exact live_sDropSink h hw hs
  | sDropTx3 => exact live_sDropTx3 h hw hs
  | sFinish => exact live_sFinish h hw hs
  | wRecv => exact live_wRecv h hw hs
  | wClosed => exact live_wClosed h hw hs
  | wTail => exact live_wTail h hw hs
  | tFire => exact live_tFire h hw hs
  | tExit => exact live_tExit h hw hs

/-- **`wait_cancel` ends** on every weakly fair execution: from every moment at which M is blocked in one of the two
joins, a later moment at which it has returned (or aborted, which `Inv.aborted` excludes for the repaired code) -/
theorem waiting_leadsTo_over {f8 : Bool} (e : Wee.Fair.Exec (step f8 (μ := μ) (π := π)))
    (h0 : Inv f8 (e.st 0)) (hfair : ∀ a : Act μ π, a.fair = true → Wee.Fair.WeakFair e a) :
    ∀ i, Waiting (e.st i) → ∃ j, i ≤ j ∧ Over (e.st j) := by
  have hI : ∀ i, Inv f8 (e.st i) := e.invariant (Inv f8) h0 (fun s a s' hi hs => inv_step hi hs)
  refine Wee.Fair.leadsTo_of_rank lexLt lexLt_wf (Inv f8) Waiting Over (fun s => (rank1 s, rank2 s)) helpful
    (fun a => a.fair = true) ?_ ?_ ?_ e hI hfair
  · intro s hi hw _; exact (enabled_helpful hi hw).2
  · intro s hi hw _; exact (enabled_helpful hi hw).1
  · intro s a s' hi hw _ hs; exact live_step hi hw hs

/-! ## the timer -/

/-- T's two steps: always possible in their program location, touch only T's own state and the control queue -/
theorem tFire_spec (f8 : Bool) (s : St μ π) (hm : s.m ≠ .aborted) (ht : s.t = .waiting) :
    step f8 s .tFire = some { s with t := .fired, q2 := if s.rx2 then s.q2 + 1 else s.q2 } := by
  unfold step; simp [hm, ht]

theorem tExit_spec (f8 : Bool) (s : St μ π) (hm : s.m ≠ .aborted) (ht : s.t = .fired) :
    step f8 s .tExit = some { s with t := .done, tt := false } := by
  unfold step; simp [hm, ht]

/-- a step of T never disables an action of another process -/
theorem timer_never_blocks {f8 : Bool} {s s' : St μ π} {b a : Act μ π} (hb : b.proc = .T)
    (hs : step f8 s b = some s') (ha : a.proc ≠ .T) (hen : (step f8 s a).isSome = true) :
    (step f8 s' a).isSome = true := by
  obtain ⟨m, c, ss, w, t, sOk, cOk, art, q1, sink, rx1, q2, tx2, tx3, tt, rx2, flag, best, em, co, pr, sf, inj, re⟩ := s
  have hm : m ≠ .aborted := by
    intro e; subst e; simp [step] at hs
  cases b <;> simp only [Act.proc, reduceCtorEq] at hb <;>
    (unfold step at hs; simp only [hm, if_false] at hs; split at hs) <;> (try cases hs) <;>
    (cases a <;> simp only [Act.proc, reduceCtorEq, ne_eq, not_true_eq_false, not_false_eq_true] at ha <;>
      (simp only [step, hm, if_false] at hen ⊢) <;> (repeat' split at hen) <;> simp_all <;> (try omega) <;>
      (repeat' split) <;> simp_all <;> (try omega))

/-- a state with T's own part and the number of queued `Stop`s forgotten -/
def forgetTimer (s : St μ π) : St μ π := { s with q2 := 0, t := .done, tt := false }

/-- equal up to T's own state and the number of queued `Stop`s, of which C will read at most one: either C is past its
`recv`, or both queues are non-empty -/
def StopEquiv (s u : St μ π) : Prop :=
  forgetTimer s = forgetTimer u ∧ (s.c ≠ .recv ∨ (0 < s.q2 ∧ 0 < u.q2))

theorem StopEquiv.refl {s : St μ π} (h : s.c ≠ .recv ∨ 0 < s.q2) : StopEquiv s s :=
  ⟨rfl, h.imp id (fun h => ⟨h, h⟩)⟩

theorem StopEquiv.symm {s u : St μ π} (h : StopEquiv s u) : StopEquiv u s := by
  obtain ⟨h1, h2⟩ := h
  refine ⟨h1.symm, ?_⟩
  have hc' := congrArg St.c h1
  have hc : s.c = u.c := hc'
  rcases h2 with h2 | ⟨h2, h3⟩
  · exact Or.inl (hc ▸ h2)
  · exact Or.inr ⟨h3, h2⟩

/-- `StopEquiv` states agree on everything observable: program counters of M, C, S, W, flag, channel 1, outputs -/
theorem StopEquiv.obs {s u : St μ π} (h : StopEquiv s u) :
    s.m = u.m ∧ s.c = u.c ∧ s.s = u.s ∧ s.w = u.w ∧ s.flag = u.flag ∧ s.q1 = u.q1 ∧ s.printed = u.printed ∧
    s.emitted = u.emitted ∧ s.consumed = u.consumed ∧ s.artifact = u.artifact ∧ s.sOk = u.sOk ∧ s.cOk = u.cOk := by
  obtain ⟨h1, _⟩ := h
  have e1 := congrArg St.m h1; have e2 := congrArg St.c h1; have e3 := congrArg St.s h1
  have e4 := congrArg St.w h1; have e5 := congrArg St.flag h1; have e6 := congrArg St.q1 h1
  have e7 := congrArg St.printed h1; have e8 := congrArg St.emitted h1; have e9 := congrArg St.consumed h1
  have e10 := congrArg St.artifact h1; have e11 := congrArg St.sOk h1; have e12 := congrArg St.cOk h1
  exact ⟨e1, e2, e3, e4, e5, e6, e7, e8, e9, e10, e11, e12⟩

/-- steps of T are invisible -/
theorem stopEquiv_timer {f8 : Bool} {s u s' : St μ π} {b : Act μ π} (h : StopEquiv s u) (hb : b.proc = .T)
    (hs : step f8 s b = some s') : StopEquiv s' u := by
  obtain ⟨h1, h2⟩ := h
  obtain ⟨m, c, ss, w, t, sOk, cOk, art, q1, sink, rx1, q2, tx2, tx3, tt, rx2, flag, best, em, co, pr, sf, inj, re⟩ := s
  have hm : m ≠ .aborted := by
    intro e; subst e; simp [step] at hs
  cases b <;> simp only [Act.proc, reduceCtorEq] at hb <;>
    (unfold step at hs; simp only [hm, if_false] at hs; split at hs) <;> (try cases hs) <;>
    (refine ⟨h1, ?_⟩; simp only at h2 ⊢; rcases h2 with h2 | ⟨h2, h3⟩
     · exact Or.inl h2
     · refine Or.inr ⟨?_, h3⟩; (try split) <;> omega)

/-- every step of M, C, S, W from one of two `StopEquiv` states is matched by the same action from the other -/
theorem stopEquiv_step {f8 : Bool} {s u s' : St μ π} {a : Act μ π} (h : StopEquiv s u) (ha : a.proc ≠ .T)
    (hs : step f8 s a = some s') : ∃ u', step f8 u a = some u' ∧ StopEquiv s' u' := by
  obtain ⟨h1, h2⟩ := h
  obtain ⟨m, c, ss, w, t, sOk, cOk, art, q1, sink, rx1, q2, tx2, tx3, tt, rx2, flag, best, em, co, pr, sf, inj, re⟩ := s
  obtain ⟨m', c', ss', w', t', sOk', cOk', art', q1', sink', rx1', q2', tx2', tx3', tt', rx2', flag', best', em',
    co', pr', sf', inj', re'⟩ := u
  simp only [forgetTimer, St.mk.injEq, true_and] at h1
  obtain ⟨rfl, rfl, rfl, rfl, rfl, rfl, rfl, rfl, rfl, rfl, rfl, rfl, rfl, rfl, rfl, rfl, rfl, rfl, rfl, rfl, rfl⟩ := h1
  simp only at h2
  have hm : m ≠ .aborted := by
    intro e; subst e; simp [step] at hs
  cases a <;> simp only [Act.proc, reduceCtorEq, ne_eq, not_true_eq_false, not_false_eq_true] at ha <;>
    (unfold step at hs; simp only [hm, if_false] at hs; (repeat' split at hs) <;> (try cases hs)) <;>
    simp_all [step, StopEquiv, forgetTimer] <;> (try omega)
/-! ## runs -/

theorem runActs_inv {f8 : Bool} : ∀ (acts : List (Act μ π)) {s s' : St μ π}, Inv f8 s →
    runActs f8 s acts = some s' → Inv f8 s' := by
  intro acts
  induction acts with
  | nil => intro s s' h hr; simp only [runActs, Option.some.injEq] at hr; subst hr; exact h
  | cons a r ih =>
    intro s s' h hr
    unfold runActs at hr
    cases hs : step f8 s a with
    | none => rw [hs] at hr; cases hr
    | some s1 => rw [hs] at hr; exact ih (inv_step h hs) hr

/-- along a run the printed lines and the emitted events only grow -/
theorem runActs_mono {f8 : Bool} : ∀ (acts : List (Act μ π)) {s s' : St μ π}, runActs f8 s acts = some s' →
    (∃ l, s'.printed = s.printed ++ l) ∧ (∃ l, s'.emitted = s.emitted ++ l) := by
  intro acts
  induction acts with
  | nil =>
    intro s s' hr; simp only [runActs, Option.some.injEq] at hr; subst hr
    exact ⟨⟨[], (List.append_nil _).symm⟩, ⟨[], (List.append_nil _).symm⟩⟩
  | cons a r ih =>
    intro s s' hr
    unfold runActs at hr
    cases hs : step f8 s a with
    | none => rw [hs] at hr; cases hr
    | some s1 =>
      rw [hs] at hr
      obtain ⟨⟨l1, e1⟩, ⟨l2, e2⟩⟩ := step_mono hs
      obtain ⟨⟨l3, e3⟩, ⟨l4, e4⟩⟩ := ih hr
      exact ⟨⟨l1 ++ l3, by rw [e3, e1, List.append_assoc]⟩, ⟨l2 ++ l4, by rw [e4, e2, List.append_assoc]⟩⟩

/-- after `wait_cancel` has returned, nothing of this search is printed any more, whatever the other threads still do -/
theorem runActs_returned_stable {f8 : Bool} : ∀ (acts : List (Act μ π)) {s s' : St μ π}, Inv f8 s →
    s.m = .returned → runActs f8 s acts = some s' →
    s'.m = .returned ∧ s'.printed = s.printed ∧ s'.emitted = s.emitted ∧ s'.artifact = s.artifact ∧
    s'.consumed = s.consumed := by
  intro acts
  induction acts with
  | nil =>
    intro s s' _ hm hr; simp only [runActs, Option.some.injEq] at hr; subst hr
    exact ⟨hm, rfl, rfl, rfl, rfl⟩
  | cons a r ih =>
    intro s s' h hm hr
    unfold runActs at hr
    cases hs : step f8 s a with
    | none => rw [hs] at hr; cases hr
    | some s1 =>
      rw [hs] at hr
      obtain ⟨e1, e2, e3, e4, e5⟩ := returned_stable h hm hs
      obtain ⟨g1, g2, g3, g4, g5⟩ := ih (inv_step h hs) e1 hr
      exact ⟨g1, g2.trans e2, g3.trans e3, g4.trans e4, g5.trans e5⟩

/-- `injected` records exactly whether `sPanic` was taken -/
theorem step_injected {f8 : Bool} {s s' : St μ π} {a : Act μ π} (hs : step f8 s a = some s') :
    (s'.injected = true ↔ s.injected = true ∨ a = .sPanic) := by
  obtain ⟨m, c, ss, w, t, sOk, cOk, art, q1, sink, rx1, q2, tx2, tx3, tt, rx2, flag, best, em, co, pr, sf, inj, re⟩ := s
  cases a <;> (unfold step at hs; simp only at hs; (repeat' split at hs) <;> (try cases hs)) <;> simp

theorem runActs_injected {f8 : Bool} : ∀ (acts : List (Act μ π)) {s s' : St μ π}, runActs f8 s acts = some s' →
    (s'.injected = true ↔ s.injected = true ∨ Act.sPanic ∈ acts) := by
  intro acts
  induction acts with
  | nil => intro s s' hr; simp only [runActs, Option.some.injEq] at hr; subst hr; simp
  | cons a r ih =>
    intro s s' hr
    unfold runActs at hr
    cases hs : step f8 s a with
    | none => rw [hs] at hr; cases hr
    | some s1 =>
      rw [hs] at hr
      rw [ih hr, step_injected hs, List.mem_cons]
      constructor
      · rintro ((h | h) | h)
        · exact Or.inl h
        · exact Or.inr (Or.inl h.symm)
        · exact Or.inr (Or.inr h)
      · rintro (h | h | h)
        · exact Or.inl (Or.inl h)
        · exact Or.inl (Or.inr h.symm)
        · exact Or.inr h

/-- a state in which NO action is enabled: `wait_cancel` is over and every thread has ended -/
theorem terminal_state {f8 : Bool} {s : St μ π} (h : Inv f8 s) (hno : ∀ a : Act μ π, (step f8 s a).isSome = false) :
    (s.m = .returned ∨ s.m = .aborted) ∧
    (s.m = .returned → s.c = .done ∧ s.s = .done ∧ (s.w = .done ∨ s.w = .absent) ∧ s.t = .done) := by
  have hm : s.m = .returned ∨ s.m = .aborted := by
    cases hmm : s.m with
    | idle =>
      have := hno .mCall
      simp [step, hmm] at this
    | joinC =>
      have := (enabled_helpful h (Or.inl hmm)).1
      rw [hno] at this; cases this
    | joinW =>
      have := (enabled_helpful h (Or.inr hmm)).1
      rw [hno] at this; cases this
    | returned => exact Or.inl rfl
    | aborted => exact Or.inr rfl
  refine ⟨hm, fun hr => ?_⟩
  have hc := (h.m_past (Or.inr hr)).1
  refine ⟨hc, (h.c_done hc).1, h.m_ret hr, ?_⟩
  cases ht : s.t with
  | waiting => have := hno .tFire; simp [step, hr, ht] at this
  | fired => have := hno .tExit; simp [step, hr, ht] at this
  | done => rfl
/-! ## the last `BestMove` event -/

theorem lastBestEvent_some {evs : List (Ev μ π)} {line : List μ} (h : lastBestEvent evs = some line) :
    ∃ p, Ev.best line p ∈ evs := by
  induction evs with
  | nil => cases h
  | cons e r ih =>
    cases e with
    | best l p =>
      simp only [lastBestEvent] at h
      cases hr : lastBestEvent r with
      | none =>
        rw [hr] at h
        simp only [Option.or_some, Option.getD_none, Option.some.injEq] at h
        subst h
        exact ⟨p, List.mem_cons_self⟩
      | some l' =>
        rw [hr] at h
        simp only [Option.or_some, Option.getD_some, Option.some.injEq] at h
        subst h
        obtain ⟨p', hp'⟩ := ih hr
        exact ⟨p', List.mem_cons_of_mem _ hp'⟩
    | other p =>
      simp only [lastBestEvent] at h
      obtain ⟨p', hp'⟩ := ih h
      exact ⟨p', List.mem_cons_of_mem _ hp'⟩

theorem lastBestEvent_none {evs : List (Ev μ π)} :
    lastBestEvent evs = none ↔ ∀ line p, Ev.best line p ∉ evs := by
  induction evs with
  | nil => simp [lastBestEvent]
  | cons e r ih =>
    cases e with
    | best l p =>
      simp only [lastBestEvent]
      constructor
      · intro h
        cases hr : lastBestEvent r <;> rw [hr] at h <;> simp at h
      · intro h
        exact absurd List.mem_cons_self (h l p)
    | other p =>
      simp only [lastBestEvent, ih]
      constructor
      · intro h line p' hm
        rcases List.mem_cons.1 hm with e | hm
        · cases e
        · exact h line p' hm
      · intro h line p' hm
        exact h line p' (List.mem_cons_of_mem _ hm)
/-! ## liveness without M: a search whose stop condition has occurred ends and its output is printed -/

/-- the stop condition of the search has occurred: S has left `analyze_iterative`, or the flag is set, or C is about to
set it, or a `Stop` (from M, T or S) is waiting for C -/
def Triggered (s : St μ π) : Prop :=
  s.s ≠ .run ∨ s.flag = true ∨ s.c = .cancel ∨ (s.c = .recv ∧ 0 < s.q2)

/-- the search thread is joinable and the writer (if any) has printed everything and ended — or the process is gone
(possible only before the repair of F8) -/
def Answered (s : St μ π) : Prop :=
  (s.s = .done ∧ (s.w = .done ∨ s.w = .absent)) ∨ s.m = .aborted

/-- the helpful action for `Triggered ↝ Answered`: it does not involve M -/
def helpful2 (s : St μ π) : Act μ π :=
  match s.s with
  | .run => if s.flag = true then .sNotice else if s.c = .cancel then .cCancel else .cRecv
  | .sendStop => .sSendStop
  | .unwind => if s.sink = true then .sDropSink else if s.tx3 = true then .sDropTx3 else .sFinish
  | .done =>
    match s.w with
    | .loop => if s.q1 = [] then .wClosed else .wRecv
    | _ => .wTail

theorem enabled_helpful2 {f8 : Bool} {s : St μ π} (h : Inv f8 s) (ht : Triggered s) (hq : ¬ Answered s) :
    (step f8 s (helpful2 s)).isSome = true ∧ (helpful2 s).fair = true := by
  obtain ⟨h1, h2, h3, h4, h5, h6, h7, h8, h9, h10, h11, h12, h13, h14, h15, h16, h17, h18, h19, h20, h21, h22, h23⟩ := h
  obtain ⟨m, c, ss, w, t, sOk, cOk, art, q1, sink, rx1, q2, tx2, tx3, tt, rx2, flag, best, em, co, pr, sf, inj, re⟩ := s
  simp only at h1 h2 h3 h4 h5 h6 h7 h8 h9 h10 h11 h12 h13 h14 h15 h16 h17 h18 h19 h20 h21 h22 h23
  simp only [Triggered] at ht
  simp only [Answered, not_or] at hq
  cases ss with
  | run => cases c <;> cases flag <;> simp_all [helpful2, step, Act.fair]
  | sendStop => simp_all [helpful2, step, Act.fair] <;> (repeat' split) <;> rfl
  | unwind => cases sink <;> cases tx3 <;> simp_all [helpful2, step, Act.fair]
  | done => cases w <;> cases q1 <;> simp_all [helpful2, step, Act.fair]

/-- the conclusion of the ranking rule for one step (same rank as for `wait_cancel`) -/
def Progress2 (a : Act μ π) (s s' : St μ π) : Prop :=
  Answered s' ∨ (Triggered s' ∧ (lexLt (rank1 s', rank2 s') (rank1 s, rank2 s) ∨
    (a ≠ helpful2 s ∧ (rank1 s', rank2 s') = (rank1 s, rank2 s) ∧ helpful2 s' = helpful2 s)))

local macro "live2_tac" h:ident hs:ident s:ident : tactic => `(tactic| (
  obtain ⟨h1, h2, h3, h4, h5, h6, h7, h8, h9, h10, h11, h12, h13, h14, h15, h16, h17, h18, h19, h20, h21, h22, h23⟩ := $h
  obtain ⟨m, c, ss, w, t, sOk, cOk, art, q1, sink, rx1, q2, tx2, tx3, tt, rx2, flag, best, em, co, pr, sf, inj, re⟩ := $s
  simp only at h1 h2 h3 h4 h5 h6 h7 h8 h9 h10 h11 h12 h13 h14 h15 h16 h17 h18 h19 h20 h21 h22 h23
  unfold step at $hs:ident
  simp only at $hs:ident
  (repeat' split at $hs:ident) <;> (try cases $hs:ident) <;>
    simp_all [Progress2, Triggered, Answered, lexLt, rank1, rank2, sW, cW, mW, wW, helpful2] <;> (first | omega | grind)))

section perActionLive2
variable {f8 : Bool} {s s' : St μ π}
theorem live2_mCall (h : Inv f8 s) (ht : Triggered s) (hq : ¬ Answered s) (hs : step f8 s .mCall = some s') :
    Progress2 .mCall s s' := by live2_tac h hs s
theorem live2_mJoinC (h : Inv f8 s) (ht : Triggered s) (hq : ¬ Answered s) (hs : step f8 s .mJoinC = some s') :
    Progress2 .mJoinC s s' := by live2_tac h hs s
theorem live2_mJoinW (h : Inv f8 s) (ht : Triggered s) (hq : ¬ Answered s) (hs : step f8 s .mJoinW = some s') :
    Progress2 .mJoinW s s' := by live2_tac h hs s
theorem live2_callerDrop (h : Inv f8 s) (ht : Triggered s) (hq : ¬ Answered s) (hs : step f8 s .callerDrop = some s') :
    Progress2 .callerDrop s s' := by live2_tac h hs s
theorem live2_callerRecv (h : Inv f8 s) (ht : Triggered s) (hq : ¬ Answered s) (hs : step f8 s .callerRecv = some s') :
    Progress2 .callerRecv s s' := by live2_tac h hs s
theorem live2_cRecv (h : Inv f8 s) (ht : Triggered s) (hq : ¬ Answered s) (hs : step f8 s .cRecv = some s') :
    Progress2 .cRecv s s' := by live2_tac h hs s
theorem live2_cCancel (h : Inv f8 s) (ht : Triggered s) (hq : ¬ Answered s) (hs : step f8 s .cCancel = some s') :
    Progress2 .cCancel s s' := by live2_tac h hs s
theorem live2_cJoin (h : Inv f8 s) (ht : Triggered s) (hq : ¬ Answered s) (hs : step f8 s .cJoin = some s') :
    Progress2 .cJoin s s' := by live2_tac h hs s
theorem live2_sEndSelf (h : Inv f8 s) (ht : Triggered s) (hq : ¬ Answered s) (hs : step f8 s .sEndSelf = some s') :
    Progress2 .sEndSelf s s' := by live2_tac h hs s
theorem live2_sNotice (h : Inv f8 s) (ht : Triggered s) (hq : ¬ Answered s) (hs : step f8 s .sNotice = some s') :
    Progress2 .sNotice s s' := by live2_tac h hs s
theorem live2_sPanic (h : Inv f8 s) (ht : Triggered s) (hq : ¬ Answered s) (hs : step f8 s .sPanic = some s') :
    Progress2 .sPanic s s' := by live2_tac h hs s
theorem live2_sSendStop (h : Inv f8 s) (ht : Triggered s) (hq : ¬ Answered s) (hs : step f8 s .sSendStop = some s') :
    Progress2 .sSendStop s s' := by live2_tac h hs s
theorem live2_sDropSink (h : Inv f8 s) (ht : Triggered s) (hq : ¬ Answered s) (hs : step f8 s .sDropSink = some s') :
    Progress2 .sDropSink s s' := by live2_tac h hs s
theorem live2_sDropTx3 (h : Inv f8 s) (ht : Triggered s) (hq : ¬ Answered s) (hs : step f8 s .sDropTx3 = some s') :
    Progress2 .sDropTx3 s s' := by live2_tac h hs s
theorem live2_sFinish (h : Inv f8 s) (ht : Triggered s) (hq : ¬ Answered s) (hs : step f8 s .sFinish = some s') :
    Progress2 .sFinish s s' := by live2_tac h hs s
theorem live2_wRecv (h : Inv f8 s) (ht : Triggered s) (hq : ¬ Answered s) (hs : step f8 s .wRecv = some s') :
    Progress2 .wRecv s s' := by live2_tac h hs s
theorem live2_wClosed (h : Inv f8 s) (ht : Triggered s) (hq : ¬ Answered s) (hs : step f8 s .wClosed = some s') :
    Progress2 .wClosed s s' := by live2_tac h hs s
theorem live2_wTail (h : Inv f8 s) (ht : Triggered s) (hq : ¬ Answered s) (hs : step f8 s .wTail = some s') :
    Progress2 .wTail s s' := by live2_tac h hs s
theorem live2_tFire (h : Inv f8 s) (ht : Triggered s) (hq : ¬ Answered s) (hs : step f8 s .tFire = some s') :
    Progress2 .tFire s s' := by live2_tac h hs s
theorem live2_tExit (h : Inv f8 s) (ht : Triggered s) (hq : ¬ Answered s) (hs : step f8 s .tExit = some s') :
    Progress2 .tExit s s' := by live2_tac h hs s
theorem live2_sEmit (e : Ev μ π) (h : Inv f8 s) (ht : Triggered s) (hq : ¬ Answered s)
    (hs : step f8 s (.sEmit e) = some s') : Progress2 (.sEmit e) s s' := by live2_tac h hs s
end perActionLive2

theorem live2_step {f8 : Bool} {s s' : St μ π} {a : Act μ π} (h : Inv f8 s) (ht : Triggered s) (hq : ¬ Answered s)
    (hs : step f8 s a = some s') : Progress2 a s s' := by
  cases a with
  | mCall => exact live2_mCall h ht hq hs
  | mJoinC => exact live2_mJoinC h ht hq hs
  | mJoinW => exact live2_mJoinW h ht hq hs
  | callerDrop => exact live2_callerDrop h ht hq hs
  | callerRecv => exact live2_callerRecv h ht hq hs
  | cRecv => exact live2_cRecv h ht hq hs
  | cCancel => exact live2_cCancel h ht hq hs
  | cJoin => exact live2_cJoin h ht hq hs
  | sEndSelf => exact live2_sEndSelf h ht hq hs
  | sNotice => exact live2_sNotice h ht hq hs
  | sPanic => exact live2_sPanic h ht hq hs
  | sSendStop => exact live2_sSendStop h ht hq hs
  | sDropSink => exact live2_sDropSink h ht hq hs
  | sDropTx3 => exact live2_sDropTx3 h ht hq hs
  | sFinish => exact live2_sFinish h ht hq hs
  | wRecv => exact live2_wRecv h ht hq hs
  | wClosed => exact live2_wClosed h ht hq hs
  | wTail => exact live2_wTail h ht hq hs
  | tFire => exact live2_tFire h ht hq hs
  | tExit => exact live2_tExit h ht hq hs
  | sEmit e => exact live2_sEmit e h ht hq hs

/-- **a triggered search is answered** on every weakly fair execution -/
theorem triggered_leadsTo_answered {f8 : Bool} (e : Wee.Fair.Exec (step f8 (μ := μ) (π := π)))
    (h0 : Inv f8 (e.st 0)) (hfair : ∀ a : Act μ π, a.fair = true → Wee.Fair.WeakFair e a) :
    ∀ i, Triggered (e.st i) → ∃ j, i ≤ j ∧ Answered (e.st j) := by
  have hI : ∀ i, Inv f8 (e.st i) := e.invariant (Inv f8) h0 (fun s a s' hi hs => inv_step hi hs)
  refine Wee.Fair.leadsTo_of_rank lexLt lexLt_wf (Inv f8) Triggered Answered (fun s => (rank1 s, rank2 s)) helpful2
    (fun a => a.fair = true) ?_ ?_ ?_ e hI hfair
  · intro s hi ht hq; exact (enabled_helpful2 hi ht hq).2
  · intro s hi ht hq; exact (enabled_helpful2 hi ht hq).1
  · intro s a s' hi ht hq hs; exact live2_step hi ht hq hs
end Wee.Threads
