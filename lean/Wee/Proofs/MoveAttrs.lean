import Wee.Model.Move
/-!
# Vocabulary for C20: the general move constructor and the attribute record

Definitions only (no proofs), so that the statements in `Wee/Props/C20.lean` can be read on their own.
-/
namespace Wee
namespace Move
open Gen

/-- `capture.map(|p| p.into()).unwrap_or(0)` (argument of `set_capture` / `set_promotion`) -/
def optCode : Option Piece → Nat
  | Option.none => 0
  | some p => p.code

/-- the double-step flag exactly as `Move::by_moving` derives it:
`piece == Pawn && origin.rank().abs_distance_to(dest.rank()) > 1` -/
def dbl (p : Piece) (o d : Nat) : Bool := p == .pawn && decide (absDist (rankOf o) (rankOf d) > 1)

/-- General constructor: `by_moving` followed by every setter the other public constructors use
(`set_capture`, `set_promotion`, `set_en_passant`, `set_castle_queenside`, `set_castle_kingside`).
All six public constructors are instances of it (`byMoving_eq_mk` … `byCastling_eq_mk`). -/
def mk (c : Color) (p : Piece) (o d : Nat) (cap pr : Option Piece) (ep cq ck : Bool) : Move :=
  let b := byMoving c p o d
  let b := store b CAPTURE_OFFSET CAPTURE_MASK (optCode cap)
  let b := store b PROMOTION_OFFSET PROMOTION_MASK (optCode pr)
  let b := setBit b EN_PASSANT_OFFSET ep
  let b := setBit b CASTLE_QUEENSIDE_OFFSET cq
  setBit b CASTLE_KINGSIDE_OFFSET ck

/-- Everything the public getters of `Move` report.  `piece` is `Move::piece` with its `unwrap`
made explicit (`some p` = the getter returns `p` without panicking). -/
structure Attrs where
  color : Color
  piece : Option Piece
  origin : Nat
  dest : Nat
  capture : Option Piece
  promotion : Option Piece
  enPassant : Bool
  doublePawn : Bool
  castleQ : Bool
  castleK : Bool
deriving DecidableEq, Repr

/-- read all getters -/
def attrs (m : Move) : Attrs :=
  { color := color m, piece := piece? m, origin := origin m, dest := dest m, capture := capture m,
    promotion := promotion m, enPassant := isEnPassant m, doublePawn := isDoublePawn m,
    castleQ := castleQ m, castleK := castleK m }

end Move
end Wee
