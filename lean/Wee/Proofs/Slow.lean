import Wee.Proofs.Slide
/-!
# `compute_*_attacks_unoptimized` equals the ray walk; soundness of the fast per-square checker

* `rookSlow_eq_walk` / `bishopSlow_eq_walk` : the transcription of `compute_rook_attacks_unoptimized`
  (rays + `first_one`/`last_one` cut) equals the four ray walks, for every blocker set, given the per-ray
  subset check `rookRaysOK sq` (part of the per-square kernel check) and the disjointness of the rays;
* `checkRookFast_sound` : `checkRookFast sq m b = true → checkRook sq m b = true` for `sq < 64`.
-/
namespace Wee

/-! ## list forms of deposit and walk -/

theorem deposit_eq_depositL (mask : UInt64) : ∀ fuel idx b,
    deposit idx mask fuel b = depositL idx ((List.range' b fuel).filter (test mask)) := by
  intro fuel
  induction fuel with
  | zero => intro idx b; simp [deposit, depositL]
  | succ f ih =>
    intro idx b
    rw [deposit, List.range'_succ, List.filter_cons]
    by_cases hm : test mask b = true
    · rw [if_pos hm, if_pos hm, depositL, ih]
    · rw [if_neg hm, if_neg hm, ih]

theorem blockersFromIndex_eq_depositL (b : Nat) (mask : UInt64) :
    blockersFromIndex b mask = depositL b (bitsOf mask) := by
  rw [blockersFromIndex, deposit_eq_depositL, bitsOf, List.range_eq_range']

theorem walk_eq_walkL (occ : UInt64) (df dr : Int) : ∀ fuel sq,
    walk occ df dr fuel sq = walkL occ (rayList df dr fuel sq) := by
  intro fuel
  induction fuel with
  | zero => intro sq; rfl
  | succ f ih =>
    intro sq
    unfold walk rayList
    cases offset sq df dr with
    | none => rfl
    | some n => simp only [walkL, ih]

theorem rookWalk_eq_refL (sq : Nat) (occ : UInt64) : rookWalk sq occ = rookRefL sq occ := by
  simp only [rookWalk, rookRefL, refL, walk_eq_walkL]

theorem bishopWalk_eq_refL (sq : Nat) (occ : UInt64) : bishopWalk sq occ = bishopRefL sq occ := by
  simp only [bishopWalk, bishopRefL, refL, walk_eq_walkL]

theorem buildF_eq (slow ref : UInt64 → UInt64) (h : ∀ x, slow x = ref x) (mask magic : UInt64) (bits : Nat) :
    ∀ n b t, buildF ref (bitsOf mask) magic bits n b t = buildTable slow mask magic bits n b t := by
  intro n
  induction n with
  | zero => intro b t; rfl
  | succ n ih =>
    intro b t
    simp only [buildF, buildTable, ih, blockersFromIndex_eq_depositL, h]

theorem checkF_eq (table size : Nat) (ref : UInt64 → UInt64) (mask magic : UInt64) (bits : Nat) :
    ∀ n b, checkF table size ref (bitsOf mask) magic bits n b = checkLoop table size ref mask magic bits n b := by
  intro n
  induction n with
  | zero => intro b; rfl
  | succ n ih =>
    intro b
    simp only [checkF, checkLoop, ih, blockersFromIndex_eq_depositL]

/-! ## rays -/

theorem test_rayFrom (df dr : Int) : ∀ fuel sq t,
    test (rayFrom df dr fuel sq) t = (rayList df dr fuel sq).contains t := by
  intro fuel
  induction fuel with
  | zero => intro sq t; simp [rayFrom, rayList]
  | succ f ih =>
    intro sq t
    unfold rayFrom rayList
    cases hoff : offset sq df dr with
    | none => simp
    | some n =>
      simp only
      rw [test_or, test_bit n t (offset_lt hoff), ih]
      simp [eq_comm]

theorem and_not_zero (x : UInt64) : x &&& ~~~(0 : UInt64) = x := by
  apply ext; intro n hn
  rw [test_and, test_not _ _ hn, test_zero]; simp

theorem cutRay_eq (d : Dir) (up : Bool) (sq : Nat) (bl acc : UInt64) :
    cutRay d up sq bl acc = (acc ||| ray d sq) &&& ~~~(cutOf d up sq bl) := by
  unfold cutRay cutOf
  simp only
  cases (if up = true then firstOne (ray d sq &&& bl) else lastOne (ray d sq &&& bl)) with
  | none => simp only; rw [and_not_zero]
  | some b => rfl

theorem cutOf_and (d : Dir) (up : Bool) (sq : Nat) (bl : UInt64) :
    cutOf d up sq (bl &&& ray d sq) = cutOf d up sq bl := by
  have : ray d sq &&& (bl &&& ray d sq) = ray d sq &&& bl := by
    apply ext; intro n _
    simp only [test_and]
    cases test (ray d sq) n <;> cases test bl n <;> rfl
  unfold cutOf
  rw [this]

theorem rayLoop_sound (d : Dir) (df dr : Int) (up : Bool) (sq : Nat) (mbits : List Nat) :
    ∀ n i₀, rayLoop d df dr up sq mbits n i₀ = true →
      ∀ i, i₀ ≤ i → i < i₀ + n →
        ray d sq &&& ~~~(cutOf d up sq (depositL i mbits)) = walkL (depositL i mbits) (rayList df dr 8 sq) ∧
        cutOf d up sq (depositL i mbits) &&& ~~~(ray d sq) = 0 := by
  intro n
  induction n with
  | zero => intro i₀ _ i h1 h2; omega
  | succ n ih =>
    intro i₀ h i h1 h2
    simp only [rayLoop, Bool.and_eq_true, beq_iff_eq] at h
    by_cases hi : i = i₀
    · subst hi; exact h.1
    · exact ih (i₀+1) h.2 i (by omega) (by omega)

/-- one direction of the slow computation, for EVERY blocker set -/
theorem rayOK_sound (d : Dir) (df dr : Int) (up : Bool) (sq : Nat)
    (hray : ray d sq = rayFrom df dr 8 sq) (h : rayOK d df dr up sq = true) (bl : UInt64) :
    ray d sq &&& ~~~(cutOf d up sq bl) = walk bl df dr 8 sq ∧
    cutOf d up sq bl &&& ~~~(ray d sq) = 0 := by
  have hlt : extract bl (ray d sq) 64 0 < 0 + 2 ^ popcount (ray d sq) := by
    rw [Nat.zero_add]; exact extract_lt_popcount bl (ray d sq)
  have := rayLoop_sound d df dr up sq _ _ 0 h (extract bl (ray d sq) 64 0) (Nat.zero_le _) hlt
  rw [← blockersFromIndex_eq_depositL, deposit_extract, cutOf_and, ← walk_eq_walkL] at this
  refine ⟨?_, this.2⟩
  rw [this.1]
  apply walk_congr
  intro n hn _
  have hr : test (ray d sq) n = true := by
    rw [hray, test_rayFrom]; simpa using hn
  rw [test_and, hr, Bool.and_true]

/-! ## assembling the four directions -/

theorem slow_bool_rook : ∀ (r1 r2 r3 r4 c1 c2 c3 c4 : Bool),
    (r1 && r2) = false → (r1 && r3) = false → (r1 && r4) = false →
    (r2 && r3) = false → (r2 && r4) = false → (r3 && r4) = false →
    (c1 && !r1) = false → (c2 && !r2) = false → (c3 && !r3) = false → (c4 && !r4) = false →
    ((((((((false || r1) && !c1) || r2) && !c2) || r3) && !c3) || r4) && !c4) =
      ((r1 && !c1) || (r2 && !c2) || (r4 && !c4) || (r3 && !c3)) := by
  decide

theorem slow_bool_bishop : ∀ (r1 r2 r3 r4 c1 c2 c3 c4 : Bool),
    (r1 && r2) = false → (r1 && r3) = false → (r1 && r4) = false →
    (r2 && r3) = false → (r2 && r4) = false → (r3 && r4) = false →
    (c1 && !r1) = false → (c2 && !r2) = false → (c3 && !r3) = false → (c4 && !r4) = false →
    ((((((((false || r1) && !c1) || r2) && !c2) || r3) && !c3) || r4) && !c4) =
      ((r3 && !c3) || (r1 && !c1) || (r4 && !c4) || (r2 && !c2)) := by
  decide

/-- the four rook rays from one square are pairwise disjoint (order N, S, W, E) -/
theorem rookRays_disjoint : ∀ sq : Fin 64,
    (ray .n sq &&& ray .s sq == 0 && ray .n sq &&& ray .w sq == 0 && ray .n sq &&& ray .e sq == 0 &&
     ray .s sq &&& ray .w sq == 0 && ray .s sq &&& ray .e sq == 0 && ray .w sq &&& ray .e sq == 0) = true := by
  decide +kernel

/-- the four bishop rays from one square are pairwise disjoint (order NW, SW, NE, SE) -/
theorem bishopRays_disjoint : ∀ sq : Fin 64,
    (ray .nw sq &&& ray .sw sq == 0 && ray .nw sq &&& ray .ne sq == 0 && ray .nw sq &&& ray .se sq == 0 &&
     ray .sw sq &&& ray .ne sq == 0 && ray .sw sq &&& ray .se sq == 0 && ray .ne sq &&& ray .se sq == 0) = true := by
  decide +kernel

theorem test_and_eq_zero {a b : UInt64} (h : a &&& b = 0) (t : Nat) : (test a t && test b t) = false := by
  rw [← test_and, h, test_zero]

theorem test_and_not_eq_zero {a b : UInt64} (h : a &&& ~~~b = 0) (t : Nat) (ht : t < 64) :
    (test a t && !test b t) = false := by
  rw [← test_not _ _ ht, ← test_and, h, test_zero]

theorem test_and_not {a b c : UInt64} (h : a &&& ~~~b = c) (t : Nat) (ht : t < 64) :
    test c t = (test a t && !test b t) := by
  rw [← test_not _ _ ht, ← test_and, h]

theorem ray_n (sq : Nat) : ray .n sq = rayFrom 0 1 8 sq := rfl
theorem ray_s (sq : Nat) : ray .s sq = rayFrom 0 (-1) 8 sq := rfl
theorem ray_e (sq : Nat) : ray .e sq = rayFrom 1 0 8 sq := rfl
theorem ray_w (sq : Nat) : ray .w sq = rayFrom (-1) 0 8 sq := rfl
theorem ray_ne (sq : Nat) : ray .ne sq = rayFrom 1 1 8 sq := rfl
theorem ray_nw (sq : Nat) : ray .nw sq = rayFrom (-1) 1 8 sq := rfl
theorem ray_se (sq : Nat) : ray .se sq = rayFrom 1 (-1) 8 sq := rfl
theorem ray_sw (sq : Nat) : ray .sw sq = rayFrom (-1) (-1) 8 sq := rfl

/-- `compute_rook_attacks_unoptimized(sq, blockers)` is the union of the four ray walks, for every
blocker set -/
theorem rookSlow_eq_walk (sq : Nat) (hsq : sq < 64) (hr : rookRaysOK sq = true) (bl : UInt64) :
    rookSlow sq bl = rookWalk sq bl := by
  simp only [rookRaysOK, Bool.and_eq_true] at hr
  obtain ⟨⟨⟨hN, hS⟩, hW⟩, hE⟩ := hr
  have hN := rayOK_sound .n 0 1 true sq (ray_n sq) hN bl
  have hS := rayOK_sound .s 0 (-1) false sq (ray_s sq) hS bl
  have hW := rayOK_sound .w (-1) 0 false sq (ray_w sq) hW bl
  have hE := rayOK_sound .e 1 0 true sq (ray_e sq) hE bl
  have hd := rookRays_disjoint ⟨sq, hsq⟩
  simp only [Bool.and_eq_true, beq_iff_eq] at hd
  obtain ⟨⟨⟨⟨⟨d12, d13⟩, d14⟩, d23⟩, d24⟩, d34⟩ := hd
  apply ext
  intro t ht
  simp only [rookSlow, rookWalk, cutRay_eq, test_and, test_or, test_not _ _ ht, test_zero,
    test_and_not hN.1 t ht, test_and_not hS.1 t ht, test_and_not hW.1 t ht, test_and_not hE.1 t ht]
  exact slow_bool_rook _ _ _ _ _ _ _ _
    (test_and_eq_zero d12 t) (test_and_eq_zero d13 t) (test_and_eq_zero d14 t)
    (test_and_eq_zero d23 t) (test_and_eq_zero d24 t) (test_and_eq_zero d34 t)
    (test_and_not_eq_zero hN.2 t ht) (test_and_not_eq_zero hS.2 t ht)
    (test_and_not_eq_zero hW.2 t ht) (test_and_not_eq_zero hE.2 t ht)

/-- `compute_bishop_attacks_unoptimized(sq, blockers)` is the union of the four diagonal ray walks -/
theorem bishopSlow_eq_walk (sq : Nat) (hsq : sq < 64) (hr : bishopRaysOK sq = true) (bl : UInt64) :
    bishopSlow sq bl = bishopWalk sq bl := by
  simp only [bishopRaysOK, Bool.and_eq_true] at hr
  obtain ⟨⟨⟨hNW, hSW⟩, hNE⟩, hSE⟩ := hr
  have hNW := rayOK_sound .nw (-1) 1 true sq (ray_nw sq) hNW bl
  have hSW := rayOK_sound .sw (-1) (-1) false sq (ray_sw sq) hSW bl
  have hNE := rayOK_sound .ne 1 1 true sq (ray_ne sq) hNE bl
  have hSE := rayOK_sound .se 1 (-1) false sq (ray_se sq) hSE bl
  have hd := bishopRays_disjoint ⟨sq, hsq⟩
  simp only [Bool.and_eq_true, beq_iff_eq] at hd
  obtain ⟨⟨⟨⟨⟨d12, d13⟩, d14⟩, d23⟩, d24⟩, d34⟩ := hd
  apply ext
  intro t ht
  simp only [bishopSlow, bishopWalk, cutRay_eq, test_and, test_or, test_not _ _ ht, test_zero,
    test_and_not hNW.1 t ht, test_and_not hSW.1 t ht, test_and_not hNE.1 t ht, test_and_not hSE.1 t ht]
  exact slow_bool_bishop _ _ _ _ _ _ _ _
    (test_and_eq_zero d12 t) (test_and_eq_zero d13 t) (test_and_eq_zero d14 t)
    (test_and_eq_zero d23 t) (test_and_eq_zero d24 t) (test_and_eq_zero d34 t)
    (test_and_not_eq_zero hNW.2 t ht) (test_and_not_eq_zero hSW.2 t ht)
    (test_and_not_eq_zero hNE.2 t ht) (test_and_not_eq_zero hSE.2 t ht)

/-! ## the fast checker implies the direct one -/

theorem checkRookFast_sound (sq : Nat) (hsq : sq < 64) (magic : UInt64) (bits : Nat)
    (h : checkRookFast sq magic bits = true) : checkRook sq magic bits = true := by
  simp only [checkRookFast, Bool.and_eq_true] at h
  obtain ⟨⟨⟨hrays, hb⟩, hpc⟩, hchk⟩ := h
  have hfun : (rookWalk sq) = (rookRefL sq) := funext (rookWalk_eq_refL sq)
  rw [buildF_eq (rookSlow sq) (rookRefL sq)
    (fun x => by rw [rookSlow_eq_walk sq hsq hrays, rookWalk_eq_refL]), checkF_eq, ← hfun] at hchk
  simp only [checkRook, rookTableOf, Bool.and_eq_true]
  exact ⟨⟨hb, hpc⟩, hchk⟩

theorem checkBishopFast_sound (sq : Nat) (hsq : sq < 64) (magic : UInt64) (bits : Nat)
    (h : checkBishopFast sq magic bits = true) : checkBishop sq magic bits = true := by
  simp only [checkBishopFast, Bool.and_eq_true] at h
  obtain ⟨⟨⟨hrays, hb⟩, hpc⟩, hchk⟩ := h
  have hfun : (bishopWalk sq) = (bishopRefL sq) := funext (bishopWalk_eq_refL sq)
  rw [buildF_eq (bishopSlow sq) (bishopRefL sq)
    (fun x => by rw [bishopSlow_eq_walk sq hsq hrays, bishopWalk_eq_refL]), checkF_eq, ← hfun] at hchk
  simp only [checkBishop, bishopTableOf, Bool.and_eq_true]
  exact ⟨⟨hb, hpc⟩, hchk⟩

end Wee
