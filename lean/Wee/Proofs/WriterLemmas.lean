import Wee.Model.Search
import Wee.Model.Uci
import Wee.Proofs.UciLemmas
import Wee.Proofs.SearchCtl
import Wee.Proofs.SearchReport
/-!
# The UCI writer thread (mirror of the `write_handle` closure of `Search::spawn`, `uci.rs`) and the refinement of
the session model's marks by real output lines

```rust
let write_handle = thread::spawn(move || {
    let mut best_line: Vec<Move> = vec![];
    while let Ok(event) = receiver.recv() {
        match event {
            StatusEvent::BestMove { line, evaluation } => {
                println!("info score cp {}", evaluation.cp());
                println!("info pv {}", into_notation::<_, Lan>(&&line[..]));
                best_line = line;
            }
            StatusEvent::Progress { depth, nodes_searched, .. } => { … println!("info time {:.0} depth {} nps {:.0} nodes {}", …); }
            StatusEvent::Warning { message, .. } => { println!("info string {}", message); }
        }
    }
    if let Some(m) = best_line.first() {
        println!("bestmove {}{}{}", m.origin(), m.destination(), /* lower-case promotion letter or "" */);
    }
});
```

The receiver's only sender (`sink = tx1`) is owned by the closure that `analyze_iterative` calls for every `StatusEvent`,
and is dropped when the search thread ends; so the writer sees exactly the events of the search, in emission order, and
then `recv()` fails.  `writerLoop` is that loop as a function of the event list, `writerLines` the whole closure.

This file holds the definitions (there is no `Wee/Model/Writer.lean` yet; they are executable and could be moved there
unchanged) and the structural lemmas; the property theorems are in `Wee/Props/C07Compose.lean`.
-/
namespace Wee.Uci
open Wee Wee.Search

/-- one line on standard output -/
inductive WLine
  | infoScore (cp : Eval)          -- `info score cp <evaluation.cp()>`
  | infoPv (pv : List String)      -- `info pv <lan> <lan> …` (the tokens are joined by single blanks)
  | infoTime (depth nodes : Nat)   -- `info time <ms> depth <d> nps <n> nodes <nodes>` — the two wall-clock numbers are abstracted
  | infoWarning                    -- `info string <message>` of a `Warning` event (table saturation)
  | infoBook                       -- `info string book move: <m>` of the book arm of `go` (`Display` of the move abstracted)
  | bestmove (tok : String)        -- `bestmove <tok>`
  | loop (s : String)              -- a line the command loop itself prints (`Out.line s`: `readyok`, `uciok`, `info string …`)
deriving DecidableEq, Repr

def WLine.isBestmove : WLine → Bool
  | .bestmove _ => true
  | _ => false

/-- the `bestmove` tokens of a list of lines, in order -/
def bestmoves : List WLine → List String
  | [] => []
  | .bestmove t :: r => t :: bestmoves r
  | _ :: r => bestmoves r

/-- the `while let Ok(event) = receiver.recv()` loop: the lines printed for the events, and the final value of the local
variable `best_line` (second argument: its current value) -/
def writerLoop : List Event → List Move → List WLine × List Move
  | [], bl => ([], bl)
  | .best ev line :: r, _ =>
    let (ls, bl') := writerLoop r line      -- `best_line = line`
    (.infoScore ev :: .infoPv (line.map Move.lan) :: ls, bl')
  | .progress d n :: r, bl =>
    let (ls, bl') := writerLoop r bl
    (.infoTime d n :: ls, bl')
  | .warning :: r, bl =>
    let (ls, bl') := writerLoop r bl
    (.infoWarning :: ls, bl')

/-- `if let Some(m) = best_line.first() { println!("bestmove {}{}{}", …) }` — the text is `Lan::into_notation(m)`
(`C12_lan_text`: origin square, destination square, lower-case promotion letter) -/
def writerTail (bestLine : List Move) : List WLine :=
  match bestLine.head? with
  | some m => [.bestmove (Move.lan m)]
  | Option.none => []

/-- **the writer thread** as a function of the events of the search (in emission order) -/
def writerLines (evs : List Event) : List WLine :=
  (writerLoop evs []).1 ++ writerTail (writerLoop evs []).2

/-! ## the two components of the loop -/

/-- the info lines -/
def writerInfo : List Event → List WLine
  | [] => []
  | .best ev line :: r => .infoScore ev :: .infoPv (line.map Move.lan) :: writerInfo r
  | .progress d n :: r => .infoTime d n :: writerInfo r
  | .warning :: r => .infoWarning :: writerInfo r

/-- the final `best_line`: the line of the LAST `BestMove` event, the initial value if there is none -/
def lastLine : List Event → List Move → List Move
  | [], bl => bl
  | .best _ line :: r, _ => lastLine r line
  | .progress _ _ :: r, bl => lastLine r bl
  | .warning :: r, bl => lastLine r bl

theorem writerLoop_eq (evs : List Event) : ∀ bl, writerLoop evs bl = (writerInfo evs, lastLine evs bl) := by
  induction evs with
  | nil => intro bl; rfl
  | cons e r ih =>
    intro bl
    cases e <;> simp only [writerLoop, writerInfo, lastLine, ih]

theorem writerLines_eq (evs : List Event) : writerLines evs = writerInfo evs ++ writerTail (lastLine evs []) := by
  unfold writerLines; rw [writerLoop_eq]

/-- the `BestMove` reports of an event list, in order (same function as `C06.bestReports`) -/
def reports (evs : List Event) : List (Eval × List Move) :=
  evs.filterMap fun e => match e with | .best ev line => some (ev, line) | _ => Option.none

theorem reports_cons_best (ev : Eval) (line : List Move) (r : List Event) :
    reports (.best ev line :: r) = (ev, line) :: reports r := rfl
theorem reports_cons_progress (d n : Nat) (r : List Event) : reports (.progress d n :: r) = reports r := rfl
theorem reports_cons_warning (r : List Event) : reports (.warning :: r) = reports r := rfl

theorem mem_reports {evs : List Event} {ev : Eval} {line : List Move} :
    (ev, line) ∈ reports evs ↔ Event.best ev line ∈ evs := by
  induction evs with
  | nil => simp [reports]
  | cons e r ih =>
    cases e with
    | best ev' line' =>
      rw [reports_cons_best, List.mem_cons, List.mem_cons, ih]
      constructor
      · rintro (h | h)
        · cases h; exact Or.inl rfl
        · exact Or.inr h
      · rintro (h | h)
        · cases h; exact Or.inl rfl
        · exact Or.inr h
    | progress d n =>
      rw [reports_cons_progress, ih, List.mem_cons]
      exact ⟨Or.inr, fun h => h.resolve_left (fun e => nomatch e)⟩
    | warning =>
      rw [reports_cons_warning, ih, List.mem_cons]
      exact ⟨Or.inr, fun h => h.resolve_left (fun e => nomatch e)⟩

/-- `best_line` at the end of the loop is the line of the last report -/
theorem lastLine_eq (evs : List Event) : ∀ bl, lastLine evs bl = ((reports evs).getLast?.map (·.2)).getD bl := by
  induction evs with
  | nil => intro bl; rfl
  | cons e r ih =>
    intro bl
    cases e with
    | best ev line =>
      rw [lastLine, ih, reports_cons_best, List.getLast?_cons]
      cases (reports r).getLast? <;> rfl
    | progress d n => rw [lastLine, ih, reports_cons_progress]
    | warning => rw [lastLine, ih, reports_cons_warning]

/-- either nothing was reported and `best_line` still has its initial value, or it is the line of a report -/
theorem lastLine_cases (evs : List Event) (bl : List Move) :
    (lastLine evs bl = bl ∧ ∀ ev line, Event.best ev line ∉ evs) ∨
    ∃ ev, (reports evs).getLast? = some (ev, lastLine evs bl) ∧ Event.best ev (lastLine evs bl) ∈ evs := by
  rw [lastLine_eq]
  cases h : (reports evs).getLast? with
  | none =>
    left
    refine ⟨rfl, fun ev line hm => ?_⟩
    rw [List.getLast?_eq_none_iff] at h
    have := mem_reports.2 hm
    rw [h] at this; cases this
  | some p =>
    right
    refine ⟨p.1, rfl, ?_⟩
    exact mem_reports.1 (List.mem_of_getLast? h)

/-! ## `bestmove` lines -/

theorem bestmoves_append (a b : List WLine) : bestmoves (a ++ b) = bestmoves a ++ bestmoves b := by
  induction a with
  | nil => rfl
  | cons x r ih => cases x <;> simp only [List.cons_append, bestmoves, ih]

theorem mem_bestmoves {ls : List WLine} {t : String} : t ∈ bestmoves ls ↔ WLine.bestmove t ∈ ls := by
  induction ls with
  | nil => simp [bestmoves]
  | cons x r ih =>
    cases x <;> simp only [bestmoves, List.mem_cons, ih, reduceCtorEq, false_or, WLine.bestmove.injEq]

theorem bestmoves_length (ls : List WLine) : (bestmoves ls).length = ls.countP WLine.isBestmove := by
  induction ls with
  | nil => rfl
  | cons x r ih => cases x <;> simp [bestmoves, WLine.isBestmove, List.countP_cons, ih]

/-- the event loop never prints a `bestmove` -/
theorem bestmoves_writerInfo (evs : List Event) : bestmoves (writerInfo evs) = [] := by
  induction evs with
  | nil => rfl
  | cons e r ih => cases e <;> simp only [writerInfo, bestmoves, ih]

theorem bestmoves_writerTail (bl : List Move) : bestmoves (writerTail bl) = (bl.head?.map Move.lan).toList := by
  unfold writerTail
  cases bl.head? <;> rfl

/-- **all `bestmove` lines of the writer**: none, or the one for the head of the final `best_line` -/
theorem bestmoves_writerLines (evs : List Event) :
    bestmoves (writerLines evs) = ((lastLine evs []).head?.map Move.lan).toList := by
  rw [writerLines_eq, bestmoves_append, bestmoves_writerInfo, bestmoves_writerTail, List.nil_append]

/-- a `bestmove` line of the writer is its last line -/
theorem bestmove_is_last (evs : List Event) (t : String) (h : WLine.bestmove t ∈ writerLines evs) :
    (writerLines evs).getLast? = some (.bestmove t) := by
  rw [writerLines_eq] at h ⊢
  rcases List.mem_append.1 h with h | h
  · have := mem_bestmoves.2 h
    rw [bestmoves_writerInfo] at this; cases this
  · unfold writerTail at h ⊢
    cases hh : (lastLine evs []).head? with
    | none => rw [hh] at h; cases h
    | some m =>
      rw [hh] at h
      simp only [List.mem_singleton, WLine.bestmove.injEq] at h
      subst h
      simp

/-- every `info pv` line of the writer carries the coordinate texts of a reported line -/
theorem infoPv_mem_writerLines {evs : List Event} {pv : List String} (h : WLine.infoPv pv ∈ writerLines evs) :
    ∃ ev line, Event.best ev line ∈ evs ∧ pv = line.map Move.lan := by
  rw [writerLines_eq] at h
  rcases List.mem_append.1 h with h1 | h1
  · clear h
    have h := h1
    clear h1
    induction evs with
    | nil => cases h
    | cons e r ih =>
      cases e with
      | best ev line =>
        simp only [writerInfo, List.mem_cons, reduceCtorEq, false_or, WLine.infoPv.injEq] at h
        rcases h with h | h
        · exact ⟨ev, line, List.mem_cons_self, h⟩
        · obtain ⟨ev', line', hm, e⟩ := ih h; exact ⟨ev', line', List.mem_cons_of_mem _ hm, e⟩
      | progress d n =>
        simp only [writerInfo, List.mem_cons, reduceCtorEq, false_or] at h
        obtain ⟨ev', line', hm, e⟩ := ih h; exact ⟨ev', line', List.mem_cons_of_mem _ hm, e⟩
      | warning =>
        simp only [writerInfo, List.mem_cons, reduceCtorEq, false_or] at h
        obtain ⟨ev', line', hm, e⟩ := ih h; exact ⟨ev', line', List.mem_cons_of_mem _ hm, e⟩
  · unfold writerTail at h1
    cases hh : (lastLine evs []).head? with
    | none => rw [hh] at h1; cases h1
    | some m => rw [hh] at h1; simp at h1

/-- every report is printed: its score and its line -/
theorem report_printed {evs : List Event} {ev : Eval} {line : List Move} (h : Event.best ev line ∈ evs) :
    WLine.infoScore ev ∈ writerLines evs ∧ WLine.infoPv (line.map Move.lan) ∈ writerLines evs := by
  rw [writerLines_eq]
  suffices hs : WLine.infoScore ev ∈ writerInfo evs ∧ WLine.infoPv (line.map Move.lan) ∈ writerInfo evs from
    ⟨List.mem_append_left _ hs.1, List.mem_append_left _ hs.2⟩
  induction evs with
  | nil => cases h
  | cons e r ih =>
    rcases List.mem_cons.1 h with rfl | h
    · simp [writerInfo]
    · obtain ⟨h1, h2⟩ := ih h
      cases e <;> simp only [writerInfo, List.mem_cons] <;> exact ⟨by simp [h1], by simp [h2]⟩

/-- the writer's `bestmove` comes from a report: the head of the LAST reported line -/
theorem bestmove_from_report {evs : List Event} {t : String} (h : WLine.bestmove t ∈ writerLines evs) :
    ∃ ev line m, (reports evs).getLast? = some (ev, line) ∧ Event.best ev line ∈ evs ∧ line.head? = some m ∧
      t = Move.lan m := by
  have h' := mem_bestmoves.2 h
  rw [bestmoves_writerLines] at h'
  cases hh : (lastLine evs []).head? with
  | none => rw [hh] at h'; cases h'
  | some m =>
    rw [hh] at h'
    simp only [Option.map_some, Option.toList_some, List.mem_singleton] at h'
    rcases lastLine_cases evs [] with ⟨h0, _⟩ | ⟨ev, h1, h2⟩
    · rw [h0] at hh; cases hh
    · exact ⟨ev, _, m, h1, h2, hh, h'⟩

/-- if the last report has a non-empty line, exactly that line's first move is printed -/
theorem bestmoves_of_last_report {evs : List Event} {ev : Eval} {line : List Move} {m : Move}
    (h : (reports evs).getLast? = some (ev, line)) (hm : line.head? = some m) :
    bestmoves (writerLines evs) = [Move.lan m] := by
  rw [bestmoves_writerLines, lastLine_eq, h]
  simp [hm]

/-- no report, no `bestmove` -/
theorem bestmoves_of_no_report {evs : List Event} (h : ∀ ev line, Event.best ev line ∉ evs) :
    bestmoves (writerLines evs) = [] := by
  rw [bestmoves_writerLines]
  rcases lastLine_cases evs [] with ⟨h0, _⟩ | ⟨ev, _, h2⟩
  · rw [h0]; rfl
  · exact absurd h2 (h _ _)

/-- **exactly one `bestmove` iff something was reported**, provided reported lines are never empty -/
theorem bestmoves_length_one_iff {evs : List Event} (hne : ∀ ev line, Event.best ev line ∈ evs → line ≠ []) :
    (bestmoves (writerLines evs)).length = 1 ↔ ∃ ev line, Event.best ev line ∈ evs := by
  constructor
  · intro h
    rcases lastLine_cases evs [] with ⟨_, h0⟩ | ⟨ev, _, h2⟩
    · rw [bestmoves_of_no_report h0] at h; cases h
    · exact ⟨ev, _, h2⟩
  · rintro ⟨ev, line, hm⟩
    rcases lastLine_cases evs [] with ⟨_, h0⟩ | ⟨ev', h1, h2⟩
    · exact absurd hm (h0 _ _)
    · cases hl : lastLine evs [] with
      | nil => exact absurd hl (hne _ _ h2)
      | cons m rest => rw [bestmoves_of_last_report h1 (by rw [hl]; rfl)]; rfl

theorem bestmoves_length_le_one (evs : List Event) : (bestmoves (writerLines evs)).length ≤ 1 := by
  rw [bestmoves_writerLines]
  cases (lastLine evs []).head? <;> simp

/-! ## the book arm of `go`

```rust
if let Some(moves) = book.lookup(&current_position) {
    let moves = moves.iter().collect::<Vec<_>>();          // the answer set in SOME order (`HashSet` iteration)
    let m = moves[rng.gen_range(0..moves.len())];          // panics on an empty range; otherwise an index below `len`
    println!("info string book move: {}", m);
    println!("bestmove {}", into_notation::<_, Lan>(m));
    continue;
}
``` -/

/-- the two lines printed for the chosen book move -/
def bookLines (m : Move) : List WLine := [.infoBook, .bestmove (Move.lan m)]

theorem bestmoves_bookLines (m : Move) : bestmoves (bookLines m) = [Move.lan m] := rfl

/-! ## sessions: the marks of `Uci.run`, tagged with the session position, and their refinement by output lines -/

/-- `Uci.run` with every output tagged by the session position `Sess.pos` **before** the command that produced it (for
the marks of a `go` this is the position the search is spawned on / the book is asked about: `go` does not change the
position, `go_position`); the final join of `quit`/EOF is tagged with the final position -/
def runT (hasBook : State → Bool) : Sess → List String → Option (Sess × List (Out × State))
  | s, [] => some (if s.searching then ({ s with searching := false }, [(.joinRunning, s.pos)]) else (s, []))
  | s, c :: cs =>
    match step hasBook s c with
    | Option.none => Option.none
    | some (s', o, true) =>
      some (if s'.searching then ({ s' with searching := false }, o.map (·, s.pos) ++ [(.joinRunning, s'.pos)])
            else (s', o.map (·, s.pos)))
    | some (s', o, false) =>
      match runT hasBook s' cs with
      | Option.none => Option.none
      | some (s'', o') => some (s'', o.map (·, s.pos) ++ o')

/-- forgetting the tags gives `Uci.run` -/
theorem runT_untag (hasBook : State → Bool) (lines : List String) : ∀ s,
    (runT hasBook s lines).map (fun r => (r.1, r.2.map (·.1))) = run hasBook s lines := by
  induction lines with
  | nil =>
    intro s
    unfold runT run
    cases s.searching <;> rfl
  | cons c cs ih =>
    intro s
    unfold runT run
    cases hst : step hasBook s c with
    | none => rfl
    | some r =>
      obtain ⟨s', o, q⟩ := r
      cases q with
      | true =>
        simp only
        cases s'.searching <;> simp [List.map_map, Function.comp_def]
      | false =>
        simp only
        rw [← ih s']
        cases runT hasBook s' cs with
        | none => rfl
        | some r' => simp [List.map_map, Function.comp_def]

/-- a `searchStarted` / `bookMove` mark -/
def Out.isStart : Out → Bool
  | .searchStarted _ _ _ => true
  | .bookMove => true
  | _ => false

/-- **where a `go` is answered.**  A `searchStarted` or `bookMove` mark is produced only by a line whose first token is
`go`; that command leaves the session position unchanged, the book was asked about exactly that position and the search
is started iff the book has no answer. -/
theorem go_position (hasBook : State → Bool) (s s' : Sess) (line : String) (o : List Out) (q : Bool)
    (h : step hasBook s line = some (s', o, q)) (x : Out) (hx : x ∈ o) (hstart : x.isStart = true) :
    isGo line = true ∧ s'.pos = s.pos ∧ (x = .bookMove ↔ hasBook s.pos = true) := by
  have hnostart : ∀ (msgs : List String), x ∈ msgs.map Out.line → False := by
    intro msgs hm
    obtain ⟨m, _, rfl⟩ := List.mem_map.1 hm
    cases hstart
  have hjk : x ∈ (joinKeep s).2 → False := by
    intro hm
    rw [(joinKeep_spec s).2.2.2] at hm
    cases hs : s.searching <;> rw [hs] at hm
    · cases hm
    · simp only [if_true, List.mem_singleton] at hm; subst hm; cases hstart
  unfold step at h
  split at h
  · -- go
    rename_i args heq
    rw [isGo_of_tokens heq]
    dsimp only at h
    have hpos : (joinKeep s).1.pos = s.pos := (joinKeep_spec s).2.1
    split at h
    · rename_i hb
      simp only [Option.some.injEq, Prod.mk.injEq] at h
      obtain ⟨rfl, rfl, rfl⟩ := h
      refine ⟨rfl, hpos, ?_⟩
      rw [hpos] at hb
      simp only [hb, iff_true]
      simp only [List.mem_append, List.mem_singleton] at hx
      rcases hx with (hx | hx) | hx
      · exact (hjk hx).elim
      · split at hx
        · simp only [List.mem_singleton] at hx; subst hx; cases hstart
        · cases hx
      · exact hx
    · rename_i hb
      simp only [Option.some.injEq, Prod.mk.injEq] at h
      obtain ⟨rfl, rfl, rfl⟩ := h
      refine ⟨rfl, hpos, ?_⟩
      rw [hpos] at hb
      simp only [List.mem_append, List.mem_singleton] at hx
      rcases hx with (hx | hx) | hx
      · exact (hjk hx).elim
      · split at hx
        · simp only [List.mem_singleton] at hx; subst hx; cases hstart
        · cases hx
      · subst hx; exact ⟨fun e => (nomatch e), fun e => absurd e hb⟩
  · simp only [Option.some.injEq, Prod.mk.injEq] at h
    obtain ⟨rfl, rfl, rfl⟩ := h
    exact (hnostart ["readyok"] hx).elim
  · -- position
    dsimp only at h
    split at h
    · cases h
    · rename_i s2 o2 hp
      simp only [Option.some.injEq, Prod.mk.injEq] at h
      obtain ⟨rfl, rfl, rfl⟩ := h
      obtain ⟨_, _, h3⟩ := positionCmd_effect _ _ _ _ hp
      rcases List.mem_append.1 hx with hx | hx
      · exact (hjk hx).elim
      · rcases h3 with rfl | ⟨msg, rfl⟩
        · cases hx
        · exact (hnostart [msg] hx).elim
  · dsimp only at h
    simp only [Option.some.injEq, Prod.mk.injEq] at h
    obtain ⟨rfl, rfl, rfl⟩ := h
    exact (hjk hx).elim
  · simp only [Option.some.injEq, Prod.mk.injEq] at h
    obtain ⟨rfl, rfl, rfl⟩ := h
    exact (hnostart ["id name", "id author", "uciok"] hx).elim
  · simp only [Option.some.injEq, Prod.mk.injEq] at h
    obtain ⟨rfl, rfl, rfl⟩ := h
    cases hs : s.searching <;> rw [hs] at hx
    · cases hx
    · simp only [if_true, List.mem_singleton] at hx; subst hx; cases hstart
  · simp only [Option.some.injEq, Prod.mk.injEq] at h
    obtain ⟨rfl, rfl, rfl⟩ := h
    cases hx
  · simp only [Option.some.injEq, Prod.mk.injEq] at h
    obtain ⟨rfl, rfl, rfl⟩ := h
    simp only [List.mem_singleton] at hx; subst hx; cases hstart
  · simp only [Option.some.injEq, Prod.mk.injEq] at h
    obtain ⟨rfl, rfl, rfl⟩ := h
    simp only [List.mem_singleton] at hx; subst hx; cases hstart
  · simp only [Option.some.injEq, Prod.mk.injEq] at h
    obtain ⟨rfl, rfl, rfl⟩ := h
    exact (hnostart ["info string unknown command"] hx).elim

/-- in the tagged stream of a session every `searchStarted`/`bookMove` mark is tagged with a position about which the book
was asked at that moment: `bookMove` iff it has an answer, `searchStarted` iff it has none -/
theorem runT_marks (hasBook : State → Bool) (lines : List String) : ∀ (s s' : Sess) (touts : List (Out × State)),
    runT hasBook s lines = some (s', touts) → ∀ o p, (o, p) ∈ touts → o.isStart = true →
      (o = .bookMove ↔ hasBook p = true) := by
  induction lines with
  | nil =>
    intro s s' touts h o p hm hs
    unfold runT at h
    cases hsr : s.searching <;> rw [hsr] at h <;> simp only [Option.some.injEq, Prod.mk.injEq, if_true,
      Bool.false_eq_true, if_false] at h <;> obtain ⟨_, rfl⟩ := h
    · cases hm
    · simp only [List.mem_singleton, Prod.mk.injEq] at hm; obtain ⟨rfl, _⟩ := hm; cases hs
  | cons c cs ih =>
    intro s s' touts h o p hm hs
    unfold runT at h
    cases hst : step hasBook s c with
    | none => rw [hst] at h; cases h
    | some r =>
      obtain ⟨s1, o1, q⟩ := r
      rw [hst] at h
      have hfirst : (o, p) ∈ o1.map (·, s.pos) → (o = .bookMove ↔ hasBook p = true) := by
        intro hm1
        obtain ⟨x, hx, e⟩ := List.mem_map.1 hm1
        cases e
        exact (go_position hasBook s s1 c o1 q hst o hx hs).2.2
      cases q with
      | true =>
        simp only at h
        cases hsr : s1.searching <;> rw [hsr] at h <;> simp only [Option.some.injEq, Prod.mk.injEq, if_true,
          Bool.false_eq_true, if_false] at h <;> obtain ⟨_, rfl⟩ := h
        · exact hfirst hm
        · rcases List.mem_append.1 hm with hm | hm
          · exact hfirst hm
          · simp only [List.mem_singleton, Prod.mk.injEq] at hm; obtain ⟨rfl, _⟩ := hm; cases hs
      | false =>
        simp only at h
        cases hr : runT hasBook s1 cs with
        | none => rw [hr] at h; cases h
        | some r' =>
          rw [hr] at h
          simp only [Option.some.injEq, Prod.mk.injEq] at h
          obtain ⟨_, rfl⟩ := h
          rcases List.mem_append.1 hm with hm | hm
          · exact hfirst hm
          · exact ih s1 r'.1 r'.2 hr o p hm hs

/-! ## refinement of a tagged mark stream by output lines

`Answers μ` says what a search / a book answer may print; `μ` is what a finished search hands back (`SearchArtifact`).
`Transcript A last pend outs t last' pend'`: reading the tagged marks `outs` while the state (`last` = the artifact handed
back by the most recently joined search and not yet taken by a new one; `pend` = the running search: its root, the lines
its writer thread has still to print, the artifact it will hand back) goes from `(last, pend)` to `(last', pend')`, the
process prints the lines `t` on stdout — each line tagged with the position it belongs to (for a writer line: the root of
its search, i.e. `Sess.pos` at the `go` that started it).

* `emit` — the writer thread prints its next line at ANY moment while its search is running (before, between, after the
  lines of the command loop): thread scheduling is arbitrary;
* `join` — `Search::wait_cancel` joins the search thread and then the writer thread: when the loop goes on, the writer has
  printed everything (`pend = some (q, [], m)`), and `previous_artifact` is what the search returned;
* `start` — `Search::spawn(current_position, …, depth, time, previous_artifact.take())`: the incoming memory is `last` if the
  model's `reusesArtifact` flag is set (then there must be one: `artOK` shows that this is so in every session that starts
  without a stored artifact), nothing otherwise;
* `book` — both lines of the book arm are printed at once by the loop thread. -/

structure Answers (μ : Type) where
  /-- `search mem p d ws m`: a search of `p` with depth limit `d`, given the memory `mem` (`none`: it builds fresh memory),
  may make the writer print exactly `ws` and hand back `m` -/
  search : Option μ → State → Option Nat → List WLine → μ → Prop
  /-- `book p ws`: the book arm may print `ws` for the position `p` -/
  book : State → List WLine → Prop

abbrev Pending (μ : Type) := Option (State × List WLine × μ)

inductive Transcript {μ : Type} (A : Answers μ) :
    Option μ → Pending μ → List (Out × State) → List (WLine × State) → Option μ → Pending μ → Prop
  | done (last : Option μ) (pend : Pending μ) : Transcript A last pend [] [] last pend
  | emit {last : Option μ} {q : State} {w : WLine} {ws : List WLine} {m : μ} {outs t last' pend'} :
      Transcript A last (some (q, ws, m)) outs t last' pend' →
      Transcript A last (some (q, w :: ws, m)) outs ((w, q) :: t) last' pend'
  | line {last : Option μ} {pend : Pending μ} (s : String) (p : State) {outs t last' pend'} :
      Transcript A last pend outs t last' pend' →
      Transcript A last pend ((.line s, p) :: outs) ((.loop s, p) :: t) last' pend'
  | stderrState {last : Option μ} {pend : Pending μ} (p : State) {outs t last' pend'} :
      Transcript A last pend outs t last' pend' → Transcript A last pend ((.stderrState, p) :: outs) t last' pend'
  | stderrStatus {last : Option μ} {pend : Pending μ} (p : State) {outs t last' pend'} :
      Transcript A last pend outs t last' pend' → Transcript A last pend ((.stderrStatus, p) :: outs) t last' pend'
  | start {last : Option μ} (d : Option Nat) (mt : Option Int) (reuse : Bool) (p : State) {ws : List WLine} {m : μ}
      {outs t last' pend'} :
      (reuse = true → last.isSome = true) →
      A.search (if reuse then last else Option.none) p d ws m →
      Transcript A Option.none (some (p, ws, m)) outs t last' pend' →
      Transcript A last Option.none ((.searchStarted d mt reuse, p) :: outs) t last' pend'
  | join {last : Option μ} {q : State} {m : μ} (p : State) {outs t last' pend'} :
      Transcript A (some m) Option.none outs t last' pend' →
      Transcript A last (some (q, [], m)) ((.joinRunning, p) :: outs) t last' pend'
  | book {last : Option μ} (p : State) {ws : List WLine} {outs t last' pend'} :
      A.book p ws → Transcript A last Option.none outs t last' pend' →
      Transcript A last Option.none ((.bookMove, p) :: outs) (ws.map (·, p) ++ t) last' pend'

/-- reading the stream with the flag "an artifact was handed back since the last start" (`joinRunning` sets it, a
`searchStarted` clears it): every `searchStarted … true` mark finds the flag set -/
def artOK : Bool → List Out → Bool
  | _, [] => true
  | _, .joinRunning :: r => artOK true r
  | a, .searchStarted _ _ reuse :: r => (!reuse || a) && artOK false r
  | a, .line _ :: r => artOK a r
  | a, .stderrState :: r => artOK a r
  | a, .stderrStatus :: r => artOK a r
  | a, .bookMove :: r => artOK a r

/-- the flag after the stream -/
def artAfter : Bool → List Out → Bool
  | a, [] => a
  | _, .joinRunning :: r => artAfter true r
  | _, .searchStarted _ _ _ :: r => artAfter false r
  | a, .line _ :: r => artAfter a r
  | a, .stderrState :: r => artAfter a r
  | a, .stderrStatus :: r => artAfter a r
  | a, .bookMove :: r => artAfter a r

theorem artOK_append (o₁ o₂ : List Out) : ∀ a, artOK a (o₁ ++ o₂) = (artOK a o₁ && artOK (artAfter a o₁) o₂) := by
  induction o₁ with
  | nil => intro a; simp [artOK, artAfter]
  | cons x r ih => intro a; cases x <;> simp only [List.cons_append, artOK, artAfter, ih, Bool.and_assoc]

theorem artAfter_append (o₁ o₂ : List Out) : ∀ a, artAfter a (o₁ ++ o₂) = artAfter (artAfter a o₁) o₂ := by
  induction o₁ with
  | nil => intro a; rfl
  | cons x r ih => intro a; cases x <;> simp only [List.cons_append, artAfter, ih]


theorem artOK_lines (a : Bool) (msgs : List String) : artOK a (msgs.map Out.line) = true ∧
    artAfter a (msgs.map Out.line) = a := by
  induction msgs with
  | nil => exact ⟨rfl, rfl⟩
  | cons m r ih => simpa [artOK, artAfter] using ih

theorem artOK_joinKeep (s : Sess) (a : Bool) : artOK a (joinKeep s).2 = true ∧
    artAfter a (joinKeep s).2 = (if s.searching then true else a) := by
  rw [(joinKeep_spec s).2.2.2]
  cases s.searching <;> exact ⟨rfl, rfl⟩

/-- one command: if the flag dominates the model's `artifact` field before, the outputs pass `artOK` and the flag
dominates the field afterwards -/
theorem step_artOK (hasBook : State → Bool) (s s' : Sess) (line : String) (o : List Out) (q : Bool)
    (h : step hasBook s line = some (s', o, q)) (a : Bool) (ha : s.artifact = true → a = true) :
    artOK a o = true ∧ (s'.artifact = true → artAfter a o = true) := by
  have hjk := artOK_joinKeep s a
  have hjart : (joinKeep s).1.artifact = true → (if s.searching then true else a) = true := by
    rw [(joinKeep_spec s).2.2.1]
    cases s.searching
    · simpa using ha
    · intro _; rfl
  unfold step at h
  split at h
  · -- go
    dsimp only at h
    have hbad : ∀ (bad : Bool) (a' : Bool),
        artOK a' (if bad = true then [Out.line "info string unparsable go commands"] else []) = true ∧
        artAfter a' (if bad = true then [Out.line "info string unparsable go commands"] else []) = a' := by
      intro bad a'; cases bad <;> exact ⟨rfl, rfl⟩
    split at h
    all_goals (
      simp only [Option.some.injEq, Prod.mk.injEq] at h
      obtain ⟨rfl, rfl, rfl⟩ := h
      simp only [artOK_append, artAfter_append, hjk.1, hjk.2, (hbad _ _).1, (hbad _ _).2, artOK, artAfter,
        Bool.true_and, Bool.and_true])
    · exact ⟨trivial, hjart⟩
    · refine ⟨?_, fun e => nomatch e⟩
      cases hr : (joinKeep s).1.artifact
      · rfl
      · simpa using hjart hr
  · simp only [Option.some.injEq, Prod.mk.injEq] at h
    obtain ⟨rfl, rfl, rfl⟩ := h
    exact ⟨rfl, ha⟩
  · -- position
    dsimp only at h
    split at h
    · cases h
    · rename_i s2 o2 hp
      simp only [Option.some.injEq, Prod.mk.injEq] at h
      obtain ⟨rfl, rfl, rfl⟩ := h
      obtain ⟨_, h2, h3⟩ := positionCmd_effect _ _ _ _ hp
      rw [artOK_append, artAfter_append, hjk.1, hjk.2, h2]
      rcases h3 with rfl | ⟨msg, rfl⟩
      · exact ⟨rfl, hjart⟩
      · exact ⟨rfl, hjart⟩
  · dsimp only at h
    simp only [Option.some.injEq, Prod.mk.injEq] at h
    obtain ⟨rfl, rfl, rfl⟩ := h
    rw [hjk.1, hjk.2]
    exact ⟨rfl, hjart⟩
  · simp only [Option.some.injEq, Prod.mk.injEq] at h
    obtain ⟨rfl, rfl, rfl⟩ := h
    exact ⟨rfl, ha⟩
  · simp only [Option.some.injEq, Prod.mk.injEq] at h
    obtain ⟨rfl, rfl, rfl⟩ := h
    refine ⟨?_, fun e => nomatch e⟩
    cases s.searching <;> rfl
  · simp only [Option.some.injEq, Prod.mk.injEq] at h
    obtain ⟨rfl, rfl, rfl⟩ := h
    exact ⟨rfl, ha⟩
  · simp only [Option.some.injEq, Prod.mk.injEq] at h
    obtain ⟨rfl, rfl, rfl⟩ := h
    exact ⟨rfl, ha⟩
  · simp only [Option.some.injEq, Prod.mk.injEq] at h
    obtain ⟨rfl, rfl, rfl⟩ := h
    exact ⟨rfl, ha⟩
  · simp only [Option.some.injEq, Prod.mk.injEq] at h
    obtain ⟨rfl, rfl, rfl⟩ := h
    exact ⟨rfl, ha⟩

/-- **in every session a search re-uses an artifact only if one was handed back since the previous start** (started
from a state whose `artifact` field is dominated by the flag, e.g. `artifact = false`) -/
theorem run_artOK (hasBook : State → Bool) (lines : List String) : ∀ (s s' : Sess) (outs : List Out),
    run hasBook s lines = some (s', outs) → ∀ a, (s.artifact = true → a = true) → artOK a outs = true := by
  induction lines with
  | nil =>
    intro s s' outs h a _
    simp only [run, Option.some.injEq] at h
    cases hs : s.searching <;> simp only [hs, if_true, Bool.false_eq_true, if_false, Prod.mk.injEq] at h <;>
      obtain ⟨_, rfl⟩ := h <;> rfl
  | cons c cs ih =>
    intro s s' outs h a ha
    unfold run at h
    split at h
    · cases h
    · rename_i s1 o hstep
      obtain ⟨h1, _⟩ := step_artOK hasBook s s1 c o true hstep a ha
      simp only [Option.some.injEq] at h
      cases hs : s1.searching <;> simp only [hs, if_true, Bool.false_eq_true, if_false, Prod.mk.injEq] at h <;>
        obtain ⟨_, rfl⟩ := h
      · exact h1
      · rw [artOK_append, h1]; rfl
    · rename_i s1 o hstep
      obtain ⟨h1, h2⟩ := step_artOK hasBook s s1 c o false hstep a ha
      split at h
      · cases h
      · rename_i s2 o2 hrun
        simp only [Option.some.injEq, Prod.mk.injEq] at h
        obtain ⟨_, rfl⟩ := h
        rw [artOK_append, h1, ih s1 s2 o2 hrun _ h2]; rfl

namespace Transcript
variable {μ : Type} {A : Answers μ}

/-- number of `bestmove` lines of a tagged transcript -/
def nbest (t : List (WLine × State)) : Nat := (bestmoves (t.map (·.1))).length

/-- `bestmove` lines the running search has still to print -/
def pendBest : Pending μ → Nat
  | Option.none => 0
  | some (_, ws, _) => (bestmoves ws).length

theorem nbest_cons (w : WLine) (q : State) (t : List (WLine × State)) :
    nbest ((w, q) :: t) = (if w.isBestmove then 1 else 0) + nbest t := by
  unfold nbest
  cases w <;> simp [bestmoves, WLine.isBestmove] <;> omega

theorem nbest_append (a b : List (WLine × State)) : nbest (a ++ b) = nbest a + nbest b := by
  unfold nbest; rw [List.map_append, bestmoves_append, List.length_append]

theorem nbest_tag (ws : List WLine) (p : State) : nbest (ws.map (·, p)) = (bestmoves ws).length := by
  unfold nbest
  have : (ws.map (·, p)).map (·.1) = ws := by
    induction ws with
    | nil => rfl
    | cons w r ih => simp only [List.map_cons, ih]
  rw [this]

theorem bestmoves_cons_length (w : WLine) (ws : List WLine) :
    (bestmoves (w :: ws)).length = (if w.isBestmove then 1 else 0) + (bestmoves ws).length := by
  cases w <;> simp [bestmoves, WLine.isBestmove] <;> omega

/-- **counting, upper bound.**  If no search and no book answer prints more than one `bestmove`, the transcript contains at
most as many `bestmove` lines as the stream has `searchStarted`/`bookMove` marks (plus what was pending at the start). -/
theorem count_le (hS : ∀ mem p d ws m, A.search mem p d ws m → (bestmoves ws).length ≤ 1)
    (hB : ∀ p ws, A.book p ws → (bestmoves ws).length ≤ 1)
    {last pend outs t last' pend'} (h : Transcript A last pend outs t last' pend') :
    nbest t + pendBest pend' ≤ starts (outs.map (·.1)) + pendBest pend := by
  induction h with
  | done => simp [nbest, bestmoves, starts]
  | emit _ ih =>
    rw [nbest_cons]
    simp only [pendBest] at ih ⊢
    rw [bestmoves_cons_length]; omega
  | line s p _ ih => rw [nbest_cons]; simpa [starts, WLine.isBestmove] using ih
  | stderrState p _ ih => simpa [starts] using ih
  | stderrStatus p _ ih => simpa [starts] using ih
  | start d mt reuse p hre hs _ ih =>
    have := hS _ _ _ _ _ hs
    simp only [pendBest, List.map_cons, starts] at ih ⊢
    omega
  | join p _ ih =>
    simp only [pendBest, List.map_cons, starts, bestmoves, List.length_nil] at ih ⊢
    omega
  | book p hb _ ih =>
    have := hB _ _ hb
    rw [nbest_append, nbest_tag]
    simp only [pendBest, List.map_cons, starts] at ih ⊢
    omega

/-- **counting, exact.**  If every search and every book answer prints exactly one `bestmove`, there are exactly as many
`bestmove` lines as marks. -/
theorem count_eq (hS : ∀ mem p d ws m, A.search mem p d ws m → (bestmoves ws).length = 1)
    (hB : ∀ p ws, A.book p ws → (bestmoves ws).length = 1)
    {last pend outs t last' pend'} (h : Transcript A last pend outs t last' pend') :
    nbest t + pendBest pend' = starts (outs.map (·.1)) + pendBest pend := by
  induction h with
  | done => simp [nbest, bestmoves, starts]
  | emit _ ih =>
    rw [nbest_cons]
    simp only [pendBest] at ih ⊢
    rw [bestmoves_cons_length]; omega
  | line s p _ ih => rw [nbest_cons]; simpa [starts, WLine.isBestmove] using ih
  | stderrState p _ ih => simpa [starts] using ih
  | stderrStatus p _ ih => simpa [starts] using ih
  | start d mt reuse p hre hs _ ih =>
    have := hS _ _ _ _ _ hs
    simp only [pendBest, List.map_cons, starts] at ih ⊢
    omega
  | join p _ ih =>
    simp only [pendBest, List.map_cons, starts, bestmoves, List.length_nil] at ih ⊢
    omega
  | book p hb _ ih =>
    have := hB _ _ hb
    rw [nbest_append, nbest_tag]
    simp only [pendBest, List.map_cons, starts] at ih ⊢
    omega

/-- **every line has an origin.**  If every line a search of `p` / the book arm at `p` prints satisfies `OK p`, and so do
the lines of the loop thread, then every tagged line `(w, q)` of the transcript satisfies `OK q w`. -/
theorem lines_ok (OK : State → WLine → Prop)
    (hS : ∀ mem p d ws m, A.search mem p d ws m → ∀ w ∈ ws, OK p w)
    (hB : ∀ p ws, A.book p ws → ∀ w ∈ ws, OK p w) (hL : ∀ p s, OK p (.loop s))
    {last pend outs t last' pend'} (h : Transcript A last pend outs t last' pend')
    (hp : ∀ q ws m, pend = some (q, ws, m) → ∀ w ∈ ws, OK q w) :
    ∀ w q, (w, q) ∈ t → OK q w := by
  induction h with
  | done => intro w q hm; cases hm
  | @emit last q w ws m outs t last' pend' _ ih =>
    intro w' q' hm
    rcases List.mem_cons.1 hm with e | hm
    · cases e; exact hp q (w :: ws) m rfl w List.mem_cons_self
    · refine ih (fun q1 ws1 m1 e w1 hw1 => ?_) w' q' hm
      cases e
      exact hp q (w :: ws) m rfl w1 (List.mem_cons_of_mem _ hw1)
  | line s p _ ih =>
    intro w' q' hm
    rcases List.mem_cons.1 hm with e | hm
    · cases e; exact hL _ _
    · exact ih hp w' q' hm
  | stderrState p _ ih => exact ih hp
  | stderrStatus p _ ih => exact ih hp
  | start d mt reuse p hre hs _ ih =>
    refine ih (fun q1 ws1 m1 e w1 hw1 => ?_)
    cases e
    exact hS _ _ _ _ _ hs w1 hw1
  | join p _ ih => exact ih (fun _ _ _ e => nomatch e)
  | book p hb _ ih =>
    intro w' q' hm
    rcases List.mem_append.1 hm with hm | hm
    · obtain ⟨w1, hw1, e⟩ := List.mem_map.1 hm
      cases e
      exact hB _ _ hb w' hw1
    · exact ih (fun _ _ _ e => nomatch e) w' q' hm

/-- **strengthening the answers along the session.**  Let `P` hold of every position at which the stream has a
`searchStarted`/`bookMove` mark, and `Inv` be a property of memories.  If — for positions satisfying `P` and incoming memory
satisfying `Inv` — every answer of `A` is an answer of `A'` and hands back memory satisfying `Inv` again, then every
transcript for `A` is a transcript for `A'`, and the memory left at the end satisfies `Inv`. -/
theorem strengthen {A' : Answers μ} (P : State → Prop) (Inv : μ → Prop)
    (hS : ∀ mem p d ws m, P p → (∀ m0, mem = some m0 → Inv m0) → A.search mem p d ws m →
      A'.search mem p d ws m ∧ Inv m)
    (hB : ∀ p ws, P p → A.book p ws → A'.book p ws)
    {last pend outs t last' pend'} (h : Transcript A last pend outs t last' pend')
    (hP : ∀ o p, (o, p) ∈ outs → o.isStart = true → P p)
    (hlast : ∀ m0, last = some m0 → Inv m0) (hpend : ∀ q ws m, pend = some (q, ws, m) → Inv m) :
    Transcript A' last pend outs t last' pend' ∧ (∀ m0, last' = some m0 → Inv m0) ∧
      (∀ q ws m, pend' = some (q, ws, m) → Inv m) := by
  induction h with
  | done last pend => exact ⟨.done last pend, hlast, hpend⟩
  | @emit last q w ws m outs t last' pend' _ ih =>
    obtain ⟨h1, h2⟩ := ih hP hlast (fun q1 ws1 m1 e => by cases e; exact hpend q (w :: ws) m rfl)
    exact ⟨.emit h1, h2⟩
  | line s p _ ih =>
    obtain ⟨h1, h2⟩ := ih (fun o p' hm => hP o p' (List.mem_cons_of_mem _ hm)) hlast hpend
    exact ⟨.line s p h1, h2⟩
  | stderrState p _ ih =>
    obtain ⟨h1, h2⟩ := ih (fun o p' hm => hP o p' (List.mem_cons_of_mem _ hm)) hlast hpend
    exact ⟨.stderrState p h1, h2⟩
  | stderrStatus p _ ih =>
    obtain ⟨h1, h2⟩ := ih (fun o p' hm => hP o p' (List.mem_cons_of_mem _ hm)) hlast hpend
    exact ⟨.stderrStatus p h1, h2⟩
  | @start last d mt reuse p ws m outs t last' pend' hre hs _ ih =>
    have hp : P p := hP _ p List.mem_cons_self rfl
    have hmem : ∀ m0, (if reuse then last else Option.none) = some m0 → Inv m0 := by
      intro m0 e
      cases reuse
      · cases e
      · exact hlast m0 e
    obtain ⟨hs', hm⟩ := hS _ p d ws m hp hmem hs
    obtain ⟨h1, h2⟩ := ih (fun o p' hm' => hP o p' (List.mem_cons_of_mem _ hm')) (fun _ e => nomatch e)
      (fun q1 ws1 m1 e => by cases e; exact hm)
    exact ⟨.start d mt reuse p hre hs' h1, h2⟩
  | @join last q m p outs t last' pend' _ ih =>
    obtain ⟨h1, h2⟩ := ih (fun o p' hm' => hP o p' (List.mem_cons_of_mem _ hm'))
      (fun m0 e => by cases e; exact hpend q [] m rfl) (fun _ _ _ e => nomatch e)
    exact ⟨.join p h1, h2⟩
  | book p hb _ ih =>
    have hp : P p := hP _ p List.mem_cons_self rfl
    obtain ⟨h1, h2⟩ := ih (fun o p' hm' => hP o p' (List.mem_cons_of_mem _ hm')) hlast hpend
    exact ⟨.book p (hB _ _ hp hb) h1, h2⟩

/-- **the join is a barrier.**  Split the mark stream at a `joinRunning` mark: the transcript splits accordingly, and when
the mark is reached the joined search has printed ALL its lines (pending `[]`) — in particular its `bestmove` is in the
first part, before everything the joining command prints after its join mark and before everything later commands print. -/
theorem split_join {last pend last' pend'} {p : State} {o₂ : List (Out × State)} {t : List (WLine × State)} :
    ∀ (o₁ : List (Out × State)), Transcript A last pend (o₁ ++ (.joinRunning, p) :: o₂) t last' pend' →
    ∃ t₁ t₂ last₁ q m, t = t₁ ++ t₂ ∧ Transcript A last pend o₁ t₁ last₁ (some (q, [], m)) ∧
      Transcript A (some m) Option.none o₂ t₂ last' pend' := by
  intro o₁ h
  generalize hO : o₁ ++ (Out.joinRunning, p) :: o₂ = outs at h
  induction h generalizing o₁ with
  | done => cases o₁ <;> cases hO
  | emit _ ih =>
    obtain ⟨t₁, t₂, l1, q, m, e, h1, h2⟩ := ih o₁ hO
    exact ⟨_ :: t₁, t₂, l1, q, m, by rw [e]; rfl, .emit h1, h2⟩
  | line s p' _ ih =>
    cases o₁ with
    | nil => cases hO
    | cons x r =>
      cases hO
      obtain ⟨t₁, t₂, l1, q, m, e, h1, h2⟩ := ih r rfl
      exact ⟨_ :: t₁, t₂, l1, q, m, by rw [e]; rfl, .line s p' h1, h2⟩
  | stderrState p' _ ih =>
    cases o₁ with
    | nil => cases hO
    | cons x r =>
      cases hO
      obtain ⟨t₁, t₂, l1, q, m, e, h1, h2⟩ := ih r rfl
      exact ⟨t₁, t₂, l1, q, m, e, .stderrState p' h1, h2⟩
  | stderrStatus p' _ ih =>
    cases o₁ with
    | nil => cases hO
    | cons x r =>
      cases hO
      obtain ⟨t₁, t₂, l1, q, m, e, h1, h2⟩ := ih r rfl
      exact ⟨t₁, t₂, l1, q, m, e, .stderrStatus p' h1, h2⟩
  | start d mt reuse p' hre hs _ ih =>
    cases o₁ with
    | nil => cases hO
    | cons x r =>
      cases hO
      obtain ⟨t₁, t₂, l1, q, m, e, h1, h2⟩ := ih r rfl
      exact ⟨t₁, t₂, l1, q, m, e, .start d mt reuse p' hre hs h1, h2⟩
  | @join last q m p' outs t last' pend' hrest ih =>
    cases o₁ with
    | nil =>
      cases hO
      exact ⟨[], t, last, q, m, rfl, .done _ _, hrest⟩
    | cons x r =>
      cases hO
      obtain ⟨t₁, t₂, l1, q1, m1, e, h1, h2⟩ := ih r rfl
      exact ⟨t₁, t₂, l1, q1, m1, e, .join p' h1, h2⟩
  | book p' hb _ ih =>
    cases o₁ with
    | nil => cases hO
    | cons x r =>
      cases hO
      obtain ⟨t₁, t₂, l1, q, m, e, h1, h2⟩ := ih r rfl
      exact ⟨_ ++ t₁, t₂, l1, q, m, by rw [e, List.append_assoc], .book p' hb h1, h2⟩

/-- the writer may print all its remaining lines at once -/
theorem emit_all {last : Option μ} {q : State} {m : μ} {outs t last' pend'} (ws : List WLine)
    (h : Transcript A last (some (q, [], m)) outs t last' pend') :
    Transcript A last (some (q, ws, m)) outs (ws.map (·, q) ++ t) last' pend' := by
  induction ws with
  | nil => exact h
  | cons w r ih => exact .emit ih

/-- **the relation is satisfiable for every well-bracketed stream**: if a search / book answer exists wherever the stream
asks for one, every stream that `scan` accepts (`C07_bestmove_structure`) and in which re-use happens only after a join
(`artOK`, `run_artOK`) has a transcript -/
theorem exists_of_scan (hS : ∀ mem p d, ∃ ws m, A.search mem p d ws m) :
    ∀ (outs : List (Out × State)) (b : Bool), scan b (outs.map (·.1)) = some false →
    (∀ p, (Out.bookMove, p) ∈ outs → ∃ ws, A.book p ws) →
    ∀ (last : Option μ) (pend : Pending μ), pend.isSome = b → artOK last.isSome (outs.map (·.1)) = true →
      ∃ t last', Transcript A last pend outs t last' Option.none := by
  intro outs
  induction outs with
  | nil =>
    intro b hb _ last pend hp _
    simp only [List.map_nil, scan, Option.some.injEq] at hb
    subst hb
    cases pend with
    | none => exact ⟨[], last, .done _ _⟩
    | some x => cases hp
  | cons x r ih =>
    intro b hb hB last pend hp ha
    have hB' : ∀ p, (Out.bookMove, p) ∈ r → ∃ ws, A.book p ws := fun p hm => hB p (List.mem_cons_of_mem _ hm)
    obtain ⟨o, p⟩ := x
    cases o with
    | line s =>
      obtain ⟨t, l', h⟩ := ih b (by simpa [scan] using hb) hB' last pend hp (by simpa [artOK] using ha)
      exact ⟨_, l', .line s p h⟩
    | stderrState =>
      obtain ⟨t, l', h⟩ := ih b (by simpa [scan] using hb) hB' last pend hp (by simpa [artOK] using ha)
      exact ⟨_, l', .stderrState p h⟩
    | stderrStatus =>
      obtain ⟨t, l', h⟩ := ih b (by simpa [scan] using hb) hB' last pend hp (by simpa [artOK] using ha)
      exact ⟨_, l', .stderrStatus p h⟩
    | joinRunning =>
      cases b with
      | false => simp [scan] at hb
      | true =>
        match pend, hp with
        | some (q, ws, m), _ =>
          obtain ⟨t, l', h⟩ := ih false (by simpa [scan] using hb) hB' (some m) Option.none rfl
            (by simpa [artOK] using ha)
          exact ⟨_, l', emit_all ws (.join p h)⟩
    | bookMove =>
      cases b with
      | true => simp [scan] at hb
      | false =>
        match pend, hp with
        | Option.none, _ =>
          obtain ⟨ws, hw⟩ := hB p List.mem_cons_self
          obtain ⟨t, l', h⟩ := ih false (by simpa [scan] using hb) hB' last Option.none rfl (by simpa [artOK] using ha)
          exact ⟨_, l', .book p hw h⟩
    | searchStarted d mt reuse =>
      cases b with
      | true => simp [scan] at hb
      | false =>
        match pend, hp with
        | Option.none, _ =>
          simp only [List.map_cons, artOK, Bool.and_eq_true, Bool.or_eq_true, Bool.not_eq_true'] at ha
          obtain ⟨ws, m, hw⟩ := hS (if reuse then last else Option.none) p d
          obtain ⟨t, l', h⟩ := ih true (by simpa [scan] using hb) hB' Option.none (some (p, ws, m)) rfl ha.2
          refine ⟨_, l', .start d mt reuse p (fun hr => ?_) hw h⟩
          rcases ha.1 with h1 | h1
          · rw [hr] at h1; cases h1
          · exact h1

/-- **where a tagged line comes from**: a line of the loop thread, a line the search running at the start had still to
print, or a line of a search / book answer whose mark — tagged with the same position — is in the stream -/
theorem tag_origin {last pend outs t last' pend'} (h : Transcript A last pend outs t last' pend') :
    ∀ w q, (w, q) ∈ t → (∃ s, w = .loop s) ∨ (∃ ws m, pend = some (q, ws, m) ∧ w ∈ ws) ∨
      ∃ o, (o, q) ∈ outs ∧ o.isStart = true := by
  induction h with
  | done => intro w q hm; cases hm
  | @emit last q w ws m outs t last' pend' _ ih =>
    intro w' q' hm
    rcases List.mem_cons.1 hm with e | hm
    · cases e; exact Or.inr (Or.inl ⟨_, _, rfl, List.mem_cons_self⟩)
    · rcases ih w' q' hm with h1 | ⟨ws1, m1, e, hw⟩ | h3
      · exact Or.inl h1
      · cases e; exact Or.inr (Or.inl ⟨_, _, rfl, List.mem_cons_of_mem _ hw⟩)
      · exact Or.inr (Or.inr h3)
  | line s p _ ih =>
    intro w' q' hm
    rcases List.mem_cons.1 hm with e | hm
    · cases e; exact Or.inl ⟨s, rfl⟩
    · rcases ih w' q' hm with h1 | h2 | ⟨o, ho, hs⟩
      · exact Or.inl h1
      · exact Or.inr (Or.inl h2)
      · exact Or.inr (Or.inr ⟨o, List.mem_cons_of_mem _ ho, hs⟩)
  | stderrState p _ ih =>
    intro w' q' hm
    rcases ih w' q' hm with h1 | h2 | ⟨o, ho, hs⟩
    · exact Or.inl h1
    · exact Or.inr (Or.inl h2)
    · exact Or.inr (Or.inr ⟨o, List.mem_cons_of_mem _ ho, hs⟩)
  | stderrStatus p _ ih =>
    intro w' q' hm
    rcases ih w' q' hm with h1 | h2 | ⟨o, ho, hs⟩
    · exact Or.inl h1
    · exact Or.inr (Or.inl h2)
    · exact Or.inr (Or.inr ⟨o, List.mem_cons_of_mem _ ho, hs⟩)
  | start d mt reuse p hre hs _ ih =>
    intro w' q' hm
    rcases ih w' q' hm with h1 | ⟨ws1, m1, e, _⟩ | ⟨o, ho, hs'⟩
    · exact Or.inl h1
    · cases e; exact Or.inr (Or.inr ⟨_, List.mem_cons_self, rfl⟩)
    · exact Or.inr (Or.inr ⟨o, List.mem_cons_of_mem _ ho, hs'⟩)
  | join p _ ih =>
    intro w' q' hm
    rcases ih w' q' hm with h1 | ⟨_, _, e, _⟩ | ⟨o, ho, hs'⟩
    · exact Or.inl h1
    · cases e
    · exact Or.inr (Or.inr ⟨o, List.mem_cons_of_mem _ ho, hs'⟩)
  | book p hb _ ih =>
    intro w' q' hm
    rcases List.mem_append.1 hm with hm | hm
    · obtain ⟨w1, _, e⟩ := List.mem_map.1 hm
      cases e
      exact Or.inr (Or.inr ⟨_, List.mem_cons_self, rfl⟩)
    · rcases ih w' q' hm with h1 | ⟨_, _, e, _⟩ | ⟨o, ho, hs'⟩
      · exact Or.inl h1
      · cases e
      · exact Or.inr (Or.inr ⟨o, List.mem_cons_of_mem _ ho, hs'⟩)

end Transcript

end Wee.Uci

/-! # The first iteration cannot be interrupted

(Search-level lemmas used by `C07_report_any_cancel` / `C07_writer_exactly_one_any_cancel`; they are about
`analyze_recursive`, not about the writer, and live here only because this development was confined to two new files.)

`analyze_recursive` reads the cancellation flag only when its node counter reaches a multiple of `pollInterval` = 10000
(`*nodes_searched % 10000 == 0 && token.is_cancelled()`).  Hence a call whose counter ENDS below 10000 behaves the same for
every cancellation instant (`searchNode_cancel`).  The root call of the first iteration (remaining depth 1) counts one
node for itself and one per legal move (`root1_nodes`; quiescence does not count), so with one worker the first iteration
is the same whenever `Stop` arrives (`firstWorkers_cancel`). -/
namespace Wee.NoPoll
open Wee Wee.Search
open Wee.SearchCtl (tick tick_eq nodeM nodeM_run leafM leafM_run expandM expandM_run contM searchNode_eq
  childLoop_nil_run childLoop_cons_run childArgs entryOf bufferOf sort_rngOnly)

abbrev P : Nat := Gen.pollInterval

theorem tick_nodes (ctx : Ctx) (st : St) : (tick ctx st).2.nodes = st.nodes + 1 := by
  rw [tick_eq]
  split
  · split <;> rfl
  · rfl

/-- below the poll interval the flag is not read: `tick` only counts -/
theorem tick_noPoll (ctx : Ctx) (st : St) (h : st.nodes + 1 < P) :
    tick ctx st = (.ok (), { st with nodes := st.nodes + 1 }) := by
  rw [tick_eq, if_neg]
  unfold P Gen.pollInterval at *
  omega

theorem ctlInsert_nodes (st : St) (k : Nat) (e : TT.Entry) : (st.ctlInsert k e).nodes = st.nodes := rfl

/-- the move loop never decreases the node counter, if the recursive call does not -/
theorem childLoop_mono (ctx : Ctx) (child : NodeArgs → M Eval)
    (hc : ∀ a st, st.nodes ≤ ((child a).run.run st).2.nodes) (a : NodeArgs) (hash : UInt64) :
    ∀ (buf : List Move) (alpha : Eval) (best : Option Move) (kind : Nat) (st : St),
      st.nodes ≤ ((childLoop ctx child a hash buf alpha best kind).run.run st).2.nodes := by
  intro buf
  induction buf with
  | nil => intro alpha best kind st; rw [childLoop_nil_run]; exact Nat.le_refl _
  | cons mv rest ih =>
    intro alpha best kind st
    rw [childLoop_cons_run]
    cases ht : tryAsLegal a.s mv with
    | none => exact Nat.le_refl _
    | some o =>
      cases o with
      | none => exact ih alpha best kind st
      | some r =>
        obtain ⟨m, next⟩ := r
        simp only []
        have h1 := hc (childArgs a next alpha) st
        generalize (child (childArgs a next alpha)).run.run st = out at h1
        obtain ⟨res, st'⟩ := out
        cases res with
        | error e => exact h1
        | ok v =>
          simp only []
          split
          · exact h1
          · split
            · exact Nat.le_trans h1 (ih _ _ _ st')
            · exact Nat.le_trans h1 (ih _ _ _ st')

/-- the node entry counts the node -/
theorem nodeM_nodes (ctx : Ctx) (a : NodeArgs) (k : Eval → Eval → M Eval) (st : St)
    (hk : ∀ alpha beta st1, st1.nodes ≤ ((k alpha beta).run.run st1).2.nodes) :
    st.nodes + 1 ≤ ((nodeM ctx a k).run.run st).2.nodes := by
  rw [nodeM_run]
  have ht := tick_nodes ctx st
  generalize tick ctx st = out at ht
  obtain ⟨r, st1⟩ := out
  simp only at ht
  cases r with
  | error e => simp only []; omega
  | ok u =>
    simp only []
    split
    · simp only []; omega
    · split
      · simp only []; omega
      · simp only []; omega
      · rename_i al be _
        have := hk al be st1
        omega

theorem expandM_mono (ctx : Ctx) (child : NodeArgs → M Eval)
    (hc : ∀ a st, st.nodes ≤ ((child a).run.run st).2.nodes) (a : NodeArgs) (hash : UInt64) (alpha beta : Eval)
    (st : St) : st.nodes ≤ ((expandM ctx child a hash alpha beta).run.run st).2.nodes := by
  rw [expandM_run]
  cases hp : pseudoLegalMoves a.s with
  | none => exact Nat.le_refl _
  | some pseudo =>
    simp only []
    obtain ⟨sorted, r, hs, _⟩ := sort_rngOnly a.s pseudo st
    rw [hs]
    simp only []
    have h1 := childLoop_mono ctx child hc { a with alpha := alpha, beta := beta } hash
      (bufferOf a.prioritized sorted).reverse alpha Option.none kindUpper { st with rng := r }
    generalize (childLoop ctx child { a with alpha := alpha, beta := beta } hash
      (bufferOf a.prioritized sorted).reverse alpha Option.none kindUpper).run.run { st with rng := r } = out at h1
    obtain ⟨r2, st2⟩ := out
    have h1' : st.nodes ≤ st2.nodes := h1
    cases r2 with
    | error e => exact h1'
    | ok x =>
      cases x with
      | error b => exact h1'
      | ok y =>
        obtain ⟨alpha', best, kind⟩ := y
        simp only []
        split
        · cases evaluate a.s a.s.turn a.curDepth <;> exact h1'
        · cases best <;> exact h1'

/-- **every call of `analyze_recursive` counts at least its own node** -/
theorem searchNode_nodes (ctx : Ctx) : ∀ (rem : Nat) (a : NodeArgs) (st : St),
    st.nodes + 1 ≤ ((searchNode ctx rem a).run.run st).2.nodes := by
  intro rem
  induction rem with
  | zero =>
    intro a st
    rw [SearchCtl.searchNode_zero]
    refine nodeM_nodes ctx a _ st (fun al be st1 => ?_)
    rw [leafM_run]
    exact Nat.le_refl _
  | succ rem ih =>
    intro a st
    rw [SearchCtl.searchNode_succ]
    refine nodeM_nodes ctx a _ st (fun al be st1 => ?_)
    exact expandM_mono ctx _ (fun a' st' => Nat.le_of_succ_le (ih a' st')) a _ al be st1

theorem searchNode_mono (ctx : Ctx) (rem : Nat) (a : NodeArgs) (st : St) :
    st.nodes ≤ ((searchNode ctx rem a).run.run st).2.nodes := Nat.le_of_succ_le (searchNode_nodes ctx rem a st)

/-! ### runs that stay below the poll interval do not depend on the cancellation instant -/

theorem childLoop_cancel (ctx ctx' : Ctx) (child child' : NodeArgs → M Eval)
    (hmono : ∀ a st, st.nodes ≤ ((child a).run.run st).2.nodes)
    (hc : ∀ a st, ((child a).run.run st).2.nodes < P → (child' a).run.run st = (child a).run.run st)
    (a : NodeArgs) (hash : UInt64) :
    ∀ (buf : List Move) (alpha : Eval) (best : Option Move) (kind : Nat) (st : St),
      ((childLoop ctx child a hash buf alpha best kind).run.run st).2.nodes < P →
      (childLoop ctx' child' a hash buf alpha best kind).run.run st =
        (childLoop ctx child a hash buf alpha best kind).run.run st := by
  intro buf
  induction buf with
  | nil => intro alpha best kind st _; rw [childLoop_nil_run, childLoop_nil_run]
  | cons mv rest ih =>
    intro alpha best kind st hfin
    rw [childLoop_cons_run] at hfin ⊢
    rw [childLoop_cons_run]
    cases ht : tryAsLegal a.s mv with
    | none => rfl
    | some o =>
      cases o with
      | none => rw [ht] at hfin; exact ih alpha best kind st hfin
      | some r =>
        obtain ⟨m, next⟩ := r
        rw [ht] at hfin
        simp only [] at hfin ⊢
        have hchild : ((child (childArgs a next alpha)).run.run st).2.nodes < P := by
          generalize (child (childArgs a next alpha)).run.run st = out at hfin
          obtain ⟨res, st'⟩ := out
          cases res with
          | error e => exact hfin
          | ok v =>
            simp only [] at hfin
            split at hfin
            · exact hfin
            · split at hfin
              · exact Nat.lt_of_le_of_lt (childLoop_mono ctx child hmono a hash rest _ _ _ st') hfin
              · exact Nat.lt_of_le_of_lt (childLoop_mono ctx child hmono a hash rest _ _ _ st') hfin
        rw [hc _ _ hchild]
        generalize (child (childArgs a next alpha)).run.run st = out at hfin
        obtain ⟨res, st'⟩ := out
        cases res with
        | error e => rfl
        | ok v =>
          simp only [] at hfin ⊢
          split
          · rfl
          · rename_i h1
            rw [if_neg h1] at hfin
            split
            · rename_i h2
              rw [if_pos h2] at hfin
              exact ih _ _ _ st' hfin
            · rename_i h2
              rw [if_neg h2] at hfin
              exact ih _ _ _ st' hfin

theorem nodeM_cancel (ctx : Ctx) (c : Option Nat) (a : NodeArgs) (k k' : Eval → Eval → M Eval) (st : St)
    (hmono : ∀ alpha beta st1, st1.nodes ≤ ((k alpha beta).run.run st1).2.nodes)
    (hk : ∀ alpha beta st1, ((k alpha beta).run.run st1).2.nodes < P →
      (k' alpha beta).run.run st1 = (k alpha beta).run.run st1)
    (hfin : ((nodeM ctx a k).run.run st).2.nodes < P) :
    (nodeM { ctx with cancelAt := c } a k').run.run st = (nodeM ctx a k).run.run st := by
  have hst : st.nodes + 1 < P := Nat.lt_of_le_of_lt (nodeM_nodes ctx a k st hmono) hfin
  rw [nodeM_run] at hfin ⊢
  rw [nodeM_run]
  rw [tick_noPoll _ st hst] at hfin ⊢
  rw [tick_noPoll _ st hst]
  simp only [] at hfin ⊢
  split
  · rfl
  · rename_i h1
    rw [if_neg h1] at hfin
    generalize SearchCtl.probe a (({ st with nodes := st.nodes + 1 } : St).tt.find (hash ctx.keys a.s).toNat) = pr at hfin ⊢
    cases pr with
    | underflow => rfl
    | cut v => rfl
    | window al be => exact hk al be _ hfin

theorem expandM_cancel (ctx ctx' : Ctx) (child child' : NodeArgs → M Eval)
    (hmono : ∀ a st, st.nodes ≤ ((child a).run.run st).2.nodes)
    (hc : ∀ a st, ((child a).run.run st).2.nodes < P → (child' a).run.run st = (child a).run.run st)
    (a : NodeArgs) (hash : UInt64) (alpha beta : Eval) (st : St)
    (hfin : ((expandM ctx child a hash alpha beta).run.run st).2.nodes < P) :
    (expandM ctx' child' a hash alpha beta).run.run st = (expandM ctx child a hash alpha beta).run.run st := by
  rw [expandM_run] at hfin ⊢
  rw [expandM_run]
  cases hp : pseudoLegalMoves a.s with
  | none => rfl
  | some pseudo =>
    rw [hp] at hfin
    simp only [] at hfin ⊢
    obtain ⟨sorted, r, hs, _⟩ := sort_rngOnly a.s pseudo st
    rw [hs] at hfin ⊢
    simp only [] at hfin ⊢
    have hloop : ((childLoop ctx child { a with alpha := alpha, beta := beta } hash
        (bufferOf a.prioritized sorted).reverse alpha Option.none kindUpper).run.run { st with rng := r }).2.nodes < P := by
      generalize (childLoop ctx child { a with alpha := alpha, beta := beta } hash
        (bufferOf a.prioritized sorted).reverse alpha Option.none kindUpper).run.run { st with rng := r } = out at hfin
      obtain ⟨r2, st2⟩ := out
      cases r2 with
      | error e => exact hfin
      | ok x =>
        cases x with
        | error b => exact hfin
        | ok y =>
          obtain ⟨alpha', best, kind⟩ := y
          simp only [] at hfin
          split at hfin
          · cases he : evaluate a.s a.s.turn a.curDepth <;> rw [he] at hfin <;> exact hfin
          · cases best <;> exact hfin
    rw [childLoop_cancel ctx ctx' child child' hmono hc _ hash _ _ _ _ _ hloop]

/-- **a call of `analyze_recursive` whose node counter ends below the poll interval never reads the cancellation flag**:
its outcome and final state are the same for every cancellation instant -/
theorem searchNode_cancel (ctx : Ctx) (c : Option Nat) : ∀ (rem : Nat) (a : NodeArgs) (st : St),
    ((searchNode ctx rem a).run.run st).2.nodes < P →
    (searchNode { ctx with cancelAt := c } rem a).run.run st = (searchNode ctx rem a).run.run st := by
  intro rem
  induction rem with
  | zero =>
    intro a st hfin
    rw [SearchCtl.searchNode_zero] at hfin ⊢
    rw [SearchCtl.searchNode_zero]
    exact nodeM_cancel ctx c a _ _ st (fun al be st1 => by rw [leafM_run]; exact Nat.le_refl _)
      (fun _ _ _ _ => rfl) hfin
  | succ rem ih =>
    intro a st hfin
    rw [SearchCtl.searchNode_succ] at hfin ⊢
    rw [SearchCtl.searchNode_succ]
    refine nodeM_cancel ctx c a _ _ st
      (fun al be st1 => expandM_mono ctx _ (fun a' st' => searchNode_mono ctx rem a' st') a _ al be st1)
      (fun al be st1 h => ?_) hfin
    exact expandM_cancel ctx { ctx with cancelAt := c } _ _ (fun a' st' => searchNode_mono ctx rem a' st') ih a _ al be st1 h

/-! ### the first iteration stays below the poll interval -/

/-- `try_as_legal_move` accepts the buffer move -/
def accepted (s : State) (mv : Move) : Bool :=
  match tryAsLegal s mv with
  | some (some _) => true
  | _ => false

/-- a call with remaining depth 0 counts exactly one node -/
theorem searchNode0_nodes (ctx : Ctx) (a : NodeArgs) (st : St) :
    ((searchNode ctx 0 a).run.run st).2.nodes = st.nodes + 1 := by
  rw [SearchCtl.searchNode_zero, nodeM_run]
  have ht := tick_nodes ctx st
  generalize tick ctx st = out at ht
  obtain ⟨r, st1⟩ := out
  simp only at ht
  cases r with
  | error e => exact ht
  | ok u =>
    simp only []
    split
    · exact ht
    · split
      · exact ht
      · exact ht
      · rw [leafM_run]; exact ht

/-- the move loop over leaves counts at most one node per accepted move -/
theorem childLoop_leaf_count (ctx ctx0 : Ctx) (a : NodeArgs) (hash : UInt64) :
    ∀ (buf : List Move) (alpha : Eval) (best : Option Move) (kind : Nat) (st : St),
      ((childLoop ctx (searchNode ctx0 0) a hash buf alpha best kind).run.run st).2.nodes ≤
        st.nodes + buf.countP (accepted a.s) := by
  intro buf
  induction buf with
  | nil => intro alpha best kind st; rw [childLoop_nil_run]; exact Nat.le_add_right _ _
  | cons mv rest ih =>
    intro alpha best kind st
    rw [childLoop_cons_run, List.countP_cons]
    cases ht : tryAsLegal a.s mv with
    | none => exact Nat.le_add_right _ _
    | some o =>
      cases o with
      | none =>
        have := ih alpha best kind st
        simp only []
        omega
      | some r =>
        obtain ⟨m, next⟩ := r
        have hacc : accepted a.s mv = true := by unfold accepted; rw [ht]
        rw [hacc]
        simp only [if_true]
        have h1 := searchNode0_nodes ctx0 (childArgs a next alpha) st
        generalize (searchNode ctx0 0 (childArgs a next alpha)).run.run st = out at h1
        obtain ⟨res, st'⟩ := out
        have h1' : st'.nodes = st.nodes + 1 := h1
        cases res with
        | error e => simp only []; omega
        | ok v =>
          simp only []
          split
          · rw [ctlInsert_nodes]; omega
          · split
            · have := ih (-v) (some m) kindExact st'; omega
            · have := ih alpha best kind st'; omega

theorem count_accepted (s : State) : ∀ (ps : List Move) (rs : List (Option (Move × State))),
    ps.mapM (tryAsLegal s) = some rs → ps.countP (accepted s) = (rs.filterMap id).length := by
  intro ps
  induction ps with
  | nil => intro rs h; simp at h; subst h; rfl
  | cons x xs ih =>
    intro rs h
    rw [List.mapM_cons] at h
    cases hx : tryAsLegal s x with
    | none => rw [hx] at h; cases h
    | some b =>
      rw [hx] at h
      cases hxs : xs.mapM (tryAsLegal s) with
      | none => rw [hxs] at h; cases h
      | some bs =>
        rw [hxs] at h
        cases h
        rw [List.countP_cons, ih bs hxs]
        unfold accepted
        rw [hx]
        cases b <;> simp

/-- **the root call of the first iteration** (remaining depth 1, no prioritized move) counts at most one node for itself
and one per legal move -/
theorem root1_nodes (ctx : Ctx) (a : NodeArgs) (ha : a.prioritized = Option.none) (L : List (Move × State))
    (hL : legalMoves? a.s = some L) (st : St) :
    ((searchNode ctx 1 a).run.run st).2.nodes ≤ st.nodes + 1 + L.length := by
  -- the pseudo-legal list and the accepted moves
  obtain ⟨ps, hps, rs, hrs, hLe⟩ : ∃ ps, pseudoLegalMoves a.s = some ps ∧ ∃ rs, ps.mapM (tryAsLegal a.s) = some rs ∧
      L = rs.filterMap id := by
    unfold legalMoves? at hL
    cases hps : pseudoLegalMoves a.s with
    | none => rw [hps] at hL; cases hL
    | some ps =>
      rw [hps] at hL
      simp only [Option.bind_eq_bind, Option.bind_some, Option.pure_def] at hL
      cases hrs : ps.mapM (tryAsLegal a.s) with
      | none => rw [hrs] at hL; simp at hL
      | some rs =>
        rw [hrs] at hL
        simp only [Option.bind_some, Option.some.injEq] at hL
        exact ⟨ps, rfl, rs, hrs, hL.symm⟩
  have hcount : ps.countP (accepted a.s) = L.length := by rw [hLe]; exact count_accepted a.s ps rs hrs
  rw [SearchCtl.searchNode_succ, nodeM_run]
  have ht := tick_nodes ctx st
  generalize tick ctx st = out at ht
  obtain ⟨r, st1⟩ := out
  simp only at ht
  cases r with
  | error e => simp only []; omega
  | ok u =>
    simp only []
    split
    · simp only []; omega
    · split
      · simp only []; omega
      · simp only []; omega
      · rename_i al be _
        rw [expandM_run, hps]
        simp only []
        obtain ⟨sorted, rg, hs, hperm⟩ := sort_rngOnly a.s ps st1
        rw [hs]
        simp only []
        have hbuf : bufferOf a.prioritized sorted = sorted := by rw [ha]; rfl
        rw [hbuf]
        have h1 := childLoop_leaf_count ctx ctx { a with alpha := al, beta := be } (hash ctx.keys a.s) sorted.reverse al
          Option.none kindUpper { st1 with rng := rg }
        have hc : sorted.reverse.countP (accepted a.s) = L.length := by
          rw [List.countP_reverse, hperm.countP_eq, hcount]
        rw [show ({ a with alpha := al, beta := be } : NodeArgs).s = a.s from rfl, hc] at h1
        generalize (childLoop ctx (searchNode ctx 0) { a with alpha := al, beta := be } (hash ctx.keys a.s)
          sorted.reverse al Option.none kindUpper).run.run { st1 with rng := rg } = out2 at h1
        obtain ⟨r2, st2⟩ := out2
        have h1' : st2.nodes ≤ st1.nodes + L.length := h1
        cases r2 with
        | error e => simp only []; omega
        | ok x =>
          cases x with
          | error b => simp only []; omega
          | ok y =>
            obtain ⟨alpha', best, kind⟩ := y
            simp only []
            split
            · cases evaluate a.s a.s.turn a.curDepth <;> simp only [] <;> omega
            · cases best <;> simp only [ctlInsert_nodes] <;> omega

/-- **the workers of the first iteration do not depend on the cancellation instant**, when there is one worker and the
root has fewer than `pollInterval - 1` legal moves: the single worker counts at most `1 + #legal moves` nodes, the flag is
only read when the count reaches a multiple of `pollInterval` (S3 of DESIGN, seen from its good side: `go` followed at once
by `stop` cannot interrupt the first iteration) -/
theorem firstWorkers_cancel (root : State) (L : List (Move × State)) (hL : legalMoves? root = some L)
    (hfew : L.length + 1 < Gen.pollInterval) (rng0 : Rng.ChaCha8) (art : Artifact) (workersOf : Nat → Nat)
    (h1 : workersOf 0 = 1) (c : Option Nat) :
    firstWorkers root rng0 art workersOf c = firstWorkers root rng0 art workersOf Option.none := by
  unfold firstWorkers
  rw [h1, drawSeeds_one]
  have hz : (List.range 1).zip [(Rng.nextU64 rng0).1] = [(0, (Rng.nextU64 rng0).1)] := rfl
  rw [hz, runWorkers, runWorkers]
  simp only [Bool.or_self, Bool.false_eq_true, ↓reduceIte, Option.isSome_none]
  have hsd : (0 - 0 % 2) + 1 = 1 := rfl
  rw [hsd]
  have hb : (if (0 == 0) = true then (Option.none : Option Move) else Option.none) = Option.none := rfl
  rw [hb, Search.runWorker_eq, Search.runWorker_eq]
  have hbound := root1_nodes (iterCtx root art Option.none) (Search.rootArgs root 1 Option.none) rfl L hL
    { tt := art.tt, rng := Rng.seedFromU64 (Rng.nextU64 rng0).1, nodes := 0, polls := 0 }
  have heq := searchNode_cancel (iterCtx root art Option.none) c 1 (Search.rootArgs root 1 Option.none)
    { tt := art.tt, rng := Rng.seedFromU64 (Rng.nextU64 rng0).1, nodes := 0, polls := 0 }
    (by
      have : (0 : Nat) + 1 + L.length < P := by unfold P; omega
      exact Nat.lt_of_le_of_lt hbound this)
  have hctx : ({ iterCtx root art Option.none with cancelAt := c } : Ctx) = iterCtx root art c := rfl
  rw [hctx] at heq
  unfold runM
  rw [heq]
  generalize StateT.run (ExceptT.run (searchNode (iterCtx root art Option.none) 1 (Search.rootArgs root 1 Option.none)))
    { tt := art.tt, rng := Rng.seedFromU64 (Rng.nextU64 rng0).1, nodes := 0, polls := 0 } = out
  obtain ⟨r, st⟩ := out
  cases r with
  | ok e => simp only []; rw [runWorkers, runWorkers]
  | error e => cases e <;> rfl

end Wee.NoPoll
