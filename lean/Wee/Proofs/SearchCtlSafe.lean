import Wee.Proofs.SearchCtl
import Wee.Props.C01
import Wee.Props.C02Closed
/-!
# No-panic instance of the search induction (C04)

Position-level facts (from C01/C02: the generator does not panic on legal positions, successors are legal; a king
exists, so `evaluate` does not panic), the instance `safe_walk` of `searchNode_walk` whose `Allowed` set contains
no panic at all, its propagation through the iteration loops (`iterate_safe`), and the proof that captures remove a
piece (`capturesShrink`, from the C02 successor theorem), which bounds the quiescence recursion.
-/
namespace Wee.SearchCtl
open Wee Wee.Search
open Wee.C10 (DisjointBoard absCell_iff abs_at)
open Wee.C02 (upd upd_same upd_ne cellsFn specFn)

/-- the positions the C01/C02 theorems talk about: a legal position whose bitboards do not overlap -/
def Good (s : State) : Prop := LegalPos s = true ∧ DisjointBoard s.pieces

theorem Good.legalMoves? {s : State} (h : Good s) : ∃ L, legalMoves? s = some L :=
  (C01_legal_results s h.1 h.2).1

theorem Good.succ {s : State} (h : Good s) {r : Move × State} (hr : r ∈ legalMoves s) : Good r.2 := by
  obtain ⟨_, _, _, _, hd, hl⟩ := (C01_legal_results s h.1 h.2).2 r hr
  exact ⟨hl, hd⟩

theorem legalMoves_of_some {s : State} {L : List (Move × State)} (h : legalMoves? s = some L) : legalMoves s = L := by
  unfold legalMoves; rw [h]; rfl

theorem mapM_some_all {α β : Type} (f : α → Option β) : ∀ (l : List α) (rs : List β), l.mapM f = some rs →
    ∀ x ∈ l, ∃ y ∈ rs, f x = some y := by
  intro l
  induction l with
  | nil => intro rs _ x hx; cases hx
  | cons a t ih =>
    intro rs h x hx
    rw [List.mapM_cons] at h
    cases hfa : f a with
    | none => rw [hfa] at h; cases h
    | some b =>
      rw [hfa] at h
      cases ht : t.mapM f with
      | none => rw [ht] at h; cases h
      | some bs =>
        rw [ht] at h
        simp only [Option.bind_eq_bind, Option.bind_some, Option.pure_def, Option.some.injEq] at h
        subst h
        rcases List.mem_cons.1 hx with rfl | hx
        · exact ⟨b, List.mem_cons_self, hfa⟩
        · obtain ⟨y, hy, hfy⟩ := ih bs ht x hx
          exact ⟨y, List.mem_cons_of_mem _ hy, hfy⟩

/-- what `compute_legal_moves = Some(L)` says about `try_as_legal_move` on the pseudo-legal moves -/
theorem tryAsLegal_of_legalMoves? {s : State} {L : List (Move × State)} (h : legalMoves? s = some L) :
    ∃ ps, pseudoLegalMoves s = some ps ∧
      (∀ mv ∈ ps, ∃ o, tryAsLegal s mv = some o ∧ ∀ r, o = some r → r ∈ L) ∧
      (∀ r ∈ L, tryAsLegal s r.1 = some (some r)) := by
  unfold legalMoves? at h
  cases hps : pseudoLegalMoves s with
  | none => rw [hps] at h; cases h
  | some ps =>
    rw [hps] at h
    simp only [Option.bind_eq_bind, Option.bind_some, Option.pure_def] at h
    cases hrs : ps.mapM (tryAsLegal s) with
    | none => rw [hrs] at h; simp at h
    | some rs =>
      rw [hrs] at h
      simp only [Option.bind_some, Option.some.injEq] at h
      subst h
      refine ⟨ps, rfl, ?_, ?_⟩
      · intro mv hmv
        obtain ⟨o, ho, hfo⟩ := mapM_some_all _ _ _ hrs mv hmv
        refine ⟨o, hfo, ?_⟩
        rintro r rfl
        exact List.mem_filterMap.2 ⟨some r, ho, rfl⟩
      · intro r hr
        obtain ⟨x, hx, hxr⟩ := List.mem_filterMap.1 hr
        simp only [id] at hxr
        subst hxr
        obtain ⟨mv, _, htry⟩ := C02.mapM_some_mem _ _ _ hrs _ hx
        have : r.1 = mv := by
          unfold tryAsLegal at htry
          cases hpm : performMove s mv with
          | none => rw [hpm] at htry; cases htry
          | some res =>
            cases res with
            | error e => rw [hpm] at htry; cases htry
            | ok next =>
              rw [hpm] at htry
              simp only [] at htry
              split at htry
              · simp only [Option.some.injEq] at htry; rw [← htry]
              · cases htry
        rw [this]; exact htry

/-- a legal position has a king of either colour on the board -/
theorem Good.king {s : State} (h : Good s) (c : Color) : s.pieces.get c .king ≠ 0 := by
  have hl := h.1
  unfold LegalPos Spec.LegalPos at hl
  simp only [Bool.and_eq_true, beq_iff_eq] at hl
  obtain ⟨⟨⟨⟨⟨⟨⟨⟨⟨_, hw⟩, hb⟩, _⟩, _⟩, _⟩, _⟩, _⟩, _⟩, _⟩ := hl
  have hc : Spec.count (abs s) (absColor c) Spec.Kind.king = 1 := by
    cases c
    · exact hw
    · exact hb
  obtain ⟨q, _, hat, _⟩ := (C02.count_eq_one_iff _ _ _).1 hc
  rw [abs_at, absCell_iff h.2] at hat
  obtain ⟨p, hp, ht⟩ := hat
  have : p = Piece.king := by cases p <;> simp [absKind] at hp ⊢
  subst this
  intro h0
  rw [h0] at ht
  simp at ht

/-- `Evaluator::evaluate` does not panic on a legal position (a king exists, the generator does not panic) -/
theorem Good.evaluate {s : State} (h : Good s) (c : Color) (d : Nat) : ∃ v, evaluate s c d = some v := by
  obtain ⟨L, hL⟩ := h.legalMoves?
  unfold Wee.evaluate kingHasMove
  cases hf : firstOne (s.pieces.get s.turn .king) with
  | none => exact absurd ((firstOne_eq_none _).1 hf) (h.king s.turn)
  | some k =>
    simp only [hL]
    split
    · split
      · exact ⟨_, rfl⟩
      · split <;> exact ⟨_, rfl⟩
    · exact ⟨_, rfl⟩

/-- every capture of a legal position leaves fewer pieces on the board.  Proved at the end of this file
(`capturesShrink`, from C02: `abs r.2 = Spec.applyMove (abs s) sm`, the `MoveFits` facts about the captured piece and
`popcount occ = number of occupied cells`); the induction lemmas take it as a parameter. -/
def CapturesShrink : Prop :=
  ∀ s, Good s → ∀ r ∈ legalMoves s, Move.isCapture r.1 = true →
    popcount r.2.pieces.occ < popcount s.pieces.occ

/-- `quiescence_search` returns a value on every legal position when started with more fuel than pieces -/
theorem quiesce_safe (hcs : CapturesShrink) (fuel : Nat) (s : State) (d : Nat) (α β : Eval) (e : Stop)
    (hg : Good s) (hf : popcount s.pieces.occ < fuel) : quiesce Wee.evaluate fuel s d α β ≠ .error e := by
  intro h
  refine quiesce_walk (F := fun fuel s => Good s ∧ popcount s.pieces.occ < fuel) (Allowed := fun _ => False)
    ⟨?_, ?_, ?_, ?_⟩ fuel s d α β e ⟨hg, hf⟩ h
  · intro s hF; exact absurd hF.2 (Nat.not_lt_zero _)
  · intro fuel s hF hn
    obtain ⟨L, hL⟩ := hF.1.legalMoves?
    rw [hL] at hn; cases hn
  · intro fuel s d hF hn
    obtain ⟨v, hv⟩ := hF.1.evaluate s.turn d
    rw [hv] at hn; cases hn
  · intro fuel s ms r hF hL hr hcap
    have hr' : r ∈ legalMoves s := by rw [legalMoves_of_some hL]; exact hr
    have := hcs s hF.1 r hr' hcap
    exact ⟨Good.succ hF.1 (r := r) hr', by omega⟩

/-! ## the instance -/

/-- every entry stored under the root's key carries a legal move of the root -/
def RootInv (ctx : Ctx) (root : State) (tt : TT.Access) : Prop :=
  ∀ e, tt.find (Wee.hash ctx.keys root).toNat = some e → ∃ r ∈ legalMoves root, r.1 = e.mv.toUInt32

/-- table invariant of the no-panic induction -/
def SafeI (ctx : Ctx) (root : State) (nT nB : Nat) (st : St) : Prop :=
  st.tt.All DepthOK ∧ TT.AInv Gen.bucketSize nT nB st.tt ∧ RootInv ctx root st.tt

/-- node predicate of the no-panic induction -/
def SafeN (root : State) (rem : Nat) (a : NodeArgs) : Prop :=
  RemInv rem a ∧ Good a.s ∧ (a.curDepth = 0 → a.s = root) ∧
  ∀ m, a.prioritized = some m → a.curDepth = 0 ∧ ∃ r ∈ legalMoves root, r.1 = m

theorem SafeN.tryAsLegal {root : State} {rem : Nat} {a : NodeArgs} (hN : SafeN root rem a) {ps : List Move}
    (hp : pseudoLegalMoves a.s = some ps) {mv : Move} (hmv : InBuffer a ps mv) :
    ∃ o, tryAsLegal a.s mv = some o ∧ ∀ r, o = some r → r ∈ legalMoves a.s := by
  obtain ⟨_, hg, h0, hpr⟩ := hN
  obtain ⟨L, hL⟩ := hg.legalMoves?
  obtain ⟨ps', hps', h1, h2⟩ := tryAsLegal_of_legalMoves? hL
  rw [hp] at hps'
  cases hps'
  rw [legalMoves_of_some hL]
  rcases hmv with hmv | hmv
  · exact h1 mv hmv
  · obtain ⟨hc, r, hr, hrm⟩ := hpr mv hmv
    have hs := h0 hc
    rw [← hs, legalMoves_of_some hL] at hr
    subst hrm
    exact ⟨some r, h2 r hr, fun r' hr' => by cases hr'; exact hr⟩

theorem safe_walk (ctx : Ctx) (root : State) (nT nB : Nat) (hT : 0 < nT) (hB : 0 < nB)
    (hhist : ctx.history.contains (Wee.hash ctx.keys root) = true) (hcs : CapturesShrink) :
    Walk ctx (SafeI ctx root nT nB) (SafeI ctx root nT nB) (SafeN root) (fun e => e = .interrupt) where
  tick := by
    intro st h
    rw [tick_eq]
    split
    · split
      · exact ⟨rfl, h⟩
      · exact h
    · exact h
  rng := fun _ _ h => h
  underflow := by
    intro rem a st e hN hI hf hc
    exfalso
    have := hI.1.find hf
    have h1 := hN.1
    unfold RemInv at h1
    unfold DepthOK at this
    omega
  leaf := by
    intro a alpha beta e hN hq
    exact absurd hq (quiesce_safe hcs _ _ _ _ _ e hN.2.1 (by unfold quiesceFuel; omega))
  pseudo := by
    intro rem a hN hn
    obtain ⟨L, hL⟩ := hN.2.1.legalMoves?
    obtain ⟨ps, hps, _⟩ := tryAsLegal_of_legalMoves? hL
    rw [hps] at hn; cases hn
  legal := by
    intro rem a ps mv hN hp hmv hn
    obtain ⟨o, ho, _⟩ := hN.tryAsLegal hp hmv
    rw [ho] at hn; cases hn
  eval := by
    intro rem a hN hn
    obtain ⟨v, hv⟩ := hN.2.1.evaluate a.s.turn a.curDepth
    rw [hv] at hn; cases hn
  window := fun _ _ _ _ h => h
  child := by
    intro rem a ps mv m next alpha hN hp hmv ht
    obtain ⟨o, ho, hmem⟩ := hN.tryAsLegal hp hmv
    rw [ht] at ho
    cases ho
    have hr := hmem (m, next) rfl
    have hgn : Good next := Good.succ hN.2.1 (r := (m, next)) hr
    refine ⟨remInv_child rem a next alpha hN.1, hgn, ?_, ?_⟩
    · intro h0
      exfalso
      have : (childArgs a next alpha).curDepth =
        a.curDepth + 1 + (if a.curExt < Gen.extensionCap then extensionOf a.s else 0) := rfl
      generalize (if a.curExt < Gen.extensionCap then extensionOf a.s else 0) = x at this
      rw [this] at h0
      exact absurd h0 (by omega)
    · intro m' hm'
      cases hm'
  insert := by
    intro rem a ps mv m next kind ev st hN hI hcut hp hmv ht
    obtain ⟨o, ho, hmem⟩ := hN.tryAsLegal hp hmv
    rw [ht] at ho
    cases ho
    have hr := hmem (m, next) rfl
    obtain ⟨hd, ha, hri⟩ := hI
    have hdep : DepthOK (entryOf a kind m ev) := by
      have h1 := hN.1
      unfold RemInv at h1
      show a.curDepth ≤ a.maxDepth
      omega
    refine ⟨hd.insert _ _ hdep, ha.insert (by decide) hT hB _ _, ?_⟩
    intro e he
    by_cases hk : (Wee.hash ctx.keys a.s).toNat = (Wee.hash ctx.keys root).toNat
    · have hh : Wee.hash ctx.keys a.s = Wee.hash ctx.keys root := UInt64.toNat_inj.1 hk
      have h0 : a.curDepth = 0 := by
        apply Classical.byContradiction
        intro hne
        exact hcut ⟨Nat.pos_of_ne_zero hne, by rw [hh]; exact hhist⟩
      have hs := hN.2.2.1 h0
      change (st.tt.insert _ _).find _ = some e at he
      rw [← hk, ha.find_insert_self (by decide) hT hB] at he
      cases he
      rw [hs] at hr
      refine ⟨(m, next), hr, ?_⟩
      show m = (UInt32.toNat m).toUInt32
      simp
    · change (st.tt.insert _ _).find _ = some e at he
      rcases ha.find_insert_other (by decide) hT hB (Wee.hash ctx.keys a.s).toNat (entryOf a kind m ev)
        (Wee.hash ctx.keys root).toNat (Ne.symm hk) with h1 | h1
      · rw [h1] at he; cases he
      · rw [h1] at he; exact hri e he


/-! ## the no-panic invariant through the iteration loops -/

/-- the previous best move handed to worker 0 is a legal move of the root -/
def BestOK (root : State) (best : Option Move) : Prop := ∀ m, best = some m → ∃ r ∈ legalMoves root, r.1 = m

theorem walkLine_head (ctx : Ctx) (root : State) (tt : TT.Access) (h : RootInv ctx root tt) (n : Nat) :
    BestOK root (walkLine ctx.keys tt n root).head? := by
  intro m hm
  cases n with
  | zero => simp [walkLine] at hm
  | succ n =>
    rw [walkLine] at hm
    cases hf : tt.find (Wee.hash ctx.keys root).toNat with
    | none => rw [hf] at hm; simp at hm
    | some e =>
      rw [hf] at hm
      simp only [] at hm
      obtain ⟨r, hr, hrm⟩ := h e hf
      split at hm
      · simp only [List.head?_cons, Option.some.injEq] at hm
        exact ⟨r, hr, by rw [hrm, hm]⟩
      · simp at hm

theorem runWorker_safe (ctx : Ctx) (root : State) (nT nB : Nat) (hT : 0 < nT) (hB : 0 < nB)
    (hhist : ctx.history.contains (Wee.hash ctx.keys root) = true) (hcs : CapturesShrink) (hg : Good root)
    (sd : Nat) (best : Option Move) (tt : TT.Access) (rng : Rng.ChaCha8) (polls : Nat)
    (hI : SafeI ctx root nT nB { tt, rng, nodes := 0, polls }) (hb : BestOK root best) :
    SafeI ctx root nT nB (runWorker ctx root sd best tt rng polls).2 ∧
    ∀ w, (runWorker ctx root sd best tt rng polls).1 ≠ .error (.panic w) := by
  rw [runWorker_eq]
  have hN : SafeN root sd (rootArgs root sd best) :=
    ⟨remInv_root root sd best, hg, fun _ => rfl, fun m hm => ⟨rfl, hb m hm⟩⟩
  have := searchNode_walk (safe_walk ctx root nT nB hT hB hhist hcs) sd _ _ hN hI
  refine ⟨this.same, fun w he => ?_⟩
  have := this.allowed _ he
  cases this

theorem runWorkers_safe (ctx : Ctx) (root : State) (nT nB : Nat) (hT : 0 < nT) (hB : 0 < nB)
    (hhist : ctx.history.contains (Wee.hash ctx.keys root) = true) (hcs : CapturesShrink) (hg : Good root)
    (depth : Nat) (bestMv : Option Move) (hb : BestOK root bestMv) :
    ∀ (l : List (Nat × UInt64)) (acc : WorkersOut),
      (∀ rng nodes polls, SafeI ctx root nT nB { tt := acc.tt, rng, nodes, polls }) → acc.panic = Option.none →
      (∀ rng nodes polls, SafeI ctx root nT nB
        { tt := (runWorkers ctx root depth bestMv l acc).tt, rng, nodes, polls }) ∧
      (runWorkers ctx root depth bestMv l acc).panic = Option.none := by
  intro l
  induction l with
  | nil => intro acc h hp; exact ⟨h, hp⟩
  | cons x rest ih =>
    obtain ⟨i, seed⟩ := x
    intro acc h hp
    rw [runWorkers]
    by_cases hc : (acc.interrupted || acc.panic.isSome) = true
    · rw [if_pos hc]; exact ⟨h, hp⟩
    · rw [if_neg hc]
      have hb' : BestOK root (if i == 0 then bestMv else Option.none) := by
        split
        · exact hb
        · intro m hm; cases hm
      have := runWorker_safe ctx root nT nB hT hB hhist hcs hg ((depth - i % 2) + 1)
        (if i == 0 then bestMv else Option.none) acc.tt (Rng.seedFromU64 seed) acc.polls (h _ _ _) hb'
      simp only []
      generalize runWorker ctx root ((depth - i % 2) + 1) (if i == 0 then bestMv else Option.none) acc.tt
        (Rng.seedFromU64 seed) acc.polls = out at this
      obtain ⟨r, st⟩ := out
      obtain ⟨h1, h2⟩ := this
      cases r with
      | ok e => exact ih _ (fun _ _ _ => h1) hp
      | error e =>
        cases e with
        | interrupt => exact ⟨fun _ _ _ => h1, hp⟩
        | panic w => exact absurd rfl (h2 w)

/-- loop-state invariant of the no-panic proof -/
def SafeS (ctx : Ctx) (root : State) (nT nB : Nat) (st : IterSt) : Prop :=
  (∀ rng nodes polls, SafeI ctx root nT nB { tt := st.tt, rng, nodes, polls }) ∧ BestOK root st.bestMv ∧
  st.panic = Option.none

theorem iterStep_safe (ctx : Ctx) (root : State) (nT nB : Nat) (hT : 0 < nT) (hB : 0 < nB)
    (hhist : ctx.history.contains (Wee.hash ctx.keys root) = true) (hcs : CapturesShrink) (hg : Good root)
    (workers depth : Nat) (st : IterSt) (h : SafeS ctx root nT nB st) :
    SafeS ctx root nT nB (iterStep ctx root (Wee.hash ctx.keys root) workers depth st) := by
  obtain ⟨h1, h2, h3⟩ := h
  have hw := runWorkers_safe ctx root nT nB hT hB hhist hcs hg depth st.bestMv h2
    ((List.range workers).zip (drawSeeds workers st.rng).1)
    { tt := st.tt, polls := st.polls, evals := [], sumNodes := 0 } h1 rfl
  unfold iterStep
  simp only []
  generalize runWorkers ctx root depth st.bestMv ((List.range workers).zip (drawSeeds workers st.rng).1)
    { tt := st.tt, polls := st.polls, evals := [], sumNodes := 0 } = w at hw
  obtain ⟨hw1, hw2⟩ := hw
  rw [hw2]
  simp only []
  have hline := walkLine_head ctx root w.tt (hw1 default 0 0).2.2 (depth + 1)
  by_cases hi : w.interrupted = true
  · simp only [hi, Bool.not_true, Bool.false_eq_true, ↓reduceIte]
    exact ⟨hw1, h2, h3⟩
  · simp only [hi, Bool.not_false, ↓reduceIte]
    split
    · exact ⟨hw1, (fun m hm => by cases hm), h3⟩
    · exact ⟨hw1, hline, h3⟩

theorem iterLoop_safe (ctx : Ctx) (root : State) (nT nB : Nat) (hT : 0 < nT) (hB : 0 < nB)
    (hhist : ctx.history.contains (Wee.hash ctx.keys root) = true) (hcs : CapturesShrink) (hg : Good root)
    (workersOf : Nat → Nat) :
    ∀ (n depth : Nat) (st : IterSt), SafeS ctx root nT nB st →
      SafeS ctx root nT nB (iterLoop ctx root (Wee.hash ctx.keys root) workersOf n depth st) := by
  intro n
  induction n with
  | zero => intro _ st h; exact h
  | succ n ih =>
    intro depth st h
    have hb : SafeS ctx root nT nB (boundaryPoll ctx depth st) := by
      unfold SafeS; rw [boundaryPoll_tt, boundaryPoll_bestMv, boundaryPoll_panic]; exact h
    rw [iterLoop_succ]
    split
    · exact h
    · split
      · exact hb
      · exact ih _ _ (iterStep_safe ctx root nT nB hT hB hhist hcs hg _ depth _ hb)

/-- the search memory handed in does not hold, under the root's key, a move that is illegal in the root
(true of a fresh memory; for a re-used memory it is the `TTInv` of C03 at the root's key — it can only fail
through a key collision) -/
def PrioritizedOK (art : Artifact) (root : State) : Prop :=
  ∀ e, art.tt.find (Wee.hash art.keys.keys root).toNat = some e → ∃ r ∈ legalMoves root, r.1 = e.mv.toUInt32

theorem iterate_safe (root : State) (rng0 : Rng.ChaCha8) (maxDepth : Option Nat) (art : Artifact)
    (workersOf : Nat → Nat) (cancelAt : Option Nat) (fuelDepth : Nat) (nT nB : Nat) (hT : 0 < nT) (hB : 0 < nB)
    (hcs : CapturesShrink) (hg : Good root) (hd : art.tt.All DepthOK)
    (ha : TT.AInv Gen.bucketSize nT nB art.tt) (hp : PrioritizedOK art root) :
    (iterate root rng0 maxDepth art workersOf cancelAt fuelDepth).panic = Option.none ∧
    (iterate root rng0 maxDepth art workersOf cancelAt fuelDepth).artifact.tt.All DepthOK ∧
    TT.AInv Gen.bucketSize nT nB (iterate root rng0 maxDepth art workersOf cancelAt fuelDepth).artifact.tt ∧
    PrioritizedOK (iterate root rng0 maxDepth art workersOf cancelAt fuelDepth).artifact root := by
  rw [iterate_eq]
  have hhist : (iterCtx root art cancelAt).history.contains (Wee.hash (iterCtx root art cancelAt).keys root) = true := by
    show (Wee.hash art.keys.keys root :: art.history).contains (Wee.hash art.keys.keys root) = true
    simp
  have := iterLoop_safe (iterCtx root art cancelAt) root nT nB hT hB hhist hcs hg workersOf
    (iterLimit root maxDepth fuelDepth) 0 (iterInit rng0 art) ⟨fun _ _ _ => ⟨hd, ha, hp⟩, (fun m hm => by cases hm), rfl⟩
  obtain ⟨h1, _, h3⟩ := this
  obtain ⟨a1, a2, a3⟩ := h1 default 0 0
  exact ⟨h3, a1, a2, a3⟩


/-! ## `CapturesShrink` from C02 -/

/-- number of occupied squares of a mailbox function -/
def cnt (g : Nat → Option (Spec.Color × Spec.Kind)) : Nat := ((List.range 64).filter fun n => (g n).isSome).length

theorem filter_length_upd (l : List Nat) (hn : l.Nodup) (f f' : Nat → Bool) (q : Nat) (hq : q ∈ l)
    (hf : ∀ n ∈ l, n ≠ q → f' n = f n) :
    (l.filter f').length + (if f q then 1 else 0) = (l.filter f).length + (if f' q then 1 else 0) := by
  induction l with
  | nil => cases hq
  | cons a t ih =>
    obtain ⟨hat, hnt⟩ := List.nodup_cons.1 hn
    by_cases haq : a = q
    · subst haq
      have hsame : t.filter f' = t.filter f := by
        apply List.filter_congr
        intro n hn'
        exact hf n (List.mem_cons_of_mem _ hn') (by intro e; subst e; exact hat hn')
      rw [List.filter_cons, List.filter_cons, hsame]
      cases f a <;> cases f' a <;> simp
    · have hq' : q ∈ t := by
        rcases List.mem_cons.1 hq with h | h
        · exact absurd h.symm haq
        · exact h
      have := ih hnt hq' (fun n hn' hne => hf n (List.mem_cons_of_mem _ hn') hne)
      have ha : f' a = f a := hf a List.mem_cons_self haq
      rw [List.filter_cons, List.filter_cons, ha]
      cases f a <;> simp <;> omega

theorem cnt_upd (g : Nat → Option (Spec.Color × Spec.Kind)) (q : Nat) (hq : q < 64) (v : Option (Spec.Color × Spec.Kind)) :
    cnt (upd g q v) + (if (g q).isSome then 1 else 0) = cnt g + (if v.isSome then 1 else 0) := by
  have := filter_length_upd (List.range 64) List.nodup_range (fun n => (g n).isSome) (fun n => (upd g q v n).isSome) q
    (List.mem_range.2 hq) (fun n _ hne => by simp only [upd_ne _ _ _ _ hne])
  simp only [upd_same] at this
  exact this

theorem popcount_occ (s : State) : popcount s.pieces.occ = cnt (fun n => (abs s).at n) := by
  unfold popcount bitsOf cnt
  congr 1
  apply List.filter_congr
  intro n _
  have : test s.pieces.occ n = (absCell s.pieces n).isSome := congrFun (C10.occ_abs s.pieces) n
  rw [this]
  show _ = ((abs s).at n).isSome
  rw [C10.abs_at]

/-- a capture listed by the generator for a legal position removes exactly one piece from the board -/
theorem captures_shrink_exact (s : State) (hg : Good s) (r : Move × State) (hr : r ∈ legalMoves s)
    (hcap : Move.isCapture r.1 = true) : popcount r.2.pieces.occ + 1 = popcount s.pieces.occ := by
  obtain ⟨sm, hfit⟩ := C02_generatedMovesFit s hg.1 hg.2 r hr
  obtain ⟨sm', hsm', habs⟩ := C02_apply s hg.1 hg.2 r hr
  have : sm' = sm := by have := hfit.spec; rw [hsm'] at this; exact Option.some.inj this
  subst this
  rw [popcount_occ, popcount_occ, habs]
  have hfn : (fun n => (Spec.applyMove (abs s) sm').at n) = specFn (abs s) sm' := funext (C02.succ_at hfit)
  have hfn0 : (fun n => (abs s).at n) = cellsFn (abs s).cells := funext (C02.abs_at_fn s)
  rw [hfn, hfn0]
  -- the move reads as a capture
  obtain ⟨k, hk⟩ : ∃ k, sm'.capture = some k := by
    obtain ⟨p, _, _, _, _, _, hc, _⟩ := C02.toSpecMove_some hfit.spec
    rw [hc]
    have hcode : Move.captureCode r.1 ≠ 0 := by
      unfold Move.isCapture at hcap; simpa using hcap
    unfold Move.capture
    rw [if_neg hcode]
    rcases hfit.codes.1 with h0 | h0
    · exact absurd h0 hcode
    · generalize Move.captureCode r.1 = c at hcode h0
      match c, hcode, h0 with
      | 1, _, _ => exact ⟨_, rfl⟩
      | 2, _, _ => exact ⟨_, rfl⟩
      | 3, _, _ => exact ⟨_, rfl⟩
      | 4, _, _ => exact ⟨_, rfl⟩
      | 5, _, _ => exact ⟨_, rfl⟩
      | 6, _, _ => exact ⟨_, rfl⟩
      | n+7, _, h => simp [Piece.ofCode?] at h
  obtain ⟨hsd, hepd, hcsd⟩ := C02.fits_distinct hfit
  have hmv : cellsFn (abs s).cells sm'.src = some (sm'.color, sm'.kind) := by
    rw [← C02.abs_at_fn]; exact hfit.mover
  have hcs : sm'.castle = Option.none := by
    cases hc : sm'.castle with
    | none => rfl
    | some b => have := (hfit.castle b hc).2.2.1; rw [hk] at this; cases this
  unfold specFn
  simp only [hcs]
  have c1 := cnt_upd (cellsFn (abs s).cells) sm'.src hfit.src_lt Option.none
  rw [hmv] at c1
  simp only [Option.isSome_some, Option.isSome_none, if_true, Bool.false_eq_true, if_false] at c1
  cases hep : sm'.ep with
  | false =>
    simp only [Bool.false_eq_true, if_false]
    have hdst : cellsFn (abs s).cells sm'.dst = some (sm'.color.opp, k) := by
      rw [← C02.abs_at_fn]; exact (hfit.capture k hk hep).1
    have c2 := cnt_upd (upd (cellsFn (abs s).cells) sm'.src Option.none) sm'.dst hfit.dst_lt
      (some (sm'.color, sm'.promo.getD sm'.kind))
    rw [upd_ne _ _ _ _ (Ne.symm hsd), hdst] at c2
    simp only [Option.isSome_some, if_true] at c2
    omega
  | true =>
    simp only [if_true]
    obtain ⟨hv1, hv2, _⟩ := hepd hep
    obtain ⟨_, _, _, _, hdn, _, _, hv⟩ := hfit.enPassant hep
    have hvlt : sm'.src / 8 * 8 + sm'.dst % 8 < 64 := by have := hfit.src_lt; omega
    have c2 := cnt_upd (upd (cellsFn (abs s).cells) sm'.src Option.none) (sm'.src / 8 * 8 + sm'.dst % 8) hvlt Option.none
    rw [upd_ne _ _ _ _ hv1, ← C02.abs_at_fn, hv] at c2
    simp only [Option.isSome_some, Option.isSome_none, if_true, Bool.false_eq_true, if_false] at c2
    have c3 := cnt_upd (upd (upd (cellsFn (abs s).cells) sm'.src Option.none) (sm'.src / 8 * 8 + sm'.dst % 8) Option.none)
      sm'.dst hfit.dst_lt (some (sm'.color, sm'.promo.getD sm'.kind))
    rw [upd_ne _ _ _ _ (Ne.symm hv2), upd_ne _ _ _ _ (Ne.symm hsd), ← C02.abs_at_fn, hdn] at c3
    simp only [Option.isSome_some, Option.isSome_none, if_true, Bool.false_eq_true, if_false] at c3
    omega

/-- **`CapturesShrink` holds** (derived from C02) -/
theorem capturesShrink : CapturesShrink := by
  intro s hg r hr hcap
  have := captures_shrink_exact s hg r hr hcap
  omega

end Wee.SearchCtl
