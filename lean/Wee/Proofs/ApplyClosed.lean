import Wee.Proofs.ApplyBridge
/-!
# C02_closed: the successor of a legal position by a legal move is a legal position

`LegalPos next` for `next = by_performing_move(s, mv)`, `mv` a listed legal move of the legal position `s`.
All ten clauses of `Spec.LegalPos` are re-established from the cell-by-cell description of the successor.
-/
namespace Wee.C02
open Wee.C10 (DisjointBoard)

/-! ## part 1: lists -/

theorem filter_length_one {l : List Nat} (hn : l.Nodup) (f : Nat → Bool) (q : Nat) (hq : q ∈ l)
    (h : ∀ n ∈ l, f n = true ↔ n = q) : (l.filter f).length = 1 := by
  have : l.filter f = l.filter (fun n => n == q) := by
    apply List.filter_congr
    intro n hn'
    cases hf : f n with
    | true => have := (h n hn').1 hf; subst this; simp
    | false =>
      have : n ≠ q := fun e => by rw [(h n hn').2 e] at hf; cases hf
      simp [this]
  rw [this, ← List.countP_eq_length_filter, ← List.count_eq_countP, hn.count, if_pos hq]

theorem filter_length_one_inv {l : List Nat} (f : Nat → Bool) (h : (l.filter f).length = 1) :
    ∃ q ∈ l, f q = true ∧ ∀ n ∈ l, f n = true → n = q := by
  obtain ⟨q, hq⟩ := List.length_eq_one_iff.1 h
  have hmem : q ∈ l.filter f := by rw [hq]; exact List.mem_singleton.2 rfl
  obtain ⟨h1, h2⟩ := List.mem_filter.1 hmem
  refine ⟨q, h1, h2, fun n hn hf => ?_⟩
  have : n ∈ l.filter f := List.mem_filter.2 ⟨hn, hf⟩
  rw [hq] at this
  exact List.mem_singleton.1 this

theorem count_eq_one_iff (P : Spec.Pos) (c : Spec.Color) (k : Spec.Kind) :
    Spec.count P c k = 1 ↔ ∃ q, q < 64 ∧ P.at q = some (c, k) ∧ ∀ n, n < 64 → P.at n = some (c, k) → n = q := by
  unfold Spec.count
  constructor
  · intro h
    obtain ⟨q, hq, hf, hu⟩ := filter_length_one_inv _ h
    exact ⟨q, List.mem_range.1 hq, by simpa using hf, fun n hn hn' => hu n (List.mem_range.2 hn) (by simpa using hn')⟩
  · rintro ⟨q, hq, hf, hu⟩
    apply filter_length_one List.nodup_range _ q (List.mem_range.2 hq)
    intro n hn
    constructor
    · intro h; exact hu n (List.mem_range.1 hn) (by simpa using h)
    · rintro rfl; simpa using hf

/-- the "no pawn on rank 1 or 8" clause of `LegalPos` as a statement about squares -/
theorem backrank_iff (P : Spec.Pos) :
    ((List.range 8).all fun f => ([0, 56].all fun b =>
       match P.at (b + f) with | some (_, .pawn) => false | _ => true)) = true ↔
    ∀ n, n < 64 → (n / 8 = 0 ∨ n / 8 = 7) → ∀ col, P.at n ≠ some (col, Spec.Kind.pawn) := by
  simp only [List.all_eq_true, List.mem_range, List.mem_cons, List.not_mem_nil, or_false, forall_eq_or_imp,
    forall_eq]
  constructor
  · intro h n hn hr col hat
    rcases hr with hr | hr
    · have := (h n (by omega)).1
      rw [Nat.zero_add, hat] at this; cases this
    · have := (h (n - 56) (by omega)).2
      rw [show 56 + (n - 56) = n by omega, hat] at this; cases this
  · intro h f hf
    constructor
    · cases hat : P.at (0 + f) with
      | none => rfl
      | some x =>
        obtain ⟨col, k⟩ := x
        cases k <;> first | rfl | exact absurd hat (h (0 + f) (by omega) (by omega) col)
    · cases hat : P.at (56 + f) with
      | none => rfl
      | some x =>
        obtain ⟨col, k⟩ := x
        cases k <;> first | rfl | exact absurd hat (h (56 + f) (by omega) (by omega) col)


/-! ## part 2: further facts about rule-level pseudo-legal moves (pawn geometry) -/

theorem rank_step {o t : Nat} {df f : Int} (h : Spec.step o df f = some t) :
    ((t / 8 : Nat) : Int) = ((o / 8 : Nat) : Int) + f := by
  rw [step_eq_some] at h; omega

theorem lastRank_cases (c : Spec.Color) : (c.fwd = 1 ∧ Spec.lastRank c = 7 ∧ Spec.homeRank c = 1) ∨
    (c.fwd = -1 ∧ Spec.lastRank c = 0 ∧ Spec.homeRank c = 6) := by
  cases c <;> simp [Spec.Color.fwd, Spec.lastRank, Spec.homeRank]

theorem not_mem_promoKinds_pawn : Spec.Kind.pawn ∉ Spec.promoKinds := by decide
theorem not_mem_promoKinds_king : Spec.Kind.king ∉ Spec.promoKinds := by decide

/-- what the rule-level generator guarantees beyond `MoveFits`: an unpromoted pawn does not land on
its last rank, pawns advance one or two ranks, a double step starts on the home rank and passes
over an empty square -/
theorem pseudo_shape (P : Spec.Pos) (hepr : ∀ t, P.ep = some t → t / 8 ≠ 0 ∧ t / 8 ≠ 7) (sm : Spec.SMove)
    (h : sm ∈ Spec.pseudoMoves P) :
    (sm.kind = Spec.Kind.pawn → sm.promo = Option.none → sm.dst / 8 ≠ Spec.lastRank sm.color) ∧
    (sm.kind = Spec.Kind.pawn →
      (((sm.dst / 8 : Nat) : Int) = ((sm.src / 8 : Nat) : Int) + sm.color.fwd ∨
       ((sm.dst / 8 : Nat) : Int) = ((sm.src / 8 : Nat) : Int) + 2 * sm.color.fwd)) ∧
    (sm.dbl = true → sm.src / 8 = Spec.homeRank sm.color ∧ P.at ((sm.src + sm.dst) / 2) = Option.none ∧
      sm.promo = Option.none ∧ sm.ep = false ∧ sm.castle = Option.none) := by
  rcases (mem_pseudoMoves P sm).1 h with ⟨o, k, hat, hm⟩ | hm
  · by_cases hk : k = Spec.Kind.pawn
    · subst hk
      rw [if_pos rfl, pawnMovesFrom_eq] at hm
      simp only [List.mem_append] at hm
      rcases hm with (hm | hm) | hm
      · obtain ⟨t, hst, _, hw⟩ := (mem_sPush1 _ _ _ _).1 hm
        have hr := rank_step hst
        rcases (mem_withPromo _ _ _).1 hw with ⟨_, kp, _, rfl⟩ | ⟨hlast, rfl⟩
        · exact ⟨fun _ h => (by cases h), fun _ => Or.inl hr, fun h => (by cases h)⟩
        · exact ⟨fun _ _ => hlast, fun _ => Or.inl hr, fun h => by cases h⟩
      · obtain ⟨hhome, t1, t2, h1, h2, ho1, _, rfl⟩ := (mem_sPush2 _ _ _ _).1 hm
        have hr1 := rank_step h1
        have hr2 := rank_step h2
        have hmid : (o + t2) / 2 = t1 := by
          rw [step_eq_some] at h1 h2
          rcases fwd_cases' P.turn with hf | hf <;> rw [hf] at h1 h2 <;> omega
        refine ⟨fun _ _ => ?_, fun _ => Or.inr ?_, fun _ => ⟨hhome, ?_, rfl, rfl, rfl⟩⟩
        · show t2 / 8 ≠ Spec.lastRank P.turn
          rcases lastRank_cases P.turn with ⟨hf, hl, hh⟩ | ⟨hf, hl, hh⟩ <;> rw [hf] at hr1 hr2 <;> rw [hl] <;>
            rw [hh] at hhome <;> omega
        · show ((t2 / 8 : Nat) : Int) = ((o / 8 : Nat) : Int) + 2 * P.turn.fwd
          omega
        · show P.at ((o + t2) / 2) = Option.none
          rw [hmid]; exact (occupied_false_iff _ _).1 ho1
      · obtain ⟨east, t, hst, hm⟩ := (mem_sCaps _ _ _ _).1 hm
        have hr := rank_step hst
        rcases (mem_sCapAt _ _ _ _ _).1 hm with ⟨kc, _, hw⟩ | ⟨_, hep, rfl⟩
        · rcases (mem_withPromo _ _ _).1 hw with ⟨_, kp, _, rfl⟩ | ⟨hlast, rfl⟩
          · exact ⟨fun _ h => (by cases h), fun _ => Or.inl hr, fun h => (by cases h)⟩
          · exact ⟨fun _ _ => hlast, fun _ => Or.inl hr, fun h => by cases h⟩
        · refine ⟨fun _ _ => ?_, fun _ => Or.inl hr, fun h => by cases h⟩
          show t / 8 ≠ Spec.lastRank P.turn
          have := hepr t hep
          rcases lastRank_cases P.turn with ⟨_, hl, _⟩ | ⟨_, hl, _⟩ <;> rw [hl] <;> omega
    · rw [if_neg hk] at hm
      obtain ⟨t, _, _, rfl⟩ := (mem_pieceMovesFrom _ _ _ _ _).1 hm
      obtain ⟨h1, _, _, _, _, _, _, h8⟩ := attrs_specStep P P.turn k o t
      exact ⟨fun h => absurd (h1.symm.trans h) hk, fun h => absurd (h1.symm.trans h) hk,
        fun h => by rw [h8] at h; cases h⟩
  · obtain ⟨h1, _, _⟩ := attrs_castleMoves hm
    refine ⟨fun h => (by rw [h1] at h; cases h), fun h => (by rw [h1] at h; cases h), fun h => ?_⟩
    unfold Spec.castleMoves at hm
    dsimp only at hm
    rcases List.mem_append.1 hm with hm | hm
    · obtain ⟨_, rfl⟩ := mem_ite_single' hm; cases h
    · obtain ⟨_, rfl⟩ := mem_ite_single' hm; cases h


/-! ## part 3: the cells of the rule-level successor as a chain of updates -/

/-- the mailbox function of `Spec.applyMove P m` -/
def specFn (P : Spec.Pos) (m : Spec.SMove) : Nat → Option (Spec.Color × Spec.Kind) :=
  let g1 := upd (cellsFn P.cells) m.src Option.none
  let g2 := if m.ep = true then upd g1 (m.src / 8 * 8 + m.dst % 8) Option.none else g1
  let g3 := upd g2 m.dst (some (m.color, m.promo.getD m.kind))
  match m.castle with
  | some true => upd (upd g3 (m.src + 3) Option.none) (m.src + 1) (some (m.color, Spec.Kind.rook))
  | some false => upd (upd g3 (m.src - 4) Option.none) (m.src - 1) (some (m.color, Spec.Kind.rook))
  | Option.none => g3

theorem at_eq_cellsFn (P : Spec.Pos) (hsz : P.cells.size = 64) (n : Nat) : P.at n = cellsFn P.cells n := by
  unfold Spec.Pos.at cellsFn
  by_cases h : n < 64
  · rw [if_pos h, Array.getD_eq_getD_getElem?]
  · rw [if_neg h, Array.getElem?_eq_none (by omega)]; rfl

theorem applyMove_cellsFn (P : Spec.Pos) (hsz : P.cells.size = 64) (m : Spec.SMove) (hs : m.src < 64)
    (hd : m.dst < 64) (hc : m.castle ≠ Option.none → m.src + 3 < 64) :
    cellsFn (Spec.applyMove P m).cells = specFn P m := by
  unfold Spec.applyMove specFn
  simp only []
  cases hcs : m.castle with
  | none => simp only []; rw [spec_mid _ hsz _ _ hs hd]
  | some b =>
    have hb := hc (by rw [hcs]; simp)
    cases b with
    | true =>
      simp only []
      rw [cellsFn_setCell _ _ _ (by rw [size_setCell, size_setCell]; split <;> simp [size_setCell, hsz] <;> omega),
        cellsFn_setCell _ _ _ (by rw [size_setCell]; split <;> simp [size_setCell, hsz] <;> omega),
        spec_mid _ hsz _ _ hs hd]
    | false =>
      simp only []
      rw [cellsFn_setCell _ _ _ (by rw [size_setCell, size_setCell]; split <;> simp [size_setCell, hsz] <;> omega),
        cellsFn_setCell _ _ _ (by rw [size_setCell]; split <;> simp [size_setCell, hsz] <;> omega),
        spec_mid _ hsz _ _ hs hd]


theorem specFn_untouched (P : Spec.Pos) (m : Spec.SMove) (n : Nat) (h1 : n ≠ m.src) (h2 : n ≠ m.dst)
    (h3 : m.ep = true → n ≠ m.src / 8 * 8 + m.dst % 8)
    (h4 : m.castle = some true → n ≠ m.src + 3 ∧ n ≠ m.src + 1)
    (h5 : m.castle = some false → n ≠ m.src - 4 ∧ n ≠ m.src - 1) : specFn P m n = cellsFn P.cells n := by
  have hmid : upd (if m.ep = true then upd (upd (cellsFn P.cells) m.src Option.none) (m.src / 8 * 8 + m.dst % 8) Option.none
      else upd (cellsFn P.cells) m.src Option.none) m.dst (some (m.color, m.promo.getD m.kind)) n = cellsFn P.cells n := by
    rw [upd_ne _ _ _ _ h2]
    cases hep : m.ep
    · simp only [Bool.false_eq_true, if_false]; rw [upd_ne _ _ _ _ h1]
    · simp only [if_true]; rw [upd_ne _ _ _ _ (h3 hep), upd_ne _ _ _ _ h1]
  unfold specFn
  cases hcs : m.castle with
  | none => exact hmid
  | some b =>
    cases b with
    | true => simp only []; rw [upd_ne _ _ _ _ (h4 hcs).2, upd_ne _ _ _ _ (h4 hcs).1]; exact hmid
    | false => simp only []; rw [upd_ne _ _ _ _ (h5 hcs).2, upd_ne _ _ _ _ (h5 hcs).1]; exact hmid

theorem specFn_dst (P : Spec.Pos) (m : Spec.SMove) (h4 : m.castle = some true → m.dst = m.src + 2)
    (h5 : m.castle = some false → m.dst = m.src - 2 ∧ 4 ≤ m.src) :
    specFn P m m.dst = some (m.color, m.promo.getD m.kind) := by
  unfold specFn
  cases hcs : m.castle with
  | none => simp only [upd_same]
  | some b =>
    cases b with
    | true =>
      have := h4 hcs
      simp only []; rw [upd_ne _ _ _ _ (by omega), upd_ne _ _ _ _ (by omega), upd_same]
    | false =>
      have := h5 hcs
      simp only []; rw [upd_ne _ _ _ _ (by omega), upd_ne _ _ _ _ (by omega), upd_same]

theorem specFn_src (P : Spec.Pos) (m : Spec.SMove) (h : m.src ≠ m.dst) (h5 : m.castle = some false → 4 ≤ m.src) :
    specFn P m m.src = Option.none := by
  have hmid : upd (if m.ep = true then upd (upd (cellsFn P.cells) m.src Option.none) (m.src / 8 * 8 + m.dst % 8) Option.none
      else upd (cellsFn P.cells) m.src Option.none) m.dst (some (m.color, m.promo.getD m.kind)) m.src = Option.none := by
    rw [upd_ne _ _ _ _ h]
    cases hep : m.ep
    · simp only [Bool.false_eq_true, if_false, upd_same]
    · simp only [if_true]
      by_cases e : m.src = m.src / 8 * 8 + m.dst % 8
      · rw [← e, upd_same]
      · rw [upd_ne _ _ _ _ e, upd_same]
  unfold specFn
  cases hcs : m.castle with
  | none => exact hmid
  | some b =>
    cases b with
    | true => simp only []; rw [upd_ne _ _ _ _ (by omega), upd_ne _ _ _ _ (by omega)]; exact hmid
    | false =>
      have := h5 hcs
      simp only []; rw [upd_ne _ _ _ _ (by omega), upd_ne _ _ _ _ (by omega)]; exact hmid

theorem specFn_victim (P : Spec.Pos) (m : Spec.SMove) (hep : m.ep = true) (hcs : m.castle = Option.none)
    (h : m.src / 8 * 8 + m.dst % 8 ≠ m.dst) : specFn P m (m.src / 8 * 8 + m.dst % 8) = Option.none := by
  unfold specFn
  simp only [hcs, hep, if_true]
  rw [upd_ne _ _ _ _ h, upd_same]

theorem specFn_rookK (P : Spec.Pos) (m : Spec.SMove) (hcs : m.castle = some true) :
    specFn P m (m.src + 3) = Option.none ∧ specFn P m (m.src + 1) = some (m.color, Spec.Kind.rook) := by
  unfold specFn
  simp only [hcs]
  exact ⟨by rw [upd_ne _ _ _ _ (by omega), upd_same], by rw [upd_same]⟩

theorem specFn_rookQ (P : Spec.Pos) (m : Spec.SMove) (hcs : m.castle = some false) (h : 4 ≤ m.src) :
    specFn P m (m.src - 4) = Option.none ∧ specFn P m (m.src - 1) = some (m.color, Spec.Kind.rook) := by
  unfold specFn
  simp only [hcs]
  exact ⟨by rw [upd_ne _ _ _ _ (by omega), upd_same], by rw [upd_same]⟩


/-! ## part 4: what changes and what does not, in rule-level terms -/

theorem spec_opp_ne (c : Spec.Color) : c.opp ≠ c := by cases c <;> simp [Spec.Color.opp]

theorem kingHome_cases (c : Spec.Color) : Spec.kingHome c = 4 ∨ Spec.kingHome c = 60 := by
  cases c <;> simp [Spec.kingHome]

theorem fits_distinct {s : State} {mv : Move} {sm : Spec.SMove} (h : MoveFits s mv sm) :
    sm.src ≠ sm.dst ∧
    (sm.ep = true → sm.src / 8 * 8 + sm.dst % 8 ≠ sm.src ∧ sm.src / 8 * 8 + sm.dst % 8 ≠ sm.dst ∧
      sm.castle = Option.none) ∧
    (sm.castle ≠ Option.none → (sm.src = 4 ∨ sm.src = 60) ∧ sm.ep = false) := by
  have hmv := h.mover
  refine ⟨?_, ?_, ?_⟩
  · intro e
    cases hcap : sm.capture with
    | none => have := (h.quiet hcap).2; rw [← e, hmv] at this; cases this
    | some k =>
      cases hep : sm.ep with
      | false =>
        have := (h.capture k hcap hep).1; rw [← e, hmv] at this
        exact spec_opp_ne _ (congrArg Prod.fst (Option.some.inj this)).symm
      | true =>
        obtain ⟨_, _, _, _, hdn, _⟩ := h.enPassant hep
        rw [← e, hmv] at hdn; cases hdn
  · intro hep
    obtain ⟨_, _, _, hcs, hdn, _, _, hv⟩ := h.enPassant hep
    refine ⟨?_, ?_, hcs⟩
    · intro e; rw [e, hmv] at hv
      exact spec_opp_ne _ (congrArg Prod.fst (Option.some.inj hv)).symm
    · intro e; rw [e, hdn] at hv; cases hv
  · intro hcs
    cases hc : sm.castle with
    | none => exact absurd hc hcs
    | some b =>
      obtain ⟨_, hsrc, hcap, _⟩ := h.castle b hc
      refine ⟨by rw [hsrc]; exact kingHome_cases _, (h.quiet hcap).1⟩

/-- the cells of the rule-level successor -/
theorem succ_at {s : State} {mv : Move} {sm : Spec.SMove} (h : MoveFits s mv sm) (n : Nat) :
    (Spec.applyMove (abs s) sm).at n = specFn (abs s) sm n := by
  have hsz : (abs s).cells.size = 64 := by simp [abs]
  rw [at_eq_cellsFn _ (by rw [applyMove_cells_size, hsz]),
    applyMove_cellsFn _ hsz _ h.src_lt h.dst_lt (fun hc => by have := ((fits_distinct h).2.2 hc).1; omega)]

theorem abs_at_fn (s : State) (n : Nat) : (abs s).at n = cellsFn (abs s).cells n :=
  at_eq_cellsFn _ (by simp [abs]) n

/-- castling facts in one place -/
theorem fits_castle_facts {s : State} {mv : Move} {sm : Spec.SMove} (h : MoveFits s mv sm) :
    (sm.castle = some true → sm.dst = sm.src + 2 ∧ (abs s).at (sm.src + 3) = some (sm.color, Spec.Kind.rook) ∧
      (abs s).at (sm.src + 1) = Option.none) ∧
    (sm.castle = some false → sm.dst = sm.src - 2 ∧ 4 ≤ sm.src ∧
      (abs s).at (sm.src - 4) = some (sm.color, Spec.Kind.rook) ∧ (abs s).at (sm.src - 1) = Option.none) := by
  constructor
  · intro hc
    obtain ⟨_, _, _, h4⟩ := h.castle true hc
    exact h4
  · intro hc
    obtain ⟨_, hsrc, _, h4⟩ := h.castle false hc
    have := kingHome_cases sm.color
    simp only [] at h4
    exact ⟨h4.1, by omega, h4.2.1, h4.2.2⟩

theorem succ_src {s : State} {mv : Move} {sm : Spec.SMove} (h : MoveFits s mv sm) :
    (Spec.applyMove (abs s) sm).at sm.src = Option.none := by
  rw [succ_at h]
  exact specFn_src _ _ (fits_distinct h).1 (fun hc => ((fits_castle_facts h).2 hc).2.1)

theorem succ_dst {s : State} {mv : Move} {sm : Spec.SMove} (h : MoveFits s mv sm) :
    (Spec.applyMove (abs s) sm).at sm.dst = some (sm.color, sm.promo.getD sm.kind) := by
  rw [succ_at h]
  exact specFn_dst _ _ (fun hc => ((fits_castle_facts h).1 hc).1)
    (fun hc => ⟨((fits_castle_facts h).2 hc).1, ((fits_castle_facts h).2 hc).2.1⟩)

/-- every piece of the successor that is not on the destination stood there before, or is the castled rook -/
theorem succ_piece_origin {s : State} {mv : Move} {sm : Spec.SMove} (h : MoveFits s mv sm) (n : Nat)
    (hd : n ≠ sm.dst) (x : Spec.Color × Spec.Kind) (hx : (Spec.applyMove (abs s) sm).at n = some x) :
    (abs s).at n = some x ∨ (sm.castle ≠ Option.none ∧ x = (sm.color, Spec.Kind.rook)) := by
  obtain ⟨hsd, hepd, hcsd⟩ := fits_distinct h
  by_cases h1 : n = sm.src
  · rw [h1, succ_src h] at hx; cases hx
  by_cases h3 : sm.ep = true ∧ n = sm.src / 8 * 8 + sm.dst % 8
  · obtain ⟨hep, rfl⟩ := h3
    rw [succ_at h, specFn_victim _ _ hep (hepd hep).2.2 (hepd hep).2.1] at hx; cases hx
  by_cases h4 : sm.castle = some true ∧ (n = sm.src + 3 ∨ n = sm.src + 1)
  · obtain ⟨hc, hn⟩ := h4
    rw [succ_at h] at hx
    rcases hn with rfl | rfl
    · rw [(specFn_rookK _ _ hc).1] at hx; cases hx
    · rw [(specFn_rookK _ _ hc).2] at hx
      exact Or.inr ⟨by rw [hc]; simp, (Option.some.inj hx).symm⟩
  by_cases h5 : sm.castle = some false ∧ (n = sm.src - 4 ∨ n = sm.src - 1)
  · obtain ⟨hc, hn⟩ := h5
    have h4' := ((fits_castle_facts h).2 hc).2.1
    rw [succ_at h] at hx
    rcases hn with rfl | rfl
    · rw [(specFn_rookQ _ _ hc h4').1] at hx; cases hx
    · rw [(specFn_rookQ _ _ hc h4').2] at hx
      exact Or.inr ⟨by rw [hc]; simp, (Option.some.inj hx).symm⟩
  left
  rw [succ_at h, specFn_untouched _ _ n h1 hd (fun he e => h3 ⟨he, e⟩)
    (fun hc => ⟨fun e => h4 ⟨hc, Or.inl e⟩, fun e => h4 ⟨hc, Or.inr e⟩⟩)
    (fun hc => ⟨fun e => h5 ⟨hc, Or.inl e⟩, fun e => h5 ⟨hc, Or.inr e⟩⟩), ← abs_at_fn] at hx
  exact hx

/-- every piece of the position that is neither the mover, the captured piece, the en-passant victim nor
the castling rook is still on its square -/
theorem succ_piece_stays {s : State} {mv : Move} {sm : Spec.SMove} (h : MoveFits s mv sm) (n : Nat)
    (h1 : n ≠ sm.src) (h2 : n ≠ sm.dst) (x : Spec.Color × Spec.Kind) (hx : (abs s).at n = some x) :
    (Spec.applyMove (abs s) sm).at n = some x ∨ (sm.ep = true ∧ x = (sm.color.opp, Spec.Kind.pawn)) ∨
      (sm.castle ≠ Option.none ∧ x = (sm.color, Spec.Kind.rook)) := by
  by_cases h3 : sm.ep = true ∧ n = sm.src / 8 * 8 + sm.dst % 8
  · obtain ⟨hep, rfl⟩ := h3
    obtain ⟨_, _, _, _, _, _, _, hv⟩ := h.enPassant hep
    rw [hv] at hx
    exact Or.inr (Or.inl ⟨hep, (Option.some.inj hx).symm⟩)
  by_cases h4 : sm.castle = some true ∧ (n = sm.src + 3 ∨ n = sm.src + 1)
  · obtain ⟨hc, hn⟩ := h4
    obtain ⟨_, hr, he⟩ := (fits_castle_facts h).1 hc
    rcases hn with rfl | rfl
    · rw [hr] at hx; exact Or.inr (Or.inr ⟨by rw [hc]; simp, (Option.some.inj hx).symm⟩)
    · rw [he] at hx; cases hx
  by_cases h5 : sm.castle = some false ∧ (n = sm.src - 4 ∨ n = sm.src - 1)
  · obtain ⟨hc, hn⟩ := h5
    obtain ⟨_, _, hr, he⟩ := (fits_castle_facts h).2 hc
    rcases hn with rfl | rfl
    · rw [hr] at hx; exact Or.inr (Or.inr ⟨by rw [hc]; simp, (Option.some.inj hx).symm⟩)
    · rw [he] at hx; cases hx
  left
  rw [succ_at h, specFn_untouched _ _ n h1 h2 (fun he e => h3 ⟨he, e⟩)
    (fun hc => ⟨fun e => h4 ⟨hc, Or.inl e⟩, fun e => h4 ⟨hc, Or.inr e⟩⟩)
    (fun hc => ⟨fun e => h5 ⟨hc, Or.inl e⟩, fun e => h5 ⟨hc, Or.inr e⟩⟩), ← abs_at_fn]
  exact hx


/-! ## part 5: the clauses of `LegalPos` for the successor -/

theorem fits_dst_not_king {s : State} {mv : Move} {sm : Spec.SMove} (h : MoveFits s mv sm) (col : Spec.Color) :
    (abs s).at sm.dst ≠ some (col, Spec.Kind.king) := by
  intro e
  cases hcap : sm.capture with
  | none => have := (h.quiet hcap).2; rw [e] at this; cases this
  | some k =>
    cases hep : sm.ep with
    | false =>
      obtain ⟨h1, h2⟩ := h.capture k hcap hep
      rw [e] at h1
      exact h2 (congrArg Prod.snd (Option.some.inj h1)).symm
    | true =>
      obtain ⟨_, _, _, _, hdn, _⟩ := h.enPassant hep
      rw [e] at hdn; cases hdn

/-- the piece that lands on the destination is a king only if a king moved -/
theorem fits_landing_king {s : State} {mv : Move} {sm : Spec.SMove} (h : MoveFits s mv sm)
    (e : sm.promo.getD sm.kind = Spec.Kind.king) : sm.kind = Spec.Kind.king ∧ sm.promo = Option.none := by
  cases hp : sm.promo with
  | none => rw [hp] at e; exact ⟨e, rfl⟩
  | some kp =>
    rw [hp] at e
    simp only [Option.getD_some] at e
    obtain ⟨_, _, hk⟩ := h.promo kp hp
    rw [e] at hk
    exact absurd hk not_mem_promoKinds_king

/-- **exactly one king of each colour** -/
theorem succ_king_count {s : State} {mv : Move} {sm : Spec.SMove} (h : MoveFits s mv sm) (col : Spec.Color)
    (hc : Spec.count (abs s) col Spec.Kind.king = 1) :
    Spec.count (Spec.applyMove (abs s) sm) col Spec.Kind.king = 1 := by
  rw [count_eq_one_iff] at hc ⊢
  obtain ⟨q, hq, hqat, hqu⟩ := hc
  by_cases hk : sm.kind = Spec.Kind.king ∧ sm.color = col
  · -- the king of `col` moves
    obtain ⟨hkind, hcol⟩ := hk
    have hsrcq : sm.src = q := hqu _ h.src_lt (by rw [h.mover, hkind, hcol])
    have hpromo : sm.promo = Option.none := by
      cases hp : sm.promo with
      | none => rfl
      | some kp => have := (h.promo kp hp).1; rw [hkind] at this; cases this
    refine ⟨sm.dst, h.dst_lt, by rw [succ_dst h, hpromo, hkind, hcol]; rfl, fun n hn hat => ?_⟩
    apply Classical.byContradiction
    intro hne
    rcases succ_piece_origin h n hne _ hat with h1 | ⟨_, h2⟩
    · have := hqu n hn h1
      rw [this, ← hsrcq, succ_src h] at hat; cases hat
    · cases congrArg Prod.snd h2
  · -- that king does not move
    have hq1 : q ≠ sm.src := by
      intro e
      rw [e, h.mover] at hqat
      have := Option.some.inj hqat
      exact hk ⟨congrArg Prod.snd this, congrArg Prod.fst this⟩
    have hq2 : q ≠ sm.dst := by
      intro e; rw [e] at hqat; exact fits_dst_not_king h col hqat
    refine ⟨q, hq, ?_, fun n hn hat => ?_⟩
    · rcases succ_piece_stays h q hq1 hq2 _ hqat with h1 | ⟨_, h2⟩ | ⟨_, h2⟩
      · exact h1
      · cases congrArg Prod.snd h2
      · cases congrArg Prod.snd h2
    · by_cases hnd : n = sm.dst
      · rw [hnd, succ_dst h] at hat
        have e := Option.some.inj hat
        obtain ⟨hkind, _⟩ := fits_landing_king h (congrArg Prod.snd e)
        exact absurd ⟨hkind, congrArg Prod.fst e⟩ hk
      · rcases succ_piece_origin h n hnd _ hat with h1 | ⟨_, h2⟩
        · exact hqu n hn h1
        · cases congrArg Prod.snd h2


/-- **no pawn on rank 1 or 8** -/
theorem succ_no_backrank_pawns {s : State} {mv : Move} {sm : Spec.SMove} (h : MoveFits s mv sm)
    (hs1 : sm.kind = Spec.Kind.pawn → sm.promo = Option.none → sm.dst / 8 ≠ Spec.lastRank sm.color)
    (hs2 : sm.kind = Spec.Kind.pawn →
      (((sm.dst / 8 : Nat) : Int) = ((sm.src / 8 : Nat) : Int) + sm.color.fwd ∨
       ((sm.dst / 8 : Nat) : Int) = ((sm.src / 8 : Nat) : Int) + 2 * sm.color.fwd))
    (hP : ∀ n, n < 64 → (n / 8 = 0 ∨ n / 8 = 7) → ∀ col, (abs s).at n ≠ some (col, Spec.Kind.pawn)) :
    ∀ n, n < 64 → (n / 8 = 0 ∨ n / 8 = 7) → ∀ col,
      (Spec.applyMove (abs s) sm).at n ≠ some (col, Spec.Kind.pawn) := by
  intro n hn hr col hat
  by_cases hnd : n = sm.dst
  · rw [hnd, succ_dst h] at hat
    have e := congrArg Prod.snd (Option.some.inj hat)
    simp only [] at e
    have hpn : sm.promo = Option.none := by
      cases hp : sm.promo with
      | none => rfl
      | some kp =>
        rw [hp] at e; simp only [Option.getD_some] at e
        obtain ⟨_, _, hk⟩ := h.promo kp hp
        rw [e] at hk; exact absurd hk not_mem_promoKinds_pawn
    rw [hpn] at e
    simp only [Option.getD_none] at e
    have h1 := hs1 e hpn
    have h2 := hs2 e
    have hsrc : ¬ (sm.src / 8 = 0 ∨ sm.src / 8 = 7) := by
      intro hr'
      have := h.mover
      rw [e] at this
      exact hP sm.src h.src_lt hr' sm.color this
    have hd64 := h.dst_lt
    have hs64 := h.src_lt
    rw [hnd] at hr
    rcases lastRank_cases sm.color with ⟨hf, hl, _⟩ | ⟨hf, hl, _⟩ <;> rw [hf] at h2 <;> rw [hl] at h1 <;> omega
  · rcases succ_piece_origin h n hnd _ hat with h1 | ⟨_, h2⟩
    · exact hP n hn hr col h1
    · cases congrArg Prod.snd h2

/-- the en-passant clause of `Spec.LegalPos` -/
def epClause (p : Spec.Pos) : Bool :=
  match p.ep with
  | none => true
  | some t =>
    let c := p.turn.opp
    let r : Nat := match c with | .white => 2 | .black => 5
    t / 8 == r && !p.occupied t &&
    (match Spec.step t 0 c.fwd with | some s => p.at s == some (c, .pawn) | none => false) &&
    (match Spec.step t 0 (-c.fwd) with | some s => !p.occupied s | none => false)

theorem step_up (t : Nat) (h : t < 56) : Spec.step t 0 1 = some (t + 8) := by
  rw [← offset_eq_step]; exact offset_up t h
theorem step_down (t : Nat) (h : 8 ≤ t) (h64 : t < 64) : Spec.step t 0 (-1) = some (t - 8) := by
  rw [← offset_eq_step]; exact offset_down t h h64

/-- **the en-passant target, when set, lies behind the pawn that just double-stepped** -/
theorem succ_ep_clause {s : State} {mv : Move} {sm : Spec.SMove} (h : MoveFits s mv sm)
    (hs3 : sm.dbl = true → sm.src / 8 = Spec.homeRank sm.color ∧
      (abs s).at ((sm.src + sm.dst) / 2) = Option.none ∧
      sm.promo = Option.none ∧ sm.ep = false ∧ sm.castle = Option.none) :
    epClause (Spec.applyMove (abs s) sm) = true := by
  unfold epClause
  have hepq : (Spec.applyMove (abs s) sm).ep = if sm.dbl then some ((sm.src + sm.dst) / 2) else Option.none := rfl
  have hturn : (Spec.applyMove (abs s) sm).turn.opp = sm.color := by
    show sm.color.opp.opp = sm.color; exact spec_opp_opp _
  rw [hepq, hturn]
  cases hdbl : sm.dbl with
  | false => rfl
  | true =>
    obtain ⟨hkind, hgeo⟩ := h.dbl.1 hdbl
    obtain ⟨hhome, hmid, hpromo, hep, hcs⟩ := hs3 hdbl
    have hs64 := h.src_lt
    have hd64 := h.dst_lt
    simp only [if_true]
    -- the passed-over square is untouched and was empty
    have hmidQ : (Spec.applyMove (abs s) sm).at ((sm.src + sm.dst) / 2) = Option.none := by
      have hne1 : (sm.src + sm.dst) / 2 ≠ sm.src := by
        rcases fwd_cases' sm.color with hf | hf <;> rw [hf] at hgeo <;> omega
      have hne2 : (sm.src + sm.dst) / 2 ≠ sm.dst := by
        rcases fwd_cases' sm.color with hf | hf <;> rw [hf] at hgeo <;> omega
      rw [succ_at h, specFn_untouched _ _ _ hne1 hne2 (fun e => by rw [hep] at e; cases e)
        (fun e => by rw [hcs] at e; cases e) (fun e => by rw [hcs] at e; cases e), ← abs_at_fn]
      exact hmid
    have hdstQ : (Spec.applyMove (abs s) sm).at sm.dst = some (sm.color, Spec.Kind.pawn) := by
      rw [succ_dst h, hpromo, hkind]; rfl
    have hsrcQ := succ_src h
    have hocc : ∀ n, (Spec.applyMove (abs s) sm).at n = Option.none →
        (Spec.applyMove (abs s) sm).occupied n = false := by
      intro n hn; unfold Spec.Pos.occupied; rw [hn]; rfl
    cases hc : sm.color with
    | white =>
      rw [hc] at hgeo hhome hdstQ
      simp only [Spec.Color.fwd, Spec.homeRank] at hgeo hhome ⊢
      have e1 : (sm.src + sm.dst) / 2 = sm.src + 8 := by omega
      have e2 : sm.dst = sm.src + 16 := by omega
      rw [e1] at hmidQ ⊢
      rw [step_up _ (by omega), step_down _ (by omega) (by omega), hocc _ hmidQ]
      simp only [show sm.src + 8 + 8 = sm.dst by omega, show sm.src + 8 - 8 = sm.src by omega, hdstQ,
        hocc _ hsrcQ]
      have : (sm.src + 8) / 8 = 2 := by omega
      simp [this]
    | black =>
      rw [hc] at hgeo hhome hdstQ
      simp only [Spec.Color.fwd, Spec.homeRank] at hgeo hhome ⊢
      have e1 : (sm.src + sm.dst) / 2 = sm.src - 8 := by omega
      have e2 : sm.src = sm.dst + 16 := by omega
      rw [e1] at hmidQ ⊢
      rw [step_down _ (by omega) (by omega), show (-(-1 : Int)) = 1 from rfl, step_up _ (by omega),
        hocc _ hmidQ]
      simp only [show sm.src - 8 - 8 = sm.dst by omega, show sm.src - 8 + 8 = sm.src by omega, hdstQ,
        hocc _ hsrcQ]
      have : (sm.src - 8) / 8 = 5 := by omega
      simp [this]


theorem at_of_test' {t : State} (hd : DisjointBoard t.pieces) (n : Nat) (c : Color) (q : Piece) (k : Spec.Kind)
    (hk : absKind q = some k) (ht : test (t.pieces.get c q) n = true) : (abs t).at n = some (absColor c, k) := by
  rw [Wee.C10.abs_at, Wee.C10.absCell_iff hd]
  exact ⟨q, hk, ht⟩

/-- **held rights imply king and rook at home** (rule-level clause from `RightsSound`) -/
theorem rights_clause (t : State) (hd : DisjointBoard t.pieces) (hrs : RightsSound t) :
    (!(abs t).wk || ((abs t).at 4 == some (.white, .king) && (abs t).at 7 == some (.white, .rook))) = true ∧
    (!(abs t).wq || ((abs t).at 4 == some (.white, .king) && (abs t).at 0 == some (.white, .rook))) = true ∧
    (!(abs t).bk || ((abs t).at 60 == some (.black, .king) && (abs t).at 63 == some (.black, .rook))) = true ∧
    (!(abs t).bq || ((abs t).at 60 == some (.black, .king) && (abs t).at 56 == some (.black, .rook))) = true := by
  have key : ∀ (b : Bool) (c : Color) (ksq rsq : Nat),
      (b = true → test (t.pieces.get c Piece.king) ksq = true ∧ test (t.pieces.get c Piece.rook) rsq = true) →
      (!b || ((abs t).at ksq == some (absColor c, Spec.Kind.king) &&
        (abs t).at rsq == some (absColor c, Spec.Kind.rook))) = true := by
    intro b c ksq rsq hb
    cases b with
    | false => rfl
    | true =>
      obtain ⟨h1, h2⟩ := hb rfl
      rw [at_of_test' hd ksq c Piece.king _ rfl h1, at_of_test' hd rsq c Piece.rook _ rfl h2]
      simp
  exact ⟨key _ Color.white 4 7 hrs.wk, key _ Color.white 4 0 hrs.wq, key _ Color.black 60 63 hrs.bk,
    key _ Color.black 60 56 hrs.bq⟩

/-- the en-passant target of a legal position is on rank 3 or 6 -/
theorem legal_ep_rank (s : State) (hl : LegalPos s = true) (t : Nat) (he : (abs s).ep = some t) :
    t / 8 ≠ 0 ∧ t / 8 ≠ 7 := by
  unfold LegalPos Spec.LegalPos at hl
  simp only [Bool.and_eq_true] at hl
  have h10 := hl.2
  rw [he] at h10
  simp only [Bool.and_eq_true, beq_iff_eq] at h10
  obtain ⟨⟨⟨h1, _⟩, _⟩, _⟩ := h10
  revert h1
  cases (abs s).turn.opp <;> simp only [] <;> omega

/-- **C02_closed, one move**: in a legal position `s` (placement without overlaps), if `mv` fits the
rule-level pseudo-legal move `sm` and `sm` does not leave the mover's king attacked, then the
position `by_performing_move` returns is again legal. -/
theorem legalPos_succ (s : State) (hl : LegalPos s = true) (hd : DisjointBoard s.pieces) (mv : Move)
    (sm : Spec.SMove) (hfit : MoveFits s mv sm) (hps : sm ∈ Spec.pseudoMoves (abs s))
    (hlegal : Spec.isLegalAfter (abs s) sm = true) (next : State)
    (hnext : performMove s mv = some (.ok next)) : LegalPos next = true := by
  have hrs := rightsSound_of_legal hl hd
  obtain ⟨p, hm, hk⟩ := fits_model hfit
  obtain ⟨map, hpm, hr⟩ := perform_repr hm
  rw [hpm] at hnext
  simp only [Option.some.injEq, Except.ok.injEq] at hnext
  subst hnext
  have habs := abs_finish hfit hm hk hrs hr
  have hd' := disjoint_of_repr hr
  have hrs' := rightsSound_finish hm hrs hr
  obtain ⟨r1, r2, r3, r4⟩ := rights_clause _ hd' hrs'
  rw [habs] at r1 r2 r3 r4
  obtain ⟨hs1, hs2, hs3⟩ := pseudo_shape (abs s) (legal_ep_rank s hl) sm hps
  have hl' := hl
  unfold LegalPos Spec.LegalPos at hl'
  simp only [Bool.and_eq_true] at hl'
  obtain ⟨⟨⟨⟨⟨⟨⟨⟨⟨_, c2⟩, c3⟩, _⟩, c5⟩, _⟩, _⟩, _⟩, _⟩, _⟩ := hl'
  have hcolor : sm.color = (abs s).turn := hfit.color
  unfold LegalPos
  rw [habs]
  unfold Spec.LegalPos
  simp only [Bool.and_eq_true]
  refine ⟨⟨⟨⟨⟨⟨⟨⟨⟨?_, ?_⟩, ?_⟩, ?_⟩, ?_⟩, r1⟩, r2⟩, r3⟩, r4⟩, ?_⟩
  · rw [applyMove_cells_size]; simp [abs]
  · rw [beq_iff_eq] at c2 ⊢; exact succ_king_count hfit _ c2
  · rw [beq_iff_eq] at c3 ⊢; exact succ_king_count hfit _ c3
  · have : (Spec.applyMove (abs s) sm).turn.opp = (abs s).turn := by
      show sm.color.opp.opp = _; rw [spec_opp_opp, hcolor]
    rw [this]
    exact hlegal
  · exact (backrank_iff _).2 (succ_no_backrank_pawns hfit hs1 hs2 ((backrank_iff _).1 c5))
  · exact succ_ep_clause hfit hs3


/-- **C02_closed**: every successor stored in the legal-move list of a legal position (placement
without overlaps) is a legal position.  (This is the statement `LegalClosed` used by `C01_perft`.) -/
theorem legalClosed : ∀ s, LegalPos s = true → DisjointBoard s.pieces → ∀ r ∈ legalMoves s, LegalPos r.2 = true := by
  intro s hl hd r hr
  obtain ⟨ps, L, _, hL, _, hr', _⟩ := legalMoves_spec applyCorrect s hl hd
  have hLe : legalMoves s = L := by unfold legalMoves; rw [hL]; rfl
  rw [hLe] at hr
  obtain ⟨sm, e, hleg, _, _⟩ := hr' r hr
  obtain ⟨hpm, hla⟩ := List.mem_filter.1 hleg
  obtain ⟨hperf, ps', hps', hmem⟩ := mem_legalMoves? hL hr
  have hfit := fits_of_pseudo s hl hd r.1 sm e (codesOk_of_generated s ps' hps' r.1 hmem) hpm
  exact legalPos_succ s hl hd r.1 sm hfit hpm hla r.2 hperf

end Wee.C02
