import Wee.Proofs.SearchFnsBridge
/-!
# Bridge, stage 4a (second part): the WHOLE of `Searcher::analyze_recursive` (`Wee/Gen/SearchFns.lean`) REFINES the
hand-written `searchNode` (`Wee/Model/Search.lean`)

The first part (`SearchFnsBridge.lean`) bridges `quiescence_search` and the horizon.  This file adds the expansion of the
inner nodes: jittered ordering (`sort_by_cached_key` in the cell monad `SM`), the prioritized move, the move loop with the
legality filter, the check extension and its cap, the recursive call, the cut-offs, the table stores and the
"no child searched" tail — and the induction on the translation's fuel.
-/
namespace Wee
namespace GenFns
open Wee.Search Wee.SearchCtl

/-! ## `SM` is a lawful monad; generic refinement lemmas (`bind`, `mapM`) -/

instance : LawfulMonad SM := LawfulMonad.mk'
  (id_map := by
    intro α x
    funext c
    show (match x c with | (.ok a, c') => (pure (id a) : SM α) c' | (.error e, c') => (.error e, c')) = x c
    generalize x c = r
    obtain ⟨r, c'⟩ := r
    cases r <;> rfl)
  (pure_bind := by intro α β a f; rfl)
  (bind_assoc := by
    intro α β γ x f g
    funext c
    show (match (match x c with | (.ok a, c') => f a c' | (.error e, c') => (.error e, c')) with
          | (.ok b, c') => g b c' | (.error e, c') => (.error e, c'))
      = (match x c with | (.ok a, c') => (f a >>= g) c' | (.error e, c') => (.error e, c'))
    generalize x c = r
    obtain ⟨r, c'⟩ := r
    cases r <;> rfl)

/-- sequencing: the generated `x >>= f` refines the model's `mx >>= mf` when the parts do -/
theorem sref_bind {α γ β δ : Type} {R : γ → β → Prop} {S : α → δ → Prop} {x : SM α} {f : α → SM γ}
    {mx : M δ} {mf : δ → M β} {c : SearchCells} {st : St}
    (hx : SRef S (x c) (mx.run.run st))
    (hf : ∀ v w c1 st1, S v w → CellsRep c1 st1 → SRef R (f v c1) ((mf w).run.run st1)) :
    SRef R ((x >>= f) c) ((mx >>= mf).run.run st) := by
  rw [sm_bind, bind_run]
  generalize x c = g at hx
  obtain ⟨r, c'⟩ := g
  cases r with
  | error e =>
    cases e with
    | interrupt =>
      obtain ⟨h1, h2⟩ := hx
      generalize mx.run.run st = o at h1 h2
      obtain ⟨o1, o2⟩ := o
      simp only at h1
      subst h1
      exact ⟨rfl, h2⟩
    | panic => exact True.intro
    | out_of_fuel => exact True.intro
  | ok v =>
    obtain ⟨w, h1, h2, h3⟩ := hx
    generalize mx.run.run st = o at h1 h3
    obtain ⟨o1, o2⟩ := o
    simp only at h1
    subst h1
    exact hf v w c' o2 h2 h3

theorem sref_pure {α β : Type} {R : α → β → Prop} {v : α} {w : β} {c : SearchCells} {st : St}
    (h : R v w) (hc : CellsRep c st) : SRef R ((pure v : SM α) c) ((pure w : M β).run.run st) :=
  ⟨w, rfl, h, hc⟩

/-- `mapM` in the cell monad against `mapM` in the model's monad: element by element, front to back -/
theorem sref_mapM {α β δ : Type} (φ : β → δ) (kf : α → SM β) (km : α → M δ)
    (hk : ∀ x c st, CellsRep c st → SRef (fun v w => w = φ v) (kf x c) ((km x).run.run st)) :
    ∀ (xs : List α) (c : SearchCells) (st : St), CellsRep c st →
      SRef (fun vs ws => ws = vs.map φ) (xs.mapM kf c) ((xs.mapM km).run.run st) := by
  intro xs
  induction xs with
  | nil => intro c st hc; rw [List.mapM_nil, List.mapM_nil]; exact sref_pure rfl hc
  | cons x xs ih =>
    intro c st hc
    rw [List.mapM_cons, List.mapM_cons]
    refine sref_bind (hk x c st hc) (fun v w c1 st1 hvw hc1 => ?_)
    refine sref_bind (ih c1 st1 hc1) (fun vs ws c2 st2 hvs hc2 => ?_)
    refine sref_pure ?_ hc2
    rw [hvw, hvs]; rfl

/-! ## the jitter `rng.gen_range(-10..=10)` stays in its range (so the `as i32` view is exact) -/

open Wee.Rng in
theorem genRange_loop_bound (low : Int) (range zone : UInt32) : ∀ (f : Nat) (r : ChaCha8),
    low ≤ (genRangeI32.loop low range zone f r).1 ∧ (genRangeI32.loop low range zone f r).1 ≤ low + (range.toNat - 1 : Nat) := by
  intro f
  induction f with
  | zero => intro r; rw [genRangeI32.loop]; constructor <;> simp <;> omega
  | succ f ih =>
    intro r
    rw [genRangeI32.loop]
    simp only []
    split
    · have hv := (nextU32 r).1.toNat_lt
      generalize (nextU32 r).1 = v at hv
      have h1 : (v.toUInt64 * range.toUInt64).toNat = v.toNat * range.toNat := by
        rw [UInt64.toNat_mul, UInt32.toNat_toUInt64, UInt32.toNat_toUInt64]
        have := range.toNat_lt
        apply Nat.mod_eq_of_lt
        calc v.toNat * range.toNat < 2^32 * 2^32 := Nat.mul_lt_mul'' hv this
          _ = 2^64 := by decide
      have h2 : ((v.toUInt64 * range.toUInt64) >>> 32).toUInt32.toNat = v.toNat * range.toNat / 2^32 := by
        rw [UInt64.toNat_toUInt32, UInt64.toNat_shiftRight, h1]
        have : (32 : UInt64).toNat % 64 = 32 := by decide
        rw [this, Nat.shiftRight_eq_div_pow]
        apply Nat.mod_eq_of_lt
        have := range.toNat_lt
        have h3 : v.toNat * range.toNat / 2^32 ≤ v.toNat := by
          apply Nat.div_le_of_le_mul
          rw [Nat.mul_comm]
          exact Nat.mul_le_mul_right _ (by omega)
        omega
      rw [h2]
      simp only []
      by_cases hz : range.toNat = 0
      · rw [hz]; simp
      · have : v.toNat * range.toNat / 2^32 < range.toNat := by
          apply Nat.div_lt_of_lt_mul
          exact Nat.mul_lt_mul_of_pos_right hv (by omega)
        constructor <;> omega
    · exact ih _

open Wee.Rng in
theorem jitter_bound (r : ChaCha8) : -10 ≤ (genRangeI32 (-10) 10 r).1 ∧ (genRangeI32 (-10) 10 r).1 ≤ 10 := by
  unfold genRangeI32
  simp only []
  generalize ((10 - -10 + 1 : Int).toNat.toUInt32 <<< _ - 1 : UInt32) = zone
  have := genRange_loop_bound (-10) ((10 - -10 + 1 : Int).toNat.toUInt32) zone 64 r
  have e : ((10 - -10 + 1 : Int).toNat.toUInt32).toNat = 21 := by decide
  rw [e] at this
  omega

/-! ## the ordering of the inner nodes: key closure and `sort_by_cached_key` in `SM` -/

section
open Wee.Rng
theorem sm_gen_range_bind {β : Type} (lo hi : Int32) (f : Int32 → SM β) (c : SearchCells) :
    (SPrim.gen_range_i32 lo hi >>= f) c
      = f (Int32.ofInt (genRangeI32 lo.toInt hi.toInt c.rng).1) { c with rng := (genRangeI32 lo.toInt hi.toInt c.rng).2 } := rfl

/-- the ordering key of `analyze_recursive`: `estimate + gen_range(-10..=10)` is the model's `estimate + jitter` -/
theorem jkey_spec (ev : Evaluator) (s : Wee.State) (mv : Wee.Move) (c : SearchCells) (st : St) (hc : CellsRep c st) :
    SRef (fun (k : Int32) (w : Eval) => w = k.toInt)
      ((SM.liftP (Evaluator.estimate ev (stateOf s) mv) >>= fun e =>
        SPrim.gen_range_i32 (-10 : Int32) (10 : Int32) >>= fun j =>
        SM.liftP (Evaluation.add_assign_Evaluation e j) >>= fun r => pure r) c)
      ((do let j ← jitter; pure (Wee.estimate s mv + j) : M Eval).run.run st) := by
  rw [bind_run, jitter_run, sm_liftP_bind]
  cases he : Evaluator.estimate ev (stateOf s) mv with
  | none => exact True.intro
  | some e =>
    have hem := Evaluator.estimate_eq ev s mv e he
    simp only [sm_gen_range_bind, sm_liftP_bind]
    have e1 : (-10 : Int32).toInt = Gen.jitterLo := by decide
    have e2 : (10 : Int32).toInt = Gen.jitterHi := by decide
    rw [e1, e2, hc.rng]
    obtain ⟨b1, b2⟩ := jitter_bound st.rng
    have b1' : -10 ≤ (genRangeI32 Gen.jitterLo Gen.jitterHi st.rng).1 := b1
    have b2' : (genRangeI32 Gen.jitterLo Gen.jitterHi st.rng).1 ≤ 10 := b2
    generalize (genRangeI32 Gen.jitterLo Gen.jitterHi st.rng) = out at b1' b2'
    obtain ⟨x, r'⟩ := out
    simp only at b1' b2' ⊢
    cases ha : Evaluation.add_assign_Evaluation e (Int32.ofInt x) with
    | none => exact True.intro
    | some r =>
      have hr := Evaluation.add_assign_some ha
      have hx : (Int32.ofInt x).toInt = x := by
        rw [Int32.toInt_ofInt]
        have hs : (Int32.size : Int) = 4294967296 := by decide
        exact Int.bmod_eq_of_le (by rw [hs]; omega) (by rw [hs]; omega)
      refine ⟨_, rfl, ?_, ⟨hc.nodes, rfl, hc.tt, hc.polls, hc.wf⟩⟩
      show Wee.estimate s mv + x = r.toInt
      rw [hr, hem, hx]

/-- `sort_by_cached_key` in the cell monad refines the model's `sortByCachedKey` (keys drawn in list order) -/
theorem sm_sort_refines {α : Type} (xs : List α) (kf : α → SM Int32) (km : α → M Eval)
    (hk : ∀ x c st, CellsRep c st → SRef (fun (k : Int32) (w : Eval) => w = k.toInt) (kf x c) ((km x).run.run st))
    (c : SearchCells) (st : St) (hc : CellsRep c st) :
    SRef (fun (ys : Array α) (zs : List α) => zs = ys.toList)
      (SPrim.sort_by_cached_key xs.toArray kf c) ((sortByCachedKey xs km).run.run st) := by
  unfold SPrim.sort_by_cached_key sortByCachedKey
  simp only [List.size_toArray]
  by_cases hl : xs.length < 2
  · simp only [hl, ↓reduceIte]
    exact sref_pure rfl hc
  · simp only [hl, ↓reduceIte]
    refine sref_bind (S := fun vs ws => ws = vs.map (fun p : Int32 × α => (p.1.toInt, p.2)))
      (sref_mapM _ _ _ (fun x c st hc => ?_) xs c st hc) (fun vs ws c1 st1 hvw hc1 => ?_)
    · refine sref_bind (hk x c st hc) (fun k w c1 st1 hkw hc1 => ?_)
      exact sref_pure (by rw [hkw]) hc1
    · refine sref_pure ?_ hc1
      rw [hvw]
      have : (vs.map fun p : Int32 × α => (p.1.toInt, p.2)).mergeSort (fun a b => decide (a.1 ≤ b.1))
          = (vs.mergeSort (fun a b => decide (a.1 ≤ b.1))).map (fun p => (p.1.toInt, p.2)) := by
        symm
        exact List.map_mergeSort (fun a _ b _ => by simp [Int32.le_iff_toInt_le])
      rw [this]
      simp [List.map_map, Function.comp_def]
end

/-! ## the move loop -/

/-- the loop state of the generated move loop: `(next_buffer, alpha, best_move, evaluation_type)` -/
abbrev LState := Array Move × Evaluation × Option Move × EvaluationKind
/-- the loop state of the model's `childLoop`: `(alpha, best, kind)` -/
abbrev MState := Eval × Option Wee.Move × Nat

def LsR (ls : LState) (ms : MState) : Prop := ls.2.1.toInt = ms.1 ∧ ls.2.2.1 = ms.2.1 ∧ kindOf ls.2.2.2 = ms.2.2

/-- one iteration of the model's `childLoop`, flat -/
def cstep (child : NodeArgs → M Eval) (a : NodeArgs) (hash : UInt64) (mv : Wee.Move) (ms : MState) (st : St) :
    Except Stop (Early Eval MState) × St :=
  match tryAsLegal a.s mv with
  | none => (.error (.panic "try_as_legal_move: by_performing_move(..).unwrap()"), st)
  | some none => (.ok (.cont ms), st)
  | some (some (m, next)) =>
    match (child (childArgs a next ms.1)).run.run st with
    | (.error e, st') => (.error e, st')
    | (.ok v, st') =>
      if -v ≥ a.beta then (.ok (.ret a.beta), st'.ctlInsert hash.toNat (SearchCtl.entryOf a kindLower m a.beta))
      else if -v > ms.1 then (.ok (.cont (-v, some m, kindExact)), st')
      else (.ok (.cont ms), st')

theorem childLoop_cons_step (ctx : Ctx) (child : NodeArgs → M Eval) (a : NodeArgs) (hash : UInt64)
    (mv : Wee.Move) (rest : List Wee.Move) (ms : MState) (st : St) :
    (childLoop ctx child a hash (mv :: rest) ms.1 ms.2.1 ms.2.2).run.run st =
      match cstep child a hash mv ms st with
      | (.error e, st') => (.error e, st')
      | (.ok (.ret b), st') => (.ok (.error b), st')
      | (.ok (.cont ms'), st') => (childLoop ctx child a hash rest ms'.1 ms'.2.1 ms'.2.2).run.run st' := by
  rw [childLoop_cons_run]
  unfold cstep
  cases h : tryAsLegal a.s mv with
  | none => rfl
  | some o =>
    cases o with
    | none => rfl
    | some r =>
      obtain ⟨m, next⟩ := r
      simp only []
      generalize (child (childArgs a next ms.1)).run.run st = out
      obtain ⟨r, st'⟩ := out
      cases r with
      | error e => rfl
      | ok v =>
        simp only []
        by_cases c1 : -v ≥ a.beta
        · simp only [c1, ↓reduceIte]
        · by_cases c2 : -v > ms.1 <;> simp only [c1, c2, ↓reduceIte]

def StepR : Early (Evaluation × Array Move) LState → Early Eval MState → Prop
  | .ret r, .ret b => r.1.toInt = b
  | .cont ls, .cont ms => LsR ls ms
  | _, _ => False

def LoopR : Early (Evaluation × Array Move) LState → Except Eval MState → Prop
  | .ret r, .error b => r.1.toInt = b
  | .cont ls, .ok ms => LsR ls ms
  | _, _ => False

/-- the move loop: ANY generated loop body with a point-wise spec against `cstep` refines the model's `childLoop` -/
theorem for_early_childLoop (ctx : Ctx) (child : NodeArgs → M Eval) (a : NodeArgs) (hash : UInt64)
    (body : LState → Move → SM (Early (Evaluation × Array Move) LState)) :
    ∀ (l : List Wee.Move),
      (∀ mv ∈ l, ∀ ls ms c st, LsR ls ms → CellsRep c st → SRef StepR (body ls mv c) (cstep child a hash mv ms st)) →
      ∀ ls ms c st, LsR ls ms → CellsRep c st →
        SRef LoopR (SPrim.for_early (m := SM) body l ls c) ((childLoop ctx child a hash l ms.1 ms.2.1 ms.2.2).run.run st) := by
  intro l
  induction l with
  | nil =>
    intro _ ls ms c st hls hc
    rw [childLoop_nil_run]
    exact ⟨_, rfl, hls, hc⟩
  | cons mv rest ih =>
    intro hb ls ms c st hls hc
    have h1 := hb mv List.mem_cons_self ls ms c st hls hc
    have hrest := ih (fun x hx => hb x (List.mem_cons_of_mem _ hx))
    rw [childLoop_cons_step]
    simp only [SPrim.for_early]
    rw [sm_bind]
    generalize body ls mv c = g at h1
    generalize cstep child a hash mv ms st = o at h1
    obtain ⟨r, c'⟩ := g
    obtain ⟨w, st'⟩ := o
    cases r with
    | error e =>
      cases e with
      | interrupt =>
        obtain ⟨h2, h3⟩ := h1
        simp only at h2 h3
        subst h2
        exact ⟨rfl, h3⟩
      | panic => exact True.intro
      | out_of_fuel => exact True.intro
    | ok t =>
      obtain ⟨w', h2, h3, h4⟩ := h1
      simp only at h2 h4
      subst h2
      cases t with
      | ret r =>
        cases w' with
        | ret b => exact ⟨_, rfl, h3, h4⟩
        | cont ms' => exact h3.elim
      | cont ls' =>
        cases w' with
        | ret b => exact h3.elim
        | cont ms' => exact hrest ls' ms' c' st' h3 h4

/-! ## pieces of the expansion: `?` on a callee, the prioritized move, the extension -/

theorem sref_liftP_bind {α γ β : Type} {R : γ → β → Prop} {p : Panics α} {f : α → SM γ} {c : SearchCells}
    {m : Except Stop β × St} (h : ∀ v, p = some v → SRef R (f v c) m) : SRef R ((SM.liftP p >>= f) c) m := by
  rw [sm_liftP_bind]
  cases p with
  | none => exact True.intro
  | some v => exact h v rfl

/-- the check extension with its cap -/
theorem sm_extension_bind {β : Type} (s : Wee.State) (m : Move) (curExt : UInt64) (K : UInt64 → SM β) (c : SearchCells) :
    ((if decide (curExt < (16 : UInt64)) = true then SM.liftP (Searcher.calculate_extension_depth (stateOf s) m) else pure (0 : UInt64)) >>= K) c
      = K (if curExt.toNat < Gen.extensionCap then extensionOf s else 0).toUInt64 c := by
  have h16 : (16 : UInt64).toNat = Gen.extensionCap := rfl
  by_cases h : curExt < 16
  · have h' : curExt.toNat < Gen.extensionCap := by rw [← h16]; exact UInt64.lt_iff_toNat_lt.1 h
    simp only [h, h', decide_true, if_true, Searcher.calculate_extension_depth_eq, sm_liftP_bind]
  · have h' : ¬ curExt.toNat < Gen.extensionCap := by rw [← h16]; exact fun x => h (UInt64.lt_iff_toNat_lt.2 x)
    simp only [h, h', decide_false, if_false, Bool.false_eq_true, sm_pure_bind]
    rfl

theorem ext_toNat (s : Wee.State) (n : Nat) :
    ((if n < Gen.extensionCap then extensionOf s else 0).toUInt64).toNat = (if n < Gen.extensionCap then extensionOf s else 0)
    ∧ (if n < Gen.extensionCap then extensionOf s else 0) ≤ 1
    ∧ ((if n < Gen.extensionCap then extensionOf s else 0) = 1 → n < 16) := by
  unfold extensionOf
  have : Gen.extensionCap = 16 := rfl
  by_cases h : n < Gen.extensionCap <;> cases s.isCheck <;> simp [h] <;> omega

theorem tryAsLegal_some {s : Wee.State} {mv m : Wee.Move} {next : Wee.State} (h : tryAsLegal s mv = some (some (m, next))) :
    performMove s mv = some (.ok next) ∧ m = mv := by
  unfold tryAsLegal at h
  split at h
  · rename_i nx hpm
    simp only [] at h
    split at h
    · cases h; exact ⟨hpm, rfl⟩
    · cases h
  · cases h

/-! ## `analyze_recursive`, the whole function -/

theorem sref_pure_prop_bind {α γ β : Type} {R : γ → β → Prop} {x : SM α} {K : α → SM γ} {c : SearchCells}
    {m : Except Stop β × St} {P : α → Prop} (hx : ∃ v, x = pure v ∧ P v) (h : ∀ v, P v → SRef R (K v c) m) :
    SRef R ((x >>= K) c) m := by
  obtain ⟨v, rfl, hv⟩ := hx
  exact h v hv

/-- **`Searcher::analyze_recursive` refines `searchNode`** — the whole function, every remaining depth.

`rem` is the model's recursion measure, the remaining depth `max_depth - current_depth` (hypothesis `hrem`; it is kept by the
recursive call, the extension being added to both).  The translation's `fuel` is ARBITRARY: the theorem is of the "when it
returns" kind, and a run that exhausts the fuel returns `out_of_fuel`, for which nothing is claimed (`fuel ≥ rem + 1` is what a
run needs to get through; each recursive call uses one unit of fuel and one unit of `rem`).  The move buffer the generated
function returns next to the value is not constrained (`ResR` looks at the value only): the model does not thread it.

Side conditions: `StateOK s` (what a Rust `State` can hold), the key-table sizes, `HistRep`, `CellsRep`, the depth bound
`max_depth + (16 - current_extension) + 70 < 2^31` (kept by the recursion since extensions stop at 16; 70 ≥ the quiescence fuel),
and the prioritized move, if any, is a well-formed packed move (`WFMove`; the recursion passes `None`). -/
theorem Searcher.analyze_recursive_refines (k : KeyTable) (ht : k.turn.size = 2) (he : k.epFile.size = 8)
    (hist : StateHistory) (l : List UInt64) (hh : HistRep hist l) (cancel : Option Nat) (fuel : Nat) :
    ∀ (rem : Nat) (s : Wee.State) (ok : StateOK s) (maxD curD curExt : UInt64)
      (hrem : curD.toNat + rem = maxD.toNat) (hb : maxD.toNat + (16 - curExt.toNat) + 70 < 2 ^ 31)
      (alpha beta : Int32) (prio : Option Wee.Move) (hp : ∀ m, prio = some m → WFMove m) (buf : Array Move)
      (c : SearchCells) (st : St) (hc : CellsRep c st),
    SRef ResR
      (Searcher.analyze_recursive fuel (stateOf s) ⟨eval.EVALUATORS⟩ ⟨cancel⟩ (zobristOf k) hist maxD curD curExt alpha beta prio buf c)
      ((searchNode { keys := k.keys, history := l, cancelAt := cancel } rem (argsOf s maxD curD curExt alpha beta prio)).run.run st) := by
  induction fuel with
  | zero => intro rem s ok maxD curD curExt hrem hb alpha beta prio hp buf c st hc; exact sref_fuel
  | succ fuel ih =>
  intro rem s ok maxD curD curExt hrem hb alpha beta prio hp buf c st hc
  rw [Searcher.analyze_recursive, searchNode_eq, nodeM_run]
  simp only [sm_read_nodes_bind, sm_liftP_bind]
  generalize hadd : UInt64.checked_add c.nodes_searched 1 = p
  cases p with
  | none => exact sref_panic
  | some n1 =>
  have hn1 : n1.toNat = st.nodes + 1 := by rw [u64_add_some hadd, hc.nodes]; rfl
  simp only [sm_write_nodes_bind, sm_read_nodes_bind]
  refine sref_tick_bind hc hn1 (fun c1 st1 hc1 => ?_)
  simp only [sm_liftP_bind, ZobristHasher.hash_keyTable k ht he s ok.ep]
  have hrep : (decide (curD > 0) && (StateHistory.lookup hist (Wee.hash k.keys s)).isSome)
      = (decide (curD.toNat > 0) && l.contains (Wee.hash k.keys s)) := by
    rw [StateHistory.lookup_isSome hh]
    congr 1
  rw [hrep]
  show SRef ResR _ (if (decide (curD.toNat > 0) && l.contains (Wee.hash k.keys s)) = true then _ else _)
  by_cases hr : (decide (curD.toNat > 0) && l.contains (Wee.hash k.keys s)) = true
  · simp only [hr, if_true]
    exact sref_ok (R := ResR) (show ResR (Evaluation.EVEN, buf) 0 from rfl) hc1
  · simp only [hr, if_false, Bool.false_eq_true]
    show SRef ResR _ (probeCont (SearchCtl.probe (argsOf s maxD curD curExt alpha beta prio) (st1.tt.find (Wee.hash k.keys s).toNat)) st1
      (contM { keys := k.keys, history := l, cancelAt := cancel } rem (argsOf s maxD curD curExt alpha beta prio)))
    refine sref_probe_bind (buf := buf) ?hP (fun α β => ?hK) hc1
    case hP =>
      simp only [sm_read_tt_bind, sm_liftP_bind]
      generalize hfind : TranspositionTableAccess.find c1.transpositions (Wee.hash k.keys s) = fr
      cases fr with
      | none => exact True.intro
      | some r =>
      have hfm := TranspositionTableAccess.find_some _ _ hc1.wf r hfind
      rw [hc1.tt] at hfm
      rw [← hfm]
      cases r with
      | none => exact ⟨rfl, rfl⟩
      | some e =>
      simp only [sm_liftP_bind]
      generalize h1 : UInt64.checked_sub maxD curD = p1
      cases p1 with
      | none => exact True.intro
      | some rd =>
      obtain ⟨hle1, hrd⟩ := u64_sub_some h1
      generalize h2 : UInt64.checked_sub e.f_max_depth e.f_depth = p2
      cases p2 with
      | none => exact True.intro
      | some rdt =>
      obtain ⟨hle2, hrdt⟩ := u64_sub_some h2
      have hge : decide (rdt ≥ rd) = decide (e.f_max_depth.toNat - e.f_depth.toNat ≥ maxD.toNat - curD.toNat) := by
        rw [← hrd, ← hrdt]; exact decide_eq_decide.2 UInt64.le_iff_toNat_le
      have hnu : ¬ (maxD.toNat < curD.toNat ∨ e.f_max_depth.toNat < e.f_depth.toNat) := by omega
      have hmin := ord_min_toInt beta e.f_evaluation
      have hmax := ord_max_toInt alpha e.f_evaluation
      have hd1 : decide (alpha ≥ Evaluation.ord_min beta e.f_evaluation) = decide (alpha.toInt ≥ min beta.toInt e.f_evaluation.toInt) := by
        rw [← hmin]; exact decide_eq_decide.2 Int32.le_iff_toInt_le
      have hd2 : decide (Evaluation.ord_max alpha e.f_evaluation ≥ beta) = decide (max alpha.toInt e.f_evaluation.toInt ≥ beta.toInt) := by
        rw [← hmax]; exact decide_eq_decide.2 Int32.le_iff_toInt_le
      simp only [Option.map_some, SearchCtl.probe, argsOf, GenFns.entryOf, hnu, if_false, hge]
      by_cases c2 : e.f_max_depth.toNat - e.f_depth.toNat ≥ maxD.toNat - curD.toNat
      · simp only [c2, decide_true, if_true]
        cases hk : e.f_kind with
        | Exact => exact ⟨rfl, rfl, rfl⟩
        | UpperBound =>
          simp only [sm_pure_bind, hd1, kindOf]
          by_cases c5 : alpha.toInt ≥ min beta.toInt e.f_evaluation.toInt
          · simp only [c5, decide_true, if_true]; exact ⟨rfl, rfl, rfl⟩
          · simp only [c5, decide_false, if_false, Bool.false_eq_true]
            refine ⟨rfl, ?_⟩
            simp [hmin, kindExact, kindUpper]
        | LowerBound =>
          simp only [sm_pure_bind, hd2, kindOf]
          by_cases c6 : max alpha.toInt e.f_evaluation.toInt ≥ beta.toInt
          · simp only [c6, decide_true, if_true]; exact ⟨rfl, rfl, rfl⟩
          · simp only [c6, decide_false, if_false, Bool.false_eq_true]
            refine ⟨rfl, ?_⟩
            simp [hmax, kindExact, kindUpper]
      · simp only [c2, decide_false, if_false, Bool.false_eq_true]
        exact ⟨rfl, rfl⟩
    case hK =>
      cases rem with
      | zero =>
        have hcd : decide (curD ≥ maxD) = true := by
          rw [decide_eq_true_iff]; exact UInt64.le_iff_toNat_le.2 (by omega)
        simp only [hcd, if_true, sm_liftQ_bind]
        show SRef ResR _ ((leafM (argsOf s maxD curD curExt alpha beta prio) α.toInt β.toInt).run.run st1)
        rw [leafM_run]
        have hqf : SPrim.quiescence_fuel (stateOf s) = quiesceFuel s := by
          unfold SPrim.quiescence_fuel quiesceFuel
          rw [Board.occupancy_stateOf, count_ones_prim_eq]
          have := popcount_le s.pieces.occ
          congr 1
          simp [Nat.toUInt32, UInt32.toNat_ofNat', Nat.mod_eq_of_lt (show popcount s.pieces.occ < 2 ^ 32 by omega)]
        rw [hqf]
        have hq := Searcher.quiescence_search_refines (quiesceFuel s) s ok curD (by
          have := popcount_le s.pieces.occ; unfold quiesceFuel; omega) α β
        show SRef ResR _ (match quiesce evaluate (quiesceFuel s) s curD.toNat α.toInt β.toInt with
          | .ok v => .ok v | .error e => .error e, st1)
        generalize Searcher.quiescence_search (quiesceFuel s) (stateOf s) ⟨eval.EVALUATORS⟩ curD α β = g at hq
        cases g with
        | error e =>
          cases e with
          | interrupt =>
            have : quiesce evaluate (quiesceFuel s) s curD.toNat α.toInt β.toInt = .error .interrupt := hq
            rw [this]; exact sref_interrupt hc1
          | panic => exact True.intro
          | out_of_fuel => exact True.intro
        | ok v =>
          obtain ⟨w, hw, hv⟩ := hq
          rw [hw]
          exact sref_ok (R := ResR) hv hc1
      | succ rem' =>
        have hcd : decide (curD ≥ maxD) = false := by
          rw [decide_eq_false_iff_not]; intro h; have := UInt64.le_iff_toNat_le.1 h; omega
        simp only [hcd, Bool.false_eq_true, if_false]
        show SRef ResR _ ((expandM { keys := k.keys, history := l, cancelAt := cancel }
          (searchNode { keys := k.keys, history := l, cancelAt := cancel } rem')
          (argsOf s maxD curD curExt alpha beta prio) (Wee.hash k.keys s) α.toInt β.toInt).run.run st1)
        rw [expandM_run]
        simp only [argsOf]
        refine sref_liftP_bind (fun mb0 hmb0 => ?_)
        rw [MoveGenerator.compute_psuedo_legal_moves_into_eq s buf ok.ep] at hmb0
        cases hps : pseudoLegalMoves s with
        | none => rw [hps] at hmb0; cases hmb0
        | some pseudo =>
        rw [hps] at hmb0
        simp only [Option.map_some, Option.some.injEq] at hmb0
        subst hmb0
        simp only []
        obtain ⟨sorted, r2, hrun, hperm⟩ := sort_rngOnly s pseudo st1
        have hsort := sm_sort_refines pseudo _ _ (fun x c st hc => jkey_spec ⟨eval.EVALUATORS⟩ s x c st hc) c1 st1 hc1
        rw [hrun] at hsort ⊢
        rw [sm_bind]
        generalize SPrim.sort_by_cached_key (m := SM) _ _ c1 = g at hsort ⊢
        obtain ⟨gr, c2⟩ := g
        cases gr with
        | error e =>
          cases e with
          | interrupt => exact absurd hsort.1 (by simp)
          | panic => exact sref_panic
          | out_of_fuel => exact sref_fuel
        | ok arr =>
        obtain ⟨w, hw, harr, hc2⟩ := hsort
        simp only [Except.ok.injEq] at hw
        subst hw
        simp only at harr hc2 ⊢
        subst harr
        refine sref_pure_prop_bind (P := fun mb => mb.toList = bufferOf prio arr.toList) ?_ (fun mb hmb => ?_)
        · cases prio with
          | none => exact ⟨_, rfl, rfl⟩
          | some pm => exact ⟨_, rfl, by simp [bufferOf, PseudoLegalMove.new]⟩
        rw [sm_read_nodes_bind, hmb, sm_bind]
        have hwf : ∀ mv ∈ (bufferOf prio arr.toList).reverse, WFMove mv := by
          intro mv hmv
          rcases mem_bufferOf (a := argsOf s maxD curD curExt alpha beta prio) hperm mv hmv with h | h
          · exact pseudoLegalMoves_wf s pseudo hps mv h
          · exact hp mv h
        generalize hg : SPrim.for_early (m := SM) _ _ _ c2 = g
        generalize hmo : (StateT.run (ExceptT.run (childLoop _ _ _ _ _ _ _ _)) _ : Except Stop (Except Eval MState) × St) = mo
        have hloop : SRef LoopR g mo := by
          rw [← hg, ← hmo]
          refine for_early_childLoop _ _ _ _ _ _ (fun mv hmv ls ms c st hls hc => ?_)
            (#[], α, none, EvaluationKind.UpperBound) (α.toInt, none, kindUpper) c2 _ ⟨rfl, rfl, rfl⟩ hc2
          obtain ⟨nbuf, al, bm, et⟩ := ls
          obtain ⟨mal, mbest, mkind⟩ := ms
          obtain ⟨hal, hbm, het⟩ := hls
          simp only at hal hbm het
          subst hal; subst hbm; subst het
          refine sref_liftP_bind (fun tl htl => ?_)
          rw [PseudoLegalMove.try_as_legal_move_eq s mv ok (hwf mv hmv)] at htl
          unfold cstep
          cases htm : tryAsLegal s mv with
          | none => rw [htm] at htl; cases htl
          | some o =>
          rw [htm] at htl
          simp only [Option.map_some, Option.some.injEq] at htl
          subst htl
          cases o with
          | none => exact sref_ok (R := StepR) (show LsR _ _ from ⟨rfl, rfl, rfl⟩) hc
          | some res =>
          obtain ⟨m, next⟩ := res
          obtain ⟨hpm, hmm⟩ := tryAsLegal_some htm
          have oknext := stateOK_perform s next mv ok hpm
          simp only [Option.map_some, resOf]
          rw [sm_extension_bind]
          obtain ⟨hx1, hx2, hx3⟩ := ext_toNat s curExt.toNat
          generalize hxe : (if curExt.toNat < Gen.extensionCap then extensionOf s else 0) = extN at hx1 hx2 hx3
          refine sref_liftP_bind (fun d1 hd1 => ?_)
          refine sref_liftP_bind (fun d2 hd2 => ?_)
          refine sref_liftP_bind (fun d3 hd3 => ?_)
          refine sref_liftP_bind (fun d4 hd4 => ?_)
          refine sref_liftP_bind (fun nb hnb => ?_)
          refine sref_liftP_bind (fun na hna => ?_)
          have e1 := u64_add_some hd1
          have e2 := u64_add_some hd2
          have e3 := u64_add_some hd3
          have e4 := u64_add_some hd4
          have e5 := Evaluation.neg_some hnb
          have e6 := Evaluation.neg_some hna
          have h1one : (1 : UInt64).toNat = 1 := rfl
          rw [hx1] at e1 e3 e4
          rw [h1one] at e2
          have hrec := ih rem' next oknext d1 d3 d4 (by omega) (by omega) nb na none (by intro m h; cases h) nbuf c st hc
          have hargs : argsOf next d1 d3 d4 nb na none
              = childArgs (argsOf s maxD curD curExt α β prio) next al.toInt := by
            unfold argsOf childArgs
            simp only [hxe, e1, e2, e3, e4, e5, e6]
          rw [hargs] at hrec
          simp only [argsOf] at hrec
          rw [sm_bind]
          generalize Searcher.analyze_recursive _ _ _ _ _ _ _ _ _ _ _ _ _ _ = gr at hrec ⊢
          generalize (StateT.run (ExceptT.run (searchNode _ _ _)) _ : Except Stop Eval × St) = mr at hrec ⊢
          obtain ⟨gv, c'⟩ := gr
          obtain ⟨mv', st'⟩ := mr
          cases gv with
          | error e =>
            cases e with
            | interrupt =>
              obtain ⟨h1, h2⟩ := hrec
              simp only at h1 h2
              subst h1
              exact sref_interrupt h2
            | panic => exact sref_panic
            | out_of_fuel => exact sref_fuel
          | ok rv =>
          obtain ⟨w, h1, h2, h3⟩ := hrec
          simp only at h1 h3
          subst h1
          have h2' : rv.1.toInt = w := h2
          simp only []
          refine sref_liftP_bind (fun nv hnv => ?_)
          have e7 := Evaluation.neg_some hnv
          rw [h2'] at e7
          rw [← e7]
          have hge : decide (nv ≥ β) = decide (nv.toInt ≥ β.toInt) := decide_eq_decide.2 Int32.le_iff_toInt_le
          have hgt : decide (nv > al) = decide (nv.toInt > al.toInt) := decide_eq_decide.2 Int32.lt_iff_toInt_lt
          rw [hge, hgt]
          by_cases c1 : nv.toInt ≥ β.toInt
          · simp only [c1, decide_true, if_true, sm_read_tt_bind]
            refine sref_liftP_bind (fun tt' htt' => ?_)
            obtain ⟨hi1, hi2⟩ := TranspositionTableAccess.insert_some _ _ _ _ h3.wf htt'
            simp only [sm_write_tt_bind, sm_pure]
            refine sref_ok (R := StepR) (show (β, mb).1.toInt = β.toInt from rfl) ⟨h3.nodes, h3.rng, ?_, h3.polls, hi2⟩
            rw [hi1, h3.tt]
            rfl
          · simp only [c1, decide_false, if_false, Bool.false_eq_true]
            by_cases c2 : nv.toInt > al.toInt
            · simp only [c2, decide_true, if_true]
              exact sref_ok (R := StepR) (show LsR _ _ from ⟨rfl, by rw [hmm], rfl⟩) h3
            · simp only [c2, decide_false, if_false, Bool.false_eq_true]
              exact sref_ok (R := StepR) (show LsR _ _ from ⟨rfl, rfl, rfl⟩) h3
        obtain ⟨gv, c3⟩ := g
        obtain ⟨mv, st3⟩ := mo
        cases gv with
        | error e =>
          cases e with
          | interrupt =>
            obtain ⟨h1, h2⟩ := hloop
            simp only at h1 h2
            subst h1
            exact sref_interrupt h2
          | panic => exact sref_panic
          | out_of_fuel => exact sref_fuel
        | ok t =>
        obtain ⟨w, h1, h2, hc3⟩ := hloop
        simp only at h1 hc3
        subst h1
        cases t with
        | ret r =>
          cases w with
          | ok ms => exact h2.elim
          | error b => exact sref_ok (R := ResR) h2 hc3
        | cont ls =>
          cases w with
          | error b => exact h2.elim
          | ok ms =>
          obtain ⟨nbuf, al, bm, et⟩ := ls
          obtain ⟨mal, mbest, mkind⟩ := ms
          obtain ⟨hal, hbm, het⟩ := h2
          simp only at hal hbm het
          subst hal; subst hbm; subst het
          simp only [sm_read_nodes_bind]
          have hnodes : (c2.nodes_searched == c3.nodes_searched) = (st3.nodes == st1.nodes) := by
            rw [u64_beq_iff, hc2.nodes, hc3.nodes]
            by_cases hn : st3.nodes = st1.nodes
            · simp [hn]
            · have hn' : ¬ st1.nodes = st3.nodes := fun h => hn h.symm
              simp [hn, hn']
          rw [hnodes]
          by_cases hn : (st3.nodes == st1.nodes) = true
          · simp only [hn, if_true]
            rw [sm_liftP_bind]
            generalize hev : Evaluator.evaluate ⟨eval.EVALUATORS⟩ (stateOf s) (State.turn_to_move (stateOf s)) curD = evo
            cases evo with
            | none => exact sref_panic
            | some ev =>
            rw [evaluate_turn s ok curD (by omega) ev hev]
            exact sref_ok (R := ResR) rfl hc3
          · simp only [hn, if_false, Bool.false_eq_true]
            cases bm with
            | none => exact sref_ok (R := ResR) rfl hc3
            | some bmv =>
              simp only [bind_assoc, sm_read_tt_bind]
              refine sref_liftP_bind (fun tt' htt' => ?_)
              obtain ⟨hi1, hi2⟩ := TranspositionTableAccess.insert_some _ _ _ _ hc3.wf htt'
              simp only [sm_write_tt_bind, pure_bind, sm_pure]
              refine sref_ok (R := ResR) rfl ⟨hc3.nodes, hc3.rng, ?_, hc3.polls, hi2⟩
              rw [hi1, hc3.tt]
              rfl

/-- the root call of a worker (`analyze_recursive(.., search_depth, 0, 0, -mate_in_ply(0), mate_in_ply(0), best_move, ..)` on
fresh `nodes_searched = 0`) refines the model's `runWorker` -/
theorem Searcher.analyze_recursive_runWorker (k : KeyTable) (ht : k.turn.size = 2) (he : k.epFile.size = 8)
    (hist : StateHistory) (l : List UInt64) (hh : HistRep hist l) (cancel : Option Nat) (fuel : Nat)
    (root : Wee.State) (ok : StateOK root) (sd : UInt64) (hsd : sd.toNat + 86 < 2 ^ 31)
    (negm posm : Int32) (hpos : posm.toInt = Ev.mateInPly 0) (hneg : negm.toInt = - Ev.mateInPly 0)
    (best : Option Wee.Move) (hbest : ∀ m, best = some m → WFMove m) (buf : Array Move)
    (c : SearchCells) (tt : TT.Access) (rng : Rng.ChaCha8) (polls : Nat)
    (hc : CellsRep c { tt := tt, rng := rng, nodes := 0, polls := polls }) :
    SRef ResR
      (Searcher.analyze_recursive fuel (stateOf root) ⟨eval.EVALUATORS⟩ ⟨cancel⟩ (zobristOf k) hist sd 0 0 negm posm best buf c)
      (runWorker { keys := k.keys, history := l, cancelAt := cancel } root sd.toNat best tt rng polls) := by
  have h := Searcher.analyze_recursive_refines k ht he hist l hh cancel fuel sd.toNat root ok sd 0 0
    (by show (0 : UInt64).toNat + sd.toNat = sd.toNat; simp) (by show sd.toNat + (16 - (0 : UInt64).toNat) + 70 < 2 ^ 31; simp; omega)
    negm posm best hbest buf c _ hc
  unfold runWorker
  have ea : argsOf root sd 0 0 negm posm best
      = { s := root, maxDepth := sd.toNat, curDepth := 0, curExt := 0, alpha := - Ev.mateInPly 0, beta := Ev.mateInPly 0,
          prioritized := best } := by
    unfold argsOf; rw [hpos, hneg]; rfl
  rw [ea] at h
  exact h

end GenFns
end Wee
