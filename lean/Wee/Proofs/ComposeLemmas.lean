import Wee.Props.C12Closed
import Wee.Props.C08
import Wee.Props.C15
import Wee.Proofs.BookLemmas
/-!
# Helper lemmas for the composed theorems of `Wee/Props/Compose.lean`

* C02: a coordinate query `(origin, destination, letter)` read on the specification side
  (`coordsMatch`), and the transfer of "how many entries match" from the generated legal-move list
  to `Spec.legalMoves` through the permutation of C01;
* C08: table operations issued for positions (`PosOp`), and the step from a `find` result to the
  position whose insert produced it.
-/
namespace Wee
open Wee.C10 (DisjointBoard)
open Wee.C02 (coordQuery coordQuery_test)
open Wee.SanP (AccOK kindPiece absKind_eq_some absKind_kindPiece)

/-! ## C02: coordinates on the specification side -/

/-- what the token `(o, d, letter)` asks of a move of the rules: origin, destination and — if a letter
is given — that the letter names the promotion kind, or (the resolver's leniency) the kind of the
moving piece itself when the move does not promote -/
def coordsMatch (o d : Nat) (pr : Option Piece) (m : Spec.SMove) : Bool :=
  m.src == o && m.dst == d &&
    (match pr with
     | Option.none => true
     | some X => absKind X == some (m.promo.getD m.kind))

/-- `coordsMatch` on the accessor reading of a packed move (`none` = unreadable move) -/
def optMatch (o d : Nat) (pr : Option Piece) : Option Spec.SMove → Bool
  | some m => coordsMatch o d pr m
  | Option.none => false

/-- `MoveQuery::test` of the coordinate query on a packed move = `coordsMatch` on its reading -/
theorem test_eq_coordsMatch (o d : Nat) (pr : Option Piece) (m : Move) (sm : Spec.SMove)
    (hsm : toSpecMove m = some sm) (hacc : AccOK m) :
    (coordQuery o d pr).test m = coordsMatch o d pr sm := by
  obtain ⟨hpiece, hsrc, hdst, hpromo, _, _⟩ := WfM.spec_fields hsm
  rw [Bool.eq_iff_iff, coordQuery_test]
  unfold coordsMatch
  simp only [Bool.and_eq_true, beq_iff_eq]
  rw [hsrc, hdst]
  cases pr with
  | none => simp
  | some X =>
    simp only [Option.some.injEq, forall_eq', beq_iff_eq]
    have key : X = (Move.promotion m).getD (Move.piece m) ↔ absKind X = some (sm.promo.getD sm.kind) := by
      rcases hacc.promotion' with h | ⟨k, _, h⟩
      · rw [hpromo, h, hpiece]
        simp only [Option.getD_none, Option.bind_none]
        exact (absKind_eq_some X sm.kind).symm
      · rw [hpromo, h]
        simp only [Option.getD_some, Option.bind_some, absKind_kindPiece]
        exact (absKind_eq_some X k).symm
    constructor
    · rintro ⟨a, b, c⟩; exact ⟨⟨a, b⟩, key.1 c⟩
    · rintro ⟨⟨a, b⟩, c⟩; exact ⟨a, b, key.2 c⟩

theorem filter_map_some {α : Type} (p : Option α → Bool) (l : List α) :
    (l.map some).filter p = (l.filter (fun a => p (some a))).map some := by
  induction l with
  | nil => rfl
  | cons a t ih =>
    rw [List.map_cons, List.filter_cons, List.filter_cons, ih]
    by_cases h : p (some a) = true
    · rw [if_pos h, if_pos h]; rfl
    · rw [if_neg h, if_neg h]

theorem filter_map_congr {α β : Type} (f : α → β) (p : α → Bool) (q : β → Bool) :
    ∀ l : List α, (∀ a ∈ l, p a = q (f a)) → (l.filter p).map f = (l.map f).filter q := by
  intro l
  induction l with
  | nil => intro _; rfl
  | cons a t ih =>
    intro h
    have ha := h a List.mem_cons_self
    have iht := ih (fun x hx => h x (List.mem_cons_of_mem _ hx))
    rw [List.map_cons, List.filter_cons, List.filter_cons, ← ha]
    by_cases hp : p a = true
    · rw [if_pos hp, if_pos hp, List.map_cons, iht]
    · rw [if_neg hp, if_neg hp, iht]

/-- the entries of the generated list that the coordinate query selects, read through the accessors,
are a permutation of the legal moves of the rules that `coordsMatch` selects -/
theorem coords_filter_perm (s : State) (hl : LegalPos s = true) (hd : DisjointBoard s.pieces)
    (o d : Nat) (pr : Option Piece) :
    (((legalMoves s).filter fun r => (coordQuery o d pr).test r.1).map (toSpecMove ∘ (·.1))).Perm
      (((Spec.legalMoves (abs s)).filter (coordsMatch o d pr)).map some) := by
  have hperm := (C01_moves s hl hd).1
  have h1 : ((legalMoves s).filter fun r => (coordQuery o d pr).test r.1).map (toSpecMove ∘ (·.1)) =
      ((legalMoves s).map (toSpecMove ∘ (·.1))).filter (optMatch o d pr) := by
    apply filter_map_congr
    intro r hr
    obtain ⟨sm, hsm, _, _, hacc⟩ := WfM.mem_data s hl hd r.1 (List.mem_map_of_mem hr)
    show (coordQuery o d pr).test r.1 = optMatch o d pr (toSpecMove r.1)
    rw [hsm]
    exact test_eq_coordsMatch o d pr r.1 sm hsm hacc
  have h2 : ((Spec.legalMoves (abs s)).map some).filter (optMatch o d pr) =
      ((Spec.legalMoves (abs s)).filter (coordsMatch o d pr)).map some :=
    filter_map_some (optMatch o d pr) _
  rw [h1, ← h2]
  exact hperm.filter _

/-- two legal moves of the rules with the same origin, destination and promotion are the same move -/
theorem specLegal_coords_inj (P : Spec.Pos) (hP : Spec.LegalPos P = true) (a b : Spec.SMove)
    (ha : a ∈ Spec.legalMoves P) (hb : b ∈ Spec.legalMoves P)
    (hs : a.src = b.src) (hd : a.dst = b.dst) (hp : a.promo = b.promo) : a = b := by
  have hok := WfM.posOK_of_legal P hP
  have fa := WfM.facts_of_pseudo P hok a (List.mem_filter.1 ha).1
  have fb := WfM.facts_of_pseudo P hok b (List.mem_filter.1 hb).1
  have hk : a.kind = b.kind := by
    have h1 := fa.mover
    have h2 := fb.mover
    rw [hs, h2] at h1
    simp only [Option.some.injEq, Prod.mk.injEq, true_and] at h1
    exact h1.symm
  exact WfM.pseudo_inj fa fb hk hs hd hp

/-- under the usual convention for the letter (given exactly when a pawn of the side to move stands on
the origin and the destination is on its last rank), `coordsMatch` on a legal move of the rules is
plain equality of (origin, destination, promotion) -/
theorem coordsMatch_iff_of_letter (P : Spec.Pos) (hP : Spec.LegalPos P = true) (o d : Nat) (pr : Option Piece)
    (hpr : pr.isSome = true ↔ (P.at o = some (P.turn, Spec.Kind.pawn) ∧ d / 8 = Spec.lastRank P.turn))
    (m : Spec.SMove) (hm : m ∈ Spec.legalMoves P) :
    coordsMatch o d pr m = true ↔ (m.src = o ∧ m.dst = d ∧ m.promo = pr.bind absKind) := by
  have hok := WfM.posOK_of_legal P hP
  have f := WfM.facts_of_pseudo P hok m (List.mem_filter.1 hm).1
  unfold coordsMatch
  simp only [Bool.and_eq_true, beq_iff_eq]
  constructor
  · rintro ⟨⟨hs, hd⟩, hx⟩
    refine ⟨hs, hd, ?_⟩
    have hmover := f.mover
    have hps := f.promoSome
    rw [hs] at hmover
    rw [hd] at hps
    cases pr with
    | none =>
      have hnot : ¬ (P.at o = some (P.turn, Spec.Kind.pawn) ∧ d / 8 = Spec.lastRank P.turn) :=
        fun h => by have := hpr.2 h; cases this
      cases hpm : m.promo with
      | none => rfl
      | some k =>
        exfalso
        rw [hpm] at hps
        simp only [Option.isSome_some] at hps
        have := hps.symm
        simp only [Bool.and_eq_true, decide_eq_true_eq] at this
        apply hnot
        refine ⟨?_, this.2⟩
        rw [hmover, this.1]
    | some X =>
      simp only [beq_iff_eq] at hx
      obtain ⟨hat, hlast⟩ := hpr.1 rfl
      have hk : m.kind = Spec.Kind.pawn := by
        rw [hmover] at hat
        simp only [Option.some.injEq, Prod.mk.injEq, true_and] at hat
        exact hat
      have : m.promo.isSome = true := by rw [hps, hk, hlast]; simp
      cases hpm : m.promo with
      | none => rw [hpm] at this; cases this
      | some k =>
        rw [hpm] at hx
        simp only [Option.getD_some] at hx
        simp only [Option.bind_some]
        exact hx.symm
  · rintro ⟨hs, hd, hp⟩
    refine ⟨⟨hs, hd⟩, ?_⟩
    cases pr with
    | none => rfl
    | some X =>
      simp only [beq_iff_eq]
      simp only [Option.bind_some] at hp
      obtain ⟨hat, hlast⟩ := hpr.1 rfl
      have hmover := f.mover
      rw [hs, hat] at hmover
      simp only [Option.some.injEq, Prod.mk.injEq, true_and] at hmover
      have hps := f.promoSome
      rw [hd, ← hmover, hlast] at hps
      simp only [decide_true, Bool.and_self] at hps
      cases hpm : m.promo with
      | none => rw [hpm] at hps; cases hps
      | some k =>
        rw [hpm] at hp
        simp only [Option.getD_some]
        exact hp.symm

theorem perm_map_some_nil {α β : Type} {l : List α} {f : α → Option β}
    (h : (l.map f).Perm (([] : List β).map some)) : l = [] := by
  have := h.length_eq
  simp only [List.map_nil, List.length_map, List.length_nil] at this
  exact List.eq_nil_of_length_eq_zero this

theorem perm_map_some_single {α β : Type} {l : List α} {f : α → Option β} {b : β}
    (h : (l.map f).Perm ([b].map some)) : ∃ a, l = [a] ∧ f a = some b := by
  have hlen := h.length_eq
  simp only [List.map_cons, List.map_nil, List.length_map, List.length_cons, List.length_nil] at hlen
  match l, hlen with
  | [a], _ =>
    refine ⟨a, rfl, ?_⟩
    have := h.mem_iff (a := f a)
    simp only [List.map_cons, List.map_nil, List.mem_singleton, true_iff] at this
    exact this

/-! ## C08: table operations issued for positions -/

/-- a table operation the search issues for a position: the key is the position's hash -/
inductive PosOp
  | insert (q : State) (e : TT.Entry)
  | find (q : State)

/-- `hash as usize` (64-bit target) -/
def hkey (K : Keys) (q : State) : Nat := (hash K q).toNat

def PosOp.toOp (K : Keys) : PosOp → TT.Op
  | .insert q e => .insert (hkey K q) e
  | .find q => .find (hkey K q)

theorem hkey_inj (K : Keys) {p q : State} (h : hkey K q = hkey K p) : hash K q = hash K p :=
  UInt64.toNat_inj.1 h

/-- an `insert k e` among the translated operations comes from an insert for a position hashing to `k` -/
theorem mem_toOp_insert (K : Keys) (ops : List PosOp) (k : Nat) (e : TT.Entry)
    (h : TT.Op.insert k e ∈ ops.map (PosOp.toOp K)) : ∃ q, PosOp.insert q e ∈ ops ∧ hkey K q = k := by
  obtain ⟨op, hop, heq⟩ := List.mem_map.1 h
  cases op with
  | find q => cases heq
  | insert q e' =>
    simp only [PosOp.toOp, TT.Op.insert.injEq] at heq
    obtain ⟨rfl, rfl⟩ := heq
    exact ⟨q, hop, rfl⟩

end Wee
