import Wee.Proofs.MateLemmas
import Wee.Proofs.BoundaryPoll
/-!
# C06: the root call and the report of one iteration

* a *frame* theorem: a call of `analyze_recursive` below the root never writes under a key that
  is in the history (the draw-by-history return comes before every table write), so the entry of the
  root key can only be displaced from a full bucket, never replaced, by the subtree;
* a Hoare triple with state-dependent postcondition for the root call: a winning value returned by
  the root call leaves a winning entry under the root key (if any entry is left there);
* `iterStep`: the table invariant survives an iteration with any number of workers, and the
  `BestMove` report of an iteration with one worker is sound.
-/
namespace Wee.C06
open Wee Wee.Search Wee.Outcome

/-! ## 1. frame: nothing below the root writes under the root key -/

/-- shape invariant of the table, and the entry under the key `k0` is `x0` or has been displaced -/
def Frame (L nT nB : Nat) (k0 : Nat) (x0 : Option TT.Entry) (st : St) : Prop :=
  TT.AInv L nT nB st.tt ∧ (st.tt.find k0 = none ∨ st.tt.find k0 = x0)

theorem Frame.insert {L nT nB k0 : Nat} {x0 : Option TT.Entry} (g : Geo L nT nB) {st : St}
    (h : Frame L nT nB k0 x0 st) {k : Nat} (hk : k ≠ k0) (e : TT.Entry) :
    Frame L nT nB k0 x0 { st with tt := st.tt.insert k e } := by
  refine ⟨h.1.insert g.hL g.hT g.hB _ _, ?_⟩
  rcases h.1.find_insert_other g.hL g.hT g.hB k e k0 (Ne.symm hk) with h1 | h1
  · exact Or.inl h1
  · show (st.tt.insert k e).find k0 = none ∨ (st.tt.insert k e).find k0 = x0
    rw [h1]; exact h.2

theorem pureT {α : Type} {I : St → Prop} {a : α} : Holds I (Pure.pure a : M α) (fun _ => True) :=
  Holds.pure trivial

section frame
variable {L nT nB k0 : Nat} {x0 : Option TT.Entry} (g : Geo L nT nB)
include g

theorem childLoop_frame (ctx : Ctx) (child : NodeArgs → M Eval) (a : NodeArgs) (hash : UInt64)
    (hchild : ∀ args : NodeArgs, 0 < args.curDepth → Holds (Frame L nT nB k0 x0) (child args) (fun _ => True))
    (hk : hash.toNat ≠ k0) :
    ∀ (l : List Move) (alpha : Eval) (best : Option Move) (kind : Nat),
      Holds (Frame L nT nB k0 x0) (childLoop ctx child a hash l alpha best kind) (fun _ => True) := by
  intro l
  induction l with
  | nil => intro alpha best kind; rw [childLoop.eq_1]; exact pureT
  | cons mv rest ih =>
    intro alpha best kind
    rw [childLoop.eq_2]
    cases ht : tryAsLegal a.s mv with
    | none => exact Holds.throw
    | some o =>
      cases o with
      | none => exact ih alpha best kind
      | some mn =>
        obtain ⟨m, next⟩ := mn
        simp only
        refine Holds.bind (hchild _ (by show 0 < a.curDepth + 1 + _; omega)) fun v _ => ?_
        split
        · exact Holds.bind (Holds.modify fun st hi => hi.insert g hk _) fun _ _ => pureT
        · split
          · exact ih _ _ _
          · exact ih _ _ _

theorem tail_frame (ctx : Ctx) (a : NodeArgs) (hash : UInt64) (alpha beta : Eval)
    (rec : Option (NodeArgs → M Eval))
    (hrec : ∀ child, rec = some child → ∀ args : NodeArgs, 0 < args.curDepth →
      Holds (Frame L nT nB k0 x0) (child args) (fun _ => True))
    (hk : hash.toNat ≠ k0) :
    Holds (Frame L nT nB k0 x0) (tail ctx a hash alpha beta rec) (fun _ => True) := by
  cases rec with
  | none =>
    unfold tail
    cases quiesce evaluate (quiesceFuel a.s) a.s a.curDepth alpha beta with
    | ok v => exact pureT
    | error e => exact Holds.throw
  | some child =>
    unfold tail
    cases pseudoLegalMoves a.s with
    | none => exact Holds.throw
    | some ps =>
      simp only
      refine Holds.bind (Q := fun _ => True) (sort_holds _ _ fun x => Holds.bind (jitter_holds fun st r (hi : Frame L nT nB k0 x0 st) => hi)
        fun _ _ => pureT) fun sorted _ => ?_
      refine Holds.bind Holds.get fun st0 _ => ?_
      refine Holds.bind (childLoop_frame g ctx child _ hash (hrec child rfl) hk _ _ _ _) fun res _ => ?_
      rcases res with b | ⟨alpha', best, kind⟩
      · exact pureT
      · simp only
        refine Holds.bind Holds.get fun st1 _ => ?_
        have hfin : Holds (Frame L nT nB k0 x0) (match best with
            | some m => do
              modify fun st => { st with tt := st.tt.insert hash.toNat ({ kind := kind, mv := m.toNat, depth := a.curDepth, maxDepth := a.maxDepth, eval := alpha' } : TT.Entry) }
              pure alpha'
            | Option.none => (pure alpha' : M Eval)) (fun _ => True) := by
          cases best with
          | none => exact pureT
          | some m => exact Holds.bind (Holds.modify fun st hi => hi.insert g hk _) fun _ _ => pureT
        split
        · split
          · exact pureT
          · exact throw_bind_holds
        · exact hfin

theorem probe_frame (ctx : Ctx) (a : NodeArgs) (hash : UInt64) (rec : Option (NodeArgs → M Eval))
    (hrec : ∀ child, rec = some child → ∀ args : NodeArgs, 0 < args.curDepth →
      Holds (Frame L nT nB k0 x0) (child args) (fun _ => True))
    (hk : hash.toNat ≠ k0) :
    Holds (Frame L nT nB k0 x0) (probe ctx a hash rec) (fun _ => True) := by
  have ht := fun alpha beta => tail_frame (k0 := k0) (x0 := x0) g ctx a hash alpha beta rec hrec hk
  unfold probe
  refine Holds.bind Holds.get fun st _ => ?_
  split
  · simp only
    split
    · exact throw_bind_holds
    · split
      · split
        · exact pureT
        · split
          · split
            · exact pureT
            · exact ht _ _
          · split
            · exact pureT
            · exact ht _ _
      · exact ht _ _
  · exact ht _ _

theorem nodeBody_frame (ctx : Ctx) (a : NodeArgs) (rec : Option (NodeArgs → M Eval))
    (hk0 : ∀ s, (hash ctx.keys s).toNat = k0 → ctx.history.contains (hash ctx.keys s) = true)
    (hrec : ∀ child, rec = some child → ∀ args : NodeArgs, 0 < args.curDepth →
      Holds (Frame L nT nB k0 x0) (child args) (fun _ => True))
    (hd : 0 < a.curDepth) :
    Holds (Frame L nT nB k0 x0) (nodeBody ctx rec a) (fun _ => True) := by
  unfold nodeBody
  refine Holds.bind (Holds.modify fun st hi => hi) fun _ _ => ?_
  refine Holds.bind Holds.get fun st hst => ?_
  simp only
  have hrest : Holds (Frame L nT nB k0 x0)
      (if (decide (a.curDepth > 0) && ctx.history.contains (hash ctx.keys a.s)) = true then pure 0
        else probe ctx a (hash ctx.keys a.s) rec) (fun _ => True) := by
    split
    · exact pureT
    · rename_i hc
      refine probe_frame g ctx a _ rec hrec fun h => hc ?_
      rw [hk0 _ h, Bool.and_true, decide_eq_true_eq]; exact hd
  split
  · refine Holds.bind (Holds.set hst) fun _ _ => ?_
    split
    · split
      · exact throw_bind_holds
      · exact hrest
    · rw [if_neg (by decide)]; exact hrest
  · exact hrest

/-- **frame.**  A call of `analyze_recursive` at `current_depth > 0` leaves the entry under a key of
the history untouched or displaces it; it never replaces it. -/
theorem searchNode_frame (ctx : Ctx)
    (hk0 : ∀ s, (hash ctx.keys s).toNat = k0 → ctx.history.contains (hash ctx.keys s) = true) :
    ∀ (rem : Nat) (a : NodeArgs), 0 < a.curDepth →
      Holds (Frame L nT nB k0 x0) (searchNode ctx rem a) (fun _ => True) := by
  intro rem
  induction rem with
  | zero =>
    intro a hd
    rw [searchNode_zero]
    exact nodeBody_frame g ctx a Option.none hk0 (fun _ h => nomatch h) hd
  | succ rem ih =>
    intro a hd
    rw [searchNode_succ]
    refine nodeBody_frame g ctx a _ hk0 (fun child hc args hda => ?_) hd
    cases hc
    exact ih args hda

end frame

/-! ## 2. triples with a state-dependent postcondition; the root call -/

/-- partial correctness for normal results, with a postcondition that sees the final state -/
def Triple {α : Type} (P : St → Prop) (x : M α) (Q : α → St → Prop) : Prop :=
  ∀ st, P st → ∀ r st', exec x st = (.ok r, st') → Q r st'

section triple
variable {α β : Type} {P : St → Prop}

theorem Triple.pure {Q : α → St → Prop} {a : α} (h : ∀ st, P st → Q a st) : Triple P (Pure.pure a : M α) Q := by
  intro st hp r st' he
  rw [exec_pure] at he; cases he; exact h _ hp

theorem Triple.throw {Q : α → St → Prop} {e : Stop} : Triple P (throw e : M α) Q := by
  intro st _ r st' he
  rw [exec_throw] at he; cases he

theorem Triple.bind {x : M α} {f : α → M β} {R : α → St → Prop} {Q : β → St → Prop}
    (hx : Triple P x R) (hf : ∀ a, Triple (R a) (f a) Q) : Triple P (x >>= f) Q := by
  intro st hp r st' he
  rw [exec_bind] at he
  rcases h : exec x st with ⟨r1, st1⟩
  rw [h] at he
  cases r1 with
  | error e => cases he
  | ok a => exact hf a st1 (hx st hp a st1 h) r st' he

theorem Triple.get {Q : St → St → Prop} (h : ∀ st, P st → Q st st) : Triple P (get : M St) Q := by
  intro st hp r st' he
  rw [exec_get] at he; cases he; exact h _ hp

theorem Triple.set {Q : PUnit → St → Prop} {s : St} (h : ∀ st, P st → Q ⟨⟩ s) : Triple P (set s : M PUnit) Q := by
  intro st hp r st' he
  rw [exec_set] at he; cases he; exact h _ hp

theorem Triple.modify {Q : PUnit → St → Prop} {f : St → St} (h : ∀ st, P st → Q ⟨⟩ (f st)) :
    Triple P (modify f : M PUnit) Q := by
  intro st hp r st' he
  rw [exec_modify] at he; cases he; exact h _ hp

theorem Triple.of_holds {x : M α} {Qv : α → Prop} (h : Holds P x Qv) : Triple P x (fun a st' => P st' ∧ Qv a) := by
  intro st hp r st' he
  obtain ⟨h1, h2⟩ := h st hp
  rw [he] at h1 h2
  exact ⟨h1, h2 r rfl⟩

theorem Triple.conseq {x : M α} {P' : St → Prop} {Q Q' : α → St → Prop} (h : Triple P x Q)
    (hpre : ∀ st, P' st → P st) (hpost : ∀ a st, Q a st → Q' a st) : Triple P' x Q' :=
  fun st hp r st' he => hpost _ _ (h st (hpre st hp) r st' he)

end triple

theorem triple_throw_bind {α β : Type} {P : St → Prop} {e : Stop} {f : α → M β} {Q : β → St → Prop} :
    Triple P ((throw e : M α) >>= f) Q :=
  Triple.bind (R := fun _ _ => False) Triple.throw fun _ _ h => h.elim

/-- whatever is stored under `k0` has a winning value -/
def RootWinning (k0 : Nat) (st : St) : Prop := ∀ x, st.tt.find k0 = some x → 10000 ≤ x.eval

section root
variable {L nT nB k0 : Nat} (g : Geo L nT nB)
include g

theorem childLoop_root {x0 : Option TT.Entry} (ctx : Ctx) (child : NodeArgs → M Eval) (a : NodeArgs) (hash : UInt64)
    (hk : hash.toNat = k0) (α₀ : Eval)
    (hchild : ∀ args : NodeArgs, 0 < args.curDepth → Holds (Frame L nT nB k0 x0) (child args) (fun _ => True)) :
    ∀ (l : List Move) (alpha : Eval) (best : Option Move) (kind : Nat), (best = Option.none → alpha = α₀) →
      Triple (Frame L nT nB k0 x0) (childLoop ctx child a hash l alpha best kind) (fun res st' =>
        match res with
        | .error b => 10000 ≤ b → RootWinning k0 st'
        | .ok (alpha', best', _) => Frame L nT nB k0 x0 st' ∧ (best' = Option.none → alpha' = α₀)) := by
  intro l
  induction l with
  | nil =>
    intro alpha best kind hb
    rw [childLoop.eq_1]
    exact Triple.pure fun st hp => ⟨hp, hb⟩
  | cons mv rest ih =>
    intro alpha best kind hb
    rw [childLoop.eq_2]
    cases ht : tryAsLegal a.s mv with
    | none => exact Triple.throw
    | some o =>
      cases o with
      | none => exact ih alpha best kind hb
      | some mn =>
        obtain ⟨m, next⟩ := mn
        simp only
        refine Triple.bind (Triple.of_holds (hchild _ (by show 0 < a.curDepth + 1 + _; omega))) fun v => ?_
        split
        · refine Triple.bind (R := fun _ st' => 10000 ≤ a.beta → RootWinning k0 st')
            (Triple.modify fun st hp hb x hx => ?_) fun _ => Triple.pure fun st hp => hp
          rw [hk] at hx
          change (st.tt.insert k0 _).find k0 = some x at hx
          rw [hp.1.1.find_insert_self g.hL g.hT g.hB] at hx
          cases hx; exact hb
        · split
          · exact (ih _ _ _ (fun h => by cases h)).conseq (fun st hp => hp.1) fun _ _ h => h
          · exact (ih _ _ _ hb).conseq (fun st hp => hp.1) fun _ _ h => h


theorem tail_root {x0 : Option TT.Entry} (ctx : Ctx) (a : NodeArgs) (hash : UInt64) (alpha beta : Eval)
    (hk : hash.toNat = k0)
    (hα : 10000 ≤ alpha → ∃ e, x0 = some e ∧ 10000 ≤ e.eval)
    (child : NodeArgs → M Eval)
    (hchild : ∀ args : NodeArgs, 0 < args.curDepth → Holds (Frame L nT nB k0 x0) (child args) (fun _ => True)) :
    Triple (Frame L nT nB k0 x0) (tail ctx a hash alpha beta (some child))
      (fun r st' => 10000 ≤ r → RootWinning k0 st') := by
  unfold tail
  cases pseudoLegalMoves a.s with
  | none => exact Triple.throw
  | some ps =>
    simp only
    refine Triple.bind (Triple.of_holds (sort_holds _ _ fun x => Holds.bind
      (jitter_holds fun st r (hi : Frame L nT nB k0 x0 st) => hi) fun _ _ => pureT)) fun sorted => ?_
    refine Triple.bind (R := fun _ st' => Frame L nT nB k0 x0 st') (Triple.get fun st hp => hp.1) fun st0 => ?_
    refine Triple.bind (childLoop_root g ctx child _ hash hk alpha hchild _ alpha Option.none kindUpper fun _ => rfl)
      fun res => ?_
    rcases res with b | ⟨alpha', best, kind⟩
    · exact Triple.pure fun st hp => hp
    · simp only
      refine Triple.bind (R := fun _ st' => Frame L nT nB k0 x0 st' ∧ (best = Option.none → alpha' = alpha))
        (Triple.get fun st hp => hp) fun st1 => ?_
      have hstatic : Triple (fun st' => Frame L nT nB k0 x0 st' ∧ (best = Option.none → alpha' = alpha))
          (match evaluate a.s a.s.turn a.curDepth with
            | some e => (Pure.pure e : M Eval)
            | Option.none => do
              throw (Stop.panic "evaluate: no king")
              match best with
              | some m => do
                modify fun st => { st with tt := st.tt.insert hash.toNat ({ kind := kind, mv := m.toNat, depth := a.curDepth, maxDepth := a.maxDepth, eval := alpha' } : TT.Entry) }
                pure alpha'
              | Option.none => pure alpha')
          (fun r st' => 10000 ≤ r → RootWinning k0 st') := by
        cases he : evaluate a.s a.s.turn a.curDepth with
        | some e =>
          refine Triple.pure fun st _ h => ?_
          have := static_lt he
          exfalso; eomega
        | none => exact triple_throw_bind
      have hfin : Triple (fun st' => Frame L nT nB k0 x0 st' ∧ (best = Option.none → alpha' = alpha))
          (match best with
            | some m => do
              modify fun st => { st with tt := st.tt.insert hash.toNat ({ kind := kind, mv := m.toNat, depth := a.curDepth, maxDepth := a.maxDepth, eval := alpha' } : TT.Entry) }
              pure alpha'
            | Option.none => (pure alpha' : M Eval))
          (fun r st' => 10000 ≤ r → RootWinning k0 st') := by
        cases best with
        | none =>
          refine Triple.pure fun st hp h x hx => ?_
          rw [hp.2 rfl] at h
          obtain ⟨e, he1, he2⟩ := hα h
          rcases hp.1.2 with h1 | h1
          · rw [h1] at hx; cases hx
          · rw [h1, he1] at hx; cases hx; exact he2
        | some m =>
          simp only
          refine Triple.bind (R := fun _ st' => 10000 ≤ alpha' → RootWinning k0 st')
            (Triple.modify fun st hp hb x hx => ?_) fun _ => Triple.pure fun st hp => hp
          rw [hk] at hx
          change (st.tt.insert k0 _).find k0 = some x at hx
          rw [hp.1.1.find_insert_self g.hL g.hT g.hB] at hx
          cases hx; exact hb
      split
      · exact hstatic
      · exact hfin

theorem probe_root (ctx : Ctx) (a : NodeArgs) (hash : UInt64) (hk : hash.toNat = k0)
    (hα : a.alpha < 10000) (child : NodeArgs → M Eval)
    (hchild : ∀ (x0 : Option TT.Entry) (args : NodeArgs), 0 < args.curDepth →
      Holds (Frame L nT nB k0 x0) (child args) (fun _ => True)) :
    Triple (fun st => TT.AInv L nT nB st.tt) (probe ctx a hash (some child))
      (fun r st' => 10000 ≤ r → RootWinning k0 st') := by
  unfold probe
  refine Triple.bind (R := fun s st' => st' = s ∧ TT.AInv L nT nB s.tt) (Triple.get fun st hp => ⟨rfl, hp⟩) fun st => ?_
  have htail : ∀ alpha beta, (10000 ≤ alpha → ∃ e, st.tt.find k0 = some e ∧ 10000 ≤ e.eval) →
      Triple (fun st' => st' = st ∧ TT.AInv L nT nB st.tt) (tail ctx a hash alpha beta (some child))
        (fun r st' => 10000 ≤ r → RootWinning k0 st') := fun alpha beta h =>
    (tail_root g ctx a hash alpha beta hk h child (hchild _)).conseq
      (fun st' hp => by rw [hp.1]; exact ⟨hp.2, Or.inr rfl⟩) fun _ _ h => h
  have hret : ∀ e : TT.Entry, st.tt.find hash.toNat = some e →
      Triple (fun st' => st' = st ∧ TT.AInv L nT nB st.tt) (Pure.pure e.eval : M Eval)
        (fun r st' => 10000 ≤ r → RootWinning k0 st') := fun e hf =>
    Triple.pure fun st' hp h x hx => by
      rw [hp.1, ← hk, hf] at hx; cases hx; exact h
  cases hf : st.tt.find hash.toNat with
  | none => exact htail _ _ fun h => by exfalso; eomega
  | some e =>
    simp only
    have hf' : st.tt.find k0 = some e := by rw [← hk]; exact hf
    split
    · exact triple_throw_bind
    · split
      · split
        · exact hret e hf
        · split
          · split
            · exact hret e hf
            · exact htail _ _ fun h => by exfalso; eomega
          · split
            · exact hret e hf
            · exact htail _ _ fun h => ⟨e, hf', by eomega⟩
      · exact htail _ _ fun h => by exfalso; eomega

theorem nodeBody_root (ctx : Ctx) (a : NodeArgs) (hk : (hash ctx.keys a.s).toNat = k0)
    (hα : a.alpha < 10000) (child : NodeArgs → M Eval)
    (hchild : ∀ (x0 : Option TT.Entry) (args : NodeArgs), 0 < args.curDepth →
      Holds (Frame L nT nB k0 x0) (child args) (fun _ => True)) :
    Triple (fun st => TT.AInv L nT nB st.tt) (nodeBody ctx (some child) a)
      (fun r st' => 10000 ≤ r → RootWinning k0 st') := by
  unfold nodeBody
  refine Triple.bind (R := fun _ st => TT.AInv L nT nB st.tt) (Triple.modify fun st hp => hp) fun _ => ?_
  refine Triple.bind (R := fun s st' => TT.AInv L nT nB st'.tt ∧ TT.AInv L nT nB s.tt)
    (Triple.get fun st hp => ⟨hp, hp⟩) fun st => ?_
  simp only
  have hrest : Triple (fun st => TT.AInv L nT nB st.tt)
      (if (decide (a.curDepth > 0) && ctx.history.contains (hash ctx.keys a.s)) = true then pure 0
        else probe ctx a (hash ctx.keys a.s) (some child)) (fun r st' => 10000 ≤ r → RootWinning k0 st') := by
    split
    · exact Triple.pure fun st _ h => by exfalso; eomega
    · exact probe_root g ctx a _ hk hα child hchild
  split
  · refine Triple.bind (R := fun _ st => TT.AInv L nT nB st.tt) (Triple.set fun st' hp => hp.2) fun _ => ?_
    split
    · split
      · exact triple_throw_bind
      · exact hrest
    · rw [if_neg (by decide)]; exact hrest
  · exact hrest.conseq (fun st hp => hp.1) fun _ _ h => h

/-- **the root call pairs a winning value with a winning root entry.**  If the key of the node's
position is in the history (as `analyze_iterative` arranges for the root), the window's `alpha` is below
`POS_INF` and the call returns a value `≥ POS_INF`, then whatever is stored under the node's key
afterwards has a value `≥ POS_INF`. -/
theorem searchNode_root (ctx : Ctx) (rem : Nat) (a : NodeArgs) (hk : (hash ctx.keys a.s).toNat = k0)
    (hk0 : ∀ s, (hash ctx.keys s).toNat = k0 → ctx.history.contains (hash ctx.keys s) = true)
    (hα : a.alpha < 10000) :
    Triple (fun st => TT.AInv L nT nB st.tt) (searchNode ctx (rem + 1) a)
      (fun r st' => 10000 ≤ r → RootWinning k0 st') := by
  rw [searchNode_succ]
  exact nodeBody_root g ctx a hk hα _ fun x0 args hd => searchNode_frame g ctx hk0 rem args hd

end root


/-! ## 3. one worker, all workers of an iteration, the iteration -/

/-- the arguments of the root call of a worker -/
def rootArgs (root : State) (sd : Nat) (best : Option Move) : NodeArgs :=
  { s := root, maxDepth := sd, curDepth := 0, curExt := 0, alpha := - Ev.mateInPly 0, beta := Ev.mateInPly 0,
    prioritized := best }

theorem runWorker_eq (ctx : Ctx) (root : State) (sd : Nat) (best : Option Move) (tt : TT.Access)
    (rng : Rng.ChaCha8) (polls : Nat) :
    runWorker ctx root sd best tt rng polls =
      exec (searchNode ctx sd (rootArgs root sd best)) { tt, rng, nodes := 0, polls } := rfl

/-- the move handed to worker 0 is a legal move of the root -/
def BestOK (root : State) (best : Option Move) : Prop := ∀ m, best = some m → ∃ r ∈ legalMoves root, r.1 = m

/-- the root window `(-mate_in_ply(0), mate_in_ply(0))` is `(-11000, 11000)` -/
theorem root_window : - Ev.mateInPly 0 = -11000 ∧ Ev.mateInPly 0 = 11000 := by decide

section worker
variable {K : Keys} {D : State → Prop} {L nT nB : Nat} (g : Geo L nT nB) (dom : Domain K D)
  (ctx : Ctx) (hK : ctx.keys = K) (root : State) (hD : D root)
include g dom hK hD

/-- one worker: the table invariant survives (also an interrupt), the value is sound for the root
window, and — when the root key is in the history — a winning value leaves a winning root entry -/
theorem runWorker_spec (sd : Nat) (best : Option Move) (hbest : BestOK root best) (tt : TT.Access)
    (htt : TTInv K D L nT nB tt) (rng : Rng.ChaCha8) (polls : Nat) :
    TTInv K D L nT nB (runWorker ctx root (sd + 1) best tt rng polls).2.tt ∧
    ∀ e, (runWorker ctx root (sd + 1) best tt rng polls).1 = .ok e →
      SoundVal root (-11000) 11000 e ∧
      (ctx.history.contains (hash K root) = true → 10000 ≤ e →
        RootWinning (hash K root).toNat (runWorker ctx root (sd + 1) best tt rng polls).2) := by
  rw [runWorker_eq]
  have hs := searchNode_sound g dom ctx hK (sd + 1) (rootArgs root (sd + 1) best) hD
    (show - Ev.mateInPly 0 < Ev.mateInPly 0 by decide) hbest
    { tt, rng, nodes := 0, polls } htt
  refine ⟨hs.1, fun e he => ⟨hs.2 e he, fun hh hw => ?_⟩⟩
  subst hK
  refine searchNode_root g ctx sd (rootArgs root (sd + 1) best) rfl (fun s hs' => ?_)
    (show - Ev.mateInPly 0 < 10000 by decide) { tt, rng, nodes := 0, polls } htt.1 e _ ?_ hw
  · rw [UInt64.toNat_inj.1 hs']; exact hh
  · rw [← he]

/-- accumulated result of the workers run so far: sound table, sound values -/
def WorkersOK (K : Keys) (D : State → Prop) (L nT nB : Nat) (root : State) (w : WorkersOut) : Prop :=
  TTInv K D L nT nB w.tt ∧ ∀ e ∈ w.evals, SoundVal root (-11000) 11000 e

theorem runWorkers_ok (depth : Nat) (bestMv : Option Move) (hbest : BestOK root bestMv) :
    ∀ (l : List (Nat × UInt64)) (acc : WorkersOut), WorkersOK K D L nT nB root acc →
      WorkersOK K D L nT nB root (runWorkers ctx root depth bestMv l acc) := by
  intro l
  induction l with
  | nil => intro acc h; rw [runWorkers]; exact h
  | cons is rest ih =>
    intro acc h
    obtain ⟨i, seed⟩ := is
    rw [runWorkers.eq_2]
    split
    · exact h
    · simp only
      have hb : BestOK root (if (i == 0) = true then bestMv else Option.none) := by
        split
        · exact hbest
        · exact fun m hm => nomatch hm
      have hw := runWorker_spec g dom ctx hK root hD (depth - i % 2) _ hb acc.tt h.1 (Rng.seedFromU64 seed) acc.polls
      split
      · rename_i e st heq
        rw [heq] at hw
        refine ih _ ⟨hw.1, fun e' he' => ?_⟩
        rcases List.mem_append.1 he' with h1 | h1
        · exact h.2 e' h1
        · rw [List.mem_singleton.1 h1]; exact (hw.2 e rfl).1
      · rename_i st heq
        rw [heq] at hw
        exact ⟨hw.1, h.2⟩
      · exact h

end worker


/-- a winning report is a true forced win of the root position -/
def ClaimTrue (root : State) : Event → Prop
  | .best ev _ => Ev.posInf ≤ ev → Win root
  | _ => True

/-- the first move of a winning report leads to a position that is `Lost` for the opponent -/
def MoveKeeps (root : State) : Event → Prop
  | .best ev line => Ev.posInf ≤ ev → ∃ r ∈ legalMoves root, line.head? = some r.1 ∧ Lost r.2
  | _ => True

theorem MoveKeeps.claim {root : State} {ev : Event} (h : MoveKeeps root ev) : ClaimTrue root ev := by
  cases ev with
  | best e line =>
    intro hw
    obtain ⟨r, hr, _, hl⟩ := h hw
    exact win_of_child_lost hr hl
  | progress _ _ => trivial
  | warning => trivial

/-- a non-empty line read from the table starts with the move of the root entry -/
theorem walkLine_head {keys : Keys} {tt : TT.Access} {n : Nat} {root : State}
    (h : (walkLine keys tt (n + 1) root).isEmpty = false) :
    ∃ e, tt.find (hash keys root).toNat = some e ∧ (walkLine keys tt (n + 1) root).head? = some e.mv.toUInt32 := by
  rw [walkLine.eq_2] at h ⊢
  cases hf : tt.find (hash keys root).toNat with
  | none => rw [hf] at h; cases h
  | some e =>
    refine ⟨e, rfl, ?_⟩
    rw [hf] at h
    simp only at h ⊢
    split
    · rfl
    · rename_i hx
      split at h
      · rename_i next heq
        exact absurd heq (hx next)
      · cases h

theorem toUInt32_of_toNat {m : Move} {n : Nat} (h : m.toNat = n) : n.toUInt32 = m := by
  subst h; exact UInt32.ofNat_toNat

/-- the entry of the root key, if winning, names a move into a `Lost` position -/
theorem root_entry_move {K : Keys} {D : State → Prop} {tt : TT.Access} (hs : SoundTT K D tt) {root : State}
    (hD : D root) {e : TT.Entry} (hf : tt.find (hash K root).toNat = some e) :
    (∃ r ∈ legalMoves root, r.1 = e.mv.toUInt32) ∧
    (10000 ≤ e.eval → ∃ r ∈ legalMoves root, r.1 = e.mv.toUInt32 ∧ Lost r.2) := by
  obtain ⟨⟨r, hr, h1⟩, hw, _⟩ := hs root e hD hf
  refine ⟨⟨r, hr, (toUInt32_of_toNat h1).symm⟩, fun h => ?_⟩
  obtain ⟨r', hr', h1', hl⟩ := hw h
  exact ⟨r', hr', (toUInt32_of_toNat h1').symm, hl⟩

theorem foldl_max_mem (e : Eval) (es : List Eval) : es.foldl max e ∈ e :: es := by
  induction es generalizing e with
  | nil => exact List.mem_cons_self
  | cons x xs ih =>
    rw [List.foldl_cons]
    rcases List.mem_cons.1 (ih (max e x)) with h | h
    · rw [h]
      by_cases hle : e ≤ x
      · rw [Int.max_eq_right hle]; exact List.mem_cons_of_mem _ List.mem_cons_self
      · rw [Int.max_eq_left (by eomega)]; exact List.mem_cons_self
    · exact List.mem_cons_of_mem _ (List.mem_cons_of_mem _ h)


/-- invariant of the iterative-deepening loop: sound table, the remembered best move is a legal move
of the root, a winning remembered evaluation is true -/
def IterOK (K : Keys) (D : State → Prop) (L nT nB : Nat) (root : State) (st : IterSt) : Prop :=
  TTInv K D L nT nB st.tt ∧ BestOK root st.bestMv ∧ (Ev.posInf ≤ st.bestEval → Win root)

/-- the boundary read of the flag touches neither the table nor the remembered move and evaluation -/
theorem IterOK.boundaryPoll {K : Keys} {D : State → Prop} {L nT nB : Nat} {root : State} {st : IterSt}
    (h : IterOK K D L nT nB root st) (ctx : Ctx) (depth : Nat) :
    IterOK K D L nT nB root (boundaryPoll ctx depth st) := by
  unfold IterOK; rw [boundaryPoll_tt, boundaryPoll_bestMv, boundaryPoll_bestEval]; exact h

theorem drawSeeds_one (r : Rng.ChaCha8) : ∃ v, (drawSeeds 1 r).1 = [v] := by
  rw [drawSeeds.eq_2]
  rcases Rng.nextU64 r with ⟨v, r'⟩
  simp only
  rw [drawSeeds]
  exact ⟨v, rfl⟩

theorem no_events (root : State) (workers : Nat) (evs : List Event) :
    ∃ new, evs = evs ++ new ∧ (∀ ev ∈ new, ClaimTrue root ev) ∧ (workers = 1 → ∀ ev ∈ new, MoveKeeps root ev) :=
  ⟨[], (List.append_nil _).symm, fun _ h => (nomatch h), fun _ _ h => (nomatch h)⟩

section iter
variable {K : Keys} {D : State → Prop} {L nT nB : Nat} (g : Geo L nT nB) (dom : Domain K D)
  (ctx : Ctx) (hK : ctx.keys = K) (root : State) (hD : D root)
include g dom hK hD

/-- one worker, completed: the single value, and a winning value leaves a winning root entry -/
theorem runWorkers_one (hhist : ctx.history.contains (hash K root) = true) (depth : Nat) (bestMv : Option Move)
    (hbest : BestOK root bestMv) (seed : UInt64) (tt : TT.Access) (htt : TTInv K D L nT nB tt) (polls : Nat) :
    let w := runWorkers ctx root depth bestMv [(0, seed)] { tt := tt, polls := polls, evals := [], sumNodes := 0 }
    w.interrupted = false → w.panic = Option.none →
      ∃ e, w.evals = [e] ∧ (10000 ≤ e → ∀ x, w.tt.find (hash K root).toNat = some x → 10000 ≤ x.eval) := by
  intro w
  have hw := runWorker_spec g dom ctx hK root hD (depth - 0 % 2) bestMv hbest tt htt (Rng.seedFromU64 seed) polls
  have hwdef : w = runWorkers ctx root depth bestMv [(0, seed)] { tt := tt, polls := polls, evals := [], sumNodes := 0 } := rfl
  rw [runWorkers.eq_2] at hwdef
  simp only [Bool.or_self, Option.isSome_none, Bool.false_eq_true, if_false, beq_self_eq_true, if_true] at hwdef
  intro hi hp
  split at hwdef
  · rename_i e st heq
    rw [heq] at hw
    rw [runWorkers] at hwdef
    rw [hwdef]
    exact ⟨e, rfl, fun he => (hw.2 e rfl).2 hhist he⟩
  · rw [hwdef] at hi; cases hi
  · rw [hwdef] at hp; cases hp


/-- **one iteration of `analyze_iterative`.**  The loop invariant survives; the events of the iteration
are appended; every winning `BestMove` report is a true forced win (any number of workers, run one
after the other); with one worker — and, for any number of workers, on the interrupt path — its first
move leads to a position that is `Lost` for the opponent. -/
theorem iterStep_sound (rootHash : UInt64) (hrh : rootHash = hash ctx.keys root)
    (hhist : ctx.history.contains rootHash = true) (workers depth : Nat) (st : IterSt)
    (h : IterOK K D L nT nB root st) :
    IterOK K D L nT nB root (iterStep ctx root rootHash workers depth st) ∧
    ∃ new, (iterStep ctx root rootHash workers depth st).events = st.events ++ new ∧
      (∀ ev ∈ new, ClaimTrue root ev) ∧ (workers = 1 → ∀ ev ∈ new, MoveKeeps root ev) := by
  subst hrh
  subst hK
  obtain ⟨htt, hbest, hbe⟩ := h
  unfold iterStep
  rcases hds : drawSeeds workers st.rng with ⟨seeds, rng⟩
  simp only
  have hwok := runWorkers_ok g dom ctx rfl root hD depth st.bestMv hbest ((List.range workers).zip seeds)
    { tt := st.tt, polls := st.polls, evals := [], sumNodes := 0 } ⟨htt, fun e he => nomatch he⟩
  have hone : workers = 1 → (runWorkers ctx root depth st.bestMv ((List.range workers).zip seeds)
      { tt := st.tt, polls := st.polls, evals := [], sumNodes := 0 }).interrupted = false →
      (runWorkers ctx root depth st.bestMv ((List.range workers).zip seeds)
      { tt := st.tt, polls := st.polls, evals := [], sumNodes := 0 }).panic = Option.none →
      ∃ e, (runWorkers ctx root depth st.bestMv ((List.range workers).zip seeds)
      { tt := st.tt, polls := st.polls, evals := [], sumNodes := 0 }).evals = [e] ∧ (10000 ≤ e → ∀ x,
        (runWorkers ctx root depth st.bestMv ((List.range workers).zip seeds)
      { tt := st.tt, polls := st.polls, evals := [], sumNodes := 0 }).tt.find (hash ctx.keys root).toNat = some x →
          10000 ≤ x.eval) := by
    intro h1
    subst h1
    obtain ⟨v, hv⟩ := drawSeeds_one st.rng
    rw [hds] at hv
    simp only at hv
    subst hv
    exact runWorkers_one g dom ctx rfl root hD hhist depth st.bestMv hbest v st.tt htt st.polls
  generalize runWorkers ctx root depth st.bestMv ((List.range workers).zip seeds)
      { tt := st.tt, polls := st.polls, evals := [], sumNodes := 0 } = w at hwok hone
  obtain ⟨hwtt, hwev⟩ := hwok
  cases hp : w.panic with
  | some why => exact ⟨⟨htt, hbest, hbe⟩, no_events root workers _⟩
  | none =>
    simp only
    -- the line read back from the table starts with the root entry's move, which is legal
    have hline : ∀ n, (walkLine ctx.keys w.tt (n + 1) root).isEmpty = false →
        ∃ x, w.tt.find (hash ctx.keys root).toNat = some x ∧
          (walkLine ctx.keys w.tt (n + 1) root).head? = some x.mv.toUInt32 := by
      intro n hl
      exact walkLine_head hl
    by_cases hi : (!w.interrupted) = true
    · rw [if_pos hi]
      have hi' : w.interrupted = false := by cases hw : w.interrupted <;> simp_all
      -- the reported evaluation is sound
      have hbe' : Ev.posInf ≤ (match w.evals with | [] => st.bestEval | e :: es => List.foldl max e es) → Win root := by
        cases hev : w.evals with
        | nil => exact hbe
        | cons e es =>
          simp only
          intro hpos
          have hm := foldl_max_mem e es
          rw [← hev] at hm
          refine (hwev _ hm).1 ⟨hpos, ?_⟩
          rw [posInf_eq] at hpos; eomega
      by_cases hl : (walkLine ctx.keys w.tt (depth + 1) root).isEmpty = true
      · rw [if_pos hl]
        exact ⟨⟨hwtt, fun m hm => (nomatch hm), hbe'⟩, [.progress (depth + 1) (st.nodes + w.sumNodes)], rfl,
          fun ev hev => by rw [List.mem_singleton.1 hev]; trivial,
          fun _ ev hev => by rw [List.mem_singleton.1 hev]; trivial⟩
      · rw [if_neg hl]
        have hl' : (walkLine ctx.keys w.tt (depth + 1) root).isEmpty = false := by
          cases hx : (walkLine ctx.keys w.tt (depth + 1) root).isEmpty <;> simp_all
        obtain ⟨x, hx1, hx2⟩ := hline depth hl'
        obtain ⟨hmv, hmvw⟩ := root_entry_move hwtt.2 hD hx1
        refine ⟨⟨hwtt, ?_, hbe'⟩, [.progress (depth + 1) (st.nodes + w.sumNodes),
          .best (match w.evals with | [] => st.bestEval | e :: es => List.foldl max e es)
            (walkLine ctx.keys w.tt (depth + 1) root)], by rw [List.append_assoc]; rfl, ?_, ?_⟩
        · intro m hm
          simp only at hm
          rw [hx2] at hm
          cases hm; exact hmv
        · intro ev hev
          rcases List.mem_cons.1 hev with h1 | h1
          · rw [h1]; trivial
          · rw [List.mem_singleton.1 h1]; exact hbe'
        · intro h1 ev hev
          rcases List.mem_cons.1 hev with h2 | h2
          · rw [h2]; trivial
          · rw [List.mem_singleton.1 h2]
            obtain ⟨e, he1, he2⟩ := hone h1 hi' hp
            rw [he1]
            intro hpos
            rw [posInf_eq] at hpos
            obtain ⟨r, hr, hr1, hr2⟩ := hmvw (he2 hpos x hx1)
            exact ⟨r, hr, by rw [hx2, hr1], hr2⟩
    · rw [if_neg hi]
      refine ⟨⟨hwtt, hbest, hbe⟩, ?_⟩
      cases hf : w.tt.find (hash ctx.keys root).toNat with
      | none => exact no_events root workers _
      | some x =>
        simp only
        by_cases hgt : x.eval > st.bestEval
        · rw [if_pos hgt]
          by_cases hl : (walkLine ctx.keys w.tt (depth + 1) root).isEmpty = true
          · rw [if_pos hl]
            exact no_events root workers _
          · rw [if_neg hl]
            have hl' : (walkLine ctx.keys w.tt (depth + 1) root).isEmpty = false := by
              cases hx : (walkLine ctx.keys w.tt (depth + 1) root).isEmpty <;> simp_all
            obtain ⟨x', hx1, hx2⟩ := hline depth hl'
            rw [hf] at hx1
            cases hx1
            obtain ⟨_, hmvw⟩ := root_entry_move hwtt.2 hD hf
            have hkeep : MoveKeeps root (.best x.eval (walkLine ctx.keys w.tt (depth + 1) root)) := by
              intro hpos
              rw [posInf_eq] at hpos
              obtain ⟨r, hr, hr1, hr2⟩ := hmvw hpos
              exact ⟨r, hr, by rw [hx2, hr1], hr2⟩
            exact ⟨[_], rfl, fun ev hev => by rw [List.mem_singleton.1 hev]; exact hkeep.claim,
              fun _ ev hev => by rw [List.mem_singleton.1 hev]; exact hkeep⟩
        · rw [if_neg hgt]
          exact no_events root workers _

end iter


section loop
variable {K : Keys} {D : State → Prop} {L nT nB : Nat} (g : Geo L nT nB) (dom : Domain K D)
  (ctx : Ctx) (hK : ctx.keys = K) (root : State) (hD : D root)
include g dom hK hD

/-- the whole deepening loop -/
theorem iterLoop_sound (rootHash : UInt64) (hrh : rootHash = hash K root)
    (hhist : ctx.history.contains rootHash = true) (workersOf : Nat → Nat) :
    ∀ (n depth : Nat) (st : IterSt), IterOK K D L nT nB root st →
      IterOK K D L nT nB root (iterLoop ctx root rootHash workersOf n depth st) ∧
      ∃ new, (iterLoop ctx root rootHash workersOf n depth st).events = st.events ++ new ∧
        (∀ ev ∈ new, ClaimTrue root ev) ∧ ((∀ d, workersOf d = 1) → ∀ ev ∈ new, MoveKeeps root ev) := by
  subst hK
  intro n
  induction n with
  | zero =>
    intro depth st h
    rw [iterLoop]
    exact ⟨h, [], (List.append_nil _).symm, fun _ h => (nomatch h), fun _ _ h => (nomatch h)⟩
  | succ n ih =>
    intro depth st h
    -- the boundary read of the flag touches neither the table nor the remembered move/evaluation nor the events
    have hb : IterOK ctx.keys D L nT nB root (boundaryPoll ctx depth st) := h.boundaryPoll ctx depth
    rw [iterLoop_succ]
    split
    · exact ⟨h, [], (List.append_nil _).symm, fun _ h => (nomatch h), fun _ _ h => (nomatch h)⟩
    split
    · exact ⟨hb, [], by rw [boundaryPoll_events, List.append_nil], fun _ h => (nomatch h), fun _ _ h => (nomatch h)⟩
    · obtain ⟨h1, new1, e1, c1, k1⟩ := iterStep_sound g dom ctx rfl root hD rootHash hrh hhist (workersOf depth) depth _ hb
      rw [boundaryPoll_events] at e1
      obtain ⟨h2, new2, e2, c2, k2⟩ := ih (depth + 1) _ h1
      refine ⟨h2, new1 ++ new2, by rw [e2, e1, List.append_assoc], fun ev hev => ?_, fun hw ev hev => ?_⟩
      · rcases List.mem_append.1 hev with h' | h'
        · exact c1 ev h'
        · exact c2 ev h'
      · rcases List.mem_append.1 hev with h' | h'
        · exact k1 (hw depth) ev h'
        · exact k2 hw ev h'

end loop

/-- **`analyze_iterative` (the model's `iterate`).**  Started on an artifact whose table is sound, for every
seed, depth limit, cancellation point and number of workers per iteration (run one after the other):
the table of the returned artifact is sound again (so the next search of the game can start from it),
every winning `BestMove` report is a true forced win of the root, and if every iteration uses one worker
the first move of every winning report leads to a position that is `Lost` for the opponent. -/
theorem iterate_sound {D : State → Prop} {L nT nB : Nat} (g : Geo L nT nB) (art : Artifact)
    (dom : Domain art.keys.keys D) (root : State) (hD : D root) (htt : TTInv art.keys.keys D L nT nB art.tt)
    (rng0 : Rng.ChaCha8) (maxDepth : Option Nat) (workersOf : Nat → Nat) (cancelAt : Option Nat) (fuelDepth : Nat) :
    TTInv art.keys.keys D L nT nB (iterate root rng0 maxDepth art workersOf cancelAt fuelDepth).artifact.tt ∧
    (iterate root rng0 maxDepth art workersOf cancelAt fuelDepth).artifact.keys = art.keys ∧
    (∀ ev ∈ (iterate root rng0 maxDepth art workersOf cancelAt fuelDepth).events, ClaimTrue root ev) ∧
    ((∀ d, workersOf d = 1) →
      ∀ ev ∈ (iterate root rng0 maxDepth art workersOf cancelAt fuelDepth).events, MoveKeeps root ev) := by
  unfold iterate
  simp only
  generalize (if (legalMoves root).isEmpty = true then 0 else
    match maxDepth with | some d => d | Option.none => fuelDepth) = limit
  have hinit : IterOK art.keys.keys D L nT nB root
      { tt := art.tt, rng := rng0, events := [], nodes := 0, bestEval := Ev.negInf, bestMv := Option.none, polls := 0 } :=
    ⟨htt, fun m hm => (nomatch hm), fun h => absurd (show Ev.posInf ≤ Ev.negInf from h) (by decide)⟩
  obtain ⟨h1, new, e1, c1, k1⟩ := iterLoop_sound g dom
    { keys := art.keys.keys, history := hash art.keys.keys root :: art.history, cancelAt := cancelAt } rfl root hD
    (hash art.keys.keys root) rfl (by simp) workersOf
    limit 0 _ hinit
  rw [List.nil_append] at e1
  refine ⟨h1.1, trivial, ?_, ?_⟩
  · intro ev hev
    split at hev
    · rcases List.mem_append.1 hev with h' | h'
      · rw [e1] at h'; exact c1 ev h'
      · rw [List.mem_singleton.1 h']; trivial
    · rw [e1] at hev; exact c1 ev hev
  · intro hw ev hev
    split at hev
    · rcases List.mem_append.1 hev with h' | h'
      · rw [e1] at h'; exact k1 hw ev h'
      · rw [List.mem_singleton.1 h']; trivial
    · rw [e1] at hev; exact k1 hw ev hev


end Wee.C06
