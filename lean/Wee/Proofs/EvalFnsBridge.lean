import Wee.Gen.EvalFns
import Wee.Model.Eval
import Wee.Proofs.CoreFnsBridge
import Wee.Proofs.EvalLemmas
/-!
# Bridge: the static evaluator translated from the Rust source text (`Wee/Gen/EvalFns.lean`, produced by
`tools/rs2lean_eval.py`) computes the hand-written model `Wee/Model/Eval.lean`

The generated functions run in `Panics` (`none` = a panic of the debug profile: arithmetic overflow, index out of
bounds, `unwrap` of `None`).  Every bridge theorem has the form

    generated … = some r  →  r.toInt = model …

("whenever the Rust function returns, it returns the model's value"; in the release profile, which differs from the
debug profile only where the latter panics, the same value is computed).  Float arithmetic is the model's soft-float on
both sides, operation by operation in Rust's order, so the equalities are exact.
-/
set_option maxRecDepth 100000
set_option linter.unusedSimpArgs false
namespace Wee
namespace GenFns
open Gen

/-! ## `i32` arithmetic: a checked operation that returns, returns the exact integer -/

theorem i32_checked_add_some {a b r : Int32} (h : Int32.checked_add a b = some r) : r.toInt = a.toInt + b.toInt := by
  unfold Int32.checked_add at h
  split at h
  · rename_i hr; cases h; exact int32_add_toInt a b hr.1 hr.2
  · cases h

theorem i32_checked_sub_some {a b r : Int32} (h : Int32.checked_sub a b = some r) : r.toInt = a.toInt - b.toInt := by
  unfold Int32.checked_sub at h
  split at h
  · rename_i hr; cases h; exact int32_sub_toInt a b hr.1 hr.2
  · cases h

theorem i32_checked_mul_some {a b r : Int32} (h : Int32.checked_mul a b = some r) : r.toInt = a.toInt * b.toInt := by
  unfold Int32.checked_mul at h
  split at h
  · rename_i hr; cases h; exact int32_mul_toInt a b hr.1 hr.2
  · cases h

theorem i32_checked_neg_some {a r : Int32} (h : Int32.checked_neg a = some r) : r.toInt = - a.toInt := by
  unfold Int32.checked_neg at h
  split at h
  · cases h
  · rename_i hr
    cases h
    rw [Int32.toInt_neg]
    have h1 := Int32.le_toInt a
    have h2 := Int32.toInt_lt a
    exact Int.bmod_eq_of_le (by omega) (by omega)

theorem Evaluation.add_assign_some {a b r : Int32} (h : Evaluation.add_assign_Evaluation a b = some r) :
    r.toInt = a.toInt + b.toInt := by
  simp only [Evaluation.add_assign_Evaluation, bind, Option.bind] at h
  cases hc : Int32.checked_add a b with
  | none => rw [hc] at h; cases h
  | some x => rw [hc] at h; cases h; exact i32_checked_add_some hc

theorem Evaluation.sub_assign_some {a b r : Int32} (h : Evaluation.sub_assign_Evaluation a b = some r) :
    r.toInt = a.toInt - b.toInt := by
  simp only [Evaluation.sub_assign_Evaluation, bind, Option.bind] at h
  cases hc : Int32.checked_sub a b with
  | none => rw [hc] at h; cases h
  | some x => rw [hc] at h; cases h; exact i32_checked_sub_some hc

theorem Evaluation.sub_some {a b r : Int32} (h : Evaluation.sub_Evaluation a b = some r) :
    r.toInt = a.toInt - b.toInt := by
  simp only [Evaluation.sub_Evaluation, bind, Option.bind] at h
  cases hc : Int32.checked_sub a b with
  | none => rw [hc] at h; cases h
  | some x => rw [hc] at h; cases h; exact i32_checked_sub_some hc

theorem Evaluation.neg_some {a r : Int32} (h : Evaluation.neg a = some r) : r.toInt = - a.toInt := by
  simp only [Evaluation.neg, bind, Option.bind] at h
  cases hc : Int32.checked_neg a with
  | none => rw [hc] at h; cases h
  | some x => rw [hc] at h; cases h; exact i32_checked_neg_some hc

theorem Evaluation.mul_i32_some {a b r : Int32} (h : Evaluation.mul_i32 a b = some r) :
    r.toInt = a.toInt * b.toInt := by
  simp only [Evaluation.mul_i32, bind, Option.bind] at h
  cases hc : Int32.checked_mul a b with
  | none => rw [hc] at h; cases h
  | some x => rw [hc] at h; cases h; exact i32_checked_mul_some hc

/-! ## `f32`: literals, casts -/

theorem toI32_range (q : Rat) : -2 ^ 31 ≤ F32.toI32 q ∧ F32.toI32 q < 2 ^ 31 := by
  unfold F32.toI32
  simp only
  split
  · omega
  · split <;> omega

/-- `x as i32` -/
theorem f32.to_i32_toInt (q : Rat) : (f32.to_i32 q).toInt = F32.toI32 q := by
  unfold f32.to_i32
  have := toI32_range q
  exact Int32.toInt_ofInt_of_le (by omega) (by omega)

/-- `impl Mul<f32> for Evaluation` = the model's `Ev.mulF` -/
theorem Evaluation.mul_f32_eq (e : Int32) (w : Rat) : (Evaluation.mul_f32 e w).toInt = Ev.mulF e.toInt w := by
  unfold Evaluation.mul_f32 Ev.mulF
  exact f32.to_i32_toInt _

/-- the float literals of the evaluator sources are the constants `tools/extract.py` regenerates -/
theorem f32_literals :
    f32.ofBits 0x3ecccccd = Gen.doubledPawnPenalty ∧ f32.ofBits 0x3f000000 = Gen.isolatedPawnPenalty ∧
    f32.ofBits 0x3f400000 = Gen.kingEdgeThreshold ∧ f32.ofBits 0x40000000 = Gen.estCastleBonus ∧
    f32.ofBits 0x3e4ccccd = Gen.estDoublePawnBonus ∧ f32.ofBits 0x40000000 = Gen.estPromotionFactor ∧
    f32.ofBits 0x3f000000 = Gen.estSquareWeight ∧
    f32.ofBits 0x40400000 = Gen.egW1 ∧ f32.ofBits 0x3f800000 = Gen.egW2 ∧ f32.ofBits 0x3f800000 = Gen.egW3 ∧
    f32.ofBits 0x41800000 = Gen.egD1 ∧ f32.ofBits 0x40000000 = Gen.egD2 ∧ f32.ofBits 0x42000000 = Gen.egD3 ∧
    f32.ofBits 0x3f800000 = 1 := by
  decide +kernel

theorem PIECE_PAWN_WORTHS_eq : evaluate_piece_worths.PIECE_PAWN_WORTHS = Gen.piecePawnWorths.toArray := by
  decide +kernel

theorem PIECE_PAWN_WORTHS_index (p : Piece) :
    ArrayMap.index evaluate_piece_worths.PIECE_PAWN_WORTHS (Index.from_Piece p) = some (pieceWorth p) := by
  rw [PIECE_PAWN_WORTHS_eq]
  cases p <;> decide +kernel

theorem EVALUATORS_weights : eval.EVALUATORS.map Prod.fst = Gen.evaluatorWeights := by
  decide +kernel

/-! ## folds that return -/

/-- a monadic fold over `i32` accumulators whose body, when it returns, adds `g x` -/
theorem foldlM_adds {α : Type} (body : Int32 → α → Panics Int32) (g : α → Int) :
    ∀ (l : List α) (acc r : Int32), (∀ x ∈ l, ∀ a r', body a x = some r' → r'.toInt = a.toInt + g x) →
      List.foldlM body acc l = some r → r.toInt = acc.toInt + (l.map g).sum
  | [], acc, r, _, h => by
    simp only [List.foldlM_nil] at h
    cases h
    simp
  | x :: t, acc, r, hs, h => by
    rw [List.foldlM_cons] at h
    cases hb : body acc x with
    | none => rw [hb] at h; cases h
    | some a1 =>
      rw [hb] at h
      have h1 := hs x (List.mem_cons_self) acc a1 hb
      have h2 := foldlM_adds body g t a1 r (fun y hy => hs y (List.mem_cons_of_mem _ hy)) h
      rw [h2, h1, List.map_cons, List.sum_cons]; omega

/-- a pure fold whose step adds `g x` -/
theorem foldl_adds {α : Type} (f : Int → α → Int) (g : α → Int) :
    ∀ (l : List α) (a : Int), (∀ x ∈ l, ∀ acc, f acc x = acc + g x) → List.foldl f a l = a + (l.map g).sum
  | [], a, _ => by simp
  | x :: t, a, hs => by
    rw [List.foldl_cons, hs x (List.mem_cons_self), foldl_adds f g t _ (fun y hy => hs y (List.mem_cons_of_mem _ hy)),
      List.map_cons, List.sum_cons]; omega

/-! ## The representation of `StateVariation` -/

/-- the Rust-side `StateVariation` represents the model's `Variation`: same state, same end-game weight, and the count
tables hold the model's counts wherever they are defined -/
structure SVRep (sv : StateVariation) (v : Variation) : Prop where
  state : sv.f_state = stateOf v.s
  egw : sv.f_end_game_weight = v.egw
  pc : ∀ (c : Color) (p : Piece) (x : UInt8),
    ArrayMap.index sv.f_piece_counts (Index.from_PieceIndex (PieceIndex.new c p)) = some x → x.toNat = pieceCount v.s c p
  cc : ∀ (c : Color) (x : UInt8), ArrayMap.index sv.f_color_counts (Index.from_Color c) = some x → x.toNat = v.count c

theorem u8_as_i32 (x : UInt8) : (UInt32.toInt32 (UInt8.toUInt32 x)).toInt = x.toNat := by
  rw [u32_toInt32_toInt, UInt8.toNat_toUInt32]
  have := x.toNat_lt
  exact Int.bmod_eq_of_le (by omega) (by omega)

/-! ## `evaluate_piece_worths::evaluate` -/

theorem evalWorths_sum (v : Variation) (c : Color) :
    evalWorths v c = (Piece.all.map fun p => Ev.mulF Ev.onePawn (pieceWorth p) * (pieceCount v.s c p : Int)).sum := by
  unfold evalWorths
  rw [foldl_adds _ (fun p => Ev.mulF Ev.onePawn (pieceWorth p) * (pieceCount v.s c p : Int)) _ _ (fun _ _ _ => rfl)]
  simp

/-- `evaluate_piece_worths::evaluate` adds the model's `evalWorths` -/
theorem evaluate_piece_worths.evaluate_eq {sv : StateVariation} {v : Variation} (hr : SVRep sv v) (c : Color)
    (e0 r : Int32) (b : Bool) (h : evaluate_piece_worths.evaluate sv c e0 b = some r) :
    r.toInt = e0.toInt + evalWorths v c := by
  unfold evaluate_piece_worths.evaluate at h
  simp only [bind_pure] at h
  rw [evalWorths_sum, ← Piece.ALL_eq]
  refine foldlM_adds _ _ _ _ _ ?_ h
  intro p _ a r' hb
  simp only [PIECE_PAWN_WORTHS_index, bind, Option.bind] at hb
  cases h1 : ArrayMap.index (StateVariation.f_piece_counts sv) (Index.from_PieceIndex (PieceIndex.new c p)) with
  | none => rw [h1] at hb; cases hb
  | some n =>
    rw [h1] at hb
    have hn := hr.pc c p n h1
    simp only at hb
    cases h2 : Evaluation.mul_i32 (Evaluation.mul_f32 Evaluation.ONE_PAWN (pieceWorth p)) (UInt32.toInt32 (UInt8.toUInt32 n)) with
    | none => rw [h2] at hb; cases hb
    | some m =>
      rw [h2] at hb
      simp only at hb
      cases h3 : Evaluation.add_assign_Evaluation a m with
      | none => rw [h3] at hb; cases hb
      | some q =>
        rw [h3] at hb
        cases hb
        rw [Evaluation.add_assign_some h3, Evaluation.mul_i32_some h2, Evaluation.mul_f32_eq, u8_as_i32, hn,
          Evaluation.consts_eq.1]

/-! ## `evaluate_piece_squares` -/

theorem flipRank_lt64 (n : Nat) (_h : n < 64) : flipRank n < 64 := by
  unfold flipRank mkSq rankOf fileOf; omega

theorem toUInt8_toNat_lt (n : Nat) (h : n < 256) : n.toUInt8.toNat = n := by
  simp [Nat.toUInt8, UInt8.toNat_ofNat', Nat.mod_eq_of_lt h]

/-- the two look-ups `PIECE_SQUARE_MAP[piece][k].index(i)`: the entries of the tables `tools/extract.py` regenerates -/
theorem psm_lookup0 (p : Piece) : ∀ i : Fin 64,
    (((ArrayMap.index evaluate_piece_squares.PIECE_SQUARE_MAP (Index.from_Piece p)).bind fun t =>
      (ArrayMap.index t (0 : UInt64)).bind fun r => ArrayMap.index r (UInt8.toUInt64 i.val.toUInt8)).map Int32.toInt) =
      some ((pieceSquareMap.getD p.code (#[], #[])).1.getD i.val 0) := by
  cases p <;> decide +kernel

theorem psm_lookup1 (p : Piece) : ∀ i : Fin 64,
    (((ArrayMap.index evaluate_piece_squares.PIECE_SQUARE_MAP (Index.from_Piece p)).bind fun t =>
      (ArrayMap.index t (1 : UInt64)).bind fun r => ArrayMap.index r (UInt8.toUInt64 i.val.toUInt8)).map Int32.toInt) =
      some ((pieceSquareMap.getD p.code (#[], #[])).2.getD i.val 0) := by
  cases p <;> decide +kernel

/-- `evaluate_piece_square` = the model's `pieceSquare` (squares `< 64`) -/
theorem evaluate_piece_squares.evaluate_piece_square_eq (p : Piece) (sq : Square) (c : Color) (w : Rat)
    (hs : sq.toNat < 64) (r : Int32)
    (h : evaluate_piece_squares.evaluate_piece_square p sq c w = some r) :
    r.toInt = pieceSquare p sq.toNat c w := by
  unfold evaluate_piece_squares.evaluate_piece_square at h
  -- the oriented square
  have hsq : (if c == Color.white then (pure sq : Panics Square) else Square.flip_rank sq) =
      some ((if c == .white then sq.toNat else flipRank sq.toNat).toUInt8) := by
    cases c
    · simp [toUInt8_toNat_lt]
    · simp [Square.flip_rank_eq sq hs]
  have hn' : (if c == .white then sq.toNat else flipRank sq.toNat) < 64 := by
    cases c
    · simpa using hs
    · simpa using flipRank_lt64 _ hs
  generalize hnn : (if c == .white then sq.toNat else flipRank sq.toNat) = n' at hsq hn'
  simp only [bind_pure_comp, Option.pure_def, Option.bind_eq_bind] at h hsq
  have hsq' : (if (c == Color.white) = true then (some sq : Option Square) else Square.flip_rank sq) = some n'.toUInt8 := by
    simpa using hsq
  rw [hsq'] at h
  simp only [Option.bind_some] at h
  have hidx := Square.white_at_bottom_index_eq n'.toUInt8 (by rw [toUInt8_toNat_lt _ (by omega)]; exact hn')
  rw [toUInt8_toNat_lt _ (by omega)] at hidx
  rw [hidx] at h
  simp only [Option.bind_some] at h
  have l0 := psm_lookup0 p ⟨flipRank n', flipRank_lt64 _ hn'⟩
  have l1 := psm_lookup1 p ⟨flipRank n', flipRank_lt64 _ hn'⟩
  simp only at l0 l1
  obtain ⟨t0, ht0, h⟩ := Option.bind_eq_some_iff.1 h
  obtain ⟨r0, hr0, h⟩ := Option.bind_eq_some_iff.1 h
  obtain ⟨x0, hx0, h⟩ := Option.bind_eq_some_iff.1 h
  obtain ⟨t1, ht1, h⟩ := Option.bind_eq_some_iff.1 h
  obtain ⟨r1, hr1, h⟩ := Option.bind_eq_some_iff.1 h
  obtain ⟨x1, hx1, h⟩ := Option.bind_eq_some_iff.1 h
  rw [ht0] at l0
  simp only [Option.bind_some, hr0, hx0, Option.map_some, Option.some.injEq] at l0
  rw [ht1] at l1
  simp only [Option.bind_some, hr1, hx1, Option.map_some, Option.some.injEq] at l1
  simp only [Option.some.injEq] at h
  subst h
  rw [f32.to_i32_toInt, l0, l1]
  unfold pieceSquare
  simp only [hnn]

theorem evalSquares_sum (v : Variation) (c : Color) :
    evalSquares v c =
      (Piece.all.map fun p => ((bitsOf (v.s.pieces.get c p)).map fun sq => pieceSquare p sq c v.egw).sum).sum := by
  unfold evalSquares
  rw [foldl_adds _ (fun p => ((bitsOf (v.s.pieces.get c p)).map fun sq => pieceSquare p sq c v.egw).sum) _ _
    (fun p _ acc => foldl_adds _ (fun sq => pieceSquare p sq c v.egw) _ _ (fun _ _ _ => rfl))]
  simp

/-- `evaluate_piece_squares::evaluate` adds the model's `evalSquares` -/
theorem evaluate_piece_squares.evaluate_eq {sv : StateVariation} {v : Variation} (hr : SVRep sv v) (c : Color)
    (e0 r : Int32) (b : Bool) (h : evaluate_piece_squares.evaluate sv c e0 b = some r) :
    r.toInt = e0.toInt + evalSquares v c := by
  unfold evaluate_piece_squares.evaluate at h
  simp only [bind_pure] at h
  rw [evalSquares_sum, ← Piece.ALL_eq]
  refine foldlM_adds _ _ _ _ _ ?_ h
  intro p _ a r' hb
  rw [hr.state, hr.egw, Board.piece_occupancy_stateOf, iter_ones_collect_65] at hb
  simp only [bind, Option.bind] at hb
  have := foldlM_adds _ (fun (x : UInt32) => pieceSquare p x.toNat c v.egw) _ a r' ?_ hb
  · rw [this, List.map_map]
    congr 2
    apply List.map_congr_left
    intro n hn
    have hn64 : n < 64 := ((mem_bitsOf _ n).1 hn).1
    simp [Function.comp, Nat.toUInt32, UInt32.toNat_ofNat', Nat.mod_eq_of_lt (show n < 2 ^ 32 by omega)]
  · intro x hx a1 r1 h1
    obtain ⟨n, hn, rfl⟩ := List.mem_map.1 hx
    have hn64 : n < 64 := ((mem_bitsOf _ n).1 hn).1
    have hx32 : (Nat.toUInt32 n).toNat = n := by
      simp [Nat.toUInt32, UInt32.toNat_ofNat', Nat.mod_eq_of_lt (show n < 2 ^ 32 by omega)]
    obtain ⟨y, hy, h1⟩ := Option.bind_eq_some_iff.1 h1
    obtain ⟨z, hz, h1⟩ := Option.bind_eq_some_iff.1 h1
    cases h1
    have hsq : (Square.from_u32 (Nat.toUInt32 n)).toNat = n := by
      rw [Square.from_u32_toNat _ (by omega), hx32]
    have := evaluate_piece_squares.evaluate_piece_square_eq p _ c v.egw (by rw [hsq]; exact hn64) y hy
    rw [Evaluation.add_assign_some hz, this, hsq, hx32]

end GenFns
end Wee
