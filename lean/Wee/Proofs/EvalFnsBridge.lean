import Wee.Gen.EvalFns
import Wee.Model.Eval
import Wee.Proofs.CoreFnsBridge
import Wee.Proofs.GenMovesBridge
import Wee.Proofs.EvalLemmas
/-!
# Bridge: the static evaluator translated from the Rust source text (`Wee/Gen/EvalFns.lean`, produced by
`tools/rs2lean_eval.py`) computes the hand-written model `Wee/Model/Eval.lean`

The generated functions run in `Panics` (`none` = a panic of the debug profile: arithmetic overflow, index out of
bounds, `unwrap` of `None`).  Every bridge theorem has the form

    generated … = some r  →  r.toInt = model …

("whenever the Rust function returns, it returns the model's value"; in the release profile, which differs from the
debug profile only where the latter panics, the same value is computed).  Float arithmetic is the model's soft-float on
both sides, operation by operation in Rust's order, so the equalities are exact.

Bridged: the four term functions, `StateVariation::from` (`StateVariation.from_State_eq`), `Evaluator::evaluate`
(`Evaluator.evaluate_eq`: terminal test, `king_has_move` shortcut, perspective sign, the weighted loop over
`EVALUATORS`, the clamp) and `Evaluator::estimate` (`Evaluator.estimate_eq`).  There is no seam: `Board::is_check`,
`Board::colored_attacks`, `Board::colored_pawn_attacks` and `MoveGenerator::compute_legal_moves` are the stage-3a
translations (`Wee/Gen/GenMoves.lean`), discharged with `Board.is_check_eq`, `Board.colored_attacks_eq`,
`Board.colored_pawn_attacks_eq`, `MoveGenerator.compute_legal_moves_model` (`Wee/Proofs/GenMovesBridge*.lean`).
-/
set_option maxRecDepth 100000
set_option linter.unusedSimpArgs false
namespace Wee
namespace GenFns
open Gen

/-! ## `i32` arithmetic: a checked operation that returns, returns the exact integer -/

theorem i32_checked_add_some {a b r : Int32} (h : Int32.checked_add a b = some r) : r.toInt = a.toInt + b.toInt := by
  unfold Int32.checked_add at h
  split at h
  · rename_i hr; cases h; exact int32_add_toInt a b hr.1 hr.2
  · cases h

theorem i32_checked_sub_some {a b r : Int32} (h : Int32.checked_sub a b = some r) : r.toInt = a.toInt - b.toInt := by
  unfold Int32.checked_sub at h
  split at h
  · rename_i hr; cases h; exact int32_sub_toInt a b hr.1 hr.2
  · cases h

theorem i32_checked_mul_some {a b r : Int32} (h : Int32.checked_mul a b = some r) : r.toInt = a.toInt * b.toInt := by
  unfold Int32.checked_mul at h
  split at h
  · rename_i hr; cases h; exact int32_mul_toInt a b hr.1 hr.2
  · cases h

theorem i32_checked_neg_some {a r : Int32} (h : Int32.checked_neg a = some r) : r.toInt = - a.toInt := by
  unfold Int32.checked_neg at h
  split at h
  · cases h
  · rename_i hr
    cases h
    rw [Int32.toInt_neg]
    have h1 := Int32.le_toInt a
    have h2 := Int32.toInt_lt a
    exact Int.bmod_eq_of_le (by omega) (by omega)

theorem Evaluation.add_assign_some {a b r : Int32} (h : Evaluation.add_assign_Evaluation a b = some r) :
    r.toInt = a.toInt + b.toInt := by
  simp only [Evaluation.add_assign_Evaluation, bind, Option.bind] at h
  cases hc : Int32.checked_add a b with
  | none => rw [hc] at h; cases h
  | some x => rw [hc] at h; cases h; exact i32_checked_add_some hc

theorem Evaluation.sub_assign_some {a b r : Int32} (h : Evaluation.sub_assign_Evaluation a b = some r) :
    r.toInt = a.toInt - b.toInt := by
  simp only [Evaluation.sub_assign_Evaluation, bind, Option.bind] at h
  cases hc : Int32.checked_sub a b with
  | none => rw [hc] at h; cases h
  | some x => rw [hc] at h; cases h; exact i32_checked_sub_some hc

theorem Evaluation.sub_some {a b r : Int32} (h : Evaluation.sub_Evaluation a b = some r) :
    r.toInt = a.toInt - b.toInt := by
  simp only [Evaluation.sub_Evaluation, bind, Option.bind] at h
  cases hc : Int32.checked_sub a b with
  | none => rw [hc] at h; cases h
  | some x => rw [hc] at h; cases h; exact i32_checked_sub_some hc

theorem Evaluation.neg_some {a r : Int32} (h : Evaluation.neg a = some r) : r.toInt = - a.toInt := by
  simp only [Evaluation.neg, bind, Option.bind] at h
  cases hc : Int32.checked_neg a with
  | none => rw [hc] at h; cases h
  | some x => rw [hc] at h; cases h; exact i32_checked_neg_some hc

theorem Evaluation.mul_i32_some {a b r : Int32} (h : Evaluation.mul_i32 a b = some r) :
    r.toInt = a.toInt * b.toInt := by
  simp only [Evaluation.mul_i32, bind, Option.bind] at h
  cases hc : Int32.checked_mul a b with
  | none => rw [hc] at h; cases h
  | some x => rw [hc] at h; cases h; exact i32_checked_mul_some hc

/-! ## `f32`: literals, casts -/

theorem toI32_range (q : Rat) : -2 ^ 31 ≤ F32.toI32 q ∧ F32.toI32 q < 2 ^ 31 := by
  unfold F32.toI32
  simp only
  split
  · omega
  · split <;> omega

/-- `x as i32` -/
theorem f32.to_i32_toInt (q : Rat) : (f32.to_i32 q).toInt = F32.toI32 q := by
  unfold f32.to_i32
  have := toI32_range q
  exact Int32.toInt_ofInt_of_le (by omega) (by omega)

/-- `impl Mul<f32> for Evaluation` = the model's `Ev.mulF` -/
theorem Evaluation.mul_f32_eq (e : Int32) (w : Rat) : (Evaluation.mul_f32 e w).toInt = Ev.mulF e.toInt w := by
  unfold Evaluation.mul_f32 Ev.mulF
  exact f32.to_i32_toInt _

/-- the float literals of the evaluator sources are the constants `tools/extract.py` regenerates -/
theorem f32_literals :
    f32.ofBits 0x3ecccccd = Gen.doubledPawnPenalty ∧ f32.ofBits 0x3f000000 = Gen.isolatedPawnPenalty ∧
    f32.ofBits 0x3f400000 = Gen.kingEdgeThreshold ∧ f32.ofBits 0x40000000 = Gen.estCastleBonus ∧
    f32.ofBits 0x3e4ccccd = Gen.estDoublePawnBonus ∧ f32.ofBits 0x40000000 = Gen.estPromotionFactor ∧
    f32.ofBits 0x3f000000 = Gen.estSquareWeight ∧
    f32.ofBits 0x40400000 = Gen.egW1 ∧ f32.ofBits 0x3f800000 = Gen.egW2 ∧ f32.ofBits 0x3f800000 = Gen.egW3 ∧
    f32.ofBits 0x41800000 = Gen.egD1 ∧ f32.ofBits 0x40000000 = Gen.egD2 ∧ f32.ofBits 0x42000000 = Gen.egD3 ∧
    f32.ofBits 0x3f800000 = 1 := by
  decide +kernel

theorem PIECE_PAWN_WORTHS_eq : evaluate_piece_worths.PIECE_PAWN_WORTHS = Gen.piecePawnWorths.toArray := by
  decide +kernel

theorem PIECE_PAWN_WORTHS_index (p : Piece) :
    ArrayMap.index evaluate_piece_worths.PIECE_PAWN_WORTHS (Index.from_Piece p) = some (pieceWorth p) := by
  rw [PIECE_PAWN_WORTHS_eq]
  cases p <;> decide +kernel

theorem EVALUATORS_weights : eval.EVALUATORS.map Prod.fst = Gen.evaluatorWeights := by
  decide +kernel

/-! ## folds that return -/

/-- a monadic fold over `i32` accumulators whose body, when it returns, adds `g x` -/
theorem foldlM_adds {α : Type} (body : Int32 → α → Panics Int32) (g : α → Int) :
    ∀ (l : List α) (acc r : Int32), (∀ x ∈ l, ∀ a r', body a x = some r' → r'.toInt = a.toInt + g x) →
      List.foldlM body acc l = some r → r.toInt = acc.toInt + (l.map g).sum
  | [], acc, r, _, h => by
    simp only [List.foldlM_nil] at h
    cases h
    simp
  | x :: t, acc, r, hs, h => by
    rw [List.foldlM_cons] at h
    cases hb : body acc x with
    | none => rw [hb] at h; cases h
    | some a1 =>
      rw [hb] at h
      have h1 := hs x (List.mem_cons_self) acc a1 hb
      have h2 := foldlM_adds body g t a1 r (fun y hy => hs y (List.mem_cons_of_mem _ hy)) h
      rw [h2, h1, List.map_cons, List.sum_cons]; omega

/-- a pure fold whose step adds `g x` -/
theorem foldl_adds {α : Type} (f : Int → α → Int) (g : α → Int) :
    ∀ (l : List α) (a : Int), (∀ x ∈ l, ∀ acc, f acc x = acc + g x) → List.foldl f a l = a + (l.map g).sum
  | [], a, _ => by simp
  | x :: t, a, hs => by
    rw [List.foldl_cons, hs x (List.mem_cons_self), foldl_adds f g t _ (fun y hy => hs y (List.mem_cons_of_mem _ hy)),
      List.map_cons, List.sum_cons]; omega

/-! ## The representation of `StateVariation` -/

/-- the Rust-side `StateVariation` represents the model's `Variation`: same state, same end-game weight, and the count
tables hold the model's counts wherever they are defined -/
structure SVRep (sv : StateVariation) (v : Variation) : Prop where
  state : sv.f_state = stateOf v.s
  egw : sv.f_end_game_weight = v.egw
  pc : ∀ (c : Color) (p : Piece) (x : UInt8),
    ArrayMap.index sv.f_piece_counts (Index.from_PieceIndex (PieceIndex.new c p)) = some x → x.toNat = pieceCount v.s c p
  cc : ∀ (c : Color) (x : UInt8), ArrayMap.index sv.f_color_counts (Index.from_Color c) = some x → x.toNat = v.count c

theorem u8_as_i32 (x : UInt8) : (UInt32.toInt32 (UInt8.toUInt32 x)).toInt = x.toNat := by
  rw [u32_toInt32_toInt, UInt8.toNat_toUInt32]
  have := x.toNat_lt
  exact Int.bmod_eq_of_le (by omega) (by omega)

/-! ## `evaluate_piece_worths::evaluate` -/

theorem evalWorths_sum (v : Variation) (c : Color) :
    evalWorths v c = (Piece.all.map fun p => Ev.mulF Ev.onePawn (pieceWorth p) * (pieceCount v.s c p : Int)).sum := by
  unfold evalWorths
  rw [foldl_adds _ (fun p => Ev.mulF Ev.onePawn (pieceWorth p) * (pieceCount v.s c p : Int)) _ _ (fun _ _ _ => rfl)]
  simp

/-- `evaluate_piece_worths::evaluate` adds the model's `evalWorths` -/
theorem evaluate_piece_worths.evaluate_eq {sv : StateVariation} {v : Variation} (hr : SVRep sv v) (c : Color)
    (e0 r : Int32) (b : Bool) (h : evaluate_piece_worths.evaluate sv c e0 b = some r) :
    r.toInt = e0.toInt + evalWorths v c := by
  unfold evaluate_piece_worths.evaluate at h
  simp only [bind_pure] at h
  rw [evalWorths_sum, ← Piece.ALL_eq]
  refine foldlM_adds _ _ _ _ _ ?_ h
  intro p _ a r' hb
  simp only [PIECE_PAWN_WORTHS_index, bind, Option.bind] at hb
  cases h1 : ArrayMap.index (StateVariation.f_piece_counts sv) (Index.from_PieceIndex (PieceIndex.new c p)) with
  | none => rw [h1] at hb; cases hb
  | some n =>
    rw [h1] at hb
    have hn := hr.pc c p n h1
    simp only at hb
    cases h2 : Evaluation.mul_i32 (Evaluation.mul_f32 Evaluation.ONE_PAWN (pieceWorth p)) (UInt32.toInt32 (UInt8.toUInt32 n)) with
    | none => rw [h2] at hb; cases hb
    | some m =>
      rw [h2] at hb
      simp only at hb
      cases h3 : Evaluation.add_assign_Evaluation a m with
      | none => rw [h3] at hb; cases hb
      | some q =>
        rw [h3] at hb
        cases hb
        rw [Evaluation.add_assign_some h3, Evaluation.mul_i32_some h2, Evaluation.mul_f32_eq, u8_as_i32, hn,
          Evaluation.consts_eq.1]

/-! ## `evaluate_piece_squares` -/

theorem flipRank_lt64 (n : Nat) (_h : n < 64) : flipRank n < 64 := by
  unfold flipRank mkSq rankOf fileOf; omega

theorem toUInt8_toNat_lt (n : Nat) (h : n < 256) : n.toUInt8.toNat = n := by
  simp [Nat.toUInt8, UInt8.toNat_ofNat', Nat.mod_eq_of_lt h]

/-- the two look-ups `PIECE_SQUARE_MAP[piece][k].index(i)`: the entries of the tables `tools/extract.py` regenerates -/
theorem psm_lookup0 (p : Piece) : ∀ i : Fin 64,
    (((ArrayMap.index evaluate_piece_squares.PIECE_SQUARE_MAP (Index.from_Piece p)).bind fun t =>
      (ArrayMap.index t (0 : UInt64)).bind fun r => ArrayMap.index r (UInt8.toUInt64 i.val.toUInt8)).map Int32.toInt) =
      some ((pieceSquareMap.getD p.code (#[], #[])).1.getD i.val 0) := by
  cases p <;> decide +kernel

theorem psm_lookup1 (p : Piece) : ∀ i : Fin 64,
    (((ArrayMap.index evaluate_piece_squares.PIECE_SQUARE_MAP (Index.from_Piece p)).bind fun t =>
      (ArrayMap.index t (1 : UInt64)).bind fun r => ArrayMap.index r (UInt8.toUInt64 i.val.toUInt8)).map Int32.toInt) =
      some ((pieceSquareMap.getD p.code (#[], #[])).2.getD i.val 0) := by
  cases p <;> decide +kernel

/-- `evaluate_piece_square` = the model's `pieceSquare` (squares `< 64`) -/
theorem evaluate_piece_squares.evaluate_piece_square_eq (p : Piece) (sq : Square) (c : Color) (w : Rat)
    (hs : sq.toNat < 64) (r : Int32)
    (h : evaluate_piece_squares.evaluate_piece_square p sq c w = some r) :
    r.toInt = pieceSquare p sq.toNat c w := by
  unfold evaluate_piece_squares.evaluate_piece_square at h
  -- the oriented square
  have hsq : (if c == Color.white then (pure sq : Panics Square) else Square.flip_rank sq) =
      some ((if c == .white then sq.toNat else flipRank sq.toNat).toUInt8) := by
    cases c
    · simp [toUInt8_toNat_lt]
    · simp [Square.flip_rank_eq sq hs]
  have hn' : (if c == .white then sq.toNat else flipRank sq.toNat) < 64 := by
    cases c
    · simpa using hs
    · simpa using flipRank_lt64 _ hs
  generalize hnn : (if c == .white then sq.toNat else flipRank sq.toNat) = n' at hsq hn'
  simp only [bind_pure_comp, Option.pure_def, Option.bind_eq_bind] at h hsq
  have hsq' : (if (c == Color.white) = true then (some sq : Option Square) else Square.flip_rank sq) = some n'.toUInt8 := by
    simpa using hsq
  rw [hsq'] at h
  simp only [Option.bind_some] at h
  have hidx := Square.white_at_bottom_index_eq n'.toUInt8 (by rw [toUInt8_toNat_lt _ (by omega)]; exact hn')
  rw [toUInt8_toNat_lt _ (by omega)] at hidx
  rw [hidx] at h
  simp only [Option.bind_some] at h
  have l0 := psm_lookup0 p ⟨flipRank n', flipRank_lt64 _ hn'⟩
  have l1 := psm_lookup1 p ⟨flipRank n', flipRank_lt64 _ hn'⟩
  simp only at l0 l1
  obtain ⟨t0, ht0, h⟩ := Option.bind_eq_some_iff.1 h
  obtain ⟨r0, hr0, h⟩ := Option.bind_eq_some_iff.1 h
  obtain ⟨x0, hx0, h⟩ := Option.bind_eq_some_iff.1 h
  obtain ⟨t1, ht1, h⟩ := Option.bind_eq_some_iff.1 h
  obtain ⟨r1, hr1, h⟩ := Option.bind_eq_some_iff.1 h
  obtain ⟨x1, hx1, h⟩ := Option.bind_eq_some_iff.1 h
  rw [ht0] at l0
  simp only [Option.bind_some, hr0, hx0, Option.map_some, Option.some.injEq] at l0
  rw [ht1] at l1
  simp only [Option.bind_some, hr1, hx1, Option.map_some, Option.some.injEq] at l1
  simp only [Option.some.injEq] at h
  subst h
  rw [f32.to_i32_toInt, l0, l1]
  unfold pieceSquare
  simp only [hnn]

theorem evalSquares_sum (v : Variation) (c : Color) :
    evalSquares v c =
      (Piece.all.map fun p => ((bitsOf (v.s.pieces.get c p)).map fun sq => pieceSquare p sq c v.egw).sum).sum := by
  unfold evalSquares
  rw [foldl_adds _ (fun p => ((bitsOf (v.s.pieces.get c p)).map fun sq => pieceSquare p sq c v.egw).sum) _ _
    (fun p _ acc => foldl_adds _ (fun sq => pieceSquare p sq c v.egw) _ _ (fun _ _ _ => rfl))]
  simp

/-- `evaluate_piece_squares::evaluate` adds the model's `evalSquares` -/
theorem evaluate_piece_squares.evaluate_eq {sv : StateVariation} {v : Variation} (hr : SVRep sv v) (c : Color)
    (e0 r : Int32) (b : Bool) (h : evaluate_piece_squares.evaluate sv c e0 b = some r) :
    r.toInt = e0.toInt + evalSquares v c := by
  unfold evaluate_piece_squares.evaluate at h
  simp only [bind_pure] at h
  rw [evalSquares_sum, ← Piece.ALL_eq]
  refine foldlM_adds _ _ _ _ _ ?_ h
  intro p _ a r' hb
  rw [hr.state, hr.egw, Board.piece_occupancy_stateOf] at hb
  simp only [Option.bind_eq_bind, Option.bind_some] at hb
  rw [iter_ones_collect_65] at hb
  simp only [Option.bind_some] at hb
  have := foldlM_adds _ (fun (x : UInt32) => pieceSquare p x.toNat c v.egw) _ a r' ?_ hb
  · rw [this, List.map_map]
    congr 2
    apply List.map_congr_left
    intro n hn
    have hn64 : n < 64 := ((mem_bitsOf _ n).1 hn).1
    simp [Function.comp, Nat.toUInt32, UInt32.toNat_ofNat', Nat.mod_eq_of_lt (show n < 2 ^ 32 by omega)]
  · intro x hx a1 r1 h1
    obtain ⟨n, hn, rfl⟩ := List.mem_map.1 hx
    have hn64 : n < 64 := ((mem_bitsOf _ n).1 hn).1
    have hx32 : (Nat.toUInt32 n).toNat = n := by
      simp [Nat.toUInt32, UInt32.toNat_ofNat', Nat.mod_eq_of_lt (show n < 2 ^ 32 by omega)]
    obtain ⟨y, hy, hz⟩ := Option.bind_eq_some_iff.1 h1
    have hsq : (Square.from_u32 (Nat.toUInt32 n)).toNat = n := by
      rw [Square.from_u32_toNat _ (by omega), hx32]
    have := evaluate_piece_squares.evaluate_piece_square_eq p _ c v.egw (by rw [hsq]; exact hn64) y hy
    rw [Evaluation.add_assign_some hz, this, hsq, hx32]

/-! ## `evaluate_bad_pawns::evaluate` -/

theorem fm_index : ∀ f : Fin 8,
    ArrayMap.index common.FILE_MASKS (Index.from_File f.val.toUInt8) = some (fileMask f.val) := by decide

theorem file_left_eq : ∀ f : Fin 8,
    File.left f.val.toUInt8 = some (if f.val = 0 then Option.none else some (f.val - 1).toUInt8) := by decide

theorem file_right_eq : ∀ f : Fin 8,
    File.right f.val.toUInt8 = some (if f.val = 7 then Option.none else some (f.val + 1).toUInt8) := by decide

/-- the model's contribution of one file -/
def badPawnsFile (pawns : UInt64) (f : Nat) : Int :=
  (if popcount (pawns &&& fileMask f) > doubledPawnMin then - Ev.mulF Ev.onePawn doubledPawnPenalty else 0) +
  (if bbNone (pawns &&& ((if f = 0 then 0 else fileMask (f - 1)) ||| (if f = 7 then 0 else fileMask (f + 1))))
    then - Ev.mulF Ev.onePawn isolatedPawnPenalty else 0)

theorem evalBadPawns_sum (v : Variation) (c : Color) :
    evalBadPawns v c = ((List.range 8).map (badPawnsFile (v.s.pieces.get c .pawn))).sum := by
  unfold evalBadPawns
  simp only
  rw [foldl_adds _ (badPawnsFile (v.s.pieces.get c .pawn)) _ _ ?_]
  · simp
  · intro f _ acc
    unfold badPawnsFile
    generalize ((if f = 0 then 0 else fileMask (f - 1)) ||| (if f = 7 then 0 else fileMask (f + 1)) : UInt64) = M
    by_cases h1 : popcount (v.s.pieces.get c .pawn &&& fileMask f) > doubledPawnMin <;>
      by_cases h2 : bbNone (v.s.pieces.get c .pawn &&& M) = true <;> simp only [h1, h2, if_true, if_false] <;>
      first | omega | (simp; omega) | simp

theorem count_ones_gt_one (b : UInt64) : decide (BitBoard.count_ones b > (1 : UInt32)) = decide (popcount b > doubledPawnMin) := by
  have h := popcount_le b
  rw [BitBoard.count_ones_eq]
  apply decide_eq_decide.2
  show (1 : UInt32) < (popcount b).toUInt32 ↔ popcount b > 1
  rw [UInt32.lt_iff_toNat_lt]
  simp [Nat.toUInt32, UInt32.toNat_ofNat', Nat.mod_eq_of_lt (show popcount b < 2 ^ 32 by omega)]

theorem count_ones_gt_one' (a b : UInt64) :
    decide (BitBoard.count_ones (BitBoard.bitand a b) > (1 : UInt32)) = decide (popcount (a &&& b) > doubledPawnMin) :=
  count_ones_gt_one (a &&& b)

theorem bp_tail (P M : UInt64) (e1 r' : Int32)
    (hb : (if bbNone (P &&& M) = true then
        Evaluation.sub_assign_Evaluation e1 (Evaluation.mul_f32 Evaluation.ONE_PAWN (f32.ofBits 1056964608)) else some e1) = some r') :
    r'.toInt = e1.toInt + (if bbNone (P &&& M) then - Ev.mulF Ev.onePawn isolatedPawnPenalty else 0) := by
  by_cases hc : bbNone (P &&& M) = true
  · rw [if_pos hc] at hb
    rw [if_pos hc, Evaluation.sub_assign_some hb, Evaluation.mul_f32_eq, Evaluation.consts_eq.1, f32_literals.2.1]; omega
  · rw [if_neg hc] at hb
    cases hb
    rw [if_neg hc]; omega

/-- `evaluate_bad_pawns::evaluate` adds the model's `evalBadPawns` -/
theorem evaluate_bad_pawns.evaluate_eq {sv : StateVariation} {v : Variation} (hr : SVRep sv v) (c : Color)
    (e0 r : Int32) (b : Bool) (h : evaluate_bad_pawns.evaluate sv c e0 b = some r) :
    r.toInt = e0.toInt + evalBadPawns v c := by
  unfold evaluate_bad_pawns.evaluate at h
  rw [hr.state, Board.piece_occupancy_stateOf] at h
  simp only [Option.bind_eq_bind, Option.bind_some, bind_pure] at h
  rw [evalBadPawns_sum]
  generalize v.s.pieces.get c .pawn = P at h ⊢
  have hmap : ((List.range 8).map (badPawnsFile P)) = (File.ALL.map fun (x : UInt8) => badPawnsFile P x.toNat) := by
    rw [File.ALL_eq, List.map_map]
    apply List.map_congr_left
    intro k hk
    have hk8 : k < 8 := List.mem_range.1 hk
    simp [Function.comp, toUInt8_toNat_lt k (by omega)]
  rw [hmap]
  refine foldlM_adds _ _ _ _ _ ?_ h
  intro x hx a r' hb
  rw [File.ALL_eq] at hx
  obtain ⟨k, hk, rfl⟩ := List.mem_map.1 hx
  have hk8 : k < 8 := List.mem_range.1 hk
  rw [toUInt8_toNat_lt k (by omega)]
  have H1 := fm_index ⟨k, hk8⟩
  have HL := file_left_eq ⟨k, hk8⟩
  have HR := file_right_eq ⟨k, hk8⟩
  simp only at H1 HL HR
  simp only [H1, Option.bind_eq_bind, Option.bind_some, count_ones_gt_one'] at hb
  simp only [HL, HR, Option.bind_eq_bind, Option.bind_some, BitBoard.bitand_eq, BitBoard.bitor_eq, BitBoard.ZERO_eq,
    BitBoard.none_eq, Option.pure_def] at hb
  obtain ⟨e1, he1, hb⟩ := Option.bind_eq_some_iff.1 hb
  -- the doubled-pawn part
  have hd : e1.toInt = a.toInt +
      (if popcount (P &&& fileMask k) > doubledPawnMin then - Ev.mulF Ev.onePawn doubledPawnPenalty else 0) := by
    by_cases hc : popcount (P &&& fileMask k) > doubledPawnMin
    · rw [if_pos hc]
      rw [decide_eq_true hc, if_pos rfl] at he1
      rw [Evaluation.sub_assign_some he1, Evaluation.mul_f32_eq, Evaluation.consts_eq.1, f32_literals.1]; omega
    · rw [if_neg hc]
      rw [decide_eq_false hc, if_neg (by simp)] at he1
      cases he1; omega
  have L := fun (h0 : ¬ k = 0) => fm_index ⟨k - 1, by omega⟩
  have R := fun (h7 : ¬ k = 7) => fm_index ⟨k + 1, by omega⟩
  simp only at L R
  unfold badPawnsFile
  by_cases h0 : k = 0 <;> by_cases h7 : k = 7
  · omega
  · subst h0
    have R1 : ArrayMap.index common.FILE_MASKS (Index.from_File (0 + 1).toUInt8) = some (fileMask (0 + 1)) :=
      fm_index ⟨1, by omega⟩
    simp only [↓reduceIte, h7, R1, Option.bind_some, Option.getD_some, Option.getD_none] at hb
    have := bp_tail _ _ _ _ hb
    rw [this, hd]; simp only [↓reduceIte, h7, UInt64.zero_or, UInt64.or_zero]; omega
  · subst h7
    have L1 : ArrayMap.index common.FILE_MASKS (Index.from_File (7 - 1).toUInt8) = some (fileMask (7 - 1)) :=
      fm_index ⟨6, by omega⟩
    simp only [↓reduceIte, h0, L1, Option.bind_some, Option.getD_some, Option.getD_none] at hb
    have := bp_tail _ _ _ _ hb
    rw [this, hd]; simp only [↓reduceIte, h0, UInt64.zero_or, UInt64.or_zero]; omega
  · simp only [h0, h7, if_true, if_false, L h0, R h7, Option.bind_some, Option.getD_some, Option.getD_none] at hb
    have := bp_tail _ _ _ _ hb
    simp only [h0, h7, if_true, if_false]
    rw [this, hd]; simp only [UInt64.zero_or, UInt64.or_zero]; omega

/-! ## `evaluate_force_king_to_edge::evaluate` -/

theorem u8_checked_add_some {a b r : UInt8} (h : UInt8.checked_add a b = some r) : r.toNat = a.toNat + b.toNat := by
  unfold UInt8.checked_add at h
  split at h
  · rename_i hr; cases h; rw [UInt8.toNat_add]; exact Nat.mod_eq_of_lt hr
  · cases h

theorem u8_min_toNat (a b : UInt8) : (u8_min a b).toNat = min a.toNat b.toNat := by
  unfold u8_min
  by_cases h : a ≤ b
  · rw [if_pos h]; rw [UInt8.le_iff_toNat_le] at h; omega
  · rw [if_neg h]; rw [UInt8.le_iff_toNat_le] at h; omega

theorem manhattan_lt (a b : Nat) (ha : a < 64) (hb : b < 64) : manhattan a b < 16 := by
  unfold manhattan absDist rankOf fileOf
  split <;> split <;> omega

theorem firstOne_lt64 (b : UInt64) (n : Nat) (h : firstOne b = some n) : n < 64 := firstOne_lt b n h

theorem ke_arith (x1 x2 x3 x4 md : Nat) (s13 s14 s15 s16 : Int) (q13 : s13 = ↑(min x1 x2) + ↑(min x3 x4))
    (q14 : s14 = 6 - s13) (q15 : s15 = 10 * s14) (q16 : s16 = s15 - md) :
    s16 = 10 * (6 - (min (x1 : Int) x2 + min (x3 : Int) x4)) - md := by omega

/-- `evaluate_force_king_to_edge::evaluate` adds the model's `evalKingEdge` -/
theorem evaluate_force_king_to_edge.evaluate_eq {sv : StateVariation} {v : Variation} (hr : SVRep sv v) (c : Color)
    (e0 r : Int32) (b : Bool) (h : evaluate_force_king_to_edge.evaluate sv c e0 b = some r) :
    r.toInt = e0.toInt + evalKingEdge v c := by
  unfold evaluate_force_king_to_edge.evaluate at h
  unfold evalKingEdge
  rw [hr.egw, f32_literals.2.2.1] at h
  by_cases h1 : v.egw < kingEdgeThreshold
  · rw [if_pos h1]
    rw [decide_eq_true h1, if_pos rfl] at h
    cases h; omega
  · rw [if_neg h1]
    rw [decide_eq_false h1, if_neg (by simp)] at h
    simp only [Option.bind_eq_bind, Color.not_eq] at h
    obtain ⟨t1, ht1, h⟩ := Option.bind_eq_some_iff.1 h
    obtain ⟨t2, ht2, h⟩ := Option.bind_eq_some_iff.1 h
    obtain ⟨t3, ht3, h⟩ := Option.bind_eq_some_iff.1 h
    have e1 := hr.cc c t1 ht1
    have e2 := hr.cc c.opp t2 ht2
    have e3 := u8_checked_add_some ht3
    have one : (1 : UInt8).toNat = 1 := rfl
    have hm : kingEdgeCountMargin = 1 := rfl
    by_cases h2 : v.count c < v.count c.opp + kingEdgeCountMargin
    · rw [if_pos h2]
      have : t1 < t3 := by rw [UInt8.lt_iff_toNat_lt]; omega
      rw [decide_eq_true this, if_pos rfl] at h
      cases h; omega
    · rw [if_neg h2]
      have : ¬ t1 < t3 := by rw [UInt8.lt_iff_toNat_lt]; omega
      rw [decide_eq_false this, if_neg (by simp)] at h
      rw [hr.state, Board.piece_occupancy_stateOf, Board.piece_occupancy_stateOf] at h
      simp only [Option.bind_some, BitBoard.pop_eq] at h
      cases ho : firstOne (v.s.pieces.get c .king) with
      | none =>
        rw [ho] at h
        simp only at h
        cases h; simp
      | some ours =>
        rw [ho] at h
        simp only at h
        cases ht : firstOne (v.s.pieces.get c.opp .king) with
        | none =>
          rw [ht] at h
          simp only at h
          cases h; simp
        | some theirs =>
          rw [ht] at h
          simp only at h
          have ho64 := firstOne_lt64 _ _ ho
          have ht64 := firstOne_lt64 _ _ ht
          have hou : ours.toUInt8.toNat = ours := toUInt8_toNat_lt _ (by omega)
          have htu : theirs.toUInt8.toNat = theirs := toUInt8_toNat_lt _ (by omega)
          have hrk : (Square.rank theirs.toUInt8).toNat = rankOf theirs := by rw [Square.rank_toNat, htu]
          have hfl : (Square.file theirs.toUInt8).toNat = fileOf theirs := by rw [Square.file_toNat, htu]
          have hrk8 : rankOf theirs < 8 := by unfold rankOf; omega
          have hfl8 : fileOf theirs < 8 := by unfold fileOf; omega
          rw [Square.manhattan_distance_to_eq _ _ (by omega) (by omega),
            Rank.abs_distance_to_eq _ _ (by omega) (by decide), Rank.abs_distance_to_eq _ _ (by omega) (by decide),
            File.abs_distance_to_eq _ _ (by omega) (by decide), File.abs_distance_to_eq _ _ (by omega) (by decide)] at h
          simp only [Option.bind_some, hou, htu, hrk, hfl] at h
          have r0 : Rank.ONE.toNat = 0 := rfl
          have r7 : Rank.EIGHT.toNat = 7 := rfl
          have f0 : File.A.toNat = 0 := rfl
          have f7 : File.H.toNat = 7 := rfl
          rw [r0, r7, f0, f7] at h
          have hmd := manhattan_lt ours theirs ho64 ht64
          have a1 := absDist_lt8 (rankOf theirs) 0 hrk8 (by omega)
          have a2 := absDist_lt8 (rankOf theirs) 7 hrk8 (by omega)
          have a3 := absDist_lt8 (fileOf theirs) 0 hfl8 (by omega)
          have a4 := absDist_lt8 (fileOf theirs) 7 hfl8 (by omega)
          obtain ⟨s13, hs13, h⟩ := Option.bind_eq_some_iff.1 h
          obtain ⟨s14, hs14, h⟩ := Option.bind_eq_some_iff.1 h
          obtain ⟨s15, hs15, h⟩ := Option.bind_eq_some_iff.1 h
          obtain ⟨s16, hs16, h⟩ := Option.bind_eq_some_iff.1 h
          obtain ⟨s17, hs17, h⟩ := Option.bind_eq_some_iff.1 h
          cases h
          have k6 : (6 : Int32).toInt = 6 := by decide
          have k10 : (10 : Int32).toInt = 10 := by decide
          have q13 := i32_checked_add_some hs13
          have q14 := i32_checked_sub_some hs14
          have q15 := i32_checked_mul_some hs15
          have q16 := i32_checked_sub_some hs16
          rw [u8_as_i32, u8_as_i32, u8_min_toNat, u8_min_toNat, toUInt8_toNat_lt _ (by omega), toUInt8_toNat_lt _ (by omega),
            toUInt8_toNat_lt _ (by omega), toUInt8_toNat_lt _ (by omega)] at q13
          rw [u8_as_i32, toUInt8_toNat_lt _ (by omega)] at q16
          rw [Evaluation.add_assign_some hs17, Evaluation.mul_f32_eq]
          have hk : kingEdgeFactor = 10 := rfl
          have hc : kingEdgeCentre = 6 := rfl
          simp only [hk, hc]
          congr 2
          rw [k10] at q15
          rw [k6] at q14
          exact ke_arith _ _ _ _ _ _ _ _ _ q13 q14 q15 q16

/-! ## `StateVariation::from(&State)` -/

/-- the men of colour `c` among the (colour, piece) pairs already counted -/
def cntOf (s : Wee.State) (done : List (Color × Piece)) (c : Color) : Nat :=
  (done.map fun cp => if cp.1 = c then pieceCount s cp.1 cp.2 else 0).sum

theorem cntOf_append (s : Wee.State) (d : List (Color × Piece)) (c c' : Color) (p : Piece) :
    cntOf s (d ++ [(c, p)]) c' = cntOf s d c' + (if c = c' then pieceCount s c p else 0) := by
  simp [cntOf, List.map_append, List.sum_append]

/-- loop invariant of the two nested `for` loops of `StateVariation::from`: `(color_counts, piece_counts)` after the
pairs `done` -/
structure SVInv (s : Wee.State) (done : List (Color × Piece)) (st : Array UInt8 × Array UInt8) : Prop where
  ccs : st.1.size = 2
  pcs : st.2.size = 16
  cc : ∀ c : Color, ∃ x, st.1[c.idx]? = some x ∧ x.toNat = cntOf s done c
  pc : ∀ (c : Color) (p : Piece), ∃ x, st.2[(PieceIndex.new c p).toNat]? = some x ∧
    ((c, p) ∈ done → x.toNat = pieceCount s c p) ∧ ((c, p) ∉ done → x = 0)

theorem foldlM_inv {σ α : Type} (f : σ → α → Option σ) (P : List α → σ → Prop)
    (step : ∀ d st x st', P d st → f st x = some st' → P (d ++ [x]) st') :
    ∀ (l : List α) (d : List α) (st r : σ), P d st → List.foldlM f st l = some r → P (d ++ l) r
  | [], d, st, r, hP, h => by
    simp only [List.foldlM_nil, Option.pure_def, Option.some.injEq] at h
    subst h; simpa using hP
  | x :: t, d, st, r, hP, h => by
    rw [List.foldlM_cons] at h
    cases hb : f st x with
    | none => rw [hb] at h; cases h
    | some st1 =>
      rw [hb] at h
      have := foldlM_inv f P step t (d ++ [x]) st1 r (step d st x st1 hP hb) h
      simpa [List.append_assoc] using this

theorem count_u8 (b : UInt64) : (UInt32.toUInt8 (BitBoard.count_ones b)).toNat = popcount b := by
  have h := popcount_le b
  rw [BitBoard.count_ones_eq, UInt32.toNat_toUInt8]
  simp [Nat.toUInt32, UInt32.toNat_ofNat', Nat.mod_eq_of_lt (show popcount b < 2 ^ 32 by omega)]
  omega

theorem PieceIndex.new_inj (c c' : Color) (p p' : Piece) (h : (PieceIndex.new c p).toNat = (PieceIndex.new c' p').toNat) :
    c = c' ∧ p = p' := by
  cases c <;> cases c' <;> cases p <;> cases p' <;> first | exact ⟨rfl, rfl⟩ | (exfalso; revert h; decide)

theorem color_idx_inj (c c' : Color) (h : c.idx = c'.idx) : c = c' := by
  cases c <;> cases c' <;> first | rfl | cases h

/-- one iteration of the inner loop keeps the invariant -/
theorem sv_step (s : Wee.State) (c : Color) (p : Piece) (d : List (Color × Piece)) (cc pc : Array UInt8)
    (st' : Array UInt8 × Array UInt8) (hI : SVInv s d (cc, pc))
    (hb : ((ArrayMap.index cc (Index.from_Color c)).bind fun t4 =>
            (UInt8.checked_add t4 (UInt32.toUInt8 (BitBoard.count_ones (s.pieces.get c p)))).bind fun t5 =>
            (ArrayMap.set cc (Index.from_Color c) t5).bind fun t6 =>
            (ArrayMap.set pc (Index.from_PieceIndex (PieceIndex.new c p))
              (UInt32.toUInt8 (BitBoard.count_ones (s.pieces.get c p)))).bind fun t7 =>
            some (t6, t7)) = some st') :
    SVInv s (d ++ [(c, p)]) st' := by
  obtain ⟨t4, ht4, hb⟩ := Option.bind_eq_some_iff.1 hb
  obtain ⟨t5, ht5, hb⟩ := Option.bind_eq_some_iff.1 hb
  obtain ⟨t6, ht6, hb⟩ := Option.bind_eq_some_iff.1 hb
  obtain ⟨t7, ht7, hb⟩ := Option.bind_eq_some_iff.1 hb
  cases hb
  have e5 := u8_checked_add_some ht5
  rw [count_u8] at e5
  unfold ArrayMap.index at ht4
  unfold ArrayMap.set at ht6 ht7
  rw [Index.from_Color_toNat] at ht4 ht6
  rw [Index.from_PieceIndex_toNat] at ht7
  split at ht6
  case isFalse => cases ht6
  rename_i h6
  split at ht7
  case isFalse => cases ht7
  rename_i h7
  cases ht6; cases ht7
  refine ⟨by simpa using hI.ccs, by simpa using hI.pcs, ?_, ?_⟩
  · intro c'
    simp only [Array.getElem?_setIfInBounds, cntOf_append]
    by_cases hc : c.idx = c'.idx
    · have := color_idx_inj _ _ hc
      subst this
      obtain ⟨x, hx, hxv⟩ := hI.cc c
      simp only at hx
      rw [hx] at ht4; cases ht4
      refine ⟨t5, by simp [h6], ?_⟩
      rw [e5, hxv]; simp [pieceCount]
    · obtain ⟨x, hx, hxv⟩ := hI.cc c'
      refine ⟨x, by simpa [hc] using hx, ?_⟩
      have : ¬ c = c' := fun e => hc (by rw [e])
      rw [hxv]; simp [this]
  · intro c' p'
    simp only [Array.getElem?_setIfInBounds]
    by_cases hi : (PieceIndex.new c p).toNat = (PieceIndex.new c' p').toNat
    · obtain ⟨rfl, rfl⟩ := PieceIndex.new_inj _ _ _ _ hi
      refine ⟨UInt32.toUInt8 (BitBoard.count_ones (s.pieces.get c p)), by simp [h7], fun _ => by rw [count_u8]; rfl, fun hn => ?_⟩
      exact absurd (List.mem_append_right _ (List.mem_singleton.2 rfl)) hn
    · obtain ⟨x, hx, hx1, hx2⟩ := hI.pc c' p'
      have hne : (c', p') ≠ (c, p) := by
        intro e; injection e with e1 e2; subst e1; subst e2; exact hi rfl
      refine ⟨x, by simpa [hi] using hx, fun hm => hx1 ?_, fun hn => hx2 (fun hm => hn (List.mem_append_left _ hm))⟩
      rcases List.mem_append.1 hm with hm | hm
      · exact hm
      · exact absurd (List.mem_singleton.1 hm) hne

/-- all (colour, piece) pairs in the order of the loops -/
def allPairs : List (Color × Piece) := Color.ALL.flatMap fun c => Piece.ALL.map fun p => (c, p)

theorem cntOf_all (s : Wee.State) (c : Color) : cntOf s allPairs c = (Variation.of s).count c := by
  cases c <;> simp [cntOf, allPairs, Color.ALL, Piece.ALL, Variation.of, Variation.count, Piece.all]

theorem mem_allPairs (c : Color) (p : Piece) : (c, p) ∈ allPairs ↔ p ≠ .none := by
  cases c <;> cases p <;> decide

theorem egw_den_ne :
    ¬ (F32.add (F32.add (f32.ofBits 0x40400000) (f32.ofBits 0x3f800000)) (f32.ofBits 0x3f800000) = 0) := by decide +kernel

theorem popcount_zero' : popcount 0 = 0 := by decide

theorem occ_count (s : Wee.State) :
    Int.ofNat (UInt32.toNat (BitBoard.count_ones s.pieces.occ)) = ((popcount s.pieces.occ : Nat) : Int) := by
  have h := popcount_le s.pieces.occ
  rw [BitBoard.count_ones_eq]
  simp [Nat.toUInt32, UInt32.toNat_ofNat', Nat.mod_eq_of_lt (show popcount s.pieces.occ < 2 ^ 32 by omega)]

/-- **`StateVariation::from(&State)`**: when it returns, the result represents the model's `Variation.of s` (same
state, same end-game weight, the count tables hold the model's counts) -/
theorem StateVariation.from_State_eq (s : Wee.State) (sv : StateVariation)
    (h : StateVariation.from_State (stateOf s) = some sv) : SVRep sv (Variation.of s) := by
  unfold StateVariation.from_State at h
  simp only [Option.bind_eq_bind] at h
  obtain ⟨st, hst, h⟩ := Option.bind_eq_some_iff.1 h
  -- the two loops
  have hI : SVInv s allPairs st := by
    have h0 : SVInv s [] (Array.replicate 2 (0 : UInt8), Array.replicate 16 (0 : UInt8)) := by
      refine ⟨rfl, rfl, fun c => ⟨0, by cases c <;> rfl, rfl⟩, fun c p => ⟨0, ?_, fun hm => (by cases hm), fun _ => rfl⟩⟩
      cases c <;> cases p <;> rfl
    have := foldlM_inv _ (fun (dc : List Color) st => SVInv s (dc.flatMap fun c => Piece.ALL.map fun p => (c, p)) st)
      ?_ Color.ALL [] _ st (by simpa using h0) hst
    · simpa [allPairs] using this
    · intro dc st0 c st1 hP hb
      obtain ⟨st2, hst2, hb⟩ := Option.bind_eq_some_iff.1 hb
      simp only [Option.pure_def, Option.some.injEq] at hb
      subst hb
      have := foldlM_inv _ (fun (dp : List Piece) st =>
        SVInv s ((dc.flatMap fun c => Piece.ALL.map fun p => (c, p)) ++ dp.map fun p => (c, p)) st)
        ?_ Piece.ALL [] _ st2 (by simpa using hP) hst2
      · simpa [List.flatMap_append] using this
      · intro dp sta p stb hPa hba
        have := sv_step s c p _ sta.1 sta.2 stb hPa (by
          simpa only [Board.piece_occupancy_stateOf, Option.bind_eq_bind, Option.bind_some, Option.pure_def] using hba)
        simpa [List.map_append, List.append_assoc] using this
  -- `count_pieces`
  have hcp : ∀ p : Piece, p ≠ .none → ∀ r,
      ((ArrayMap.index st.2 (Index.from_PieceIndex (PieceIndex.new Color.white p))).bind fun t9 =>
        (ArrayMap.index st.2 (Index.from_PieceIndex (PieceIndex.new Color.black p))).bind fun t10 =>
        (UInt8.checked_add t9 t10).bind fun t11 => some (F32.ofInt (Int.ofNat (UInt8.toNat t11)))) = some r →
      r = F32.ofInt ((pieceCount s .white p + pieceCount s .black p : Nat) : Int) := by
    intro p hp r hr
    obtain ⟨t9, ht9, hr⟩ := Option.bind_eq_some_iff.1 hr
    obtain ⟨t10, ht10, hr⟩ := Option.bind_eq_some_iff.1 hr
    obtain ⟨t11, ht11, hr⟩ := Option.bind_eq_some_iff.1 hr
    cases hr
    unfold ArrayMap.index at ht9 ht10
    rw [Index.from_PieceIndex_toNat] at ht9 ht10
    obtain ⟨x, hx, hx1, _⟩ := hI.pc .white p
    obtain ⟨y, hy, hy1, _⟩ := hI.pc .black p
    rw [hx] at ht9; cases ht9
    rw [hy] at ht10; cases ht10
    rw [u8_checked_add_some ht11, hx1 ((mem_allPairs _ _).2 hp), hy1 ((mem_allPairs _ _).2 hp)]
    rfl
  simp only [Option.pure_def] at h
  obtain ⟨c12, h12, h⟩ := Option.bind_eq_some_iff.1 h
  obtain ⟨c13, h13, h⟩ := Option.bind_eq_some_iff.1 h
  obtain ⟨c14, h14, h⟩ := Option.bind_eq_some_iff.1 h
  cases h
  have e12 := hcp .pawn (by decide) c12 h12
  have e13 := hcp .queen (by decide) c13 h13
  obtain ⟨l1, l2, l3, l4, l5, l6, l7, lw1, lw2, lw3, ld1, ld2, ld3, lone⟩ := f32_literals
  rw [e12, e13, Board.occupancy_stateOf, occ_count] at h14
  unfold f32.checked_div at h14
  rw [if_neg egw_den_ne] at h14
  cases h14
  refine ⟨rfl, ?_, ?_, ?_⟩
  · show F32.sub (f32.ofBits 0x3f800000) _ = _
    unfold Variation.of
    simp only
    rw [← lw1, ← lw2, ← lw3, ← ld1, ← ld2, ← ld3, ← lone]
  · intro c p x hx
    unfold ArrayMap.index at hx
    rw [Index.from_PieceIndex_toNat] at hx
    obtain ⟨y, hy, hy1, hy2⟩ := hI.pc c p
    rw [show (StateVariation.f_piece_counts _) = st.2 from rfl] at hx
    rw [hy] at hx; cases hx
    by_cases hp : p = .none
    · subst hp
      rw [hy2 (fun hm => ((mem_allPairs _ _).1 hm) rfl)]
      cases c <;> exact popcount_zero'.symm
    · exact hy1 ((mem_allPairs _ _).2 hp)
  · intro c x hx
    unfold ArrayMap.index at hx
    rw [Index.from_Color_toNat] at hx
    obtain ⟨y, hy, hy1⟩ := hI.cc c
    rw [show (StateVariation.f_color_counts _) = st.1 from rfl] at hx
    rw [hy] at hx; cases hx
    rw [hy1, cntOf_all]

/-! ## `Evaluator::evaluate` -/

/-- `State::is_check` (translated here) through stage 3a's `Board::is_check` -/
theorem State.is_check_eq (s : Wee.State) : State.is_check (stateOf s) = some s.isCheck := by
  unfold State.is_check
  have e : State.f_board (stateOf s) = boardOf s.pieces := rfl
  have t : State.f_turn_to_move (stateOf s) = s.turn := rfl
  rw [e, t, Board.is_check_eq]
  rfl

theorem clampHeuristic_int (e : Int) :
    clampHeuristic e = if e < -9999 then -9999 else if e > 9999 then 9999 else e := by
  have n : Ev.negInf = (-10000 : Int) := by decide
  have p : Ev.posInf = (10000 : Int) := by decide
  unfold clampHeuristic
  rw [n, p]
  show (max (-10000 + 1) (min (10000 - 1) e) : Int) = _
  omega

/-- `eval.clamp(NEG_INF + 1, POS_INF - 1)` = the model's `clampHeuristic`; it never panics -/
theorem i32_clamp_eq (x : Int32) :
    i32_clamp x (Evaluation.NEG_INF + (1 : Int32)) (Evaluation.POS_INF - (1 : Int32)) =
      some (Int32.ofInt (clampHeuristic x.toInt)) ∧
    (Int32.ofInt (clampHeuristic x.toInt)).toInt = clampHeuristic x.toInt := by
  have c1 : (Evaluation.NEG_INF + (1 : Int32)).toInt = (-9999 : Int) := by decide
  have c2 : (Evaluation.POS_INF - (1 : Int32)).toInt = (9999 : Int) := by decide
  have hx1 := Int32.le_toInt x
  have hx2 := Int32.toInt_lt x
  have hcl : (Int32.ofInt (clampHeuristic x.toInt)).toInt = clampHeuristic x.toInt := by
    rw [clampHeuristic_int]
    apply Int32.toInt_ofInt_of_le <;> omega
  refine ⟨?_, hcl⟩
  unfold i32_clamp
  have hle : Evaluation.NEG_INF + (1 : Int32) ≤ Evaluation.POS_INF - (1 : Int32) := by decide
  rw [if_pos hle]
  congr 1
  apply Int32.toInt_inj.1
  rw [hcl, clampHeuristic_int]
  by_cases h1 : x < Evaluation.NEG_INF + (1 : Int32)
  · rw [if_pos h1]
    rw [Int32.lt_iff_toInt_lt] at h1
    rw [c1] at h1 ⊢
    rw [if_pos h1]
  · rw [if_neg h1]
    rw [Int32.lt_iff_toInt_lt, c1] at h1
    rw [if_neg h1]
    by_cases h2 : x > Evaluation.POS_INF - (1 : Int32)
    · rw [if_pos h2]
      have h2' : (Evaluation.POS_INF - (1 : Int32)).toInt < x.toInt := Int32.lt_iff_toInt_lt.1 h2
      rw [c2] at h2' ⊢
      rw [if_pos h2']
    · rw [if_neg h2]
      have h2' : ¬ (Evaluation.POS_INF - (1 : Int32)).toInt < x.toInt := fun hh => h2 (Int32.lt_iff_toInt_lt.2 hh)
      rw [c2] at h2'
      rw [if_neg h2']

theorem weights_eq : f32.ofBits 0x3f800000 = mkRat 1 1 ∧ f32.ofBits 0x3f4ccccd = mkRat 13421773 16777216 ∧
    f32.ofBits 0x3e4ccccd = mkRat 13421773 67108864 := by decide +kernel

theorem evalHeuristic_unfold (v : Variation) (c : Color) :
    evalHeuristic v c =
      0 + Ev.mulF (evalWorths v c - evalWorths v c.opp) (mkRat 1 1)
        + Ev.mulF (evalSquares v c - evalSquares v c.opp) (mkRat 13421773 16777216)
        + Ev.mulF (evalKingEdge v c - evalKingEdge v c.opp) (mkRat 1 1)
        + Ev.mulF (evalBadPawns v c - evalBadPawns v c.opp) (mkRat 13421773 67108864) := rfl

/-- one iteration of the `for (w, f) in self.fns` loop for a term function that adds the model's term `M` -/
theorem heur_term {sv : StateVariation} {v : Variation}
    (T : StateVariation → Color → Evaluation → Bool → Panics Evaluation) (M : Variation → Color → Eval)
    (hT : ∀ (c : Color) (e0 r : Int32) (b : Bool), T sv c e0 b = some r → r.toInt = e0.toInt + M v c)
    (w : Rat) (c : Color) (init res : Bool × Int32 × Bool) (hi1 : init.1 = false) (hi2 : init.2.2 = false)
    (h : (if init.2.2 = true then some init else
        ((T sv c Evaluation.EVEN init.1).bind fun e => some (e, init.1)).bind fun t17 =>
        ((T sv (Color.not c) Evaluation.EVEN t17.2).bind fun e => some (e, t17.2)).bind fun t18 =>
        (Evaluation.sub_Evaluation t17.1 t18.1).bind fun t19 =>
        (Evaluation.add_assign_Evaluation init.2.1 (Evaluation.mul_f32 t19 w)).bind fun t20 =>
        some (t18.2, t20, t18.2)) = some res) :
    res.1 = false ∧ res.2.2 = false ∧ res.2.1.toInt = init.2.1.toInt + Ev.mulF (M v c - M v c.opp) w := by
  rw [if_neg (by simp [hi2])] at h
  obtain ⟨t17, h1, h⟩ := Option.bind_eq_some_iff.1 h
  obtain ⟨e1, h1', h1⟩ := Option.bind_eq_some_iff.1 h1
  cases h1
  obtain ⟨t18, h2, h⟩ := Option.bind_eq_some_iff.1 h
  obtain ⟨e2, h2', h2⟩ := Option.bind_eq_some_iff.1 h2
  cases h2
  obtain ⟨e, h3, h⟩ := Option.bind_eq_some_iff.1 h
  obtain ⟨a, h4, h⟩ := Option.bind_eq_some_iff.1 h
  cases h
  refine ⟨hi1, hi1, ?_⟩
  show a.toInt = _
  rw [Evaluation.add_assign_some h4, Evaluation.mul_f32_eq, Evaluation.sub_some h3, hT _ _ _ _ h1', hT _ _ _ _ h2',
    Evaluation.consts_eq.2.2.2, Color.not_eq]
  simp

/-- the heuristic part of `Evaluator::evaluate` (the loop over `EVALUATORS` and the clamp) -/
theorem heuristic_eq {sv : StateVariation} {v : Variation} (hr : SVRep sv v) (c : Color) (r : Int32)
    (h : ((List.foldlM (fun (loop_state : (Bool × Evaluation × Bool)) (loop_item : (f32 × EvaluationFunction)) =>
        if loop_state.2.2 then pure loop_state else
          (loop_item.2 sv c Evaluation.EVEN loop_state.1).bind fun t17 =>
          (loop_item.2 sv (Color.not c) Evaluation.EVEN t17.2).bind fun t18 =>
          (Evaluation.sub_Evaluation t17.1 t18.1).bind fun t19 =>
          (Evaluation.add_assign_Evaluation loop_state.2.1 (Evaluation.mul_f32 t19 loop_item.1)).bind fun t20 =>
          pure (t18.2, t20, t18.2)) (false, Evaluation.EVEN, false) eval.EVALUATORS).bind fun t16 =>
        i32_clamp t16.2.1 (Evaluation.NEG_INF + (1 : Int32)) (Evaluation.POS_INF - (1 : Int32))) = some r) :
    r.toInt = clampHeuristic (evalHeuristic v c) := by
  obtain ⟨t16, hf, hc⟩ := Option.bind_eq_some_iff.1 h
  rw [(i32_clamp_eq _).1] at hc
  cases hc
  rw [(i32_clamp_eq _).2]
  congr 1
  obtain ⟨w1, w8, w2⟩ := weights_eq
  have hi : ((false, Evaluation.EVEN, false) : Bool × Evaluation × Bool).1 = false ∧
      ((false, Evaluation.EVEN, false) : Bool × Evaluation × Bool).2.2 = false ∧
      ((false, Evaluation.EVEN, false) : Bool × Evaluation × Bool).2.1.toInt = 0 := ⟨rfl, rfl, by decide⟩
  generalize ((false, Evaluation.EVEN, false) : Bool × Evaluation × Bool) = init0 at hf hi
  simp only [eval.EVALUATORS, List.foldlM_cons, List.foldlM_nil, Option.bind_eq_bind, Option.pure_def] at hf
  obtain ⟨s1, h1, hf⟩ := Option.bind_eq_some_iff.1 hf
  obtain ⟨s2, h2, hf⟩ := Option.bind_eq_some_iff.1 hf
  obtain ⟨s3, h3, hf⟩ := Option.bind_eq_some_iff.1 hf
  obtain ⟨s4, h4, hf⟩ := Option.bind_eq_some_iff.1 hf
  cases hf
  obtain ⟨a1, b1, r1⟩ := heur_term evaluate_piece_worths.evaluate evalWorths
    (fun c e0 r b => evaluate_piece_worths.evaluate_eq hr c e0 r b) _ c _ _ hi.1 hi.2.1 h1
  obtain ⟨a2, b2, r2⟩ := heur_term evaluate_piece_squares.evaluate evalSquares
    (fun c e0 r b => evaluate_piece_squares.evaluate_eq hr c e0 r b) _ c _ _ a1 b1 h2
  obtain ⟨a3, b3, r3⟩ := heur_term evaluate_force_king_to_edge.evaluate evalKingEdge
    (fun c e0 r b => evaluate_force_king_to_edge.evaluate_eq hr c e0 r b) _ c _ _ a2 b2 h3
  obtain ⟨a4, b4, r4⟩ := heur_term evaluate_bad_pawns.evaluate evalBadPawns
    (fun c e0 r b => evaluate_bad_pawns.evaluate_eq hr c e0 r b) _ c _ _ a3 b3 h4
  rw [evalHeuristic_unfold, r4, r3, r2, r1, hi.2.2, w1, w8, w2]

theorem isEmpty_res (ms : List (Wee.Move × Wee.State)) : Array.isEmpty (ms.map resOf).toArray = ms.isEmpty := by
  cases ms <;> rfl

/-- the terminal test of `Evaluator::evaluate` (checkmate / stalemate / neither) -/
theorem terminal_eq (s : Wee.State) (c : Color) (depth : UInt64) (hd : depth.toNat < 2 ^ 31) (chk : Bool) (X : Int)
    (H : Option Int32) (hH : ∀ r, H = some r → r.toInt = X) (r : Int32)
    (h : (((Option.map (fun rs => (List.map resOf rs).toArray) (legalMoves? s)).bind fun tmp10 =>
          Option.bind (if Array.isEmpty tmp10 = true then some chk else some false) fun tmp13 =>
            Option.bind
              (if tmp13 = true then
                Option.bind
                  (if (s.turn == c) = true then Option.bind (Evaluation.mate_in_ply depth) fun tmp15 => Evaluation.neg tmp15
                  else Evaluation.mate_in_ply depth)
                  fun tmp14 => some (Early.ret tmp14)
              else if Array.isEmpty tmp10 = true then some (Early.ret Evaluation.EVEN) else some (Early.cont ()))
              fun (tmp11 : Early Evaluation Unit) =>
              match tmp11 with
              | Early.ret tmp14 => some (Early.ret tmp14)
              | Early.cont _ => some (Early.cont ())).bind
      fun (tmp7 : Early Evaluation Unit) =>
      match tmp7 with
      | Early.ret tmp19 => some tmp19
      | Early.cont _ => H) = some r) :
    (match legalMoves? s with
    | none => none
    | some ms =>
      if (ms.isEmpty && chk) = true then
        some (if (s.turn == c) = true then -Ev.mateInPly depth.toNat else Ev.mateInPly depth.toNat)
      else if ms.isEmpty = true then some 0 else some X) = some r.toInt := by
  have hmate := Evaluation.mate_in_ply_eq depth hd
  cases hl : legalMoves? s with
  | none => rw [hl] at h; simp at h
  | some ms =>
    rw [hl] at h
    simp only [Option.map_some, Option.bind_some, isEmpty_res] at h ⊢
    cases hme : ms.isEmpty <;> cases chk <;>
      simp only [hme, Bool.and_true, Bool.and_false, Bool.false_eq_true, if_true, if_false, Option.bind_some] at h ⊢
    · rw [hH r h]
    · rw [hH r h]
    · cases h; rw [Evaluation.consts_eq.2.2.2]
    · cases hm : Evaluation.mate_in_ply depth with
      | none => rw [hm] at h; simp at h
      | some m =>
        rw [hm] at hmate h
        simp only [Option.map_some, Option.some.injEq] at hmate
        by_cases ht : (s.turn == c) = true
        · simp only [ht, if_true, Option.bind_some] at h ⊢
          cases hn : Evaluation.neg m with
          | none => rw [hn] at h; simp at h
          | some n =>
            rw [hn] at h
            simp only [Option.bind_some] at h
            cases h
            rw [Evaluation.neg_some hn, hmate]
        · simp only [ht, if_false, Option.bind_some, Bool.false_eq_true] at h ⊢
          cases h
          rw [hmate]

/-- **`Evaluator::evaluate`** (with `Evaluator::default()`, i.e. `fns = &EVALUATORS`) on the Rust-side value of a model
state: whenever it returns, the model's `evaluate` returns the same number.  No seam: check, attack maps and move
generation are the stage-3a translations. -/
theorem Evaluator.evaluate_eq (s : Wee.State) (ok : StateOK s) (c : Color) (depth : UInt64) (hd : depth.toNat < 2 ^ 31)
    (r : Int32) (h : Evaluator.evaluate ⟨eval.EVALUATORS⟩ (stateOf s) c depth = some r) :
    Wee.evaluate s c depth.toNat = some r.toInt := by
  unfold Evaluator.evaluate at h
  simp only [Option.bind_eq_bind] at h
  obtain ⟨sv, hsv, h⟩ := Option.bind_eq_some_iff.1 h
  have hr := StateVariation.from_State_eq s sv hsv
  rw [State.turn_to_move_stateOf, Board.piece_occupancy_stateOf, Option.bind_some, BitBoard.first_square_eq,
    Option.bind_some, Board.occupancy_stateOf] at h
  unfold Wee.evaluate kingHasMove
  cases hk : firstOne (s.pieces.get s.turn .king) with
  | none =>
    rw [hk] at h
    simp [unwrap] at h
  | some k =>
    rw [hk] at h
    simp only [Option.map_some, unwrap, Option.bind_some] at h
    have hk64 := firstOne_lt64 _ _ hk
    have hku : k.toUInt8.toNat = k := toUInt8_toNat_lt _ (by omega)
    have eb : State.board (stateOf s) = boardOf s.pieces := rfl
    rw [AttackGenerator.compute_king_attacks_eq _ (by rw [hku]; exact hk64), Option.bind_some, hku, eb, Color.not_eq,
      Board.colored_attacks_eq, Option.bind_some, State.is_check_eq, MoveGenerator.compute_legal_moves_model s ok] at h
    simp only [BitBoard.any_eq, BitBoard.bitand_eq, BitBoard.not_eq] at h
    have hH := fun r h => heuristic_eq hr c r h
    generalize (Option.bind (List.foldlM _ _ _) _ : Option Int32) = H at h hH
    simp only
    have hmate := Evaluation.mate_in_ply_eq depth hd
    rcases Bool.eq_false_or_eq_true (bbAny (kingAttacks k &&& ~~~s.pieces.occ &&& ~~~coloredAttacks s.pieces s.turn.opp))
      with hkhm | hkhm <;> rcases Bool.eq_false_or_eq_true s.isCheck with hchk | hchk <;>
      simp only [hkhm, hchk, Bool.not_true, Bool.not_false, if_true, if_false, Bool.or_true,
      Bool.or_false, Bool.true_or, Bool.false_or, Option.pure_def, Option.bind_some, Bool.false_eq_true] at h ⊢
    · exact terminal_eq s c depth hd true _ H hH r h
    · rw [hH r h]
    · exact terminal_eq s c depth hd true _ H hH r h
    · exact terminal_eq s c depth hd false _ H hH r h

/-- the model answers `none` (no king of the side to move, or the move generator panics where it is consulted) only
where the translated function panics -/
theorem Evaluator.evaluate_none (s : Wee.State) (ok : StateOK s) (c : Color) (depth : UInt64) (hd : depth.toNat < 2 ^ 31)
    (hm : Wee.evaluate s c depth.toNat = Option.none) :
    Evaluator.evaluate ⟨eval.EVALUATORS⟩ (stateOf s) c depth = Option.none := by
  cases h : Evaluator.evaluate ⟨eval.EVALUATORS⟩ (stateOf s) c depth with
  | none => rfl
  | some r =>
    have := Evaluator.evaluate_eq s ok c depth hd r h
    rw [hm] at this
    cases this

/-! ## `Evaluator::estimate` -/

theorem worth_term (p : Piece) :
    (Evaluation.mul_f32 Evaluation.ONE_PAWN (pieceWorth p)).toInt = Ev.mulF Ev.onePawn (pieceWorth p) := by
  rw [Evaluation.mul_f32_eq, Evaluation.consts_eq.1]

theorem piece_of_some (mv : UInt32) (t : Piece) (h : Wee.Move.piece? mv = some t) : Wee.Move.piece mv = t := by
  unfold Wee.Move.piece; rw [h]; rfl

/-- **`Evaluator::estimate`**: whenever it returns, it returns the model's `estimate` (for every `Evaluator`: `self` is
not used) -/
theorem Evaluator.estimate_eq (self : Evaluator) (s : Wee.State) (mv : UInt32) (r : Int32)
    (h : Evaluator.estimate self (stateOf s) mv = some r) : r.toInt = Wee.estimate s mv := by
  unfold Evaluator.estimate at h
  have eb : State.board (stateOf s) = boardOf s.pieces := rfl
  have hd64 := model_dest_lt mv
  have ho64 := model_origin_lt mv
  have hdu : (Wee.Move.dest mv).toUInt8.toNat = Wee.Move.dest mv := toUInt8_toNat_lt _ (by omega)
  have hou : (Wee.Move.origin mv).toUInt8.toNat = Wee.Move.origin mv := toUInt8_toNat_lt _ (by omega)
  obtain ⟨l1, l2, l3, lcastle, ldp, lprom, lsq, _⟩ := f32_literals
  simp only [Option.bind_eq_bind, eb, Color.not_eq, Move.color_eq, Board.colored_pawn_attacks_eq, Option.bind_some,
    Move.destination_eq, Move.origin_eq, BitBoard.just_eq _ (by rw [hdu]; exact hd64), hdu, Move.piece_eq,
    Move.castle_side_eq, Move.is_double_pawn_eq, BitBoard.any_eq, BitBoard.bitand_eq, Option.pure_def,
    PIECE_PAWN_WORTHS_index] at h
  obtain ⟨a1, h1, h⟩ := Option.bind_eq_some_iff.1 h
  obtain ⟨cap, hcap, h⟩ := Option.bind_eq_some_iff.1 h
  obtain ⟨a2, h2, h⟩ := Option.bind_eq_some_iff.1 h
  obtain ⟨a3, h3, h⟩ := Option.bind_eq_some_iff.1 h
  obtain ⟨a4, h4, h⟩ := Option.bind_eq_some_iff.1 h
  obtain ⟨pr, hpr, h⟩ := Option.bind_eq_some_iff.1 h
  obtain ⟨a5, h5, h⟩ := Option.bind_eq_some_iff.1 h
  obtain ⟨pr2, hpr2, h⟩ := Option.bind_eq_some_iff.1 h
  rw [hpr] at hpr2
  cases hpr2
  have hcap' := Move.capture_some mv cap hcap
  have hpr' := Move.promotion_some mv pr hpr
  have e0 : Evaluation.EVEN.toInt = 0 := Evaluation.consts_eq.2.2.2
  have k10 : (10 : Int32).toInt = estCaptureFactor := by decide
  have k2 : (2 : Int32).toInt = estSquareFactor := by decide
  -- attacked by a pawn
  have q1 : a1.toInt = if bbAny (coloredPawnAttacks s.pieces (Wee.Move.color mv).opp &&& bit (Wee.Move.dest mv))
      then 0 - Ev.mulF Ev.onePawn (pieceWorth (Wee.Move.piece mv)) else 0 := by
    by_cases hc : bbAny (coloredPawnAttacks s.pieces (Wee.Move.color mv).opp &&& bit (Wee.Move.dest mv)) = true
    · rw [if_pos hc] at h1 ⊢
      obtain ⟨t, ht, h1⟩ := Option.bind_eq_some_iff.1 h1
      obtain ⟨u, hu, h1⟩ := Option.bind_eq_some_iff.1 h1
      cases h1
      rw [Evaluation.sub_assign_some hu, worth_term, e0, piece_of_some mv t ht]
    · rw [if_neg hc] at h1 ⊢
      cases h1; exact e0
  -- capture
  have q2 : a2.toInt = match Wee.Move.capture mv with
      | some cap => a1.toInt + Ev.mulF Ev.onePawn (pieceWorth cap) * estCaptureFactor
          - Ev.mulF Ev.onePawn (pieceWorth (Wee.Move.piece mv))
      | Option.none => a1.toInt := by
    rw [hcap']
    cases cap with
    | none => simp only at h2 ⊢; cases h2; rfl
    | some cp =>
      simp only at h2 ⊢
      obtain ⟨t9, h9, h2⟩ := Option.bind_eq_some_iff.1 h2
      obtain ⟨t10, h10, h2⟩ := Option.bind_eq_some_iff.1 h2
      obtain ⟨t, ht, h2⟩ := Option.bind_eq_some_iff.1 h2
      obtain ⟨u, hu, h2⟩ := Option.bind_eq_some_iff.1 h2
      cases h2
      rw [Evaluation.sub_assign_some hu, Evaluation.add_assign_some h10, Evaluation.mul_i32_some h9, worth_term, worth_term,
        k10, piece_of_some mv t ht]
  -- castling
  have q3 : a3.toInt = if (Wee.Move.castleSide mv).isSome then a2.toInt + Ev.mulF Ev.onePawn estCastleBonus else a2.toInt := by
    by_cases hc : (Wee.Move.castleSide mv).isSome = true
    · rw [if_pos hc] at h3 ⊢
      obtain ⟨u, hu, h3⟩ := Option.bind_eq_some_iff.1 h3
      cases h3
      rw [Evaluation.add_assign_some hu, Evaluation.mul_f32_eq, Evaluation.consts_eq.1, lcastle]
    · rw [if_neg hc] at h3 ⊢
      cases h3; rfl
  -- double pawn push
  have q4 : a4.toInt = if Wee.Move.isDoublePawn mv then a3.toInt + Ev.mulF Ev.onePawn estDoublePawnBonus else a3.toInt := by
    by_cases hc : Wee.Move.isDoublePawn mv = true
    · rw [if_pos hc] at h4 ⊢
      obtain ⟨u, hu, h4⟩ := Option.bind_eq_some_iff.1 h4
      cases h4
      rw [Evaluation.add_assign_some hu, Evaluation.mul_f32_eq, Evaluation.consts_eq.1, ldp]
    · rw [if_neg hc] at h4 ⊢
      cases h4; rfl
  -- promotion
  have q5 : a5.toInt = match Wee.Move.promotion mv with
      | some pr => a4.toInt + Ev.mulF (Ev.mulF Ev.onePawn (pieceWorth pr)) estPromotionFactor
      | Option.none => a4.toInt := by
    rw [hpr']
    cases pr with
    | none => simp only at h5 ⊢; cases h5; rfl
    | some pp =>
      simp only at h5 ⊢
      obtain ⟨u, hu, h5⟩ := Option.bind_eq_some_iff.1 h5
      cases h5
      rw [Evaluation.add_assign_some hu, Evaluation.mul_f32_eq, worth_term, lprom]
  -- piece-square difference
  have q6 : r.toInt = if (Wee.Move.promotion mv).isNone then
      a5.toInt + (pieceSquare (Wee.Move.piece mv) (Wee.Move.dest mv) (Wee.Move.color mv) estSquareWeight
        - pieceSquare (Wee.Move.piece mv) (Wee.Move.origin mv) (Wee.Move.color mv) estSquareWeight) * estSquareFactor
      else a5.toInt := by
    rw [hpr']
    by_cases hc : pr.isNone = true
    · rw [if_pos hc] at h ⊢
      obtain ⟨t, ht, h⟩ := Option.bind_eq_some_iff.1 h
      obtain ⟨v1, hv1, h⟩ := Option.bind_eq_some_iff.1 h
      obtain ⟨t', ht', h⟩ := Option.bind_eq_some_iff.1 h
      obtain ⟨v2, hv2, h⟩ := Option.bind_eq_some_iff.1 h
      obtain ⟨d, hd, h⟩ := Option.bind_eq_some_iff.1 h
      obtain ⟨m, hm, h⟩ := Option.bind_eq_some_iff.1 h
      obtain ⟨u, hu, h⟩ := Option.bind_eq_some_iff.1 h
      cases h
      rw [ht] at ht'; cases ht'
      have e1 := evaluate_piece_squares.evaluate_piece_square_eq t _ (Wee.Move.color mv) _ (by rw [hou]; exact ho64) v1 hv1
      have e2 := evaluate_piece_squares.evaluate_piece_square_eq t _ (Wee.Move.color mv) _ (by rw [hdu]; exact hd64) v2 hv2
      rw [hou, lsq] at e1
      rw [hdu, lsq] at e2
      rw [Evaluation.add_assign_some hu, Evaluation.mul_i32_some hm, Evaluation.sub_some hd, e1, e2, k2, piece_of_some mv t ht]
    · rw [if_neg hc] at h ⊢
      cases h; rfl
  unfold Wee.estimate
  simp only
  rw [q6, q5, q4, q3, q2, q1]
  rfl

end GenFns
end Wee
