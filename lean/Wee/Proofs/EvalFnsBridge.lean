import Wee.Gen.EvalFns
import Wee.Model.Eval
import Wee.Proofs.CoreFnsBridge
import Wee.Proofs.EvalLemmas
/-!
# Bridge: the static evaluator translated from the Rust source text (`Wee/Gen/EvalFns.lean`, produced by
`tools/rs2lean_eval.py`) computes the hand-written model `Wee/Model/Eval.lean`

The generated functions run in `Panics` (`none` = a panic of the debug profile: arithmetic overflow, index out of
bounds, `unwrap` of `None`).  Every bridge theorem has the form

    generated … = some r  →  r.toInt = model …

("whenever the Rust function returns, it returns the model's value"; in the release profile, which differs from the
debug profile only where the latter panics, the same value is computed).  Float arithmetic is the model's soft-float on
both sides, operation by operation in Rust's order, so the equalities are exact.
-/
set_option maxRecDepth 100000
set_option linter.unusedSimpArgs false
namespace Wee
namespace GenFns
open Gen

/-! ## `i32` arithmetic: a checked operation that returns, returns the exact integer -/

theorem i32_checked_add_some {a b r : Int32} (h : Int32.checked_add a b = some r) : r.toInt = a.toInt + b.toInt := by
  unfold Int32.checked_add at h
  split at h
  · rename_i hr; cases h; exact int32_add_toInt a b hr.1 hr.2
  · cases h

theorem i32_checked_sub_some {a b r : Int32} (h : Int32.checked_sub a b = some r) : r.toInt = a.toInt - b.toInt := by
  unfold Int32.checked_sub at h
  split at h
  · rename_i hr; cases h; exact int32_sub_toInt a b hr.1 hr.2
  · cases h

theorem i32_checked_mul_some {a b r : Int32} (h : Int32.checked_mul a b = some r) : r.toInt = a.toInt * b.toInt := by
  unfold Int32.checked_mul at h
  split at h
  · rename_i hr; cases h; exact int32_mul_toInt a b hr.1 hr.2
  · cases h

theorem i32_checked_neg_some {a r : Int32} (h : Int32.checked_neg a = some r) : r.toInt = - a.toInt := by
  unfold Int32.checked_neg at h
  split at h
  · cases h
  · rename_i hr
    cases h
    rw [Int32.toInt_neg]
    have h1 := Int32.le_toInt a
    have h2 := Int32.toInt_lt a
    exact Int.bmod_eq_of_le (by omega) (by omega)

theorem Evaluation.add_assign_some {a b r : Int32} (h : Evaluation.add_assign_Evaluation a b = some r) :
    r.toInt = a.toInt + b.toInt := by
  simp only [Evaluation.add_assign_Evaluation, bind, Option.bind] at h
  cases hc : Int32.checked_add a b with
  | none => rw [hc] at h; cases h
  | some x => rw [hc] at h; cases h; exact i32_checked_add_some hc

theorem Evaluation.sub_assign_some {a b r : Int32} (h : Evaluation.sub_assign_Evaluation a b = some r) :
    r.toInt = a.toInt - b.toInt := by
  simp only [Evaluation.sub_assign_Evaluation, bind, Option.bind] at h
  cases hc : Int32.checked_sub a b with
  | none => rw [hc] at h; cases h
  | some x => rw [hc] at h; cases h; exact i32_checked_sub_some hc

theorem Evaluation.sub_some {a b r : Int32} (h : Evaluation.sub_Evaluation a b = some r) :
    r.toInt = a.toInt - b.toInt := by
  simp only [Evaluation.sub_Evaluation, bind, Option.bind] at h
  cases hc : Int32.checked_sub a b with
  | none => rw [hc] at h; cases h
  | some x => rw [hc] at h; cases h; exact i32_checked_sub_some hc

theorem Evaluation.neg_some {a r : Int32} (h : Evaluation.neg a = some r) : r.toInt = - a.toInt := by
  simp only [Evaluation.neg, bind, Option.bind] at h
  cases hc : Int32.checked_neg a with
  | none => rw [hc] at h; cases h
  | some x => rw [hc] at h; cases h; exact i32_checked_neg_some hc

theorem Evaluation.mul_i32_some {a b r : Int32} (h : Evaluation.mul_i32 a b = some r) :
    r.toInt = a.toInt * b.toInt := by
  simp only [Evaluation.mul_i32, bind, Option.bind] at h
  cases hc : Int32.checked_mul a b with
  | none => rw [hc] at h; cases h
  | some x => rw [hc] at h; cases h; exact i32_checked_mul_some hc

/-! ## `f32`: literals, casts -/

theorem toI32_range (q : Rat) : -2 ^ 31 ≤ F32.toI32 q ∧ F32.toI32 q < 2 ^ 31 := by
  unfold F32.toI32
  simp only
  split
  · omega
  · split <;> omega

/-- `x as i32` -/
theorem f32.to_i32_toInt (q : Rat) : (f32.to_i32 q).toInt = F32.toI32 q := by
  unfold f32.to_i32
  have := toI32_range q
  exact Int32.toInt_ofInt_of_le (by omega) (by omega)

/-- `impl Mul<f32> for Evaluation` = the model's `Ev.mulF` -/
theorem Evaluation.mul_f32_eq (e : Int32) (w : Rat) : (Evaluation.mul_f32 e w).toInt = Ev.mulF e.toInt w := by
  unfold Evaluation.mul_f32 Ev.mulF
  exact f32.to_i32_toInt _

/-- the float literals of the evaluator sources are the constants `tools/extract.py` regenerates -/
theorem f32_literals :
    f32.ofBits 0x3ecccccd = Gen.doubledPawnPenalty ∧ f32.ofBits 0x3f000000 = Gen.isolatedPawnPenalty ∧
    f32.ofBits 0x3f400000 = Gen.kingEdgeThreshold ∧ f32.ofBits 0x40000000 = Gen.estCastleBonus ∧
    f32.ofBits 0x3e4ccccd = Gen.estDoublePawnBonus ∧ f32.ofBits 0x40000000 = Gen.estPromotionFactor ∧
    f32.ofBits 0x3f000000 = Gen.estSquareWeight ∧
    f32.ofBits 0x40400000 = Gen.egW1 ∧ f32.ofBits 0x3f800000 = Gen.egW2 ∧ f32.ofBits 0x3f800000 = Gen.egW3 ∧
    f32.ofBits 0x41800000 = Gen.egD1 ∧ f32.ofBits 0x40000000 = Gen.egD2 ∧ f32.ofBits 0x42000000 = Gen.egD3 ∧
    f32.ofBits 0x3f800000 = 1 := by
  decide +kernel

theorem PIECE_PAWN_WORTHS_eq : evaluate_piece_worths.PIECE_PAWN_WORTHS = Gen.piecePawnWorths.toArray := by
  decide +kernel

theorem PIECE_PAWN_WORTHS_index (p : Piece) :
    ArrayMap.index evaluate_piece_worths.PIECE_PAWN_WORTHS (Index.from_Piece p) = some (pieceWorth p) := by
  rw [PIECE_PAWN_WORTHS_eq]
  cases p <;> decide +kernel

theorem EVALUATORS_weights : eval.EVALUATORS.map Prod.fst = Gen.evaluatorWeights := by
  decide +kernel

/-! ## folds that return -/

/-- a monadic fold over `i32` accumulators whose body, when it returns, adds `g x` -/
theorem foldlM_adds {α : Type} (body : Int32 → α → Panics Int32) (g : α → Int) :
    ∀ (l : List α) (acc r : Int32), (∀ x ∈ l, ∀ a r', body a x = some r' → r'.toInt = a.toInt + g x) →
      List.foldlM body acc l = some r → r.toInt = acc.toInt + (l.map g).sum
  | [], acc, r, _, h => by
    simp only [List.foldlM_nil] at h
    cases h
    simp
  | x :: t, acc, r, hs, h => by
    rw [List.foldlM_cons] at h
    cases hb : body acc x with
    | none => rw [hb] at h; cases h
    | some a1 =>
      rw [hb] at h
      have h1 := hs x (List.mem_cons_self) acc a1 hb
      have h2 := foldlM_adds body g t a1 r (fun y hy => hs y (List.mem_cons_of_mem _ hy)) h
      rw [h2, h1, List.map_cons, List.sum_cons]; omega

/-- a pure fold whose step adds `g x` -/
theorem foldl_adds {α : Type} (f : Int → α → Int) (g : α → Int) :
    ∀ (l : List α) (a : Int), (∀ x ∈ l, ∀ acc, f acc x = acc + g x) → List.foldl f a l = a + (l.map g).sum
  | [], a, _ => by simp
  | x :: t, a, hs => by
    rw [List.foldl_cons, hs x (List.mem_cons_self), foldl_adds f g t _ (fun y hy => hs y (List.mem_cons_of_mem _ hy)),
      List.map_cons, List.sum_cons]; omega

/-! ## The representation of `StateVariation` -/

/-- the Rust-side `StateVariation` represents the model's `Variation`: same state, same end-game weight, and the count
tables hold the model's counts wherever they are defined -/
structure SVRep (sv : StateVariation) (v : Variation) : Prop where
  state : sv.f_state = stateOf v.s
  egw : sv.f_end_game_weight = v.egw
  pc : ∀ (c : Color) (p : Piece) (x : UInt8),
    ArrayMap.index sv.f_piece_counts (Index.from_PieceIndex (PieceIndex.new c p)) = some x → x.toNat = pieceCount v.s c p
  cc : ∀ (c : Color) (x : UInt8), ArrayMap.index sv.f_color_counts (Index.from_Color c) = some x → x.toNat = v.count c

theorem u8_as_i32 (x : UInt8) : (UInt32.toInt32 (UInt8.toUInt32 x)).toInt = x.toNat := by
  rw [u32_toInt32_toInt, UInt8.toNat_toUInt32]
  have := x.toNat_lt
  exact Int.bmod_eq_of_le (by omega) (by omega)

/-! ## `evaluate_piece_worths::evaluate` -/

theorem evalWorths_sum (v : Variation) (c : Color) :
    evalWorths v c = (Piece.all.map fun p => Ev.mulF Ev.onePawn (pieceWorth p) * (pieceCount v.s c p : Int)).sum := by
  unfold evalWorths
  rw [foldl_adds _ (fun p => Ev.mulF Ev.onePawn (pieceWorth p) * (pieceCount v.s c p : Int)) _ _ (fun _ _ _ => rfl)]
  simp

/-- `evaluate_piece_worths::evaluate` adds the model's `evalWorths` -/
theorem evaluate_piece_worths.evaluate_eq {sv : StateVariation} {v : Variation} (hr : SVRep sv v) (c : Color)
    (e0 r : Int32) (b : Bool) (h : evaluate_piece_worths.evaluate sv c e0 b = some r) :
    r.toInt = e0.toInt + evalWorths v c := by
  unfold evaluate_piece_worths.evaluate at h
  simp only [bind_pure] at h
  rw [evalWorths_sum, ← Piece.ALL_eq]
  refine foldlM_adds _ _ _ _ _ ?_ h
  intro p _ a r' hb
  simp only [PIECE_PAWN_WORTHS_index, bind, Option.bind] at hb
  cases h1 : ArrayMap.index (StateVariation.f_piece_counts sv) (Index.from_PieceIndex (PieceIndex.new c p)) with
  | none => rw [h1] at hb; cases hb
  | some n =>
    rw [h1] at hb
    have hn := hr.pc c p n h1
    simp only at hb
    cases h2 : Evaluation.mul_i32 (Evaluation.mul_f32 Evaluation.ONE_PAWN (pieceWorth p)) (UInt32.toInt32 (UInt8.toUInt32 n)) with
    | none => rw [h2] at hb; cases hb
    | some m =>
      rw [h2] at hb
      simp only at hb
      cases h3 : Evaluation.add_assign_Evaluation a m with
      | none => rw [h3] at hb; cases hb
      | some q =>
        rw [h3] at hb
        cases hb
        rw [Evaluation.add_assign_some h3, Evaluation.mul_i32_some h2, Evaluation.mul_f32_eq, u8_as_i32, hn,
          Evaluation.consts_eq.1]

/-! ## `evaluate_piece_squares` -/

theorem flipRank_lt64 (n : Nat) (_h : n < 64) : flipRank n < 64 := by
  unfold flipRank mkSq rankOf fileOf; omega

theorem toUInt8_toNat_lt (n : Nat) (h : n < 256) : n.toUInt8.toNat = n := by
  simp [Nat.toUInt8, UInt8.toNat_ofNat', Nat.mod_eq_of_lt h]

/-- the two look-ups `PIECE_SQUARE_MAP[piece][k].index(i)`: the entries of the tables `tools/extract.py` regenerates -/
theorem psm_lookup0 (p : Piece) : ∀ i : Fin 64,
    (((ArrayMap.index evaluate_piece_squares.PIECE_SQUARE_MAP (Index.from_Piece p)).bind fun t =>
      (ArrayMap.index t (0 : UInt64)).bind fun r => ArrayMap.index r (UInt8.toUInt64 i.val.toUInt8)).map Int32.toInt) =
      some ((pieceSquareMap.getD p.code (#[], #[])).1.getD i.val 0) := by
  cases p <;> decide +kernel

theorem psm_lookup1 (p : Piece) : ∀ i : Fin 64,
    (((ArrayMap.index evaluate_piece_squares.PIECE_SQUARE_MAP (Index.from_Piece p)).bind fun t =>
      (ArrayMap.index t (1 : UInt64)).bind fun r => ArrayMap.index r (UInt8.toUInt64 i.val.toUInt8)).map Int32.toInt) =
      some ((pieceSquareMap.getD p.code (#[], #[])).2.getD i.val 0) := by
  cases p <;> decide +kernel

/-- `evaluate_piece_square` = the model's `pieceSquare` (squares `< 64`) -/
theorem evaluate_piece_squares.evaluate_piece_square_eq (p : Piece) (sq : Square) (c : Color) (w : Rat)
    (hs : sq.toNat < 64) (r : Int32)
    (h : evaluate_piece_squares.evaluate_piece_square p sq c w = some r) :
    r.toInt = pieceSquare p sq.toNat c w := by
  unfold evaluate_piece_squares.evaluate_piece_square at h
  -- the oriented square
  have hsq : (if c == Color.white then (pure sq : Panics Square) else Square.flip_rank sq) =
      some ((if c == .white then sq.toNat else flipRank sq.toNat).toUInt8) := by
    cases c
    · simp [toUInt8_toNat_lt]
    · simp [Square.flip_rank_eq sq hs]
  have hn' : (if c == .white then sq.toNat else flipRank sq.toNat) < 64 := by
    cases c
    · simpa using hs
    · simpa using flipRank_lt64 _ hs
  generalize hnn : (if c == .white then sq.toNat else flipRank sq.toNat) = n' at hsq hn'
  simp only [bind_pure_comp, Option.pure_def, Option.bind_eq_bind] at h hsq
  have hsq' : (if (c == Color.white) = true then (some sq : Option Square) else Square.flip_rank sq) = some n'.toUInt8 := by
    simpa using hsq
  rw [hsq'] at h
  simp only [Option.bind_some] at h
  have hidx := Square.white_at_bottom_index_eq n'.toUInt8 (by rw [toUInt8_toNat_lt _ (by omega)]; exact hn')
  rw [toUInt8_toNat_lt _ (by omega)] at hidx
  rw [hidx] at h
  simp only [Option.bind_some] at h
  have l0 := psm_lookup0 p ⟨flipRank n', flipRank_lt64 _ hn'⟩
  have l1 := psm_lookup1 p ⟨flipRank n', flipRank_lt64 _ hn'⟩
  simp only at l0 l1
  obtain ⟨t0, ht0, h⟩ := Option.bind_eq_some_iff.1 h
  obtain ⟨r0, hr0, h⟩ := Option.bind_eq_some_iff.1 h
  obtain ⟨x0, hx0, h⟩ := Option.bind_eq_some_iff.1 h
  obtain ⟨t1, ht1, h⟩ := Option.bind_eq_some_iff.1 h
  obtain ⟨r1, hr1, h⟩ := Option.bind_eq_some_iff.1 h
  obtain ⟨x1, hx1, h⟩ := Option.bind_eq_some_iff.1 h
  rw [ht0] at l0
  simp only [Option.bind_some, hr0, hx0, Option.map_some, Option.some.injEq] at l0
  rw [ht1] at l1
  simp only [Option.bind_some, hr1, hx1, Option.map_some, Option.some.injEq] at l1
  simp only [Option.some.injEq] at h
  subst h
  rw [f32.to_i32_toInt, l0, l1]
  unfold pieceSquare
  simp only [hnn]

theorem evalSquares_sum (v : Variation) (c : Color) :
    evalSquares v c =
      (Piece.all.map fun p => ((bitsOf (v.s.pieces.get c p)).map fun sq => pieceSquare p sq c v.egw).sum).sum := by
  unfold evalSquares
  rw [foldl_adds _ (fun p => ((bitsOf (v.s.pieces.get c p)).map fun sq => pieceSquare p sq c v.egw).sum) _ _
    (fun p _ acc => foldl_adds _ (fun sq => pieceSquare p sq c v.egw) _ _ (fun _ _ _ => rfl))]
  simp

/-- `evaluate_piece_squares::evaluate` adds the model's `evalSquares` -/
theorem evaluate_piece_squares.evaluate_eq {sv : StateVariation} {v : Variation} (hr : SVRep sv v) (c : Color)
    (e0 r : Int32) (b : Bool) (h : evaluate_piece_squares.evaluate sv c e0 b = some r) :
    r.toInt = e0.toInt + evalSquares v c := by
  unfold evaluate_piece_squares.evaluate at h
  simp only [bind_pure] at h
  rw [evalSquares_sum, ← Piece.ALL_eq]
  refine foldlM_adds _ _ _ _ _ ?_ h
  intro p _ a r' hb
  rw [hr.state, hr.egw, Board.piece_occupancy_stateOf] at hb
  simp only [Option.bind_eq_bind, Option.bind_some] at hb
  rw [iter_ones_collect_65] at hb
  simp only [Option.bind_some] at hb
  have := foldlM_adds _ (fun (x : UInt32) => pieceSquare p x.toNat c v.egw) _ a r' ?_ hb
  · rw [this, List.map_map]
    congr 2
    apply List.map_congr_left
    intro n hn
    have hn64 : n < 64 := ((mem_bitsOf _ n).1 hn).1
    simp [Function.comp, Nat.toUInt32, UInt32.toNat_ofNat', Nat.mod_eq_of_lt (show n < 2 ^ 32 by omega)]
  · intro x hx a1 r1 h1
    obtain ⟨n, hn, rfl⟩ := List.mem_map.1 hx
    have hn64 : n < 64 := ((mem_bitsOf _ n).1 hn).1
    have hx32 : (Nat.toUInt32 n).toNat = n := by
      simp [Nat.toUInt32, UInt32.toNat_ofNat', Nat.mod_eq_of_lt (show n < 2 ^ 32 by omega)]
    obtain ⟨y, hy, hz⟩ := Option.bind_eq_some_iff.1 h1
    have hsq : (Square.from_u32 (Nat.toUInt32 n)).toNat = n := by
      rw [Square.from_u32_toNat _ (by omega), hx32]
    have := evaluate_piece_squares.evaluate_piece_square_eq p _ c v.egw (by rw [hsq]; exact hn64) y hy
    rw [Evaluation.add_assign_some hz, this, hsq, hx32]

/-! ## `evaluate_bad_pawns::evaluate` -/

theorem fm_index : ∀ f : Fin 8,
    ArrayMap.index common.FILE_MASKS (Index.from_File f.val.toUInt8) = some (fileMask f.val) := by decide

theorem file_left_eq : ∀ f : Fin 8,
    File.left f.val.toUInt8 = some (if f.val = 0 then Option.none else some (f.val - 1).toUInt8) := by decide

theorem file_right_eq : ∀ f : Fin 8,
    File.right f.val.toUInt8 = some (if f.val = 7 then Option.none else some (f.val + 1).toUInt8) := by decide

/-- the model's contribution of one file -/
def badPawnsFile (pawns : UInt64) (f : Nat) : Int :=
  (if popcount (pawns &&& fileMask f) > doubledPawnMin then - Ev.mulF Ev.onePawn doubledPawnPenalty else 0) +
  (if bbNone (pawns &&& ((if f = 0 then 0 else fileMask (f - 1)) ||| (if f = 7 then 0 else fileMask (f + 1))))
    then - Ev.mulF Ev.onePawn isolatedPawnPenalty else 0)

theorem evalBadPawns_sum (v : Variation) (c : Color) :
    evalBadPawns v c = ((List.range 8).map (badPawnsFile (v.s.pieces.get c .pawn))).sum := by
  unfold evalBadPawns
  simp only
  rw [foldl_adds _ (badPawnsFile (v.s.pieces.get c .pawn)) _ _ ?_]
  · simp
  · intro f _ acc
    unfold badPawnsFile
    generalize ((if f = 0 then 0 else fileMask (f - 1)) ||| (if f = 7 then 0 else fileMask (f + 1)) : UInt64) = M
    by_cases h1 : popcount (v.s.pieces.get c .pawn &&& fileMask f) > doubledPawnMin <;>
      by_cases h2 : bbNone (v.s.pieces.get c .pawn &&& M) = true <;> simp only [h1, h2, if_true, if_false] <;>
      first | omega | (simp; omega) | simp

theorem count_ones_gt_one (b : UInt64) : decide (BitBoard.count_ones b > (1 : UInt32)) = decide (popcount b > doubledPawnMin) := by
  have h := popcount_le b
  rw [BitBoard.count_ones_eq]
  apply decide_eq_decide.2
  show (1 : UInt32) < (popcount b).toUInt32 ↔ popcount b > 1
  rw [UInt32.lt_iff_toNat_lt]
  simp [Nat.toUInt32, UInt32.toNat_ofNat', Nat.mod_eq_of_lt (show popcount b < 2 ^ 32 by omega)]

theorem count_ones_gt_one' (a b : UInt64) :
    decide (BitBoard.count_ones (BitBoard.bitand a b) > (1 : UInt32)) = decide (popcount (a &&& b) > doubledPawnMin) :=
  count_ones_gt_one (a &&& b)

theorem bp_tail (P M : UInt64) (e1 r' : Int32)
    (hb : (if bbNone (P &&& M) = true then
        Evaluation.sub_assign_Evaluation e1 (Evaluation.mul_f32 Evaluation.ONE_PAWN (f32.ofBits 1056964608)) else some e1) = some r') :
    r'.toInt = e1.toInt + (if bbNone (P &&& M) then - Ev.mulF Ev.onePawn isolatedPawnPenalty else 0) := by
  by_cases hc : bbNone (P &&& M) = true
  · rw [if_pos hc] at hb
    rw [if_pos hc, Evaluation.sub_assign_some hb, Evaluation.mul_f32_eq, Evaluation.consts_eq.1, f32_literals.2.1]; omega
  · rw [if_neg hc] at hb
    cases hb
    rw [if_neg hc]; omega

/-- `evaluate_bad_pawns::evaluate` adds the model's `evalBadPawns` -/
theorem evaluate_bad_pawns.evaluate_eq {sv : StateVariation} {v : Variation} (hr : SVRep sv v) (c : Color)
    (e0 r : Int32) (b : Bool) (h : evaluate_bad_pawns.evaluate sv c e0 b = some r) :
    r.toInt = e0.toInt + evalBadPawns v c := by
  unfold evaluate_bad_pawns.evaluate at h
  rw [hr.state, Board.piece_occupancy_stateOf] at h
  simp only [Option.bind_eq_bind, Option.bind_some, bind_pure] at h
  rw [evalBadPawns_sum]
  generalize v.s.pieces.get c .pawn = P at h ⊢
  have hmap : ((List.range 8).map (badPawnsFile P)) = (File.ALL.map fun (x : UInt8) => badPawnsFile P x.toNat) := by
    rw [File.ALL_eq, List.map_map]
    apply List.map_congr_left
    intro k hk
    have hk8 : k < 8 := List.mem_range.1 hk
    simp [Function.comp, toUInt8_toNat_lt k (by omega)]
  rw [hmap]
  refine foldlM_adds _ _ _ _ _ ?_ h
  intro x hx a r' hb
  rw [File.ALL_eq] at hx
  obtain ⟨k, hk, rfl⟩ := List.mem_map.1 hx
  have hk8 : k < 8 := List.mem_range.1 hk
  rw [toUInt8_toNat_lt k (by omega)]
  have H1 := fm_index ⟨k, hk8⟩
  have HL := file_left_eq ⟨k, hk8⟩
  have HR := file_right_eq ⟨k, hk8⟩
  simp only at H1 HL HR
  simp only [H1, Option.bind_eq_bind, Option.bind_some, count_ones_gt_one'] at hb
  simp only [HL, HR, Option.bind_eq_bind, Option.bind_some, BitBoard.bitand_eq, BitBoard.bitor_eq, BitBoard.ZERO_eq,
    BitBoard.none_eq, Option.pure_def] at hb
  obtain ⟨e1, he1, hb⟩ := Option.bind_eq_some_iff.1 hb
  -- the doubled-pawn part
  have hd : e1.toInt = a.toInt +
      (if popcount (P &&& fileMask k) > doubledPawnMin then - Ev.mulF Ev.onePawn doubledPawnPenalty else 0) := by
    by_cases hc : popcount (P &&& fileMask k) > doubledPawnMin
    · rw [if_pos hc]
      rw [decide_eq_true hc, if_pos rfl] at he1
      rw [Evaluation.sub_assign_some he1, Evaluation.mul_f32_eq, Evaluation.consts_eq.1, f32_literals.1]; omega
    · rw [if_neg hc]
      rw [decide_eq_false hc, if_neg (by simp)] at he1
      cases he1; omega
  have L := fun (h0 : ¬ k = 0) => fm_index ⟨k - 1, by omega⟩
  have R := fun (h7 : ¬ k = 7) => fm_index ⟨k + 1, by omega⟩
  simp only at L R
  unfold badPawnsFile
  by_cases h0 : k = 0 <;> by_cases h7 : k = 7
  · omega
  · subst h0
    have R1 : ArrayMap.index common.FILE_MASKS (Index.from_File (0 + 1).toUInt8) = some (fileMask (0 + 1)) :=
      fm_index ⟨1, by omega⟩
    simp only [↓reduceIte, h7, R1, Option.bind_some, Option.getD_some, Option.getD_none] at hb
    have := bp_tail _ _ _ _ hb
    rw [this, hd]; simp only [↓reduceIte, h7, UInt64.zero_or, UInt64.or_zero]; omega
  · subst h7
    have L1 : ArrayMap.index common.FILE_MASKS (Index.from_File (7 - 1).toUInt8) = some (fileMask (7 - 1)) :=
      fm_index ⟨6, by omega⟩
    simp only [↓reduceIte, h0, L1, Option.bind_some, Option.getD_some, Option.getD_none] at hb
    have := bp_tail _ _ _ _ hb
    rw [this, hd]; simp only [↓reduceIte, h0, UInt64.zero_or, UInt64.or_zero]; omega
  · simp only [h0, h7, if_true, if_false, L h0, R h7, Option.bind_some, Option.getD_some, Option.getD_none] at hb
    have := bp_tail _ _ _ _ hb
    simp only [h0, h7, if_true, if_false]
    rw [this, hd]; simp only [UInt64.zero_or, UInt64.or_zero]; omega

/-! ## `evaluate_force_king_to_edge::evaluate` -/

theorem u8_checked_add_some {a b r : UInt8} (h : UInt8.checked_add a b = some r) : r.toNat = a.toNat + b.toNat := by
  unfold UInt8.checked_add at h
  split at h
  · rename_i hr; cases h; rw [UInt8.toNat_add]; exact Nat.mod_eq_of_lt hr
  · cases h

theorem u8_min_toNat (a b : UInt8) : (u8_min a b).toNat = min a.toNat b.toNat := by
  unfold u8_min
  by_cases h : a ≤ b
  · rw [if_pos h]; rw [UInt8.le_iff_toNat_le] at h; omega
  · rw [if_neg h]; rw [UInt8.le_iff_toNat_le] at h; omega

theorem manhattan_lt (a b : Nat) (ha : a < 64) (hb : b < 64) : manhattan a b < 16 := by
  unfold manhattan absDist rankOf fileOf
  split <;> split <;> omega

theorem firstOne_lt64 (b : UInt64) (n : Nat) (h : firstOne b = some n) : n < 64 := firstOne_lt b n h

theorem ke_arith (x1 x2 x3 x4 md : Nat) (s13 s14 s15 s16 : Int) (q13 : s13 = ↑(min x1 x2) + ↑(min x3 x4))
    (q14 : s14 = 6 - s13) (q15 : s15 = 10 * s14) (q16 : s16 = s15 - md) :
    s16 = 10 * (6 - (min (x1 : Int) x2 + min (x3 : Int) x4)) - md := by omega

/-- `evaluate_force_king_to_edge::evaluate` adds the model's `evalKingEdge` -/
theorem evaluate_force_king_to_edge.evaluate_eq {sv : StateVariation} {v : Variation} (hr : SVRep sv v) (c : Color)
    (e0 r : Int32) (b : Bool) (h : evaluate_force_king_to_edge.evaluate sv c e0 b = some r) :
    r.toInt = e0.toInt + evalKingEdge v c := by
  unfold evaluate_force_king_to_edge.evaluate at h
  unfold evalKingEdge
  rw [hr.egw, f32_literals.2.2.1] at h
  by_cases h1 : v.egw < kingEdgeThreshold
  · rw [if_pos h1]
    rw [decide_eq_true h1, if_pos rfl] at h
    cases h; omega
  · rw [if_neg h1]
    rw [decide_eq_false h1, if_neg (by simp)] at h
    simp only [Option.bind_eq_bind, Color.not_eq] at h
    obtain ⟨t1, ht1, h⟩ := Option.bind_eq_some_iff.1 h
    obtain ⟨t2, ht2, h⟩ := Option.bind_eq_some_iff.1 h
    obtain ⟨t3, ht3, h⟩ := Option.bind_eq_some_iff.1 h
    have e1 := hr.cc c t1 ht1
    have e2 := hr.cc c.opp t2 ht2
    have e3 := u8_checked_add_some ht3
    have one : (1 : UInt8).toNat = 1 := rfl
    have hm : kingEdgeCountMargin = 1 := rfl
    by_cases h2 : v.count c < v.count c.opp + kingEdgeCountMargin
    · rw [if_pos h2]
      have : t1 < t3 := by rw [UInt8.lt_iff_toNat_lt]; omega
      rw [decide_eq_true this, if_pos rfl] at h
      cases h; omega
    · rw [if_neg h2]
      have : ¬ t1 < t3 := by rw [UInt8.lt_iff_toNat_lt]; omega
      rw [decide_eq_false this, if_neg (by simp)] at h
      rw [hr.state, Board.piece_occupancy_stateOf, Board.piece_occupancy_stateOf] at h
      simp only [Option.bind_some, BitBoard.pop_eq] at h
      cases ho : firstOne (v.s.pieces.get c .king) with
      | none =>
        rw [ho] at h
        simp only at h
        cases h; simp
      | some ours =>
        rw [ho] at h
        simp only at h
        cases ht : firstOne (v.s.pieces.get c.opp .king) with
        | none =>
          rw [ht] at h
          simp only at h
          cases h; simp
        | some theirs =>
          rw [ht] at h
          simp only at h
          have ho64 := firstOne_lt64 _ _ ho
          have ht64 := firstOne_lt64 _ _ ht
          have hou : ours.toUInt8.toNat = ours := toUInt8_toNat_lt _ (by omega)
          have htu : theirs.toUInt8.toNat = theirs := toUInt8_toNat_lt _ (by omega)
          have hrk : (Square.rank theirs.toUInt8).toNat = rankOf theirs := by rw [Square.rank_toNat, htu]
          have hfl : (Square.file theirs.toUInt8).toNat = fileOf theirs := by rw [Square.file_toNat, htu]
          have hrk8 : rankOf theirs < 8 := by unfold rankOf; omega
          have hfl8 : fileOf theirs < 8 := by unfold fileOf; omega
          rw [Square.manhattan_distance_to_eq _ _ (by omega) (by omega),
            Rank.abs_distance_to_eq _ _ (by omega) (by decide), Rank.abs_distance_to_eq _ _ (by omega) (by decide),
            File.abs_distance_to_eq _ _ (by omega) (by decide), File.abs_distance_to_eq _ _ (by omega) (by decide)] at h
          simp only [Option.bind_some, hou, htu, hrk, hfl] at h
          have r0 : Rank.ONE.toNat = 0 := rfl
          have r7 : Rank.EIGHT.toNat = 7 := rfl
          have f0 : File.A.toNat = 0 := rfl
          have f7 : File.H.toNat = 7 := rfl
          rw [r0, r7, f0, f7] at h
          have hmd := manhattan_lt ours theirs ho64 ht64
          have a1 := absDist_lt8 (rankOf theirs) 0 hrk8 (by omega)
          have a2 := absDist_lt8 (rankOf theirs) 7 hrk8 (by omega)
          have a3 := absDist_lt8 (fileOf theirs) 0 hfl8 (by omega)
          have a4 := absDist_lt8 (fileOf theirs) 7 hfl8 (by omega)
          obtain ⟨s13, hs13, h⟩ := Option.bind_eq_some_iff.1 h
          obtain ⟨s14, hs14, h⟩ := Option.bind_eq_some_iff.1 h
          obtain ⟨s15, hs15, h⟩ := Option.bind_eq_some_iff.1 h
          obtain ⟨s16, hs16, h⟩ := Option.bind_eq_some_iff.1 h
          obtain ⟨s17, hs17, h⟩ := Option.bind_eq_some_iff.1 h
          cases h
          have k6 : (6 : Int32).toInt = 6 := by decide
          have k10 : (10 : Int32).toInt = 10 := by decide
          have q13 := i32_checked_add_some hs13
          have q14 := i32_checked_sub_some hs14
          have q15 := i32_checked_mul_some hs15
          have q16 := i32_checked_sub_some hs16
          rw [u8_as_i32, u8_as_i32, u8_min_toNat, u8_min_toNat, toUInt8_toNat_lt _ (by omega), toUInt8_toNat_lt _ (by omega),
            toUInt8_toNat_lt _ (by omega), toUInt8_toNat_lt _ (by omega)] at q13
          rw [u8_as_i32, toUInt8_toNat_lt _ (by omega)] at q16
          rw [Evaluation.add_assign_some hs17, Evaluation.mul_f32_eq]
          have hk : kingEdgeFactor = 10 := rfl
          have hc : kingEdgeCentre = 6 := rfl
          simp only [hk, hc]
          congr 2
          rw [k10] at q15
          rw [k6] at q14
          exact ke_arith _ _ _ _ _ _ _ _ _ q13 q14 q15 q16

end GenFns
end Wee
