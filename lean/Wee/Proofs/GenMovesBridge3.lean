import Wee.Proofs.GenMovesBridge2
/-!
# Bridge, stage 3a, part 3: `MoveGenerator::compute_pawn_moves`

The translated pawn generator (pushes, promotions, double pushes, captures / promotion captures / en passant towards the east and
then towards the west) appends exactly the model's `pawnMoves` **in the same order**, and panics (`none`: an `unwrap` of
`Square::offset` or `piece_at`) exactly when the model's `Option` monad answers `none`.  The proof composes "appenders"
(`Appends F o`: `F` appends the list `o` or panics when `o = none`), one per loop of the Rust text.
Axioms: `propext`, `Classical.choice`, `Quot.sound` only.
-/
set_option linter.unusedSimpArgs false
namespace Wee
namespace GenFns
open Wee.Gen

/-! ## appenders: functions on the move buffer that append a list (or panic) -/

/-- `F` appends the moves `l` when `o = some l` and panics when `o = none` -/
def Appends {β : Type} (F : Array β → Option (Array β)) (o : Option (List β)) : Prop :=
  ∀ r, F r = o.map (fun l => r ++ l.toArray)

theorem Appends.bind {β : Type} {F G : Array β → Option (Array β)} {o1 o2 : Option (List β)}
    (hF : Appends F o1) (hG : Appends G o2) :
    Appends (fun r => F r >>= G) (o1.bind fun a => o2.map fun b => a ++ b) := by
  intro r
  show (F r >>= G) = _
  rw [hF r]
  cases o1 with
  | none => rfl
  | some a =>
    show G (r ++ a.toArray) = _
    rw [hG]
    cases o2 with
    | none => rfl
    | some b => simp [Array.append_assoc]

theorem Appends.of_eq {β : Type} {F : Array β → Option (Array β)} {o o' : Option (List β)}
    (h : Appends F o) (e : o = o') : Appends F o' := e ▸ h

theorem Appends.foldPushOpt {α β γ : Type} {f : Array β → γ → Option (Array β)} {m : α → γ} (g : α → Option β)
    {l : List α} (h : ∀ x ∈ l, ∀ acc, f acc (m x) = (g x).map (fun y => acc.push y)) :
    Appends (fun r => List.foldlM f r (l.map m)) (l.mapM g) :=
  fun r => foldlM_push_opt f m g l r h

theorem Appends.foldAppendOpt {α β γ : Type} {f : Array β → γ → Option (Array β)} {m : α → γ} (g : α → Option (List β))
    {l : List α} (h : ∀ x ∈ l, ∀ acc, f acc (m x) = (g x).map (fun ys => acc ++ ys.toArray)) :
    Appends (fun r => List.foldlM f r (l.map m)) ((l.mapM g).map List.flatten) := by
  intro r
  show List.foldlM f r (l.map m) = _
  rw [foldlM_append_opt f m g l r h]
  cases l.mapM g <;> rfl

/-! ## the model's `pawnMoves`, cut into the pieces the Rust text generates one after the other -/

def pA (h : Helper) : Option (List Wee.Move) :=
  (bitsOf (shiftFwd h.us (h.s.pieces.get h.us .pawn) &&& h.vac &&& ~~~(backrankMask h.us))).mapM fun t => do
    let o ← offset t 0 h.us.backward
    pure (Wee.Move.byMoving h.us .pawn o t)
def pB (h : Helper) : Option (List (List Wee.Move)) :=
  (bitsOf (shiftFwd h.us (h.s.pieces.get h.us .pawn) &&& h.vac &&& backrankMask h.us)).mapM fun t => do
    let o ← offset t 0 h.us.backward
    pure (promotionPieces.map fun pr => Wee.Move.byPromoting h.us .pawn o t pr)
def pC (h : Helper) : Option (List Wee.Move) :=
  (bitsOf (shiftFwd h.us (shiftFwd h.us (h.s.pieces.get h.us .pawn &&& homeRankMask h.us) &&& h.vac) &&& h.vac)).mapM fun t => do
    let o1 ← offset t 0 h.us.backward
    let o ← offset o1 0 h.us.backward
    pure (Wee.Move.byMoving h.us .pawn o t)
/-- squares attacked by the pawns towards one side -/
def pAtt (h : Helper) (east : Bool) : UInt64 :=
  if east then shiftE (shiftFwd h.us (h.s.pieces.get h.us .pawn)) else shiftW (shiftFwd h.us (h.s.pieces.get h.us .pawn))
def pDf (east : Bool) : Int := if east then -1 else 1
def pX (h : Helper) (east : Bool) : Option (List Wee.Move) :=
  (bitsOf (pAtt h east &&& ~~~(backrankMask h.us) &&& h.opp)).mapM fun t => do
    let o ← offset t (pDf east) h.us.backward
    let cap ← capturedAt h.s t
    pure (Wee.Move.byCapturing h.us .pawn o t cap)
def pY (h : Helper) (east : Bool) : Option (List (List Wee.Move)) :=
  (bitsOf (pAtt h east &&& backrankMask h.us &&& h.opp)).mapM fun t => do
    let o ← offset t (pDf east) h.us.backward
    let cap ← capturedAt h.s t
    pure (promotionPieces.map fun pr => Wee.Move.byCapturePromoting h.us .pawn o t cap pr)
def pZ (h : Helper) (east : Bool) : Option (List Wee.Move) :=
  match firstOne (pAtt h east &&& (match h.s.ep with | some t => bit t | Option.none => 0)) with
  | some t => do
    let o ← offset t (pDf east) h.us.backward
    pure [Wee.Move.byEnPassant h.us .pawn o t]
  | Option.none => pure []

/-- one capture direction of the model (`side east` in `pawnMoves`) -/
def pSide (h : Helper) (east : Bool) : Gen? := do
    let us := h.us
    let pawns := h.s.pieces.get us .pawn
    let back := backrankMask us
    let bwd := us.backward
    let invDf : Int := if east then -1 else 1
    let att := if east then shiftE (shiftFwd us pawns) else shiftW (shiftFwd us pawns)
    let withPromo := att &&& back &&& h.opp
    let noPromo := att &&& ~~~back &&& h.opp
    let epBB := att &&& (match h.s.ep with | some t => bit t | Option.none => 0)
    let x ← (bitsOf noPromo).mapM fun t => do
      let o ← offset t invDf bwd
      let cap ← capturedAt h.s t
      pure (Wee.Move.byCapturing us .pawn o t cap)
    let y ← (bitsOf withPromo).mapM fun t => do
      let o ← offset t invDf bwd
      let cap ← capturedAt h.s t
      pure (promotionPieces.map fun pr => Wee.Move.byCapturePromoting us .pawn o t cap pr)
    let z ← match firstOne epBB with
      | some t => do
        let o ← offset t invDf bwd
        pure [Wee.Move.byEnPassant us .pawn o t]
      | Option.none => pure []
    pure (x ++ y.flatten ++ z)

theorem pawnMoves_split (h : Helper) : pawnMoves h = (do
    let a ← pA h
    let b ← pB h
    let c ← pC h
    let e ← pSide h true
    let w ← pSide h false
    pure (a ++ b.flatten ++ c ++ e ++ w)) := rfl

theorem pSide_split (h : Helper) (east : Bool) : pSide h east = (do
    let x ← pX h east
    let y ← pY h east
    let z ← pZ h east
    pure (x ++ y.flatten ++ z)) := by
  cases east <;> unfold pSide pX pY pZ pAtt pDf <;> simp only [if_true, if_false, Bool.false_eq_true]
  all_goals
    congr 1; funext x; congr 1; funext y
    generalize firstOne _ = fo
    cases fo with
    | none => rfl
    | some t =>
      show (offset t _ _ >>= fun o => _) = ((offset t _ _ >>= fun o => _) >>= fun z => _)
      generalize offset t _ _ = oo
      cases oo <;> rfl

/-- the value the appender combinators build for the whole of `compute_pawn_moves` -/
theorem pawn_assembled (h : Helper) :
    ((pA h).bind fun a => ((pB h).map List.flatten).map fun b => a ++ b).bind (fun ab =>
      ((pC h).bind fun c =>
        (((pX h true).bind fun x => (((pY h true).map List.flatten).bind fun y => (pZ h true).map fun z => y ++ z).map fun yz => x ++ yz).bind
          fun e => (((pX h false).bind fun x => (((pY h false).map List.flatten).bind fun y => (pZ h false).map fun z => y ++ z).map fun yz => x ++ yz)).map
            fun w => e ++ w).map fun ew => c ++ ew).map fun cew => ab ++ cew)
      = pawnMoves h := by
  rw [pawnMoves_split, pSide_split, pSide_split]
  cases pA h with | none => rfl | some a =>
  cases pB h with | none => rfl | some b =>
  cases pC h with | none => rfl | some c =>
  cases pX h true with | none => rfl | some x1 =>
  cases pY h true with | none => rfl | some y1 =>
  cases pZ h true with | none => rfl | some z1 =>
  cases pX h false with | none => rfl | some x2 =>
  cases pY h false with | none => rfl | some y2 =>
  cases pZ h false with | none => rfl | some z2 =>
  simp [List.append_assoc]

theorem add_backward_W (c : Color) :
    Offset.add_Offset (Color.backward c) Offset.WEST = some ⟨-1, (Color.backward c).rank⟩ := by cases c <;> rfl
theorem add_backward_E (c : Color) :
    Offset.add_Offset (Color.backward c) Offset.EAST = some ⟨1, (Color.backward c).rank⟩ := by cases c <;> rfl

theorem offset_diag_W (t : Nat) (ht : t < 64) (c : Color) :
    Square.offset t.toUInt8 ⟨-1, (Color.backward c).rank⟩ = some ((offset t (pDf true) c.backward).map Nat.toUInt8) := by
  have e := u8_nat t ht
  obtain ⟨_, b2⟩ := Color.backward_eq c
  rw [Square.offset_eq _ _ (by rw [e]; exact ht) (by simp) (by rw [b2]; cases c <;> decide), e, b2]
  rfl

theorem offset_diag_E (t : Nat) (ht : t < 64) (c : Color) :
    Square.offset t.toUInt8 ⟨1, (Color.backward c).rank⟩ = some ((offset t (pDf false) c.backward).map Nat.toUInt8) := by
  have e := u8_nat t ht
  obtain ⟨_, b2⟩ := Color.backward_eq c
  rw [Square.offset_eq _ _ (by rw [e]; exact ht) (by simp) (by rw [b2]; cases c <;> decide), e, b2]
  rfl

theorem promotionPieces_eq : promotionPieces = [Piece.queen, Piece.rook, Piece.bishop, Piece.knight] := by decide

theorem push4 {β : Type} (acc : Array β) (a b c d : β) :
    (((acc.push a).push b).push c).push d = acc ++ [a, b, c, d].toArray := by
  apply Array.toList_inj.1; simp

theorem just_ep (s : Wee.State) (hep : ∀ t, s.ep = some t → t < 64) (t : Nat) (hs : s.ep = some t) :
    BitBoard.just (Nat.toUInt8 t) = some (bit t) := by
  have h := hep t hs
  rw [BitBoard.just_eq _ (by rw [u8_nat t h]; exact h), u8_nat t h]

set_option hygiene false in
/-- common start of the obligations of the loops of `compute_pawn_moves` -/
local macro "pawn_loop" : tactic => `(tactic| (
  intro t ht acc
  have h64 := bitsOf_lt _ _ ht
  have e := u8_nat t h64
  have hu : (Helper.of s).us = s.turn := rfl
  have hss : (Helper.of s).s = s := rfl
  simp only [from_u32_nat t h64, offset_backward t h64, offset_diag_W t h64, offset_diag_E t h64, some_bind', unwrap, hu, hss,
    piece_at_stateOf s t h64, capturedAt]))

set_option hygiene false in
/-- push loops whose origin is one `offset` away -/
local macro "pawn_push1" : tactic => `(tactic| (
  pawn_loop
  cases ho : offset t _ s.turn.backward with
  | none => rfl
  | some o =>
    have ho64 := offset_lt64 _ _ _ _ ho
    have eo := u8_nat o ho64
    simp only [Option.map_some, some_bind', eo, e,
      Move.by_moving_eq _ _ _ _ (show (Nat.toUInt8 o).toNat < 64 by rw [eo]; exact ho64) (show (Nat.toUInt8 t).toNat < 64 by rw [e]; exact h64)]
    rfl))

set_option hygiene false in
local macro "pawn_x" : tactic => `(tactic| (
  pawn_loop
  cases ho : offset t _ s.turn.backward with
  | none => rfl
  | some o =>
    have ho64 := offset_lt64 _ _ _ _ ho
    have eo := u8_nat o ho64
    cases hp : s.pieces.pieceAt t with
    | none => rfl
    | some cp =>
      simp only [Option.map_some, some_bind', eo, e, PieceIndex.piece_new,
        Move.by_capturing_eq _ _ _ _ _ (show (Nat.toUInt8 o).toNat < 64 by rw [eo]; exact ho64) (show (Nat.toUInt8 t).toNat < 64 by rw [e]; exact h64)]
      rfl))

set_option hygiene false in
local macro "pawn_y" : tactic => `(tactic| (
  pawn_loop
  cases ho : offset t _ s.turn.backward with
  | none => rfl
  | some o =>
    have ho64 := offset_lt64 _ _ _ _ ho
    have eo := u8_nat o ho64
    cases hp : s.pieces.pieceAt t with
    | none => rfl
    | some cp =>
      simp only [Option.map_some, some_bind', eo, e, PieceIndex.piece_new,
        Move.by_capture_promoting_eq _ _ _ _ _ _ (show (Nat.toUInt8 o).toNat < 64 by rw [eo]; exact ho64) (show (Nat.toUInt8 t).toNat < 64 by rw [e]; exact h64)]
      simp [promotionPieces_eq, Vec.push, push4]))

set_option hygiene false in
local macro "pawn_z" : tactic => `(tactic| (
  intro r
  have hu : (Helper.of s).us = s.turn := rfl
  have hss : (Helper.of s).s = s := rfl
  unfold pZ pAtt
  simp only [hss, hs, hu, if_true, if_false, Bool.false_eq_true]
  generalize hf : firstOne _ = fo
  cases fo with
  | none => rfl
  | some t =>
    have h64 := firstOne_lt _ _ hf
    have e := u8_nat t h64
    simp only [Option.map_some, from_u32_nat t h64, offset_diag_W t h64, offset_diag_E t h64, some_bind', unwrap]
    cases ho : offset t _ s.turn.backward with
    | none => rfl
    | some o =>
      have ho64 := offset_lt64 _ _ _ _ ho
      have eo := u8_nat o ho64
      simp only [Option.map_some, some_bind', eo, e,
        Move.by_en_passant_eq _ _ _ _ (show (Nat.toUInt8 o).toNat < 64 by rw [eo]; exact ho64) (show (Nat.toUInt8 t).toNat < 64 by rw [e]; exact h64)]
      simp [Vec.push]))

set_option hygiene false in
local macro "pawn_all" : tactic => `(tactic| (
  simp only [GameStateHelper.to_own_piece_eq, GameStateHelper.own_piece_eq, some_bind', helper_turn, BitBoard.shift_forward,
    helper_vacancy, GameStateHelper.own_backrank_mask_eq, GameStateHelper.own_pawn_home_rank_mask_eq,
    GameStateHelper.opposing_pieces_eq, iter_ones_collect_65, BitBoard.bitand_eq, BitBoard.not_eq,
    State.en_passant_target_stateOf, List.replicate, List.foldlM_cons, List.foldlM_nil, pure_bind',
    add_backward_W, add_backward_E, BitBoard.shift_EAST, BitBoard.shift_WEST, hs, hj, Option.map_none, Option.getD_none,
    Option.map_some, Option.getD_some, BitBoard.ZERO_eq, BitBoard.first_one_eq, bind_pure', bind_pure]
  refine Appends.of_eq (Appends.bind (Appends.bind ?A ?B) (Appends.bind ?C (Appends.bind ?S1 ?S2))) (pawn_assembled (Helper.of s))
  case A =>
    refine (Appends.foldPushOpt (fun t => do
          let o ← offset t 0 (Helper.of s).us.backward
          pure (Wee.Move.byMoving (Helper.of s).us .pawn o t)) ?a)
    pawn_push1
  case B =>
    refine (Appends.foldAppendOpt (fun t => do
          let o ← offset t 0 (Helper.of s).us.backward
          pure (promotionPieces.map fun pr => Wee.Move.byPromoting (Helper.of s).us .pawn o t pr)) ?b)
    pawn_loop
    cases ho : offset t 0 s.turn.backward with
    | none => rfl
    | some o =>
      have ho64 := offset_lt64 _ _ _ _ ho
      have eo := u8_nat o ho64
      simp only [Option.map_some, some_bind', eo, e,
        Move.by_promoting_eq _ _ _ _ _ (show (Nat.toUInt8 o).toNat < 64 by rw [eo]; exact ho64) (show (Nat.toUInt8 t).toNat < 64 by rw [e]; exact h64)]
      simp [promotionPieces_eq, Vec.push, push4]
  case C =>
    refine (Appends.foldPushOpt (fun t => do
          let o1 ← offset t 0 (Helper.of s).us.backward
          let o ← offset o1 0 (Helper.of s).us.backward
          pure (Wee.Move.byMoving (Helper.of s).us .pawn o t)) ?c)
    pawn_loop
    cases ho1 : offset t 0 s.turn.backward with
    | none => rfl
    | some o1 =>
      have ho164 := offset_lt64 _ _ _ _ ho1
      simp only [Option.map_some, some_bind', offset_backward o1 ho164, unwrap]
      cases ho : offset o1 0 s.turn.backward with
      | none => rfl
      | some o =>
        have ho64 := offset_lt64 _ _ _ _ ho
        have eo := u8_nat o ho64
        simp only [Option.map_some, some_bind', eo, e,
          Move.by_moving_eq _ _ _ _ (show (Nat.toUInt8 o).toNat < 64 by rw [eo]; exact ho64) (show (Nat.toUInt8 t).toNat < 64 by rw [e]; exact h64)]
        rfl
  case S1 =>
    refine Appends.bind
            (Appends.foldPushOpt (fun t => do
              let o ← offset t (pDf true) (Helper.of s).us.backward
              let cap ← capturedAt (Helper.of s).s t
              pure (Wee.Move.byCapturing (Helper.of s).us .pawn o t cap)) ?x1)
            (Appends.bind
              (Appends.foldAppendOpt (fun t => do
                let o ← offset t (pDf true) (Helper.of s).us.backward
                let cap ← capturedAt (Helper.of s).s t
                pure (promotionPieces.map fun pr => Wee.Move.byCapturePromoting (Helper.of s).us .pawn o t cap pr)) ?y1)
              (show Appends _ (pZ (Helper.of s) true) from ?z1))
    case x1 => pawn_x
    case y1 => pawn_y
    case z1 => pawn_z
  case S2 =>
    refine Appends.bind
            (Appends.foldPushOpt (fun t => do
              let o ← offset t (pDf false) (Helper.of s).us.backward
              let cap ← capturedAt (Helper.of s).s t
              pure (Wee.Move.byCapturing (Helper.of s).us .pawn o t cap)) ?x2)
            (Appends.bind
              (Appends.foldAppendOpt (fun t => do
                let o ← offset t (pDf false) (Helper.of s).us.backward
                let cap ← capturedAt (Helper.of s).s t
                pure (promotionPieces.map fun pr => Wee.Move.byCapturePromoting (Helper.of s).us .pawn o t cap pr)) ?y2)
              (show Appends _ (pZ (Helper.of s) false) from ?z2))
    case x2 => pawn_x
    case y2 => pawn_y
    case z2 => pawn_z))

theorem pawn_appends_none (s : Wee.State) (hs : s.ep = Option.none) :
    Appends (fun r => MoveGenerator.compute_pawn_moves (stateOf s) r) (pawnMoves (Helper.of s)) := by
  unfold MoveGenerator.compute_pawn_moves
  have hj := BitBoard.ZERO_eq
  pawn_all

theorem pawn_appends_some (s : Wee.State) (tt : Nat) (hs : s.ep = some tt) (htt : tt < 64) :
    Appends (fun r => MoveGenerator.compute_pawn_moves (stateOf s) r) (pawnMoves (Helper.of s)) := by
  unfold MoveGenerator.compute_pawn_moves
  have hj : BitBoard.just (Nat.toUInt8 tt) = some (bit tt) := by
    rw [BitBoard.just_eq _ (by rw [u8_nat tt htt]; exact htt), u8_nat tt htt]
  pawn_all

theorem MoveGenerator.compute_pawn_moves_appends (s : Wee.State) (hep : ∀ t, s.ep = some t → t < 64) :
    Appends (fun r => MoveGenerator.compute_pawn_moves (stateOf s) r) (pawnMoves (Helper.of s)) := by
  cases hs : s.ep with
  | none => exact pawn_appends_none s hs
  | some tt => exact pawn_appends_some s tt hs (hep tt hs)

/-- `compute_pawn_moves`: same moves in the same order as the model's `pawnMoves`, panic (`none`) exactly when the model says so -/
theorem MoveGenerator.compute_pawn_moves_eq (s : Wee.State) (r : Array PseudoLegalMove) (hep : ∀ t, s.ep = some t → t < 64) :
    MoveGenerator.compute_pawn_moves (stateOf s) r = (pawnMoves (Helper.of s)).map (fun l => r ++ l.toArray) :=
  MoveGenerator.compute_pawn_moves_appends s hep r

end GenFns
end Wee
