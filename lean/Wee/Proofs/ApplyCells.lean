import Wee.Proofs.ApplyFits
/-!
# C02: the mailbox of the successor placement (`expectedF`), square by square
-/
namespace Wee.C02
open Wee.C10 (DisjointBoard)

/-- mailbox after origin cleared, victim removed, mover put on the destination -/
def midF (s : State) (mv : Move) (p : Piece) : Nat → Option (Color × Piece) :=
  let o := Move.origin mv
  let d := Move.dest mv
  let f1 := upd s.pieces.pieceAt o Option.none
  let f2 := if Move.isEnPassant mv then upd f1 (o / 8 * 8 + d % 8) Option.none else f1
  upd f2 d (some (s.turn, p))

/-- … pawn replaced when promoting -/
def promoF (s : State) (mv : Move) (p : Piece) : Nat → Option (Color × Piece) :=
  match Move.promotion mv with
  | some r => upd (midF s mv p) (Move.dest mv) (some (s.turn, r))
  | Option.none => midF s mv p

/-- … rook relocated when castling: the mailbox of the successor -/
def expectedF (s : State) (mv : Move) (p : Piece) : Nat → Option (Color × Piece) :=
  let o := Move.origin mv
  match Move.castleSide mv with
  | some .king => upd (upd (promoF s mv p) (o + 3) Option.none) (o + 1) (some (s.turn, Piece.rook))
  | some .queen => upd (upd (promoF s mv p) (o - 4) Option.none) (o - 1) (some (s.turn, Piece.rook))
  | Option.none => promoF s mv p

theorem opp_ne (c : Color) : c.opp ≠ c := by cases c <;> simp [Color.opp]

theorem mid_repr {s : State} {mv : Move} {p : Piece} (h : MFits s mv p) :
    ∃ mid, capStep s mv (baseMap s mv p) = .ok mid ∧ Repr mid (midF s mv p) := by
  have h0 : Repr s.pieces s.pieces.pieceAt := repr_pieceAt h.disjoint
  have h1 := repr_clear h0 s.turn p _ h.o_lt h.mover
  unfold capStep baseMap midF
  cases hep : Move.isEnPassant mv
  · simp only [Bool.false_eq_true, if_false]
    cases hcap : Move.capture mv with
    | none =>
      refine ⟨_, rfl, ?_⟩
      obtain ⟨_, hdn⟩ := h.quiet hcap
      have hne : Move.dest mv ≠ Move.origin mv := by
        intro e; rw [e, h.mover] at hdn; cases hdn
      exact repr_set h1 s.turn p _ h.d_lt (by rw [upd_ne _ _ _ _ hne]; exact hdn) h.p_ne
    | some q =>
      refine ⟨_, rfl, ?_⟩
      obtain ⟨hdq, _⟩ := h.capture q hcap hep
      have hne : Move.dest mv ≠ Move.origin mv := by
        intro e; rw [e, h.mover] at hdq
        exact opp_ne s.turn (congrArg Prod.fst (Option.some.inj hdq)).symm
      rw [assign_comm _ s.turn s.turn.opp p q _ _ _ _ (fun e => opp_ne s.turn e.1.symm)]
      have h2 := repr_clear h1 s.turn.opp q _ h.d_lt (by rw [upd_ne _ _ _ _ hne]; exact hdq)
      have h3 := repr_set h2 s.turn p _ h.d_lt (upd_same _ _ _) h.p_ne
      rw [upd_upd] at h3
      exact h3
  · obtain ⟨_, _, _, _, hdn, hsep, hoff, hv⟩ := h.enPassant hep
    simp only [if_true, hsep, hoff]
    refine ⟨_, rfl, ?_⟩
    have hvlt : Move.origin mv / 8 * 8 + Move.dest mv % 8 < 64 := by have := h.o_lt; omega
    have hvo : Move.origin mv / 8 * 8 + Move.dest mv % 8 ≠ Move.origin mv := by
      intro e; rw [e, h.mover] at hv
      exact opp_ne s.turn (congrArg Prod.fst (Option.some.inj hv)).symm
    rw [assign_comm _ s.turn s.turn.opp p Piece.pawn _ _ _ _ (fun e => opp_ne s.turn e.1.symm)]
    have h2 := repr_clear h1 s.turn.opp Piece.pawn _ hvlt (by rw [upd_ne _ _ _ _ hvo]; exact hv)
    refine repr_set h2 s.turn p _ h.d_lt ?_ h.p_ne
    unfold upd
    split
    · rfl
    · split
      · rfl
      · exact hdn

theorem midF_dest (s : State) (mv : Move) (p : Piece) : midF s mv p (Move.dest mv) = some (s.turn, p) := by
  unfold midF; simp only [upd_same]

theorem promo_repr {s : State} {mv : Move} {p : Piece} (h : MFits s mv p) {mid : PieceMap}
    (hm : Repr mid (midF s mv p)) :
    Repr (promoStep s.turn p (Move.dest mv) (Move.promotion mv) mid) (promoF s mv p) := by
  unfold promoStep promoF
  cases hpr : Move.promotion mv with
  | none => exact hm
  | some r =>
    simp only []
    have h1 := repr_clear hm s.turn p _ h.d_lt (midF_dest s mv p)
    have h2 := repr_set h1 s.turn r _ h.d_lt (upd_same _ _ _) (promotion_ne_none hpr)
    rw [upd_upd] at h2
    exact h2


theorem homeSq_cases (c : Color) : homeSq c = 4 ∨ homeSq c = 60 := by cases c <;> simp [homeSq]

theorem castle_repr {s : State} {mv : Move} {p : Piece} (h : MFits s mv p) {m : PieceMap}
    (hm : Repr m (promoF s mv p)) :
    Repr (castleStep s.turn (Move.origin mv) (Move.castleSide mv) m) (expectedF s mv p) := by
  unfold castleStep expectedF
  cases hcs : Move.castleSide mv with
  | none => exact hm
  | some sd =>
    obtain ⟨hpk, hcap, hpr, ho, hsd⟩ := h.castle sd hcs
    obtain ⟨hep, _⟩ := h.quiet hcap
    have hF : promoF s mv p = upd (upd s.pieces.pieceAt (Move.origin mv) Option.none) (Move.dest mv) (some (s.turn, p)) := by
      unfold promoF midF; simp only [hpr, hep, Bool.false_eq_true, if_false]
    have ho' := homeSq_cases s.turn
    rw [← ho] at ho'
    cases sd with
    | king =>
      simp only [] at hsd ⊢
      obtain ⟨hd, hr, he⟩ := hsd
      have e7 : mkSq (rankOf (Move.origin mv)) 7 = Move.origin mv + 3 := by
        unfold mkSq rankOf; omega
      have e5 : mkSq (rankOf (Move.origin mv)) 5 = Move.origin mv + 1 := by
        unfold mkSq rankOf; omega
      rw [e7, e5]
      have h1 := repr_clear hm s.turn Piece.rook (Move.origin mv + 3) (by omega)
        (by rw [hF, upd_ne _ _ _ _ (by omega), upd_ne _ _ _ _ (by omega)]; exact hr)
      exact repr_set h1 s.turn Piece.rook (Move.origin mv + 1) (by omega)
        (by rw [upd_ne _ _ _ _ (by omega), hF, upd_ne _ _ _ _ (by omega), upd_ne _ _ _ _ (by omega)]; exact he)
        (by decide)
    | queen =>
      simp only [] at hsd ⊢
      obtain ⟨hd, hr, he⟩ := hsd
      have e0 : mkSq (rankOf (Move.origin mv)) 0 = Move.origin mv - 4 := by
        unfold mkSq rankOf; omega
      have e3 : mkSq (rankOf (Move.origin mv)) 3 = Move.origin mv - 1 := by
        unfold mkSq rankOf; omega
      rw [e0, e3]
      have h1 := repr_clear hm s.turn Piece.rook (Move.origin mv - 4) (by omega)
        (by rw [hF, upd_ne _ _ _ _ (by omega), upd_ne _ _ _ _ (by omega)]; exact hr)
      exact repr_set h1 s.turn Piece.rook (Move.origin mv - 1) (by omega)
        (by rw [upd_ne _ _ _ _ (by omega), hF, upd_ne _ _ _ _ (by omega), upd_ne _ _ _ _ (by omega)]; exact he)
        (by decide)

/-- **the successor placement, square by square**: under `MFits`, `performMove` succeeds and the
mailbox of the new placement is `expectedF` -/
theorem perform_repr {s : State} {mv : Move} {p : Piece} (h : MFits s mv p) :
    ∃ map, performMove s mv = some (.ok (finish s mv p map)) ∧ Repr map (expectedF s mv p) := by
  obtain ⟨mid, hmid, hr⟩ := mid_repr h
  refine ⟨finalMap s mv p mid, ?_, ?_⟩
  · rw [performMove_eq s mv p h.piece h.codes, hmid]
  · exact castle_repr h (promo_repr h hr)

end Wee.C02
