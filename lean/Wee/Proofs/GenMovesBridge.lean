import Wee.Proofs.GenMovesBridge3
/-!
# Bridge, stage 3a, part 4: pseudo-legal and legal move generation

* `MoveGenerator.compute_psuedo_legal_moves_into_eq` — the translated `compute_psuedo_legal_moves_into` yields the model's
  `pseudoLegalMoves` (pawns, knights, king + castling, bishops, rooks, queens) **in generation order**;
* `PseudoLegalMove.try_as_legal_move_eq` — the translated legality filter is the model's `tryAsLegal`;
* `MoveGenerator.compute_legal_moves_eq` — the translated `compute_legal_moves` is the model's `legalMoves?`
  (same `(move, next state)` pairs, same order, panic exactly when the model says `none`).

* `pseudoLegalMoves_wf`, `MoveGenerator.compute_legal_moves_model` — the well-formedness hypothesis of the previous theorem holds
  for every model state, so the equation is unconditional on representable states.

Everything is stated on the Rust-side value `stateOf s` of a model state `s` whose en-passant target is a square and whose
clocks fit `usize` (`StateOK s`; the Rust `State` cannot hold anything else).
Axioms: `propext`, `Classical.choice`, `Quot.sound` only.
-/
set_option linter.unusedSimpArgs false
namespace Wee
namespace GenFns
open Wee.Gen

/-- what the Rust `State` type guarantees of the model state it represents -/
structure StateOK (s : Wee.State) : Prop where
  ep : ∀ t, s.ep = some t → t < 64
  half : s.halfmove < 2 ^ 64
  full : s.fullmove < 2 ^ 64

/-! ## `compute_psuedo_legal_moves_into` -/

theorem MoveGenerator.compute_psuedo_legal_moves_into_eq (s : Wee.State) (r : Array PseudoLegalMove)
    (hep : ∀ t, s.ep = some t → t < 64) :
    MoveGenerator.compute_psuedo_legal_moves_into (stateOf s) r = (pseudoLegalMoves s).map List.toArray := by
  unfold MoveGenerator.compute_psuedo_legal_moves_into pseudoLegalMoves
  simp only [Vec.clear, MoveGenerator.compute_pawn_moves_eq s _ hep]
  cases pawnMoves (Helper.of s) with
  | none => rfl
  | some pm =>
    simp only [Option.map_some, some_bind', MoveGenerator.compute_knight_moves_eq, MoveGenerator.compute_king_moves_eq,
      MoveGenerator.compute_bishop_moves_eq, MoveGenerator.compute_rook_moves_eq, MoveGenerator.compute_queen_moves_eq]
    simp

/-! ## `PseudoLegalMove::try_as_legal_move` -/

/-- a packed move whose piece / capture / promotion fields hold valid codes (every constructor produces such words) -/
def WFMove (mv : UInt32) : Prop :=
  ∃ p, Wee.Move.piece? mv = some p ∧ p ≠ Piece.none ∧ Wee.Move.captureCode mv ≤ 6 ∧ Wee.Move.promotionCode mv ≤ 6

/-- Rust-side value of a `MoveResult` -/
def resOf (r : Wee.Move × Wee.State) : Move × State := (r.1, stateOf r.2)

theorem PseudoLegalMove.try_as_legal_move_eq (s : Wee.State) (mv : UInt32) (ok : StateOK s) (wf : WFMove mv) :
    PseudoLegalMove.try_as_legal_move mv (stateOf s) = (tryAsLegal s mv).map (Option.map resOf) := by
  obtain ⟨p, hv, hp, hc, hpr⟩ := wf
  unfold PseudoLegalMove.try_as_legal_move tryAsLegal
  rw [State.by_performing_move_eq s mv p hv hp hc hpr ok.ep ok.half ok.full]
  cases performMove s mv with
  | none => rfl
  | some res =>
    cases res with
    | error e => rfl
    | ok next =>
      simp only [resultOf, some_bind', unwrap, helper_turn, helper_board, boardOf_piece_occ,
        Board.colored_attacks_eq]
      have h1 : ∀ x y : UInt64, BitBoard.none (BitBoard.bitand x y) = bbNone (x &&& y) := fun _ _ => rfl
      have h2 : ∀ x y : UInt64, BitBoard.any (BitBoard.bitand x y) = !(bbNone (x &&& y)) := by
        intro x y; show ((x &&& y) != 0) = !((x &&& y) == 0); rfl
      simp only [h1, h2]
      cases bbNone (next.pieces.get s.turn Piece.king &&& coloredAttacks next.pieces next.turn) <;> rfl

/-! ## `compute_legal_moves_into`, `compute_legal_moves` -/

theorem legal_fold (s : Wee.State) (F : MoveGenerationBuffer → PseudoLegalMove → Option MoveGenerationBuffer)
    (l : List UInt32)
    (hF : ∀ m ∈ l, ∀ b, F b m = (tryAsLegal s m).map (fun o => match o with
        | some res => { b with f_legal_moves := b.f_legal_moves.push (resOf res) }
        | Option.none => b))
    (b : MoveGenerationBuffer) :
    List.foldlM F b l = (l.mapM (tryAsLegal s)).map (fun rs =>
      { b with f_legal_moves := b.f_legal_moves ++ ((rs.filterMap id).map resOf).toArray }) := by
  induction l generalizing b with
  | nil => simp
  | cons x t ih =>
    rw [List.foldlM_cons, hF x (List.mem_cons_self) b, List.mapM_cons]
    cases hx : tryAsLegal s x with
    | none => rfl
    | some o =>
      simp only [Option.map_some, some_bind']
      rw [ih (fun y hy => hF y (List.mem_cons_of_mem _ hy))]
      cases t.mapM (tryAsLegal s) with
      | none => rfl
      | some rs =>
        cases o with
        | none => simp
        | some res => simp [Array.append_assoc]

theorem MoveGenerator.compute_legal_moves_into_eq (s : Wee.State) (b : MoveGenerationBuffer) (ok : StateOK s)
    (wf : ∀ l, pseudoLegalMoves s = some l → ∀ mv ∈ l, WFMove mv) :
    MoveGenerator.compute_legal_moves_into (stateOf s) b
      = (pseudoLegalMoves s).bind fun ps => (ps.mapM (tryAsLegal s)).map fun rs =>
          ({ f_legal_moves := ((rs.filterMap id).map resOf).toArray, f_psuedo_legal_moves := ps.toArray } : MoveGenerationBuffer) := by
  unfold MoveGenerator.compute_legal_moves_into
  simp only [MoveGenerator.compute_psuedo_legal_moves_into_eq s _ ok.ep]
  cases hps : pseudoLegalMoves s with
  | none => rfl
  | some ps =>
    simp only [Option.map_some, some_bind', Option.bind_some]
    refine Eq.trans (legal_fold s _ ps ?_ _) ?_
    · intro m hm b'
      rw [PseudoLegalMove.try_as_legal_move_eq s m ok (wf ps hps m hm)]
      cases tryAsLegal s m with
      | none => rfl
      | some o => cases o <;> rfl
    · cases ps.mapM (tryAsLegal s) with
      | none => rfl
      | some rs => simp [MoveGenerationBuffer.clear, Vec.clear]

/-- **`MoveGenerator::compute_legal_moves`** is the model's `legalMoves?`: the same `(move, next state)` pairs in the same
order; `none` (panic) exactly when the model answers `none` -/
theorem MoveGenerator.compute_legal_moves_eq (s : Wee.State) (ok : StateOK s)
    (wf : ∀ l, pseudoLegalMoves s = some l → ∀ mv ∈ l, WFMove mv) :
    MoveGenerator.compute_legal_moves (stateOf s) = (legalMoves? s).map fun rs => (rs.map resOf).toArray := by
  unfold MoveGenerator.compute_legal_moves legalMoves?
  simp only [MoveGenerator.compute_legal_moves_into_eq s _ ok wf]
  cases pseudoLegalMoves s with
  | none => rfl
  | some ps =>
    cases hm : ps.mapM (tryAsLegal s) with
    | none => simp [hm]
    | some rs => simp [hm, MoveGenerationBuffer.into_MoveSet, MoveSet.new]

/-! ## every pseudo-legal move word is well formed (a fact about the MODEL; discharges the hypothesis `wf` above) -/

theorem wf_mk (c : Color) (p : Piece) (o d : Nat) (cap pr : Option Piece) (ep cq ck : Bool)
    (ho : o < 64) (hd : d < 64) (hp : p ≠ Piece.none) : WFMove (Wee.Move.mk c p o d cap pr ep cq ck) := by
  refine ⟨p, ?_, hp, ?_, ?_⟩
  · unfold Wee.Move.piece?
    rw [Wee.Move.pieceCode_mk c p o d cap pr ep cq ck ho hd, Wee.Move.ofCode_code]
  · rw [Wee.Move.captureCode_mk c p o d cap pr ep cq ck ho hd]; exact Wee.Move.optCode_le cap
  · rw [Wee.Move.promotionCode_mk c p o d cap pr ep cq ck ho hd]; exact Wee.Move.optCode_le pr

theorem wf_byMoving (c : Color) (p : Piece) (o d : Nat) (ho : o < 64) (hd : d < 64) (hp : p ≠ Piece.none) :
    WFMove (Wee.Move.byMoving c p o d) := by
  rw [Wee.Move.byMoving_eq_mk c p o d ho hd]; exact wf_mk _ _ _ _ _ _ _ _ _ ho hd hp
theorem wf_byCapturing (c : Color) (p : Piece) (o d : Nat) (q : Piece) (ho : o < 64) (hd : d < 64) (hp : p ≠ Piece.none) :
    WFMove (Wee.Move.byCapturing c p o d q) := by
  rw [Wee.Move.byCapturing_eq_mk c p o d ho hd]; exact wf_mk _ _ _ _ _ _ _ _ _ ho hd hp
theorem wf_byPromoting (c : Color) (p : Piece) (o d : Nat) (q : Piece) (ho : o < 64) (hd : d < 64) (hp : p ≠ Piece.none) :
    WFMove (Wee.Move.byPromoting c p o d q) := by
  rw [Wee.Move.byPromoting_eq_mk c p o d ho hd]; exact wf_mk _ _ _ _ _ _ _ _ _ ho hd hp
theorem wf_byCapturePromoting (c : Color) (p : Piece) (o d : Nat) (q r : Piece) (ho : o < 64) (hd : d < 64)
    (hp : p ≠ Piece.none) : WFMove (Wee.Move.byCapturePromoting c p o d q r) := by
  rw [Wee.Move.byCapturePromoting_eq_mk c p o d ho hd]; exact wf_mk _ _ _ _ _ _ _ _ _ ho hd hp
theorem wf_byEnPassant (c : Color) (p : Piece) (o d : Nat) (ho : o < 64) (hd : d < 64) (hp : p ≠ Piece.none) :
    WFMove (Wee.Move.byEnPassant c p o d) := by
  rw [Wee.Move.byEnPassant_eq_mk c p o d ho hd]; exact wf_mk _ _ _ _ _ _ _ _ _ ho hd hp
theorem wf_byCastling (c : Color) (sd : Side) : WFMove (Wee.Move.byCastling c sd) := by
  rw [Wee.Move.byCastling_eq_mk]
  refine wf_mk _ _ _ _ _ _ _ _ _ ?_ ?_ (by decide) <;> cases c <;> cases sd <;> decide

theorem mapM_some_mem {α β : Type} (g : α → Option β) (l : List α) (ys : List β) (h : l.mapM g = some ys) :
    ∀ y ∈ ys, ∃ x ∈ l, g x = some y := by
  induction l generalizing ys with
  | nil =>
    simp at h; subst h; intro y hy; cases hy
  | cons a t ih =>
    rw [List.mapM_cons] at h
    cases ha : g a with
    | none => rw [ha] at h; cases h
    | some b =>
      rw [ha] at h
      cases ht : t.mapM g with
      | none => rw [ht] at h; cases h
      | some bs =>
        rw [ht] at h
        simp at h
        subst h
        intro y hy
        rcases List.mem_cons.1 hy with e | hy'
        · exact ⟨a, List.mem_cons_self, by rw [ha, e]⟩
        · obtain ⟨x, hx, gx⟩ := ih bs ht y hy'
          exact ⟨x, List.mem_cons_of_mem _ hx, gx⟩

theorem wf_expandMoves (h : Helper) (o : Nat) (dests : UInt64) (p : Piece) (ho : o < 64) (hp : p ≠ Piece.none) :
    ∀ mv ∈ expandMoves h o dests p, WFMove mv := by
  intro mv hm
  unfold expandMoves at hm
  obtain ⟨t, ht, rfl⟩ := List.mem_map.1 hm
  have h64 := bitsOf_lt _ _ ht
  cases capturedAt h.s t with
  | none => exact wf_byMoving _ _ _ _ ho h64 hp
  | some cap => exact wf_byCapturing _ _ _ _ _ ho h64 hp

theorem wf_flatExpand (h : Helper) (bb : UInt64) (f : Nat → UInt64) (p : Piece) (hp : p ≠ Piece.none) :
    ∀ mv ∈ (bitsOf bb).flatMap (fun sq => expandMoves h sq (f sq) p), WFMove mv := by
  intro mv hm
  obtain ⟨sq, hsq, hmv⟩ := List.mem_flatMap.1 hm
  exact wf_expandMoves h sq _ p (bitsOf_lt _ _ hsq) hp mv hmv

theorem wf_kingMoves (h : Helper) : ∀ mv ∈ kingMoves h, WFMove mv := by
  intro mv hm
  unfold kingMoves at hm
  rcases List.mem_append.1 hm with h1 | h2
  · exact wf_flatExpand h _ _ .king (by decide) mv h1
  · obtain ⟨sd, _, hsd⟩ := List.mem_filterMap.1 h2
    split at hsd
    · simp only at hsd
      split at hsd
      · cases hsd; exact wf_byCastling _ _
      · cases hsd
    · cases hsd

theorem wf_pA (h : Helper) (a : List Wee.Move) (ha : pA h = some a) : ∀ mv ∈ a, WFMove mv := by
  intro mv hm
  obtain ⟨t, ht, gt⟩ := mapM_some_mem _ _ _ ha mv hm
  have h64 := bitsOf_lt _ _ ht
  cases ho : offset t 0 h.us.backward with
  | none => simp [ho] at gt
  | some o =>
    simp [ho] at gt
    subst gt
    exact wf_byMoving _ _ _ _ (offset_lt64 _ _ _ _ ho) h64 (by decide)

theorem wf_pB (h : Helper) (b : List (List Wee.Move)) (hb : pB h = some b) : ∀ mv ∈ b.flatten, WFMove mv := by
  intro mv hm
  obtain ⟨ys, hys, hmv⟩ := List.mem_flatten.1 hm
  obtain ⟨t, ht, gt⟩ := mapM_some_mem _ _ _ hb ys hys
  have h64 := bitsOf_lt _ _ ht
  cases ho : offset t 0 h.us.backward with
  | none => simp [ho] at gt
  | some o =>
    simp [ho] at gt
    subst gt
    obtain ⟨pr, _, rfl⟩ := List.mem_map.1 hmv
    exact wf_byPromoting _ _ _ _ _ (offset_lt64 _ _ _ _ ho) h64 (by decide)

theorem wf_pC (h : Helper) (c : List Wee.Move) (hc : pC h = some c) : ∀ mv ∈ c, WFMove mv := by
  intro mv hm
  obtain ⟨t, ht, gt⟩ := mapM_some_mem _ _ _ hc mv hm
  have h64 := bitsOf_lt _ _ ht
  cases ho1 : offset t 0 h.us.backward with
  | none => simp [ho1] at gt
  | some o1 =>
    cases ho : offset o1 0 h.us.backward with
    | none => simp [ho1, ho] at gt
    | some o =>
      simp [ho1, ho] at gt
      subst gt
      exact wf_byMoving _ _ _ _ (offset_lt64 _ _ _ _ ho) h64 (by decide)

theorem wf_pX (h : Helper) (east : Bool) (x : List Wee.Move) (hx : pX h east = some x) : ∀ mv ∈ x, WFMove mv := by
  intro mv hm
  obtain ⟨t, ht, gt⟩ := mapM_some_mem _ _ _ hx mv hm
  have h64 := bitsOf_lt _ _ ht
  cases ho : offset t (pDf east) h.us.backward with
  | none => simp [ho] at gt
  | some o =>
    cases hc : capturedAt h.s t with
    | none => simp [ho, hc] at gt
    | some cap =>
      simp [ho, hc] at gt
      subst gt
      exact wf_byCapturing _ _ _ _ _ (offset_lt64 _ _ _ _ ho) h64 (by decide)

theorem wf_pY (h : Helper) (east : Bool) (y : List (List Wee.Move)) (hy : pY h east = some y) :
    ∀ mv ∈ y.flatten, WFMove mv := by
  intro mv hm
  obtain ⟨ys, hys, hmv⟩ := List.mem_flatten.1 hm
  obtain ⟨t, ht, gt⟩ := mapM_some_mem _ _ _ hy ys hys
  have h64 := bitsOf_lt _ _ ht
  cases ho : offset t (pDf east) h.us.backward with
  | none => simp [ho] at gt
  | some o =>
    cases hc : capturedAt h.s t with
    | none => simp [ho, hc] at gt
    | some cap =>
      simp [ho, hc] at gt
      subst gt
      obtain ⟨pr, _, rfl⟩ := List.mem_map.1 hmv
      exact wf_byCapturePromoting _ _ _ _ _ _ (offset_lt64 _ _ _ _ ho) h64 (by decide)

theorem wf_pZ (h : Helper) (east : Bool) (z : List Wee.Move) (hz : pZ h east = some z) : ∀ mv ∈ z, WFMove mv := by
  intro mv hm
  unfold pZ at hz
  generalize hf : firstOne _ = fo at hz
  cases fo with
  | none => simp at hz; subst hz; cases hm
  | some t =>
    have h64 := firstOne_lt _ _ hf
    simp only at hz
    cases ho : offset t (pDf east) h.us.backward with
    | none => simp [ho] at hz
    | some o =>
      simp [ho] at hz
      subst hz
      simp at hm
      subst hm
      exact wf_byEnPassant _ _ _ _ (offset_lt64 _ _ _ _ ho) h64 (by decide)

theorem wf_pawnMoves (h : Helper) (pm : List Wee.Move) (hpm : pawnMoves h = some pm) : ∀ mv ∈ pm, WFMove mv := by
  rw [pawnMoves_split, pSide_split, pSide_split] at hpm
  cases hA : pA h with | none => simp [hA] at hpm | some a =>
  cases hB : pB h with | none => simp [hA, hB] at hpm | some b =>
  cases hC : pC h with | none => simp [hA, hB, hC] at hpm | some c =>
  cases hX1 : pX h true with | none => simp [hA, hB, hC, hX1] at hpm | some x1 =>
  cases hY1 : pY h true with | none => simp [hA, hB, hC, hX1, hY1] at hpm | some y1 =>
  cases hZ1 : pZ h true with | none => simp [hA, hB, hC, hX1, hY1, hZ1] at hpm | some z1 =>
  cases hX2 : pX h false with | none => simp [hA, hB, hC, hX1, hY1, hZ1, hX2] at hpm | some x2 =>
  cases hY2 : pY h false with | none => simp [hA, hB, hC, hX1, hY1, hZ1, hX2, hY2] at hpm | some y2 =>
  cases hZ2 : pZ h false with | none => simp [hA, hB, hC, hX1, hY1, hZ1, hX2, hY2, hZ2] at hpm | some z2 =>
  simp only [hA, hB, hC, hX1, hY1, hZ1, hX2, hY2, hZ2, some_bind', pure_bind'] at hpm
  have e : pm = a ++ b.flatten ++ c ++ (x1 ++ y1.flatten ++ z1) ++ (x2 ++ y2.flatten ++ z2) := by
    cases hpm; rfl
  subst e
  intro mv hm
  simp only [List.mem_append] at hm
  rcases hm with (((hm | hm) | hm) | ((hm | hm) | hm)) | ((hm | hm) | hm)
  · exact wf_pA h a hA mv hm
  · exact wf_pB h b hB mv hm
  · exact wf_pC h c hC mv hm
  · exact wf_pX h true x1 hX1 mv hm
  · exact wf_pY h true y1 hY1 mv hm
  · exact wf_pZ h true z1 hZ1 mv hm
  · exact wf_pX h false x2 hX2 mv hm
  · exact wf_pY h false y2 hY2 mv hm
  · exact wf_pZ h false z2 hZ2 mv hm

/-- every word generated by the model's `pseudoLegalMoves` has valid piece / capture / promotion codes -/
theorem pseudoLegalMoves_wf (s : Wee.State) (l : List Wee.Move) (hl : pseudoLegalMoves s = some l) : ∀ mv ∈ l, WFMove mv := by
  unfold pseudoLegalMoves at hl
  cases hpm : pawnMoves (Helper.of s) with
  | none => simp [hpm] at hl
  | some pm =>
    simp only [hpm, some_bind'] at hl
    have e : l = pm ++ knightMoves (Helper.of s) ++ kingMoves (Helper.of s) ++ sliderMoves (Helper.of s) .bishop bishopAttacks
        ++ sliderMoves (Helper.of s) .rook rookAttacks ++ sliderMoves (Helper.of s) .queen queenAttacks := by
      cases hl; rfl
    subst e
    intro mv hm
    simp only [List.mem_append] at hm
    rcases hm with ((((hm | hm) | hm) | hm) | hm) | hm
    · exact wf_pawnMoves _ pm hpm mv hm
    · exact wf_flatExpand _ _ _ .knight (by decide) mv hm
    · exact wf_kingMoves _ mv hm
    · exact wf_flatExpand _ _ _ .bishop (by decide) mv hm
    · exact wf_flatExpand _ _ _ .rook (by decide) mv hm
    · exact wf_flatExpand _ _ _ .queen (by decide) mv hm

/-- **`MoveGenerator::compute_legal_moves`** is the model's `legalMoves?`, unconditionally on representable states -/
theorem MoveGenerator.compute_legal_moves_model (s : Wee.State) (ok : StateOK s) :
    MoveGenerator.compute_legal_moves (stateOf s) = (legalMoves? s).map fun rs => (rs.map resOf).toArray :=
  MoveGenerator.compute_legal_moves_eq s ok (pseudoLegalMoves_wf s)

end GenFns
end Wee
