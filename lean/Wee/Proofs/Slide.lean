import Wee.Proofs.BitLemmas
import Wee.Proofs.MagicCheck
import Wee.Spec.Chess
/-!
# Lifting lemmas for sliding attacks (C09)

* `test_walk` : the bitboard ray walk `walk` (defined in `MagicCheck.lean`) has exactly the bits of the
  independent `Spec.slideDir`;
* `walk_congr`, `walk_and_mask` : the walk looks only at ray squares that have a successor, so masking the
  occupancy with a relevance mask that covers those squares does not change it;
* `deposit_extract`, `extract_lt`, `exists_blockersFromIndex` : every subset of a mask is
  `blockersFromIndex b mask` for some `b < 2 ^ popcount mask`;
* `lookup_eq_ref` : the generic lifting step from an exhaustive check over indices to all occupancies.
-/
namespace Wee

/-! ## `Square::offset` is the specification's coordinate step -/

theorem offset_eq_step (sq : Nat) (df dr : Int) : offset sq df dr = Spec.step sq df dr := by
  have hf : fileOf sq = sq % 8 := rfl
  have hr : rankOf sq = sq / 8 := rfl
  simp only [offset, Spec.step]
  rw [hf, hr]
  by_cases h : ((sq % 8 : Nat) : Int) + df < 0 ∨ ((sq % 8 : Nat) : Int) + df > 7 ∨
      ((sq / 8 : Nat) : Int) + dr < 0 ∨ ((sq / 8 : Nat) : Int) + dr > 7
  · rw [if_pos h, if_neg (by omega)]
  · rw [if_neg h, if_pos (by omega)]

theorem offset_lt {sq : Nat} {df dr : Int} {n : Nat} (h : offset sq df dr = some n) : n < 64 := by
  rw [offset_eq_step] at h
  simp only [Spec.step] at h
  by_cases hc : 0 ≤ ((sq % 8 : Nat) : Int) + df ∧ ((sq % 8 : Nat) : Int) + df ≤ 7 ∧
      0 ≤ ((sq / 8 : Nat) : Int) + dr ∧ ((sq / 8 : Nat) : Int) + dr ≤ 7
  · rw [if_pos hc] at h; injection h with h; omega
  · rw [if_neg hc] at h; cases h

/-- when the specification's coordinate step exists, and what it is -/
theorem step_eq_some (s t : Nat) (df dr : Int) :
    Spec.step s df dr = some t ↔
      (0 ≤ ((s % 8 : Nat) : Int) + df ∧ ((s % 8 : Nat) : Int) + df ≤ 7 ∧
       0 ≤ ((s / 8 : Nat) : Int) + dr ∧ ((s / 8 : Nat) : Int) + dr ≤ 7) ∧
      t = (((s / 8 : Nat) : Int) + dr).toNat * 8 + (((s % 8 : Nat) : Int) + df).toNat := by
  simp only [Spec.step]
  by_cases hc : 0 ≤ ((s % 8 : Nat) : Int) + df ∧ ((s % 8 : Nat) : Int) + df ≤ 7 ∧
      0 ≤ ((s / 8 : Nat) : Int) + dr ∧ ((s / 8 : Nat) : Int) + dr ≤ 7
  · rw [if_pos hc]
    constructor
    · intro h; injection h with h; exact ⟨hc, h.symm⟩
    · intro ⟨_, h⟩; rw [h]
  · rw [if_neg hc]
    constructor
    · intro h; cases h
    · intro ⟨h, _⟩; exact absurd h hc

/-! ## the walk and the specification list -/

theorem test_walk (occ : UInt64) (df dr : Int) : ∀ (fuel sq t : Nat),
    test (walk occ df dr fuel sq) t = (Spec.slideDir (fun n => test occ n) df dr fuel sq).contains t := by
  intro fuel
  induction fuel with
  | zero => intro sq t; simp [walk, Spec.slideDir]
  | succ f ih =>
    intro sq t
    unfold walk Spec.slideDir
    rw [← offset_eq_step]
    cases hoff : offset sq df dr with
    | none => simp
    | some n =>
      have hn : n < 64 := offset_lt hoff
      simp only
      by_cases ho : test occ n = true
      · rw [if_pos ho, if_pos ho, test_bit n t hn]
        simp [eq_comm]
      · rw [if_neg ho, if_neg ho, test_or, test_bit n t hn, ih n t]
        simp [eq_comm]

/-! ## the walk ignores squares off the ray and the last square of the ray -/

theorem walk_of_offset_none (occ : UInt64) (df dr : Int) (fuel n : Nat)
    (h : offset n df dr = Option.none) : walk occ df dr fuel n = 0 := by
  cases fuel with
  | zero => rfl
  | succ f => simp [walk, h]

/-- the walk only looks at ray squares that have a successor -/
theorem walk_congr (occ occ' : UInt64) (df dr : Int) :
    ∀ (fuel sq : Nat),
      (∀ n ∈ rayList df dr fuel sq, (offset n df dr).isSome → test occ n = test occ' n) →
      walk occ df dr fuel sq = walk occ' df dr fuel sq := by
  intro fuel
  induction fuel with
  | zero => intro sq _; rfl
  | succ f ih =>
    intro sq h
    unfold walk
    cases hoff : offset sq df dr with
    | none => rfl
    | some n =>
      simp only
      have hmem : n ∈ rayList df dr (f+1) sq := by simp [rayList, hoff]
      have htail : ∀ m ∈ rayList df dr f n, (offset m df dr).isSome → test occ m = test occ' m := by
        intro m hm; exact h m (by simp [rayList, hoff, hm])
      cases hn : offset n df dr with
      | none =>
        rw [walk_of_offset_none occ df dr f n hn, walk_of_offset_none occ' df dr f n hn]
        simp
      | some k =>
        have : test occ n = test occ' n := h n hmem (by simp [hn])
        rw [this, ih n htail]

/-- `mask` contains every square of the ray that has a successor (i.e. all but the last) -/
def maskCovers (mask : UInt64) (df dr : Int) (sq : Nat) : Bool :=
  (rayList df dr 8 sq).all fun n => !(offset n df dr).isSome || test mask n

theorem walk_and_mask (occ mask : UInt64) (df dr : Int) (sq : Nat)
    (h : maskCovers mask df dr sq = true) :
    walk (occ &&& mask) df dr 8 sq = walk occ df dr 8 sq := by
  apply walk_congr
  intro n hn hsome
  rw [maskCovers, List.all_eq_true] at h
  have := h n hn
  rw [hsome] at this
  rw [test_and]
  simp at this
  simp [this]

/-! ## deposit / extract (`compute_blockers_from_index` and its inverse) -/

/-- the index whose `deposit` is `s &&& mask` (software `pext`) -/
def extract (s mask : UInt64) : Nat → Nat → Nat
  | 0, _ => 0
  | fuel+1, b =>
    if test mask b then (if test s b then 1 else 0) + 2 * extract s mask fuel (b+1)
    else extract s mask fuel (b+1)

/-- number of mask bits in `[b, b+fuel)` -/
def pc (mask : UInt64) : Nat → Nat → Nat
  | 0, _ => 0
  | fuel+1, b => (if test mask b then 1 else 0) + pc mask fuel (b+1)

theorem pc_eq (mask : UInt64) : ∀ fuel b,
    pc mask fuel b = ((List.range' b fuel).filter (test mask)).length := by
  intro fuel
  induction fuel with
  | zero => intro b; simp [pc]
  | succ f ih =>
    intro b
    rw [pc, ih (b+1), List.range'_succ, List.filter_cons]
    by_cases hm : test mask b = true
    · rw [if_pos hm, if_pos hm, List.length_cons]; omega
    · rw [if_neg hm, if_neg hm]; omega

theorem pc_eq_popcount (mask : UInt64) : pc mask 64 0 = popcount mask := by
  rw [pc_eq, popcount, bitsOf, List.range_eq_range']

theorem extract_lt (s mask : UInt64) : ∀ fuel b, extract s mask fuel b < 2 ^ pc mask fuel b := by
  intro fuel
  induction fuel with
  | zero => intro b; simp [extract, pc]
  | succ f ih =>
    intro b
    unfold extract pc
    have := ih (b+1)
    split
    · rw [Nat.add_comm 1, Nat.pow_succ]; split <;> omega
    · simpa using this

theorem test_deposit_extract (s mask : UInt64) :
    ∀ fuel b n, b + fuel ≤ 64 →
      test (deposit (extract s mask fuel b) mask fuel b) n
        = (decide (b ≤ n ∧ n < b + fuel) && (test s n && test mask n)) := by
  intro fuel
  induction fuel with
  | zero =>
    intro b n _
    simp only [deposit, test_zero]
    simp
    intro h1 h2; omega
  | succ f ih =>
    intro b n hb
    by_cases hm : test mask b = true
    · rw [extract, if_pos hm, deposit, if_pos hm, test_or]
      have e1 : ((if test s b = true then 1 else 0) + 2 * extract s mask f (b+1)) / 2
          = extract s mask f (b+1) := by
        split <;> omega
      rw [e1, ih (b+1) n (by omega)]
      by_cases hs : test s b = true
      · have e2 : ((if test s b = true then 1 else 0) + 2 * extract s mask f (b+1)) % 2 = 1 := by
          rw [if_pos hs]; omega
        rw [if_pos e2, test_bit b n (by omega)]
        by_cases hbn : b = n
        · subst hbn; simp [hs, hm]
        · have : (decide (b ≤ n ∧ n < b + (f+1))) = decide (b + 1 ≤ n ∧ n < b + 1 + f) := by
            apply decide_eq_decide.2; omega
          simp [hbn, this]
      · have e2 : ¬ ((if test s b = true then 1 else 0) + 2 * extract s mask f (b+1)) % 2 = 1 := by
          rw [if_neg hs]; omega
        rw [if_neg e2, test_zero, Bool.false_or]
        by_cases hbn : b = n
        · subst hbn
          have hs' : test s b = false := by simpa using hs
          simp [hs']
        · have : (decide (b ≤ n ∧ n < b + (f+1))) = decide (b + 1 ≤ n ∧ n < b + 1 + f) := by
            apply decide_eq_decide.2; omega
          simp [this]
    · rw [extract, if_neg hm, deposit, if_neg hm, ih (b+1) n (by omega)]
      by_cases hbn : b = n
      · subst hbn
        have hm' : test mask b = false := by simpa using hm
        simp [hm']
      · have : (decide (b ≤ n ∧ n < b + (f+1))) = decide (b + 1 ≤ n ∧ n < b + 1 + f) := by
          apply decide_eq_decide.2; omega
        simp [this]

/-- `pdep (pext s mask) mask = s & mask` -/
theorem deposit_extract (s mask : UInt64) :
    blockersFromIndex (extract s mask 64 0) mask = s &&& mask := by
  apply ext
  intro n hn
  rw [blockersFromIndex, test_deposit_extract s mask 64 0 n (by omega), test_and]
  simp [hn]

theorem extract_lt_popcount (s mask : UInt64) : extract s mask 64 0 < 2 ^ popcount mask := by
  rw [← pc_eq_popcount]; exact extract_lt s mask 64 0

/-- every subset of the mask is enumerated by `compute_blockers_from_index` below `2^popcount` -/
theorem exists_blockersFromIndex (s mask : UInt64) :
    ∃ b, b < 2 ^ popcount mask ∧ blockersFromIndex b mask = s &&& mask :=
  ⟨extract s mask 64 0, extract_lt_popcount s mask, deposit_extract s mask⟩

/-! ## from the exhaustive index check to every occupancy -/

/-- If for every index `b < 2^bits` the table holds `ref (blockersFromIndex b mask)` at an in-range slot,
`popcount mask ≤ bits`, and `ref` does not depend on bits outside `mask`, then the look-up with an
arbitrary occupancy is in range and returns `ref occ`. -/
theorem lookup_eq_ref (table size : Nat) (ref : UInt64 → UInt64) (mask magic : UInt64) (bits : Nat)
    (hpc : popcount mask ≤ bits)
    (hloop : checkLoop table size ref mask magic bits (2 ^ bits) 0 = true)
    (href : ∀ occ, ref (occ &&& mask) = ref occ) (occ : UInt64) :
    magicIndex (occ &&& mask) magic bits < size ∧
    tget table (magicIndex (occ &&& mask) magic bits) = ref occ := by
  obtain ⟨b, hb, hdep⟩ := exists_blockersFromIndex occ mask
  have hb' : b < 0 + 2 ^ bits :=
    Nat.lt_of_lt_of_le hb (by rw [Nat.zero_add]; exact Nat.pow_le_pow_right (by omega) hpc)
  have := checkLoop_sound table size ref mask magic bits (2 ^ bits) 0 hloop b (Nat.zero_le _) hb'
  rw [hdep, href] at this
  exact this

/-! ## rook and bishop instances -/

theorem test_rookWalk (sq : Nat) (occ : UInt64) (t : Nat) :
    test (rookWalk sq occ) t = (Spec.slide (fun n => test occ n) Spec.rookDirs sq).contains t := by
  simp [rookWalk, test_or, test_walk, Spec.slide, Spec.rookDirs, Bool.or_assoc]

theorem test_bishopWalk (sq : Nat) (occ : UInt64) (t : Nat) :
    test (bishopWalk sq occ) t = (Spec.slide (fun n => test occ n) Spec.bishopDirs sq).contains t := by
  simp [bishopWalk, test_or, test_walk, Spec.slide, Spec.bishopDirs, Bool.or_assoc]

theorem slide_append (occ : Nat → Bool) (d1 d2 : List (Int × Int)) (sq : Nat) :
    Spec.slide occ (d1 ++ d2) sq = Spec.slide occ d1 sq ++ Spec.slide occ d2 sq := by
  simp [Spec.slide]

/-- `compute_rook_slide_masks` keeps every ray square except the last one of each ray -/
theorem rookMask_covers : ∀ sq : Fin 64,
    (maskCovers (rookMask sq) 0 1 sq && maskCovers (rookMask sq) 0 (-1) sq &&
     maskCovers (rookMask sq) 1 0 sq && maskCovers (rookMask sq) (-1) 0 sq) = true := by
  decide +kernel

/-- `compute_bishop_slide_masks` keeps every ray square except the last one of each ray -/
theorem bishopMask_covers : ∀ sq : Fin 64,
    (maskCovers (bishopMask sq) 1 1 sq && maskCovers (bishopMask sq) (-1) 1 sq &&
     maskCovers (bishopMask sq) 1 (-1) sq && maskCovers (bishopMask sq) (-1) (-1) sq) = true := by
  decide +kernel

/-- the rook ray walk does not see bits outside the relevance mask -/
theorem rookWalk_and_mask (sq : Nat) (hsq : sq < 64) (occ : UInt64) :
    rookWalk sq (occ &&& rookMask sq) = rookWalk sq occ := by
  have h := rookMask_covers ⟨sq, hsq⟩
  simp only [Bool.and_eq_true] at h
  obtain ⟨⟨⟨h1, h2⟩, h3⟩, h4⟩ := h
  simp only [rookWalk, walk_and_mask _ _ _ _ _ h1, walk_and_mask _ _ _ _ _ h2,
    walk_and_mask _ _ _ _ _ h3, walk_and_mask _ _ _ _ _ h4]

theorem bishopWalk_and_mask (sq : Nat) (hsq : sq < 64) (occ : UInt64) :
    bishopWalk sq (occ &&& bishopMask sq) = bishopWalk sq occ := by
  have h := bishopMask_covers ⟨sq, hsq⟩
  simp only [Bool.and_eq_true] at h
  obtain ⟨⟨⟨h1, h2⟩, h3⟩, h4⟩ := h
  simp only [bishopWalk, walk_and_mask _ _ _ _ _ h1, walk_and_mask _ _ _ _ _ h2,
    walk_and_mask _ _ _ _ _ h3, walk_and_mask _ _ _ _ _ h4]

theorem rookTables_getD (sq : Nat) (hsq : sq < 64) :
    rookTables.getD sq 0 = rookTableOf sq (Gen.rookMagics.getD sq 0) (Gen.rookBitsTab.getD sq 0) := by
  simp [rookTables, Array.getD, hsq]

theorem bishopTables_getD (sq : Nat) (hsq : sq < 64) :
    bishopTables.getD sq 0 = bishopTableOf sq (Gen.bishopMagics.getD sq 0) (Gen.bishopBitsTab.getD sq 0) := by
  simp [bishopTables, Array.getD, hsq]

/-- lifting: if the exhaustive check of square `sq` succeeded, the magic look-up is in range and equals
the ray walk for EVERY occupancy -/
theorem rookAttacks_eq_walk (sq : Nat) (hsq : sq < 64)
    (hchk : checkRook sq (Gen.rookMagics.getD sq 0) (Gen.rookBitsTab.getD sq 0) = true) (occ : UInt64) :
    magicIndex (occ &&& rookMask sq) (Gen.rookMagics.getD sq 0) (Gen.rookBitsTab.getD sq 0) < Gen.rookTableSize ∧
    rookAttacks sq occ = rookWalk sq occ := by
  simp only [checkRook, Bool.and_eq_true, decide_eq_true_eq] at hchk
  obtain ⟨⟨_, hpc⟩, hloop⟩ := hchk
  rw [rookAttacks, rookLookup, rookTables_getD sq hsq]
  exact lookup_eq_ref _ _ _ _ _ _ hpc hloop (rookWalk_and_mask sq hsq) occ

theorem bishopAttacks_eq_walk (sq : Nat) (hsq : sq < 64)
    (hchk : checkBishop sq (Gen.bishopMagics.getD sq 0) (Gen.bishopBitsTab.getD sq 0) = true) (occ : UInt64) :
    magicIndex (occ &&& bishopMask sq) (Gen.bishopMagics.getD sq 0) (Gen.bishopBitsTab.getD sq 0) < Gen.bishopTableSize ∧
    bishopAttacks sq occ = bishopWalk sq occ := by
  simp only [checkBishop, Bool.and_eq_true, decide_eq_true_eq] at hchk
  obtain ⟨⟨_, hpc⟩, hloop⟩ := hchk
  rw [bishopAttacks, bishopLookup, bishopTables_getD sq hsq]
  exact lookup_eq_ref _ _ _ _ _ _ hpc hloop (bishopWalk_and_mask sq hsq) occ

end Wee
