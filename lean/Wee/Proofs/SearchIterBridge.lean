import Wee.Proofs.SearchFnsBridge2
/-!
# Bridge, stage 4e: the iterative-deepening loop translated from `Searcher::analyze_iterative` (`Wee/Gen/SearchFns.lean`,
`Searcher.analyze_iterative.iteration` / `.loop`) REFINES the model's `boundaryPoll` / `iterStep` / `iterLoop`
(`Wee/Model/Search.lean`)

The workers of one iteration run one after the other (`SPrim.par_map_collect_result`: the trusted reading of the rayon
`into_par_iter().map(..).collect()` as ONE admissible schedule) — this is the model's `runWorkers`.  The calls of the callback
`f` are the list `IterCells.events`, read through `eventOf` as the model's `Event`s.  Form of the theorems: "when it returns" —
a panic of the generated code (debug profile) or exhausted fuel promises nothing.
-/
namespace Wee
namespace GenFns
open Wee.Search Wee.SearchCtl

/-! ## the `IM` monad -/

theorem im_bind {α β : Type} (x : IM α) (f : α → IM β) (c : IterCells) :
    (x >>= f) c = match x c with | (.ok a, c') => f a c' | (.error e, c') => (.error e, c') := rfl
theorem im_pure_bind {α β : Type} (a : α) (f : α → IM β) (c : IterCells) : ((pure a : IM α) >>= f) c = f a c := rfl
theorem im_pure {α : Type} (a : α) (c : IterCells) : (pure a : IM α) c = (.ok a, c) := rfl
theorem im_liftP_bind {α β : Type} (p : Panics α) (f : α → IM β) (c : IterCells) :
    (IM.liftP p >>= f) c = match p with | none => (.error .panic, c) | some a => f a c := by cases p <;> rfl
theorem im_read_tt_bind {β : Type} (f : TranspositionTableAccess → IM β) (c : IterCells) :
    (IM.read_transpositions >>= f) c = f c.transpositions c := rfl
theorem im_emit_bind {β : Type} (e : StatusEvent) (f : Unit → IM β) (c : IterCells) :
    (IM.emit e >>= f) c = f () { c with events := c.events ++ [e] } := rfl
theorem im_is_cancelled_bind {β : Type} (t : CancellationToken) (f : Bool → IM β) (c : IterCells) :
    (IM.is_cancelled t >>= f) c
      = f (match t.cancel_at with | some k => decide (c.polls ≥ k) | none => false) { c with polls := c.polls + 1 } := rfl
theorem im_rng_gen_bind {β : Type} (f : UInt64 → IM β) (c : IterCells) :
    (IM.rng_gen_u64 >>= f) c = f (Rng.nextU64 c.rng).1 { c with rng := (Rng.nextU64 c.rng).2 } := rfl

instance : LawfulMonad IM := LawfulMonad.mk'
  (id_map := by
    intro α x
    funext c
    show (match x c with | (.ok a, c') => (pure (id a) : IM α) c' | (.error e, c') => (.error e, c')) = x c
    generalize x c = r
    obtain ⟨r, c'⟩ := r
    cases r <;> rfl)
  (pure_bind := by intro α β a f; rfl)
  (bind_assoc := by
    intro α β γ x f g
    funext c
    show (match (match x c with | (.ok a, c') => f a c' | (.error e, c') => (.error e, c')) with
          | (.ok b, c') => g b c' | (.error e, c') => (.error e, c'))
      = (match x c with | (.ok a, c') => (f a >>= g) c' | (.error e, c') => (.error e, c'))
    generalize x c = r
    obtain ⟨r, c'⟩ := r
    cases r <;> rfl)

/-! ## representation -/

/-- a call of the callback, read as the model's event (the saturation of a progress report is not modelled) -/
def eventOf : StatusEvent → Event
  | .BestMove e line => .best e.toInt line.toList
  | .Progress d n _ => .progress d.toNat n.toNat

/-- the cells of the loop and its state `(nodes_searched, best_eval, best_mv)` represent the model's `IterSt` (flags apart) -/
structure IterRep (ic : IterCells) (ls : UInt64 × Evaluation × Option Move) (st : IterSt) : Prop where
  rng : ic.rng = st.rng
  tt : accessOf ic.transpositions = st.tt
  wf : AccessWF ic.transpositions
  polls : ic.polls = st.polls
  events : ic.events.map eventOf = st.events
  nodes : ls.1.toNat = st.nodes
  bestEval : ls.2.1.toInt = st.bestEval
  bestMv : ls.2.2 = st.bestMv

/-- two lists related element by element -/
inductive All2 {α β : Type} (R : α → β → Prop) : List α → List β → Prop
  | nil : All2 R [] []
  | cons {a : α} {b : β} {as : List α} {bs : List β} : R a b → All2 R as bs → All2 R (a :: as) (b :: bs)

/-! ## the thread data of one iteration: one `rng.gen()` per worker, in order (`drawSeeds`) -/

/-- a `ThreadData` value is the model's worker `(index, seed)` of the iteration `depth` -/
def TDR (gs : State) (depth : Nat) (bestMv : Option Move) (td : Searcher.analyze_iterative.ThreadData) (p : Nat × UInt64) : Prop :=
  td.f_rng = Rng.seedFromU64 p.2 ∧ td.f_game_state = gs ∧ td.f_search_depth.toNat = (depth - p.1 % 2) + 1 ∧
    td.f_best_move = (if p.1 == 0 then bestMv else none)

/-- what the closure `|i| ThreadData { .. }` does: one draw from the loop's generator, nothing else -/
def TDSpec (gs : State) (depth : Nat) (bestMv : Option Move) (f : UInt64 → IM Searcher.analyze_iterative.ThreadData) : Prop :=
  ∀ i ic, match f i ic with
    | (.ok td, ic') => ic' = { ic with rng := (Rng.nextU64 ic.rng).2 } ∧ TDR gs depth bestMv td (i.toNat, (Rng.nextU64 ic.rng).1)
    | (.error .interrupt, _) => False
    | (.error _, _) => True

theorem range_mapM_seeds (gs : State) (depth : Nat) (bestMv : Option Move) (f : UInt64 → IM Searcher.analyze_iterative.ThreadData)
    (hf : TDSpec gs depth bestMv f) :
    ∀ (n : Nat) (i : UInt64) (ic : IterCells), i.toNat + n < 2 ^ 64 →
      match SPrim.range_mapM f n i ic with
      | (.ok L, ic') => ic' = { ic with rng := (drawSeeds n ic.rng).2 } ∧
          All2 (TDR gs depth bestMv) L ((List.range' i.toNat n).zip (drawSeeds n ic.rng).1)
      | (.error .interrupt, _) => False
      | (.error _, _) => True := by
  intro n
  induction n with
  | zero =>
    intro i ic _
    simp only [SPrim.range_mapM, drawSeeds, im_pure]
    refine ⟨?_, All2.nil⟩
    first | rfl | trivial
  | succ n ih =>
    intro i ic hi
    simp only [SPrim.range_mapM]
    rw [im_bind]
    have h1 := hf i ic
    generalize f i ic = r at h1
    obtain ⟨r, c1⟩ := r
    cases r with
    | error e => cases e <;> first | exact h1 | trivial
    | ok td =>
      obtain ⟨hc1, htd⟩ := h1
      simp only []
      rw [im_bind]
      have hi1 : (i + 1).toNat = i.toNat + 1 := by
        rw [UInt64.toNat_add, Nat.mod_eq_of_lt (by simp; omega)]; rfl
      have h2 := ih (i + 1) c1 (by omega)
      generalize SPrim.range_mapM f n (i + 1) c1 = r2 at h2
      obtain ⟨r2, c2⟩ := r2
      cases r2 with
      | error e => cases e <;> first | exact h2 | trivial
      | ok L =>
        obtain ⟨hc2, hL⟩ := h2
        simp only [im_pure]
        subst hc1
        simp only [drawSeeds]
        refine ⟨hc2, ?_⟩
        rw [List.range'_succ, List.zip_cons_cons]
        rw [hi1] at hL
        exact All2.cons htd hL

/-! ## the workers of one iteration, one after the other (`runWorkers`) -/

/-- what stays / what changes in the loop's cells over a worker: the table and the poll counter are the worker's final ones -/
def CellsAfter (ic ic' : IterCells) (st' : St) : Prop :=
  accessOf ic'.transpositions = st'.tt ∧ ic'.polls = st'.polls ∧ AccessWF ic'.transpositions ∧ ic'.rng = ic.rng ∧ ic'.events = ic.events

/-- what the worker closure does: the model's `runWorker` on the worker's seed, depth and prioritized move -/
def WorkerSpec (ctx : Ctx) (root : Wee.State) (depth : Nat) (bestMv : Option Move)
    (wf : Searcher.analyze_iterative.ThreadData → IM (SResult (Evaluation × UInt64))) : Prop :=
  ∀ td p ic, TDR (stateOf root) depth bestMv td p → AccessWF ic.transpositions →
    match wf td ic with
    | (.ok (.Ok r), ic') => ∃ st', runWorker ctx root ((depth - p.1 % 2) + 1) (if p.1 == 0 then bestMv else none)
          (accessOf ic.transpositions) (Rng.seedFromU64 p.2) ic.polls = (.ok r.1.toInt, st') ∧ r.2.toNat = st'.nodes ∧ CellsAfter ic ic' st'
    | (.ok .Err, ic') => ∃ st', runWorker ctx root ((depth - p.1 % 2) + 1) (if p.1 == 0 then bestMv else none)
          (accessOf ic.transpositions) (Rng.seedFromU64 p.2) ic.polls = (.error .interrupt, st') ∧ CellsAfter ic ic' st'
    | (.error .interrupt, _) => False
    | (.error _, _) => True

theorem par_map_runWorkers (ctx : Ctx) (root : Wee.State) (depth : Nat) (bestMv : Option Move)
    (wf : Searcher.analyze_iterative.ThreadData → IM (SResult (Evaluation × UInt64))) (hw : WorkerSpec ctx root depth bestMv wf)
    (L : List Searcher.analyze_iterative.ThreadData) (pairs : List (Nat × UInt64)) (hL : All2 (TDR (stateOf root) depth bestMv) L pairs) :
    ∀ (ic : IterCells) (acc : WorkersOut), acc.interrupted = false → acc.panic = none → accessOf ic.transpositions = acc.tt →
      ic.polls = acc.polls → AccessWF ic.transpositions →
      match SPrim.par_map_collect_result wf L ic with
      | (.ok (.Ok rs), ic') =>
        (runWorkers ctx root depth bestMv pairs acc).interrupted = false ∧ (runWorkers ctx root depth bestMv pairs acc).panic = none ∧
        (runWorkers ctx root depth bestMv pairs acc).evals = acc.evals ++ rs.map (fun r => r.1.toInt) ∧
        (runWorkers ctx root depth bestMv pairs acc).sumNodes = acc.sumNodes + (rs.map (fun r => r.2.toNat)).sum ∧
        accessOf ic'.transpositions = (runWorkers ctx root depth bestMv pairs acc).tt ∧ ic'.polls = (runWorkers ctx root depth bestMv pairs acc).polls ∧
        AccessWF ic'.transpositions ∧ ic'.rng = ic.rng ∧ ic'.events = ic.events
      | (.ok .Err, ic') =>
        (runWorkers ctx root depth bestMv pairs acc).interrupted = true ∧ (runWorkers ctx root depth bestMv pairs acc).panic = none ∧
        accessOf ic'.transpositions = (runWorkers ctx root depth bestMv pairs acc).tt ∧ ic'.polls = (runWorkers ctx root depth bestMv pairs acc).polls ∧
        AccessWF ic'.transpositions ∧ ic'.rng = ic.rng ∧ ic'.events = ic.events
      | (.error .interrupt, _) => False
      | (.error _, _) => True := by
  induction hL with
  | nil =>
    intro ic acc hi hp htt hpo hwf
    simp only [SPrim.par_map_collect_result, im_pure, runWorkers]
    refine ⟨hi, hp, by simp, by simp, htt, hpo, hwf, ?_, ?_⟩ <;> first | rfl | trivial
  | @cons td p L pairs htd _ ih =>
    intro ic acc hi hp htt hpo hwf
    simp only [SPrim.par_map_collect_result]
    rw [im_bind]
    have h1 := hw td p ic htd hwf
    have hrw : runWorkers ctx root depth bestMv (p :: pairs) acc =
        match runWorker ctx root ((depth - p.1 % 2) + 1) (if p.1 == 0 then bestMv else none) acc.tt (Rng.seedFromU64 p.2) acc.polls with
        | (.ok e, st) => runWorkers ctx root depth bestMv pairs
            { acc with tt := st.tt, polls := st.polls, evals := acc.evals ++ [e], sumNodes := acc.sumNodes + st.nodes }
        | (.error .interrupt, st) => { acc with tt := st.tt, polls := st.polls, interrupted := true }
        | (.error (.panic why), _) => { acc with panic := some why } := by
      obtain ⟨i, seed⟩ := p
      rw [runWorkers]
      simp [hi, hp]
      generalize runWorker _ _ _ _ _ _ _ = o
      obtain ⟨r, st⟩ := o
      cases r with
      | ok e => rfl
      | error e => cases e <;> rfl
    rw [hrw, ← htt, ← hpo]
    generalize wf td ic = r at h1
    obtain ⟨r, c1⟩ := r
    cases r with
    | error e => cases e <;> first | exact h1 | trivial
    | ok v =>
      cases v with
      | Err =>
        obtain ⟨st', hrun, h2, h3, h4, h5, h6⟩ := h1
        rw [hrun]
        simp only [im_pure]
        refine ⟨?_, hp, h2, h3, h4, h5, h6⟩
        first | rfl | trivial
      | Ok r =>
        obtain ⟨st', hrun, hn, h2, h3, h4, h5, h6⟩ := h1
        rw [hrun]
        simp only []
        rw [im_bind]
        have h7 := ih c1 { acc with tt := st'.tt, polls := st'.polls, evals := acc.evals ++ [r.1.toInt], sumNodes := acc.sumNodes + st'.nodes }
          hi hp h2 h3 h4
        generalize SPrim.par_map_collect_result wf L c1 = r2 at h7
        obtain ⟨r2, c2⟩ := r2
        cases r2 with
        | error e => cases e <;> first | exact h7 | trivial
        | ok v2 =>
          cases v2 with
          | Err =>
            obtain ⟨a1, a2, a3, a4, a5, a6, a7⟩ := h7
            simp only [im_pure]
            exact ⟨a1, a2, a3, a4, a5, a6.trans h5, a7.trans h6⟩
          | Ok rs =>
            obtain ⟨a1, a2, a3, a4, a5, a6, a7, a8, a9⟩ := h7
            simp only [im_pure]
            refine ⟨a1, a2, ?_, ?_, a5, a6, a7, a8.trans h5, a9.trans h6⟩
            · rw [a3]; simp
            · rw [a4]; simp [hn]; omega

/-! ## sums, maxima, the walked line -/

theorem usize_sum_go_some (xs : List UInt64) : ∀ (acc r : UInt64),
    xs.foldlM (fun acc x => UInt64.checked_add acc x) acc = some r → r.toNat = acc.toNat + (xs.map UInt64.toNat).sum := by
  induction xs with
  | nil => intro acc r h; simp [List.foldlM] at h; simp [h]
  | cons x xs ih =>
    intro acc r h
    rw [List.foldlM_cons] at h
    cases ha : UInt64.checked_add acc x with
    | none => rw [ha] at h; cases h
    | some a =>
      rw [ha] at h
      have := ih a r h
      rw [this, u64_add_some ha]
      simp [Nat.add_assoc]

/-- `it.sum::<usize>()`, when it returns: the sum -/
theorem usize_sum_some {xs : List UInt64} {r : UInt64} (h : TTPrim.usize_sum xs = some r) : r.toNat = (xs.map UInt64.toNat).sum := by
  have := usize_sum_go_some xs 0 r h
  simpa using this

theorem foldl_ord_max_toInt (es : List Evaluation) : ∀ e : Evaluation,
    (es.foldl Evaluation.ord_max e).toInt = (es.map Int32.toInt).foldl max e.toInt := by
  induction es with
  | nil => intro e; rfl
  | cons x xs ih => intro e; simp only [List.foldl_cons, List.map_cons]; rw [ih, ord_max_toInt]

/-- the model's new best evaluation: the maximum over the workers (the old one if there is no worker) -/
def bestOf (evals : List Eval) (d : Eval) : Eval := match evals with | [] => d | e :: es => es.foldl max e

/-- `*it.max().unwrap()`, when it returns: the model's fold (never the empty case) -/
theorem iter_max_some {es : List Evaluation} {r : Evaluation} (h : SPrim.iter_max es = some r) (d : Eval) :
    r.toInt = bestOf (es.map Int32.toInt) d := by
  cases es with
  | nil => cases h
  | cons e es =>
    simp only [SPrim.iter_max, Option.some.injEq] at h
    subst h
    exact foldl_ord_max_toInt es e

theorem usize_saturating_sub_toNat (a b : UInt64) : (SPrim.usize_saturating_sub a b).toNat = a.toNat - b.toNat := by
  unfold SPrim.usize_saturating_sub
  by_cases h : b ≤ a
  · rw [if_pos h]; exact UInt64.toNat_sub_of_le _ _ h
  · rw [if_neg h]
    have : ¬ b.toNat ≤ a.toNat := fun x => h (UInt64.le_iff_toNat_le.2 x)
    show (0 : UInt64).toNat = _
    simp; omega

/-- the first move of a walked line is a well-formed move word when the walk is `WalkOK` -/
theorem walkLine_head_wf (keys : Keys) (tt : TT.Access) (n : Nat) (s : Wee.State) (h : WalkOK keys tt (n + 1) s) (m : Wee.Move)
    (hm : (walkLine keys tt (n + 1) s).head? = some m) : WFMove m := by
  obtain ⟨_, _, _, hrest⟩ := h
  unfold walkLine at hm
  cases hf : tt.find (Wee.hash keys s).toNat with
  | none => rw [hf] at hm; cases hm
  | some e =>
    rw [hf] at hm hrest
    obtain ⟨⟨p, hp, hpn⟩, hc, hpr, _⟩ := hrest
    simp only [] at hm
    split at hm
    · simp only [List.head?_cons, Option.some.injEq] at hm
      subst hm
      exact ⟨p, hp, hpn, hc, hpr⟩
    · cases hm

/-! ## the loop body -/

/-- the number of workers the loop uses in iteration `depth` -/
def workersOfGen (mtc : Option UInt64) (mnt : UInt64) (depth : UInt64) : Nat :=
  (match mtc with | some v => v | none => (if decide (depth < (3 : UInt64)) then (1 : UInt64) else (SPrim.usize_min mnt (32 : UInt64)))).toNat

/-- the body of the model's `iterLoop` -/
def iterBody (ctx : Ctx) (root : Wee.State) (rootHash : UInt64) (workers depth : Nat) (st : IterSt) : IterSt :=
  if (boundaryPoll ctx depth st).finished then boundaryPoll ctx depth st
  else iterStep ctx root rootHash workers depth (boundaryPoll ctx depth st)

abbrev LS := UInt64 × Evaluation × Option Move

/-- what one run of the generated loop body promises about the model state `st'` after the model's loop body -/
def IterPost (st' : IterSt) (out : Except SearchStop (Early LS LS) × IterCells) : Prop :=
  match out with
  | (.ok (.cont ls'), ic') => st'.finished = false ∧ st'.panic = none ∧ IterRep ic' ls' st' ∧ (∀ m, st'.bestMv = some m → WFMove m)
  | (.ok (.ret ls'), ic') => st'.finished = true ∧ st'.panic = none ∧ IterRep ic' ls' st'
  | (.error .interrupt, _) => False
  | (.error _, _) => True

theorem iterPost_liftP_bind {α : Type} {st' : IterSt} {p : Panics α} {f : α → IM (Early LS LS)} {c : IterCells}
    (h : ∀ v, p = some v → IterPost st' (f v c)) : IterPost st' ((IM.liftP p >>= f) c) := by
  rw [im_liftP_bind]
  cases p with
  | none => exact True.intro
  | some v => exact h v rfl

theorem iterPost_bind {α : Type} {st' : IterSt} {x : IM α} {f : α → IM (Early LS LS)} {c : IterCells}
    (P : α → IterCells → Prop)
    (hx : match x c with | (.ok a, c') => P a c' | (.error .interrupt, _) => False | (.error _, _) => True)
    (hf : ∀ a c', P a c' → IterPost st' (f a c')) : IterPost st' ((x >>= f) c) := by
  rw [im_bind]
  generalize x c = r at hx
  obtain ⟨r, c'⟩ := r
  cases r with
  | error e => cases e <;> first | exact hx | exact True.intro
  | ok a => exact hf a c' hx

/-- the boundary poll `depth > 0 && token.is_cancelled()` -/
theorem boundary_poll_eq (keys : Keys) (l : List UInt64) (cancel : Option Nat) (depth : UInt64) (ls : LS) (ic : IterCells) (st : IterSt)
    (hrep : IterRep ic ls st) (hnf : st.finished = false) :
    ∃ ic1, (if decide (depth > 0) = true then IM.is_cancelled ⟨cancel⟩ else pure false) ic
        = (.ok (boundaryPoll { keys := keys, history := l, cancelAt := cancel } depth.toNat st).finished, ic1) ∧
      IterRep ic1 ls (boundaryPoll { keys := keys, history := l, cancelAt := cancel } depth.toNat st) ∧
      (boundaryPoll { keys := keys, history := l, cancelAt := cancel } depth.toNat st).panic = st.panic ∧
      (boundaryPoll { keys := keys, history := l, cancelAt := cancel } depth.toNat st).bestMv = st.bestMv := by
  by_cases h : depth > 0
  · have h' : depth.toNat > 0 := by have := UInt64.lt_iff_toNat_lt.1 h; simpa using this
    have e : boundaryPoll { keys := keys, history := l, cancelAt := cancel } depth.toNat st
        = { st with polls := st.polls + 1, finished := (match cancel with | some k => decide (st.polls ≥ k) | none => false) } := by
      unfold boundaryPoll; rw [if_pos h']; rfl
    rw [e]
    refine ⟨{ ic with polls := ic.polls + 1 }, ?_, ⟨hrep.rng, hrep.tt, hrep.wf, ?_, hrep.events, hrep.nodes, hrep.bestEval, hrep.bestMv⟩, rfl, rfl⟩
    · rw [if_pos (by simpa using h)]
      show (Except.ok (match cancel with | some k => decide (ic.polls ≥ k) | none => false), _) = _
      rw [hrep.polls]
    · show ic.polls + 1 = st.polls + 1
      rw [hrep.polls]
  · have h' : ¬ depth.toNat > 0 := by intro x; apply h; exact UInt64.lt_iff_toNat_lt.2 (by simpa using x)
    have e : boundaryPoll { keys := keys, history := l, cancelAt := cancel } depth.toNat st = st := by
      unfold boundaryPoll; rw [if_neg h']
    rw [e]
    refine ⟨ic, ?_, hrep, rfl, rfl⟩
    rw [if_neg (by simpa using h), hnf]
    rfl


/-- `iterStep` when no worker panics and none is interrupted -/
theorem iterStep_ok (ctx : Ctx) (root : Wee.State) (rootHash : UInt64) (workers depth : Nat) (st : IterSt)
    (hp : (workersOut ctx root workers depth st).panic = none) (hi : (workersOut ctx root workers depth st).interrupted = false) :
    iterStep ctx root rootHash workers depth st =
      (if (walkLine ctx.keys (workersOut ctx root workers depth st).tt (depth + 1) root).isEmpty then
        { st with tt := (workersOut ctx root workers depth st).tt, rng := (drawSeeds workers st.rng).2,
                  polls := (workersOut ctx root workers depth st).polls,
                  nodes := st.nodes + (workersOut ctx root workers depth st).sumNodes,
                  bestEval := (bestOf (workersOut ctx root workers depth st).evals st.bestEval),
                  bestMv := none,
                  events := st.events ++ [.progress (depth + 1) (st.nodes + (workersOut ctx root workers depth st).sumNodes)] }
      else
        { st with tt := (workersOut ctx root workers depth st).tt, rng := (drawSeeds workers st.rng).2,
                  polls := (workersOut ctx root workers depth st).polls,
                  nodes := st.nodes + (workersOut ctx root workers depth st).sumNodes,
                  bestEval := (bestOf (workersOut ctx root workers depth st).evals st.bestEval),
                  bestMv := (walkLine ctx.keys (workersOut ctx root workers depth st).tt (depth + 1) root).head?,
                  events := st.events ++ [.progress (depth + 1) (st.nodes + (workersOut ctx root workers depth st).sumNodes)] ++
                    [.best (bestOf (workersOut ctx root workers depth st).evals st.bestEval)
                      (walkLine ctx.keys (workersOut ctx root workers depth st).tt (depth + 1) root)],
                  finished := decide ((bestOf (workersOut ctx root workers depth st).evals st.bestEval) ≥ Ev.posInf) }) := by
  unfold workersOut at hp hi ⊢
  unfold iterStep
  simp only [hp, hi, Bool.not_false, if_true]
  try rfl

/-- `iterStep` when a worker is interrupted -/
theorem iterStep_interrupt (ctx : Ctx) (root : Wee.State) (rootHash : UInt64) (workers depth : Nat) (st : IterSt)
    (hp : (workersOut ctx root workers depth st).panic = none) (hi : (workersOut ctx root workers depth st).interrupted = true) :
    iterStep ctx root rootHash workers depth st =
      { st with tt := (workersOut ctx root workers depth st).tt, rng := (drawSeeds workers st.rng).2,
                polls := (workersOut ctx root workers depth st).polls,
                events := (match (workersOut ctx root workers depth st).tt.find rootHash.toNat with
                  | some x =>
                    if x.eval > st.bestEval then
                      (if (walkLine ctx.keys (workersOut ctx root workers depth st).tt (depth + 1) root).isEmpty then st.events
                       else st.events ++ [.best x.eval (walkLine ctx.keys (workersOut ctx root workers depth st).tt (depth + 1) root)])
                    else st.events
                  | none => st.events),
                finished := true } := by
  unfold workersOut at hp hi ⊢
  unfold iterStep
  simp only [hp, hi, Bool.not_true, Bool.false_eq_true, if_false]
  try rfl

/-- what the sequential run of the workers promises about the model's `runWorkers` result `w` -/
def WorkersPost (w acc : WorkersOut) (ic : IterCells) (out : Except SearchStop (SResult (List (Evaluation × UInt64))) × IterCells) : Prop :=
  match out with
  | (.ok (.Ok rs), ic') =>
    w.interrupted = false ∧ w.panic = none ∧ w.evals = acc.evals ++ rs.map (fun r => r.1.toInt) ∧
    w.sumNodes = acc.sumNodes + (rs.map (fun r => r.2.toNat)).sum ∧
    accessOf ic'.transpositions = w.tt ∧ ic'.polls = w.polls ∧ AccessWF ic'.transpositions ∧ ic'.rng = ic.rng ∧ ic'.events = ic.events
  | (.ok .Err, ic') =>
    w.interrupted = true ∧ w.panic = none ∧ accessOf ic'.transpositions = w.tt ∧ ic'.polls = w.polls ∧
    AccessWF ic'.transpositions ∧ ic'.rng = ic.rng ∧ ic'.events = ic.events
  | (.error .interrupt, _) => False
  | (.error _, _) => True

theorem par_map_workersPost (ctx : Ctx) (root : Wee.State) (depth : Nat) (bestMv : Option Move)
    (wf : Searcher.analyze_iterative.ThreadData → IM (SResult (Evaluation × UInt64))) (hw : WorkerSpec ctx root depth bestMv wf)
    (L : List Searcher.analyze_iterative.ThreadData) (pairs : List (Nat × UInt64)) (hL : All2 (TDR (stateOf root) depth bestMv) L pairs)
    (ic : IterCells) (acc : WorkersOut) (h1 : acc.interrupted = false) (h2 : acc.panic = none) (h3 : accessOf ic.transpositions = acc.tt)
    (h4 : ic.polls = acc.polls) (h5 : AccessWF ic.transpositions) :
    WorkersPost (runWorkers ctx root depth bestMv pairs acc) acc ic (SPrim.par_map_collect_result wf L ic) :=
  par_map_runWorkers ctx root depth bestMv wf hw L pairs hL ic acc h1 h2 h3 h4 h5


/-- **the body of the loop of `Searcher::analyze_iterative` refines the model's loop body** (`boundaryPoll`, then `iterStep`
unless the poll said "cancelled"): whenever the translated body returns (`continue` / end of body: `Early.cont`; `break`:
`Early.ret`), the model's state after its loop body is represented by the final cells and loop state — generator, shared table,
polls, the events emitted so far (`eventOf`), node total, best evaluation, best move — its `finished` flag is `true` exactly for
`break`, and no panic is recorded.  The workers run one after the other (`SPrim.par_map_collect_result` = `runWorkers`).
Side conditions: `StateOK root`, key-table sizes, `HistRep`, `depth + 90 < 2^31`, the previous best move is a well-formed move
word, and the line walked from the root in the table the workers leave behind visits representable states and well-formed
stored moves (`WalkOK`, the side condition of stage 3c's `iter_moves_walkLine`). -/
theorem Searcher.analyze_iterative.iteration_refines (k : KeyTable) (ht : k.turn.size = 2) (he : k.epFile.size = 8)
    (hist : StateHistory) (l : List UInt64) (hh : HistRep hist l) (cancel : Option Nat)
    (root : Wee.State) (ok : StateOK root) (mtc : Option UInt64) (mnt : UInt64) (depth : UInt64) (hd : depth.toNat + 90 < 2 ^ 31)
    (ls : LS) (ic : IterCells) (st : IterSt) (hrep : IterRep ic ls st) (hnf : st.finished = false) (hnp : st.panic = none)
    (hbest : ∀ m, st.bestMv = some m → WFMove m)
    (hwalk : WalkOK k.keys (workersOut { keys := k.keys, history := l, cancelAt := cancel } root (workersOfGen mtc mnt depth) depth.toNat
        (boundaryPoll { keys := k.keys, history := l, cancelAt := cancel } depth.toNat st)).tt (depth.toNat + 1) root) :
    IterPost (iterBody { keys := k.keys, history := l, cancelAt := cancel } root (Wee.hash k.keys root) (workersOfGen mtc mnt depth) depth.toNat st)
      (Searcher.analyze_iterative.iteration (stateOf root) ⟨eval.EVALUATORS⟩ ⟨cancel⟩ (zobristOf k) hist (Wee.hash k.keys root) mtc mnt ls depth ic) := by
  unfold Searcher.analyze_iterative.iteration iterBody
  obtain ⟨ic1, hpoll, hrep1, hp1, hb1⟩ := boundary_poll_eq k.keys l cancel depth ls ic st hrep hnf
  rw [im_bind, hpoll]
  generalize boundaryPoll { keys := k.keys, history := l, cancelAt := cancel } depth.toNat st = st1 at *
  simp only []
  by_cases hfin : st1.finished = true
  · simp only [hfin, if_true, im_pure]
    exact ⟨hfin, hp1.trans hnp, hrep1⟩
  · simp only [hfin, if_false, Bool.false_eq_true]
    have hst1f : st1.finished = false := by cases h : st1.finished <;> simp_all
    have hst1p : st1.panic = none := hp1.trans hnp
    have hbest1 : ∀ m, st1.bestMv = some m → WFMove m := by rw [hb1]; exact hbest
    clear hpoll hfin hp1 hb1 hbest hrep hnf hnp
    -- the thread data
    unfold SPrim.range_map_collect
    simp only [bind_assoc, pure_bind]
    rw [im_bind]
    generalize hW' : (UInt64.toNat _ - UInt64.toNat 0) = W'
    have hW : W' = workersOfGen mtc mnt depth := by
      rw [← hW']; cases mtc <;> simp [workersOfGen]
    subst hW
    clear hW'
    have hWb : workersOfGen mtc mnt depth < 2 ^ 64 := by unfold workersOfGen; exact UInt64.toNat_lt _
    generalize workersOfGen mtc mnt depth = W at *
    generalize hg : SPrim.range_mapM (m := IM) _ W 0 ic1 = g
    have hseeds : (match (generalizing := false) g with
        | (.ok L, ic') => ic' = { ic1 with rng := (drawSeeds W ic1.rng).2 } ∧
            All2 (TDR (stateOf root) depth.toNat st1.bestMv) L ((List.range' (0 : UInt64).toNat W).zip (drawSeeds W ic1.rng).1)
        | (.error .interrupt, _) => False
        | (.error _, _) => True) := by
      subst hg
      refine range_mapM_seeds (stateOf root) depth.toNat st1.bestMv _ ?_ W 0 ic1 ?_
      · intro i c
        simp only [im_rng_gen_bind, im_liftP_bind]
        cases hadd : UInt64.checked_add (SPrim.usize_saturating_sub depth (i % 2)) 1 with
        | none => trivial
        | some d =>
          simp only [im_pure]
          refine ⟨by first | rfl | trivial, by first | rfl | trivial, by first | rfl | trivial, ?_, ?_⟩
          · show d.toNat = _
            rw [u64_add_some hadd, usize_saturating_sub_toNat, UInt64.toNat_mod]; rfl
          · show (if (i == 0) = true then ls.2.2 else none) = _
            rw [hrep1.bestMv, u64_beq_iff]
            simp
      · show (0 : UInt64).toNat + W < 2 ^ 64
        simpa using hWb
    obtain ⟨gr, ic2⟩ := g
    cases gr with
    | error e => cases e <;> first | exact hseeds.elim | exact True.intro
    | ok L =>
    obtain ⟨hic2, hL⟩ := hseeds
    simp only []
    rw [im_bind]
    generalize hg2 : SPrim.par_map_collect_result _ L ic2 = g2
    have hic2' : accessOf ic2.transpositions = st1.tt ∧ ic2.polls = st1.polls ∧ AccessWF ic2.transpositions := by
      rw [hic2]; exact ⟨hrep1.tt, hrep1.polls, hrep1.wf⟩
    have hwk : WorkersPost (runWorkers { keys := k.keys, history := l, cancelAt := cancel } root depth.toNat st1.bestMv
        ((List.range' (0 : UInt64).toNat W).zip (drawSeeds W ic1.rng).1) { tt := st1.tt, polls := st1.polls, evals := [], sumNodes := 0 })
        { tt := st1.tt, polls := st1.polls, evals := [], sumNodes := 0 } ic2 g2 := by
      subst hg2
      refine par_map_workersPost _ root depth.toNat st1.bestMv _ ?_ L _ hL ic2 _ rfl rfl hic2'.1 hic2'.2.1 hic2'.2.2
      intro td p c htd hwf
      obtain ⟨t1, t2, t3, t4⟩ := htd
      have hm := Evaluation.mate_in_ply_eq 0 (by decide)
      cases hmp : Evaluation.mate_in_ply 0 with
      | none => simp only [im_liftP_bind]
      | some pm =>
        have hpm : pm.toInt = Ev.mateInPly 0 := by rw [hmp] at hm; simpa using hm
        cases hng : Evaluation.neg pm with
        | none => simp only [hng, im_liftP_bind]
        | some nm =>
          have hnm : nm.toInt = - Ev.mateInPly 0 := by rw [Evaluation.neg_some hng, hpm]
          simp only [hng, im_liftP_bind]
          rw [im_bind]
          unfold IM.call_worker
          have hbw : ∀ m, (if p.1 == 0 then st1.bestMv else none) = some m → WFMove m := by
            intro m hmv; split at hmv
            · exact hbest1 m hmv
            · cases hmv
          have hr := Searcher.analyze_recursive_runWorker k ht he hist l hh cancel (SPrim.analyze_fuel td.f_search_depth) root ok
            td.f_search_depth (by rw [t3]; omega) nm pm hpm hnm (if p.1 == 0 then st1.bestMv else none) hbw #[]
            { nodes_searched := 0, rng := td.f_rng, transpositions := c.transpositions, polls := c.polls }
            (accessOf c.transpositions) (Rng.seedFromU64 p.2) c.polls ⟨rfl, t1, rfl, rfl, hwf⟩
          rw [t3] at hr
          rw [t2, t4]
          generalize Searcher.analyze_recursive _ _ _ _ _ _ _ _ _ _ _ _ _ _ = out at hr ⊢
          generalize runWorker _ _ _ _ _ _ _ = mo at hr ⊢
          obtain ⟨o1, c'⟩ := out
          obtain ⟨m1, st'⟩ := mo
          cases o1 with
          | error e =>
            cases e with
            | interrupt =>
              obtain ⟨e1, e2⟩ := hr
              simp only at e1 e2
              subst e1
              exact ⟨st', rfl, e2.tt, e2.polls, e2.wf, rfl, rfl⟩
            | panic => trivial
            | out_of_fuel => trivial
          | ok v =>
            obtain ⟨w, e1, e2, e3⟩ := hr
            simp only at e1 e3
            subst e1
            have e2' : v.1.toInt = w := e2
            refine ⟨st', by rw [← e2'], e3.nodes, e3.tt, e3.polls, e3.wf, rfl, rfl⟩
    have hw_eq : runWorkers { keys := k.keys, history := l, cancelAt := cancel } root depth.toNat st1.bestMv
        ((List.range' (0 : UInt64).toNat W).zip (drawSeeds W ic1.rng).1) { tt := st1.tt, polls := st1.polls, evals := [], sumNodes := 0 }
        = workersOut { keys := k.keys, history := l, cancelAt := cancel } root W depth.toNat st1 := by
      unfold workersOut; rw [hrep1.rng, List.range_eq_range']; rfl
    rw [hw_eq] at hwk
    clear hw_eq hg2 hg hL
    obtain ⟨gr2, ic3⟩ := g2
    cases gr2 with
    | error e => cases e <;> first | exact hwk.elim | exact True.intro
    | ok res =>
    have hrng2 : ic2.rng = (drawSeeds W st1.rng).2 := by rw [hic2, hrep1.rng]
    have hev2 : ic2.events = ic1.events := by rw [hic2]
    cases res with
    | Err =>
      obtain ⟨w1, w2, w5, w6, w7, w8, w9⟩ := hwk
      rw [iterStep_interrupt _ _ _ _ _ _ w2 w1]
      simp only [SResult.map, im_read_tt_bind]
      generalize workersOut { keys := k.keys, history := l, cancelAt := cancel } root W depth.toNat st1 = w at *
      have hev3 : ic3.events.map eventOf = st1.events := by rw [w9, hev2]; exact hrep1.events
      refine iterPost_liftP_bind (fun fr hfr => ?_)
      have hfm := TranspositionTableAccess.find_some _ _ w7 fr hfr
      rw [w5] at hfm
      rw [← hfm]
      cases fr with
      | none =>
        exact ⟨rfl, hst1p, ⟨w8.trans hrng2, w5, w7, w6, hev3, hrep1.nodes, hrep1.bestEval, hrep1.bestMv⟩⟩
      | some x =>
        have hgt : decide (x.f_evaluation > ls.2.1) = decide (x.f_evaluation.toInt > st1.bestEval) := by
          rw [← hrep1.bestEval]; exact decide_eq_decide.2 Int32.lt_iff_toInt_lt
        simp only [Option.map_some, entryOf, hgt]
        by_cases c : x.f_evaluation.toInt > st1.bestEval
        · simp only [c, decide_true, if_true, im_read_tt_bind]
          obtain ⟨items, hit, hmap⟩ := TranspositionTableAccess.iter_moves_walkLine k ht he ic3.transpositions w7 depth (by omega) root
            (by rw [w5]; exact hwalk)
          rw [w5] at hmap
          rw [hit, im_liftP_bind]
          simp only [hmap]
          have hemp : (walkLine k.keys w.tt (depth.toNat + 1) root).toArray.isEmpty = (walkLine k.keys w.tt (depth.toNat + 1) root).isEmpty := by
            cases walkLine k.keys w.tt (depth.toNat + 1) root <;> rfl
          rw [hemp]
          by_cases cl : (walkLine k.keys w.tt (depth.toNat + 1) root).isEmpty = true
          · simp only [cl, Bool.not_true, Bool.false_eq_true, if_false, if_true, im_pure]
            exact ⟨rfl, hst1p, ⟨w8.trans hrng2, w5, w7, w6, hev3, hrep1.nodes, hrep1.bestEval, hrep1.bestMv⟩⟩
          · simp only [cl, Bool.not_false, Bool.false_eq_true, if_false, if_true, im_emit_bind, im_pure]
            refine ⟨rfl, hst1p, ⟨w8.trans hrng2, w5, w7, w6, ?_, hrep1.nodes, hrep1.bestEval, hrep1.bestMv⟩⟩
            show (ic3.events ++ [_]).map eventOf = _
            rw [List.map_append, hev3]
            rfl
        · simp only [c, decide_false, if_false, Bool.false_eq_true, im_pure]
          exact ⟨rfl, hst1p, ⟨w8.trans hrng2, w5, w7, w6, hev3, hrep1.nodes, hrep1.bestEval, hrep1.bestMv⟩⟩
    | Ok rs =>
      obtain ⟨w1, w2, w3, w4, w5, w6, w7, w8, w9⟩ := hwk
      rw [iterStep_ok _ _ _ _ _ _ w2 w1]
      simp only [SResult.map]
      generalize workersOut { keys := k.keys, history := l, cancelAt := cancel } root W depth.toNat st1 = w at *
      have hev3 : ic3.events.map eventOf = st1.events := by rw [w9, hev2]; exact hrep1.events
      simp only [List.nil_append] at w3
      simp only [Nat.zero_add] at w4
      refine iterPost_liftP_bind (fun sum hsum => ?_)
      have hsum' := usize_sum_some hsum
      refine iterPost_liftP_bind (fun n2 hn2 => ?_)
      have hn2' := u64_add_some hn2
      refine iterPost_liftP_bind (fun be hbe => ?_)
      have hbe' := iter_max_some hbe st1.bestEval
      refine iterPost_liftP_bind (fun d1 hd1 => ?_)
      have hd1' := u64_add_some hd1
      rw [im_read_tt_bind]
      refine iterPost_liftP_bind (fun sat hsat => ?_)
      rw [im_emit_bind, im_read_tt_bind]
      obtain ⟨items, hit, hmap⟩ := TranspositionTableAccess.iter_moves_walkLine k ht he ic3.transpositions w7 depth (by omega) root
        (by rw [w5]; exact hwalk)
      rw [w5] at hmap
      show IterPost _ ((IM.liftP (iter_collect TranspositionTableMoveIterator.next (depth.toNat + 2)
        (TranspositionTableAccess.iter_moves ic3.transpositions (zobristOf k) (stateOf root) depth)) >>= _) _)
      rw [hit, im_liftP_bind]
      simp only [hmap]
      have hnodes : n2.toNat = st1.nodes + w.sumNodes := by
        rw [hn2', hsum', w4, hrep1.nodes]
        simp [List.map_map, Function.comp_def]
      have hbest : be.toInt = (bestOf w.evals st1.bestEval) := by
        rw [hbe', w3]
        simp only [List.map_map, Function.comp_def]
      have hdep : d1.toUInt32.toNat = depth.toNat + 1 := by
        rw [UInt64.toNat_toUInt32, hd1']
        have : (1 : UInt64).toNat = 1 := rfl
        rw [this, Nat.mod_eq_of_lt (by omega)]
      have hev4 : (ic3.events ++ [StatusEvent.Progress d1.toUInt32 n2 sat]).map eventOf
          = st1.events ++ [Event.progress (depth.toNat + 1) (st1.nodes + w.sumNodes)] := by
        rw [List.map_append, hev3]
        simp only [List.map_cons, List.map_nil, eventOf, hdep, hnodes]
      generalize hline : walkLine k.keys w.tt (depth.toNat + 1) root = line at *
      have hemp : line.toArray.isEmpty = line.isEmpty := by cases line <;> rfl
      have hhead : line.toArray[0]? = line.head? := by cases line <;> rfl
      rw [hemp, hhead]
      by_cases cl : line.isEmpty = true
      · simp only [cl, if_true, im_pure]
        have hh : line.head? = none := by cases line with | nil => rfl | cons a b => cases cl
        rw [hh]
        refine ⟨hst1f, hst1p, ⟨w8.trans hrng2, w5, w7, w6, hev4, hnodes, hbest, rfl⟩, ?_⟩
        intro m hm; cases hm
      · simp only [cl, if_false, Bool.false_eq_true]
        refine iterPost_liftP_bind (fun t19 ht19 => ?_)
        have ht : t19 = true := by
          cases hf : List.foldlM (fun (game_state : State) (mv : Move) => do
              let r ← State.by_performing_move game_state mv
              unwrap r) (stateOf root) line with
          | none => rw [hf] at ht19; cases ht19
          | some g => rw [hf] at ht19; cases ht19; rfl
        subst ht
        refine iterPost_liftP_bind (fun u _ => ?_)
        rw [im_emit_bind]
        have hge : decide (be ≥ Evaluation.POS_INF) = decide (be.toInt ≥ Ev.posInf) := by
          rw [← Evaluation.consts_eq.2.1]; exact decide_eq_decide.2 Int32.le_iff_toInt_le
        rw [hge, hbest]
        have hev5 : (ic3.events ++ [StatusEvent.Progress d1.toUInt32 n2 sat] ++ [StatusEvent.BestMove be line.toArray]).map eventOf
            = st1.events ++ [Event.progress (depth.toNat + 1) (st1.nodes + w.sumNodes)] ++
              [Event.best (bestOf w.evals st1.bestEval) line] := by
          rw [List.map_append, hev4]
          simp only [List.map_cons, List.map_nil, eventOf, hbest]
        have hwfm : ∀ m, line.head? = some m → WFMove m := by
          intro m hm
          rw [← hline] at hm
          exact walkLine_head_wf k.keys w.tt depth.toNat root hwalk m hm
        by_cases cf : (bestOf w.evals st1.bestEval) ≥ Ev.posInf
        · simp only [cf, decide_true, if_true, im_pure]
          exact ⟨rfl, hst1p, ⟨w8.trans hrng2, w5, w7, w6, hev5, hnodes, hbest, rfl⟩⟩
        · simp only [cf, decide_false, if_false, Bool.false_eq_true, im_pure]
          exact ⟨rfl, hst1p, ⟨w8.trans hrng2, w5, w7, w6, hev5, hnodes, hbest, rfl⟩, hwfm⟩

/-! ## the loop -/

theorem iterLoop_succ_body (ctx : Ctx) (root : Wee.State) (rootHash : UInt64) (workersOf : Nat → Nat) (n depth : Nat) (st : IterSt)
    (h : st.finished = false) :
    iterLoop ctx root rootHash workersOf (n + 1) depth st
      = iterLoop ctx root rootHash workersOf n (depth + 1) (iterBody ctx root rootHash (workersOf depth) depth st) := by
  rw [iterLoop]
  simp only [h, Bool.false_eq_true, if_false]
  unfold iterBody
  by_cases hb : (boundaryPoll ctx depth st).finished = true
  · simp only [hb, if_true]
    rw [iterLoop_finished _ _ _ _ _ _ _ hb]
  · simp only [hb, if_false, Bool.false_eq_true]

/-- what a run of the generated loop promises about the model's final state -/
def LoopPost (st' : IterSt) (out : Except SearchStop (Early LS LS) × IterCells) : Prop :=
  match out with
  | (.ok (.cont ls'), ic') => st'.panic = none ∧ IterRep ic' ls' st'
  | (.ok (.ret ls'), ic') => st'.panic = none ∧ IterRep ic' ls' st'
  | (.error .interrupt, _) => False
  | (.error _, _) => True

/-- **the loop `for depth in i..` of `analyze_iterative` refines the model's `iterLoop`**, for any invariant `Inv` of the model's
states that provides the side condition of the line walk -/
theorem for_range_iterLoop (k : KeyTable) (ht : k.turn.size = 2) (he : k.epFile.size = 8)
    (hist : StateHistory) (l : List UInt64) (hh : HistRep hist l) (cancel : Option Nat)
    (root : Wee.State) (ok : StateOK root) (mtc : Option UInt64) (mnt : UInt64)
    (Inv : Nat → IterSt → Prop)
    (hstep : ∀ d st, Inv d st → st.finished = false → st.panic = none →
      Inv (d + 1) (iterBody { keys := k.keys, history := l, cancelAt := cancel } root (Wee.hash k.keys root) (workersOfGen mtc mnt d.toUInt64) d st))
    (hwalk : ∀ d st, Inv d st → st.finished = false → st.panic = none →
      WalkOK k.keys (workersOut { keys := k.keys, history := l, cancelAt := cancel } root (workersOfGen mtc mnt d.toUInt64) d
        (boundaryPoll { keys := k.keys, history := l, cancelAt := cancel } d st)).tt (d + 1) root) :
    ∀ (n : Nat) (i : UInt64) (ls : LS) (ic : IterCells) (st : IterSt), i.toNat + n + 90 < 2 ^ 31 → IterRep ic ls st →
      st.finished = false → st.panic = none → (∀ m, st.bestMv = some m → WFMove m) → Inv i.toNat st →
      LoopPost (iterLoop { keys := k.keys, history := l, cancelAt := cancel } root (Wee.hash k.keys root)
          (fun d => workersOfGen mtc mnt d.toUInt64) n i.toNat st)
        (SPrim.for_range_early (m := IM) (Searcher.analyze_iterative.iteration (stateOf root) ⟨eval.EVALUATORS⟩ ⟨cancel⟩ (zobristOf k) hist
          (Wee.hash k.keys root) mtc mnt) n i ls ic) := by
  intro n
  induction n with
  | zero =>
    intro i ls ic st _ hrep _ hnp _ _
    simp only [SPrim.for_range_early, iterLoop, im_pure]
    exact ⟨hnp, hrep⟩
  | succ n ih =>
    intro i ls ic st hb hrep hnf hnp hbest hinv
    have hiu : i.toNat.toUInt64 = i := by simp
    rw [iterLoop_succ_body _ _ _ _ _ _ _ hnf]
    simp only [SPrim.for_range_early]
    rw [im_bind]
    have h1 := Searcher.analyze_iterative.iteration_refines k ht he hist l hh cancel root ok mtc mnt i (by omega) ls ic st hrep hnf hnp hbest
      (by have := hwalk i.toNat st hinv hnf hnp; rw [hiu] at this; exact this)
    have hinv' := hstep i.toNat st hinv hnf hnp
    rw [hiu] at hinv' ⊢
    generalize iterBody _ root _ _ i.toNat st = st' at h1 hinv' ⊢
    generalize Searcher.analyze_iterative.iteration _ _ _ _ _ _ _ _ ls i ic = out at h1 ⊢
    obtain ⟨o, ic'⟩ := out
    cases o with
    | error e => cases e <;> first | exact h1.elim | exact True.intro
    | ok e =>
      cases e with
      | ret ls' =>
        obtain ⟨hf, hp, hr⟩ := h1
        simp only [im_pure]
        rw [iterLoop_finished _ _ _ _ _ _ _ hf]
        exact ⟨hp, hr⟩
      | cont ls' =>
        obtain ⟨hf, hp, hr, hbw⟩ := h1
        simp only []
        have hi1 : (i + 1).toNat = i.toNat + 1 := by
          rw [UInt64.toNat_add, Nat.mod_eq_of_lt (by simp; omega)]; rfl
        have := ih (i + 1) ls' ic' st' (by omega) hr hf hp hbw (by rw [hi1]; exact hinv')
        rw [hi1] at this
        exact this

/-- **the `for` statement of `Searcher::analyze_iterative` refines the model's `iterLoop`** (from depth 0, `max_depth` iterations
at most): whenever the translated loop returns, the model's final loop state is the one represented by the final cells and loop
state (generator, table, polls, the emitted events through `eventOf`, node total, best evaluation, best move), with no panic
recorded. -/
theorem Searcher.analyze_iterative.loop_refines (k : KeyTable) (ht : k.turn.size = 2) (he : k.epFile.size = 8)
    (hist : StateHistory) (l : List UInt64) (hh : HistRep hist l) (cancel : Option Nat)
    (root : Wee.State) (ok : StateOK root) (mtc : Option UInt64) (mnt : UInt64)
    (Inv : Nat → IterSt → Prop)
    (hstep : ∀ d st, Inv d st → st.finished = false → st.panic = none →
      Inv (d + 1) (iterBody { keys := k.keys, history := l, cancelAt := cancel } root (Wee.hash k.keys root) (workersOfGen mtc mnt d.toUInt64) d st))
    (hwalk : ∀ d st, Inv d st → st.finished = false → st.panic = none →
      WalkOK k.keys (workersOut { keys := k.keys, history := l, cancelAt := cancel } root (workersOfGen mtc mnt d.toUInt64) d
        (boundaryPoll { keys := k.keys, history := l, cancelAt := cancel } d st)).tt (d + 1) root)
    (maxD : UInt64) (hmd : maxD.toNat + 90 < 2 ^ 31) (ls : LS) (ic : IterCells) (st : IterSt) (hrep : IterRep ic ls st)
    (hnf : st.finished = false) (hnp : st.panic = none) (hbest : ∀ m, st.bestMv = some m → WFMove m) (hinv : Inv 0 st) :
    match Searcher.analyze_iterative.loop (stateOf root) ⟨eval.EVALUATORS⟩ ⟨cancel⟩ (zobristOf k) hist (Wee.hash k.keys root) mtc mnt maxD ls ic with
    | (.ok ls', ic') =>
      (iterLoop { keys := k.keys, history := l, cancelAt := cancel } root (Wee.hash k.keys root)
        (fun d => workersOfGen mtc mnt d.toUInt64) maxD.toNat 0 st).panic = none ∧
      IterRep ic' ls' (iterLoop { keys := k.keys, history := l, cancelAt := cancel } root (Wee.hash k.keys root)
        (fun d => workersOfGen mtc mnt d.toUInt64) maxD.toNat 0 st)
    | (.error .interrupt, _) => False
    | (.error _, _) => True := by
  unfold Searcher.analyze_iterative.loop
  rw [im_bind]
  have h := for_range_iterLoop k ht he hist l hh cancel root ok mtc mnt Inv hstep hwalk maxD.toNat 0 ls ic st
    (by show (0 : UInt64).toNat + maxD.toNat + 90 < 2 ^ 31; simp; omega) hrep hnf hnp hbest hinv
  have h0 : maxD.toNat - (0 : UInt64).toNat = maxD.toNat := by simp
  have h00 : (0 : UInt64).toNat = 0 := rfl
  rw [h0]
  rw [h00] at h
  generalize iterLoop _ root _ _ maxD.toNat 0 st = st' at h ⊢
  generalize SPrim.for_range_early (m := IM) _ maxD.toNat 0 ls ic = out at h ⊢
  obtain ⟨o, ic'⟩ := out
  cases o with
  | error e => cases e <;> first | exact h.elim | exact True.intro
  | ok e => cases e <;> exact h

/-- the same from the start of a search: fresh loop state `(0, NEG_INF, None)`, no event yet, the poll counter at 0 — against
the model's `iterLoop` from `SearchCtl.iterInit` (the loop of `iterate`) -/
theorem Searcher.analyze_iterative.loop_refines_init (k : KeyTable) (ht : k.turn.size = 2) (he : k.epFile.size = 8)
    (hist : StateHistory) (l : List UInt64) (hh : HistRep hist l) (cancel : Option Nat)
    (root : Wee.State) (ok : StateOK root) (mtc : Option UInt64) (mnt : UInt64)
    (Inv : Nat → IterSt → Prop)
    (hstep : ∀ d st, Inv d st → st.finished = false → st.panic = none →
      Inv (d + 1) (iterBody { keys := k.keys, history := l, cancelAt := cancel } root (Wee.hash k.keys root) (workersOfGen mtc mnt d.toUInt64) d st))
    (hwalk : ∀ d st, Inv d st → st.finished = false → st.panic = none →
      WalkOK k.keys (workersOut { keys := k.keys, history := l, cancelAt := cancel } root (workersOfGen mtc mnt d.toUInt64) d
        (boundaryPoll { keys := k.keys, history := l, cancelAt := cancel } d st)).tt (d + 1) root)
    (maxD : UInt64) (hmd : maxD.toNat + 90 < 2 ^ 31) (rng0 : Rng.ChaCha8) (a : TranspositionTableAccess) (wf : AccessWF a)
    (hinv : Inv 0 (iterInit rng0 { keys := k, tt := accessOf a, history := [] })) :
    match Searcher.analyze_iterative.loop (stateOf root) ⟨eval.EVALUATORS⟩ ⟨cancel⟩ (zobristOf k) hist (Wee.hash k.keys root) mtc mnt maxD
        ((0 : UInt64), Evaluation.NEG_INF, none) { rng := rng0, transpositions := a, polls := 0, events := [] } with
    | (.ok ls', ic') =>
      (iterLoop { keys := k.keys, history := l, cancelAt := cancel } root (Wee.hash k.keys root)
        (fun d => workersOfGen mtc mnt d.toUInt64) maxD.toNat 0 (iterInit rng0 { keys := k, tt := accessOf a, history := [] })).panic = none ∧
      IterRep ic' ls' (iterLoop { keys := k.keys, history := l, cancelAt := cancel } root (Wee.hash k.keys root)
        (fun d => workersOfGen mtc mnt d.toUInt64) maxD.toNat 0 (iterInit rng0 { keys := k, tt := accessOf a, history := [] }))
    | (.error .interrupt, _) => False
    | (.error _, _) => True :=
  Searcher.analyze_iterative.loop_refines k ht he hist l hh cancel root ok mtc mnt Inv hstep hwalk maxD hmd _ _ _
    ⟨rfl, rfl, wf, rfl, rfl, rfl, Evaluation.consts_eq.2.2.1, rfl⟩ rfl rfl (by intro m h; cases h) hinv

end GenFns
end Wee
