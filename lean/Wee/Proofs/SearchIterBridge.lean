import Wee.Proofs.SearchFnsBridge2
/-!
# Bridge, stage 4c: the iterative-deepening loop translated from `Searcher::analyze_iterative` (`Wee/Gen/SearchFns.lean`,
`Searcher.analyze_iterative.iteration` / `.loop`) REFINES the model's `boundaryPoll` / `iterStep` / `iterLoop`
(`Wee/Model/Search.lean`)

The workers of one iteration run one after the other (`SPrim.par_map_collect_result`: the trusted reading of the rayon
`into_par_iter().map(..).collect()` as ONE admissible schedule) — this is the model's `runWorkers`.  The calls of the callback
`f` are the list `IterCells.events`, read through `eventOf` as the model's `Event`s.  Form of the theorems: "when it returns" —
a panic of the generated code (debug profile) or exhausted fuel promises nothing.
-/
namespace Wee
namespace GenFns
open Wee.Search Wee.SearchCtl

/-! ## the `IM` monad -/

theorem im_bind {α β : Type} (x : IM α) (f : α → IM β) (c : IterCells) :
    (x >>= f) c = match x c with | (.ok a, c') => f a c' | (.error e, c') => (.error e, c') := rfl
theorem im_pure_bind {α β : Type} (a : α) (f : α → IM β) (c : IterCells) : ((pure a : IM α) >>= f) c = f a c := rfl
theorem im_pure {α : Type} (a : α) (c : IterCells) : (pure a : IM α) c = (.ok a, c) := rfl
theorem im_liftP_bind {α β : Type} (p : Panics α) (f : α → IM β) (c : IterCells) :
    (IM.liftP p >>= f) c = match p with | none => (.error .panic, c) | some a => f a c := by cases p <;> rfl
theorem im_read_tt_bind {β : Type} (f : TranspositionTableAccess → IM β) (c : IterCells) :
    (IM.read_transpositions >>= f) c = f c.transpositions c := rfl
theorem im_emit_bind {β : Type} (e : StatusEvent) (f : Unit → IM β) (c : IterCells) :
    (IM.emit e >>= f) c = f () { c with events := c.events ++ [e] } := rfl
theorem im_is_cancelled_bind {β : Type} (t : CancellationToken) (f : Bool → IM β) (c : IterCells) :
    (IM.is_cancelled t >>= f) c
      = f (match t.cancel_at with | some k => decide (c.polls ≥ k) | none => false) { c with polls := c.polls + 1 } := rfl
theorem im_rng_gen_bind {β : Type} (f : UInt64 → IM β) (c : IterCells) :
    (IM.rng_gen_u64 >>= f) c = f (Rng.nextU64 c.rng).1 { c with rng := (Rng.nextU64 c.rng).2 } := rfl

instance : LawfulMonad IM := LawfulMonad.mk'
  (id_map := by
    intro α x
    funext c
    show (match x c with | (.ok a, c') => (pure (id a) : IM α) c' | (.error e, c') => (.error e, c')) = x c
    generalize x c = r
    obtain ⟨r, c'⟩ := r
    cases r <;> rfl)
  (pure_bind := by intro α β a f; rfl)
  (bind_assoc := by
    intro α β γ x f g
    funext c
    show (match (match x c with | (.ok a, c') => f a c' | (.error e, c') => (.error e, c')) with
          | (.ok b, c') => g b c' | (.error e, c') => (.error e, c'))
      = (match x c with | (.ok a, c') => (f a >>= g) c' | (.error e, c') => (.error e, c'))
    generalize x c = r
    obtain ⟨r, c'⟩ := r
    cases r <;> rfl)

/-! ## representation -/

/-- a call of the callback, read as the model's event (the saturation of a progress report is not modelled) -/
def eventOf : StatusEvent → Event
  | .BestMove e line => .best e.toInt line.toList
  | .Progress d n _ => .progress d.toNat n.toNat

/-- the cells of the loop and its state `(nodes_searched, best_eval, best_mv)` represent the model's `IterSt` (flags apart) -/
structure IterRep (ic : IterCells) (ls : UInt64 × Evaluation × Option Move) (st : IterSt) : Prop where
  rng : ic.rng = st.rng
  tt : accessOf ic.transpositions = st.tt
  wf : AccessWF ic.transpositions
  polls : ic.polls = st.polls
  events : ic.events.map eventOf = st.events
  nodes : ls.1.toNat = st.nodes
  bestEval : ls.2.1.toInt = st.bestEval
  bestMv : ls.2.2 = st.bestMv

end GenFns
end Wee
