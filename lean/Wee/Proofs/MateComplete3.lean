import Wee.Proofs.MateComplete2
/-!
# C06 completeness, part 3: any number of workers per iteration (run one after the other)

The model runs the workers of an iteration sequentially on the shared table.  Only "some report is winning, and it is
the last one" is shown; the pairing of the reported evaluation with the reported first move is NOT claimed for several
workers (see `C06_report_pairing_partial`).

Key facts: the entries under the root's key are written by root calls only, so they are `Exact` entries or the
`LowerBound` entry of a root cut-off (value `beta = mate_in_ply(0)`); a root call that finds such an entry with at least
its own remaining depth returns at once and leaves the table unchanged; a root call that returns a winning value
leaves an entry with at least its remaining depth.  Hence, in the iteration whose depth reaches the visible mate
distance, worker 0 leaves a winning root entry with remaining depth `depth + 1` and every later worker (search depth
`depth` or `depth + 1`) returns from the probe without touching the table.
-/
namespace Wee.C06
open Wee Wee.Search Wee.Outcome

/-! ## 1. the kinds of the entries under the root's key -/

/-- an entry written by a root call: the final `Exact` store, or the `LowerBound` store of a cut-off at
`beta = mate_in_ply(0) = 11000` -/
def RootKind (x : TT.Entry) : Prop := x.kind = kindExact ∨ (x.kind = kindLower ∧ 11000 ≤ x.eval)

/-- invariant of `best_move` / `evaluation_type` in the move loop -/
def KLoopInv (α₀ alpha : Eval) (best : Option Move) (kind : Nat) : Prop :=
  (best = Option.none → alpha = α₀) ∧ (best ≠ Option.none → kind = kindExact)

/-- after a root call with remaining depth `sd`, started with the entry `x0` under the root's key -/
def RootPostK (L nT nB : Nat) (k0 sd : Nat) (x0 : Option TT.Entry) (r : Eval) (st' : St) : Prop :=
  TT.AInv L nT nB st'.tt ∧ (∀ x, st'.tt.find k0 = some x → RootKind x) ∧
  (10000 ≤ r → ∃ x, st'.tt.find k0 = some x ∧ sd ≤ x.maxDepth - x.depth) ∧
  ((∃ x, x0 = some x ∧ sd ≤ x.maxDepth - x.depth) → st'.tt.find k0 = x0)

section rootK
variable {L nT nB k0 : Nat} (g : Geo L nT nB)
include g

theorem childLoop_rootK {x0 : Option TT.Entry} (ctx : Ctx) (child : NodeArgs → M Eval) (a : NodeArgs) (hash : UInt64)
    (hk : hash.toNat = k0) (α₀ : Eval)
    (hchild : ∀ args : NodeArgs, 0 < args.curDepth → Holds (Frame L nT nB k0 x0) (child args) (fun _ => True)) :
    ∀ (l : List Move) (alpha : Eval) (best : Option Move) (kind : Nat), KLoopInv α₀ alpha best kind →
      Triple (Frame L nT nB k0 x0) (childLoop ctx child a hash l alpha best kind) (fun res st' =>
        match res with
        | .error _ => TT.AInv L nT nB st'.tt ∧ ∃ x, st'.tt.find k0 = some x ∧ x.maxDepth = a.maxDepth ∧
            x.depth = a.curDepth ∧ x.kind = kindLower ∧ x.eval = a.beta
        | .ok (alpha', best', kind') => Frame L nT nB k0 x0 st' ∧ KLoopInv α₀ alpha' best' kind') := by
  intro l
  induction l with
  | nil =>
    intro alpha best kind hb
    rw [childLoop.eq_1]
    exact Triple.pure fun st hp => ⟨hp, hb⟩
  | cons mv rest ih =>
    intro alpha best kind hb
    rw [childLoop.eq_2]
    cases ht : tryAsLegal a.s mv with
    | none => exact Triple.throw
    | some o =>
      cases o with
      | none => exact ih alpha best kind hb
      | some mn =>
        obtain ⟨mm, next⟩ := mn
        simp only
        refine Triple.bind (Triple.of_holds (hchild _ (by show 0 < a.curDepth + 1 + _; omega))) fun v => ?_
        split
        · refine Triple.bind (R := fun _ st' => TT.AInv L nT nB st'.tt ∧ ∃ x, st'.tt.find k0 = some x ∧
              x.maxDepth = a.maxDepth ∧ x.depth = a.curDepth ∧ x.kind = kindLower ∧ x.eval = a.beta)
            (Triple.modify fun st hp => ⟨hp.1.1.insert g.hL g.hT g.hB _ _,
              { kind := kindLower, mv := mm.toNat, depth := a.curDepth, maxDepth := a.maxDepth, eval := a.beta },
              ?_, rfl, rfl, rfl, rfl⟩)
            fun _ => Triple.pure fun st hp => hp
          rw [hk]
          exact hp.1.1.find_insert_self g.hL g.hT g.hB _ _
        · split
          · exact (ih (-v) (some mm) kindExact ⟨fun h => (nomatch h), fun _ => rfl⟩).conseq
              (fun st hp => hp.1) fun _ _ h => h
          · exact (ih _ _ _ hb).conseq (fun st hp => hp.1) fun _ _ h => h

theorem tail_rootK {x0 : Option TT.Entry} (ctx : Ctx) (a : NodeArgs) (hash : UInt64) (alpha beta : Eval)
    (hk : hash.toNat = k0) (hα : alpha < 10000) (hβ : 11000 ≤ beta)
    (hx0 : ∀ e, x0 = some e → RootKind e ∧ e.maxDepth - e.depth < a.maxDepth - a.curDepth)
    (child : NodeArgs → M Eval)
    (hchild : ∀ args : NodeArgs, 0 < args.curDepth → Holds (Frame L nT nB k0 x0) (child args) (fun _ => True)) :
    Triple (Frame L nT nB k0 x0) (tail ctx a hash alpha beta (some child))
      (RootPostK L nT nB k0 (a.maxDepth - a.curDepth) x0) := by
  have hno : ¬ ∃ x, x0 = some x ∧ a.maxDepth - a.curDepth ≤ x.maxDepth - x.depth := by
    rintro ⟨x, hx, hR⟩
    have := (hx0 x hx).2
    omega
  have hframe : ∀ st, Frame L nT nB k0 x0 st → ∀ x, st.tt.find k0 = some x → RootKind x := by
    intro st h x hx
    rcases h.2 with h1 | h1
    · rw [h1] at hx; cases hx
    · rw [h1] at hx; exact (hx0 x hx).1
  unfold tail
  cases pseudoLegalMoves a.s with
  | none => exact Triple.throw
  | some ps =>
    simp only
    refine Triple.bind (Triple.of_holds (sort_holds _ _ fun x => Holds.bind
      (jitter_holds fun st r (hi : Frame L nT nB k0 x0 st) => hi) fun _ _ => pureT)) fun sorted => ?_
    refine Triple.bind (R := fun _ st' => Frame L nT nB k0 x0 st') (Triple.get fun st hp => hp.1) fun st0 => ?_
    refine Triple.bind (childLoop_rootK g ctx child { a with alpha := alpha, beta := beta } hash hk alpha hchild _ alpha
      Option.none kindUpper ⟨fun _ => rfl, fun h => absurd rfl h⟩) fun res => ?_
    rcases res with b | ⟨alpha', best, kind⟩
    · refine Triple.pure fun st hp => ?_
      obtain ⟨h1, x, h2, h3, h4, h5, h6⟩ := hp
      refine ⟨h1, fun x' hx' => ?_, fun _ => ⟨x, h2, ?_⟩, fun h => absurd h hno⟩
      · rw [h2] at hx'
        cases hx'
        right
        refine ⟨h5, ?_⟩
        have e1 : x.eval = beta := h6
        rw [e1]; exact hβ
      · have e1 : x.maxDepth = a.maxDepth := h3
        have e2 : x.depth = a.curDepth := h4
        omega
    · simp only
      refine Triple.bind (R := fun _ st' => Frame L nT nB k0 x0 st' ∧ KLoopInv alpha alpha' best kind)
        (Triple.get fun st hp => hp) fun st1 => ?_
      by_cases hn : (st1.nodes == st0.nodes) = true
      · rw [if_pos hn]
        cases he : evaluate a.s a.s.turn a.curDepth with
        | none => exact triple_throw_bind
        | some e =>
          simp only
          refine Triple.pure fun st hp => ⟨hp.1.1, hframe st hp.1, fun h => ?_, fun h => absurd h hno⟩
          have := static_lt he
          exfalso; eomega
      · rw [if_neg hn]
        cases best with
        | none =>
          refine Triple.pure fun st hp => ⟨hp.1.1, hframe st hp.1, fun h => ?_, fun h => absurd h hno⟩
          rw [hp.2.1 rfl] at h
          exfalso; eomega
        | some mm =>
          simp only
          refine Triple.bind (R := fun _ st' => RootPostK L nT nB k0 (a.maxDepth - a.curDepth) x0 alpha' st')
            (Triple.modify fun st hp => ?_) fun _ => Triple.pure fun st hp => hp
          have hfind : (st.tt.insert hash.toNat
              { kind := kind, mv := mm.toNat, depth := a.curDepth, maxDepth := a.maxDepth, eval := alpha' }).find k0 =
              some { kind := kind, mv := mm.toNat, depth := a.curDepth, maxDepth := a.maxDepth, eval := alpha' } := by
            rw [hk]
            exact hp.1.1.find_insert_self g.hL g.hT g.hB _ _
          refine ⟨hp.1.1.insert g.hL g.hT g.hB _ _, fun x hx => ?_, fun _ => ⟨_, hfind, Nat.le_refl _⟩,
            fun h => absurd h hno⟩
          rw [hfind] at hx
          cases hx
          exact Or.inl (hp.2.2 (fun h => nomatch h))

theorem probe_rootK (ctx : Ctx) (a : NodeArgs) (hash : UInt64) (hk : hash.toNat = k0)
    (hα : a.alpha < 10000) (hβ : a.beta = 11000) (x0 : Option TT.Entry) (child : NodeArgs → M Eval)
    (hchild : ∀ (x0 : Option TT.Entry) (args : NodeArgs), 0 < args.curDepth →
      Holds (Frame L nT nB k0 x0) (child args) (fun _ => True)) :
    Triple (fun st => TT.AInv L nT nB st.tt ∧ st.tt.find k0 = x0 ∧ ∀ x, x0 = some x → RootKind x)
      (probe ctx a hash (some child)) (RootPostK L nT nB k0 (a.maxDepth - a.curDepth) x0) := by
  unfold probe
  refine Triple.bind (R := fun s st' => st' = s ∧ (TT.AInv L nT nB s.tt ∧ s.tt.find k0 = x0 ∧
      ∀ x, x0 = some x → RootKind x)) (Triple.get fun st hp => ⟨rfl, hp⟩) fun st => ?_
  refine Triple.pre_pure (φ := TT.AInv L nT nB st.tt ∧ st.tt.find k0 = x0 ∧ ∀ x, x0 = some x → RootKind x)
    (fun _ hp => hp.2) fun hst => ?_
  obtain ⟨hA, hfx, hkind⟩ := hst
  have htail : (∀ e, x0 = some e → e.maxDepth - e.depth < a.maxDepth - a.curDepth) →
      Triple (fun st' => st' = st ∧ (TT.AInv L nT nB st.tt ∧ st.tt.find k0 = x0 ∧ ∀ x, x0 = some x → RootKind x))
        (tail ctx a hash a.alpha a.beta (some child)) (RootPostK L nT nB k0 (a.maxDepth - a.curDepth) x0) := fun hsh =>
    (tail_rootK g ctx a hash a.alpha a.beta hk hα (by rw [hβ]; exact Int.le_refl _) (x0 := x0)
      (fun e he => ⟨hkind e he, hsh e he⟩) child (hchild _)).conseq
      (fun st' hp => by rw [hp.1]; exact ⟨hA, Or.inr hfx⟩) fun _ _ h => h
  have hret : ∀ e : TT.Entry, x0 = some e → a.maxDepth - a.curDepth ≤ e.maxDepth - e.depth →
      Triple (fun st' => st' = st ∧ (TT.AInv L nT nB st.tt ∧ st.tt.find k0 = x0 ∧ ∀ x, x0 = some x → RootKind x))
        (Pure.pure e.eval : M Eval) (RootPostK L nT nB k0 (a.maxDepth - a.curDepth) x0) := fun e he hR =>
    Triple.pure fun st' hp => by
      rw [hp.1]
      exact ⟨hA, fun x hx => hkind x (by rw [← hfx]; exact hx), fun _ => ⟨e, by rw [hfx, he], hR⟩, fun _ => hfx⟩
  cases hf : st.tt.find hash.toNat with
  | none =>
    refine htail fun e he => ?_
    rw [← hfx, ← hk, hf] at he; cases he
  | some e =>
    simp only
    have hx0 : x0 = some e := by rw [← hfx, ← hk]; exact hf
    have hek := hkind e hx0
    split
    · exact triple_throw_bind
    · split
      · rename_i hR
        split
        · exact hret e hx0 hR
        · rename_i hx
          split
          · rename_i hup
            exfalso
            have hup' : e.kind = kindUpper := beq_iff_eq.1 hup
            rcases hek with h | h
            · rw [h] at hup'; exact absurd hup' (by decide)
            · rw [h.1] at hup'; exact absurd hup' (by decide)
          · have hlow : 11000 ≤ e.eval := by
              rcases hek with h | h
              · exact absurd (beq_iff_eq.2 h) hx
              · exact h.2
            rw [if_pos (by rw [hβ]; eomega)]
            exact hret e hx0 hR
      · rename_i hR
        refine htail fun e' he' => ?_
        rw [hx0] at he'
        cases he'
        omega

theorem nodeBody_rootK (ctx : Ctx) (a : NodeArgs) (hk : (Wee.hash ctx.keys a.s).toNat = k0)
    (hα : a.alpha < 10000) (hβ : a.beta = 11000) (hcur : a.curDepth = 0) (x0 : Option TT.Entry)
    (child : NodeArgs → M Eval)
    (hchild : ∀ (x0 : Option TT.Entry) (args : NodeArgs), 0 < args.curDepth →
      Holds (Frame L nT nB k0 x0) (child args) (fun _ => True)) :
    Triple (fun st => TT.AInv L nT nB st.tt ∧ st.tt.find k0 = x0 ∧ ∀ x, x0 = some x → RootKind x)
      (nodeBody ctx (some child) a) (RootPostK L nT nB k0 (a.maxDepth - a.curDepth) x0) := by
  unfold nodeBody
  refine Triple.bind (R := fun _ st => TT.AInv L nT nB st.tt ∧ st.tt.find k0 = x0 ∧ ∀ x, x0 = some x → RootKind x)
    (Triple.modify fun st hp => hp) fun _ => ?_
  refine Triple.bind (R := fun s st' => (TT.AInv L nT nB st'.tt ∧ st'.tt.find k0 = x0 ∧ ∀ x, x0 = some x → RootKind x) ∧
      (TT.AInv L nT nB s.tt ∧ s.tt.find k0 = x0 ∧ ∀ x, x0 = some x → RootKind x))
    (Triple.get fun st hp => ⟨hp, hp⟩) fun st => ?_
  simp only
  have hrest : Triple (fun st => TT.AInv L nT nB st.tt ∧ st.tt.find k0 = x0 ∧ ∀ x, x0 = some x → RootKind x)
      (if (decide (a.curDepth > 0) && ctx.history.contains (Wee.hash ctx.keys a.s)) = true then pure 0
        else probe ctx a (Wee.hash ctx.keys a.s) (some child))
      (RootPostK L nT nB k0 (a.maxDepth - a.curDepth) x0) := by
    rw [if_neg (by rw [hcur]; simp)]
    exact probe_rootK g ctx a _ hk hα hβ x0 child hchild
  split
  · refine Triple.bind (R := fun _ st => TT.AInv L nT nB st.tt ∧ st.tt.find k0 = x0 ∧ ∀ x, x0 = some x → RootKind x)
      (Triple.set fun st' hp => hp.2) fun _ => ?_
    split
    · split
      · exact triple_throw_bind
      · exact hrest
    · rw [if_neg (by decide)]; exact hrest
  · exact hrest.conseq (fun st hp => hp.1) fun _ _ h => h

/-- **the root call and the kinds of the root's entries.**  Started with the entry `x0` (or none) under the root's
key, all such entries being `RootKind`: afterwards they still are; a winning value leaves an entry with at least the
call's remaining depth; and if `x0` already had at least that remaining depth the entry is still `x0`. -/
theorem searchNode_rootK (ctx : Ctx) (rem : Nat) (a : NodeArgs) (hk : (Wee.hash ctx.keys a.s).toNat = k0)
    (hk0 : ∀ s, (Wee.hash ctx.keys s).toNat = k0 → ctx.history.contains (Wee.hash ctx.keys s) = true)
    (hα : a.alpha < 10000) (hβ : a.beta = 11000) (hcur : a.curDepth = 0)
    (x0 : Option TT.Entry) :
    Triple (fun st => TT.AInv L nT nB st.tt ∧ st.tt.find k0 = x0 ∧ ∀ x, x0 = some x → RootKind x)
      (searchNode ctx (rem + 1) a) (RootPostK L nT nB k0 (a.maxDepth - a.curDepth) x0) := by
  rw [searchNode_succ]
  exact nodeBody_rootK g ctx a hk hα hβ hcur x0 _ fun x0 args hd => searchNode_frame g ctx hk0 rem args hd

end rootK

/-! ## 2. the workers of an iteration, one after the other -/

/-- what every worker needs of the shared table and leaves behind: soundness, completeness, root entries of root kind -/
def AccInv (K : Keys) (H : List UInt64) (D : State → Prop) (B L nT nB : Nat) (root : State) (tt : TT.Access) : Prop :=
  TTInv K D L nT nB tt ∧ CompleteTT K H D B tt ∧ ∀ x, tt.find (hash K root).toNat = some x → RootKind x

theorem le_foldl_max (e : Eval) (es : List Eval) : e ≤ es.foldl max e := by
  induction es generalizing e with
  | nil => exact Int.le_refl _
  | cons x xs ih =>
    rw [List.foldl_cons]
    exact Int.le_trans (Int.le_max_left e x) (ih (max e x))

section workersK
variable {K : Keys} {H : List UInt64} {D : State → Prop} {B L nT nB : Nat} (g : Geo L nT nB) (dom : Domain K D)
  (coll : CollH K H D B) (ctx : Ctx) (hK : ctx.keys = K) (hH : ctx.history = H) (hc : ctx.cancelAt = Option.none)
  (root : State) (hD : D root) (hhist : H.contains (hash K root) = true)
include g dom coll hK hH hD hhist

theorem runWorker_completeK (sd : Nat) (hsd : sd + 1 ≤ B) (best : Option Move) (hbest : BestOK root best)
    (tt : TT.Access) (hacc : AccInv K H D B L nT nB root tt) (rng : Rng.ChaCha8) (polls : Nat) (e : Eval) (stw : St)
    (hrun : runWorker ctx root (sd + 1) best tt rng polls = (.ok e, stw)) :
    AccInv K H D B L nT nB root stw.tt ∧ (fmH K H (sd + 1) root = true → 10000 ≤ e) ∧
    (10000 ≤ e → ∃ x, stw.tt.find (hash K root).toNat = some x ∧ sd + 1 ≤ x.maxDepth - x.depth) ∧
    ((∃ x, tt.find (hash K root).toNat = some x ∧ sd + 1 ≤ x.maxDepth - x.depth) →
      stw.tt.find (hash K root).toNat = tt.find (hash K root).toNat) := by
  obtain ⟨htt, hct, hrk⟩ := hacc
  have hspec := runWorker_spec g dom ctx hK root hD sd best hbest tt htt rng polls
  rw [hrun] at hspec
  have hexec : exec (searchNode ctx (sd + 1) (rootArgs root (sd + 1) best))
      { tt := tt, rng := rng, nodes := 0, polls := polls } = (.ok e, stw) := by
    rw [← runWorker_eq]; exact hrun
  have hab : (rootArgs root (sd + 1) best).alpha < (rootArgs root (sd + 1) best).beta :=
    show - Ev.mateInPly 0 < Ev.mateInPly 0 by decide
  obtain ⟨c1, _, c3, _⟩ := searchNode_complete g dom coll ctx hK hH (sd + 1) (rootArgs root (sd + 1) best) hD hab
    (show sd + 1 = 0 + (sd + 1) by omega) hsd hbest 0
    { tt := tt, rng := rng, nodes := 0, polls := polls } ⟨⟨htt.1, hct⟩, Nat.le_refl _⟩ e stw hexec
  subst hK
  subst hH
  have hr := searchNode_rootK (k0 := (hash ctx.keys root).toNat) g ctx sd (rootArgs root (sd + 1) best) rfl
    (fun s hs => by rw [UInt64.toNat_inj.1 hs]; exact hhist)
    (show - Ev.mateInPly 0 < 10000 by decide) root_window.2 rfl (tt.find (hash ctx.keys root).toNat)
    { tt := tt, rng := rng, nodes := 0, polls := polls } ⟨htt.1, rfl, fun x hx => hrk x hx⟩ e stw hexec
  obtain ⟨_, r2, r3, r4⟩ := hr
  have hsd' : (rootArgs root (sd + 1) best).maxDepth - (rootArgs root (sd + 1) best).curDepth = sd + 1 :=
    show sd + 1 - 0 = sd + 1 by omega
  rw [hsd'] at r3 r4
  refine ⟨⟨hspec.1, c1.2, r2⟩, fun hw => ?_, r3, fun ⟨x, hx, hR⟩ => r4 ⟨x, hx, hR⟩⟩
  have hv : Ev.mateInPly 0 ≤ e ∨ 10000 ≤ e := (c3 (Or.inl rfl)).1 hw
  rw [root_window.2] at hv
  eomega

/-- the invariant of the shared table survives the workers of an iteration; without a cancellation instant none of
them is interrupted -/
theorem runWorkers_inv (hc : ctx.cancelAt = Option.none) (depth : Nat) (hdB : depth + 1 ≤ B) (bestMv : Option Move)
    (hbest : BestOK root bestMv) :
    ∀ (l : List (Nat × UInt64)) (acc : WorkersOut), AccInv K H D B L nT nB root acc.tt → acc.interrupted = false →
      AccInv K H D B L nT nB root (runWorkers ctx root depth bestMv l acc).tt ∧
      (runWorkers ctx root depth bestMv l acc).interrupted = false := by
  intro l
  induction l with
  | nil => intro acc h hi; rw [runWorkers]; exact ⟨h, hi⟩
  | cons is rest ih =>
    intro acc h hi
    obtain ⟨i, seed⟩ := is
    rw [runWorkers.eq_2]
    split
    · exact ⟨h, hi⟩
    · simp only
      have hb : BestOK root (if (i == 0) = true then bestMv else Option.none) := by
        split
        · exact hbest
        · exact fun m hm => nomatch hm
      split
      · rename_i e st heq
        have hw := runWorker_completeK g dom coll ctx hK hH root hD hhist (depth - i % 2) (by omega) _ hb acc.tt h
          (Rng.seedFromU64 seed) acc.polls e st heq
        exact ih _ hw.1 hi
      · rename_i st heq
        exact absurd heq (runWorker_no_interrupt ctx root hc _ _ _ _ _ _)
      · exact ⟨h, hi⟩

/-- once the root's entry has remaining depth `depth + 1`, the remaining workers of the iteration (search depth
`depth` or `depth + 1`) return from the root's probe and leave that entry alone -/
theorem runWorkers_keep (hc : ctx.cancelAt = Option.none) (depth : Nat) (hdB : depth + 1 ≤ B) (bestMv : Option Move)
    (hbest : BestOK root bestMv) :
    ∀ (l : List (Nat × UInt64)) (acc : WorkersOut), AccInv K H D B L nT nB root acc.tt →
      (∃ x, acc.tt.find (hash K root).toNat = some x ∧ depth + 1 ≤ x.maxDepth - x.depth) →
      (runWorkers ctx root depth bestMv l acc).tt.find (hash K root).toNat = acc.tt.find (hash K root).toNat ∧
      ∃ es, (runWorkers ctx root depth bestMv l acc).evals = acc.evals ++ es := by
  intro l
  induction l with
  | nil => intro acc _ _; rw [runWorkers]; exact ⟨rfl, [], (List.append_nil _).symm⟩
  | cons is rest ih =>
    intro acc h hx
    obtain ⟨i, seed⟩ := is
    rw [runWorkers.eq_2]
    split
    · exact ⟨rfl, [], (List.append_nil _).symm⟩
    · simp only
      have hb : BestOK root (if (i == 0) = true then bestMv else Option.none) := by
        split
        · exact hbest
        · exact fun m hm => nomatch hm
      split
      · rename_i e st heq
        have hw := runWorker_completeK g dom coll ctx hK hH root hD hhist (depth - i % 2) (by omega) _ hb acc.tt h
          (Rng.seedFromU64 seed) acc.polls e st heq
        obtain ⟨x, hx1, hx2⟩ := hx
        have hsame := hw.2.2.2 ⟨x, hx1, by omega⟩
        obtain ⟨i1, es, i2⟩ := ih ⟨st.tt, st.polls, acc.evals ++ [e], acc.sumNodes + st.nodes, acc.interrupted, acc.panic⟩
          hw.1 ⟨x, by show st.tt.find _ = _; rw [hsame]; exact hx1, hx2⟩
        exact ⟨by rw [i1]; exact hsame, e :: es, by rw [i2, List.append_assoc]; rfl⟩
      · rename_i st heq
        exact absurd heq (runWorker_no_interrupt ctx root hc _ _ _ _ _ _)
      · exact ⟨rfl, [], (List.append_nil _).symm⟩

/-- the iteration whose search depth reaches the visible mate distance: worker 0 returns a winning value and leaves a
root entry that survives the other workers -/
theorem runWorkers_first (hc : ctx.cancelAt = Option.none) (depth : Nat) (hdB : depth + 1 ≤ B) (bestMv : Option Move)
    (hbest : BestOK root bestMv) (hw : fmH K H (depth + 1) root = true) (seed : UInt64)
    (rest : List (Nat × UInt64)) (tt : TT.Access) (polls : Nat) (hacc : AccInv K H D B L nT nB root tt)
    (hnp : (runWorkers ctx root depth bestMv ((0, seed) :: rest)
      { tt := tt, polls := polls, evals := [], sumNodes := 0 }).panic = Option.none) :
    ∃ e0 es x, (runWorkers ctx root depth bestMv ((0, seed) :: rest)
        { tt := tt, polls := polls, evals := [], sumNodes := 0 }).evals = e0 :: es ∧ 10000 ≤ e0 ∧
      (runWorkers ctx root depth bestMv ((0, seed) :: rest)
        { tt := tt, polls := polls, evals := [], sumNodes := 0 }).tt.find (hash K root).toNat = some x := by
  rw [runWorkers.eq_2] at hnp ⊢
  simp only [Bool.or_self, Option.isSome_none, Bool.false_eq_true, if_false, beq_self_eq_true, if_true] at hnp ⊢
  rcases hrun : runWorker ctx root (depth - 0 % 2 + 1) bestMv tt (Rng.seedFromU64 seed) polls with ⟨res, stw⟩
  rw [hrun] at hnp
  cases res with
  | error err =>
    cases err with
    | interrupt => exact absurd hrun (runWorker_no_interrupt ctx root hc _ _ _ _ _ _)
    | panic why => simp only at hnp; cases hnp
  | ok e =>
    simp only at hnp ⊢
    have hwk := runWorker_completeK g dom coll ctx hK hH root hD hhist depth hdB bestMv hbest tt hacc
      (Rng.seedFromU64 seed) polls e stw hrun
    have hwin := hwk.2.1 hw
    obtain ⟨x, hx1, hx2⟩ := hwk.2.2.1 hwin
    obtain ⟨k1, es, k2⟩ := runWorkers_keep g dom coll ctx hK hH root hD hhist hc depth hdB bestMv hbest rest
      { tt := stw.tt, polls := stw.polls, evals := [] ++ [e], sumNodes := 0 + stw.nodes } hwk.1 ⟨x, hx1, hx2⟩
    exact ⟨e, es, x, k2, hwin, by rw [k1]; exact hx1⟩

end workersK

/-! ## 3. one iteration, the loop -/

/-- the workers' result of an iteration -/
def workersOfIter (ctx : Ctx) (root : State) (workers depth : Nat) (st : IterSt) : WorkersOut :=
  runWorkers ctx root depth st.bestMv ((List.range workers).zip (drawSeeds workers st.rng).1)
    { tt := st.tt, polls := st.polls, evals := [], sumNodes := 0 }

/-- the reported evaluation of an iteration -/
def bestEvalOf (st : IterSt) (w : WorkersOut) : Eval :=
  match w.evals with | [] => st.bestEval | e :: es => es.foldl max e

/-- the fields of the loop state after an iteration, by the outcome of its workers -/
theorem iterStep_fields (ctx : Ctx) (root : State) (rootHash : UInt64) (workers depth : Nat) (st : IterSt) :
    (∀ why, (workersOfIter ctx root workers depth st).panic = some why →
      (iterStep ctx root rootHash workers depth st).panic = some why) ∧
    ((workersOfIter ctx root workers depth st).panic = Option.none →
      (workersOfIter ctx root workers depth st).interrupted = false →
      (iterStep ctx root rootHash workers depth st).tt = (workersOfIter ctx root workers depth st).tt ∧
      ((walkLine ctx.keys (workersOfIter ctx root workers depth st).tt (depth + 1) root).isEmpty = true →
        (iterStep ctx root rootHash workers depth st).finished = st.finished) ∧
      ((walkLine ctx.keys (workersOfIter ctx root workers depth st).tt (depth + 1) root).isEmpty = false →
        (iterStep ctx root rootHash workers depth st).finished =
          decide (bestEvalOf st (workersOfIter ctx root workers depth st) ≥ Ev.posInf) ∧
        ∃ pre, (iterStep ctx root rootHash workers depth st).events =
          pre ++ [.best (bestEvalOf st (workersOfIter ctx root workers depth st))
            (walkLine ctx.keys (workersOfIter ctx root workers depth st).tt (depth + 1) root)])) := by
  unfold iterStep workersOfIter bestEvalOf
  rcases drawSeeds workers st.rng with ⟨seeds, rng⟩
  simp only
  generalize runWorkers ctx root depth st.bestMv ((List.range workers).zip seeds)
      { tt := st.tt, polls := st.polls, evals := [], sumNodes := 0 } = w
  constructor
  · intro why hp
    rw [hp]
  · intro hp hi
    rw [hp]
    simp only [hi, Bool.not_false, if_true]
    by_cases hl : (walkLine ctx.keys w.tt (depth + 1) root).isEmpty = true
    · simp only [hl, if_true]
      exact ⟨trivial, fun _ => trivial, fun h => nomatch h⟩
    · have hl' : (walkLine ctx.keys w.tt (depth + 1) root).isEmpty = false := by
        cases hx : (walkLine ctx.keys w.tt (depth + 1) root).isEmpty <;> simp_all
      simp only [hl', Bool.false_eq_true, if_false]
      exact ⟨trivial, fun h => h.elim, fun _ => ⟨rfl, _, rfl⟩⟩

theorem zip_range_succ (w : Nat) (r : Rng.ChaCha8) :
    ∃ seed rest, (List.range (w + 1)).zip (drawSeeds (w + 1) r).1 = (0, seed) :: rest := by
  rw [drawSeeds.eq_2, List.range_succ_eq_map]
  rcases Rng.nextU64 r with ⟨v, r'⟩
  simp only
  rcases drawSeeds w r' with ⟨vs, r''⟩
  exact ⟨v, _, List.zip_cons_cons⟩

/-- loop invariant for completeness with any number of workers -/
def CIterK (K : Keys) (H : List UInt64) (D : State → Prop) (B L nT nB : Nat) (root : State) (st : IterSt) : Prop :=
  IterOK K D L nT nB root st ∧ CompleteTT K H D B st.tt ∧
  ∀ x, st.tt.find (hash K root).toNat = some x → RootKind x

section iterK
variable {K : Keys} {H : List UInt64} {D : State → Prop} {B L nT nB : Nat} (g : Geo L nT nB) (dom : Domain K D)
  (coll : CollH K H D B) (ctx : Ctx) (hK : ctx.keys = K) (hH : ctx.history = H)
  (root : State) (hD : D root) (hhist : H.contains (hash K root) = true)
include g dom coll hK hH hD hhist

/-- **one iteration, any number of workers** (run one after the other, never cancelled, not panicking): either it
ends the loop with a winning report as its last event, or the loop goes on with the invariant — and then the root
is not a visible forced mate within the iteration's search depth. -/
theorem iterStep_completeK (hc : ctx.cancelAt = Option.none) (workers : Nat) (hwk : 0 < workers) (depth : Nat)
    (hdB : depth + 1 ≤ B) (st : IterSt) (hci : CIterK K H D B L nT nB root st) (hfin : st.finished = false)
    (hnp : (iterStep ctx root (hash K root) workers depth st).panic = Option.none) :
    ((iterStep ctx root (hash K root) workers depth st).finished = true ∧
        ∃ pre ev line, (iterStep ctx root (hash K root) workers depth st).events = pre ++ [.best ev line] ∧
          10000 ≤ ev) ∨
    ((iterStep ctx root (hash K root) workers depth st).finished = false ∧
        CIterK K H D B L nT nB root (iterStep ctx root (hash K root) workers depth st) ∧
        ¬ fmH K H (depth + 1) root = true) := by
  obtain ⟨hio, hct, hrk⟩ := hci
  have hsound := (iterStep_sound g dom ctx hK root hD (hash K root) (by rw [hK])
    (by rw [hH]; exact hhist) workers depth st hio).1
  obtain ⟨f1, f2⟩ := iterStep_fields ctx root (hash K root) workers depth st
  have hacc0 : AccInv K H D B L nT nB root st.tt := ⟨hio.1, hct, hrk⟩
  have hinv := runWorkers_inv g dom coll ctx hK hH root hD hhist hc depth hdB st.bestMv hio.2.1
    ((List.range workers).zip (drawSeeds workers st.rng).1)
    { tt := st.tt, polls := st.polls, evals := [], sumNodes := 0 } hacc0 rfl
  change AccInv K H D B L nT nB root (workersOfIter ctx root workers depth st).tt ∧
    (workersOfIter ctx root workers depth st).interrupted = false at hinv
  have hpw : (workersOfIter ctx root workers depth st).panic = Option.none := by
    cases hp : (workersOfIter ctx root workers depth st).panic with
    | none => rfl
    | some why => rw [f1 why hp] at hnp; cases hnp
  obtain ⟨g1, g2, g3⟩ := f2 hpw hinv.2
  obtain ⟨ms, hms⟩ := dom.gen hD
  -- under a visible mate within the search depth: a winning first value and a root entry
  have hfirst : fmH K H (depth + 1) root = true →
      10000 ≤ bestEvalOf st (workersOfIter ctx root workers depth st) ∧
      (walkLine ctx.keys (workersOfIter ctx root workers depth st).tt (depth + 1) root).isEmpty = false := by
    intro hw
    obtain ⟨w', hw'⟩ : ∃ w', workers = w' + 1 := ⟨workers - 1, by omega⟩
    subst hw'
    obtain ⟨seed, rest, hz⟩ := zip_range_succ w' st.rng
    have hpw' := hpw
    unfold workersOfIter at hpw' ⊢
    rw [hz] at hpw' ⊢
    obtain ⟨e0, es, x, k1, k2, k3⟩ := runWorkers_first g dom coll ctx hK hH root hD hhist hc depth hdB st.bestMv
      hio.2.1 hw seed rest st.tt st.polls hacc0 hpw'
    constructor
    · unfold bestEvalOf
      rw [k1]
      simp only
      have := le_foldl_max e0 es
      eomega
    · have hacc := hinv.1
      unfold workersOfIter at hacc
      rw [hz] at hacc
      obtain ⟨hmv, _⟩ := root_entry_move hacc.1.2 hD k3
      exact (walkLine_nonempty (n := depth) hms (by rw [hK]; exact k3) hmv).1
  by_cases hl : (walkLine ctx.keys (workersOfIter ctx root workers depth st).tt (depth + 1) root).isEmpty = true
  · right
    have hnw : ¬ fmH K H (depth + 1) root = true := by
      intro hw
      rw [(hfirst hw).2] at hl; cases hl
    refine ⟨by rw [g2 hl]; exact hfin, ⟨hsound, ?_, ?_⟩, hnw⟩
    · rw [g1]; exact hinv.1.2.1
    · rw [g1]; exact hinv.1.2.2
  · have hl' : (walkLine ctx.keys (workersOfIter ctx root workers depth st).tt (depth + 1) root).isEmpty = false := by
      cases hx : (walkLine ctx.keys (workersOfIter ctx root workers depth st).tt (depth + 1) root).isEmpty <;> simp_all
    obtain ⟨q1, pre, q2⟩ := g3 hl'
    by_cases hwin : 10000 ≤ bestEvalOf st (workersOfIter ctx root workers depth st)
    · left
      refine ⟨?_, pre, _, _, q2, hwin⟩
      rw [q1, decide_eq_true_eq, posInf_eq]
      exact hwin
    · right
      have hnw : ¬ fmH K H (depth + 1) root = true := fun hw => hwin (hfirst hw).1
      refine ⟨?_, ⟨hsound, ?_, ?_⟩, hnw⟩
      · rw [q1, decide_eq_false_iff_not, posInf_eq]
        exact hwin
      · rw [g1]; exact hinv.1.2.1
      · rw [g1]; exact hinv.1.2.2

/-- the deepening loop with any number of workers per iteration -/
theorem iterLoop_completeK (hc : ctx.cancelAt = Option.none) (workersOf : Nat → Nat) (hwk : ∀ k, 0 < workersOf k)
    (n₀ : Nat) (hn₀B : n₀ ≤ B) (hw : fmH K H n₀ root = true) :
    ∀ (n depth : Nat) (st : IterSt), CIterK K H D B L nT nB root st → st.finished = false →
      n₀ ≤ depth + n → depth < n₀ →
      (iterLoop ctx root (hash K root) workersOf n depth st).panic = Option.none →
      ∃ pre ev line, (iterLoop ctx root (hash K root) workersOf n depth st).events = pre ++ [.best ev line] ∧
        10000 ≤ ev := by
  intro n
  induction n with
  | zero => intro depth st _ _ h1 h2; omega
  | succ n ih =>
    intro depth st0 hci0 hfin0 h1 h2 hnp
    -- never cancelled: the boundary read of the flag does not end the loop and keeps the invariant
    obtain ⟨st, hst, hci, hfin⟩ : ∃ st, st = boundaryPoll ctx depth st0 ∧ CIterK K H D B L nT nB root st ∧
        st.finished = false := by
      refine ⟨_, rfl, ?_, ?_⟩
      · unfold CIterK; rw [boundaryPoll_tt]; exact ⟨hci0.1.boundaryPoll ctx depth, hci0.2⟩
      · rw [boundaryPoll_finished_of_none ctx hc]; split
        · rfl
        · exact hfin0
    rw [iterLoop_succ, if_neg (by rw [hfin0]; decide), ← hst, if_neg (by rw [hfin]; decide)] at hnp ⊢
    have hnp' : (iterStep ctx root (hash K root) (workersOf depth) depth st).panic = Option.none := by
      cases hp : (iterStep ctx root (hash K root) (workersOf depth) depth st).panic with
      | none => rfl
      | some why =>
        exfalso
        exact iterLoop_panic_of ctx root (hash K root) workersOf n (depth + 1) _
          (by rw [hp]; exact fun h => nomatch h) hnp
    rcases iterStep_completeK g dom coll ctx hK hH root hD hhist hc (workersOf depth) (hwk depth) depth (by omega)
      st hci hfin hnp' with ⟨hf, pre, ev, line, hev, hwin⟩ | ⟨hf, hci', hnw⟩
    · rw [SearchCtl.iterLoop_finished _ _ _ _ _ _ _ hf]
      exact ⟨pre, ev, line, hev, hwin⟩
    · have hlt' : depth + 1 < n₀ := by
        rcases Nat.lt_or_ge (depth + 1) n₀ with h | h
        · exact h
        · exact absurd (fmH_le K H h hw) hnw
      exact ih (depth + 1) _ hci' hf (by omega) hlt' hnp

end iterK

/-- **`analyze_iterative` finds a visible forced mate with any number of workers per iteration** (run one after the
other, as the model runs them).  Fresh table, no cancellation, depth limit `d ≥ n₀`, at least one worker in every
iteration, no panic: the last `BestMove` report has a winning evaluation. -/
theorem iterate_complete_any {D : State → Prop} {nT nB : Nat} (hT : 0 < nT) (hB : 0 < nB) (keys : KeyTable)
    (history : List UInt64) (root : State) (dom : Domain keys.keys D) (hD : D root) (n₀ d : Nat)
    (coll : CollH keys.keys (hash keys.keys root :: history) D n₀)
    (hw : fmH keys.keys (hash keys.keys root :: history) n₀ root = true) (hd : n₀ ≤ d)
    (workersOf : Nat → Nat) (hwk : ∀ k, 0 < workersOf k) (rng0 : Rng.ChaCha8) (fuelDepth : Nat)
    (hnp : (iterate root rng0 (some d) { keys := keys, tt := TT.Access.new nT nB, history := history }
      workersOf Option.none fuelDepth).panic = Option.none) :
    ∃ ev line, (bestReportsC (iterate root rng0 (some d)
        { keys := keys, tt := TT.Access.new nT nB, history := history } workersOf Option.none fuelDepth).events).getLast? =
        some (ev, line) ∧ Ev.posInf ≤ ev := by
  have g : Geo Gen.bucketSize nT nB := ⟨by decide, hT, hB⟩
  have hmoves : (legalMoves root).isEmpty = false := by
    cases hl : legalMoves root with
    | nil => exact absurd hl (fmH_moves _ _ hw)
    | cons _ _ => rfl
  have hn₀ : 0 < n₀ := by
    cases n₀ with
    | zero => rw [fmH.eq_1] at hw; cases hw
    | succ _ => omega
  unfold iterate at hnp ⊢
  simp only [hmoves, Bool.false_eq_true, if_false] at hnp ⊢
  have hinit : CIterK keys.keys (hash keys.keys root :: history) D n₀ Gen.bucketSize nT nB root
      { tt := TT.Access.new nT nB, rng := rng0, events := [], nodes := 0, bestEval := Ev.negInf,
        bestMv := Option.none, polls := 0 } := by
    refine ⟨⟨⟨TT.AInv.new nT nB, fun s e _ hf => by rw [TT.Access.new_find hT hB] at hf; exact nomatch hf⟩,
      fun _ hm => (nomatch hm),
      fun h => absurd (show Ev.posInf ≤ Ev.negInf from h) (by decide)⟩, fun s e _ hf => ?_, fun x hx => ?_⟩
    · rw [TT.Access.new_find hT hB] at hf; cases hf
    · rw [TT.Access.new_find hT hB] at hx; cases hx
  obtain ⟨pre, ev, line, hev, h1⟩ := iterLoop_completeK g dom coll
    { keys := keys.keys, history := hash keys.keys root :: history, cancelAt := Option.none } rfl rfl root hD
    (by simp) rfl workersOf hwk n₀ (Nat.le_refl _) hw d 0 _ hinit rfl (by omega) hn₀ hnp
  refine ⟨ev, line, ?_, by rw [posInf_eq]; exact h1⟩
  rw [hev]
  split
  · exact bestReportsC_last pre ev line _ (Or.inr rfl)
  · have := bestReportsC_last pre ev line [] (Or.inl rfl)
    rw [List.append_nil] at this
    exact this

end Wee.C06
