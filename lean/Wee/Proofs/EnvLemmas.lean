import Wee.Model.SearchEnv
import Wee.Proofs.MateRoot
import Wee.Proofs.SearchLemmas
import Wee.Proofs.SearchCtlSafe
/-!
# Lemmas about the worker-in-an-environment model (`Wee/Model/SearchEnv.lean`)

1. run equations of the worker monad `ME`;
2. `searchNodeE` cut into `nodeBodyE` / `probeE` / `tailE` (definitional), as `searchNode` is in `MateLemmas.lean`;
3. `searchNodeE_empty`: in the empty environment the worker is the sequential model's `searchNode`;
4. a Hoare logic `HoldsE` for `ME` with a rely (the invariant is stable under the environment's batches) and a
   guarantee (a predicate on the logged own inserts);
5. the node entry, flat (`nodeBodyE_run`, in terms of `SearchCtl.tick`);
6. `searchNodeE_walk`: every instance of the generic induction `SearchCtl.Walk` of the sequential model carries over to
   the worker in an environment, given the rely;
7. causality (`searchNodeE_causal`, `runWorkerE_causal`);
8. global histories: `batchesOf` / `envOf` lemmas, `interleaving_guarantee` (the rely/guarantee induction);
9. C06 in an environment (`searchNodeE_sound`; port of `MateLemmas.lean` §6–§9);
10. C03 in an environment (`legal_walk`, `runWorkerE_legal`);
11. C04 in an environment (`runWorkerE_safe`, `searchNodeE_stop_bound`);
12. C06 for one worker of an iteration (`runWorkerE_sound`);
13. flat run equations for symbolic execution on concrete positions;
14. the whole search under arbitrary schedules (`interleaving_legal/sound/safe`, `finishStep_*`, `loopS_*`);
15. reads-from consistency (`Replay`, `TableOK`, `interleaving_reads_from`);
16. structural relations between the worker in two environments (`StructRel`, `EqFrom`);
17. the sequential schedule is an execution (`runWorkerE_shift`, `sequential_interleaving`);
18. the sequential model's iteration is one of the schedules (`iterStep_stepS`, `iterate_searchS`).
-/
namespace Wee.Env
open Wee Wee.Search

/-! ## 1. run equations -/

theorem pure_run {α : Type} (a : α) (n : Nat) (st : St) : (pure a : ME α) n st = (.ok a, st, []) := rfl
theorem throw_run {α : Type} (e : Stop) (n : Nat) (st : St) : (throw e : ME α) n st = (.error e, st, []) := rfl
theorem get_run (n : Nat) (st : St) : (get : ME St) n st = (.ok st, st, []) := rfl
theorem set_run (s : St) (n : Nat) (st : St) : (set s : ME PUnit) n st = (.ok ⟨⟩, s, []) := rfl
theorem modify_run (f : St → St) (n : Nat) (st : St) : (modify f : ME PUnit) n st = (.ok ⟨⟩, f st, []) := rfl
theorem bind_run {α β : Type} (x : ME α) (f : α → ME β) (n : Nat) (st : St) :
    (x >>= f) n st = match x n st with
      | (.ok a, st', l1) =>
        (match f a (n + l1.length) st' with
         | (r, st'', l2) => (r, st'', l1 ++ l2))
      | (.error e, st', l1) => (.error e, st', l1) := rfl
theorem liftE_run {α : Type} (x : M α) (n : Nat) (st : St) :
    liftE x n st = ((x.run.run st).1, (x.run.run st).2, []) := rfl
theorem findE_run (env : Env) (k : Nat) (n : Nat) (st : St) :
    findE env k n st = (.ok ((applyInserts st.tt (env.script n)).find k),
      { st with tt := applyInserts st.tt (env.script n) }, [.find k ((applyInserts st.tt (env.script n)).find k)]) := rfl
theorem insertE_run (env : Env) (k : Nat) (e : TT.Entry) (n : Nat) (st : St) :
    insertE env k e n st = (.ok ⟨⟩, { st with tt := (applyInserts st.tt (env.script n)).insert k e }, [.insert k e]) := rfl

/-! ## 2. `searchNodeE` in three pieces (as `tail` / `probe` / `nodeBody` of `MateLemmas.lean`) -/

/-- the part after the table probe, with the (possibly tightened) window -/
def tailE (env : Env) (ctx : Ctx) (a : NodeArgs) (hash : UInt64) (alpha beta : Eval) :
    Option (NodeArgs → ME Eval) → ME Eval
  | Option.none =>
      match quiesce evaluate (quiesceFuel a.s) a.s a.curDepth alpha beta with
      | .ok v => pure v
      | .error e => throw e
  | some child =>
      match pseudoLegalMoves a.s with
      | Option.none => throw (.panic "move generation: Square::offset(..).unwrap()")
      | some pseudo => do
        let sorted ← liftE (sortByCachedKey pseudo fun mv => do
          let j ← jitter
          pure (estimate a.s mv + j))
        let buffer := match a.prioritized with | some m => sorted ++ [m] | Option.none => sorted
        let before := (← get).nodes
        let a' := { a with alpha := alpha, beta := beta }
        match ← childLoopE env ctx child a' hash buffer.reverse alpha Option.none kindUpper with
        | .error b => return b
        | .ok (alpha', best, kind) =>
          if (← get).nodes == before then
            match evaluate a.s a.s.turn a.curDepth with
            | some e => return e
            | Option.none => throw (.panic "evaluate: no king")
          match best with
          | some m =>
            let e : TT.Entry := { kind := kind, mv := m.toNat, depth := a.curDepth, maxDepth := a.maxDepth, eval := alpha' }
            insertE env hash.toNat e
          | Option.none => pure ()
          return alpha'

/-- what the probe does with the result of the lookup -/
def probeK (env : Env) (ctx : Ctx) (a : NodeArgs) (hash : UInt64) (rec : Option (NodeArgs → ME Eval)) :
    Option TT.Entry → ME Eval
  | some e => do
      if a.maxDepth < a.curDepth ∨ e.maxDepth < e.depth then throw (.panic "usize subtraction underflow")
      if e.maxDepth - e.depth ≥ a.maxDepth - a.curDepth then
        if e.kind == kindExact then return e.eval
        else if e.kind == kindUpper then
          if a.alpha ≥ min a.beta e.eval then return e.eval else tailE env ctx a hash a.alpha (min a.beta e.eval) rec
        else
          if max a.alpha e.eval ≥ a.beta then return e.eval else tailE env ctx a hash (max a.alpha e.eval) a.beta rec
      else tailE env ctx a hash a.alpha a.beta rec
  | Option.none => tailE env ctx a hash a.alpha a.beta rec

/-- the table probe -/
def probeE (env : Env) (ctx : Ctx) (a : NodeArgs) (hash : UInt64) (rec : Option (NodeArgs → ME Eval)) : ME Eval :=
  findE env hash.toNat >>= probeK env ctx a hash rec

/-- `searchNodeE` with the recursive call abstracted -/
def nodeBodyE (env : Env) (ctx : Ctx) (rec : Option (NodeArgs → ME Eval)) (a : NodeArgs) : ME Eval := do
    modify fun st => { st with nodes := st.nodes + 1 }
    let st ← get
    if st.nodes % Gen.pollInterval == 0 then
      let cancelled := match ctx.cancelAt with | some k => decide (st.polls ≥ k) | Option.none => false
      set { st with polls := st.polls + 1 }
      if cancelled then throw .interrupt
    let hash := Wee.hash ctx.keys a.s
    if a.curDepth > 0 && ctx.history.contains hash then return 0
    probeE env ctx a hash rec

theorem searchNodeE_zero (env : Env) (ctx : Ctx) (a : NodeArgs) :
    searchNodeE env ctx 0 a = nodeBodyE env ctx Option.none a := rfl
theorem searchNodeE_succ (env : Env) (ctx : Ctx) (rem : Nat) (a : NodeArgs) :
    searchNodeE env ctx (rem+1) a = nodeBodyE env ctx (some (searchNodeE env ctx rem)) a := rfl

/-! ## 3. the empty environment: `searchNodeE Env.empty` is `searchNode` -/

/-- `x` (worker monad) and `y` (monad of the sequential model) have the same outcome and the same final state, from
every state and whatever the number of earlier table operations -/
def Sim {α : Type} (x : ME α) (y : M α) : Prop := ∀ n st, ((x n st).1, (x n st).2.1) = C06.exec y st

section sim
variable {α β : Type}

theorem sim_pure (a : α) : Sim (pure a : ME α) (pure a : M α) := fun _ _ => rfl
theorem sim_throw (e : Stop) : Sim (throw e : ME α) (throw e : M α) := fun _ _ => rfl
theorem sim_get : Sim (get : ME St) (get : M St) := fun _ _ => rfl
theorem sim_set (s : St) : Sim (set s : ME PUnit) (set s : M PUnit) := fun _ _ => rfl
theorem sim_modify (f : St → St) : Sim (modify f : ME PUnit) (modify f : M PUnit) := fun _ _ => rfl
theorem sim_liftE (x : M α) : Sim (liftE x) x := fun _ _ => rfl

theorem sim_bind {x : ME α} {y : M α} {f : α → ME β} {g : α → M β} (hx : Sim x y) (hf : ∀ a, Sim (f a) (g a)) :
    Sim (x >>= f) (y >>= g) := by
  intro n st
  rw [bind_run, C06.exec_bind]
  have h := hx n st
  rcases hxo : x n st with ⟨r, st', l1⟩
  rw [hxo] at h
  rw [← h]
  cases r with
  | error e => rfl
  | ok a =>
    simp only
    have h2 := hf a (n + l1.length) st'
    rcases hfo : f a (n + l1.length) st' with ⟨r2, st2, l2⟩
    rw [hfo] at h2
    exact h2

theorem applyInserts_nil (tt : TT.Access) : applyInserts tt [] = tt := rfl

/-- a lookup in the empty environment is a lookup in the worker's own table -/
theorem sim_find_bind {k : Nat} {f : Option TT.Entry → ME β} {g : St → M β} (hf : ∀ s : St, Sim (f (s.tt.find k)) (g s)) :
    Sim (findE Env.empty k >>= f) (get >>= g) := by
  intro n st
  rw [bind_run, findE_run, C06.exec_bind, C06.exec_get]
  show _ = C06.exec (g st) st
  have h2 := hf st (n + 1) st
  rcases hfo : f (st.tt.find k) (n + 1) st with ⟨r2, st2, l2⟩
  rw [hfo] at h2
  rw [← h2]
  show ((match f (st.tt.find k) (n + 1) st with | (r, st'', l2) => (r, st'', [TOp.find k (st.tt.find k)] ++ l2)).1,
    (match f (st.tt.find k) (n + 1) st with | (r, st'', l2) => (r, st'', [TOp.find k (st.tt.find k)] ++ l2)).2.1) = _
  rw [hfo]

theorem sim_throw_bind {γ : Type} (e : Stop) (f : γ → ME β) (g : γ → M β) :
    Sim ((throw e : ME γ) >>= f) ((throw e : M γ) >>= g) := fun _ _ => rfl

/-- a store in the empty environment is a store into the worker's own table -/
theorem sim_insert (k : Nat) (e : TT.Entry) :
    Sim (insertE Env.empty k e) (modify fun st => { st with tt := st.tt.insert k e } : M PUnit) := fun _ _ => rfl

end sim

theorem childLoopE_sim (ctx : Ctx) (childE : NodeArgs → ME Eval) (child : NodeArgs → M Eval)
    (hc : ∀ a, Sim (childE a) (child a)) (a : NodeArgs) (hash : UInt64) :
    ∀ (l : List Move) (alpha : Eval) (best : Option Move) (kind : Nat),
      Sim (childLoopE Env.empty ctx childE a hash l alpha best kind) (childLoop ctx child a hash l alpha best kind) := by
  intro l
  induction l with
  | nil => intro alpha best kind; rw [childLoopE, childLoop]; exact sim_pure _
  | cons mv rest ih =>
    intro alpha best kind
    rw [childLoopE, childLoop]
    cases tryAsLegal a.s mv with
    | none => exact sim_throw _
    | some o =>
      cases o with
      | none => exact ih alpha best kind
      | some r =>
        obtain ⟨m, next⟩ := r
        simp only
        refine sim_bind (hc _) fun v => ?_
        by_cases h1 : -v ≥ a.beta
        · rw [if_pos h1, if_pos h1]
          exact sim_bind (sim_insert _ _) fun _ => sim_pure _
        · rw [if_neg h1, if_neg h1]
          by_cases h2 : -v > alpha
          · rw [if_pos h2, if_pos h2]; exact ih _ _ _
          · rw [if_neg h2, if_neg h2]; exact ih _ _ _

theorem tailE_sim (ctx : Ctx) (a : NodeArgs) (hash : UInt64) (alpha beta : Eval)
    (recE : Option (NodeArgs → ME Eval)) (rec : Option (NodeArgs → M Eval))
    (hrec : match recE, rec with
      | Option.none, Option.none => True
      | some cE, some c => ∀ a, Sim (cE a) (c a)
      | _, _ => False) :
    Sim (tailE Env.empty ctx a hash alpha beta recE) (C06.tail ctx a hash alpha beta rec) := by
  cases recE with
  | none =>
    cases rec with
    | some c => exact hrec.elim
    | none =>
      unfold tailE C06.tail
      cases quiesce evaluate (quiesceFuel a.s) a.s a.curDepth alpha beta with
      | ok v => exact sim_pure _
      | error e => exact sim_throw _
  | some cE =>
    cases rec with
    | none => exact hrec.elim
    | some c =>
      replace hrec : ∀ a, Sim (cE a) (c a) := hrec
      unfold tailE C06.tail
      cases pseudoLegalMoves a.s with
      | none => exact sim_throw _
      | some pseudo =>
        simp only
        refine sim_bind (sim_liftE _) fun sorted => ?_
        refine sim_bind sim_get fun st0 => ?_
        refine sim_bind (childLoopE_sim ctx cE c hrec _ hash _ _ _ _) fun res => ?_
        rcases res with b | ⟨alpha', best, kind⟩
        · exact sim_pure _
        · simp only
          refine sim_bind sim_get fun st1 => ?_
          by_cases hn : (st1.nodes == st0.nodes) = true
          · rw [if_pos hn, if_pos hn]
            cases evaluate a.s a.s.turn a.curDepth with
            | some e => exact sim_pure _
            | none => exact sim_throw_bind _ _ _
          · rw [if_neg hn, if_neg hn]
            cases best with
            | none => exact sim_pure _
            | some m => exact sim_bind (sim_insert _ _) fun _ => sim_pure _

theorem probeE_sim (ctx : Ctx) (a : NodeArgs) (hash : UInt64)
    (recE : Option (NodeArgs → ME Eval)) (rec : Option (NodeArgs → M Eval))
    (hrec : match recE, rec with
      | Option.none, Option.none => True
      | some cE, some c => ∀ a, Sim (cE a) (c a)
      | _, _ => False) :
    Sim (probeE Env.empty ctx a hash recE) (C06.probe ctx a hash rec) := by
  have ht : ∀ alpha beta, Sim (tailE Env.empty ctx a hash alpha beta recE) (C06.tail ctx a hash alpha beta rec) :=
    fun alpha beta => tailE_sim ctx a hash alpha beta recE rec hrec
  unfold probeE C06.probe
  refine sim_find_bind fun s => ?_
  cases s.tt.find hash.toNat with
  | none => exact ht _ _
  | some e =>
    unfold probeK
    simp only
    by_cases hu : a.maxDepth < a.curDepth ∨ e.maxDepth < e.depth
    · rw [if_pos hu, if_pos hu]
      exact sim_throw_bind _ _ _
    · rw [if_neg hu, if_neg hu]
      by_cases hd : e.maxDepth - e.depth ≥ a.maxDepth - a.curDepth
      · rw [if_pos hd, if_pos hd]
        by_cases hx : (e.kind == kindExact) = true
        · rw [if_pos hx, if_pos hx]; exact sim_pure _
        · rw [if_neg hx, if_neg hx]
          by_cases hk : (e.kind == kindUpper) = true
          · rw [if_pos hk, if_pos hk]
            by_cases hc : a.alpha ≥ min a.beta e.eval
            · rw [if_pos hc, if_pos hc]; exact sim_pure _
            · rw [if_neg hc, if_neg hc]; exact ht _ _
          · rw [if_neg hk, if_neg hk]
            by_cases hc : max a.alpha e.eval ≥ a.beta
            · rw [if_pos hc, if_pos hc]; exact sim_pure _
            · rw [if_neg hc, if_neg hc]; exact ht _ _
      · rw [if_neg hd, if_neg hd]; exact ht _ _

theorem nodeBodyE_sim (ctx : Ctx) (a : NodeArgs)
    (recE : Option (NodeArgs → ME Eval)) (rec : Option (NodeArgs → M Eval))
    (hrec : match recE, rec with
      | Option.none, Option.none => True
      | some cE, some c => ∀ a, Sim (cE a) (c a)
      | _, _ => False) :
    Sim (nodeBodyE Env.empty ctx recE a) (C06.nodeBody ctx rec a) := by
  unfold nodeBodyE C06.nodeBody
  refine sim_bind (sim_modify _) fun _ => ?_
  refine sim_bind sim_get fun st => ?_
  simp only
  have hrest : Sim
      (if (decide (a.curDepth > 0) && ctx.history.contains (hash ctx.keys a.s)) = true then pure 0
        else probeE Env.empty ctx a (hash ctx.keys a.s) recE)
      (if (decide (a.curDepth > 0) && ctx.history.contains (hash ctx.keys a.s)) = true then pure 0
        else C06.probe ctx a (hash ctx.keys a.s) rec) := by
    split
    · exact sim_pure _
    · exact probeE_sim ctx a _ recE rec hrec
  by_cases hp : (st.nodes % Gen.pollInterval == 0) = true
  · rw [if_pos hp, if_pos hp]
    refine sim_bind (sim_set _) fun _ => ?_
    cases ctx.cancelAt with
    | none => simp only [Bool.false_eq_true, if_false]; exact hrest
    | some k =>
      simp only
      by_cases hc : decide (st.polls ≥ k) = true
      · rw [if_pos hc, if_pos hc]; exact sim_throw_bind _ _ _
      · rw [if_neg hc, if_neg hc]; exact hrest
  · rw [if_neg hp, if_neg hp]
    exact hrest

/-- **`searchNodeE_empty`.**  In the empty environment the worker of the interleaving semantics is the sequential
model's `searchNode`: same outcome (value, interrupt or panic) and same final state (table, generator, node and poll
counters), from every state and for every number of earlier table operations.  (The log of table operations is extra
information the sequential model does not produce.) -/
theorem searchNodeE_empty (ctx : Ctx) : ∀ (rem : Nat) (a : NodeArgs) (n : Nat) (st : St),
    ((searchNodeE Env.empty ctx rem a n st).1, (searchNodeE Env.empty ctx rem a n st).2.1) =
      (searchNode ctx rem a).run.run st := by
  intro rem
  induction rem with
  | zero =>
    intro a
    rw [searchNodeE_zero, C06.searchNode_zero]
    exact nodeBodyE_sim ctx a Option.none Option.none trivial
  | succ rem ih =>
    intro a
    rw [searchNodeE_succ, C06.searchNode_succ]
    exact nodeBodyE_sim ctx a (some _) (some _) ih

/-- the same for a worker's whole run of an iteration -/
theorem runWorkerE_empty (ctx : Ctx) (root : State) (w : Worker) (tt : TT.Access) :
    ((runWorkerE Env.empty ctx root w tt).1, (runWorkerE Env.empty ctx root w tt).2.1) =
      runWorker ctx root w.searchDepth w.best tt w.rng w.polls :=
  searchNodeE_empty ctx _ _ _ _

/-! ## 4. a Hoare logic for the worker monad, with rely and guarantee -/

/-- what is claimed of a worker computation:
`I` — invariant of the worker state (in particular of the shared table), kept at a normal return and at a panic;
`J` — what holds of the state at an interrupt; `A` — the outcomes that may be thrown;
`G` — the guarantee: what holds of every table insert the worker performs. -/
structure Spec where
  I : St → Prop
  J : St → Prop
  A : Stop → Prop
  G : Nat → TT.Entry → Prop

/-- the invariant-only specification: `I` everywhere, anything may be thrown -/
def Spec.inv (I : St → Prop) (G : Nat → TT.Entry → Prop) : Spec := { I := I, J := I, A := fun _ => True, G := G }

/-- every logged insert satisfies `G` -/
def LogOK (G : Nat → TT.Entry → Prop) (l : List TOp) : Prop := ∀ k e, TOp.insert k e ∈ l → G k e

theorem LogOK.nil {G : Nat → TT.Entry → Prop} : LogOK G [] := fun _ _ h => nomatch h
theorem LogOK.append {G : Nat → TT.Entry → Prop} {l1 l2 : List TOp} (h1 : LogOK G l1) (h2 : LogOK G l2) :
    LogOK G (l1 ++ l2) := fun k e h => (List.mem_append.1 h).elim (h1 k e) (h2 k e)

/-- outcome predicate -/
def PostE (V : Spec) {α : Type} (Q : α → Prop) : Except Stop α × St × List TOp → Prop
  | (.ok r, st, l) => V.I st ∧ Q r ∧ LogOK V.G l
  | (.error .interrupt, st, l) => V.A .interrupt ∧ V.J st ∧ LogOK V.G l
  | (.error (.panic w), st, l) => V.A (.panic w) ∧ V.I st ∧ LogOK V.G l

/-- from every state satisfying the invariant — and whatever the number of earlier table operations — `x` ends in
an outcome satisfying `PostE`: invariant kept, normal results satisfy `Q`, only allowed outcomes thrown, every own
insert satisfies the guarantee -/
def HoldsE (V : Spec) {α : Type} (x : ME α) (Q : α → Prop) : Prop := ∀ n st, V.I st → PostE V Q (x n st)

/-- **rely**: the invariant is stable under every batch of the environment -/
def Rely (V : Spec) (env : Env) : Prop :=
  ∀ st j, V.I st → V.I { st with tt := applyInserts st.tt (env.script j) }

theorem PostE.log {V : Spec} {α : Type} {Q : α → Prop} {o : Except Stop α × St × List TOp} (h : PostE V Q o) :
    LogOK V.G o.2.2 := by
  obtain ⟨r, st, l⟩ := o
  cases r with
  | ok v => exact h.2.2
  | error e => cases e with
    | interrupt => exact h.2.2
    | panic w => exact h.2.2

theorem PostE.ok {V : Spec} {α : Type} {Q : α → Prop} {o : Except Stop α × St × List TOp} (h : PostE V Q o)
    {r : α} (hr : o.1 = .ok r) : V.I o.2.1 ∧ Q r := by
  obtain ⟨r', st, l⟩ := o
  cases hr
  exact ⟨h.1, h.2.1⟩

theorem PostE.allowed {V : Spec} {α : Type} {Q : α → Prop} {o : Except Stop α × St × List TOp} (h : PostE V Q o)
    {e : Stop} (he : o.1 = .error e) : V.A e := by
  obtain ⟨r', st, l⟩ := o
  cases he
  cases e with
  | interrupt => exact h.1
  | panic w => exact h.1

/-- with `J = I` the invariant holds of the final state whatever the outcome -/
theorem PostE.same {V : Spec} (hJ : ∀ st, V.J st → V.I st) {α : Type} {Q : α → Prop}
    {o : Except Stop α × St × List TOp} (h : PostE V Q o) : V.I o.2.1 := by
  obtain ⟨r, st, l⟩ := o
  cases r with
  | ok v => exact h.1
  | error e => cases e with
    | interrupt => exact hJ _ h.2.1
    | panic w => exact h.2.1

section rules
variable {V : Spec} {α β : Type}

theorem holdsE_pure {Q : α → Prop} {a : α} (h : Q a) : HoldsE V (pure a : ME α) Q :=
  fun _ _ hi => ⟨hi, h, LogOK.nil⟩

theorem holdsE_panic {Q : α → Prop} {w : String} (h : V.A (.panic w)) : HoldsE V (throw (.panic w) : ME α) Q :=
  fun _ _ hi => ⟨h, hi, LogOK.nil⟩

theorem holdsE_interrupt {Q : α → Prop} (h : V.A .interrupt) (hJ : ∀ st, V.I st → V.J st) :
    HoldsE V (throw .interrupt : ME α) Q :=
  fun _ st hi => ⟨h, hJ st hi, LogOK.nil⟩

theorem holdsE_throw {Q : α → Prop} {e : Stop} (h : V.A e) (hJ : ∀ st, V.I st → V.J st) :
    HoldsE V (throw e : ME α) Q := by
  cases e with
  | interrupt => exact holdsE_interrupt h hJ
  | panic w => exact holdsE_panic h

theorem holdsE_bind {x : ME α} {f : α → ME β} {P : α → Prop} {Q : β → Prop}
    (hx : HoldsE V x P) (hf : ∀ a, P a → HoldsE V (f a) Q) : HoldsE V (x >>= f) Q := by
  intro n st hi
  rw [bind_run]
  have h1 := hx n st hi
  rcases hxo : x n st with ⟨r, st', l1⟩
  rw [hxo] at h1
  cases r with
  | error e =>
    cases e with
    | interrupt => exact h1
    | panic w => exact h1
  | ok a =>
    simp only
    obtain ⟨hi', hp, hl1⟩ := h1
    have h2 := hf a hp (n + l1.length) st' hi'
    rcases hfo : f a (n + l1.length) st' with ⟨r2, st2, l2⟩
    rw [hfo] at h2
    simp only
    cases r2 with
    | ok b => exact ⟨h2.1, h2.2.1, hl1.append h2.2.2⟩
    | error e =>
      cases e with
      | interrupt => exact ⟨h2.1, h2.2.1, hl1.append h2.2.2⟩
      | panic w => exact ⟨h2.1, h2.2.1, hl1.append h2.2.2⟩

theorem holdsE_get : HoldsE V (get : ME St) V.I := fun _ _ hi => ⟨hi, hi, LogOK.nil⟩

theorem holdsE_set {st' : St} (h : V.I st') : HoldsE V (set st' : ME PUnit) (fun _ => True) :=
  fun _ _ _ => ⟨h, trivial, LogOK.nil⟩

theorem holdsE_modify {f : St → St} (h : ∀ st, V.I st → V.I (f st)) : HoldsE V (modify f : ME PUnit) (fun _ => True) :=
  fun _ st hi => ⟨h st hi, trivial, LogOK.nil⟩

theorem holdsE_mono {x : ME α} {P Q : α → Prop} (h : HoldsE V x P) (hpq : ∀ a, P a → Q a) : HoldsE V x Q := by
  intro n st hi
  have h1 := h n st hi
  generalize x n st = o at h1 ⊢
  obtain ⟨r, st', l⟩ := o
  cases r with
  | ok a => exact ⟨h1.1, hpq a h1.2.1, h1.2.2⟩
  | error e => cases e with
    | interrupt => exact h1
    | panic w => exact h1

theorem throw_bindE_holds {γ : Type} {e : Stop} {f : γ → ME β} {Q : β → Prop} (h : V.A e)
    (hJ : ∀ st, V.I st → V.J st) : HoldsE V ((throw e : ME γ) >>= f) Q :=
  holdsE_bind (P := fun _ => False) (holdsE_throw h hJ) fun _ h => h.elim

/-- strengthen the invariant by a family of which every state satisfies one member -/
theorem holdsE_of_family {x : ME α} {Q : α → Prop} {F : Nat → St → Prop}
    (h : ∀ m, HoldsE { V with I := fun st => V.I st ∧ F m st } x Q) (hex : ∀ st, V.I st → ∃ m, F m st) :
    HoldsE V x Q := by
  intro n st hi
  obtain ⟨m, hm⟩ := hex st hi
  have h1 := h m n st ⟨hi, hm⟩
  generalize x n st = o at h1 ⊢
  obtain ⟨r, st', l⟩ := o
  cases r with
  | ok a => exact ⟨h1.1.1, h1.2.1, h1.2.2⟩
  | error e => cases e with
    | interrupt => exact h1
    | panic w => exact ⟨h1.1, h1.2.1.1, h1.2.2⟩

/-- a computation of the sequential model that cannot fail and only advances the generator (the move ordering) -/
theorem holdsE_liftE {x : M α} {P : α → Prop} (h : SearchCtl.RngOnly x P)
    (hrng : ∀ st r, V.I st → V.I { st with rng := r }) : HoldsE V (liftE x) P := by
  intro n st hi
  obtain ⟨v, r, hrun, hp⟩ := h st
  rw [liftE_run, hrun]
  exact ⟨hrng st r hi, hp, LogOK.nil⟩

/-- a lookup: the environment's batch keeps the invariant (rely), the result is what the table then holds -/
theorem holdsE_find {env : Env} (hrely : Rely V env) (k : Nat) :
    HoldsE V (findE env k) (fun r => ∃ st, V.I st ∧ st.tt.find k = r) := by
  intro n st hi
  rw [findE_run]
  exact ⟨hrely st n hi, ⟨_, hrely st n hi, rfl⟩, fun _ _ h => by simp at h⟩

/-- a store: after the environment's batch (rely) the own insert must keep the invariant and satisfy the guarantee -/
theorem holdsE_insert {env : Env} (hrely : Rely V env) {k : Nat} {e : TT.Entry}
    (hins : ∀ st, V.I st → V.I { st with tt := st.tt.insert k e }) (hG : V.G k e) :
    HoldsE V (insertE env k e) (fun _ => True) := by
  intro n st hi
  rw [insertE_run]
  refine ⟨hins _ (hrely st n hi), trivial, fun k' e' h => ?_⟩
  simp only [List.mem_singleton, TOp.insert.injEq] at h
  obtain ⟨rfl, rfl⟩ := h
  exact hG

end rules

/-! ## 5. the node entry, flat -/

set_option linter.unusedSimpArgs false in
/-- flat form of the node entry: count/poll (`SearchCtl.tick`), the history cut, then the probe -/
theorem nodeBodyE_run (env : Env) (ctx : Ctx) (rec : Option (NodeArgs → ME Eval)) (a : NodeArgs) (n : Nat) (st : St) :
    nodeBodyE env ctx rec a n st =
      match SearchCtl.tick ctx st with
      | (.error e, st1) => (.error e, st1, [])
      | (.ok _, st1) =>
        if (decide (a.curDepth > 0) && ctx.history.contains (Wee.hash ctx.keys a.s)) = true then (.ok 0, st1, [])
        else probeE env ctx a (Wee.hash ctx.keys a.s) rec n st1 := by
  unfold nodeBodyE SearchCtl.tick
  by_cases h1 : ((st.nodes + 1) % Gen.pollInterval == 0) = true
  · by_cases h3 : (decide (a.curDepth > 0) && ctx.history.contains (Wee.hash ctx.keys a.s)) = true
    · cases hc : ctx.cancelAt with
      | none => simp only [bind_run, modify_run, get_run, h1, h3, if_true, set_run, Bool.false_eq_true, if_false]; rfl
      | some k =>
        by_cases h2 : decide (st.polls ≥ k) = true
        · simp only [bind_run, modify_run, get_run, h1, h2, h3, if_true, set_run]; rfl
        · simp only [bind_run, modify_run, get_run, h1, h2, h3, if_true, set_run, if_false]; rfl
    · cases hc : ctx.cancelAt with
      | none => simp only [bind_run, modify_run, get_run, h1, h3, if_true, set_run, Bool.false_eq_true, if_false]; rfl
      | some k =>
        by_cases h2 : decide (st.polls ≥ k) = true
        · simp only [bind_run, modify_run, get_run, h1, h2, h3, if_true, set_run]; rfl
        · simp only [bind_run, modify_run, get_run, h1, h2, h3, if_true, set_run, if_false]; rfl
  · by_cases h3 : (decide (a.curDepth > 0) && ctx.history.contains (Wee.hash ctx.keys a.s)) = true
    · simp only [bind_run, modify_run, get_run, h1, h3, if_true, if_false]; rfl
    · simp only [bind_run, modify_run, get_run, h1, h3, if_true, if_false]; rfl

open Wee.SearchCtl (Walk InBuffer childArgs entryOf tick Post)

/-- the node entry in the logic: the tick is given by its `Post` (as in `SearchCtl.Walk`), the history cut returns 0,
otherwise the probe runs -/
theorem nodeBodyE_holds {V : Spec} {env : Env} {ctx : Ctx} {rec : Option (NodeArgs → ME Eval)} {a : NodeArgs}
    {Q : Eval → Prop} (htick : ∀ st, V.I st → Post V.I V.J V.A (tick ctx st))
    (h0 : (a.curDepth > 0 ∧ ctx.history.contains (Wee.hash ctx.keys a.s) = true) → Q 0)
    (hprobe : ¬ (a.curDepth > 0 ∧ ctx.history.contains (Wee.hash ctx.keys a.s) = true) →
      HoldsE V (probeE env ctx a (Wee.hash ctx.keys a.s) rec) Q) :
    HoldsE V (nodeBodyE env ctx rec a) Q := by
  intro n st hi
  rw [nodeBodyE_run]
  have ht := htick st hi
  generalize tick ctx st = out at ht
  obtain ⟨r, st1⟩ := out
  cases r with
  | error e =>
    cases e with
    | interrupt => exact ⟨ht.1, ht.2, LogOK.nil⟩
    | panic w => exact ⟨ht.1, ht.2, LogOK.nil⟩
  | ok u =>
    have hi1 : V.I st1 := ht
    simp only
    by_cases hc : (decide (a.curDepth > 0) && ctx.history.contains (Wee.hash ctx.keys a.s)) = true
    · rw [if_pos hc]; exact ⟨hi1, h0 (by simpa using hc), LogOK.nil⟩
    · rw [if_neg hc]; exact hprobe (by simpa using hc) n st1 hi1

theorem panic_bindE_holds {V : Spec} {γ β : Type} {w : String} {f : γ → ME β} {Q : β → Prop} (h : V.A (.panic w)) :
    HoldsE V ((throw (.panic w) : ME γ) >>= f) Q :=
  holdsE_bind (P := fun _ => False) (holdsE_panic h) fun _ h => h.elim

/-! ## 6. the generic induction over the worker's recursion

Every instance `SearchCtl.Walk ctx I J N A` of the generic induction of the sequential model (`searchNode_walk`:
no-panic, stop bound, depth bookkeeping, …) carries over to the worker in an environment, given that the invariant is
stable under the environment's batches (rely).  The guarantee `G` is shown for the two stores of a node. -/

section walk
variable {env : Env} {ctx : Ctx} {V : Spec} {N : Nat → NodeArgs → Prop}

/-- the guarantee for the stores of a node (same premisses as `Walk.insert`) -/
def InsertG (ctx : Ctx) (V : Spec) (N : Nat → NodeArgs → Prop) : Prop :=
  ∀ rem a pseudo mv m next kind ev, N (rem+1) a →
    ¬ (a.curDepth > 0 ∧ ctx.history.contains (Wee.hash ctx.keys a.s) = true) →
    pseudoLegalMoves a.s = some pseudo → InBuffer a pseudo mv → tryAsLegal a.s mv = some (some (m, next)) →
    V.G (Wee.hash ctx.keys a.s).toNat (entryOf a kind m ev)

/-- the recursive call matches the remaining depth and satisfies the induction hypothesis -/
def RecOK (V : Spec) (N : Nat → NodeArgs → Prop) (a : NodeArgs) : Nat → Option (NodeArgs → ME Eval) → Prop
  | 0, Option.none => N 0 a
  | rem' + 1, some child => N (rem' + 1) a ∧ ∀ a', N rem' a' → HoldsE V (child a') (fun _ => True)
  | _, _ => False

theorem childLoopE_walk (W : Walk ctx V.I V.J N V.A) (hrely : Rely V env) (hG : InsertG ctx V N)
    (rem : Nat) (child : NodeArgs → ME Eval)
    (ih : ∀ a, N rem a → HoldsE V (child a) (fun _ => True))
    (a : NodeArgs) (pseudo : List Move) (hN : N (rem+1) a) (hp : pseudoLegalMoves a.s = some pseudo)
    (hcut : ¬ (a.curDepth > 0 ∧ ctx.history.contains (Wee.hash ctx.keys a.s) = true)) :
    ∀ (l : List Move), (∀ mv ∈ l, InBuffer a pseudo mv) → ∀ (alpha : Eval) (best : Option Move) (kind : Nat),
      (∀ m, best = some m → ∃ mv next, InBuffer a pseudo mv ∧ tryAsLegal a.s mv = some (some (m, next))) →
      HoldsE V (childLoopE env ctx child a (Wee.hash ctx.keys a.s) l alpha best kind)
        (fun res => ∀ al b k, res = .ok (al, b, k) → ∀ m, b = some m →
          ∃ mv next, InBuffer a pseudo mv ∧ tryAsLegal a.s mv = some (some (m, next))) := by
  intro l
  induction l with
  | nil =>
    intro _ alpha best kind hb
    rw [childLoopE]
    exact holdsE_pure fun al b k h => by cases h; exact hb
  | cons mv rest ihl =>
    intro hl alpha best kind hb
    have hmv := hl mv List.mem_cons_self
    have hrest : ∀ mv ∈ rest, InBuffer a pseudo mv := fun x hx => hl x (List.mem_cons_of_mem _ hx)
    rw [childLoopE]
    cases ht : tryAsLegal a.s mv with
    | none => exact holdsE_panic (W.legal rem a pseudo mv hN hp hmv ht)
    | some o =>
      cases o with
      | none => exact ihl hrest alpha best kind hb
      | some r =>
        obtain ⟨m, next⟩ := r
        simp only
        refine holdsE_bind (ih _ (W.child rem a pseudo mv m next alpha hN hp hmv ht)) fun v _ => ?_
        by_cases c1 : -v ≥ a.beta
        · rw [if_pos c1]
          refine holdsE_bind (holdsE_insert hrely (fun st hi => ?_) ?_) fun _ _ => holdsE_pure ?_
          · exact W.insert rem a pseudo mv m next kindLower a.beta st hN hi hcut hp hmv ht
          · exact hG rem a pseudo mv m next kindLower a.beta hN hcut hp hmv ht
          · intro al b k h; cases h
        · rw [if_neg c1]
          by_cases c2 : -v > alpha
          · rw [if_pos c2]
            refine ihl hrest (-v) (some m) kindExact ?_
            intro m' hm'
            cases hm'
            exact ⟨mv, next, hmv, ht⟩
          · rw [if_neg c2]
            exact ihl hrest alpha best kind hb

theorem tailE_walk (W : Walk ctx V.I V.J N V.A) (hrely : Rely V env) (hG : InsertG ctx V N)
    (rem : Nat) (a : NodeArgs) (alpha beta : Eval)
    (hcut : ¬ (a.curDepth > 0 ∧ ctx.history.contains (Wee.hash ctx.keys a.s) = true))
    (rec : Option (NodeArgs → ME Eval))
    (hrec : RecOK V N a rem rec) :
    HoldsE V (tailE env ctx a (Wee.hash ctx.keys a.s) alpha beta rec) (fun _ => True) := by
  cases rec with
  | none =>
    cases rem with
    | succ r => exact hrec.elim
    | zero =>
      replace hrec : N 0 a := hrec
      unfold tailE
      cases hq : quiesce evaluate (quiesceFuel a.s) a.s a.curDepth alpha beta with
      | ok v => exact holdsE_pure trivial
      | error e =>
        have := W.leaf a _ _ e hrec hq
        obtain ⟨w, rfl⟩ := SearchCtl.quiesce_error_panic _ _ _ _ _ _ _ hq
        exact holdsE_panic this
  | some child =>
    cases rem with
    | zero => exact hrec.elim
    | succ r =>
      obtain ⟨hN, ih⟩ : N (r + 1) a ∧ ∀ a', N r a' → HoldsE V (child a') (fun _ => True) := hrec
      unfold tailE
      cases hp : pseudoLegalMoves a.s with
      | none => exact holdsE_panic (W.pseudo r a hN hp)
      | some pseudo =>
        simp only
        refine holdsE_bind (holdsE_liftE (SearchCtl.sort_rngOnly a.s pseudo) W.rng) fun sorted hperm => ?_
        refine holdsE_bind holdsE_get fun st0 _ => ?_
        have hN' := W.window (r+1) a alpha beta hN
        refine holdsE_bind (childLoopE_walk W hrely hG r child ih { a with alpha := alpha, beta := beta } pseudo hN' hp hcut
          _ (SearchCtl.mem_bufferOf (a := { a with alpha := alpha, beta := beta }) hperm) alpha Option.none kindUpper
          (by intro m hm; cases hm)) fun res hres => ?_
        rcases res with b | ⟨alpha', best, kind⟩
        · exact holdsE_pure trivial
        · simp only
          refine holdsE_bind holdsE_get fun st1 _ => ?_
          by_cases hn : (st1.nodes == st0.nodes) = true
          · rw [if_pos hn]
            cases he : evaluate a.s a.s.turn a.curDepth with
            | some e => exact holdsE_pure trivial
            | none => exact panic_bindE_holds (W.eval r a hN he)
          · rw [if_neg hn]
            cases best with
            | none => exact holdsE_pure trivial
            | some m =>
              obtain ⟨mv, next, hmv, ht⟩ := hres _ _ _ rfl m rfl
              refine holdsE_bind (holdsE_insert hrely (fun st hi => ?_) ?_) fun _ _ => holdsE_pure trivial
              · exact W.insert r a pseudo mv m next kind alpha' st hN hi hcut hp hmv ht
              · exact hG r a pseudo mv m next kind alpha' hN hcut hp hmv ht

theorem probeE_walk (W : Walk ctx V.I V.J N V.A) (hrely : Rely V env) (hG : InsertG ctx V N)
    (rem : Nat) (a : NodeArgs) (hN : N rem a)
    (hcut : ¬ (a.curDepth > 0 ∧ ctx.history.contains (Wee.hash ctx.keys a.s) = true))
    (rec : Option (NodeArgs → ME Eval))
    (hrec : RecOK V N a rem rec) :
    HoldsE V (probeE env ctx a (Wee.hash ctx.keys a.s) rec) (fun _ => True) := by
  have ht : ∀ alpha beta, HoldsE V (tailE env ctx a (Wee.hash ctx.keys a.s) alpha beta rec) (fun _ => True) :=
    fun alpha beta => tailE_walk W hrely hG rem a alpha beta hcut rec hrec
  unfold probeE
  refine holdsE_bind (holdsE_find hrely _) fun r ⟨st, hi, hf⟩ => ?_
  cases r with
  | none => exact ht _ _
  | some e =>
    unfold probeK
    simp only
    by_cases hu : a.maxDepth < a.curDepth ∨ e.maxDepth < e.depth
    · rw [if_pos hu]
      exact panic_bindE_holds (W.underflow rem a st e hN hi hf hu)
    · rw [if_neg hu]
      split
      · split
        · exact holdsE_pure trivial
        · split
          · split
            · exact holdsE_pure trivial
            · exact ht _ _
          · split
            · exact holdsE_pure trivial
            · exact ht _ _
      · exact ht _ _

/-- **the generic induction for the worker in an environment** -/
theorem searchNodeE_walk (W : Walk ctx V.I V.J N V.A) (hrely : Rely V env) (hG : InsertG ctx V N) :
    ∀ (rem : Nat) (a : NodeArgs), N rem a → HoldsE V (searchNodeE env ctx rem a) (fun _ => True) := by
  intro rem
  induction rem with
  | zero =>
    intro a hN
    rw [searchNodeE_zero]
    exact nodeBodyE_holds W.tick (fun _ => trivial) fun hcut => probeE_walk W hrely hG 0 a hN hcut Option.none hN
  | succ rem ih =>
    intro a hN
    rw [searchNodeE_succ]
    exact nodeBodyE_holds W.tick (fun _ => trivial) fun hcut =>
      probeE_walk W hrely hG (rem+1) a hN hcut (some _) ⟨hN, ih⟩

end walk

/-! ## 7. causality: the first `K` own operations depend on the first `K` batches only -/

/-- two outcomes of runs started with `n` earlier operations agree up to operation number `K` (counted from the
worker's start): if the first run performs no operation beyond number `K` the outcomes are equal; otherwise both go
beyond it and their logs agree on the operations before number `K` -/
def Agree {α : Type} (K n : Nat) (o o' : Except Stop α × St × List TOp) : Prop :=
  (n + o.2.2.length ≤ K → o = o') ∧
  (K < n + o.2.2.length → K < n + o'.2.2.length ∧ o.2.2.take (K - n) = o'.2.2.take (K - n))

def Rel {α : Type} (K : Nat) (x x' : ME α) : Prop := ∀ n st, Agree K n (x n st) (x' n st)

theorem Agree.refl {α : Type} (K n : Nat) (o : Except Stop α × St × List TOp) : Agree K n o o :=
  ⟨fun _ => rfl, fun h => ⟨h, rfl⟩⟩

theorem rel_refl {α : Type} (K : Nat) (x : ME α) : Rel K x x := fun _ _ => Agree.refl _ _ _

theorem bind_log {α β : Type} (x : ME α) (f : α → ME β) (n : Nat) (st : St) :
    ∃ l2, ((x >>= f) n st).2.2 = (x n st).2.2 ++ l2 := by
  rw [bind_run]
  rcases x n st with ⟨r, st1, l1⟩
  cases r with
  | error e => exact ⟨[], (List.append_nil _).symm⟩
  | ok a =>
    simp only
    rcases f a (n + l1.length) st1 with ⟨r2, st2, l2⟩
    exact ⟨l2, rfl⟩

theorem take_append_of_le {γ : Type} (l1 l2 : List γ) {i : Nat} (h : i ≤ l1.length) :
    (l1 ++ l2).take i = l1.take i := by
  rw [List.take_append, Nat.sub_eq_zero_of_le h, List.take_zero, List.append_nil]

theorem rel_bind {α β : Type} {K : Nat} {x x' : ME α} {f f' : α → ME β} (hx : Rel K x x')
    (hf : ∀ a, Rel K (f a) (f' a)) : Rel K (x >>= f) (x' >>= f') := by
  intro n st
  have h := hx n st
  by_cases hle : n + (x n st).2.2.length ≤ K
  · have heq := h.1 hle
    rw [bind_run, bind_run, ← heq]
    generalize x n st = o at hle ⊢
    obtain ⟨r, st1, l1⟩ := o
    cases r with
    | error e => exact Agree.refl _ _ _
    | ok a =>
      simp only
      have h2 := hf a (n + l1.length) st1
      generalize f a (n + l1.length) st1 = o2 at h2 ⊢
      generalize f' a (n + l1.length) st1 = o2' at h2 ⊢
      obtain ⟨r2, st2, l2⟩ := o2
      obtain ⟨r2', st2', l2'⟩ := o2'
      obtain ⟨ha, hb⟩ := h2
      dsimp only at hle ha hb ⊢
      refine ⟨fun hl => ?_, fun hl => ?_⟩
      · rw [List.length_append] at hl
        have := ha (by omega)
        cases this
        rfl
      · rw [List.length_append] at hl
        obtain ⟨hb1, hb2⟩ := hb (by omega)
        refine ⟨by rw [List.length_append]; omega, ?_⟩
        rw [List.take_append, List.take_append, List.take_of_length_le (by omega),
          show K - n - l1.length = K - (n + l1.length) by omega, hb2]
  · obtain ⟨hb1, hb2⟩ := h.2 (by omega)
    obtain ⟨l2, e2⟩ := bind_log x f n st
    obtain ⟨l2', e2'⟩ := bind_log x' f' n st
    refine ⟨fun hl => ?_, fun _ => ⟨?_, ?_⟩⟩
    · rw [e2, List.length_append] at hl; omega
    · rw [e2', List.length_append]; omega
    · rw [e2, e2', take_append_of_le _ _ (by omega), take_append_of_le _ _ (by omega), hb2]

theorem rel_find {K : Nat} {env env' : Env} (h : ∀ j, j < K → env.script j = env'.script j) (k : Nat) :
    Rel K (findE env k) (findE env' k) := by
  intro n st
  by_cases hn : n < K
  · rw [findE_run, findE_run, h n hn]; exact Agree.refl _ _ _
  · rw [findE_run, findE_run]
    refine ⟨fun hl => ?_, fun _ => ⟨?_, ?_⟩⟩
    · simp only [List.length_singleton] at hl; omega
    · simp only [List.length_singleton]; omega
    · rw [Nat.sub_eq_zero_of_le (by omega), List.take_zero, List.take_zero]

theorem rel_insert {K : Nat} {env env' : Env} (h : ∀ j, j < K → env.script j = env'.script j) (k : Nat) (e : TT.Entry) :
    Rel K (insertE env k e) (insertE env' k e) := by
  intro n st
  by_cases hn : n < K
  · rw [insertE_run, insertE_run, h n hn]; exact Agree.refl _ _ _
  · rw [insertE_run, insertE_run]
    refine ⟨fun hl => ?_, fun _ => ⟨?_, rfl⟩⟩
    · simp only [List.length_singleton] at hl; omega
    · simp only [List.length_singleton]; omega

theorem rel_throw_bind {γ β : Type} {K : Nat} (e : Stop) (f f' : γ → ME β) :
    Rel K ((throw e : ME γ) >>= f) ((throw e : ME γ) >>= f') := fun _ _ => Agree.refl _ _ _

section causal
variable {K : Nat} {env env' : Env} (hagree : ∀ j, j < K → env.script j = env'.script j) (ctx : Ctx)
include hagree

theorem childLoopE_rel (child child' : NodeArgs → ME Eval) (hc : ∀ a, Rel K (child a) (child' a))
    (a : NodeArgs) (hash : UInt64) :
    ∀ (l : List Move) (alpha : Eval) (best : Option Move) (kind : Nat),
      Rel K (childLoopE env ctx child a hash l alpha best kind) (childLoopE env' ctx child' a hash l alpha best kind) := by
  intro l
  induction l with
  | nil => intro alpha best kind; rw [childLoopE, childLoopE]; exact rel_refl _ _
  | cons mv rest ih =>
    intro alpha best kind
    rw [childLoopE, childLoopE]
    cases tryAsLegal a.s mv with
    | none => exact rel_refl _ _
    | some o =>
      cases o with
      | none => exact ih alpha best kind
      | some r =>
        obtain ⟨m, next⟩ := r
        simp only
        refine rel_bind (hc _) fun v => ?_
        by_cases h1 : -v ≥ a.beta
        · rw [if_pos h1, if_pos h1]
          exact rel_bind (rel_insert hagree _ _) fun _ => rel_refl _ _
        · rw [if_neg h1, if_neg h1]
          by_cases h2 : -v > alpha
          · rw [if_pos h2, if_pos h2]; exact ih _ _ _
          · rw [if_neg h2, if_neg h2]; exact ih _ _ _

/-- the two recursive calls correspond -/
def RecRel (K : Nat) : Option (NodeArgs → ME Eval) → Option (NodeArgs → ME Eval) → Prop
  | Option.none, Option.none => True
  | some c, some c' => ∀ a, Rel K (c a) (c' a)
  | _, _ => False

theorem tailE_rel (a : NodeArgs) (hash : UInt64) (alpha beta : Eval)
    (rec rec' : Option (NodeArgs → ME Eval)) (hrec : RecRel K rec rec') :
    Rel K (tailE env ctx a hash alpha beta rec) (tailE env' ctx a hash alpha beta rec') := by
  cases rec with
  | none =>
    cases rec' with
    | some c => exact hrec.elim
    | none => unfold tailE; exact rel_refl _ _
  | some c =>
    cases rec' with
    | none => exact hrec.elim
    | some c' =>
      replace hrec : ∀ a, Rel K (c a) (c' a) := hrec
      unfold tailE
      cases pseudoLegalMoves a.s with
      | none => exact rel_refl _ _
      | some pseudo =>
        simp only
        refine rel_bind (rel_refl _ _) fun sorted => ?_
        refine rel_bind (rel_refl _ _) fun st0 => ?_
        refine rel_bind (childLoopE_rel hagree ctx c c' hrec _ hash _ _ _ _) fun res => ?_
        rcases res with b | ⟨alpha', best, kind⟩
        · exact rel_refl _ _
        · simp only
          refine rel_bind (rel_refl _ _) fun st1 => ?_
          by_cases hn : (st1.nodes == st0.nodes) = true
          · rw [if_pos hn, if_pos hn]
            cases evaluate a.s a.s.turn a.curDepth with
            | some e => exact rel_refl _ _
            | none => exact rel_throw_bind _ _ _
          · rw [if_neg hn, if_neg hn]
            cases best with
            | none => exact rel_refl _ _
            | some m => exact rel_bind (rel_insert hagree _ _) fun _ => rel_refl _ _

theorem probeE_rel (a : NodeArgs) (hash : UInt64) (rec rec' : Option (NodeArgs → ME Eval)) (hrec : RecRel K rec rec') :
    Rel K (probeE env ctx a hash rec) (probeE env' ctx a hash rec') := by
  have ht : ∀ alpha beta, Rel K (tailE env ctx a hash alpha beta rec) (tailE env' ctx a hash alpha beta rec') :=
    fun alpha beta => tailE_rel hagree ctx a hash alpha beta rec rec' hrec
  unfold probeE
  refine rel_bind (rel_find hagree _) fun r => ?_
  cases r with
  | none => exact ht _ _
  | some e =>
    unfold probeK
    simp only
    by_cases hu : a.maxDepth < a.curDepth ∨ e.maxDepth < e.depth
    · rw [if_pos hu, if_pos hu]
      exact rel_throw_bind _ _ _
    · rw [if_neg hu, if_neg hu]
      by_cases hd : e.maxDepth - e.depth ≥ a.maxDepth - a.curDepth
      · rw [if_pos hd, if_pos hd]
        by_cases hx : (e.kind == kindExact) = true
        · rw [if_pos hx, if_pos hx]; exact rel_refl _ _
        · rw [if_neg hx, if_neg hx]
          by_cases hk : (e.kind == kindUpper) = true
          · rw [if_pos hk, if_pos hk]
            by_cases hc : a.alpha ≥ min a.beta e.eval
            · rw [if_pos hc, if_pos hc]; exact rel_refl _ _
            · rw [if_neg hc, if_neg hc]; exact ht _ _
          · rw [if_neg hk, if_neg hk]
            by_cases hc : max a.alpha e.eval ≥ a.beta
            · rw [if_pos hc, if_pos hc]; exact rel_refl _ _
            · rw [if_neg hc, if_neg hc]; exact ht _ _
      · rw [if_neg hd, if_neg hd]; exact ht _ _

theorem nodeBodyE_rel (a : NodeArgs) (rec rec' : Option (NodeArgs → ME Eval)) (hrec : RecRel K rec rec') :
    Rel K (nodeBodyE env ctx rec a) (nodeBodyE env' ctx rec' a) := by
  intro n st
  rw [nodeBodyE_run, nodeBodyE_run]
  rcases tick ctx st with ⟨r, st1⟩
  cases r with
  | error e => exact Agree.refl _ _ _
  | ok u =>
    simp only
    split
    · exact Agree.refl _ _ _
    · exact probeE_rel hagree ctx a _ rec rec' hrec n st1

/-- **causality.**  If two environments have the same first `K` batches, the worker behaves in both in the same way
up to its operation number `K`: started with `n` earlier operations, either it performs no operation beyond number `K`
and the two runs are identical (outcome, state, log), or both runs go beyond number `K` and their logs agree on the
operations before it. -/
theorem searchNodeE_causal : ∀ (rem : Nat) (a : NodeArgs),
    Rel K (searchNodeE env ctx rem a) (searchNodeE env' ctx rem a) := by
  intro rem
  induction rem with
  | zero =>
    intro a
    rw [searchNodeE_zero, searchNodeE_zero]
    exact nodeBodyE_rel hagree ctx a Option.none Option.none trivial
  | succ rem ih =>
    intro a
    rw [searchNodeE_succ, searchNodeE_succ]
    exact nodeBodyE_rel hagree ctx a (some _) (some _) ih

/-- the first `K` logged operations of a worker's run depend on the first `K` batches of the environment only -/
theorem runWorkerE_causal (root : State) (w : Worker) (tt : TT.Access) :
    (runWorkerE env ctx root w tt).2.2.take K = (runWorkerE env' ctx root w tt).2.2.take K := by
  have h := searchNodeE_causal hagree ctx w.searchDepth
    { s := root, maxDepth := w.searchDepth, curDepth := 0, curExt := 0,
      alpha := - Ev.mateInPly 0, beta := Ev.mateInPly 0, prioritized := w.best }
    0 { tt, rng := w.rng, nodes := 0, polls := w.polls }
  unfold runWorkerE
  by_cases hle : 0 + (searchNodeE env ctx w.searchDepth
    { s := root, maxDepth := w.searchDepth, curDepth := 0, curExt := 0,
      alpha := - Ev.mateInPly 0, beta := Ev.mateInPly 0, prioritized := w.best }
    0 { tt, rng := w.rng, nodes := 0, polls := w.polls }).2.2.length ≤ K
  · rw [h.1 hle]
  · exact (h.2 (by omega)).2

end causal

/-! ## 8. global histories: projection, induced environments, the rely/guarantee induction -/

theorem proj_append (H1 H2 : History) (i : Nat) : History.proj (H1 ++ H2) i = History.proj H1 i ++ History.proj H2 i := by
  unfold History.proj
  rw [List.filter_append, List.map_append]

theorem proj_cons_own (i : Nat) (op : TOp) (H : History) : History.proj ((i, op) :: H) i = op :: History.proj H i := by
  unfold History.proj
  simp

theorem consHead_ne_nil (p : Nat × TT.Entry) (bs : List (List (Nat × TT.Entry))) : consHead p bs ≠ [] := by
  cases bs <;> simp [consHead]

theorem batchesOf_ne_nil (i : Nat) : ∀ H : History, batchesOf i H ≠ [] := by
  intro H
  induction H with
  | nil => simp [batchesOf]
  | cons p rest ih =>
    obtain ⟨j, op⟩ := p
    cases op with
    | find k r => rw [batchesOf]; split; · simp
                  · exact ih
    | insert k e => rw [batchesOf]; split; · simp
                    · exact consHead_ne_nil _ _

theorem batchesOf_cons_own (i : Nat) (op : TOp) (H : History) : batchesOf i ((i, op) :: H) = [] :: batchesOf i H := by
  cases op <;> (rw [batchesOf]; simp)

theorem batchesOf_cons_other_find {i j : Nat} (h : (j == i) = false) (k : Nat) (r : Option TT.Entry) (H : History) :
    batchesOf i ((j, TOp.find k r) :: H) = batchesOf i H := by
  rw [batchesOf, h]; rfl

theorem batchesOf_cons_other_insert {i j : Nat} (h : (j == i) = false) (k : Nat) (e : TT.Entry) (H : History) :
    batchesOf i ((j, TOp.insert k e) :: H) = consHead (k, e) (batchesOf i H) := by
  rw [batchesOf, h]; rfl

theorem consHead_append (p : Nat × TT.Entry) {bs : List (List (Nat × TT.Entry))} (h : bs ≠ [])
    (cs : List (List (Nat × TT.Entry))) : consHead p (bs ++ cs) = consHead p bs ++ cs := by
  cases bs with
  | nil => exact absurd rfl h
  | cons b bs => rfl

/-- the batches up to worker `i`'s next own operation are determined by the history before that operation -/
theorem batchesOf_append_own (i : Nat) (op : TOp) (H2 : History) :
    ∀ H1 : History, batchesOf i (H1 ++ (i, op) :: H2) = batchesOf i H1 ++ batchesOf i H2 := by
  intro H1
  induction H1 with
  | nil => rw [List.nil_append, batchesOf_cons_own]; rfl
  | cons p rest ih =>
    obtain ⟨j, o⟩ := p
    rw [List.cons_append]
    cases hj : (j == i) with
    | true =>
      have : j = i := by simpa using hj
      subst this
      rw [batchesOf_cons_own, batchesOf_cons_own, ih]; rfl
    | false =>
      cases o with
      | find k r => rw [batchesOf_cons_other_find hj, batchesOf_cons_other_find hj, ih]
      | insert k e =>
        rw [batchesOf_cons_other_insert hj, batchesOf_cons_other_insert hj, ih,
          consHead_append _ (batchesOf_ne_nil i rest)]

theorem consHead_length (p : Nat × TT.Entry) {bs : List (List (Nat × TT.Entry))} (h : bs ≠ []) :
    (consHead p bs).length = bs.length := by
  cases bs with
  | nil => exact absurd rfl h
  | cons b bs => rfl

theorem proj_cons_other {i j : Nat} (h : (j == i) = false) (o : TOp) (H : History) :
    History.proj ((j, o) :: H) i = History.proj H i := by
  unfold History.proj
  rw [List.filter_cons_of_neg (by simpa using h)]

theorem batchesOf_length (i : Nat) : ∀ H : History, (batchesOf i H).length = (History.proj H i).length + 1 := by
  intro H
  induction H with
  | nil => rfl
  | cons p rest ih =>
    obtain ⟨j, o⟩ := p
    cases hj : (j == i) with
    | true =>
      have : j = i := by simpa using hj
      subst this
      rw [batchesOf_cons_own, proj_cons_own, List.length_cons, List.length_cons, ih]
    | false =>
      rw [proj_cons_other hj]
      cases o with
      | find k r => rw [batchesOf_cons_other_find hj]; exact ih
      | insert k e => rw [batchesOf_cons_other_insert hj, consHead_length _ (batchesOf_ne_nil i rest)]; exact ih

theorem consHead_mem {p : Nat × TT.Entry} {bs : List (List (Nat × TT.Entry))} {b : List (Nat × TT.Entry)}
    (hb : b ∈ consHead p bs) {q : Nat × TT.Entry} (hq : q ∈ b) : q = p ∨ ∃ b' ∈ bs, q ∈ b' := by
  cases bs with
  | nil =>
    simp only [consHead, List.mem_singleton] at hb
    subst hb
    simp only [List.mem_singleton] at hq
    exact Or.inl hq
  | cons b0 bs =>
    simp only [consHead] at hb
    rcases List.mem_cons.1 hb with rfl | hb
    · rcases List.mem_cons.1 hq with rfl | hq
      · exact Or.inl rfl
      · exact Or.inr ⟨b0, List.mem_cons_self, hq⟩
    · exact Or.inr ⟨b, List.mem_cons_of_mem _ hb, hq⟩

/-- every insert of a batch is an insert of another worker recorded in the history -/
theorem batchesOf_mem (i : Nat) : ∀ (H : History), ∀ b ∈ batchesOf i H, ∀ p ∈ b,
    ∃ j, j ≠ i ∧ (j, TOp.insert p.1 p.2) ∈ H := by
  intro H
  induction H with
  | nil => intro b hb p hp; simp [batchesOf] at hb; subst hb; cases hp
  | cons q rest ih =>
    obtain ⟨j, o⟩ := q
    intro b hb p hp
    have hlift : (∃ j', j' ≠ i ∧ (j', TOp.insert p.1 p.2) ∈ rest) →
        ∃ j', j' ≠ i ∧ (j', TOp.insert p.1 p.2) ∈ (j, o) :: rest :=
      fun ⟨j', h1, h2⟩ => ⟨j', h1, List.mem_cons_of_mem _ h2⟩
    cases hj : (j == i) with
    | true =>
      have : j = i := by simpa using hj
      subst this
      rw [batchesOf_cons_own] at hb
      rcases List.mem_cons.1 hb with rfl | hb
      · cases hp
      · exact hlift (ih b hb p hp)
    | false =>
      cases o with
      | find k r => rw [batchesOf_cons_other_find hj] at hb; exact hlift (ih b hb p hp)
      | insert k e =>
        rw [batchesOf_cons_other_insert hj] at hb
        rcases consHead_mem hb hp with rfl | ⟨b', hb', hp'⟩
        · exact ⟨j, by simpa using hj, List.mem_cons_self⟩
        · exact hlift (ih b' hb' p hp')

theorem envOf_mem {H : History} {i j : Nat} {p : Nat × TT.Entry} (hp : p ∈ (envOf H i).script j) :
    ∃ j', j' ≠ i ∧ (j', TOp.insert p.1 p.2) ∈ H := by
  unfold envOf Env.ofList at hp
  simp only at hp
  by_cases hj : j < (batchesOf i H).length
  · rw [List.getD_eq_getElem?_getD, List.getElem?_eq_getElem hj] at hp
    exact batchesOf_mem i H _ (List.getElem_mem hj) p hp
  · rw [List.getD_eq_getElem?_getD, List.getElem?_eq_none (by omega)] at hp
    cases hp

/-- up to worker `i`'s operation number `m` (its next one after `H1`) the whole history induces the same environment
as its prefix `H1` -/
theorem envOf_prefix (i : Nat) (op : TOp) (H1 H2 : History) :
    ∀ j, j < (History.proj H1 i).length + 1 → (envOf (H1 ++ (i, op) :: H2) i).script j = (envOf H1 i).script j := by
  intro j hj
  unfold envOf Env.ofList
  simp only
  rw [batchesOf_append_own, List.getD_eq_getElem?_getD, List.getD_eq_getElem?_getD,
    List.getElem?_append_left (by rw [batchesOf_length]; exact hj)]

theorem forall_mem_of_prefix_step {γ : Type} {P : γ → Prop} : ∀ (l : List γ),
    (∀ l1 p l2, l = l1 ++ p :: l2 → (∀ q ∈ l1, P q) → P p) → ∀ q ∈ l, P q := by
  intro l
  induction l with
  | nil => intro _ q hq; cases hq
  | cons a t ih =>
    intro h q hq
    have ha : P a := h [] a t rfl (fun _ hq => nomatch hq)
    rcases List.mem_cons.1 hq with rfl | hq
    · exact ha
    · refine ih (fun l1 p l2 hl hall => ?_) q hq
      refine h (a :: l1) p l2 (by rw [hl]; rfl) (fun q' hq' => ?_)
      rcases List.mem_cons.1 hq' with rfl | hq'
      · exact ha
      · exact hall q' hq'

/-- **rely/guarantee for global histories.**  Let `Adm` be a predicate on inserts such that every worker, in every
environment all of whose inserts are `Adm`, performs only `Adm` inserts (guarantee = rely).  Then in every execution `H`
of the workers ALL inserts are `Adm`.  The circularity (each worker's guarantee relies on the others') is broken by
induction on the length of the history: the `m`-th operation of worker `i` depends only on the foreign inserts that
precede it (`runWorkerE_causal`), which are `Adm` by the induction hypothesis. -/
theorem interleaving_guarantee {ctx : Ctx} {root : State} {tt : TT.Access} {ws : List Worker} {H : History}
    (Adm : Nat → TT.Entry → Prop)
    (hworker : ∀ i (h : i < ws.length) (env : Env), (∀ j, ∀ p ∈ env.script j, Adm p.1 p.2) →
      LogOK Adm (runWorkerE env ctx root ws[i] tt).2.2)
    (hI : Interleaving ctx root tt ws H) : ∀ p ∈ H, ∀ k e, p.2 = TOp.insert k e → Adm k e := by
  refine forall_mem_of_prefix_step H fun H1 p H2 hH hall k e hp => ?_
  obtain ⟨i, op⟩ := p
  replace hp : op = TOp.insert k e := hp
  subst hp
  have hi : i < ws.length := hI.1 (i, TOp.insert k e) (by rw [hH]; simp)
  have hlog := hI.2 i hi
  rw [hH, proj_append, proj_cons_own] at hlog
  -- the environment induced by the prefix is admissible
  have hadm : ∀ j, ∀ p ∈ (envOf H1 i).script j, Adm p.1 p.2 := by
    intro j p hp
    obtain ⟨j', _, hmem⟩ := envOf_mem hp
    exact hall _ hmem p.1 p.2 rfl
  have hg := hworker i hi (envOf H1 i) hadm
  -- and it agrees with the full one up to this operation
  have hc := runWorkerE_causal (K := (History.proj H1 i).length + 1) (env := envOf (H1 ++ (i, TOp.insert k e) :: H2) i)
    (env' := envOf H1 i) (envOf_prefix i _ H1 H2) ctx root ws[i] tt
  rw [hlog] at hc
  have hmem : TOp.insert k e ∈ (History.proj H1 i ++ TOp.insert k e :: History.proj H2 i).take
      ((History.proj H1 i).length + 1) := by
    rw [List.take_append, List.take_of_length_le (by omega)]
    simp
  rw [hc] at hmem
  exact hg k e (List.mem_of_mem_take hmem)

/-- the environment an execution induces for a worker is made of inserts of the execution -/
theorem envOf_adm {H : History} {Adm : Nat → TT.Entry → Prop}
    (h : ∀ p ∈ H, ∀ k e, p.2 = TOp.insert k e → Adm k e) (i : Nat) :
    ∀ j, ∀ p ∈ (envOf H i).script j, Adm p.1 p.2 := by
  intro j p hp
  obtain ⟨j', _, hmem⟩ := envOf_mem hp
  exact h _ hmem p.1 p.2 rfl

/-- a table property that is kept by `Adm` inserts holds of the shared table after every prefix of the history -/
theorem table_inv {P : TT.Access → Prop} {Adm : Nat → TT.Entry → Prop}
    (hstep : ∀ tt k e, P tt → Adm k e → P (tt.insert k e)) :
    ∀ (H : History) (tt : TT.Access), P tt → (∀ p ∈ H, ∀ k e, p.2 = TOp.insert k e → Adm k e) →
      P (History.table tt H) := by
  intro H
  induction H with
  | nil => intro tt h _; exact h
  | cons p rest ih =>
    intro tt h hall
    obtain ⟨j, op⟩ := p
    unfold History.table
    rw [List.foldl_cons]
    refine ih _ ?_ (fun q hq => hall q (List.mem_cons_of_mem _ hq))
    cases op with
    | find k r => exact h
    | insert k e => exact hstep tt k e h (hall _ List.mem_cons_self k e rfl)

theorem applyInserts_inv {P : TT.Access → Prop} {Adm : Nat → TT.Entry → Prop}
    (hstep : ∀ tt k e, P tt → Adm k e → P (tt.insert k e)) :
    ∀ (b : List (Nat × TT.Entry)) (tt : TT.Access), P tt → (∀ p ∈ b, Adm p.1 p.2) → P (applyInserts tt b) := by
  intro b
  induction b with
  | nil => intro tt h _; exact h
  | cons p rest ih =>
    intro tt h hall
    unfold applyInserts
    rw [List.foldl_cons]
    exact ih _ (hstep tt p.1 p.2 h (hall p List.mem_cons_self)) (fun q hq => hall q (List.mem_cons_of_mem _ hq))

/-! ## 9. C06 in an environment: values are `SoundVal`, stores are sound (port of `MateLemmas.lean` §6–§9) -/

section sound
open Wee.C06 Wee.Outcome
variable {env : Env} {I : St → Prop} {G : Nat → TT.Entry → Prop}

theorem childLoopE_none (env : Env) (ctx : Ctx) (child : NodeArgs → ME Eval) (a : NodeArgs) (hash : UInt64) :
    ∀ (l : List Move) (alpha : Eval) (best : Option Move) (kind : Nat),
      (∀ mv ∈ l, tryAsLegal a.s mv = some Option.none) →
      childLoopE env ctx child a hash l alpha best kind = pure (.ok (alpha, best, kind)) := by
  intro l
  induction l with
  | nil => intro alpha best kind _; rw [childLoopE]
  | cons mv rest ih =>
    intro alpha best kind h
    rw [childLoopE, h mv List.mem_cons_self]
    exact ih alpha best kind fun mv' h' => h mv' (List.mem_cons_of_mem _ h')

theorem childLoopE_sound {K : Keys} {D : State → Prop} (hrely : Rely (Spec.inv I G) env) (dom : Domain K D) (ctx : Ctx)
    (child : NodeArgs → ME Eval) (a : NodeArgs) (hash : UInt64) (α₀ : Eval) (hD : D a.s)
    (hchild : ∀ args : NodeArgs, D args.s → args.alpha < args.beta → args.prioritized = Option.none →
      HoldsE (Spec.inv I G) (child args) (SoundVal args.s args.alpha args.beta))
    (hins : ∀ st e, I st → SoundEntry a.s e → I { st with tt := st.tt.insert hash.toNat e })
    (hG : ∀ e, SoundEntry a.s e → G hash.toNat e) :
    ∀ (l : List Move) (alpha : Eval) (best : Option Move) (kind : Nat),
      (∀ mv ∈ l, ∀ r, tryAsLegal a.s mv = some (some r) → r ∈ legalMoves a.s) →
      LoopInv a.s α₀ a.beta alpha best →
      HoldsE (Spec.inv I G) (childLoopE env ctx child a hash l alpha best kind) (LoopPost a.s α₀ a.beta l alpha) := by
  obtain ⟨ms, hms⟩ := dom.gen hD
  intro l
  induction l with
  | nil =>
    intro alpha best kind _ hinv
    rw [childLoopE]
    exact holdsE_pure ⟨Int.le_refl _, hinv, fun _ r _ hr => nomatch hr⟩
  | cons mv rest ih =>
    intro alpha best kind hleg hinv
    have hleg' : ∀ mv ∈ rest, ∀ r, tryAsLegal a.s mv = some (some r) → r ∈ legalMoves a.s :=
      fun mv' h' => hleg mv' (List.mem_cons_of_mem _ h')
    rw [childLoopE]
    cases ht : tryAsLegal a.s mv with
    | none => exact holdsE_panic trivial
    | some o =>
      cases o with
      | none =>
        simp only
        refine holdsE_mono (ih alpha best kind hleg' hinv) ?_
        rintro (b | ⟨alpha', best', kind'⟩) hp
        · exact hp
        · refine ⟨hp.1, hp.2.1, fun h r hr hmem => ?_⟩
          rcases List.mem_cons.1 hmem with h1 | h1
          · have := try_of_legal hms hr
            rw [h1, ht] at this; cases this
          · exact hp.2.2 h r hr h1
      | some mn =>
        obtain ⟨m, next⟩ := mn
        simp only
        have hr : (m, next) ∈ legalMoves a.s := hleg mv List.mem_cons_self _ ht
        have hm : m = mv := C06.tryAsLegal_fst ht
        obtain ⟨h0, hβ, hwin, hbest⟩ := hinv
        refine holdsE_bind (hchild _ (dom.closed _ hD _ hr) (by show -a.beta < -alpha; eomega) rfl) ?_
        intro v hv
        replace hv : SoundVal next (-a.beta) (-alpha) v := hv
        have hlost : 10000 ≤ -v → alpha < -v → Lost next := fun h1 h2 =>
          hv.2 ⟨by rw [negInf_eq]; eomega, by eomega⟩
        have hwinc : -v < a.beta → -v ≤ -10000 → Win next := fun h1 h2 =>
          hv.1 ⟨by rw [posInf_eq]; eomega, by eomega⟩
        have huniq : ∀ r ∈ legalMoves a.s, r.1 = mv → r = (m, next) := by
          intro r hr' h1
          have := try_of_legal hms hr'
          rw [h1, ht] at this
          cases this; rfl
        by_cases hcut : -v ≥ a.beta
        · rw [if_pos hcut]
          have hse : SoundEntry a.s
              { kind := kindLower, mv := m.toNat, depth := a.curDepth, maxDepth := a.maxDepth, eval := a.beta } := by
            refine ⟨⟨(m, next), hr, rfl⟩, fun hp => ⟨(m, next), hr, rfl, ?_⟩, fun hk => ?_⟩
            · replace hp : (10000 : Int) ≤ a.beta := hp
              exact hlost (by eomega) (by eomega)
            · replace hk : kindLower = kindExact ∨ kindLower = kindUpper := hk
              rcases hk with hk | hk <;> exact absurd hk (by decide)
          refine holdsE_bind (holdsE_insert hrely (fun st hi => hins st _ hi hse) (hG _ hse)) fun _ _ => holdsE_pure ?_
          exact ⟨rfl, fun hp => win_of_child_lost hr (hlost (by eomega) (by eomega))⟩
        · rw [if_neg hcut]
          by_cases hgt : -v > alpha
          · rw [if_pos hgt]
            have hl' : 10000 ≤ -v → Lost next := fun h => hlost h hgt
            refine holdsE_mono (ih (-v) (some m) kindExact hleg'
              ⟨by eomega, by eomega, fun _ h => win_of_child_lost hr (hl' h),
               fun m' hm' => ⟨(m, next), hr, by cases hm'; rfl, hl'⟩⟩) ?_
            rintro (b | ⟨alpha', best', kind'⟩) hp
            · exact hp
            · refine ⟨by have := hp.1; eomega, hp.2.1, fun h r hr' hmem => ?_⟩
              rcases List.mem_cons.1 hmem with h1 | h1
              · rw [huniq r hr' h1]
                exact hwinc (by eomega) (by have := hp.1; eomega)
              · exact hp.2.2 h r hr' h1
          · rw [if_neg hgt]
            refine holdsE_mono (ih alpha best kind hleg' ⟨h0, hβ, hwin, hbest⟩) ?_
            rintro (b | ⟨alpha', best', kind'⟩) hp
            · exact hp
            · refine ⟨hp.1, hp.2.1, fun h r hr' hmem => ?_⟩
              rcases List.mem_cons.1 hmem with h1 | h1
              · rw [huniq r hr' h1]
                exact hwinc (by eomega) (by have := hp.1; eomega)
              · exact hp.2.2 h r hr' h1

/-- the end of the node: store the best move (if any) and return `alpha` -/
theorem finishE_holds (hrely : Rely (Spec.inv I G) env) (a : NodeArgs) (hash : UInt64) (alpha beta alpha' : Eval)
    (best : Option Move) (kind : Nat)
    (hins : ∀ st e, I st → SoundEntry a.s e → I { st with tt := st.tt.insert hash.toNat e })
    (hG : ∀ e, SoundEntry a.s e → G hash.toNat e)
    (hne : legalMoves a.s ≠ []) (hinv : LoopInv a.s alpha beta alpha' best)
    (hall : alpha' ≤ -10000 → ∀ r ∈ legalMoves a.s, Win r.2) :
    HoldsE (Spec.inv I G) (match best with
      | some m => do
        insertE env hash.toNat ({ kind := kind, mv := m.toNat, depth := a.curDepth, maxDepth := a.maxDepth, eval := alpha' } : TT.Entry)
        pure alpha'
      | Option.none => (pure alpha' : ME Eval)) (SoundVal a.s alpha beta) := by
  have hlost : alpha' ≤ -10000 → Lost a.s := fun h => Lost.forced a.s hne (hall h)
  have hsv : SoundVal a.s alpha beta alpha' := by
    refine ⟨fun h => ?_, fun h => ?_⟩
    · rw [posInf_eq] at h; exact hinv.2.2.1 h.2 h.1
    · rw [negInf_eq] at h; exact hlost h.1
  cases best with
  | none => exact holdsE_pure hsv
  | some m =>
    simp only
    obtain ⟨r, hr, h1, hl⟩ := hinv.2.2.2 m rfl
    have hse : SoundEntry a.s
        { kind := kind, mv := m.toNat, depth := a.curDepth, maxDepth := a.maxDepth, eval := alpha' } := by
      refine ⟨⟨r, hr, by rw [h1]⟩, fun hp => ⟨r, hr, by rw [h1], hl hp⟩, fun _ hn => hlost ?_⟩
      rw [negInf_eq] at hn; exact hn
    exact holdsE_bind (holdsE_insert hrely (fun st hi => hins st _ hi hse) (hG _ hse)) fun _ _ => holdsE_pure hsv

theorem tailE_sound {K : Keys} {D : State → Prop} (hrely : Rely (Spec.inv I G) env) (dom : Domain K D) (ctx : Ctx)
    (a : NodeArgs) (hash : UInt64) (alpha beta : Eval) (hD : D a.s) (hab : alpha < beta) (hprio : PrioOK a)
    (hrng : ∀ st r, I st → I { st with rng := r })
    (hins : ∀ st e, I st → SoundEntry a.s e → I { st with tt := st.tt.insert hash.toNat e })
    (hG : ∀ e, SoundEntry a.s e → G hash.toNat e)
    (rec : Option (NodeArgs → ME Eval))
    (hrec : ∀ child, rec = some child → ∀ args : NodeArgs, D args.s → args.alpha < args.beta →
      args.prioritized = Option.none → HoldsE (Spec.inv I G) (child args) (SoundVal args.s args.alpha args.beta)) :
    HoldsE (Spec.inv I G) (tailE env ctx a hash alpha beta rec) (SoundVal a.s alpha beta) := by
  obtain ⟨ms, hms⟩ := dom.gen hD
  cases rec with
  | none =>
    unfold tailE
    cases hq : quiesce evaluate (quiesceFuel a.s) a.s a.curDepth alpha beta with
    | error e =>
      obtain ⟨w, rfl⟩ := SearchCtl.quiesce_error_panic _ _ _ _ _ _ _ hq
      exact holdsE_panic trivial
    | ok v => exact holdsE_pure (quiesce_sound _ _ _ _ _ _ hab hq)
  | some child =>
    unfold tailE
    obtain ⟨ps, hps⟩ := pseudo_of_legal hms
    have hlm := C06.legalMoves_of_some hms
    rw [hps]
    simp only
    have hsortmem : ∀ (sorted : List Move), sorted.Perm ps → ∀ x, x ∈ sorted ↔ x ∈ ps :=
      fun sorted h x => h.mem_iff
    by_cases hemp : ms = []
    · -- no legal move: nothing is searched, the node counter does not move, the static value is returned
      subst hemp
      refine holdsE_of_family (F := fun n st => st.nodes = n) (fun n => ?_) (fun st _ => ⟨st.nodes, rfl⟩)
      refine holdsE_bind (holdsE_liftE (SearchCtl.sort_rngOnly a.s ps) (fun st r h => ⟨hrng st r h.1, h.2⟩))
        fun sorted hperm => ?_
      have hsorted := hsortmem sorted hperm
      refine holdsE_bind holdsE_get fun st0 hst0 => ?_
      have hill : ∀ mv ∈ (match a.prioritized with | some m => sorted ++ [m] | Option.none => sorted).reverse,
          tryAsLegal a.s mv = some Option.none := by
        intro mv hmv
        rcases (mem_buffer _ _ _).1 hmv with h | h
        · have hmp := (hsorted mv).1 h
          cases ht : tryAsLegal a.s mv with
          | none => exact absurd ht (try_ne_none hms hps hmp)
          | some o =>
            cases o with
            | none => rfl
            | some r => exact nomatch (legal_iff hms hps r).2 ⟨mv, hmp, ht⟩
        · obtain ⟨r, hr, _⟩ := hprio mv h
          rw [hlm] at hr; exact nomatch hr
      rw [childLoopE_none env ctx child { a with alpha := alpha, beta := beta } hash _ alpha Option.none kindUpper hill]
      refine holdsE_bind (holdsE_pure (Q := fun res => res = .ok (alpha, Option.none, kindUpper)) rfl) fun res hres => ?_
      subst hres
      simp only
      refine holdsE_bind holdsE_get fun st1 hst1 => ?_
      have hn : (st1.nodes == st0.nodes) = true := by rw [hst1.2, hst0.2]; exact beq_self_eq_true _
      rw [if_pos hn]
      cases he : evaluate a.s a.s.turn a.curDepth with
      | some e => exact holdsE_pure (static_sound he)
      | none => exact panic_bindE_holds trivial
    · have hne : legalMoves a.s ≠ [] := by rw [hlm]; exact hemp
      refine holdsE_bind (holdsE_liftE (SearchCtl.sort_rngOnly a.s ps) hrng) fun sorted hperm => ?_
      have hsorted := hsortmem sorted hperm
      refine holdsE_bind holdsE_get fun st0 _ => ?_
      have hleg : ∀ mv ∈ (match a.prioritized with | some m => sorted ++ [m] | Option.none => sorted).reverse,
          ∀ r, tryAsLegal a.s mv = some (some r) → r ∈ legalMoves a.s := by
        intro mv hmv r ht
        rcases (mem_buffer _ _ _).1 hmv with h | h
        · rw [hlm]; exact (legal_iff hms hps r).2 ⟨mv, (hsorted mv).1 h, ht⟩
        · obtain ⟨r0, hr0, h0⟩ := hprio mv h
          have := try_of_legal hms hr0
          rw [h0, ht] at this
          cases this; exact hr0
      refine holdsE_bind (childLoopE_sound hrely dom ctx child
        { a with alpha := alpha, beta := beta } hash alpha hD (hrec child rfl) hins hG _ alpha Option.none kindUpper
        hleg ⟨Int.le_refl _, hab, fun h => absurd h (Int.lt_irrefl _), fun m h => nomatch h⟩) fun res hres => ?_
      rcases res with b | ⟨alpha', best, kind⟩
      · simp only
        obtain ⟨h1, h2⟩ := hres
        replace h1 : b = beta := h1
        subst h1
        refine holdsE_pure ⟨fun h => h2 (by rw [posInf_eq] at h; exact h.1), fun h => ?_⟩
        exact absurd h.2 (Int.lt_irrefl _)
      · simp only
        obtain ⟨_, hinv, hall⟩ := hres
        refine holdsE_bind holdsE_get fun st1 _ => ?_
        have hfin := finishE_holds hrely a hash alpha beta alpha' best kind hins hG hne hinv (fun h r hr => by
          refine hall h r hr ((mem_buffer _ _ _).2 (Or.inl ((hsorted _).2 ?_)))
          rw [hlm] at hr
          obtain ⟨mv, hmv, ht⟩ := (legal_iff hms hps r).1 hr
          rw [C06.tryAsLegal_fst ht]; exact hmv)
        by_cases hn : (st1.nodes == st0.nodes) = true
        · rw [if_pos hn]
          cases he : evaluate a.s a.s.turn a.curDepth with
          | some e => exact holdsE_pure (static_sound he)
          | none => exact panic_bindE_holds trivial
        · rw [if_neg hn]
          exact hfin

/-- C06's admissible insert: under the key of a position of the domain, an entry that is sound for that position -/
def SoundInsert (K : Keys) (D : State → Prop) (k : Nat) (e : TT.Entry) : Prop :=
  ∃ s, D s ∧ k = (hash K s).toNat ∧ SoundEntry s e

/-- the C06 specification of a worker: the table invariant `C06.TTInv` (shape + every entry sound) at every outcome,
every own insert a `SoundInsert` -/
def soundSpec (K : Keys) (D : State → Prop) (L nT nB : Nat) : Spec :=
  Spec.inv (fun st => C06.TTInv K D L nT nB st.tt) (SoundInsert K D)

theorem TTInv_soundInsert {K : Keys} {D : State → Prop} {L nT nB : Nat} (g : Geo L nT nB) (dom : Domain K D)
    (tt : TT.Access) (k : Nat) (e : TT.Entry) (h : C06.TTInv K D L nT nB tt) (ha : SoundInsert K D k e) :
    C06.TTInv K D L nT nB (tt.insert k e) := by
  obtain ⟨s, hs, rfl, he⟩ := ha
  exact TTInv.insert g dom h hs he

/-- rely of C06: an environment of sound inserts keeps the table invariant -/
theorem soundSpec_rely {K : Keys} {D : State → Prop} {L nT nB : Nat} (g : Geo L nT nB) (dom : Domain K D)
    (hadm : ∀ j, ∀ p ∈ env.script j, SoundInsert K D p.1 p.2) : Rely (soundSpec K D L nT nB) env :=
  fun _ j hi => applyInserts_inv (P := C06.TTInv K D L nT nB) (TTInv_soundInsert g dom) _ _ hi (hadm j)

theorem probeE_sound {K : Keys} {D : State → Prop} {L nT nB : Nat} (g : Geo L nT nB) (dom : Domain K D)
    (hrely : Rely (soundSpec K D L nT nB) env)
    (ctx : Ctx) (a : NodeArgs) (hD : D a.s) (hab : a.alpha < a.beta) (hprio : PrioOK a)
    (rec : Option (NodeArgs → ME Eval))
    (hrec : ∀ child, rec = some child → ∀ args : NodeArgs, D args.s → args.alpha < args.beta →
      args.prioritized = Option.none →
      HoldsE (soundSpec K D L nT nB) (child args) (SoundVal args.s args.alpha args.beta)) :
    HoldsE (soundSpec K D L nT nB) (probeE env ctx a (hash K a.s) rec) (SoundVal a.s a.alpha a.beta) := by
  have htail : ∀ alpha beta, alpha < beta → HoldsE (soundSpec K D L nT nB)
      (tailE env ctx a (hash K a.s) alpha beta rec) (SoundVal a.s alpha beta) := fun alpha beta h =>
    tailE_sound hrely dom ctx a _ alpha beta hD h hprio (fun st r hi => hi)
      (fun _ e hi he => TTInv.insert g dom hi hD he) (fun e he => ⟨a.s, hD, rfl, he⟩) rec hrec
  unfold probeE
  refine holdsE_bind (holdsE_find hrely _) fun r ⟨st, hst, hf⟩ => ?_
  cases r with
  | none => exact htail _ _ hab
  | some e =>
    have hse := hst.2 a.s e hD hf
    unfold probeK
    simp only
    obtain ⟨_, hwin, hlost⟩ := hse
    have hW : 10000 ≤ e.eval → Win a.s := fun h2 => by
      obtain ⟨r, hr, _, hl⟩ := hwin h2
      exact win_of_child_lost hr hl
    have hL : e.kind = kindExact ∨ e.kind = kindUpper → e.eval ≤ -10000 → Lost a.s := hlost
    by_cases hu : a.maxDepth < a.curDepth ∨ e.maxDepth < e.depth
    · rw [if_pos hu]; exact panic_bindE_holds trivial
    · rw [if_neg hu]
      by_cases hd : e.maxDepth - e.depth ≥ a.maxDepth - a.curDepth
      · rw [if_pos hd]
        by_cases hx : (e.kind == kindExact) = true
        · rw [if_pos hx]
          have hx' : e.kind = kindExact := beq_iff_eq.1 hx
          refine holdsE_pure ⟨fun h => hW ?_, fun h => hL (Or.inl hx') ?_⟩
          · rw [posInf_eq] at h; exact h.1
          · rw [negInf_eq] at h; exact h.1
        · rw [if_neg hx]
          by_cases hup : (e.kind == kindUpper) = true
          · rw [if_pos hup]
            have hup' : e.kind = kindUpper := beq_iff_eq.1 hup
            by_cases hc : a.alpha ≥ min a.beta e.eval
            · rw [if_pos hc]
              refine holdsE_pure ⟨fun h => ?_, fun h => hL (Or.inr hup') ?_⟩
              · exfalso; have := h.2; eomega
              · rw [negInf_eq] at h; exact h.1
            · rw [if_neg hc]
              refine holdsE_mono (htail _ _ (by eomega)) fun r hr => ⟨hr.1, fun h => ?_⟩
              rw [negInf_eq] at h
              by_cases hlt : r < min a.beta e.eval
              · exact hr.2 ⟨by rw [negInf_eq]; exact h.1, hlt⟩
              · exact hL (Or.inr hup') (by have := h.1; have := h.2; eomega)
          · rw [if_neg hup]
            by_cases hc : max a.alpha e.eval ≥ a.beta
            · rw [if_pos hc]
              refine holdsE_pure ⟨fun h => hW ?_, fun h => ?_⟩
              · rw [posInf_eq] at h; exact h.1
              · exfalso; have := h.2; eomega
            · rw [if_neg hc]
              refine holdsE_mono (htail _ _ (by eomega)) fun r hr => ⟨fun h => ?_, hr.2⟩
              rw [posInf_eq] at h
              by_cases hlt : max a.alpha e.eval < r
              · exact hr.1 ⟨by rw [posInf_eq]; exact h.1, hlt⟩
              · exact hW (by have := h.1; have := h.2; eomega)
      · rw [if_neg hd]; exact htail _ _ hab

theorem tick_inv {P : TT.Access → Prop} (ctx : Ctx) (st : St) (h : P st.tt) :
    Post (fun st => P st.tt) (fun st => P st.tt) (fun _ => True) (tick ctx st) := by
  rw [SearchCtl.tick_eq]
  split
  · split
    · exact ⟨trivial, h⟩
    · exact h
  · exact h

/-- **`analyze_recursive` is sound in every environment of sound inserts.** -/
theorem searchNodeE_sound {K : Keys} {D : State → Prop} {L nT nB : Nat} (g : Geo L nT nB) (dom : Domain K D)
    (hrely : Rely (soundSpec K D L nT nB) env) (ctx : Ctx) (hK : ctx.keys = K) :
    ∀ (rem : Nat) (a : NodeArgs), D a.s → a.alpha < a.beta → PrioOK a →
      HoldsE (soundSpec K D L nT nB) (searchNodeE env ctx rem a) (SoundVal a.s a.alpha a.beta) := by
  subst hK
  have hnode : ∀ (rec : Option (NodeArgs → ME Eval)) (a : NodeArgs), D a.s → a.alpha < a.beta → PrioOK a →
      (∀ child, rec = some child → ∀ args : NodeArgs, D args.s → args.alpha < args.beta →
        args.prioritized = Option.none →
        HoldsE (soundSpec ctx.keys D L nT nB) (child args) (SoundVal args.s args.alpha args.beta)) →
      HoldsE (soundSpec ctx.keys D L nT nB) (nodeBodyE env ctx rec a) (SoundVal a.s a.alpha a.beta) := by
    intro rec a hD hab hp hrec
    refine nodeBodyE_holds (fun st hi => tick_inv (P := C06.TTInv ctx.keys D L nT nB) ctx st hi)
      (fun _ => SoundVal.of_nonterminal (by eomega) (by eomega))
      (fun _ => probeE_sound g dom hrely ctx a hD hab hp rec hrec)
  intro rem
  induction rem with
  | zero =>
    intro a hD hab hp
    rw [searchNodeE_zero]
    exact hnode Option.none a hD hab hp (fun _ h => nomatch h)
  | succ rem ih =>
    intro a hD hab hp
    rw [searchNodeE_succ]
    refine hnode _ a hD hab hp fun child hc args hDa haba hpa => ?_
    cases hc
    exact ih args hDa haba (fun m hm => by rw [hpa] at hm; cases hm)

end sound

/-! ## 10. C03 in an environment: the table invariant `TInv`, every store a legal insert -/

section legal
open Wee.C10 (DisjointBoard)

/-- C03's admissible insert (the same as `LegalInsert` of `Wee/Props/C03.lean`): under the key of a position of `R`, an
entry whose move is a listed legal move of that position -/
def LegalIns (K : Keys) (R : State → Prop) (k : Nat) (e : TT.Entry) : Prop :=
  ∃ s m, R s ∧ k = (hash K s).toNat ∧ LegalIn s m ∧ e.mv = m.toNat

/-- node predicate of the C03 induction: a position of grade `k` with `k + rem ≤ D`, the prioritized move absent or legal -/
def LegalN (G : Nat → State → Prop) (D : Nat) (rem : Nat) (a : NodeArgs) : Prop :=
  (∃ k, G k a.s ∧ k + rem ≤ D) ∧ ∀ m, a.prioritized = some m → LegalIn a.s m

theorem LegalN.mem {G : Nat → State → Prop} (hG : Graded G) {D rem : Nat} {a : NodeArgs} (hN : LegalN G D rem a)
    {pseudo : List Move} (hp : pseudoLegalMoves a.s = some pseudo) {mv : Move} (hmv : InBuffer a pseudo mv)
    {r : Move × State} (ht : tryAsLegal a.s mv = some (some r)) : r ∈ legalMoves a.s := by
  obtain ⟨⟨k, hk, _⟩, hprio⟩ := hN
  obtain ⟨hl, hd⟩ := hG.good _ _ hk
  obtain ⟨L, hL⟩ := (C01_legal_results a.s hl hd).1
  rcases hmv with h | h
  · exact tryAsLegal_mem_of_pseudo hL hp h ht
  · exact tryAsLegal_mem_of_legal (hprio mv h) ht

/-- the C03 instance of the generic induction: any table property kept by legal inserts -/
theorem legal_walk {P : TT.Access → Prop} {G : Nat → State → Prop} (hG : Graded G) (D : Nat) (ctx : Ctx)
    (hins : ∀ s, upTo G D s → InsOK P ctx.keys s) :
    Walk ctx (fun st => P st.tt) (fun st => P st.tt) (LegalN G D) (fun _ => True) where
  tick := fun st h => tick_inv ctx st h
  rng := fun _ _ h => h
  underflow := fun _ _ _ _ _ _ _ _ => trivial
  leaf := fun _ _ _ _ _ _ => trivial
  pseudo := fun _ _ _ _ => trivial
  legal := fun _ _ _ _ _ _ _ _ => trivial
  eval := fun _ _ _ _ => trivial
  window := fun _ _ _ _ h => h
  child := by
    intro rem a pseudo mv m next alpha hN hp hmv ht
    have hr := hN.mem hG hp hmv ht
    obtain ⟨⟨k, hk, hle⟩, _⟩ := hN
    exact ⟨⟨k + 1, hG.step _ _ hk _ hr, by omega⟩, fun m' hm' => nomatch hm'⟩
  insert := by
    intro rem a pseudo mv m next kind ev st hN hI _ hp hmv ht
    have hr := hN.mem hG hp hmv ht
    obtain ⟨⟨k, hk, hle⟩, _⟩ := hN
    exact hins a.s ⟨k, by omega, hk⟩ st.tt m _ hI ⟨(m, next), hr, rfl⟩ rfl

theorem legal_insertG {G : Nat → State → Prop} (hG : Graded G) (D : Nat) (ctx : Ctx) (I : St → Prop) :
    InsertG ctx (Spec.inv I (LegalIns ctx.keys (upTo G D))) (LegalN G D) := by
  intro rem a pseudo mv m next kind ev hN _ hp hmv ht
  have hr := hN.mem hG hp hmv ht
  obtain ⟨⟨k, hk, hle⟩, _⟩ := hN
  exact ⟨a.s, m, ⟨k, by omega, hk⟩, rfl, ⟨(m, next), hr, rfl⟩, rfl⟩

/-- the C03 specification of a worker -/
def legalSpec (K : Keys) (R : State → Prop) : Spec := Spec.inv (fun st => TInv K R st.tt) (LegalIns K R)

theorem TInv_legalIns {K : Keys} {R : State → Prop} (hcf : CollisionFree K R) (tt : TT.Access) (k : Nat) (e : TT.Entry)
    (h : TInv K R tt) (ha : LegalIns K R k e) : TInv K R (tt.insert k e) := by
  obtain ⟨s, m, hs, rfl, hm, he⟩ := ha
  exact insOK_TInv hcf s hs tt m e h hm he

/-- rely of C03: an environment of legal inserts keeps `TInv` -/
theorem legalSpec_rely {K : Keys} {R : State → Prop} (hcf : CollisionFree K R) {env : Env}
    (hadm : ∀ j, ∀ p ∈ env.script j, LegalIns K R p.1 p.2) : Rely (legalSpec K R) env :=
  fun _ j hi => applyInserts_inv (P := TInv K R) (TInv_legalIns hcf) _ _ hi (hadm j)

/-- the arguments of the root call of a worker -/
def rootArgsE (root : State) (w : Worker) : NodeArgs :=
  { s := root, maxDepth := w.searchDepth, curDepth := 0, curExt := 0,
    alpha := - Ev.mateInPly 0, beta := Ev.mateInPly 0, prioritized := w.best }

theorem runWorkerE_eq (env : Env) (ctx : Ctx) (root : State) (w : Worker) (tt : TT.Access) :
    runWorkerE env ctx root w tt =
      searchNodeE env ctx w.searchDepth (rootArgsE root w) 0 { tt, rng := w.rng, nodes := 0, polls := w.polls } := rfl

/-- **one worker, C03** (rely ⇒ guarantee): in an environment of legal inserts, started on a table satisfying `TInv`,
the worker ends — normally, interrupted or with a panic — on a table satisfying `TInv`, and all its own inserts are
legal inserts -/
theorem runWorkerE_legal {G : Nat → State → Prop} (hG : Graded G) (D : Nat) (ctx : Ctx)
    (hcf : CollisionFree ctx.keys (upTo G D)) (root : State) (hroot : G 0 root) (env : Env)
    (hadm : ∀ j, ∀ p ∈ env.script j, LegalIns ctx.keys (upTo G D) p.1 p.2)
    (w : Worker) (hsd : w.searchDepth ≤ D) (hbest : ∀ m, w.best = some m → LegalIn root m)
    (tt : TT.Access) (htt : TInv ctx.keys (upTo G D) tt) :
    TInv ctx.keys (upTo G D) (runWorkerE env ctx root w tt).2.1.tt ∧
    LogOK (LegalIns ctx.keys (upTo G D)) (runWorkerE env ctx root w tt).2.2 := by
  rw [runWorkerE_eq]
  have h := searchNodeE_walk (V := legalSpec ctx.keys (upTo G D)) (N := LegalN G D)
    (legal_walk hG D ctx (fun s hs => insOK_TInv hcf s hs)) (legalSpec_rely hcf hadm)
    (legal_insertG hG D ctx _) w.searchDepth (rootArgsE root w) ⟨⟨0, hroot, by omega⟩, hbest⟩
    0 { tt, rng := w.rng, nodes := 0, polls := w.polls } htt
  exact ⟨h.same (fun _ h => h), h.log⟩

end legal

/-! ## 11. C04 in an environment: no panic, the poll bound -/

section safe
open Wee.SearchCtl
open Wee.C10 (DisjointBoard)

/-- C04's admissible insert: stored depths are consistent, and an entry stored under the root's key carries a legal
move of the root -/
def SafeInsert (ctx : Ctx) (root : State) (k : Nat) (e : TT.Entry) : Prop :=
  DepthOK e ∧ (k = (Wee.hash ctx.keys root).toNat → ∃ r ∈ legalMoves root, r.1 = e.mv.toUInt32)

/-- the C04 specification of a worker: `SafeI` is kept, the only outcome thrown is the interrupt -/
def safeSpec (ctx : Ctx) (root : State) (nT nB : Nat) : Spec :=
  { I := SafeI ctx root nT nB, J := SafeI ctx root nT nB, A := fun e => e = .interrupt, G := SafeInsert ctx root }

theorem SafeI_safeInsert {ctx : Ctx} {root : State} {nT nB : Nat} (hT : 0 < nT) (hB : 0 < nB)
    (tt : TT.Access) (k : Nat) (e : TT.Entry)
    (h : tt.All DepthOK ∧ TT.AInv Gen.bucketSize nT nB tt ∧ RootInv ctx root tt) (ha : SafeInsert ctx root k e) :
    (tt.insert k e).All DepthOK ∧ TT.AInv Gen.bucketSize nT nB (tt.insert k e) ∧ RootInv ctx root (tt.insert k e) := by
  obtain ⟨hd, hai, hri⟩ := h
  refine ⟨hd.insert _ _ ha.1, hai.insert (by decide) hT hB _ _, ?_⟩
  intro e' he'
  by_cases hk : k = (Wee.hash ctx.keys root).toNat
  · subst hk
    rw [hai.find_insert_self (by decide) hT hB] at he'
    cases he'
    exact ha.2 rfl
  · rcases hai.find_insert_other (by decide) hT hB k e (Wee.hash ctx.keys root).toNat (Ne.symm hk) with h1 | h1
    · rw [h1] at he'; cases he'
    · rw [h1] at he'; exact hri e' he'

theorem safeSpec_rely {ctx : Ctx} {root : State} {nT nB : Nat} (hT : 0 < nT) (hB : 0 < nB) {env : Env}
    (hadm : ∀ j, ∀ p ∈ env.script j, SafeInsert ctx root p.1 p.2) : Rely (safeSpec ctx root nT nB) env :=
  fun _ j hi => applyInserts_inv
    (P := fun tt => tt.All DepthOK ∧ TT.AInv Gen.bucketSize nT nB tt ∧ RootInv ctx root tt)
    (SafeI_safeInsert hT hB) _ _ hi (hadm j)

theorem safe_insertG (ctx : Ctx) (root : State) (nT nB : Nat)
    (hhist : ctx.history.contains (Wee.hash ctx.keys root) = true) :
    InsertG ctx (safeSpec ctx root nT nB) (SafeN root) := by
  intro rem a pseudo mv m next kind ev hN hcut hp hmv ht
  obtain ⟨o, ho, hmem⟩ := hN.tryAsLegal hp hmv
  rw [ht] at ho
  cases ho
  have hr := hmem (m, next) rfl
  refine ⟨?_, fun hk => ?_⟩
  · have h1 := hN.1
    unfold RemInv at h1
    show a.curDepth ≤ a.maxDepth
    omega
  · have hh : Wee.hash ctx.keys a.s = Wee.hash ctx.keys root := UInt64.toNat_inj.1 hk
    have h0 : a.curDepth = 0 := by
      apply Classical.byContradiction
      intro hne
      exact hcut ⟨Nat.pos_of_ne_zero hne, by rw [hh]; exact hhist⟩
    have hs := hN.2.2.1 h0
    rw [hs] at hr
    refine ⟨(m, next), hr, ?_⟩
    show m = (UInt32.toNat m).toUInt32
    simp

/-- **one worker, C04** (rely ⇒ guarantee): in an environment of safe inserts the worker does not panic, keeps `SafeI`,
and performs only safe inserts -/
theorem runWorkerE_safe (ctx : Ctx) (root : State) (nT nB : Nat) (hT : 0 < nT) (hB : 0 < nB)
    (hhist : ctx.history.contains (Wee.hash ctx.keys root) = true) (hg : Good root) (env : Env)
    (hadm : ∀ j, ∀ p ∈ env.script j, SafeInsert ctx root p.1 p.2)
    (w : Worker) (hb : BestOK root w.best) (tt : TT.Access)
    (hI : tt.All DepthOK ∧ TT.AInv Gen.bucketSize nT nB tt ∧ RootInv ctx root tt) :
    (∀ why, (runWorkerE env ctx root w tt).1 ≠ .error (.panic why)) ∧
    SafeI ctx root nT nB (runWorkerE env ctx root w tt).2.1 ∧
    LogOK (SafeInsert ctx root) (runWorkerE env ctx root w tt).2.2 := by
  rw [runWorkerE_eq]
  have hN : SafeN root w.searchDepth (rootArgsE root w) :=
    ⟨by unfold RemInv rootArgsE; simp, hg, fun _ => rfl, fun m hm => ⟨rfl, hb m hm⟩⟩
  have h := searchNodeE_walk (V := safeSpec ctx root nT nB) (N := SafeN root)
    (safe_walk ctx root nT nB hT hB hhist capturesShrink) (safeSpec_rely hT hB hadm)
    (safe_insertG ctx root nT nB hhist) w.searchDepth (rootArgsE root w) hN
    0 { tt, rng := w.rng, nodes := 0, polls := w.polls } hI
  refine ⟨fun why he => ?_, h.same (fun _ h => h), h.log⟩
  have := h.allowed he
  cases this

/-- **the poll bound in an environment** (no hypothesis on the environment at all): once `Stop` is visible to the polls
a worker node is interrupted exactly at the next multiple of the poll interval of its node counter or ends before it -/
theorem searchNodeE_stop_bound (env : Env) (ctx : Ctx) (k : Nat) (hk : ctx.cancelAt = some k) (rem : Nat)
    (a : NodeArgs) (n : Nat) (st : St) (hp : k ≤ st.polls) :
    PostE { I := StopI k (st.nodes / Gen.pollInterval) st.nodes, J := StopJ (st.nodes / Gen.pollInterval),
            A := fun _ => True, G := fun _ _ => True } (fun _ : Eval => True) (searchNodeE env ctx rem a n st) :=
  searchNodeE_walk (N := fun _ _ => True) (stop_walk ctx k hk _ _) (fun _ _ h => h)
    (fun _ _ _ _ _ _ _ _ _ _ _ _ _ => trivial) rem a trivial n st ⟨hp, rfl, Nat.le_refl _⟩

end safe

/-! ## 12. C06: one worker of an iteration -/

section soundWorker
open Wee.C06 Wee.Outcome

/-- **one worker, C06** (rely ⇒ guarantee): in an environment of sound inserts, started on a sound table, the worker
ends — normally, interrupted or with a panic — on a sound table, all its own inserts are sound inserts, and a returned
value is `SoundVal` for the root window `(-11000, 11000)` -/
theorem runWorkerE_sound {K : Keys} {D : State → Prop} {L nT nB : Nat} (g : Geo L nT nB) (dom : Domain K D)
    (ctx : Ctx) (hK : ctx.keys = K) (root : State) (hD : D root) (env : Env)
    (hadm : ∀ j, ∀ p ∈ env.script j, SoundInsert K D p.1 p.2)
    (w : Worker) (hbest : C06.BestOK root w.best) (tt : TT.Access) (htt : C06.TTInv K D L nT nB tt) :
    C06.TTInv K D L nT nB (runWorkerE env ctx root w tt).2.1.tt ∧
    LogOK (SoundInsert K D) (runWorkerE env ctx root w tt).2.2 ∧
    ∀ e, (runWorkerE env ctx root w tt).1 = .ok e → SoundVal root (-11000) 11000 e := by
  rw [runWorkerE_eq]
  have h := searchNodeE_sound g dom (soundSpec_rely g dom hadm) ctx hK w.searchDepth (rootArgsE root w) hD
    (show - Ev.mateInPly 0 < Ev.mateInPly 0 by decide) hbest
    0 { tt, rng := w.rng, nodes := 0, polls := w.polls } htt
  refine ⟨h.same (fun _ h => h), h.log, fun e he => ?_⟩
  have := (h.ok he).2
  have hw := root_window
  show SoundVal (rootArgsE root w).s (-11000) 11000 e
  rw [← hw.1, ← hw.2]
  exact this

end soundWorker

/-! ## 13. flat run equations (for executing a worker symbolically on a concrete position) -/

section flat
open Wee.SearchCtl (bufferOf)

theorem probeE_run (env : Env) (ctx : Ctx) (a : NodeArgs) (hash : UInt64) (rec : Option (NodeArgs → ME Eval))
    (n : Nat) (st : St) :
    probeE env ctx a hash rec n st =
      match probeK env ctx a hash rec ((applyInserts st.tt (env.script n)).find hash.toNat) (n + 1)
          { st with tt := applyInserts st.tt (env.script n) } with
      | (r, st2, l2) => (r, st2, TOp.find hash.toNat ((applyInserts st.tt (env.script n)).find hash.toNat) :: l2) := rfl

theorem tailE_none_run (env : Env) (ctx : Ctx) (a : NodeArgs) (hash : UInt64) (alpha beta : Eval) (n : Nat) (st : St) :
    tailE env ctx a hash alpha beta Option.none n st =
      (match quiesce evaluate (quiesceFuel a.s) a.s a.curDepth alpha beta with
       | .ok v => .ok v | .error e => .error e, st, []) := by
  unfold tailE
  cases quiesce evaluate (quiesceFuel a.s) a.s a.curDepth alpha beta <;> rfl

theorem childLoopE_nil_run (env : Env) (ctx : Ctx) (child : NodeArgs → ME Eval) (a : NodeArgs) (hash : UInt64)
    (alpha : Eval) (best : Option Move) (kind : Nat) (n : Nat) (st : St) :
    childLoopE env ctx child a hash [] alpha best kind n st = (.ok (.ok (alpha, best, kind)), st, []) := by
  rw [childLoopE]; rfl

theorem childLoopE_cons_run (env : Env) (ctx : Ctx) (child : NodeArgs → ME Eval) (a : NodeArgs) (hash : UInt64)
    (mv : Move) (rest : List Move) (alpha : Eval) (best : Option Move) (kind : Nat) (n : Nat) (st : St) :
    childLoopE env ctx child a hash (mv :: rest) alpha best kind n st =
      match tryAsLegal a.s mv with
      | Option.none => (.error (.panic "try_as_legal_move: by_performing_move(..).unwrap()"), st, [])
      | some Option.none => childLoopE env ctx child a hash rest alpha best kind n st
      | some (some (m, next)) =>
        match child (childArgs a next alpha) n st with
        | (.error e, st', l1) => (.error e, st', l1)
        | (.ok v, st', l1) =>
          if -v ≥ a.beta then
            (.ok (.error a.beta),
             { st' with tt := (applyInserts st'.tt (env.script (n + l1.length))).insert hash.toNat (entryOf a kindLower m a.beta) },
             l1 ++ [TOp.insert hash.toNat (entryOf a kindLower m a.beta)])
          else if -v > alpha then
            (match childLoopE env ctx child a hash rest (-v) (some m) kindExact (n + l1.length) st' with
             | (r, st2, l2) => (r, st2, l1 ++ l2))
          else
            (match childLoopE env ctx child a hash rest alpha best kind (n + l1.length) st' with
             | (r, st2, l2) => (r, st2, l1 ++ l2)) := by
  rw [childLoopE]
  cases h : tryAsLegal a.s mv with
  | none => rfl
  | some o =>
    cases o with
    | none => rfl
    | some r =>
      obtain ⟨m, next⟩ := r
      simp only
      rw [bind_run]
      unfold childArgs
      generalize child _ n st = out
      obtain ⟨r, st', l1⟩ := out
      cases r with
      | error e => rfl
      | ok v =>
        simp only
        by_cases c1 : -v ≥ a.beta
        · simp only [c1, ↓reduceIte]; rfl
        · by_cases c2 : -v > alpha <;> simp only [c1, c2, ↓reduceIte]

theorem tailE_some_run (env : Env) (ctx : Ctx) (child : NodeArgs → ME Eval) (a : NodeArgs) (hash : UInt64)
    (alpha beta : Eval) (n : Nat) (st : St) (pseudo sorted : List Move) (st1 : St)
    (hp : pseudoLegalMoves a.s = some pseudo)
    (hs : (sortByCachedKey pseudo fun mv => do let j ← jitter; pure (estimate a.s mv + j)).run.run st = (.ok sorted, st1)) :
    tailE env ctx a hash alpha beta (some child) n st =
      match childLoopE env ctx child { a with alpha := alpha, beta := beta } hash
              (bufferOf a.prioritized sorted).reverse alpha Option.none kindUpper n st1 with
      | (.error e, st2, l) => (.error e, st2, l)
      | (.ok (.error b), st2, l) => (.ok b, st2, l)
      | (.ok (.ok (alpha', best, kind)), st2, l) =>
        if st2.nodes == st1.nodes then
          (match evaluate a.s a.s.turn a.curDepth with
           | some e => (.ok e, st2, l)
           | Option.none => (.error (.panic "evaluate: no king"), st2, l))
        else match best with
          | some m =>
            (.ok alpha',
             { st2 with tt := (applyInserts st2.tt (env.script (n + l.length))).insert hash.toNat (entryOf a kind m alpha') },
             l ++ [TOp.insert hash.toNat (entryOf a kind m alpha')])
          | Option.none => (.ok alpha', st2, l) := by
  unfold tailE
  rw [hp]
  simp only
  rw [bind_run, liftE_run, hs]
  simp only
  rw [bind_run, get_run]
  simp only
  rw [bind_run]
  unfold bufferOf
  generalize childLoopE env ctx child _ hash _ alpha Option.none kindUpper _ st1 = out2
  obtain ⟨r2, st2, l⟩ := out2
  cases r2 with
  | error e => rfl
  | ok x =>
    cases x with
    | error b => simp only [pure_run]; simp
    | ok y =>
      obtain ⟨alpha', best, kind⟩ := y
      simp only
      rw [bind_run, get_run]
      simp only
      by_cases hn : (st2.nodes == st1.nodes) = true
      · simp only [hn, ↓reduceIte]
        cases evaluate a.s a.s.turn a.curDepth <;> simp [pure_run, bind_run, throw_run]
      · simp only [hn]
        cases best <;> simp [pure_run, bind_run, insertE_run, entryOf]

end flat

/-! ## 14. the whole search under arbitrary schedules -/

section searchS

/-- C03 for one iteration under any schedule: all inserts legal, `TInv` after every prefix -/
theorem interleaving_legal {G : Nat → State → Prop} (hG : Graded G) (D : Nat) (ctx : Ctx)
    (hcf : CollisionFree ctx.keys (upTo G D)) (root : State) (hroot : G 0 root)
    (tt : TT.Access) (htt : TInv ctx.keys (upTo G D) tt) (ws : List Worker)
    (hws : ∀ w ∈ ws, w.searchDepth ≤ D ∧ ∀ m, w.best = some m → LegalIn root m)
    (H : History) (hI : Interleaving ctx root tt ws H) :
    (∀ p ∈ H, ∀ k e, p.2 = TOp.insert k e → LegalIns ctx.keys (upTo G D) k e) ∧
    (∀ n, TInv ctx.keys (upTo G D) (History.table tt (H.take n))) := by
  have hins : ∀ p ∈ H, ∀ k e, p.2 = TOp.insert k e → LegalIns ctx.keys (upTo G D) k e :=
    interleaving_guarantee (LegalIns ctx.keys (upTo G D))
      (fun i h env hadm => (runWorkerE_legal hG D ctx hcf root hroot env hadm ws[i]
        (hws _ (List.getElem_mem h)).1 (hws _ (List.getElem_mem h)).2 tt htt).2) hI
  exact ⟨hins, fun n => table_inv (TInv_legalIns hcf) (H.take n) tt htt (fun p hp => hins p (List.mem_of_mem_take hp))⟩

/-- C06 for one iteration under any schedule: all inserts sound, `C06.TTInv` after every prefix, every value sound -/
theorem interleaving_sound {K : Keys} {D : State → Prop} {L nT nB : Nat} (g : C06.Geo L nT nB)
    (dom : C06.Domain K D) (ctx : Ctx) (hK : ctx.keys = K) (root : State) (hD : D root)
    (tt : TT.Access) (htt : C06.TTInv K D L nT nB tt) (ws : List Worker)
    (hws : ∀ w ∈ ws, C06.BestOK root w.best) (H : History) (hI : Interleaving ctx root tt ws H) :
    (∀ p ∈ H, ∀ k e, p.2 = TOp.insert k e → SoundInsert K D k e) ∧
    (∀ n, C06.TTInv K D L nT nB (History.table tt (H.take n))) ∧
    (∀ i (h : i < ws.length) e, outcomeOf ctx root tt ws[i] H i = .ok e → C06.SoundVal root (-11000) 11000 e) := by
  have hins : ∀ p ∈ H, ∀ k e, p.2 = TOp.insert k e → SoundInsert K D k e :=
    interleaving_guarantee (SoundInsert K D)
      (fun i h env hadm => (runWorkerE_sound g dom ctx hK root hD env hadm ws[i] (hws _ (List.getElem_mem h)) tt htt).2.1) hI
  exact ⟨hins, fun n => table_inv (TTInv_soundInsert g dom) (H.take n) tt htt (fun p hp => hins p (List.mem_of_mem_take hp)),
    fun i h e he => (runWorkerE_sound g dom ctx hK root hD (envOf H i) (envOf_adm hins i) ws[i]
      (hws _ (List.getElem_mem h)) tt htt).2.2 e he⟩

/-- C04 for one iteration under any schedule: no worker panics, the safety invariant after every prefix -/
theorem interleaving_safe (ctx : Ctx) (root : State) (nT nB : Nat) (hT : 0 < nT) (hB : 0 < nB)
    (hhist : ctx.history.contains (Wee.hash ctx.keys root) = true) (hg : SearchCtl.Good root)
    (tt : TT.Access) (hI0 : tt.All SearchCtl.DepthOK ∧ TT.AInv Gen.bucketSize nT nB tt ∧ SearchCtl.RootInv ctx root tt)
    (ws : List Worker) (hws : ∀ w ∈ ws, SearchCtl.BestOK root w.best)
    (H : History) (hI : Interleaving ctx root tt ws H) :
    (∀ i (h : i < ws.length) why, outcomeOf ctx root tt ws[i] H i ≠ .error (.panic why)) ∧
    (∀ n, (History.table tt (H.take n)).All SearchCtl.DepthOK ∧
          TT.AInv Gen.bucketSize nT nB (History.table tt (H.take n)) ∧
          SearchCtl.RootInv ctx root (History.table tt (H.take n))) ∧
    (∀ p ∈ H, ∀ k e, p.2 = TOp.insert k e → SafeInsert ctx root k e) := by
  have hins : ∀ p ∈ H, ∀ k e, p.2 = TOp.insert k e → SafeInsert ctx root k e :=
    interleaving_guarantee (SafeInsert ctx root)
      (fun i h env hadm => (runWorkerE_safe ctx root nT nB hT hB hhist hg env hadm ws[i]
        (hws _ (List.getElem_mem h)) tt hI0).2.2) hI
  refine ⟨fun i h why => ?_, fun n => ?_, hins⟩
  · exact (runWorkerE_safe ctx root nT nB hT hB hhist hg (envOf H i) (envOf_adm hins i) ws[i]
      (hws _ (List.getElem_mem h)) tt hI0).1 why
  · exact table_inv (P := fun t => t.All SearchCtl.DepthOK ∧ TT.AInv Gen.bucketSize nT nB t ∧ SearchCtl.RootInv ctx root t)
      (SafeI_safeInsert hT hB) (H.take n) tt hI0 (fun p hp => hins p (List.mem_of_mem_take hp))

theorem take_all_table (tt : TT.Access) (H : History) : History.table tt (H.take H.length) = History.table tt H := by
  rw [List.take_length]

theorem mem_workersOfIteration {depth : Nat} {bestMv : Option Move} {seeds : List UInt64} {pollsOf : Nat → Nat}
    {w : Worker} (hw : w ∈ workersOfIteration depth bestMv seeds pollsOf) :
    w.searchDepth ≤ depth + 1 ∧ (w.best = bestMv ∨ w.best = Option.none) := by
  unfold workersOfIteration at hw
  obtain ⟨p, _, rfl⟩ := List.mem_map.1 hw
  refine ⟨?_, ?_⟩
  · show (depth - p.1 % 2) + 1 ≤ depth + 1
    omega
  · show (if p.1 == 0 then bestMv else Option.none) = bestMv ∨ (if p.1 == 0 then bestMv else Option.none) = Option.none
    split
    · exact Or.inl rfl
    · exact Or.inr rfl

/-- the runs whose results `joinOf` joins -/
theorem mem_joinOuts {ctx : Ctx} {root : State} {tt : TT.Access} {ws : List Worker} {H : History}
    {o : Except Stop Eval × St × List TOp}
    (ho : o ∈ (List.range ws.length).filterMap fun i => ws[i]?.map fun w => runWorkerE (envOf H i) ctx root w tt) :
    ∃ i, ∃ h : i < ws.length, o = runWorkerE (envOf H i) ctx root ws[i] tt := by
  obtain ⟨i, hi, hio⟩ := List.mem_filterMap.1 ho
  have hlt : i < ws.length := List.mem_range.1 hi
  rw [List.getElem?_eq_getElem hlt] at hio
  exact ⟨i, hlt, (Option.some.inj hio).symm⟩

theorem joinOf_evals {ctx : Ctx} {root : State} {tt : TT.Access} {ws : List Worker} {H : History} {polls : Nat}
    {e : Eval} (he : e ∈ (joinOf ctx root tt ws H polls).evals) :
    ∃ i, ∃ h : i < ws.length, outcomeOf ctx root tt ws[i] H i = .ok e := by
  unfold joinOf at he
  simp only at he
  obtain ⟨o, ho, hoe⟩ := List.mem_filterMap.1 he
  obtain ⟨i, h, rfl⟩ := mem_joinOuts ho
  refine ⟨i, h, ?_⟩
  unfold outcomeOf
  cases hr : (runWorkerE (envOf H i) ctx root ws[i] tt).1 with
  | ok v => rw [hr] at hoe; cases hoe; rfl
  | error err => rw [hr] at hoe; cases hoe

theorem joinOf_panic {ctx : Ctx} {root : State} {tt : TT.Access} {ws : List Worker} {H : History} {polls : Nat}
    {why : String} (hp : (joinOf ctx root tt ws H polls).panic = some why) :
    ∃ i, ∃ h : i < ws.length, outcomeOf ctx root tt ws[i] H i = .error (.panic why) := by
  unfold joinOf at hp
  simp only at hp
  obtain ⟨o, ho, hoe⟩ := List.exists_of_findSome?_eq_some hp
  obtain ⟨i, h, rfl⟩ := mem_joinOuts ho
  refine ⟨i, h, ?_⟩
  unfold outcomeOf
  cases hr : (runWorkerE (envOf H i) ctx root ws[i] tt).1 with
  | ok v => rw [hr] at hoe; cases hoe
  | error err =>
    rw [hr] at hoe
    cases err with
    | interrupt => cases hoe
    | panic w => cases hoe; rfl

theorem joinOf_tt (ctx : Ctx) (root : State) (tt : TT.Access) (ws : List Worker) (H : History) (polls : Nat) :
    (joinOf ctx root tt ws H polls).tt = History.table tt H := rfl

/-- C03: the report step keeps the loop invariant for ANY joined results whose table satisfies `TInv`
(the proof of `iterStep_inv` after its call of `runWorkers_keeps`) -/
theorem finishStep_inv {G : Nat → State → Prop} (hG : Graded G) (D : Nat) (ctx : Ctx) (root : State) (hroot : G 0 root)
    (rootHash : UInt64) (depth : Nat) (hdepth : depth + 1 ≤ D) (rng : Rng.ChaCha8) (w : WorkersOut) (st : IterSt)
    (hw : TInv ctx.keys (upTo G D) w.tt) (h : IterInv ctx.keys (upTo G D) root st) :
    IterInv ctx.keys (upTo G D) root (finishStep ctx root rootHash depth rng w st) := by
  have hline : LineLegal root (walkLine ctx.keys w.tt (depth + 1) root) :=
    walkLine_legal_graded hG D hw.2 _ _ 0 hroot (by omega)
  have hne : ∀ l : List Move, ¬ l.isEmpty = true → l ≠ [] := by
    intro l hl h; subst h; exact hl rfl
  unfold finishStep
  split
  · exact ⟨h.tt, h.best, h.events⟩
  · split
    · dsimp only
      split
      · refine ⟨hw, fun m hm => (by cases hm), ?_⟩
        intro ev line hmem
        rcases List.mem_append.1 hmem with h1 | h1
        · exact h.events ev line h1
        · rw [List.mem_singleton] at h1; cases h1
      · rename_i hemp
        refine ⟨hw, ?_, ?_⟩
        · intro m hm
          generalize walkLine ctx.keys w.tt (depth + 1) root = line at hline hm
          cases line with
          | nil => cases hm
          | cons x xs => cases hm; exact hline.head
        · intro ev line hmem
          rcases List.mem_append.1 hmem with h1 | h1
          · rcases List.mem_append.1 h1 with h2 | h2
            · exact h.events ev line h2
            · rw [List.mem_singleton] at h2; cases h2
          · rw [List.mem_singleton] at h1; cases h1
            exact ⟨hne _ hemp, hline⟩
    · refine ⟨hw, h.best, ?_⟩
      intro ev line hmem
      dsimp only at hmem
      split at hmem
      · split at hmem
        · split at hmem
          · exact h.events ev line hmem
          · rename_i hemp
            rcases List.mem_append.1 hmem with h1 | h1
            · exact h.events ev line h1
            · rw [List.mem_singleton] at h1; cases h1
              exact ⟨hne _ hemp, hline⟩
        · exact h.events ev line hmem
      · exact h.events ev line hmem

/-- what a completed iteration reports: the walked line with the maximum of the workers' values -/
theorem finishStep_reports (ctx : Ctx) (root : State) (rootHash : UInt64) (depth : Nat) (rng : Rng.ChaCha8)
    (w : WorkersOut) (st : IterSt) (hp : w.panic = Option.none) (hi : w.interrupted = false)
    (x : Move) (xs : List Move) (hline : walkLine ctx.keys w.tt (depth + 1) root = x :: xs)
    (e : Eval) (es : List Eval) (he : w.evals = e :: es) :
    (finishStep ctx root rootHash depth rng w st).panic = st.panic ∧
    Event.best (es.foldl max e) (x :: xs) ∈ (finishStep ctx root rootHash depth rng w st).events := by
  unfold finishStep
  rw [hp, hi, hline, he]
  simp

/-- C03: one iteration under any schedule keeps the loop invariant -/
theorem stepS_inv {G : Nat → State → Prop} (hG : Graded G) (D : Nat) (ctx : Ctx)
    (hcf : CollisionFree ctx.keys (upTo G D)) (root : State) (hroot : G 0 root) (rootHash : UInt64)
    (workers depth : Nat) (hdepth : depth + 1 ≤ D) (st st' : IterSt)
    (h : IterInv ctx.keys (upTo G D) root st) (hs : StepS ctx root rootHash workers depth st st') :
    IterInv ctx.keys (upTo G D) root st' := by
  obtain ⟨pollsOf, started, H, polls', hsub, _, hI, rfl⟩ := hs
  refine finishStep_inv hG D ctx root hroot rootHash depth hdepth _ _ st ?_ h
  rw [joinOf_tt, ← take_all_table]
  refine (interleaving_legal hG D ctx hcf root hroot st.tt h.tt _ (fun w hw => ?_) H hI).2 _
  obtain ⟨h1, h2⟩ := mem_workersOfIteration (hsub.subset hw)
  refine ⟨by omega, fun m hm => ?_⟩
  rcases h2 with h2 | h2
  · rw [h2] at hm; exact h.best m hm
  · rw [h2] at hm; cases hm

theorem loopS_inv {G : Nat → State → Prop} (hG : Graded G) (D : Nat) (ctx : Ctx)
    (hcf : CollisionFree ctx.keys (upTo G D)) (root : State) (hroot : G 0 root) (rootHash : UInt64)
    (workersOf : Nat → Nat) {n depth : Nat} {st st' : IterSt} (hl : LoopS ctx root rootHash workersOf n depth st st') :
    depth + n ≤ D → IterInv ctx.keys (upTo G D) root st → IterInv ctx.keys (upTo G D) root st' := by
  induction hl with
  | done depth st => exact fun _ h => h
  | finished n depth st _ => exact fun _ h => h
  | stopped n depth st p _ _ =>
    exact fun _ h => (show IterInv _ _ root { st with polls := p } from ⟨h.tt, h.best, h.events⟩).boundaryPoll ctx depth
  | step n depth st st1 st2 p _ _ hs _ ih =>
    intro hd h
    exact ih (by omega) (stepS_inv hG D ctx hcf root hroot rootHash _ depth (by omega) _ st1
      ((show IterInv _ _ root { st with polls := p } from ⟨h.tt, h.best, h.events⟩).boundaryPoll ctx depth) hs)

/-! ### C06 -/

section soundS
open Wee.C06 Wee.Outcome

/-- C06: the report step for ANY joined results with a sound table and sound values (the proof of `iterStep_sound`
after its call of `runWorkers_ok`, without the one-worker pairing clause) -/
theorem finishStep_sound {K : Keys} {D : State → Prop} {L nT nB : Nat} (ctx : Ctx) (hK : ctx.keys = K) (root : State)
    (hD : D root) (rootHash : UInt64) (hrh : rootHash = hash ctx.keys root) (depth : Nat) (rng : Rng.ChaCha8)
    (w : WorkersOut) (st : IterSt) (hwtt : C06.TTInv K D L nT nB w.tt)
    (hwev : ∀ e ∈ w.evals, SoundVal root (-11000) 11000 e) (h : IterOK K D L nT nB root st) :
    IterOK K D L nT nB root (finishStep ctx root rootHash depth rng w st) ∧
    ∃ new, (finishStep ctx root rootHash depth rng w st).events = st.events ++ new ∧ ∀ ev ∈ new, ClaimTrue root ev := by
  subst hrh
  subst hK
  obtain ⟨htt, hbest, hbe⟩ := h
  have noEv : ∀ evs : List Event, ∃ new, evs = evs ++ new ∧ ∀ ev ∈ new, ClaimTrue root ev :=
    fun evs => ⟨[], (List.append_nil _).symm, fun _ h => nomatch h⟩
  unfold finishStep
  cases hp : w.panic with
  | some why => exact ⟨⟨htt, hbest, hbe⟩, noEv _⟩
  | none =>
    simp only
    have hline : ∀ n, (walkLine ctx.keys w.tt (n + 1) root).isEmpty = false →
        ∃ x, w.tt.find (hash ctx.keys root).toNat = some x ∧
          (walkLine ctx.keys w.tt (n + 1) root).head? = some x.mv.toUInt32 := fun n hl => C06.walkLine_head hl
    by_cases hi : (!w.interrupted) = true
    · rw [if_pos hi]
      have hbe' : Ev.posInf ≤ (match w.evals with | [] => st.bestEval | e :: es => List.foldl max e es) → Win root := by
        cases hev : w.evals with
        | nil => exact hbe
        | cons e es =>
          simp only
          intro hpos
          have hm := foldl_max_mem e es
          rw [← hev] at hm
          refine (hwev _ hm).1 ⟨hpos, ?_⟩
          rw [posInf_eq] at hpos; eomega
      by_cases hl : (walkLine ctx.keys w.tt (depth + 1) root).isEmpty = true
      · rw [if_pos hl]
        exact ⟨⟨hwtt, fun m hm => (nomatch hm), hbe'⟩, [.progress (depth + 1) (st.nodes + w.sumNodes)], rfl,
          fun ev hev => by rw [List.mem_singleton.1 hev]; trivial⟩
      · rw [if_neg hl]
        have hl' : (walkLine ctx.keys w.tt (depth + 1) root).isEmpty = false := by
          cases hx : (walkLine ctx.keys w.tt (depth + 1) root).isEmpty <;> simp_all
        obtain ⟨x, hx1, hx2⟩ := hline depth hl'
        obtain ⟨hmv, _⟩ := root_entry_move hwtt.2 hD hx1
        refine ⟨⟨hwtt, ?_, hbe'⟩, [.progress (depth + 1) (st.nodes + w.sumNodes),
          .best (match w.evals with | [] => st.bestEval | e :: es => List.foldl max e es)
            (walkLine ctx.keys w.tt (depth + 1) root)], by rw [List.append_assoc]; rfl, ?_⟩
        · intro m hm
          simp only at hm
          rw [hx2] at hm
          cases hm; exact hmv
        · intro ev hev
          rcases List.mem_cons.1 hev with h1 | h1
          · rw [h1]; trivial
          · rw [List.mem_singleton.1 h1]; exact hbe'
    · rw [if_neg hi]
      refine ⟨⟨hwtt, hbest, hbe⟩, ?_⟩
      cases hf : w.tt.find (hash ctx.keys root).toNat with
      | none => exact noEv _
      | some x =>
        simp only
        by_cases hgt : x.eval > st.bestEval
        · rw [if_pos hgt]
          by_cases hl : (walkLine ctx.keys w.tt (depth + 1) root).isEmpty = true
          · rw [if_pos hl]
            exact noEv _
          · rw [if_neg hl]
            have hl' : (walkLine ctx.keys w.tt (depth + 1) root).isEmpty = false := by
              cases hx : (walkLine ctx.keys w.tt (depth + 1) root).isEmpty <;> simp_all
            obtain ⟨x', hx1, hx2⟩ := hline depth hl'
            rw [hf] at hx1
            cases hx1
            obtain ⟨_, hmvw⟩ := root_entry_move hwtt.2 hD hf
            have hkeep : MoveKeeps root (.best x.eval (walkLine ctx.keys w.tt (depth + 1) root)) := by
              intro hpos
              rw [posInf_eq] at hpos
              obtain ⟨r, hr, hr1, hr2⟩ := hmvw hpos
              exact ⟨r, hr, by rw [hx2, hr1], hr2⟩
            exact ⟨[_], rfl, fun ev hev => by rw [List.mem_singleton.1 hev]; exact hkeep.claim⟩
        · rw [if_neg hgt]
          exact noEv _

theorem bestOK_of_mem {root : State} {depth : Nat} {bestMv : Option Move} {seeds : List UInt64} {pollsOf : Nat → Nat}
    (hb : C06.BestOK root bestMv) {w : Worker} (hw : w ∈ workersOfIteration depth bestMv seeds pollsOf) :
    C06.BestOK root w.best := by
  rcases (mem_workersOfIteration hw).2 with h | h
  · rw [h]; exact hb
  · rw [h]; exact fun m hm => nomatch hm

/-- C06: one iteration under any schedule -/
theorem stepS_sound {K : Keys} {D : State → Prop} {L nT nB : Nat} (g : Geo L nT nB) (dom : Domain K D)
    (ctx : Ctx) (hK : ctx.keys = K) (root : State) (hD : D root) (rootHash : UInt64) (hrh : rootHash = hash ctx.keys root)
    (workers depth : Nat) (st st' : IterSt) (h : IterOK K D L nT nB root st)
    (hs : StepS ctx root rootHash workers depth st st') :
    IterOK K D L nT nB root st' ∧ ∃ new, st'.events = st.events ++ new ∧ ∀ ev ∈ new, ClaimTrue root ev := by
  obtain ⟨pollsOf, started, H, polls', hsub, _, hI, rfl⟩ := hs
  have hs := interleaving_sound g dom ctx hK root hD st.tt h.1 _ (fun w hw => bestOK_of_mem h.2.1 (hsub.subset hw)) H hI
  refine finishStep_sound ctx hK root hD rootHash hrh depth _ _ st ?_ ?_ h
  · rw [joinOf_tt, ← take_all_table]; exact hs.2.1 _
  · intro e he
    obtain ⟨i, hi, hoe⟩ := joinOf_evals he
    exact hs.2.2 i hi e hoe

theorem loopS_sound {K : Keys} {D : State → Prop} {L nT nB : Nat} (g : Geo L nT nB) (dom : Domain K D)
    (ctx : Ctx) (hK : ctx.keys = K) (root : State) (hD : D root) (rootHash : UInt64) (hrh : rootHash = hash ctx.keys root)
    (workersOf : Nat → Nat) {n depth : Nat} {st st' : IterSt} (hl : LoopS ctx root rootHash workersOf n depth st st') :
    IterOK K D L nT nB root st →
      IterOK K D L nT nB root st' ∧ ∃ new, st'.events = st.events ++ new ∧ ∀ ev ∈ new, ClaimTrue root ev := by
  induction hl with
  | done depth st => exact fun h => ⟨h, [], (List.append_nil _).symm, fun _ h => nomatch h⟩
  | finished n depth st _ => exact fun h => ⟨h, [], (List.append_nil _).symm, fun _ h => nomatch h⟩
  | stopped n depth st p _ _ =>
    exact fun h => ⟨(show IterOK K D L nT nB root { st with polls := p } from h).boundaryPoll ctx depth, [],
      by rw [boundaryPoll_events, List.append_nil], fun _ h => nomatch h⟩
  | step n depth st st1 st2 p _ _ hs _ ih =>
    intro h
    obtain ⟨h1, new1, e1, c1⟩ := stepS_sound g dom ctx hK root hD rootHash hrh _ depth _ st1
      ((show IterOK K D L nT nB root { st with polls := p } from h).boundaryPoll ctx depth) hs
    rw [boundaryPoll_events] at e1
    obtain ⟨h2, new2, e2, c2⟩ := ih h1
    refine ⟨h2, new1 ++ new2, by rw [e2, e1, List.append_assoc], fun ev hev => ?_⟩
    rcases List.mem_append.1 hev with h' | h'
    · exact c1 ev h'
    · exact c2 ev h'

end soundS

/-! ### C04 -/

section safeS
open Wee.SearchCtl

/-- loop-state invariant of the no-panic proof (as `SearchCtl.SafeS`, on the table only) -/
def SafeSE (ctx : Ctx) (root : State) (nT nB : Nat) (st : IterSt) : Prop :=
  (st.tt.All DepthOK ∧ TT.AInv Gen.bucketSize nT nB st.tt ∧ RootInv ctx root st.tt) ∧ BestOK root st.bestMv ∧
  st.panic = Option.none

theorem finishStep_safe (ctx : Ctx) (root : State) (nT nB : Nat) (depth : Nat) (rng : Rng.ChaCha8) (w : WorkersOut)
    (st : IterSt) (hw : w.tt.All DepthOK ∧ TT.AInv Gen.bucketSize nT nB w.tt ∧ RootInv ctx root w.tt)
    (hp : w.panic = Option.none) (h : SafeSE ctx root nT nB st) :
    SafeSE ctx root nT nB (finishStep ctx root (Wee.hash ctx.keys root) depth rng w st) := by
  obtain ⟨_, h2, h3⟩ := h
  unfold finishStep
  rw [hp]
  simp only
  have hline := walkLine_head ctx root w.tt hw.2.2 (depth + 1)
  by_cases hi : w.interrupted = true
  · simp only [hi, Bool.not_true, Bool.false_eq_true, ↓reduceIte]
    exact ⟨hw, h2, h3⟩
  · simp only [hi, Bool.not_false, ↓reduceIte]
    split
    · exact ⟨hw, (fun m hm => by cases hm), h3⟩
    · exact ⟨hw, hline, h3⟩

theorem stepS_safe (ctx : Ctx) (root : State) (nT nB : Nat) (hT : 0 < nT) (hB : 0 < nB)
    (hhist : ctx.history.contains (Wee.hash ctx.keys root) = true) (hg : Good root)
    (workers depth : Nat) (st st' : IterSt) (h : SafeSE ctx root nT nB st)
    (hs : StepS ctx root (Wee.hash ctx.keys root) workers depth st st') : SafeSE ctx root nT nB st' := by
  obtain ⟨pollsOf, started, H, polls', hsub, _, hI, rfl⟩ := hs
  have hb : ∀ w ∈ started, BestOK root w.best := by
    intro w hw
    rcases (mem_workersOfIteration (hsub.subset hw)).2 with h' | h'
    · rw [h']; exact h.2.1
    · rw [h']; exact fun m hm => nomatch hm
  have hs := interleaving_safe ctx root nT nB hT hB hhist hg st.tt h.1 _ hb H hI
  refine finishStep_safe ctx root nT nB depth _ _ st ?_ ?_ h
  · rw [joinOf_tt, ← take_all_table]; exact hs.2.1 _
  · cases hp : (joinOf ctx root st.tt _ H polls').panic with
    | none => rfl
    | some why =>
      obtain ⟨i, hi, hoe⟩ := joinOf_panic hp
      exact absurd hoe (hs.1 i hi why)

theorem loopS_safe (ctx : Ctx) (root : State) (nT nB : Nat) (hT : 0 < nT) (hB : 0 < nB)
    (hhist : ctx.history.contains (Wee.hash ctx.keys root) = true) (hg : Good root) (workersOf : Nat → Nat)
    {n depth : Nat} {st st' : IterSt} (hl : LoopS ctx root (Wee.hash ctx.keys root) workersOf n depth st st') :
    SafeSE ctx root nT nB st → SafeSE ctx root nT nB st' := by
  induction hl with
  | done depth st => exact fun h => h
  | finished n depth st _ => exact fun h => h
  | stopped n depth st p _ _ =>
    intro h
    unfold SafeSE; rw [boundaryPoll_tt, boundaryPoll_bestMv, boundaryPoll_panic]; exact h
  | step n depth st st1 st2 p _ _ hs _ ih =>
    intro h
    refine ih (stepS_safe ctx root nT nB hT hB hhist hg _ depth _ st1 ?_ hs)
    unfold SafeSE; rw [boundaryPoll_tt, boundaryPoll_bestMv, boundaryPoll_panic]; exact h

end safeS

end searchS

/-! ## 15. the worker's view of the table is the shared table (reads-from consistency) -/

/-- started with `n` earlier operations on the table `tt`, the log `l` is what the table operations of the worker do:
each operation first lets the batch of its index take effect, a `find` returns what the table then holds, an `insert`
stores; `tt'` is the table after the last operation -/
def Replay (env : Env) : Nat → TT.Access → List TOp → TT.Access → Prop
  | _, tt, [], tt' => tt' = tt
  | n, tt, .find k r :: l, tt' =>
    (applyInserts tt (env.script n)).find k = r ∧ Replay env (n + 1) (applyInserts tt (env.script n)) l tt'
  | n, tt, .insert k e :: l, tt' => Replay env (n + 1) ((applyInserts tt (env.script n)).insert k e) l tt'

theorem Replay.append {env : Env} : ∀ (l1 : List TOp) {l2 : List TOp} {n : Nat} {tt tt1 tt2 : TT.Access},
    Replay env n tt l1 tt1 → Replay env (n + l1.length) tt1 l2 tt2 → Replay env n tt (l1 ++ l2) tt2 := by
  intro l1
  induction l1 with
  | nil => intro l2 n tt tt1 tt2 h1 h2; cases h1; exact h2
  | cons op l1 ih =>
    intro l2 n tt tt1 tt2 h1 h2
    rw [List.length_cons, show n + (l1.length + 1) = (n + 1) + l1.length by omega] at h2
    cases op with
    | find k r => exact ⟨h1.1, ih h1.2 h2⟩
    | insert k e => exact ih h1 h2

/-- `x` touches the table only through its logged operations -/
def TableOK {α : Type} (env : Env) (x : ME α) : Prop := ∀ n st, Replay env n st.tt (x n st).2.2 (x n st).2.1.tt

section tableOK
variable {env : Env} {α β : Type}

theorem tableOK_pure (a : α) : TableOK env (pure a : ME α) := fun _ _ => rfl
theorem tableOK_throw (e : Stop) : TableOK env (throw e : ME α) := fun _ _ => rfl
theorem tableOK_get : TableOK env (get : ME St) := fun _ _ => rfl
theorem tableOK_find (k : Nat) : TableOK env (findE env k) := fun _ _ => ⟨rfl, rfl⟩
theorem tableOK_insert (k : Nat) (e : TT.Entry) : TableOK env (insertE env k e) := fun _ _ => rfl

theorem tableOK_bind {x : ME α} {f : α → ME β} (hx : TableOK env x) (hf : ∀ a, TableOK env (f a)) :
    TableOK env (x >>= f) := by
  intro n st
  rw [bind_run]
  have h1 := hx n st
  generalize x n st = o at h1 ⊢
  obtain ⟨r, st1, l1⟩ := o
  cases r with
  | error e => exact h1
  | ok a =>
    simp only
    have h2 := hf a (n + l1.length) st1
    generalize f a (n + l1.length) st1 = o2 at h2 ⊢
    obtain ⟨r2, st2, l2⟩ := o2
    exact Replay.append l1 h1 h2

theorem tableOK_throw_bind {γ : Type} (e : Stop) (f : γ → ME β) : TableOK env ((throw e : ME γ) >>= f) := fun _ _ => rfl

theorem tableOK_liftE {x : M α} {P : α → Prop} (h : SearchCtl.RngOnly x P) : TableOK env (liftE x) := by
  intro n st
  obtain ⟨v, r, hrun, _⟩ := h st
  rw [liftE_run, hrun]
  rfl

end tableOK

section tableOKnode
variable (env : Env) (ctx : Ctx)

theorem childLoopE_tableOK (child : NodeArgs → ME Eval) (hc : ∀ a, TableOK env (child a)) (a : NodeArgs) (hash : UInt64) :
    ∀ (l : List Move) (alpha : Eval) (best : Option Move) (kind : Nat),
      TableOK env (childLoopE env ctx child a hash l alpha best kind) := by
  intro l
  induction l with
  | nil => intro alpha best kind; rw [childLoopE]; exact tableOK_pure _
  | cons mv rest ih =>
    intro alpha best kind
    rw [childLoopE]
    cases tryAsLegal a.s mv with
    | none => exact tableOK_throw _
    | some o =>
      cases o with
      | none => exact ih alpha best kind
      | some r =>
        obtain ⟨m, next⟩ := r
        simp only
        refine tableOK_bind (hc _) fun v => ?_
        split
        · exact tableOK_bind (tableOK_insert _ _) fun _ => tableOK_pure _
        · split
          · exact ih _ _ _
          · exact ih _ _ _

theorem tailE_tableOK (a : NodeArgs) (hash : UInt64) (alpha beta : Eval) (rec : Option (NodeArgs → ME Eval))
    (hrec : ∀ c, rec = some c → ∀ a, TableOK env (c a)) : TableOK env (tailE env ctx a hash alpha beta rec) := by
  cases rec with
  | none =>
    unfold tailE
    cases quiesce evaluate (quiesceFuel a.s) a.s a.curDepth alpha beta with
    | ok v => exact tableOK_pure _
    | error e => exact tableOK_throw _
  | some c =>
    unfold tailE
    cases pseudoLegalMoves a.s with
    | none => exact tableOK_throw _
    | some pseudo =>
      simp only
      refine tableOK_bind (tableOK_liftE (SearchCtl.sort_rngOnly a.s pseudo)) fun sorted => ?_
      refine tableOK_bind tableOK_get fun st0 => ?_
      refine tableOK_bind (childLoopE_tableOK env ctx c (hrec c rfl) _ hash _ _ _ _) fun res => ?_
      rcases res with b | ⟨alpha', best, kind⟩
      · exact tableOK_pure _
      · simp only
        refine tableOK_bind tableOK_get fun st1 => ?_
        split
        · cases evaluate a.s a.s.turn a.curDepth with
          | some e => exact tableOK_pure _
          | none => exact tableOK_throw_bind _ _
        · cases best with
          | none => exact tableOK_pure _
          | some m => exact tableOK_bind (tableOK_insert _ _) fun _ => tableOK_pure _

theorem probeE_tableOK (a : NodeArgs) (hash : UInt64) (rec : Option (NodeArgs → ME Eval))
    (hrec : ∀ c, rec = some c → ∀ a, TableOK env (c a)) : TableOK env (probeE env ctx a hash rec) := by
  have ht : ∀ alpha beta, TableOK env (tailE env ctx a hash alpha beta rec) :=
    fun alpha beta => tailE_tableOK env ctx a hash alpha beta rec hrec
  unfold probeE
  refine tableOK_bind (tableOK_find _) fun r => ?_
  cases r with
  | none => exact ht _ _
  | some e =>
    unfold probeK
    simp only
    split
    · exact tableOK_throw_bind _ _
    · split
      · split
        · exact tableOK_pure _
        · split
          · split
            · exact tableOK_pure _
            · exact ht _ _
          · split
            · exact tableOK_pure _
            · exact ht _ _
      · exact ht _ _

theorem tick_tt (st : St) : (tick ctx st).2.tt = st.tt := by
  rw [SearchCtl.tick_eq]
  split
  · split <;> rfl
  · rfl

theorem nodeBodyE_tableOK (a : NodeArgs) (rec : Option (NodeArgs → ME Eval))
    (hrec : ∀ c, rec = some c → ∀ a, TableOK env (c a)) : TableOK env (nodeBodyE env ctx rec a) := by
  intro n st
  rw [nodeBodyE_run]
  have htt := tick_tt ctx st
  generalize tick ctx st = o at htt ⊢
  obtain ⟨r, st1⟩ := o
  cases r with
  | error e => exact htt
  | ok u =>
    simp only
    split
    · exact htt
    · have := probeE_tableOK env ctx a (Wee.hash ctx.keys a.s) rec hrec n st1
      rw [show st1.tt = st.tt from htt] at this
      exact this

/-- the worker's table is the start table changed by the environment's batches and its own logged operations only, and
every logged `find` carries what that table held -/
theorem searchNodeE_tableOK : ∀ (rem : Nat) (a : NodeArgs), TableOK env (searchNodeE env ctx rem a) := by
  intro rem
  induction rem with
  | zero => intro a; rw [searchNodeE_zero]; exact nodeBodyE_tableOK env ctx a _ (fun _ h => nomatch h)
  | succ rem ih =>
    intro a
    rw [searchNodeE_succ]
    exact nodeBodyE_tableOK env ctx a _ (fun c hc => by cases hc; exact ih)

theorem runWorkerE_replay (root : State) (w : Worker) (tt : TT.Access) :
    Replay env 0 tt (runWorkerE env ctx root w tt).2.2 (runWorkerE env ctx root w tt).2.1.tt :=
  searchNodeE_tableOK env ctx w.searchDepth (rootArgsE root w) 0 { tt, rng := w.rng, nodes := 0, polls := w.polls }

end tableOKnode

theorem Replay.congr {env env' : Env} : ∀ (l : List TOp) {n : Nat} {tt tt' : TT.Access},
    (∀ m, n ≤ m → env.script m = env'.script m) → Replay env n tt l tt' → Replay env' n tt l tt' := by
  intro l
  induction l with
  | nil => intro n tt tt' _ h; exact h
  | cons op l ih =>
    intro n tt tt' hs h
    have hs' : ∀ m, n + 1 ≤ m → env.script m = env'.script m := fun m hm => hs m (by omega)
    cases op with
    | find k r =>
      unfold Replay at h ⊢
      rw [← hs n (Nat.le_refl _)]
      exact ⟨h.1, ih hs' h.2⟩
    | insert k e =>
      unfold Replay at h ⊢
      rw [← hs n (Nat.le_refl _)]
      exact ih hs' h

theorem table_cons (tt : TT.Access) (p : Nat × TOp) (H : History) :
    History.table tt (p :: H) = History.table (p.2.apply tt) H := rfl

/-- if worker `i`'s part of the history `H` replays in the environment `H` induces for it, then every `find` of worker
`i` in `H` returned what the SHARED table (all workers' inserts before it, in the order of `H`) held at that moment -/
theorem replay_history (i : Nat) : ∀ (H : History) (env : Env) (n : Nat) (tt : TT.Access),
    (∀ j, env.script (n + j) = (batchesOf i H).getD j []) →
    (∃ tt', Replay env n tt (History.proj H i) tt') →
    ∀ H1 k r H2, H = H1 ++ (i, TOp.find k r) :: H2 → (History.table tt H1).find k = r := by
  intro H
  induction H with
  | nil => intro env n tt _ _ H1 k r H2 h; simp at h
  | cons p rest ih =>
    obtain ⟨j, op⟩ := p
    intro env n tt hscript ⟨tt', hrep⟩ H1 k r H2 hH
    cases hj : (j == i) with
    | true =>
      have hji : j = i := by simpa using hj
      subst hji
      rw [batchesOf_cons_own] at hscript
      rw [proj_cons_own] at hrep
      have h0 : env.script n = [] := by simpa using hscript 0
      have hs' : ∀ j', env.script (n + 1 + j') = (batchesOf j rest).getD j' [] := by
        intro j'
        have := hscript (j' + 1)
        rw [show n + (j' + 1) = n + 1 + j' by omega] at this
        simpa using this
      cases op with
      | find k0 r0 =>
        unfold Replay at hrep
        rw [h0, applyInserts_nil] at hrep
        cases H1 with
        | nil =>
          simp only [List.nil_append, List.cons.injEq, Prod.mk.injEq, TOp.find.injEq, true_and] at hH
          obtain ⟨⟨rfl, rfl⟩, _⟩ := hH
          exact hrep.1
        | cons q H1' =>
          simp only [List.cons_append, List.cons.injEq] at hH
          obtain ⟨rfl, hrest⟩ := hH
          rw [table_cons]
          exact ih env (n + 1) tt hs' ⟨tt', hrep.2⟩ H1' k r H2 hrest
      | insert k0 e0 =>
        unfold Replay at hrep
        rw [h0, applyInserts_nil] at hrep
        cases H1 with
        | nil => simp at hH
        | cons q H1' =>
          simp only [List.cons_append, List.cons.injEq] at hH
          obtain ⟨rfl, hrest⟩ := hH
          rw [table_cons]
          exact ih env (n + 1) (tt.insert k0 e0) hs' ⟨tt', hrep⟩ H1' k r H2 hrest
    | false =>
      rw [proj_cons_other hj] at hrep
      cases H1 with
      | nil =>
        simp only [List.nil_append, List.cons.injEq, Prod.mk.injEq] at hH
        obtain ⟨⟨rfl, _⟩, _⟩ := hH
        simp at hj
      | cons q H1' =>
        simp only [List.cons_append, List.cons.injEq] at hH
        obtain ⟨rfl, hrest⟩ := hH
        rw [table_cons]
        cases op with
        | find k0 r0 =>
          rw [batchesOf_cons_other_find hj] at hscript
          exact ih env n tt hscript ⟨tt', hrep⟩ H1' k r H2 hrest
        | insert k0 e0 =>
          rw [batchesOf_cons_other_insert hj] at hscript
          cases hb : batchesOf i rest with
          | nil => exact absurd hb (batchesOf_ne_nil i rest)
          | cons b0 bs =>
            rw [hb] at hscript
            have h0 : env.script n = (k0, e0) :: b0 := by simpa [consHead] using hscript 0
            -- the environment that has already delivered `(k0, e0)`
            let env' : Env := ⟨fun m => if m = n then b0 else env.script m⟩
            have hs' : ∀ j', env'.script (n + j') = (batchesOf i rest).getD j' [] := by
              intro j'
              rw [hb]
              cases j' with
              | zero => simp [env']
              | succ j'' =>
                have := hscript (j'' + 1)
                simp only [consHead, List.getD_cons_succ] at this
                show (if n + (j'' + 1) = n then b0 else env.script (n + (j'' + 1))) = _
                rw [if_neg (by omega), this]
                rfl
            refine ih env' n (tt.insert k0 e0) hs' ?_ H1' k r H2 hrest
            cases hl : History.proj rest i with
            | nil => exact ⟨_, rfl⟩
            | cons op0 l =>
              rw [hl] at hrep
              refine ⟨tt', ?_⟩
              have hc : ∀ m, n + 1 ≤ m → env.script m = env'.script m := by
                intro m hm
                show env.script m = if m = n then b0 else env.script m
                rw [if_neg (by omega)]
              have happ : applyInserts tt (env.script n) = applyInserts (tt.insert k0 e0) (env'.script n) := by
                rw [h0]
                show applyInserts tt ((k0, e0) :: b0) = applyInserts (tt.insert k0 e0) (if n = n then b0 else env.script n)
                rw [if_pos rfl]
                rfl
              cases op0 with
              | find k1 r1 =>
                unfold Replay at hrep ⊢
                rw [← happ]
                exact ⟨hrep.1, Replay.congr l hc hrep.2⟩
              | insert k1 e1 =>
                unfold Replay at hrep ⊢
                rw [← happ]
                exact Replay.congr l hc hrep

/-- **reads-from consistency.**  In an execution `H` every `find` of every worker returned exactly what the shared
table — the initial table changed by all inserts that precede the `find` in `H`, whoever made them — held at that
moment.  So `H` is a linearisation of the table operations in the sense of C15. -/
theorem interleaving_reads_from {ctx : Ctx} {root : State} {tt : TT.Access} {ws : List Worker} {H : History}
    (hI : Interleaving ctx root tt ws H) (H1 : History) (i k : Nat) (r : Option TT.Entry) (H2 : History)
    (hH : H = H1 ++ (i, TOp.find k r) :: H2) : (History.table tt H1).find k = r := by
  have hi : i < ws.length := hI.1 (i, TOp.find k r) (by rw [hH]; simp)
  have hrep := runWorkerE_replay (envOf H i) ctx root ws[i] tt
  rw [hI.2 i hi] at hrep
  exact replay_history i H (envOf H i) 0 tt (fun j => by rw [Nat.zero_add]; rfl) ⟨_, hrep⟩ H1 k r H2 hH

/-! ## 16. structural relations between the worker in two environments; environments that agree from some index on -/

/-- a relation between worker computations that is reflexive, compatible with `>>=`, and relates the table operations
of the two environments: it then relates the whole worker (`searchNodeE_srel`) -/
structure StructRel (R : {α : Type} → ME α → ME α → Prop) (env env' : Env) : Prop where
  refl : ∀ {α : Type} (x : ME α), R x x
  bind : ∀ {α β : Type} {x x' : ME α} {f f' : α → ME β}, R x x' → (∀ a, R (f a) (f' a)) → R (x >>= f) (x' >>= f')
  find : ∀ k, R (findE env k) (findE env' k)
  insert : ∀ k e, R (insertE env k e) (insertE env' k e)

section srel
variable {R : {α : Type} → ME α → ME α → Prop} {env env' : Env} (S : StructRel R env env') (ctx : Ctx)
include S

theorem childLoopE_srel (child child' : NodeArgs → ME Eval) (hc : ∀ a, R (child a) (child' a))
    (a : NodeArgs) (hash : UInt64) :
    ∀ (l : List Move) (alpha : Eval) (best : Option Move) (kind : Nat),
      R (childLoopE env ctx child a hash l alpha best kind) (childLoopE env' ctx child' a hash l alpha best kind) := by
  intro l
  induction l with
  | nil => intro alpha best kind; rw [childLoopE, childLoopE]; exact S.refl _
  | cons mv rest ih =>
    intro alpha best kind
    rw [childLoopE, childLoopE]
    cases tryAsLegal a.s mv with
    | none => exact S.refl _
    | some o =>
      cases o with
      | none => exact ih alpha best kind
      | some r =>
        obtain ⟨m, next⟩ := r
        simp only
        refine S.bind (hc _) fun v => ?_
        by_cases h1 : -v ≥ a.beta
        · rw [if_pos h1, if_pos h1]
          exact S.bind (S.insert _ _) fun _ => S.refl _
        · rw [if_neg h1, if_neg h1]
          by_cases h2 : -v > alpha
          · rw [if_pos h2, if_pos h2]; exact ih _ _ _
          · rw [if_neg h2, if_neg h2]; exact ih _ _ _

/-- the two recursive calls correspond -/
def RecSRel (R : {α : Type} → ME α → ME α → Prop) : Option (NodeArgs → ME Eval) → Option (NodeArgs → ME Eval) → Prop
  | Option.none, Option.none => True
  | some c, some c' => ∀ a, R (c a) (c' a)
  | _, _ => False

theorem tailE_srel (a : NodeArgs) (hash : UInt64) (alpha beta : Eval)
    (rec rec' : Option (NodeArgs → ME Eval)) (hrec : RecSRel R rec rec') :
    R (tailE env ctx a hash alpha beta rec) (tailE env' ctx a hash alpha beta rec') := by
  cases rec with
  | none =>
    cases rec' with
    | some c => exact hrec.elim
    | none => unfold tailE; exact S.refl _
  | some c =>
    cases rec' with
    | none => exact hrec.elim
    | some c' =>
      replace hrec : ∀ a, R (c a) (c' a) := hrec
      unfold tailE
      cases pseudoLegalMoves a.s with
      | none => exact S.refl _
      | some pseudo =>
        simp only
        refine S.bind (S.refl _) fun sorted => ?_
        refine S.bind (S.refl _) fun st0 => ?_
        refine S.bind (childLoopE_srel S ctx c c' hrec _ hash _ _ _ _) fun res => ?_
        rcases res with b | ⟨alpha', best, kind⟩
        · exact S.refl _
        · simp only
          refine S.bind (S.refl _) fun st1 => ?_
          have hfin : R (match best with
              | some m => do
                insertE env hash.toNat ({ kind := kind, mv := m.toNat, depth := a.curDepth, maxDepth := a.maxDepth, eval := alpha' } : TT.Entry)
                pure alpha'
              | Option.none => (pure alpha' : ME Eval))
              (match best with
              | some m => do
                insertE env' hash.toNat ({ kind := kind, mv := m.toNat, depth := a.curDepth, maxDepth := a.maxDepth, eval := alpha' } : TT.Entry)
                pure alpha'
              | Option.none => (pure alpha' : ME Eval)) := by
            cases best with
            | none => exact S.refl _
            | some m => exact S.bind (S.insert _ _) fun _ => S.refl _
          by_cases hn : (st1.nodes == st0.nodes) = true
          · rw [if_pos hn, if_pos hn]
            cases evaluate a.s a.s.turn a.curDepth with
            | some e => exact S.refl _
            | none => exact S.bind (S.refl _) fun _ => hfin
          · rw [if_neg hn, if_neg hn]
            exact hfin

theorem probeK_srel (a : NodeArgs) (hash : UInt64) (rec rec' : Option (NodeArgs → ME Eval)) (hrec : RecSRel R rec rec')
    (r : Option TT.Entry) : R (probeK env ctx a hash rec r) (probeK env' ctx a hash rec' r) := by
  have ht : ∀ alpha beta, R (tailE env ctx a hash alpha beta rec) (tailE env' ctx a hash alpha beta rec') :=
    fun alpha beta => tailE_srel S ctx a hash alpha beta rec rec' hrec
  cases r with
  | none => exact ht _ _
  | some e =>
    unfold probeK
    simp only
    have hrest : R
        (if e.maxDepth - e.depth ≥ a.maxDepth - a.curDepth then
          if (e.kind == kindExact) = true then pure e.eval
          else if (e.kind == kindUpper) = true then
            if a.alpha ≥ min a.beta e.eval then pure e.eval else tailE env ctx a hash a.alpha (min a.beta e.eval) rec
          else if max a.alpha e.eval ≥ a.beta then pure e.eval else tailE env ctx a hash (max a.alpha e.eval) a.beta rec
        else tailE env ctx a hash a.alpha a.beta rec)
        (if e.maxDepth - e.depth ≥ a.maxDepth - a.curDepth then
          if (e.kind == kindExact) = true then pure e.eval
          else if (e.kind == kindUpper) = true then
            if a.alpha ≥ min a.beta e.eval then pure e.eval else tailE env' ctx a hash a.alpha (min a.beta e.eval) rec'
          else if max a.alpha e.eval ≥ a.beta then pure e.eval else tailE env' ctx a hash (max a.alpha e.eval) a.beta rec'
        else tailE env' ctx a hash a.alpha a.beta rec') := by
      by_cases hd : e.maxDepth - e.depth ≥ a.maxDepth - a.curDepth
      · rw [if_pos hd, if_pos hd]
        by_cases hx : (e.kind == kindExact) = true
        · rw [if_pos hx, if_pos hx]; exact S.refl _
        · rw [if_neg hx, if_neg hx]
          by_cases hk : (e.kind == kindUpper) = true
          · rw [if_pos hk, if_pos hk]
            by_cases hc : a.alpha ≥ min a.beta e.eval
            · rw [if_pos hc, if_pos hc]; exact S.refl _
            · rw [if_neg hc, if_neg hc]; exact ht _ _
          · rw [if_neg hk, if_neg hk]
            by_cases hc : max a.alpha e.eval ≥ a.beta
            · rw [if_pos hc, if_pos hc]; exact S.refl _
            · rw [if_neg hc, if_neg hc]; exact ht _ _
      · rw [if_neg hd, if_neg hd]; exact ht _ _
    by_cases hu : a.maxDepth < a.curDepth ∨ e.maxDepth < e.depth
    · rw [if_pos hu, if_pos hu]
      exact S.bind (S.refl _) fun _ => hrest
    · rw [if_neg hu, if_neg hu]
      exact hrest

theorem probeE_srel (a : NodeArgs) (hash : UInt64) (rec rec' : Option (NodeArgs → ME Eval)) (hrec : RecSRel R rec rec') :
    R (probeE env ctx a hash rec) (probeE env' ctx a hash rec') := by
  unfold probeE
  exact S.bind (S.find _) fun r => probeK_srel S ctx a hash rec rec' hrec r

theorem nodeBodyE_srel (a : NodeArgs) (rec rec' : Option (NodeArgs → ME Eval)) (hrec : RecSRel R rec rec') :
    R (nodeBodyE env ctx rec a) (nodeBodyE env' ctx rec' a) := by
  unfold nodeBodyE
  refine S.bind (S.refl _) fun _ => ?_
  refine S.bind (S.refl _) fun st => ?_
  simp only
  have hrest : R
      (if (decide (a.curDepth > 0) && ctx.history.contains (hash ctx.keys a.s)) = true then pure 0
        else probeE env ctx a (hash ctx.keys a.s) rec)
      (if (decide (a.curDepth > 0) && ctx.history.contains (hash ctx.keys a.s)) = true then pure 0
        else probeE env' ctx a (hash ctx.keys a.s) rec') := by
    split
    · exact S.refl _
    · exact probeE_srel S ctx a _ rec rec' hrec
  by_cases hp : (st.nodes % Gen.pollInterval == 0) = true
  · rw [if_pos hp, if_pos hp]
    refine S.bind (S.refl _) fun _ => ?_
    cases ctx.cancelAt with
    | none => simp only [Bool.false_eq_true, if_false]; exact hrest
    | some k =>
      simp only
      by_cases hc : decide (st.polls ≥ k) = true
      · rw [if_pos hc, if_pos hc]; exact S.bind (S.refl _) fun _ => hrest
      · rw [if_neg hc, if_neg hc]; exact hrest
  · rw [if_neg hp, if_neg hp]
    exact hrest

theorem searchNodeE_srel : ∀ (rem : Nat) (a : NodeArgs), R (searchNodeE env ctx rem a) (searchNodeE env' ctx rem a) := by
  intro rem
  induction rem with
  | zero =>
    intro a
    rw [searchNodeE_zero, searchNodeE_zero]
    exact nodeBodyE_srel S ctx a Option.none Option.none trivial
  | succ rem ih =>
    intro a
    rw [searchNodeE_succ, searchNodeE_succ]
    exact nodeBodyE_srel S ctx a (some _) (some _) ih

end srel

/-- the two computations are the same function of the state when started with at least `n0` earlier operations -/
def EqFrom (n0 : Nat) {α : Type} (x x' : ME α) : Prop := ∀ n, n0 ≤ n → ∀ st, x n st = x' n st

theorem eqFrom_structRel {n0 : Nat} {env env' : Env} (h : ∀ j, n0 ≤ j → env.script j = env'.script j) :
    StructRel (fun {α} => EqFrom n0 (α := α)) env env' where
  refl := fun _ _ _ _ => rfl
  bind := by
    intro α β x x' f f' hx hf n hn st
    rw [bind_run, bind_run, hx n hn st]
    rcases x' n st with ⟨r, st1, l1⟩
    cases r with
    | error e => rfl
    | ok a => simp only; rw [hf a (n + l1.length) (by omega) st1]
  find := fun k n hn st => by rw [findE_run, findE_run, h n hn]
  insert := fun k e n hn st => by rw [insertE_run, insertE_run, h n hn]

/-! ## 17. the sequential schedule is an execution -/

/-- the environment that has delivered its batch 0 already -/
def _root_.Wee.Search.Env.dropFirst (env : Env) : Env := ⟨fun j => if j = 0 then [] else env.script j⟩

theorem root_tick (ctx : Ctx) (tt : TT.Access) (rng : Rng.ChaCha8) (polls : Nat) :
    tick ctx { tt, rng, nodes := 0, polls } = (.ok (), { tt, rng, nodes := 1, polls }) := by
  unfold tick
  rw [if_neg (show ¬ ((0 + 1) % Gen.pollInterval == 0) = true by decide)]

/-- what the root call does up to and including its probe -/
theorem root_run (env : Env) (ctx : Ctx) (root : State) (w : Worker) (rec : Option (NodeArgs → ME Eval))
    (tt : TT.Access) :
    nodeBodyE env ctx rec (rootArgsE root w) 0 { tt, rng := w.rng, nodes := 0, polls := w.polls } =
      match probeK env ctx (rootArgsE root w) (Wee.hash ctx.keys root) rec
          ((applyInserts tt (env.script 0)).find (Wee.hash ctx.keys root).toNat) 1
          { tt := applyInserts tt (env.script 0), rng := w.rng, nodes := 1, polls := w.polls } with
      | (r, st2, l2) =>
        (r, st2, TOp.find (Wee.hash ctx.keys root).toNat
          ((applyInserts tt (env.script 0)).find (Wee.hash ctx.keys root).toNat) :: l2) := by
  rw [nodeBodyE_run, root_tick]
  simp only
  rw [if_neg (by simp [rootArgsE])]
  rw [probeE_run]
  rfl

/-- a worker always probes the root: its log is not empty -/
theorem runWorkerE_log_ne_nil (env : Env) (ctx : Ctx) (root : State) (w : Worker) (tt : TT.Access) :
    (runWorkerE env ctx root w tt).2.2 ≠ [] := by
  rw [runWorkerE_eq]
  cases w.searchDepth with
  | zero => rw [searchNodeE_zero, root_run]; exact List.cons_ne_nil _ _
  | succ n => rw [searchNodeE_succ, root_run]; exact List.cons_ne_nil _ _

/-- **batch 0 can be delivered in advance**: running in `env` from `tt` is running in `env` without its first batch
from the table that has already received it -/
theorem runWorkerE_shift (env : Env) (ctx : Ctx) (root : State) (w : Worker) (tt : TT.Access) :
    runWorkerE env ctx root w tt = runWorkerE env.dropFirst ctx root w (applyInserts tt (env.script 0)) := by
  have hS := eqFrom_structRel (n0 := 1) (env := env) (env' := env.dropFirst) (fun j hj => by
    show env.script j = if j = 0 then [] else env.script j
    rw [if_neg (by omega)])
  have h0 : env.dropFirst.script 0 = [] := rfl
  rw [runWorkerE_eq, runWorkerE_eq]
  cases w.searchDepth with
  | zero =>
    rw [searchNodeE_zero, searchNodeE_zero, root_run, root_run, h0, applyInserts_nil]
    rw [probeK_srel hS ctx (rootArgsE root w) _ Option.none Option.none trivial _ 1 (Nat.le_refl _)]
  | succ n =>
    rw [searchNodeE_succ, searchNodeE_succ, root_run, root_run, h0, applyInserts_nil]
    rw [probeK_srel hS ctx (rootArgsE root w) _ (some _) (some _) (searchNodeE_srel hS ctx n) _ 1 (Nat.le_refl _)]

/-- a worker whose environment delivers something only before its first operation (and after its last) runs as in the
empty environment on the table that has received that first batch -/
theorem runWorkerE_seq (env : Env) (ctx : Ctx) (root : State) (w : Worker) (tt : TT.Access)
    (hmid : ∀ j, 1 ≤ j → j < (runWorkerE Env.empty ctx root w (applyInserts tt (env.script 0))).2.2.length →
      env.script j = []) :
    runWorkerE env ctx root w tt = runWorkerE Env.empty ctx root w (applyInserts tt (env.script 0)) := by
  rw [runWorkerE_shift]
  have hagree : ∀ j, j < (runWorkerE Env.empty ctx root w (applyInserts tt (env.script 0))).2.2.length →
      Env.empty.script j = env.dropFirst.script j := by
    intro j hj
    show [] = if j = 0 then [] else env.script j
    by_cases h0 : j = 0
    · rw [if_pos h0]
    · rw [if_neg h0, hmid j (by omega) hj]
  have h := searchNodeE_causal hagree ctx w.searchDepth (rootArgsE root w) 0
    { tt := applyInserts tt (env.script 0), rng := w.rng, nodes := 0, polls := w.polls }
  exact (h.1 (by rw [Nat.zero_add]; exact Nat.le_refl _)).symm

/-- all inserts of a history, oldest first -/
def insertsOf : History → List (Nat × TT.Entry)
  | [] => []
  | (_, .find _ _) :: rest => insertsOf rest
  | (_, .insert k e) :: rest => (k, e) :: insertsOf rest

theorem applyInserts_cons (tt : TT.Access) (p : Nat × TT.Entry) (b : List (Nat × TT.Entry)) :
    applyInserts tt (p :: b) = applyInserts (tt.insert p.1 p.2) b := rfl

theorem table_eq_applyInserts : ∀ (H : History) (tt : TT.Access), History.table tt H = applyInserts tt (insertsOf H) := by
  intro H
  induction H with
  | nil => intro tt; rfl
  | cons p rest ih =>
    intro tt
    obtain ⟨j, op⟩ := p
    rw [table_cons]
    cases op with
    | find k r => rw [insertsOf]; exact ih tt
    | insert k e => rw [insertsOf, applyInserts_cons]; exact ih _

theorem table_append (tt : TT.Access) (H1 H2 : History) :
    History.table tt (H1 ++ H2) = History.table (History.table tt H1) H2 := by
  unfold History.table
  rw [List.foldl_append]

/-- the operations of one worker as a piece of history -/
def block (i : Nat) (l : List TOp) : History := l.map fun op => (i, op)

/-- put a list of inserts in front of the first batch -/
def consBatch (b : List (Nat × TT.Entry)) : List (List (Nat × TT.Entry)) → List (List (Nat × TT.Entry))
  | c :: cs => (b ++ c) :: cs
  | [] => [b]

theorem consHead_consBatch (p : Nat × TT.Entry) (b : List (Nat × TT.Entry)) {cs : List (List (Nat × TT.Entry))}
    (h : cs ≠ []) : consHead p (consBatch b cs) = consBatch (p :: b) cs := by
  cases cs with
  | nil => exact absurd rfl h
  | cons c cs => rfl

theorem consBatch_ne_nil (b : List (Nat × TT.Entry)) (cs : List (List (Nat × TT.Entry))) : consBatch b cs ≠ [] := by
  cases cs <;> simp [consBatch]

theorem batchesOf_append_noOwn (i : Nat) (Y : History) : ∀ (P : History), (∀ p ∈ P, p.1 ≠ i) →
    batchesOf i (P ++ Y) = consBatch (insertsOf P) (batchesOf i Y) := by
  intro P
  induction P with
  | nil =>
    intro _
    rw [List.nil_append]
    cases hb : batchesOf i Y with
    | nil => exact absurd hb (batchesOf_ne_nil i Y)
    | cons c cs => rfl
  | cons p rest ih =>
    intro hP
    obtain ⟨j, op⟩ := p
    have hj : (j == i) = false := by
      have := hP (j, op) List.mem_cons_self
      simpa using this
    have ih' := ih (fun p hp => hP p (List.mem_cons_of_mem _ hp))
    rw [List.cons_append]
    cases op with
    | find k r => rw [batchesOf_cons_other_find hj, ih', insertsOf]
    | insert k e =>
      rw [batchesOf_cons_other_insert hj, ih', insertsOf, consHead_consBatch _ _ (batchesOf_ne_nil i Y)]

theorem batchesOf_block (i : Nat) (Y : History) : ∀ (l : List TOp),
    batchesOf i (block i l ++ Y) = List.replicate l.length [] ++ batchesOf i Y := by
  intro l
  induction l with
  | nil => rfl
  | cons op l ih =>
    show batchesOf i ((i, op) :: (block i l ++ Y)) = _
    rw [batchesOf_cons_own, ih]
    rfl

theorem proj_block (i : Nat) (l : List TOp) : History.proj (block i l) i = l := by
  induction l with
  | nil => rfl
  | cons op l ih =>
    show History.proj ((i, op) :: block i l) i = _
    rw [proj_cons_own, ih]

theorem proj_noOwn (i : Nat) : ∀ (P : History), (∀ p ∈ P, p.1 ≠ i) → History.proj P i = [] := by
  intro P
  induction P with
  | nil => intro _; rfl
  | cons p rest ih =>
    intro hP
    obtain ⟨j, op⟩ := p
    have hj : (j == i) = false := by
      have := hP (j, op) List.mem_cons_self
      simpa using this
    rw [proj_cons_other hj]
    exact ih (fun p hp => hP p (List.mem_cons_of_mem _ hp))

/-- the environment of worker `i` in `P ++ (its own operations) ++ Q`: everything `P` inserted before its first
operation, nothing between its operations -/
theorem envOf_seq (i : Nat) (P Q : History) (l : List TOp) (hP : ∀ p ∈ P, p.1 ≠ i) (hl : l ≠ []) :
    (envOf (P ++ (block i l ++ Q)) i).script 0 = insertsOf P ∧
    ∀ j, 1 ≤ j → j < l.length → (envOf (P ++ (block i l ++ Q)) i).script j = [] := by
  unfold envOf Env.ofList
  simp only
  rw [batchesOf_append_noOwn i _ P hP, batchesOf_block]
  cases l with
  | nil => exact absurd rfl hl
  | cons op l =>
    rw [List.length_cons, List.replicate_succ]
    refine ⟨by simp [consBatch], fun j h1 h2 => ?_⟩
    obtain ⟨j', rfl⟩ : ∃ j', j = j' + 1 := ⟨j - 1, by omega⟩
    simp only [consBatch, List.cons_append, List.getD_cons_succ]
    rw [List.getD_eq_getElem?_getD, List.getElem?_append_left (by simp; omega),
      List.getElem?_eq_getElem (by simp; omega), List.getElem_replicate]
    rfl

theorem sequentialHistory_ids (ctx : Ctx) (root : State) : ∀ (ws : List Worker) (tt : TT.Access) (i : Nat),
    ∀ p ∈ sequentialHistory ctx root tt i ws, i ≤ p.1 ∧ p.1 < i + ws.length := by
  intro ws
  induction ws with
  | nil => intro tt i p hp; cases hp
  | cons w rest ih =>
    intro tt i p hp
    rw [sequentialHistory] at hp
    rcases List.mem_append.1 hp with h | h
    · obtain ⟨op, _, rfl⟩ := List.mem_map.1 h
      exact ⟨Nat.le_refl _, by simp⟩
    · have := ih _ (i + 1) p h
      rw [List.length_cons]
      omega

/-- replaying a log in the empty environment just applies its inserts -/
theorem replay_empty_table : ∀ (l : List TOp) (n : Nat) (tt tt' : TT.Access) (i : Nat),
    Replay Env.empty n tt l tt' → tt' = History.table tt (block i l) := by
  intro l
  induction l with
  | nil => intro n tt tt' i h; exact h
  | cons op l ih =>
    intro n tt tt' i h
    show tt' = History.table tt ((i, op) :: block i l)
    rw [table_cons]
    cases op with
    | find k r => exact ih (n + 1) _ tt' i h.2
    | insert k e => exact ih (n + 1) _ tt' i h

/-- the table on which the `idx`-th worker of the sequential schedule starts -/
def seqTable (ctx : Ctx) (root : State) : TT.Access → List Worker → Nat → TT.Access
  | tt, [], _ => tt
  | tt, _ :: _, 0 => tt
  | tt, w :: rest, k + 1 => seqTable ctx root (runWorkerE Env.empty ctx root w tt).2.1.tt rest k

theorem sequential_aux (ctx : Ctx) (root : State) : ∀ (ws : List Worker) (i0 : Nat) (P : History) (T0 : TT.Access),
    (∀ p ∈ P, p.1 < i0) →
    ∀ idx (h : idx < ws.length),
      runWorkerE (envOf (P ++ sequentialHistory ctx root (History.table T0 P) i0 ws) (i0 + idx)) ctx root ws[idx] T0 =
        runWorkerE Env.empty ctx root ws[idx] (seqTable ctx root (History.table T0 P) ws idx) ∧
      (runWorkerE Env.empty ctx root ws[idx] (seqTable ctx root (History.table T0 P) ws idx)).2.2 =
        History.proj (P ++ sequentialHistory ctx root (History.table T0 P) i0 ws) (i0 + idx) := by
  intro ws
  induction ws with
  | nil => intro i0 P T0 _ idx h; cases h
  | cons w rest ih =>
    intro i0 P T0 hP idx h
    rw [sequentialHistory]
    -- the first worker's sequential run
    generalize hout : runWorkerE Env.empty ctx root w (History.table T0 P) = out
    have hl : out.2.2 ≠ [] := by rw [← hout]; exact runWorkerE_log_ne_nil _ _ _ _ _
    have hblock : (List.map (fun op => (i0, op)) out.2.2) = block i0 out.2.2 := rfl
    rw [hblock]
    have hPne : ∀ p ∈ P, p.1 ≠ i0 := fun p hp => Nat.ne_of_lt (hP p hp)
    have hQids := sequentialHistory_ids ctx root rest out.2.1.tt (i0 + 1)
    cases idx with
    | zero =>
      show runWorkerE (envOf _ (i0 + 0)) ctx root w T0 = runWorkerE Env.empty ctx root w (History.table T0 P) ∧
        (runWorkerE Env.empty ctx root w (History.table T0 P)).2.2 = History.proj _ (i0 + 0)
      rw [Nat.add_zero, Nat.add_zero, hout]
      obtain ⟨e0, emid⟩ := envOf_seq i0 P (sequentialHistory ctx root out.2.1.tt (i0 + 1) rest) out.2.2 hPne hl
      have happ : applyInserts T0 ((envOf (P ++ (block i0 out.2.2 ++
          sequentialHistory ctx root out.2.1.tt (i0 + 1) rest)) i0).script 0) = History.table T0 P := by
        rw [e0, table_eq_applyInserts]
      have hrun := runWorkerE_seq (envOf (P ++ (block i0 out.2.2 ++
        sequentialHistory ctx root out.2.1.tt (i0 + 1) rest)) i0) ctx root w T0 (by
          intro j h1 h2
          rw [happ, hout] at h2
          exact emid j h1 h2)
      rw [happ, hout] at hrun
      refine ⟨hrun, ?_⟩
      simp only [Nat.add_zero]
      rw [proj_append, proj_append, proj_noOwn i0 P hPne, proj_block,
        proj_noOwn i0 _ (fun p hp => by have := (hQids p hp).1; omega)]
      simp
    | succ k =>
      have hk : k < rest.length := by simpa using h
      have hP' : ∀ p ∈ P ++ block i0 out.2.2, p.1 < i0 + 1 := by
        intro p hp
        rcases List.mem_append.1 hp with h1 | h1
        · exact Nat.lt_succ_of_lt (hP p h1)
        · obtain ⟨op, _, rfl⟩ := List.mem_map.1 h1
          exact Nat.lt_succ_self _
      have htab : History.table T0 (P ++ block i0 out.2.2) = out.2.1.tt := by
        rw [table_append]
        have hrep := runWorkerE_replay Env.empty ctx root w (History.table T0 P)
        rw [hout] at hrep
        exact (replay_empty_table _ _ _ _ i0 hrep).symm
      have := ih (i0 + 1) (P ++ block i0 out.2.2) T0 hP' k hk
      rw [htab, List.append_assoc, show i0 + 1 + k = i0 + (k + 1) by omega] at this
      show runWorkerE (envOf _ (i0 + (k + 1))) ctx root rest[k] T0 =
        runWorkerE Env.empty ctx root rest[k] (seqTable ctx root (History.table T0 P) (w :: rest) (k + 1)) ∧ _
      rw [seqTable, hout]
      exact this

/-- **the sequential schedule is an execution.**  Running the workers one after the other, each on the table the
previous ones left (what `runWorkers` does as long as nobody is interrupted), is one of the interleavings. -/
theorem sequential_interleaving (ctx : Ctx) (root : State) (tt : TT.Access) (ws : List Worker) :
    Interleaving ctx root tt ws (sequentialHistory ctx root tt 0 ws) := by
  refine ⟨fun p hp => ?_, fun i hi => ?_⟩
  · have := (sequentialHistory_ids ctx root ws tt 0 p hp).2
    omega
  · have h := sequential_aux ctx root ws 0 [] tt (fun _ hp => nomatch hp) i hi
    simp only [List.nil_append, Nat.zero_add] at h
    have ht : History.table tt [] = tt := rfl
    rw [ht] at h
    rw [h.1, h.2]

/-- in the sequential schedule every worker's run — outcome, final state, log — is its run in the empty environment on
the table the previous workers left -/
theorem sequential_runs (ctx : Ctx) (root : State) (tt : TT.Access) (ws : List Worker) (i : Nat) (hi : i < ws.length) :
    runWorkerE (envOf (sequentialHistory ctx root tt 0 ws) i) ctx root ws[i] tt =
      runWorkerE Env.empty ctx root ws[i] (seqTable ctx root tt ws i) := by
  have h := sequential_aux ctx root ws 0 [] tt (fun _ hp => nomatch hp) i hi
  simp only [List.nil_append, Nat.zero_add] at h
  have ht : History.table tt [] = tt := rfl
  rw [ht] at h
  exact h.1

/-! ## 18. the sequential model's iteration is one of the schedules -/

/-- the runs of the workers one after the other in the empty environment, each on the table the previous one left -/
def seqOuts (ctx : Ctx) (root : State) : TT.Access → List Worker → List (Except Stop Eval × St × List TOp)
  | _, [] => []
  | tt, w :: rest => runWorkerE Env.empty ctx root w tt :: seqOuts ctx root (runWorkerE Env.empty ctx root w tt).2.1.tt rest

theorem filterMap_congr' {γ δ : Type} {f g : γ → Option δ} : ∀ (l : List γ), (∀ x ∈ l, f x = g x) →
    l.filterMap f = l.filterMap g := by
  intro l
  induction l with
  | nil => intro _; rfl
  | cons a t ih =>
    intro h
    rw [List.filterMap_cons, List.filterMap_cons, h a List.mem_cons_self,
      ih (fun x hx => h x (List.mem_cons_of_mem _ hx))]

theorem getLast?_cons_some {γ : Type} (a : γ) (l : List γ) : ∃ x, (a :: l).getLast? = some x := by
  cases h : (a :: l).getLast? with
  | none => simp at h
  | some x => exact ⟨x, rfl⟩

theorem seqOuts_eq (ctx : Ctx) (root : State) : ∀ (ws : List Worker) (tt : TT.Access),
    ((List.range ws.length).filterMap fun i =>
      ws[i]?.map fun w => runWorkerE Env.empty ctx root w (seqTable ctx root tt ws i)) = seqOuts ctx root tt ws := by
  intro ws
  induction ws with
  | nil => intro tt; rfl
  | cons w rest ih =>
    intro tt
    rw [List.length_cons, List.range_succ_eq_map, List.filterMap_cons]
    simp only [List.getElem?_cons_zero, Option.map_some]
    rw [List.filterMap_map, seqOuts]
    congr 1
    rw [← ih (runWorkerE Env.empty ctx root w tt).2.1.tt]
    apply filterMap_congr'
    intro i _
    simp only [Function.comp, List.getElem?_cons_succ]
    rfl

/-- the runs `joinOf` joins in the sequential schedule are the sequential runs -/
theorem joinOuts_sequential (ctx : Ctx) (root : State) (tt : TT.Access) (ws : List Worker) :
    ((List.range ws.length).filterMap fun i =>
      ws[i]?.map fun w => runWorkerE (envOf (sequentialHistory ctx root tt 0 ws) i) ctx root w tt) =
      seqOuts ctx root tt ws := by
  rw [← seqOuts_eq]
  apply filterMap_congr'
  intro i hi
  have hlt : i < ws.length := List.mem_range.1 hi
  rw [List.getElem?_eq_getElem hlt]
  simp only [Option.map_some]
  rw [sequential_runs ctx root tt ws i hlt]

/-- the table after the last of a list of runs (the start table if there is none) -/
def lastTT (tt : TT.Access) (outs : List (Except Stop Eval × St × List TOp)) : TT.Access :=
  (outs.getLast?.map fun o => o.2.1.tt).getD tt
def lastPolls (polls : Nat) (outs : List (Except Stop Eval × St × List TOp)) : Nat :=
  (outs.getLast?.map fun o => o.2.1.polls).getD polls

theorem lastTT_cons (tt : TT.Access) (o : Except Stop Eval × St × List TOp) (os : List (Except Stop Eval × St × List TOp)) :
    lastTT tt (o :: os) = lastTT o.2.1.tt os := by
  unfold lastTT
  cases os with
  | nil => rfl
  | cons o' os' =>
    obtain ⟨x, hx⟩ := getLast?_cons_some o' os'
    rw [List.getLast?_cons_cons, hx]; rfl

theorem lastPolls_cons (polls : Nat) (o : Except Stop Eval × St × List TOp)
    (os : List (Except Stop Eval × St × List TOp)) : lastPolls polls (o :: os) = lastPolls o.2.1.polls os := by
  unfold lastPolls
  cases os with
  | nil => rfl
  | cons o' os' =>
    obtain ⟨x, hx⟩ := getLast?_cons_some o' os'
    rw [List.getLast?_cons_cons, hx]; rfl

/-- the shared table after the sequential schedule is the table the last worker left -/
theorem table_sequential (ctx : Ctx) (root : State) : ∀ (ws : List Worker) (tt : TT.Access) (i : Nat),
    History.table tt (sequentialHistory ctx root tt i ws) = lastTT tt (seqOuts ctx root tt ws) := by
  intro ws
  induction ws with
  | nil => intro tt i; rfl
  | cons w rest ih =>
    intro tt i
    rw [sequentialHistory, seqOuts, lastTT_cons, table_append]
    have hrep := runWorkerE_replay Env.empty ctx root w tt
    have hb : History.table tt (List.map (fun op => (i, op)) (runWorkerE Env.empty ctx root w tt).2.2) =
        (runWorkerE Env.empty ctx root w tt).2.1.tt := (replay_empty_table _ _ _ _ i hrep).symm
    rw [hb]
    exact ih _ (i + 1)

/-- the workers the sequential model actually runs on the `(index, seed)` pairs `ps` from table `tt` with `polls` polls
so far: up to and including the first that does not return a value -/
def seqStarted (ctx : Ctx) (root : State) (depth : Nat) (bestMv : Option Move) :
    List (Nat × UInt64) → TT.Access → Nat → List Worker
  | [], _, _ => []
  | (i, seed) :: rest, tt, polls =>
    Worker.ofIteration depth bestMv i seed polls ::
      (match (runWorkerE Env.empty ctx root (Worker.ofIteration depth bestMv i seed polls) tt).1 with
       | .ok _ => seqStarted ctx root depth bestMv rest
           (runWorkerE Env.empty ctx root (Worker.ofIteration depth bestMv i seed polls) tt).2.1.tt
           (runWorkerE Env.empty ctx root (Worker.ofIteration depth bestMv i seed polls) tt).2.1.polls
       | .error _ => [])

def panicOf (o : Except Stop Eval × St × List TOp) : Option String :=
  match o.1 with | .error (.panic why) => some why | _ => Option.none
def isInterrupt (o : Except Stop Eval × St × List TOp) : Bool :=
  match o.1 with | .error .interrupt => true | _ => false
def okOf (o : Except Stop Eval × St × List TOp) : Option Eval :=
  match o.1 with | .ok e => some e | _ => Option.none

/-- what `runWorkers` returns, in terms of the sequential runs of the workers it starts -/
theorem runWorkers_seq (ctx : Ctx) (root : State) (depth : Nat) (bestMv : Option Move) :
    ∀ (ps : List (Nat × UInt64)) (acc : WorkersOut), acc.interrupted = false → acc.panic = Option.none →
      (runWorkers ctx root depth bestMv ps acc).panic =
        (seqOuts ctx root acc.tt (seqStarted ctx root depth bestMv ps acc.tt acc.polls)).findSome? panicOf ∧
      ((runWorkers ctx root depth bestMv ps acc).panic = Option.none →
        (runWorkers ctx root depth bestMv ps acc).interrupted =
          (seqOuts ctx root acc.tt (seqStarted ctx root depth bestMv ps acc.tt acc.polls)).any isInterrupt ∧
        (runWorkers ctx root depth bestMv ps acc).tt =
          lastTT acc.tt (seqOuts ctx root acc.tt (seqStarted ctx root depth bestMv ps acc.tt acc.polls)) ∧
        (runWorkers ctx root depth bestMv ps acc).polls =
          lastPolls acc.polls (seqOuts ctx root acc.tt (seqStarted ctx root depth bestMv ps acc.tt acc.polls)) ∧
        ((runWorkers ctx root depth bestMv ps acc).interrupted = false →
          (runWorkers ctx root depth bestMv ps acc).evals = acc.evals ++
            (seqOuts ctx root acc.tt (seqStarted ctx root depth bestMv ps acc.tt acc.polls)).filterMap okOf ∧
          (runWorkers ctx root depth bestMv ps acc).sumNodes = acc.sumNodes +
            ((seqOuts ctx root acc.tt (seqStarted ctx root depth bestMv ps acc.tt acc.polls)).map fun o => o.2.1.nodes).sum)) := by
  intro ps
  induction ps with
  | nil =>
    intro acc hi hp
    rw [runWorkers, seqStarted, seqOuts]
    exact ⟨hp, fun _ => ⟨hi, rfl, rfl, fun _ => ⟨by simp, by simp⟩⟩⟩
  | cons p rest ih =>
    obtain ⟨i, seed⟩ := p
    intro acc hi hp
    rw [runWorkers, if_neg (by rw [hi, hp]; decide), seqStarted, seqOuts]
    have hrun := runWorkerE_empty ctx root (Worker.ofIteration depth bestMv i seed acc.polls) acc.tt
    have hrw : runWorker ctx root (depth - i % 2 + 1) (if (i == 0) = true then bestMv else Option.none) acc.tt
        (Rng.seedFromU64 seed) acc.polls =
        ((runWorkerE Env.empty ctx root (Worker.ofIteration depth bestMv i seed acc.polls) acc.tt).1,
         (runWorkerE Env.empty ctx root (Worker.ofIteration depth bestMv i seed acc.polls) acc.tt).2.1) := hrun.symm
    simp only
    rw [hrw]
    generalize runWorkerE Env.empty ctx root (Worker.ofIteration depth bestMv i seed acc.polls) acc.tt = o
    obtain ⟨r, st', l⟩ := o
    cases r with
    | ok e =>
      simp only
      have := ih { acc with tt := st'.tt, polls := st'.polls, evals := acc.evals ++ [e], sumNodes := acc.sumNodes + st'.nodes }
        hi hp
      simp only at this
      obtain ⟨h1, h2⟩ := this
      refine ⟨by rw [List.findSome?_cons]; simpa [panicOf] using h1, fun hpn => ?_⟩
      obtain ⟨h3, h4, h5, h6⟩ := h2 hpn
      refine ⟨by rw [List.any_cons]; simpa [isInterrupt] using h3, by rw [lastTT_cons]; exact h4,
        by rw [lastPolls_cons]; exact h5, fun hni => ?_⟩
      obtain ⟨h7, h8⟩ := h6 hni
      refine ⟨?_, ?_⟩
      · rw [h7, List.filterMap_cons]; simp [okOf]
      · rw [h8, List.map_cons, List.sum_cons]; simp only; omega
    | error err =>
      cases err with
      | interrupt =>
        simp only [seqOuts]
        refine ⟨by simp [panicOf, hp], fun _ => ⟨by simp [isInterrupt], rfl, rfl, fun h => by simp at h⟩⟩
      | panic why =>
        simp only [seqOuts]
        exact ⟨by simp [panicOf], fun h => by simp at h⟩

/-- `finishStep` looks at the joined results only through these fields -/
theorem finishStep_congr (ctx : Ctx) (root : State) (rootHash : UInt64) (depth : Nat) (rng : Rng.ChaCha8)
    (w w' : WorkersOut) (st : IterSt) (hp : w.panic = w'.panic)
    (h : w.panic = Option.none → w.interrupted = w'.interrupted ∧ w.tt = w'.tt ∧ w.polls = w'.polls ∧
      (w.interrupted = false → w.evals = w'.evals ∧ w.sumNodes = w'.sumNodes)) :
    finishStep ctx root rootHash depth rng w st = finishStep ctx root rootHash depth rng w' st := by
  unfold finishStep
  rw [← hp]
  cases hpn : w.panic with
  | some why => rfl
  | none =>
    obtain ⟨hi, htt, hpl, hrest⟩ := h hpn
    simp only
    rw [← hi, ← htt, ← hpl]
    cases hint : w.interrupted with
    | true => rfl
    | false =>
      obtain ⟨hev, hsn⟩ := hrest hint
      rw [← hev, ← hsn]

theorem drawSeeds_length : ∀ (n : Nat) (r : Rng.ChaCha8), (drawSeeds n r).1.length = n := by
  intro n
  induction n with
  | zero => intro r; rfl
  | succ n ih =>
    intro r
    rw [drawSeeds]
    rcases Rng.nextU64 r with ⟨v, r'⟩
    simp only
    have := ih r'
    generalize drawSeeds n r' = d at this ⊢
    obtain ⟨vs, r''⟩ := d
    simp only at this ⊢
    rw [List.length_cons, this]

theorem seqStarted_spec (ctx : Ctx) (root : State) (depth : Nat) (bestMv : Option Move) :
    ∀ (ps : List (Nat × UInt64)) (tt : TT.Access) (polls : Nat),
      (seqStarted ctx root depth bestMv ps tt polls).length ≤ ps.length ∧
      ∀ k (h : k < (seqStarted ctx root depth bestMv ps tt polls).length) (h' : k < ps.length),
        ∃ q, (seqStarted ctx root depth bestMv ps tt polls)[k] = Worker.ofIteration depth bestMv ps[k].1 ps[k].2 q := by
  intro ps
  induction ps with
  | nil => intro tt polls; exact ⟨Nat.le_refl _, fun k h => nomatch h⟩
  | cons p rest ih =>
    obtain ⟨i, seed⟩ := p
    intro tt polls
    rw [seqStarted]
    cases (runWorkerE Env.empty ctx root (Worker.ofIteration depth bestMv i seed polls) tt).1 with
    | error e =>
      simp only
      refine ⟨by simp, fun k h h' => ?_⟩
      have hk : k = 0 := by simpa using h
      subst hk
      exact ⟨polls, rfl⟩
    | ok v =>
      simp only
      obtain ⟨h1, h2⟩ := ih (runWorkerE Env.empty ctx root (Worker.ofIteration depth bestMv i seed polls) tt).2.1.tt
        (runWorkerE Env.empty ctx root (Worker.ofIteration depth bestMv i seed polls) tt).2.1.polls
      refine ⟨by simp only [List.length_cons]; omega, fun k h h' => ?_⟩
      cases k with
      | zero => exact ⟨polls, rfl⟩
      | succ k =>
        simp only [List.getElem_cons_succ]
        exact h2 k (by simpa using h) (by simpa using h')

/-- if every worker the sequential model starts returns a value, it starts all of them -/
theorem seqStarted_all (ctx : Ctx) (root : State) (depth : Nat) (bestMv : Option Move) :
    ∀ (ps : List (Nat × UInt64)) (tt : TT.Access) (polls : Nat),
      (seqOuts ctx root tt (seqStarted ctx root depth bestMv ps tt polls)).any isInterrupt = false →
      (seqOuts ctx root tt (seqStarted ctx root depth bestMv ps tt polls)).findSome? panicOf = Option.none →
      (seqStarted ctx root depth bestMv ps tt polls).length = ps.length := by
  intro ps
  induction ps with
  | nil => intro tt polls _ _; rfl
  | cons p rest ih =>
    obtain ⟨i, seed⟩ := p
    intro tt polls hi hp
    rw [seqStarted] at hi hp ⊢
    rw [seqOuts] at hi hp
    generalize ho : runWorkerE Env.empty ctx root (Worker.ofIteration depth bestMv i seed polls) tt = o at hi hp ⊢
    obtain ⟨r, st', l⟩ := o
    cases r with
    | error e =>
      exfalso
      cases e with
      | interrupt => simp [isInterrupt] at hi
      | panic why => simp [panicOf] at hp
    | ok v =>
      simp only at hi hp ⊢
      rw [List.any_cons] at hi
      rw [List.findSome?_cons] at hp
      simp only [isInterrupt, panicOf, Bool.false_or] at hi hp
      rw [List.length_cons, List.length_cons, ih st'.tt st'.polls hi hp]

/-- **one iteration of the sequential model is one of the schedules**: `iterStep` is a `StepS` step, with the
workers run one after the other as the interleaving -/
theorem iterStep_stepS (ctx : Ctx) (root : State) (rootHash : UInt64) (workers depth : Nat) (st : IterSt) :
    StepS ctx root rootHash workers depth st (iterStep ctx root rootHash workers depth st) := by
  generalize hps : (List.range workers).zip (drawSeeds workers st.rng).1 = ps
  generalize hstarted : seqStarted ctx root depth st.bestMv ps st.tt st.polls = started
  have hlen : (drawSeeds workers st.rng).1.length = workers := drawSeeds_length workers st.rng
  have hpslen : ps.length = workers := by rw [← hps, List.length_zip, List.length_range, hlen, Nat.min_self]
  obtain ⟨hsl, hsk⟩ := seqStarted_spec ctx root depth st.bestMv ps st.tt st.polls
  rw [hstarted] at hsl hsk
  -- the poll offsets the sequential model gives the workers it starts
  let pollsOf : Nat → Nat := fun k => (started[k]?.map (·.polls)).getD 0
  have hall : workersOfIteration depth st.bestMv (drawSeeds workers st.rng).1 pollsOf =
      ps.map fun p => Worker.ofIteration depth st.bestMv p.1 p.2 (pollsOf p.1) := by
    unfold workersOfIteration
    rw [hlen, hps]
  have hpsk : ∀ k (h : k < ps.length), ps[k].1 = k := by
    intro k h
    subst hps
    simp
  have htake : started = (workersOfIteration depth st.bestMv (drawSeeds workers st.rng).1 pollsOf).take started.length := by
    rw [hall]
    apply List.ext_getElem
    · rw [List.length_take, List.length_map]; omega
    · intro k h1 h2
      obtain ⟨q, hq⟩ := hsk k h1 (by omega)
      rw [List.getElem_take, List.getElem_map, hpsk k (by omega)]
      have hp : pollsOf k = started[k].polls := by
        show (started[k]?.map (·.polls)).getD 0 = _
        rw [List.getElem?_eq_getElem h1]; rfl
      rw [hp, hq, hpsk k (by omega)]
      rfl
  refine ⟨pollsOf, started, sequentialHistory ctx root st.tt 0 started,
    lastPolls st.polls (seqOuts ctx root st.tt started), ?_, ?_, sequential_interleaving ctx root st.tt started, ?_⟩
  · rw [htake]; exact List.take_sublist _ _
  · intro hi hp
    have hi' : (seqOuts ctx root st.tt started).any isInterrupt = false := by
      unfold joinOf at hi
      simp only at hi
      rw [joinOuts_sequential] at hi
      exact hi
    have hp' : (seqOuts ctx root st.tt started).findSome? panicOf = Option.none := by
      unfold joinOf at hp
      simp only at hp
      rw [joinOuts_sequential] at hp
      exact hp
    rw [← hstarted] at hi' hp'
    have hfull := seqStarted_all ctx root depth st.bestMv ps st.tt st.polls hi' hp'
    rw [hstarted] at hfull
    rw [htake, hfull, hall, List.take_of_length_le (by rw [List.length_map]; exact Nat.le_refl _)]
  · rw [iterStep_eq_finishStep, hps]
    have hrw := runWorkers_seq ctx root depth st.bestMv ps
      { tt := st.tt, polls := st.polls, evals := [], sumNodes := 0 } rfl rfl
    simp only at hrw
    rw [hstarted] at hrw
    obtain ⟨h1, h2⟩ := hrw
    refine finishStep_congr ctx root rootHash depth _ _ _ st ?_ ?_
    · rw [h1]
      unfold joinOf
      simp only
      rw [joinOuts_sequential]
      rfl
    · intro hpn
      obtain ⟨h3, h4, h5, h6⟩ := h2 hpn
      refine ⟨?_, ?_, h5, fun hni => ?_⟩
      · rw [h3]; unfold joinOf; simp only; rw [joinOuts_sequential]; rfl
      · rw [h4, joinOf_tt, table_sequential]
      · obtain ⟨h7, h8⟩ := h6 hni
        refine ⟨?_, ?_⟩
        · rw [h7]; unfold joinOf; simp only; rw [joinOuts_sequential]; rfl
        · rw [h8]; unfold joinOf; simp only; rw [joinOuts_sequential]; simp

theorem iterLoop_loopS (ctx : Ctx) (root : State) (rootHash : UInt64) (workersOf : Nat → Nat) :
    ∀ (n depth : Nat) (st : IterSt),
      LoopS ctx root rootHash workersOf n depth st (iterLoop ctx root rootHash workersOf n depth st) := by
  intro n
  induction n with
  | zero => intro depth st; exact LoopS.done depth st
  | succ n ih =>
    intro depth st
    rw [iterLoop_succ]
    by_cases hf : st.finished = true
    · rw [if_pos hf]; exact LoopS.finished n depth st hf
    · rw [if_neg hf]
      -- the sequential model reads the flag at the boundary at poll number `st.polls`
      by_cases hb : (boundaryPoll ctx depth st).finished = true
      · rw [if_pos hb]; exact LoopS.stopped n depth st st.polls (by simpa using hf) hb
      · rw [if_neg hb]
        exact LoopS.step n depth st _ _ st.polls (by simpa using hf) (by simpa using hb)
          (iterStep_stepS ctx root rootHash _ depth (boundaryPoll ctx depth st)) (ih _ _)

/-- **the sequential model's search is one of the outcomes of the search under arbitrary schedules** -/
theorem iterate_searchS (root : State) (rng0 : Rng.ChaCha8) (maxDepth : Option Nat) (art : Artifact)
    (workersOf : Nat → Nat) (cancelAt : Option Nat) (fuelDepth : Nat) :
    SearchS root rng0 maxDepth art workersOf cancelAt fuelDepth
      (iterate root rng0 maxDepth art workersOf cancelAt fuelDepth) :=
  ⟨_, iterLoop_loopS _ root _ workersOf _ 0 _, rfl⟩

end Wee.Env
