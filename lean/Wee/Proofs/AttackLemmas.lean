import Wee.Model.AttackCache
import Wee.Spec.Abs
/-!
# Lemmas for C10 (attack sets, check detection, the `OnceCell` cache)

Own small set of bit lemmas under `Wee.C10` (deliberately independent of `Wee/Proofs/BitLemmas`).
-/
namespace Wee.C10

/-! ## part 1: the cache state machine -/

/-- each cell is empty or holds the pure value for the object's placement -/
def CacheInv (b : CachedBoard) : Prop :=
  ∀ c, b.cell c = Option.none ∨ b.cell c = some (attackMap b.pieces c)

/-- what a caller can observe of an answer (of a cloned board: its placement; the cells are private) -/
inductive Obs
  | bb (v : UInt64)
  | bool (v : Bool)
  | pieces (m : PieceMap)
deriving DecidableEq, Repr

def Answer.obs : Answer → Obs
  | .bb v => .bb v
  | .bool v => .bool v
  | .board b => .pieces b.pieces

/-- the answer computed from the placement alone, without any cache -/
def pureAnswer (m : PieceMap) : Query → Obs
  | .attacks c => .bb (coloredAttacks m c)
  | .pawnAttacks c => .bb (coloredPawnAttacks m c)
  | .isCheck c => .bool (isCheckB m c)
  | .clone => .pieces m

/-- an answer is good: it shows the pure value, and a returned clone is itself a sound object -/
def AnswerOK (m : PieceMap) (q : Query) (a : Answer) : Prop :=
  Answer.obs a = pureAnswer m q ∧ ∀ b, a = .board b → b.pieces = m ∧ CacheInv b

theorem cacheInv_new (m : PieceMap) : CacheInv (CachedBoard.new m) := by
  intro c; cases c <;> simp [CachedBoard.new, CachedBoard.cell]

theorem cell_setCell (b : CachedBoard) (c c' : Color) (v : UInt64 × UInt64) :
    (b.setCell c v).cell c' = if c' = c then some v else b.cell c' := by
  cases c <;> cases c' <;> simp [CachedBoard.setCell, CachedBoard.cell]

theorem pieces_setCell (b : CachedBoard) (c : Color) (v : UInt64 × UInt64) :
    (b.setCell c v).pieces = b.pieces := by
  cases c <;> rfl

/-- `get_or_init` keeps the placement, keeps the invariant and returns the pure value -/
theorem attackMapCached_spec (b : CachedBoard) (c : Color) (h : CacheInv b) :
    (b.attackMapCached c).1.pieces = b.pieces ∧ CacheInv (b.attackMapCached c).1 ∧
    (b.attackMapCached c).2 = attackMap b.pieces c ∧
    (b.attackMapCached c).1.cell c = some (attackMap b.pieces c) := by
  unfold CachedBoard.attackMapCached
  cases hc : b.cell c with
  | some v =>
    have hv : v = attackMap b.pieces c := by
      rcases h c with h0 | h1
      · rw [hc] at h0; cases h0
      · rw [hc] at h1; exact Option.some.inj h1
    subst hv
    exact ⟨rfl, h, rfl, hc⟩
  | none =>
    refine ⟨pieces_setCell _ _ _, ?_, rfl, ?_⟩
    · intro c'
      simp only [cell_setCell, pieces_setCell]
      by_cases e : c' = c
      · subst e; simp
      · simp only [if_neg e]; exact h c'
    · simp [cell_setCell]

/-- a cell, once filled, is never changed by `get_or_init` (of either colour) -/
theorem attackMapCached_cell_mono (b : CachedBoard) (c c' : Color) (v : UInt64 × UInt64)
    (hv : b.cell c' = some v) : (b.attackMapCached c).1.cell c' = some v := by
  unfold CachedBoard.attackMapCached
  cases hc : b.cell c with
  | some w => exact hv
  | none =>
    simp only [cell_setCell]
    by_cases e : c' = c
    · subst e; rw [hc] at hv; cases hv
    · simp [if_neg e, hv]

/-- one call: placement unchanged, invariant kept, answer = pure answer -/
theorem step_spec (b : CachedBoard) (q : Query) (h : CacheInv b) :
    (b.step q).1.pieces = b.pieces ∧ CacheInv (b.step q).1 ∧ AnswerOK b.pieces q (b.step q).2 := by
  cases q with
  | attacks c =>
    obtain ⟨h1, h2, h3, _⟩ := attackMapCached_spec b c h
    refine ⟨h1, h2, ?_, ?_⟩
    · simp [CachedBoard.step, CachedBoard.attacks, Answer.obs, pureAnswer, coloredAttacks, h3]
    · intro b' hb'; simp [CachedBoard.step] at hb'
  | pawnAttacks c =>
    obtain ⟨h1, h2, h3, _⟩ := attackMapCached_spec b c h
    refine ⟨h1, h2, ?_, ?_⟩
    · simp [CachedBoard.step, CachedBoard.pawnAttacks, Answer.obs, pureAnswer, coloredPawnAttacks, h3]
    · intro b' hb'; simp [CachedBoard.step] at hb'
  | isCheck c =>
    obtain ⟨h1, h2, h3, _⟩ := attackMapCached_spec b c.opp h
    refine ⟨h1, h2, ?_, ?_⟩
    · simp [CachedBoard.step, CachedBoard.isCheck, CachedBoard.attacks, Answer.obs, pureAnswer,
        isCheckB, coloredAttacks, h3]
    · intro b' hb'; simp [CachedBoard.step] at hb'
  | clone =>
    refine ⟨rfl, h, rfl, ?_⟩
    intro b' hb'
    simp [CachedBoard.step, CachedBoard.clone] at hb'
    subst hb'; exact ⟨rfl, h⟩

/-- any sequence of calls on one object -/
theorem run_spec (qs : List Query) : ∀ (b : CachedBoard), CacheInv b →
    (b.run qs).1.pieces = b.pieces ∧ CacheInv (b.run qs).1 ∧
    (b.run qs).2.map Answer.obs = qs.map (pureAnswer b.pieces) ∧
    ∀ b', Answer.board b' ∈ (b.run qs).2 → b'.pieces = b.pieces ∧ CacheInv b' := by
  induction qs with
  | nil => intro b h; exact ⟨rfl, h, rfl, by intro b' hb'; cases hb'⟩
  | cons q qs ih =>
    intro b h
    obtain ⟨s1, s2, s3, s4⟩ := step_spec b q h
    obtain ⟨r1, r2, r3, r4⟩ := ih (b.step q).1 s2
    rw [s1] at r3 r4
    refine ⟨?_, r2, ?_, ?_⟩
    · simp only [CachedBoard.run]; rw [r1, s1]
    · simp only [CachedBoard.run, List.map_cons, r3, s3]
    · intro b' hb'
      simp only [CachedBoard.run] at hb'
      rcases List.mem_cons.1 hb' with e | e
      · exact s4 b' e.symm
      · exact r4 b' e

theorem run_append (qs₁ qs₂ : List Query) : ∀ b : CachedBoard,
    b.run (qs₁ ++ qs₂) = ((b.run qs₁).1.run qs₂ |>.1, (b.run qs₁).2 ++ ((b.run qs₁).1.run qs₂).2) := by
  induction qs₁ with
  | nil => intro b; rfl
  | cons q qs ih => intro b; simp only [List.cons_append, CachedBoard.run, ih]

/-! ### the heap of objects (a position and all its clones) -/

def HeapInv (m : PieceMap) (h : Heap) : Prop := ∀ b ∈ h, b.pieces = m ∧ CacheInv b

theorem heap_step_spec (m : PieceMap) (h : Heap) (i : Nat) (q : Query) (hi : HeapInv m h) :
    HeapInv m (Heap.step h i q).1 ∧
    (∀ a, (Heap.step h i q).2 = some a → Answer.obs a = pureAnswer m q) ∧
    ((Heap.step h i q).2 = Option.none ↔ h.length ≤ i) := by
  unfold Heap.step
  cases hb : h[i]? with
  | none =>
    refine ⟨hi, by simp, ?_⟩
    simp at hb ⊢; exact hb
  | some b =>
    have hbm : b ∈ h := List.mem_of_getElem? hb
    obtain ⟨hp, hinv⟩ := hi b hbm
    obtain ⟨s1, s2, s3, s4⟩ := step_spec b q hinv
    have hset : HeapInv m (h.set i (b.step q).1) := by
      intro x hx
      rcases List.mem_or_eq_of_mem_set hx with hx | hx
      · exact hi x hx
      · subst hx; exact ⟨by rw [s1, hp], s2⟩
    have hlt : ¬ h.length ≤ i := by
      have := (List.getElem?_eq_some_iff.1 hb).1; omega
    simp only []
    cases ha : (b.step q).2 with
    | bb v => simp only [ha] at s3 ⊢; exact ⟨hset, by intro a e; cases e; rw [s3, hp], by simp [hlt]⟩
    | bool v => simp only [ha] at s3 ⊢; exact ⟨hset, by intro a e; cases e; rw [s3, hp], by simp [hlt]⟩
    | board cl =>
      simp only [ha] at s3 s4 ⊢
      refine ⟨?_, by intro a e; cases e; rw [s3, hp], by simp [hlt]⟩
      intro x hx
      rcases List.mem_append.1 hx with hx | hx
      · exact hset x hx
      · simp at hx; subst hx
        obtain ⟨c1, c2⟩ := s4 x rfl
        exact ⟨by rw [c1, hp], c2⟩

theorem heap_run_spec (m : PieceMap) (ops : List (Nat × Query)) : ∀ (h : Heap), HeapInv m h →
    HeapInv m (Heap.run h ops).1 ∧ (Heap.run h ops).2.length = ops.length ∧
    ∀ p ∈ ops.zip (Heap.run h ops).2, ∀ x, p.2 = some x → Answer.obs x = pureAnswer m p.1.2 := by
  induction ops with
  | nil => intro h hi; exact ⟨hi, rfl, by intro p hp; cases hp⟩
  | cons op ops ih =>
    intro h hi
    obtain ⟨i, q⟩ := op
    obtain ⟨s1, s2, _⟩ := heap_step_spec m h i q hi
    obtain ⟨r1, r2, r3⟩ := ih _ s1
    refine ⟨r1, by simp only [Heap.run, List.length_cons, r2], ?_⟩
    intro p hp x hx
    simp only [Heap.run, List.zip_cons_cons] at hp
    rcases List.mem_cons.1 hp with e | e
    · subst e; exact s2 x hx
    · exact r3 p e x hx

/-! ## part 2: bit lemmas for `UInt64` bitboards -/
theorem test_or (a b : UInt64) (n : Nat) : test (a ||| b) n = (test a n || test b n) := by
  simp [test, UInt64.toNat_or, Nat.testBit_or]

theorem test_and (a b : UInt64) (n : Nat) : test (a &&& b) n = (test a n && test b n) := by
  simp [test, UInt64.toNat_and, Nat.testBit_and]

theorem test_zero (n : Nat) : test 0 n = false := by simp [test]

theorem test_ge (a : UInt64) (n : Nat) (h : 64 ≤ n) : test a n = false := by
  unfold test
  apply Nat.testBit_lt_two_pow
  exact Nat.lt_of_lt_of_le a.toNat_lt (Nat.pow_le_pow_right (by omega) h)

theorem test_not (a : UInt64) (n : Nat) (h : n < 64) : test (~~~a) n = !test a n := by
  unfold test
  rw [UInt64.toNat_not]
  have : UInt64.size - 1 - a.toNat = 2^64 - (a.toNat + 1) := by simp [UInt64.size]
  rw [this, Nat.testBit_two_pow_sub_succ a.toNat_lt]
  simp [h]

theorem ext (a b : UInt64) (h : ∀ n, n < 64 → test a n = test b n) : a = b := by
  apply UInt64.toNat_inj.1
  apply Nat.eq_of_testBit_eq
  intro i
  by_cases hi : i < 64
  · exact h i hi
  · have := test_ge a i (by omega); have := test_ge b i (by omega)
    simp_all [test]

theorem ne_zero_iff (a : UInt64) : a ≠ 0 ↔ ∃ n, n < 64 ∧ test a n = true := by
  constructor
  · intro h
    apply Classical.byContradiction
    intro hn
    apply h
    apply ext
    intro n hn'
    rw [test_zero]
    cases ht : test a n with
    | false => rfl
    | true => exact absurd ⟨n, hn', ht⟩ hn
  · rintro ⟨n, _, ht⟩ h0
    rw [h0, test_zero] at ht; cases ht

theorem mem_bitsOf (b : UInt64) (s : Nat) : s ∈ bitsOf b ↔ s < 64 ∧ test b s = true := by
  simp [bitsOf, List.mem_filter, List.mem_range]

theorem test_lt (a : UInt64) (n : Nat) (h : test a n = true) : n < 64 := by
  apply Classical.byContradiction; intro hn
  rw [test_ge a n (by omega)] at h; cases h

/-! ## part 3: folds of ORs; bit-level reading of `AttackMap::from_occupancy` -/
/-- a fold over pairs whose components do not interact is the pair of the folds -/
theorem foldl_pair {α β γ : Type} (F : β → α → β) (G : γ → α → γ) (l : List α) : ∀ (a : β × γ),
    l.foldl (fun acc x => (F acc.1 x, G acc.2 x)) a = (l.foldl F a.1, l.foldl G a.2) := by
  induction l with
  | nil => intro a; rfl
  | cons x xs ih => intro a; simp only [List.foldl_cons, ih]

/-- **test of a fold-of-ORs ↔ ∃ element** -/
theorem test_foldl_or {α : Type} (f : α → UInt64) (n : Nat) (l : List α) : ∀ (init : UInt64),
    test (l.foldl (fun acc x => acc ||| f x) init) n = true ↔
      test init n = true ∨ ∃ x ∈ l, test (f x) n = true := by
  induction l with
  | nil => intro init; simp
  | cons x xs ih =>
    intro init
    simp only [List.foldl_cons, ih, test_or, Bool.or_eq_true, List.mem_cons, exists_eq_or_imp, or_assoc]

/-- nested version: outer list `ps`, inner list `ss p` -/
theorem test_foldl_foldl_or {α β : Type} (ss : α → List β) (f : α → β → UInt64) (n : Nat) (ps : List α) :
    ∀ (init : UInt64),
    test (ps.foldl (fun acc p => (ss p).foldl (fun acc s => acc ||| f p s) acc) init) n = true ↔
      test init n = true ∨ ∃ p ∈ ps, ∃ s ∈ ss p, test (f p s) n = true := by
  induction ps with
  | nil => intro init; simp
  | cons p ps ih =>
    intro init
    simp only [List.foldl_cons, ih, test_foldl_or, List.mem_cons, exists_eq_or_imp, or_assoc]

/-- the two accumulators of `AttackMap::from_occupancy` before the own squares are removed -/
def rawAll (m : PieceMap) (c : Color) : UInt64 :=
  Piece.all.foldl (fun acc p => (bitsOf (m.get c p)).foldl (fun acc s => acc ||| attacksOf c p s m.occ) acc) 0
def rawPawn (m : PieceMap) (c : Color) : UInt64 :=
  Piece.all.foldl (fun acc p => (bitsOf (m.get c p)).foldl
    (fun acc s => acc ||| (if p == Piece.pawn then attacksOf c p s m.occ else 0)) acc) 0

theorem attackMap_eq (m : PieceMap) (c : Color) :
    attackMap m c = (rawAll m c &&& ~~~(m.colorOcc c), rawPawn m c &&& ~~~(m.colorOcc c)) := by
  have h : ∀ (p : Piece) (acc : UInt64 × UInt64),
      (bitsOf (m.get c p)).foldl (fun (acc : UInt64 × UInt64) sq =>
        (acc.1 ||| attacksOf c p sq m.occ,
          if p == Piece.pawn then acc.2 ||| attacksOf c p sq m.occ else acc.2)) acc =
      ((bitsOf (m.get c p)).foldl (fun acc s => acc ||| attacksOf c p s m.occ) acc.1,
       (bitsOf (m.get c p)).foldl
         (fun acc s => acc ||| (if p == Piece.pawn then attacksOf c p s m.occ else 0)) acc.2) := by
    intro p acc
    rw [← foldl_pair]
    congr 1
    funext acc s
    cases hp : p == Piece.pawn <;> simp
  unfold attackMap rawAll rawPawn
  simp only [h]
  rw [foldl_pair (fun a p => (bitsOf (m.get c p)).foldl (fun acc s => acc ||| attacksOf c p s m.occ) a)
    (fun a p => (bitsOf (m.get c p)).foldl
         (fun acc s => acc ||| (if p == Piece.pawn then attacksOf c p s m.occ else 0)) a)]

theorem test_colorOcc (m : PieceMap) (c : Color) (n : Nat) :
    test (m.colorOcc c) n = true ↔ ∃ p ∈ Piece.all, test (m.get c p) n = true := by
  unfold PieceMap.colorOcc
  rw [test_foldl_or]
  simp [test_zero]

theorem test_occ (m : PieceMap) (n : Nat) :
    test m.occ n = true ↔ ∃ c, ∃ p ∈ Piece.all, test (m.get c p) n = true := by
  unfold PieceMap.occ
  rw [test_or, Bool.or_eq_true, test_colorOcc, test_colorOcc]
  constructor
  · rintro (h | h)
    · exact ⟨.white, h⟩
    · exact ⟨.black, h⟩
  · rintro ⟨c, h⟩; cases c
    · exact .inl h
    · exact .inr h

/-- bit-level reading of `colored_attacks` (no hypothesis on the placement) -/
theorem test_coloredAttacks (m : PieceMap) (c : Color) (t : Nat) (ht : t < 64) :
    test (coloredAttacks m c) t = true ↔
      (∃ p ∈ Piece.all, ∃ s ∈ bitsOf (m.get c p), test (attacksOf c p s m.occ) t = true) ∧
      ¬ test (m.colorOcc c) t = true := by
  unfold coloredAttacks
  rw [attackMap_eq]
  simp only [test_and, test_not _ _ ht, Bool.and_eq_true, Bool.not_eq_true', rawAll]
  rw [test_foldl_foldl_or]
  simp [test_zero]

theorem test_coloredPawnAttacks (m : PieceMap) (c : Color) (t : Nat) (ht : t < 64) :
    test (coloredPawnAttacks m c) t = true ↔
      (∃ s ∈ bitsOf (m.get c .pawn), test (attacksOf c .pawn s m.occ) t = true) ∧
      ¬ test (m.colorOcc c) t = true := by
  unfold coloredPawnAttacks
  rw [attackMap_eq]
  simp only [test_and, test_not _ _ ht, Bool.and_eq_true, Bool.not_eq_true', rawPawn]
  rw [test_foldl_foldl_or]
  simp [test_zero, Piece.all]

/-! ## part 4: `piece_at` / `absCell` on a disjoint board -/
/-- the list `Board::piece_at` scans: `Color::ALL × Piece::ALL` -/
def allCP : List (Color × Piece) := Color.all.flatMap fun c => Piece.all.map fun p => (c, p)

theorem mem_allCP (c : Color) (p : Piece) : (c, p) ∈ allCP ↔ p ≠ Piece.none := by
  cases c <;> cases p <;> simp [allCP, Color.all, Piece.all]

theorem mem_pieceAll (p : Piece) : p ∈ Piece.all ↔ p ≠ Piece.none := by
  cases p <;> simp [Piece.all]

/-- the twelve piece bitboards are pairwise disjoint (no square holds two different pieces) -/
def DisjointBoard (m : PieceMap) : Prop :=
  ∀ x ∈ allCP, ∀ y ∈ allCP, x ≠ y → m.get x.1 x.2 &&& m.get y.1 y.2 = 0

instance (m : PieceMap) : Decidable (DisjointBoard m) := by unfold DisjointBoard; infer_instance

theorem DisjointBoard.unique {m : PieceMap} (h : DisjointBoard m) {c1 c2 : Color} {p1 p2 : Piece} {n : Nat}
    (h1 : test (m.get c1 p1) n = true) (h2 : test (m.get c2 p2) n = true) : c1 = c2 ∧ p1 = p2 := by
  have hp1 : p1 ≠ Piece.none := by rintro rfl; cases c1 <;> simp [PieceMap.get, test_zero] at h1
  have hp2 : p2 ≠ Piece.none := by rintro rfl; cases c2 <;> simp [PieceMap.get, test_zero] at h2
  apply Classical.byContradiction
  intro hne
  have := h (c1, p1) ((mem_allCP _ _).2 hp1) (c2, p2) ((mem_allCP _ _).2 hp2)
    (by intro e; cases e; exact hne ⟨rfl, rfl⟩)
  have ht : test (m.get c1 p1 &&& m.get c2 p2) n = true := by rw [test_and, h1, h2]; rfl
  simp only [] at this
  rw [this, test_zero] at ht; cases ht

theorem find?_unique {α : Type} (l : List α) (f : α → Bool) (x : α) (hx : x ∈ l) (hf : f x = true)
    (hu : ∀ y ∈ l, f y = true → y = x) : l.find? f = some x := by
  cases h : l.find? f with
  | none => exact absurd hf (by simpa using List.find?_eq_none.1 h x hx)
  | some y => rw [hu y (List.mem_of_find?_eq_some h) (List.find?_some h)]

theorem pieceAt_def (m : PieceMap) (sq : Nat) :
    m.pieceAt sq = allCP.find? fun x => test (m.get x.1 x.2) sq := rfl

/-- `piece_at` returns a piece only if its bitboard has the square -/
theorem pieceAt_some (m : PieceMap) (sq : Nat) (c : Color) (p : Piece) (h : m.pieceAt sq = some (c, p)) :
    p ≠ Piece.none ∧ test (m.get c p) sq = true := by
  rw [pieceAt_def] at h
  have h2 := List.find?_some h
  exact ⟨(mem_allCP c p).1 (List.mem_of_find?_eq_some h), h2⟩

/-- on a disjoint board `piece_at` finds exactly the piece whose bitboard has the square -/
theorem pieceAt_iff {m : PieceMap} (hd : DisjointBoard m) (sq : Nat) (c : Color) (p : Piece) :
    m.pieceAt sq = some (c, p) ↔ test (m.get c p) sq = true := by
  constructor
  · exact fun h => (pieceAt_some m sq c p h).2
  · intro h
    have hp : p ≠ Piece.none := by rintro rfl; cases c <;> simp [PieceMap.get, test_zero] at h
    rw [pieceAt_def]
    apply find?_unique _ _ _ ((mem_allCP c p).2 hp) h
    rintro ⟨c', p'⟩ _ h'
    obtain ⟨rfl, rfl⟩ := hd.unique h' h
    rfl

theorem pieceAt_none (m : PieceMap) (sq : Nat) :
    m.pieceAt sq = Option.none ↔ ∀ c p, test (m.get c p) sq = false := by
  rw [pieceAt_def, List.find?_eq_none]
  constructor
  · intro h c p
    by_cases hp : p = Piece.none
    · subst hp; cases c <;> simp [PieceMap.get, test_zero]
    · simpa using h (c, p) ((mem_allCP c p).2 hp)
  · rintro h ⟨c, p⟩ _; simp [h c p]

theorem absKind_some (p : Piece) (hp : p ≠ Piece.none) : ∃ k, absKind p = some k := by
  cases p <;> simp [absKind] at hp ⊢

theorem absKind_inj (p q : Piece) (k : Spec.Kind) (hp : absKind p = some k) (hq : absKind q = some k) : p = q := by
  cases p <;> cases q <;> simp [absKind] at hp hq ⊢ <;> (subst hp; cases hq)

theorem absColor_inj (c d : Color) (h : absColor c = absColor d) : c = d := by
  cases c <;> cases d <;> simp [absColor] at h ⊢

theorem absColor_opp (c : Color) : absColor c.opp = (absColor c).opp := by cases c <;> rfl

/-- the mailbox cell of a disjoint board, read off the bitboards -/
theorem absCell_iff {m : PieceMap} (hd : DisjointBoard m) (sq : Nat) (c : Color) (k : Spec.Kind) :
    absCell m sq = some (absColor c, k) ↔ ∃ p, absKind p = some k ∧ test (m.get c p) sq = true := by
  unfold absCell
  constructor
  · intro h
    cases hpa : m.pieceAt sq with
    | none => rw [hpa] at h; cases h
    | some cp =>
      obtain ⟨c', p'⟩ := cp
      rw [hpa] at h
      simp only [Option.map_eq_some_iff] at h
      obtain ⟨k', hk', e⟩ := h
      have e1 : absColor c' = absColor c := congrArg Prod.fst e
      have e2 : k' = k := congrArg Prod.snd e
      have := absColor_inj _ _ e1
      subst this; subst e2
      exact ⟨p', hk', (pieceAt_some m sq c' p' hpa).2⟩
  · rintro ⟨p, hk, ht⟩
    rw [(pieceAt_iff hd sq c p).2 ht]
    simp [hk]

/-! ## part 5: the C09 interface and `AttackGenerator::compute` -/
/-- The facts of C09 that C10 uses: every attack lookup of the engine, read bit by bit, is the
coordinate-geometry list of the specification. -/
structure AttackTablesCorrect : Prop where
  rook : ∀ sq, sq < 64 → ∀ (occ : UInt64) (t : Nat), t < 64 →
    test (rookAttacks sq occ) t = (Spec.slide (fun n => test occ n) Spec.rookDirs sq).contains t
  bishop : ∀ sq, sq < 64 → ∀ (occ : UInt64) (t : Nat), t < 64 →
    test (bishopAttacks sq occ) t = (Spec.slide (fun n => test occ n) Spec.bishopDirs sq).contains t
  knight : ∀ sq, sq < 64 → ∀ (t : Nat), t < 64 →
    test (knightAttacks sq) t = (Spec.knightJumps.filterMap fun d => Spec.step sq d.1 d.2).contains t
  king : ∀ sq, sq < 64 → ∀ (t : Nat), t < 64 →
    test (kingAttacks sq) t = (Spec.kingSteps.filterMap fun d => Spec.step sq d.1 d.2).contains t
  pawn : ∀ (c : Color) sq, sq < 64 → ∀ (t : Nat), t < 64 →
    test (pawnAttacks c sq) t =
      ([((-1 : Int), (absColor c).fwd), (1, (absColor c).fwd)].filterMap fun d => Spec.step sq d.1 d.2).contains t

theorem attacksOf_spec (T : AttackTablesCorrect) (c : Color) (p : Piece) (k : Spec.Kind)
    (hk : absKind p = some k) (s : Nat) (hs : s < 64) (occ : UInt64) (t : Nat) (ht : t < 64) :
    test (attacksOf c p s occ) t =
      (Spec.attacksFrom (fun n => test occ n) (absColor c) k s).contains t := by
  cases p <;> simp only [absKind, Option.some.injEq, reduceCtorEq] at hk <;> subst hk <;>
    simp only [attacksOf, Spec.attacksFrom]
  · exact T.pawn c s hs t ht
  · exact T.knight s hs t ht
  · exact T.bishop s hs occ t ht
  · exact T.rook s hs occ t ht
  · simp only [queenAttacks, test_or, T.rook s hs occ t ht, T.bishop s hs occ t ht, Spec.slide,
      List.flatMap_append, List.contains_eq_mem, List.mem_append, Bool.decide_or]
  · exact T.king s hs t ht

/-! ## part 6: attack sets and check against the mailbox cells -/
/-- occupancy bitboard = "the mailbox cell is not empty" (any placement, any `n`) -/
theorem occ_abs (m : PieceMap) : (fun n => test m.occ n) = fun n => (absCell m n).isSome := by
  funext n
  unfold absCell
  cases hpa : m.pieceAt n with
  | none =>
    have h := (pieceAt_none m n).1 hpa
    cases ht : test m.occ n with
    | false => rfl
    | true =>
      obtain ⟨c, p, _, hp⟩ := (test_occ m n).1 ht
      rw [h c p] at hp; cases hp
  | some cp =>
    obtain ⟨c, p⟩ := cp
    obtain ⟨hp, ht⟩ := pieceAt_some m n c p hpa
    obtain ⟨k, hk⟩ := absKind_some p hp
    have : test m.occ n = true := (test_occ m n).2 ⟨c, p, (mem_pieceAll p).2 hp, ht⟩
    simp [this, hk]

theorem absKind_ne_none {p : Piece} {k : Spec.Kind} (h : absKind p = some k) : p ≠ Piece.none := by
  rintro rfl; cases h

/-- own squares: `colored_occupancy[c]` has `t` iff the mailbox cell holds a piece of colour `c` -/
theorem test_colorOcc_abs {m : PieceMap} (hd : DisjointBoard m) (c : Color) (t : Nat) :
    test (m.colorOcc c) t = true ↔ ∃ k, absCell m t = some (absColor c, k) := by
  rw [test_colorOcc]
  constructor
  · rintro ⟨p, hp, ht⟩
    obtain ⟨k, hk⟩ := absKind_some p ((mem_pieceAll p).1 hp)
    exact ⟨k, (absCell_iff hd t c k).2 ⟨p, hk, ht⟩⟩
  · rintro ⟨k, h⟩
    obtain ⟨p, hk, ht⟩ := (absCell_iff hd t c k).1 h
    exact ⟨p, (mem_pieceAll p).2 (absKind_ne_none hk), ht⟩

/-- the set "squares attacked by some piece of colour `c`", bitboard side = mailbox side -/
theorem attackers_abs (T : AttackTablesCorrect) {m : PieceMap} (hd : DisjointBoard m) (c : Color)
    (t : Nat) (ht : t < 64) :
    (∃ p ∈ Piece.all, ∃ s ∈ bitsOf (m.get c p), test (attacksOf c p s m.occ) t = true) ↔
    (∃ s, s < 64 ∧ ∃ k, absCell m s = some (absColor c, k) ∧
        t ∈ Spec.attacksFrom (fun n => (absCell m n).isSome) (absColor c) k s) := by
  rw [← occ_abs]
  constructor
  · rintro ⟨p, hp, s, hs, ha⟩
    obtain ⟨hs64, hts⟩ := (mem_bitsOf _ _).1 hs
    obtain ⟨k, hk⟩ := absKind_some p ((mem_pieceAll p).1 hp)
    refine ⟨s, hs64, k, (absCell_iff hd s c k).2 ⟨p, hk, hts⟩, ?_⟩
    rw [attacksOf_spec T c p k hk s hs64 m.occ t ht] at ha
    simpa using ha
  · rintro ⟨s, hs64, k, hc, hmem⟩
    obtain ⟨p, hk, hts⟩ := (absCell_iff hd s c k).1 hc
    refine ⟨p, (mem_pieceAll p).2 (absKind_ne_none hk), s, (mem_bitsOf _ _).2 ⟨hs64, hts⟩, ?_⟩
    rw [attacksOf_spec T c p k hk s hs64 m.occ t ht]
    simpa using hmem

theorem attacks_abs (T : AttackTablesCorrect) {m : PieceMap} (hd : DisjointBoard m) (c : Color)
    (t : Nat) (ht : t < 64) :
    test (coloredAttacks m c) t = true ↔
      (∃ s, s < 64 ∧ ∃ k, absCell m s = some (absColor c, k) ∧
        t ∈ Spec.attacksFrom (fun n => (absCell m n).isSome) (absColor c) k s) ∧
      ¬ ∃ k, absCell m t = some (absColor c, k) := by
  rw [test_coloredAttacks m c t ht, attackers_abs T hd c t ht, test_colorOcc_abs hd]

theorem pawnAttacks_abs (T : AttackTablesCorrect) {m : PieceMap} (hd : DisjointBoard m) (c : Color)
    (t : Nat) (ht : t < 64) :
    test (coloredPawnAttacks m c) t = true ↔
      (∃ s, s < 64 ∧ absCell m s = some (absColor c, Spec.Kind.pawn) ∧
        t ∈ Spec.attacksFrom (fun n => (absCell m n).isSome) (absColor c) Spec.Kind.pawn s) ∧
      ¬ ∃ k, absCell m t = some (absColor c, k) := by
  rw [test_coloredPawnAttacks m c t ht, test_colorOcc_abs hd, ← occ_abs]
  apply and_congr_left'
  constructor
  · rintro ⟨s, hs, ha⟩
    obtain ⟨hs64, hts⟩ := (mem_bitsOf _ _).1 hs
    refine ⟨s, hs64, (absCell_iff hd s c _).2 ⟨.pawn, rfl, hts⟩, ?_⟩
    rw [attacksOf_spec T c .pawn .pawn rfl s hs64 m.occ t ht] at ha
    simpa using ha
  · rintro ⟨s, hs64, hc, hmem⟩
    obtain ⟨p, hk, hts⟩ := (absCell_iff hd s c _).1 hc
    have : p = Piece.pawn := absKind_inj p .pawn .pawn hk rfl
    subst this
    refine ⟨s, (mem_bitsOf _ _).2 ⟨hs64, hts⟩, ?_⟩
    rw [attacksOf_spec T c .pawn .pawn rfl s hs64 m.occ t ht]
    simpa using hmem

theorem absColor_opp_ne (c : Color) : absColor c.opp ≠ absColor c := by cases c <;> simp [absColor, Color.opp]

theorem check_abs (T : AttackTablesCorrect) {m : PieceMap} (hd : DisjointBoard m) (c : Color) :
    isCheckB m c = true ↔
      ∃ s, s < 64 ∧ absCell m s = some (absColor c, Spec.Kind.king) ∧
        ∃ s', s' < 64 ∧ ∃ k, absCell m s' = some ((absColor c).opp, k) ∧
          s ∈ Spec.attacksFrom (fun n => (absCell m n).isSome) (absColor c).opp k s' := by
  have h0 : isCheckB m c = true ↔ (m.get c .king &&& coloredAttacks m c.opp) ≠ 0 := by
    simp [isCheckB, bbAny]
  rw [h0, ne_zero_iff]
  constructor
  · rintro ⟨s, hs, ht⟩
    rw [test_and, Bool.and_eq_true] at ht
    obtain ⟨hk, ha⟩ := ht
    have := (attacks_abs T hd c.opp s hs).1 ha
    rw [absColor_opp] at this
    exact ⟨s, hs, (absCell_iff hd s c _).2 ⟨.king, rfl, hk⟩, this.1⟩
  · rintro ⟨s, hs, hk, hatt⟩
    refine ⟨s, hs, ?_⟩
    rw [test_and, Bool.and_eq_true]
    obtain ⟨p, hp, hts⟩ := (absCell_iff hd s c _).1 hk
    have : p = Piece.king := absKind_inj p .king .king hp rfl
    subst this
    refine ⟨hts, (attacks_abs T hd c.opp s hs).2 ⟨?_, ?_⟩⟩
    · rw [absColor_opp]; exact hatt
    · rintro ⟨k, hk'⟩
      rw [hk] at hk'
      exact absColor_opp_ne c (congrArg Prod.fst (Option.some.inj hk')).symm

/-! ## part 7: the specification predicates `Pos.attackedBy`, `Pos.inCheck` on `abs` -/
theorem absCell_ge (m : PieceMap) (n : Nat) (h : 64 ≤ n) : absCell m n = Option.none := by
  unfold absCell
  rw [(pieceAt_none m n).2 (fun c p => test_ge _ n h)]

theorem abs_at (st : State) (n : Nat) : (abs st).at n = absCell st.pieces n := by
  unfold Spec.Pos.at abs
  by_cases h : n < 64
  · simp [h, Array.getD]
  · simp [h, absCell_ge st.pieces n (by omega)]

theorem abs_occupied (st : State) : (abs st).occupied = fun n => (absCell st.pieces n).isSome := by
  funext n; simp [Spec.Pos.occupied, abs_at]

theorem attackedBy_iff (p : Spec.Pos) (c : Spec.Color) (t : Nat) :
    p.attackedBy c t = true ↔
      ∃ s, s < 64 ∧ ∃ k, p.at s = some (c, k) ∧ t ∈ Spec.attacksFrom p.occupied c k s := by
  unfold Spec.Pos.attackedBy
  rw [List.any_eq_true]
  constructor
  · rintro ⟨s, hs, h⟩
    refine ⟨s, List.mem_range.1 hs, ?_⟩
    cases hat : p.at s with
    | none => rw [hat] at h; cases h
    | some ck =>
      obtain ⟨c', k⟩ := ck
      rw [hat] at h
      simp only [Bool.and_eq_true, beq_iff_eq, List.contains_eq_mem, decide_eq_true_eq] at h
      obtain ⟨rfl, hm⟩ := h
      exact ⟨k, rfl, hm⟩
  · rintro ⟨s, hs, k, hat, hm⟩
    refine ⟨s, List.mem_range.2 hs, ?_⟩
    rw [hat]
    simp [hm]

theorem inCheck_iff (p : Spec.Pos) (c : Spec.Color) :
    p.inCheck c = true ↔ ∃ s, s < 64 ∧ p.at s = some (c, Spec.Kind.king) ∧ p.attackedBy c.opp s = true := by
  unfold Spec.Pos.inCheck Spec.Pos.kingSquares
  simp only [List.any_eq_true, List.mem_filter, List.mem_range, beq_iff_eq, and_assoc]

end Wee.C10
