import Wee.Proofs.UciLemmas
import Wee.Proofs.ApplyCodes
/-!
# Move generation is total on every position the FEN reader can produce (helpers for C14Total)

The model of `MoveGenerator::compute_legal_moves` returns `none` where the Rust code would panic:
`Square::offset(..).unwrap()` (pawn origins), `piece_at(target).unwrap()` (captured piece),
`by_performing_move(..).unwrap()` in `try_as_legal_move`, and the `unwrap` of the piece accessors on
a bad discriminant.  C01 shows none of these fires on a *legal* position.  Here the same is shown with
NO condition on the placement (overlapping bitboards, no kings, ten kings, pawns on the first rank,
castling rights without king or rook, an en-passant target on an occupied square …): the only thing
needed is the type invariant of `Option<Square>` — the en-passant target, if any, is a square of the
board (`FromFen`).

* every `unwrap` of the pawn generator sits on a square reached by shifting the pawn bitboard, so the
  inverse offset exists (`test_shiftFwd`, `test_pawnAtt` — these hold for arbitrary bitboards);
* `piece_at(t)` is asked only for `t` in the opponent's occupancy, which is the union of his six
  bitboards, so the scan of `piece_at` finds something (not necessarily an opposing piece if boards
  overlap — it does not matter for the `unwrap`);
* every generated move is built by a public constructor from squares `< 64`, so its codes decode
  (`CodesOk`, `piece?`), and it is an en-passant move only if `ep = some e` and a pawn of the mover
  attacks `e`, which puts `e` at least one rank away from the mover's own back rank: the captured
  pawn's square `e.offset(backward)` exists.  Hence `by_performing_move` is `Ok`.
-/
namespace Wee
open Gen
open Wee.C10 (DisjointBoard)
open Wee.C02 (CodesOk performMove_eq capStep)

/-- **the invariant**: the en-passant target (Rust: `Option<Square>`) is a square of the board.
Nothing about kings, checks, pawns, castling rights or even disjointness of the twelve bitboards.
True of every state the FEN reader returns (`fromFen_of_parse`), of the start position, and of every
state `by_performing_move` returns (`fromFen_of_performMove` — from ANY state and ANY move). -/
def FromFen (st : State) : Prop := ∀ e, st.ep = some e → e < 64

instance (st : State) : Decidable (FromFen st) := by
  unfold FromFen
  cases h : st.ep with
  | none => exact isTrue (fun e he => by cases he)
  | some t =>
    by_cases ht : t < 64
    · exact isTrue (fun e he => by cases he; exact ht)
    · exact isFalse (fun hh => ht (hh t rfl))

/-! ## part 1: a move that `try_as_legal_move` can apply without panic -/

/-- the conditions under which `by_performing_move(state, mv).unwrap()` does not panic -/
def Appliable (s : State) (mv : Move) : Prop :=
  (∃ p, Move.piece? mv = some p) ∧ CodesOk mv ∧
  (Move.isEnPassant mv = true → ∃ e c, s.ep = some e ∧ offset e 0 s.turn.backward = some c)

theorem performMove_ok_of_appliable (s : State) (mv : Move) (h : Appliable s mv) :
    ∃ next, performMove s mv = some (.ok next) := by
  obtain ⟨⟨p, hp⟩, hc, hep⟩ := h
  rw [performMove_eq s mv p hp hc]
  unfold capStep
  cases hE : Move.isEnPassant mv
  · simp only [Bool.false_eq_true, if_false]
    cases Move.capture mv <;> exact ⟨_, rfl⟩
  · obtain ⟨e, c, h1, h2⟩ := hep hE
    simp only [if_true, h1, h2]
    exact ⟨_, rfl⟩

theorem tryAsLegal_ne_none (s : State) (mv : Move) (h : Appliable s mv) : tryAsLegal s mv ≠ Option.none := by
  obtain ⟨next, hn⟩ := performMove_ok_of_appliable s mv h
  unfold tryAsLegal
  rw [hn]
  dsimp only
  split <;> simp

theorem piece?_mk (c : Color) (p : Piece) (o d : Nat) (cap pr : Option Piece) (ep cq ck : Bool)
    (ho : o < 64) (hd : d < 64) : Move.piece? (Move.mk c p o d cap pr ep cq ck) = some p := by
  unfold Move.piece?; rw [Move.pieceCode_mk c p o d cap pr ep cq ck ho hd, Move.ofCode_code]

theorem appliable_mk (s : State) (c : Color) (p : Piece) (o d : Nat) (cap pr : Option Piece) (ep cq ck : Bool)
    (ho : o < 64) (hd : d < 64)
    (hep : ep = true → ∃ e c, s.ep = some e ∧ offset e 0 s.turn.backward = some c) :
    Appliable s (Move.mk c p o d cap pr ep cq ck) :=
  ⟨⟨p, piece?_mk c p o d cap pr ep cq ck ho hd⟩, C02.codesOk_mk c p o d cap pr ep cq ck ho hd,
    fun h => hep (by rw [Move.isEnPassant_mk c p o d cap pr ep cq ck ho hd] at h; exact h)⟩

theorem appliable_byMoving (s : State) (c : Color) (p : Piece) (o d : Nat) (ho : o < 64) (hd : d < 64) :
    Appliable s (Move.byMoving c p o d) := by
  rw [Move.byMoving_eq_mk c p o d ho hd]; exact appliable_mk s _ _ _ _ _ _ _ _ _ ho hd (fun h => by cases h)

theorem appliable_byCapturing (s : State) (c : Color) (p : Piece) (o d : Nat) (q : Piece) (ho : o < 64) (hd : d < 64) :
    Appliable s (Move.byCapturing c p o d q) := by
  rw [Move.byCapturing_eq_mk c p o d ho hd q]; exact appliable_mk s _ _ _ _ _ _ _ _ _ ho hd (fun h => by cases h)

theorem appliable_byPromoting (s : State) (c : Color) (p : Piece) (o d : Nat) (r : Piece) (ho : o < 64) (hd : d < 64) :
    Appliable s (Move.byPromoting c p o d r) := by
  rw [Move.byPromoting_eq_mk c p o d ho hd r]; exact appliable_mk s _ _ _ _ _ _ _ _ _ ho hd (fun h => by cases h)

theorem appliable_byCapturePromoting (s : State) (c : Color) (p : Piece) (o d : Nat) (q r : Piece)
    (ho : o < 64) (hd : d < 64) : Appliable s (Move.byCapturePromoting c p o d q r) := by
  rw [Move.byCapturePromoting_eq_mk c p o d ho hd q r]
  exact appliable_mk s _ _ _ _ _ _ _ _ _ ho hd (fun h => by cases h)

theorem appliable_byEnPassant (s : State) (c : Color) (p : Piece) (o d : Nat) (ho : o < 64) (hd : d < 64)
    (hep : ∃ e c, s.ep = some e ∧ offset e 0 s.turn.backward = some c) :
    Appliable s (Move.byEnPassant c p o d) := by
  rw [Move.byEnPassant_eq_mk c p o d ho hd]; exact appliable_mk s _ _ _ _ _ _ _ _ _ ho hd (fun _ => hep)

theorem appliable_byCastling (s : State) (c : Color) (sd : Side) : Appliable s (Move.byCastling c sd) := by
  rw [Move.byCastling_eq_mk]
  apply appliable_mk
  · cases c <;> decide
  · cases c <;> cases sd <;> decide
  · intro h; cases h

/-! ## part 2: loops over the ones of a mask -/

/-- a loop over the ones of a mask whose body cannot fail and only produces good values -/
theorem mapM_seg_all {β : Type} (M : UInt64) (f : Nat → Option β) (P : β → Prop)
    (hf : ∀ t, t < 64 → test M t = true → ∃ y, f t = some y ∧ P y) :
    ∃ L, (bitsOf M).mapM f = some L ∧ ∀ y ∈ L, P y := by
  obtain ⟨h1, h2⟩ := mapM_seg M f (fun t ht hT => by obtain ⟨y, hy, _⟩ := hf t ht hT; exact ⟨y, hy⟩)
  refine ⟨_, h1, fun y hy => ?_⟩
  obtain ⟨t, ht, hT, hft⟩ := (h2 y).1 hy
  obtain ⟨y', hy', hP⟩ := hf t ht hT
  rw [hft] at hy'; cases hy'; exact hP

/-- `piece_at(t).unwrap()` on a square of a side's occupancy: the scan finds something -/
theorem capturedAt_of_colorOcc (s : State) (c : Color) (t : Nat) (h : test (s.pieces.colorOcc c) t = true) :
    ∃ q, capturedAt s t = some q := by
  obtain ⟨p, _, hp⟩ := (C10.test_colorOcc s.pieces c t).1 h
  cases hpa : s.pieces.pieceAt t with
  | none =>
    have := (C10.pieceAt_none s.pieces t).1 hpa c p
    rw [hp] at this; cases this
  | some cq => exact ⟨cq.2, by unfold capturedAt; rw [hpa]; rfl⟩

/-! ## part 3: the pawn segments -/

theorem pawnPushSeg_total (s : State) :
    ∃ L, pawnPushSeg (Helper.of s) = some L ∧ ∀ m ∈ L, Appliable s m := by
  unfold pawnPushSeg
  apply mapM_seg_all
  intro t ht hT
  simp only [helper_us, helper_s] at hT ⊢
  rw [test_and, test_and, Bool.and_eq_true, Bool.and_eq_true, test_shiftFwd _ _ t ht] at hT
  obtain ⟨⟨⟨o, hpo, hst⟩, _⟩, _⟩ := hT
  have ho := test_lt _ _ hpo
  rw [(offset_back0 s.turn ho ht).2 hst]
  exact ⟨_, rfl, appliable_byMoving s _ _ o t ho ht⟩

theorem pawnPromoSeg_total (s : State) :
    ∃ L, pawnPromoSeg (Helper.of s) = some L ∧ ∀ l ∈ L, ∀ m ∈ l, Appliable s m := by
  unfold pawnPromoSeg
  apply mapM_seg_all
  intro t ht hT
  simp only [helper_us, helper_s] at hT ⊢
  rw [test_and, test_and, Bool.and_eq_true, Bool.and_eq_true, test_shiftFwd _ _ t ht] at hT
  obtain ⟨⟨⟨o, hpo, hst⟩, _⟩, _⟩ := hT
  have ho := test_lt _ _ hpo
  rw [(offset_back0 s.turn ho ht).2 hst]
  refine ⟨_, rfl, fun m hm => ?_⟩
  obtain ⟨pr, _, rfl⟩ := List.mem_map.1 hm
  exact appliable_byPromoting s _ _ o t pr ho ht

theorem pawnDoubleSeg_total (s : State) :
    ∃ L, pawnDoubleSeg (Helper.of s) = some L ∧ ∀ m ∈ L, Appliable s m := by
  unfold pawnDoubleSeg
  apply mapM_seg_all
  intro t ht hT
  simp only [helper_us, helper_s] at hT ⊢
  rw [test_and, Bool.and_eq_true, test_shiftFwd _ _ t ht] at hT
  obtain ⟨⟨o1, hT1, hst2⟩, _⟩ := hT
  have ho1 := test_lt _ _ hT1
  rw [test_and, Bool.and_eq_true, test_shiftFwd _ _ o1 ho1] at hT1
  obtain ⟨⟨o, hpo, hst1⟩, _⟩ := hT1
  rw [test_and, Bool.and_eq_true] at hpo
  have ho := test_lt _ _ hpo.1
  rw [(offset_back0 s.turn ho1 ht).2 hst2]
  show ∃ y, (do let o ← offset o1 0 s.turn.backward; pure (Move.byMoving s.turn .pawn o t)) = some y ∧ _
  rw [(offset_back0 s.turn ho ho1).2 hst1]
  exact ⟨_, rfl, appliable_byMoving s _ _ o t ho ht⟩

theorem pawnCapSeg_total (s : State) (east : Bool) :
    ∃ L, pawnCapSeg (Helper.of s) east = some L ∧ ∀ m ∈ L, Appliable s m := by
  unfold pawnCapSeg
  apply mapM_seg_all
  intro t ht hT
  rw [test_and, test_and, Bool.and_eq_true, Bool.and_eq_true, test_pawnAtt _ _ t ht] at hT
  obtain ⟨⟨⟨o, hpo, hst⟩, _⟩, hopp⟩ := hT
  simp only [helper_us, helper_s, helper_opp] at hpo hst hopp ⊢
  have ho := test_lt _ _ hpo
  obtain ⟨q, hq⟩ := capturedAt_of_colorOcc s _ t hopp
  rw [(offset_cap s.turn east ho ht).2 hst, hq]
  exact ⟨_, rfl, appliable_byCapturing s _ _ o t q ho ht⟩

theorem pawnCapPromoSeg_total (s : State) (east : Bool) :
    ∃ L, pawnCapPromoSeg (Helper.of s) east = some L ∧ ∀ l ∈ L, ∀ m ∈ l, Appliable s m := by
  unfold pawnCapPromoSeg
  apply mapM_seg_all
  intro t ht hT
  rw [test_and, test_and, Bool.and_eq_true, Bool.and_eq_true, test_pawnAtt _ _ t ht] at hT
  obtain ⟨⟨⟨o, hpo, hst⟩, _⟩, hopp⟩ := hT
  simp only [helper_us, helper_s, helper_opp] at hpo hst hopp ⊢
  have ho := test_lt _ _ hpo
  obtain ⟨q, hq⟩ := capturedAt_of_colorOcc s _ t hopp
  rw [(offset_cap s.turn east ho ht).2 hst, hq]
  refine ⟨_, rfl, fun m hm => ?_⟩
  obtain ⟨pr, _, rfl⟩ := List.mem_map.1 hm
  exact appliable_byCapturePromoting s _ _ o t q pr ho ht

/-- a pawn of colour `c` attacks `e` from `o`: the square behind `e` (seen from `c`) is on the board -/
theorem offset_behind_target (c : Color) (df : Int) {o e : Nat} (ho : o < 64) (hst : Spec.step o df (absColor c).fwd = some e) :
    ∃ x, offset e 0 c.backward = some x := by
  rw [offset_eq_step, bwd_eq]
  rw [step_eq_some] at hst
  obtain ⟨hb, he⟩ := hst
  rcases fwd_cases c with h | h
  · rw [h] at hb he ⊢
    refine ⟨_, (step_eq_some _ _ _ _).2 ⟨?_, rfl⟩⟩
    omega
  · rw [h] at hb he ⊢
    refine ⟨_, (step_eq_some _ _ _ _).2 ⟨?_, rfl⟩⟩
    omega

theorem pawnEpSeg_total (s : State) (hep : FromFen s) (east : Bool) :
    ∃ L, pawnEpSeg (Helper.of s) east = some L ∧ ∀ m ∈ L, Appliable s m := by
  unfold pawnEpSeg
  cases hepc : s.ep with
  | none =>
    rw [firstOne_epBB_none _ _ hepc]
    exact ⟨[], rfl, fun m hm => by cases hm⟩
  | some e =>
    have he := hep e hepc
    rw [firstOne_epBB _ _ e he hepc]
    by_cases ha : test (pawnAtt (Helper.of s) east) e = true
    · rw [if_pos ha]
      obtain ⟨o, hpo, hst⟩ := (test_pawnAtt _ _ e he).1 ha
      simp only [helper_us, helper_s] at hpo hst ⊢
      have ho := test_lt _ _ hpo
      rw [(offset_cap s.turn east ho he).2 hst]
      refine ⟨[Move.byEnPassant s.turn .pawn o e], rfl, fun m hm => ?_⟩
      rw [List.mem_singleton] at hm; subst hm
      obtain ⟨x, hx⟩ := offset_behind_target s.turn (capDf east) ho hst
      exact appliable_byEnPassant s _ _ o e ho he ⟨e, x, hepc, hx⟩
    · rw [if_neg ha]
      exact ⟨[], rfl, fun m hm => by cases hm⟩

theorem pawnSideSeg_total (s : State) (hep : FromFen s) (east : Bool) :
    ∃ L, pawnSideSeg (Helper.of s) east = some L ∧ ∀ m ∈ L, Appliable s m := by
  obtain ⟨x, hx, px⟩ := pawnCapSeg_total s east
  obtain ⟨y, hy, py⟩ := pawnCapPromoSeg_total s east
  obtain ⟨z, hz, pz⟩ := pawnEpSeg_total s hep east
  rw [pawnSideSeg_eq, hx, hy, hz]
  refine ⟨_, rfl, fun m hm => ?_⟩
  rcases List.mem_append.1 hm with hm | hm
  · rcases List.mem_append.1 hm with hm | hm
    · exact px m hm
    · obtain ⟨l, hl, hml⟩ := List.mem_flatten.1 hm
      exact py l hl m hml
  · exact pz m hm

/-- `compute_pawn_moves` never panics, and every move it pushes can be applied -/
theorem pawnMoves_total (s : State) (hep : FromFen s) :
    ∃ L, pawnMoves (Helper.of s) = some L ∧ ∀ m ∈ L, Appliable s m := by
  obtain ⟨a, ha, pa⟩ := pawnPushSeg_total s
  obtain ⟨b, hb, pb⟩ := pawnPromoSeg_total s
  obtain ⟨c, hc, pc⟩ := pawnDoubleSeg_total s
  obtain ⟨e, he, pe⟩ := pawnSideSeg_total s hep true
  obtain ⟨w, hw, pw⟩ := pawnSideSeg_total s hep false
  rw [pawnMoves_eq, ha, hb, hc, he, hw]
  refine ⟨_, rfl, fun m hm => ?_⟩
  simp only [List.mem_append, List.mem_flatten] at hm
  rcases hm with (((hm | ⟨l, hl, hml⟩) | hm) | hm) | hm
  · exact pa m hm
  · exact pb l hl m hml
  · exact pc m hm
  · exact pe m hm
  · exact pw m hm

/-! ## part 4: the other pieces -/

theorem expandMoves_appliable (s : State) (h : Helper) (o : Nat) (ho : o < 64) (dests : UInt64) (p : Piece) :
    ∀ m ∈ expandMoves h o dests p, Appliable s m := by
  intro m hm
  obtain ⟨t, ht, _, rfl⟩ := (mem_expandMoves h o dests p m).1 hm
  cases capturedAt h.s t with
  | none => exact appliable_byMoving s _ _ o t ho ht
  | some q => exact appliable_byCapturing s _ _ o t q ho ht

theorem knightMoves_appliable (s : State) (h : Helper) : ∀ m ∈ knightMoves h, Appliable s m := by
  intro m hm
  unfold knightMoves at hm
  obtain ⟨sq, hsq, hm⟩ := List.mem_flatMap.1 hm
  exact expandMoves_appliable s h sq ((mem_bitsOf _ _).1 hsq).1 _ _ m hm

theorem sliderMoves_appliable (s : State) (h : Helper) (p : Piece) (att : Nat → UInt64 → UInt64) :
    ∀ m ∈ sliderMoves h p att, Appliable s m := by
  intro m hm
  unfold sliderMoves at hm
  obtain ⟨sq, hsq, hm⟩ := List.mem_flatMap.1 hm
  exact expandMoves_appliable s h sq ((mem_bitsOf _ _).1 hsq).1 _ _ m hm

theorem kingMoves_appliable (s : State) (h : Helper) : ∀ m ∈ kingMoves h, Appliable s m := by
  intro m hm
  unfold kingMoves at hm
  rcases List.mem_append.1 hm with hm | hm
  · obtain ⟨sq, hsq, hm⟩ := List.mem_flatMap.1 hm
    exact expandMoves_appliable s h sq ((mem_bitsOf _ _).1 hsq).1 _ _ m hm
  · obtain ⟨side, _, hside⟩ := List.mem_filterMap.1 hm
    split at hside
    · dsimp only at hside
      split at hside
      · cases hside; exact appliable_byCastling s _ _
      · cases hside
    · cases hside

/-! ## part 5: the whole generator -/

/-- `compute_psuedo_legal_moves_into` never panics; every move it produces can be applied -/
theorem pseudoLegalMoves_total (s : State) (hep : FromFen s) :
    ∃ ps, pseudoLegalMoves s = some ps ∧ ∀ m ∈ ps, Appliable s m := by
  obtain ⟨pm, hpm, ppm⟩ := pawnMoves_total s hep
  unfold pseudoLegalMoves
  simp only [hpm]
  refine ⟨_, rfl, fun m hm => ?_⟩
  simp only [List.mem_append] at hm
  rcases hm with ((((hm | hm) | hm) | hm) | hm) | hm
  · exact ppm m hm
  · exact knightMoves_appliable s _ m hm
  · exact kingMoves_appliable s _ m hm
  · exact sliderMoves_appliable s _ _ _ m hm
  · exact sliderMoves_appliable s _ _ _ m hm
  · exact sliderMoves_appliable s _ _ _ m hm

theorem mem_of_mapM_some {α β : Type} (f : α → Option β) :
    ∀ (l : List α) (ys : List β), l.mapM f = some ys → ∀ y ∈ ys, ∃ x ∈ l, f x = some y := by
  intro l
  induction l with
  | nil =>
    intro ys h y hy
    rw [List.mapM_nil] at h
    cases h; cases hy
  | cons a t ih =>
    intro ys h y hy
    rw [List.mapM_cons] at h
    cases hfa : f a with
    | none => rw [hfa] at h; cases h
    | some b =>
      rw [hfa] at h
      cases ht : t.mapM f with
      | none => rw [ht] at h; cases h
      | some bs =>
        rw [ht] at h
        have : ys = b :: bs := (Option.some.inj h).symm
        subst this
        rcases List.mem_cons.1 hy with rfl | hy
        · exact ⟨a, List.mem_cons_self, hfa⟩
        · obtain ⟨x, hx, hfx⟩ := ih bs ht y hy
          exact ⟨x, List.mem_cons_of_mem _ hx, hfx⟩

theorem mapM_ne_none {α β : Type} (f : α → Option β) :
    ∀ l : List α, (∀ x ∈ l, f x ≠ Option.none) → ∃ ys, l.mapM f = some ys := by
  intro l h
  refine ⟨_, mapM_eq_filterMap f l (fun x hx => ?_)⟩
  cases hfx : f x with
  | none => exact absurd hfx (h x hx)
  | some y => exact ⟨y, rfl⟩

/-- `compute_legal_moves` never panics -/
theorem legalMoves?_total (s : State) (hep : FromFen s) : ∃ L, legalMoves? s = some L := by
  obtain ⟨ps, hps, pps⟩ := pseudoLegalMoves_total s hep
  obtain ⟨rs, hrs⟩ := mapM_ne_none (tryAsLegal s) ps (fun m hm => tryAsLegal_ne_none s m (pps m hm))
  unfold legalMoves?
  rw [hps]
  show ∃ L, (do let rs ← ps.mapM (tryAsLegal s); pure (rs.filterMap id)) = some L
  rw [hrs]
  exact ⟨_, rfl⟩

/-! ## part 6: the invariant is kept by `by_performing_move`, from any state and for any move -/

theorem fromFen_of_performMove (s : State) (mv : Move) (s' : State) (h : performMove s mv = some (.ok s')) :
    FromFen s' := by
  unfold performMove at h
  split at h
  · cases h
  · split at h
    · cases h
    · dsimp only at h
      split at h
      · cases h
      · simp only [Option.some.injEq, Except.ok.injEq] at h
        subst h
        intro e he
        dsimp only at he
        split at he
        · exact offset_lt he
        · cases he

/-- every entry of the legal-move list carries the result of `by_performing_move` on its move -/
theorem legalMoves?_performMove (s : State) (L : List (Move × State)) (h : legalMoves? s = some L)
    (r : Move × State) (hr : r ∈ L) : performMove s r.1 = some (.ok r.2) := by
  unfold legalMoves? at h
  cases hps : pseudoLegalMoves s with
  | none => rw [hps] at h; cases h
  | some ps =>
    rw [hps] at h
    have h' : (do let rs ← ps.mapM (tryAsLegal s); pure (rs.filterMap id)) = some L := h
    cases hrs : ps.mapM (tryAsLegal s) with
    | none => rw [hrs] at h'; cases h'
    | some rs =>
      rw [hrs] at h'
      have hL : rs.filterMap id = L := Option.some.inj h'
      subst hL
      obtain ⟨x, hx, hxr⟩ := List.mem_filterMap.1 hr
      have hxr : x = some r := hxr
      subst hxr
      obtain ⟨mv, _, hmv⟩ := mem_of_mapM_some _ _ _ hrs _ hx
      have hfst := tryAsLegal_fst s mv r hmv
      unfold tryAsLegal at hmv
      split at hmv
      · rename_i next hperf
        dsimp only at hmv
        split at hmv
        · simp only [Option.some.injEq] at hmv
          rw [← hmv] at hfst ⊢
          exact hperf
        · simp at hmv
      · cases hmv

/-! ## part 7: `by_performing_moves` -/

theorem performQuery_total (s : State) (hep : FromFen s) (q : MoveQuery) :
    (∃ e, performQuery s q = some (.error e)) ∨ ∃ s', performQuery s q = some (.ok s') ∧ FromFen s' := by
  obtain ⟨L, hL⟩ := legalMoves?_total s hep
  unfold performQuery
  rw [hL]
  dsimp only
  split
  · rename_i r hf
    have hr : r ∈ L := by
      have : r ∈ L.filter (fun r => q.test r.1) := by rw [hf]; exact List.mem_singleton.2 rfl
      exact (List.mem_filter.1 this).1
    have hp := legalMoves?_performMove s L hL r hr
    exact Or.inr ⟨r.2, hp, fromFen_of_performMove s r.1 r.2 hp⟩
  · exact Or.inl ⟨_, rfl⟩
  · exact Or.inl ⟨_, rfl⟩

theorem performQueries_total (qs : List MoveQuery) :
    ∀ s : State, FromFen s → performQueries s qs ≠ Option.none := by
  induction qs with
  | nil => intro s _; simp [performQueries]
  | cons q qs ih =>
    intro s hep
    rcases performQuery_total s hep q with ⟨e, he⟩ | ⟨s', hs', hep'⟩
    · rw [C02.performQueries_error s q qs e he]; simp
    · rw [C02.performQueries_ok s s' q qs hs']; exact ih s' hep'

/-! ## part 8: what the FEN reader returns satisfies the invariant -/

theorem gate_ep (b1 b2 b3 b5 b6 : Bool) (f r : Char)
    (h : ¬ (!(b1 && b2 && b3 && ([f, r] == ['-'] ||
      decide ('a' ≤ f) && decide (f ≤ 'h') && decide ('1' ≤ r) && decide (r ≤ '8')) && b5 && b6)) = true) :
    mkSq (r.toNat - '1'.toNat) (f.toNat - 'a'.toNat) < 64 := by
  have hne : ([f, r] == ['-']) = false := by
    show ([f, r] == ['-']) = false
    simp
  rw [hne] at h
  simp only [Bool.false_or, Bool.not_eq_true', Bool.not_eq_false, Bool.and_eq_true, decide_eq_true_eq] at h
  obtain ⟨⟨⟨_, ⟨⟨⟨h1, h2⟩, h3⟩, h4⟩⟩, _⟩, _⟩ := h
  rw [FenL.char_le_iff] at h1 h2 h3 h4
  have a1 : ('a' : Char).toNat = 97 := by decide
  have a2 : ('h' : Char).toNat = 104 := by decide
  have a3 : ('1' : Char).toNat = 49 := by decide
  have a4 : ('8' : Char).toNat = 56 := by decide
  rw [a1] at h1; rw [a2] at h2; rw [a3] at h3; rw [a4] at h4
  unfold mkSq
  rw [a1, a3]
  omega

theorem fromFen_of_parseChars (checked : Bool) (cs : List Char) (st : State)
    (h : parseFenChars checked cs = .ok st) : FromFen st := by
  unfold parseFenChars at h
  split at h
  · rename_i board side castle ep half full _
    rcases ep with _ | ⟨f, _ | ⟨r, _ | ⟨x, rest⟩⟩⟩
    all_goals dsimp only at h
    all_goals repeat' (split at h)
    all_goals first
      | (cases h; done)
      | (simp only [Res.ok.injEq] at h
         subst h
         intro e he
         first
           | (cases he; done)
           | (simp only [Option.some.injEq] at he
              subst he
              apply gate_ep _ _ _ _ _ f r
              assumption))
  · cases h

theorem fromFen_of_parse (checked : Bool) (str : String) (st : State) (h : parseFen checked str = .ok st) :
    FromFen st := fromFen_of_parseChars checked str.toList st h

theorem fromFen_startState : FromFen startState := by decide +kernel

end Wee
